(** C09 — memory store with the size limit: the enforcer evicts by (mailbox, id); that this hits exactly the
    message whose tag it popped from its book is read off the commit log, which works as a registry: every message
    in a mailbox and every entry of the book (or in the enforcer's hands) has its delivery's commit
    (T t, OAdd mailbox tag size, RId id) in the log; ids are distinct per mailbox (Proofs/ConcMemIds.v) and a tag is
    committed at most once. *)
From IV Require Import Model.Conc Model.ConcMem Proofs.ConcBase Proofs.ConcMemInv Proofs.ConcMemLin Proofs.ConcMemLinEnf Proofs.ConcMemIds Proofs.ConcMemLogOps Proofs.ConcMemTerm Proofs.ConcMemTags Proofs.ConcMemOwn Proofs.ConcMemOwn2 Proofs.ConcMemOwn2Enf.
From Coq Require Import Lia ZifyN ZifyNat ZifyBool.
Local Open Scope nat_scope.

(* ------------------------------------------------------------------ assoc-list facts *)

Lemma aget_in {V} k (v : V) l : aget k l = Some v -> In (k, v) l.
Proof.
  induction l as [|[k' v'] l IH]; cbn [aget]; [discriminate|].
  destruct (N.eqb_spec k' k) as [->|]; [intros H; inversion H; subst; left; reflexivity | right; auto].
Qed.
Lemma in_aset {V} k (v : V) l k0 v0 : In (k0, v0) (aset k v l) -> (k0 = k /\ v0 = v) \/ In (k0, v0) l.
Proof.
  induction l as [|[k' v'] l IH]; cbn [aset].
  - intros [H|[]]. inversion H; auto.
  - destruct (N.eqb_spec k' k) as [->|].
    + intros [H|H]; [inversion H; auto | right; right; exact H].
    + intros [H|H]; [right; left; exact H | destruct (IH H); auto; right; right; assumption].
Qed.
Lemma keys_aset {V} k (v : V) l : NoDup (map fst l) -> NoDup (map fst (aset k v l)).
Proof.
  induction l as [|[k' v'] l IH]; cbn [aset map fst]; intros H.
  - constructor; [intros [] | constructor].
  - inversion H as [|? ? Hx Hl]; subst. destruct (N.eqb_spec k' k) as [->|Hne]; cbn [map fst].
    + constructor; assumption.
    + constructor; [|apply IH; exact Hl]. intros Hin. apply Hx.
      apply in_map_iff in Hin. destruct Hin as ([k0 v0] & Hk & Hin). cbn in Hk. subst k0.
      destruct (in_aset _ _ _ _ _ Hin) as [[-> _]|Hin']; [congruence|].
      apply in_map_iff. exists (k', v0). auto.
Qed.
Lemma aget_nodup {V} k (v : V) l : NoDup (map fst l) -> In (k, v) l -> aget k l = Some v.
Proof.
  induction l as [|[k' v'] l IH]; cbn [aget map fst]; intros Hn Hin; [destruct Hin|]. destruct Hin as [H|H].
  - inversion H; subst. now rewrite N.eqb_refl.
  - inversion Hn as [|? ? Hx Hl]; subst. destruct (N.eqb_spec k' k) as [->|].
    + exfalso. apply Hx. apply in_map_iff. exists (k, v). auto.
    + apply IH; assumption.
Qed.

(* ------------------------------------------------------------------ the invariants *)

Definition has_commit (log : list logent) (mb : mbname) (g id : N) : Prop :=
  exists t z, In (T t, OAdd mb g z, RId id) log.

Definition GLb (bs : list (mbname * mbx)) (log : list logent) : Prop :=
  forall mb x m, In (mb, x) bs -> In m (b_msgs (x_box x)) -> has_commit log mb (m_tag m) (m_id m).
Definition held (e : enf) (k : ent) : Prop :=
  In k (e_all e) \/ exists w, e_pc e = EIncoming k w \/ e_pc e = EEvLock k w.
Definition GE (s : msys) : Prop := forall k, held (s_enf s) k -> has_commit (s_log s) (fst k) (etag k) (m_id (snd k)).
Definition KN (s : msys) : Prop := NoDup (map fst (s_boxes s)).

Definition lg (g : N) (e : logent) : nat :=
  match e with (_, OAdd _ g' _, RId _) => b2n (N.eqb g g') | _ => 0 end.
Definition LG (g : N) (log : list logent) : nat := sumf (lg g) log.
Definition LGc (g : N) (s : msys) : Prop := LG g (s_log s) + UB g s <= 1.

Record regI (s : msys) : Prop := { r_kn : KN s; r_gl : GLb (s_boxes s) (s_log s); r_ge : GE s }.

Lemma has_commit_mono log e mb g id : has_commit log mb g id -> has_commit (log ++ [e]) mb g id.
Proof. intros (t & z & H). exists t, z. apply in_or_app. auto. Qed.
Lemma GLb_mono bs log e : GLb bs log -> GLb bs (log ++ [e]).
Proof. intros H mb x m H1 H2. apply has_commit_mono. eauto. Qed.
Lemma GLb_aset bs log mb x' : GLb bs log ->
  (forall m, In m (b_msgs (x_box x')) -> has_commit log mb (m_tag m) (m_id m)) -> GLb (aset mb x' bs) log.
Proof.
  intros H Hx mb0 x0 m Hin Hm. destruct (in_aset _ _ _ _ _ Hin) as [[-> ->]|Hin']; [apply Hx; exact Hm | eauto].
Qed.
Lemma GLb_getx s mb m : GLb (s_boxes s) (s_log s) -> In m (b_msgs (x_box (getx mb s))) -> has_commit (s_log s) mb (m_tag m) (m_id m).
Proof.
  intros H Hm. unfold getx in Hm. destruct (aget mb (s_boxes s)) as [x|] eqn:E; [|destruct Hm].
  apply aget_in in E. eauto.
Qed.

Lemma cap_loop_incl fuel cap b ev b' ev' m : cap_loop fuel cap b ev = (b', ev') -> In m (b_msgs b') -> In m (b_msgs b).
Proof.
  revert b ev; induction fuel as [|f IH]; intros b ev H Hm; cbn [cap_loop] in H.
  - inversion H; subst; exact Hm.
  - destruct (N.leb (N.of_nat (length (b_msgs b))) cap); [inversion H; subst; exact Hm|].
    destruct (find_msg (b_first b) (b_msgs b)) as [old|] eqn:E.
    + specialize (IH _ _ H Hm). cbn [b_msgs] in IH. eapply del_msg_incl; eauto.
    + exact (IH _ _ H Hm).
Qed.
Lemma box_cap_incl cap b b' ev m : box_cap cap b = (b', ev) -> In m (b_msgs b') -> In m (b_msgs b).
Proof.
  unfold box_cap. destruct (N.eqb cap 0); intros H; [inversion H; subst; auto|]. eapply cap_loop_incl; eauto.
Qed.

Lemma ent_take_incl g l k r x : ent_take g l = Some (k, r) -> In x r -> In x l.
Proof.
  revert k r; induction l as [|a l IH]; intros k r; cbn [ent_take]; [discriminate|].
  destruct (N.eqb (m_tag (snd a)) g).
  - intros H; inversion H; subst. right; assumption.
  - destruct (ent_take g l) as [[y r']|]; [|discriminate].
    intros H; inversion H; subst. intros [->|Hin]; [left; reflexivity | right; eapply IH; eauto].
Qed.

#[local] Hint Rewrite log_setpc log_setx log_addlog log_with_enf log_take_done : sys.
Lemma boxes_setx mb x s : s_boxes (setx mb x s) = aset mb x (s_boxes s). Proof. reflexivity. Qed.
#[local] Hint Rewrite boxes_setx : sys.
#[local] Hint Rewrite boxes_setpc boxes_addlog boxes_with_enf boxes_take_done : sys.

Lemma KN_touch mb s : KN s -> KN (touch mb s).
Proof. unfold KN, touch. destruct (aget mb (s_boxes s)); [auto|]. cbn [s_boxes setx with_boxes]. apply keys_aset. Qed.
Lemma GLb_touch mb s log : GLb (s_boxes s) log -> GLb (s_boxes (touch mb s)) log.
Proof.
  unfold touch. destruct (aget mb (s_boxes s)); [auto|]. intros H. cbn [s_boxes setx with_boxes].
  apply GLb_aset; [exact H | intros m []].
Qed.

Lemma box_seen_in id b b' r m : box_seen id b = (b', r) -> In m (b_msgs b') ->
  exists m', In m' (b_msgs b) /\ m_tag m = m_tag m' /\ m_id m = m_id m'.
Proof.
  unfold box_seen. destruct (find_msg id (b_msgs b)); intros H Hm; inversion H; subst; [|exists m; auto].
  cbn [b_msgs] in Hm. destruct (mark_seen_in _ _ _ Hm) as (m' & H1 & H2 & _ & H3). exists m'; auto.
Qed.
Lemma box_remove_in id b b' o m : box_remove id b = (b', o) -> In m (b_msgs b') -> In m (b_msgs b).
Proof.
  unfold box_remove. destruct (find_msg id (b_msgs b)); intros H Hm; inversion H; subst; [|exact Hm].
  cbn [b_msgs] in Hm. eapply del_msg_incl; eauto.
Qed.

Lemma regI_thr ops s t c s' : invR ops s -> regI s -> step_thr s t c = SOk s' -> regI s'.
Proof.
  intros HR [K G Ge] H. unfold step_thr in H.
  destruct (nth_error (s_thr s) t) as [p|] eqn:Ep; [|discriminate].
  pose proof (HR _ _ Ep) as Hself.
  destruct p; try discriminate.
  all: split_step H.
  all: inv_ok H.
  all: constructor.
  all: lazymatch goal with
       | |- KN _ => unfold KN in *; autorewrite with sys; first [exact K | apply keys_aset; exact K | apply KN_touch; exact K]
       | |- GE _ =>
           intros k Hk; unfold held in Hk; autorewrite with sys in *;
           cbn [s_enf take_done with_enf with_epc e_all e_pc] in Hk;
           first [ apply has_commit_mono; apply Ge; exact Hk | apply Ge; exact Hk | idtac ]
       | |- GLb _ _ =>
           autorewrite with sys; rewrite ?log_touch;
           first [ exact G | apply GLb_mono; exact G | apply GLb_touch; exact G
                 | apply GLb_aset; [first [exact G | apply GLb_mono; exact G] | intros m0 Hm0; cbn [x_box] in Hm0] ]
       end.
  all: try match goal with Hq : box_insert _ _ _ = _ |- _ =>
         unfold box_insert in Hq; inv_ok Hq; cbn [b_msgs] in Hm0; apply in_app_or in Hm0;
         destruct Hm0 as [Hm0|[<-|[]]];
         [ apply has_commit_mono; eapply GLb_getx; eauto
         | cbn [m_tag m_id]; eexists _, _; apply in_or_app; right; left; reflexivity ] end.
  all: try match goal with Hq : box_cap _ _ = _ |- _ => eapply GLb_getx; [exact G|]; eapply box_cap_incl; eauto end.
  all: try match goal with Hq : box_seen _ _ = _ |- _ =>
         destruct (box_seen_in _ _ _ _ _ Hq Hm0) as (m' & Hm' & -> & ->); apply has_commit_mono; eapply GLb_getx; eauto end.
  all: try match goal with Hq : box_remove _ _ = _ |- has_commit (_ ++ _) _ _ _ =>
         apply has_commit_mono; eapply GLb_getx; [exact G|]; eapply box_remove_in; eauto end.
  all: try match goal with Hq : box_purge _ = _ |- _ => unfold box_purge in Hq; inv_ok Hq; destruct Hm0 end.
  all: try (destruct Hk as [Hk|(w & [Hk|Hk])]; [apply Ge; left; exact Hk | | ]; try discriminate).
  inv_ok Hk. cbn [rfact committed] in Hself. destruct Hself as [_ Hin]. unfold etag. cbn [fst snd]. eexists _, _. exact Hin.
Qed.

Lemma regI_enf s s' : regI s -> step_enf s = SOk s' -> regI s'.
Proof.
  intros [K G Ge] H. unfold step_enf in H.
  destruct (s_max s) as [max|] eqn:Emax; [|discriminate].
  destruct (e_pc (s_enf s)) eqn:Epc; try discriminate.
  all: split_enf H.
  all: inv_ok H.
  all: constructor.
  all: lazymatch goal with
       | |- KN _ => unfold KN in *; autorewrite with sys; first [exact K | apply keys_aset; exact K | apply KN_touch; exact K]
       | |- GE _ =>
           intros k0 Hk; unfold held, after_evict in Hk; autorewrite with sys in *;
           repeat match type of Hk with context [if ?b then _ else _] => destruct b end;
           cbn [s_enf with_enf with_epc finish_enf e_all e_pc] in Hk; rewrite ?log_touch
       | |- GLb _ _ =>
           autorewrite with sys; rewrite ?log_touch;
           first [ exact G | apply GLb_mono; exact G | apply GLb_touch; exact G
                 | apply GLb_aset; [first [exact G | apply GLb_mono; exact G] | intros m0 Hm0; cbn [x_box] in Hm0] ]
       end.
  all: try match goal with Hq : box_remove _ _ = _, Hm0 : In _ (b_msgs _) |- _ =>
         apply has_commit_mono; eapply GLb_getx; [exact G|]; eapply box_remove_in; eauto end.
  all: try apply has_commit_mono.
  all: apply Ge; unfold held; rewrite ?Epc.
  all: destruct Hk as [Hk|(w0 & [Hk|Hk])]; try discriminate; try (inv_ok Hk).
  all: try (left; assumption).
  all: try (apply in_app_or in Hk; destruct Hk as [Hk|[<-|[]]]; [left; assumption | right; eexists; left; reflexivity]).
  all: try match goal with Hq : e_all _ = _ :: _ |- _ => left; rewrite Hq; first [right; assumption | left; reflexivity] end.
  all: try (left; eapply ent_take_incl; eauto).
Qed.

Lemma LG_snoc g log e : LG g (log ++ [e]) = LG g log + lg g e.
Proof. unfold LG, sumf, list_sum. induction log as [|x l IH]; cbn [app map fold_right]; lia. Qed.

Lemma LGc_thr g s t c s' : LGc g s -> step_thr s t c = SOk s' -> LGc g s'.
Proof.
  intros HG H. unfold step_thr in H.
  destruct (nth_error (s_thr s) t) as [p|] eqn:Ep; [|discriminate].
  destruct p; try discriminate.
  all: split_step H.
  all: inv_ok H.
  all: unfold LGc, UB in *; autorewrite with sys; rewrite ?log_touch, ?LG_snoc.
  all: match goal with Ep : nth_error _ _ = Some _ |- context [set_nth _ ?q (s_thr _)] =>
         pose proof (sumf_set_nth (ub g) _ _ _ q Ep) as Hu end.
  all: rewrite ?ub_next_add, ?ub_purge_next in *; cbn [ub lg] in *.
  all: repeat match goal with
       | |- context [b2n ?b] => let n := fresh "n" in pose proof (b2n_le b); set (n := b2n b) in *; clearbody n
       | H : context [b2n ?b] |- _ => let n := fresh "n" in pose proof (b2n_le b); set (n := b2n b) in *; clearbody n
       end.
  all: lia.
Qed.

Lemma LGc_enf g s s' : LGc g s -> step_enf s = SOk s' -> LGc g s'.
Proof.
  intros HG H. unfold step_enf in H.
  destruct (s_max s) as [max|] eqn:Emax; [|discriminate].
  destruct (e_pc (s_enf s)) eqn:Epc; try discriminate.
  all: split_enf H.
  all: inv_ok H.
  all: unfold LGc, UB, after_evict in *; autorewrite with sys; rewrite ?log_touch, ?LG_snoc.
  all: repeat match goal with |- context [if ?b then _ else _] => destruct b end.
  all: autorewrite with sys; cbn [lg]; lia.
Qed.

Lemma LG_unique g log e1 e2 : LG g log <= 1 -> In e1 log -> In e2 log -> lg g e1 = 1 -> lg g e2 = 1 -> e1 = e2.
Proof.
  unfold LG, sumf, list_sum. induction log as [|x l IH]; cbn [map fold_right]; intros Hc H1 H2 L1 L2; [destruct H1|].
  assert (Hpos : forall e, In e l -> lg g e = 1 -> 1 <= fold_right Init.Nat.add 0 (map (lg g) l)).
  { clear. intros e. induction l as [|y l IH]; intros Hin He; [destruct Hin|]. cbn [map fold_right].
    destruct Hin as [->|Hin]; [lia | specialize (IH Hin He); lia]. }
  destruct H1 as [->|H1], H2 as [->|H2]; auto.
  - specialize (Hpos _ H2 L2). lia.
  - specialize (Hpos _ H1 L1). lia.
  - apply IH; auto. lia.
Qed.

Lemma LVb_pos g bs : 1 <= LVb g bs -> exists mb x m, In (mb, x) bs /\ In m (b_msgs (x_box x)) /\ m_tag m = g.
Proof.
  unfold LVb, sumf, list_sum. induction bs as [|[mb x] bs IH]; cbn [map fold_right snd]; intros H; [lia|].
  destruct (Nat.eq_dec (cnt g (tags (b_msgs (x_box x)))) 0) as [Hz|Hz].
  - destruct IH as (mb' & x' & m & H1 & H2 & H3); [lia|]. exists mb', x', m. split; [right; exact H1 | auto].
  - exists mb, x. clear -Hz. induction (b_msgs (x_box x)) as [|m l IHl]; [cbn in Hz; congruence|].
    unfold tags in *. cbn [map cnt] in Hz. destruct (N.eqb_spec g (m_tag m)) as [->|Hne].
    + exists m. split; [left; reflexivity | split; [left; reflexivity | reflexivity]].
    + cbn [b2n] in Hz. destruct IHl as (m' & H1 & H2 & H3); [lia|]. exists m'. split; [exact H1 | split; [right; exact H2 | exact H3]].
Qed.

Lemma find_msg_some l m : In m l -> find_msg (m_id m) l <> None.
Proof.
  induction l as [|x l IH]; intros Hin; [destruct Hin|]. cbn [find_msg].
  destruct (N.eqb_spec (m_id x) (m_id m)); [congruence|]. destruct Hin as [->|Hin]; [congruence | auto].
Qed.

(** The two registry facts the ownership invariant needs at the enforcer's removal by (mailbox, id). *)
Lemma reg_facts s : regI s -> invI s -> (forall g, LGc g s) -> reg1 s /\ reg2 s.
Proof.
  intros [K G Ge] HI HG. split.
  - intros k w b m' Epc Hrem.
    assert (Hm : In m' (b_msgs (x_box (getx (fst k) s))) /\ m_id m' = m_id (snd k)).
    { unfold box_remove in Hrem. destruct (find_msg _ _) eqn:E; inversion Hrem; subst. apply find_msg_in in E. exact E. }
    destruct Hm as [Hin Hid].
    destruct (GLb_getx _ _ _ G Hin) as (t1 & z1 & H1).
    destruct (Ge k) as (t2 & z2 & H2); [right; exists w; right; exact Epc|].
    destruct (HI (fst k)) as [Hnd _]. unfold add_ids in Hnd.
    assert (E : (T t1, OAdd (fst k) (m_tag m') z1, RId (m_id m')) = (T t2, OAdd (fst k) (etag k) z2, RId (m_id (snd k)))).
    { eapply NoDup_map_inj; [exact Hnd | | | cbn [idof snd]; congruence].
      all: apply filter_In; split; [assumption|]; cbn [is_add]; apply N.eqb_refl. }
    now inversion E.
  - intros k w b Epc Hrem.
    destruct (Nat.eq_dec (LV (etag k) s) 0) as [Hz|Hz]; [exact Hz|exfalso].
    destruct (LVb_pos (etag k) (s_boxes s)) as (mb & x & m & H1 & H2 & H3); [unfold LV in Hz; lia|].
    destruct (G _ _ _ H1 H2) as (t1 & z1 & L1). rewrite H3 in L1.
    destruct (Ge k) as (t2 & z2 & L2); [right; exists w; right; exact Epc|].
    assert (E : (T t1, OAdd mb (etag k) z1, RId (m_id m)) = (T t2, OAdd (fst k) (etag k) z2, RId (m_id (snd k)))).
    { specialize (HG (etag k)). unfold LGc in HG.
      eapply (LG_unique (etag k)); [ | exact L1 | exact L2 | | ]; [lia | cbn [lg]; now rewrite N.eqb_refl | cbn [lg]; now rewrite N.eqb_refl]. }
    assert (Emb : mb = fst k) by congruence. assert (Eid : m_id m = m_id (snd k)) by congruence. subst mb.
    assert (Hx : getx (fst k) s = x). { unfold getx. now rewrite (aget_nodup _ _ _ K H1). }
    unfold box_remove in Hrem. rewrite Hx in Hrem.
    pose proof (find_msg_some _ _ H2) as Hf. rewrite Eid in Hf.
    destruct (find_msg (m_id (snd k)) (b_msgs (x_box x))); [inversion Hrem | congruence].
Qed.

(** C15: "is dropped" — a listener that returned an error on a broadcast, or whose RemoveListener
    has run, is out of the hub's registrations and is never called again. *)
From Coq Require Import Lia.
From IV Require Import Base.Bytes Model.Hub Proofs.HubBasics Proofs.HubInv.
Local Open Scope nat_scope.

(** The listener call that returns an error during a broadcast unregisters the listener at once. *)
Theorem error_unregisters :
  forall c ch h d w s s' h',
    stopped h = false -> work h = d :: w -> find_l (d_to d) (ls h) = Some s ->
    deliver c ch s (d_ev d) = Some (s', true) -> d_drop d = true ->
    hub_step c ch h = Some h' -> ~ In (d_to d) (regs h').
Proof.
  intros c ch h d w s s' h' S W F D Dr E. unfold hub_step in E. rewrite S, W, F, D, Dr in E.
  inversion E; subst h'. cbn [regs andb]. rewrite rm_nat_In. tauto.
Qed.

(** So does the RemoveListener op (what Close submits). *)
Theorem remove_unregisters :
  forall c ch h l q h',
    stopped h = false -> work h = [] -> opq h = ORemove l :: q ->
    hub_step c ch h = Some h' -> ~ In l (regs h') /\ work h' = [].
Proof.
  intros c ch h l q h' S W Q E. unfold hub_step in E. rewrite S, W, Q in E. inversion E; subst h'.
  cbn [exec_op regs work]. split; auto. rewrite rm_nat_In. tauto.
Qed.

(** Once a listener that has joined is out of the registrations and no call to it is outstanding,
    it stays out and no call to it is ever scheduled again — under every continuation: the hub has
    forgotten it (a listener is added at most once). *)
Definition gone (l : nat) (h : hub) : Prop :=
  In l (adds (hlog h)) /\ ~ In l (regs h) /\ forall d, In d (work h) -> d_to d <> l.

Theorem dropped_listener_never_called_again_step :
  forall n c h a h' l, Inv n h -> gone l h -> step c h a = Some h' -> gone l h'.
Proof.
  intros n c h a h' l I (G1 & G2 & G3) E. destruct a; cbn [step] in E.
  - destruct (is_add o); [discriminate|]. unfold enq in E. destruct (stopped h); [inversion E; subst; repeat split; auto|].
    destruct (length (opq h) <? opcap c); inversion E; subst; repeat split; auto.
  - destruct (find_l l0 (ls h)); [discriminate|]. unfold enq in E. cbn [set_ls stopped opq] in E.
    destruct (stopped h); [inversion E; subst; repeat split; auto|].
    destruct (length (opq h) <? opcap c); inversion E; subst; repeat split; auto.
  - destruct (find_l l0 (ls h)) as [x|]; [|discriminate]. destruct (lclosed x); inversion E; subst; repeat split; auto.
  - destruct (find_l l0 (ls h)) as [x|]; [|discriminate]. destruct (lrm x); [|discriminate].
    unfold enq in E. cbn [set_ls stopped opq] in E. destruct (stopped h); [inversion E; subst; repeat split; auto|].
    destruct (length (opq h) <? opcap c); inversion E; subst; repeat split; auto.
  - destruct (find_l l0 (ls h)) as [x|]; [|discriminate]. destruct (l_take x); [|discriminate].
    inversion E; subst; repeat split; auto.
  - unfold hub_step in E. destruct (stopped h); [discriminate|]. destruct (work h) as [|d w] eqn:W.
    + destruct (opq h) as [|o q] eqn:Q; [discriminate|]. inversion E; subst h'; clear E.
      assert (G1' : In l (adds (hlog h ++ [o]))) by (rewrite adds_app, in_app_iff; auto).
      assert (BC : forall e, forall d, In d (map (fun x => mkD e x true) (regs h)) -> d_to d <> l).
      { intros e d H. apply in_map_iff in H. destruct H as (x & <- & Hx). cbn. intro X. subst. tauto. }
      destruct o; cbn [exec_op hlog regs work].
      * split; [exact G1'|]. split; [exact G2|]. apply BC.
      * split; [exact G1'|]. split; [exact G2|]. apply BC.
      * assert (NL : l0 <> l). { intro X. subst l0. apply (not_added_yet n h l q I Q). exact G1. }
        split; [exact G1'|]. split.
        -- intro X. apply add_nat_In in X. destruct X as [X|X]; [tauto|congruence].
        -- intros d H. apply in_map_iff in H. destruct H as (x & <- & Hx). cbn. exact NL.
      * split; [exact G1'|]. split; [intro X; apply rm_nat_In in X; tauto|intros d []].
      * split; [exact G1'|]. split; [exact G2|intros d []].
    + assert (G3' : forall d0, In d0 w -> d_to d0 <> l) by (intros d0 H; apply G3; right; exact H).
      destruct (find_l (d_to d) (ls h)) as [x|].
      * destruct (deliver c choice x (d_ev d)) as [[x' err]|]; [|discriminate]. inversion E; subst h'.
        cbn [hlog regs work]. repeat split; auto. destruct (err && d_drop d); auto. intro X. apply rm_nat_In in X. tauto.
      * inversion E; subst h'. cbn [hlog regs work]. repeat split; auto.
  - destruct (work h) eqn:W; [|discriminate]. inversion E; subst. cbn [hlog regs work]. repeat split; auto.
Qed.

Theorem dropped_listener_never_called_again :
  forall n c acts h l,
    run c (hub_init n) acts = Some h -> gone l h ->
    forall acts' h', run c h acts' = Some h' -> gone l h'.
Proof.
  intros n c acts h l R G acts'. apply reachable_inv in R. revert h R G.
  induction acts' as [|a t IH]; intros h I G h' R'; cbn [run] in R'.
  - inversion R'; subst; auto.
  - destruct (step c h a) as [h1|] eqn:E; [|discriminate].
    apply (IH h1); auto.
    + eapply inv_step; eauto.
    + eapply dropped_listener_never_called_again_step; eauto.
Qed.

(** C12: the structure of RetentionScanner.Start / DoScan / Join as the translator reads it from
    pkg/storage/retention.go on every run (coq/Gen/RetentionShape.v: statement skeleton with
    logging and metrics stripped, the disabled-guard and the minute test) against the structure
    the models [Model/Retention.v] (sc_step, scan) and [Model/RetentionLoop.v] (linit, loop_step)
    were written from. A statement added, removed, reordered or changed in either function — a
    select arm, the close of retentionShutdown on the disabled path, delete-then-sleep in the
    callback, the cutoff expression, the removal test — makes this file fail.

    Which model clause each region is:
      Start   lines 1-4   linit: period <= 0 ⇒ mode LExit, closed (Join returns)
              lines 8-16  loop_step LWait: not due ⇒ select {ctx.Done ⇒ exit | timer}
              lines 17-19 loop_step LWait, due ⇒ l_last := now; LScan (now - period)
              lines 20-24 loop_step LCheck: select {ctx.Done ⇒ exit | default ⇒ LWait}
              line  26    lexit: closed := true
      DoScan  line 1      cutoff = now - period (loop_step: LScan (l_now - period))
              lines 3-10  sc_step PBox mb (v :: rest): Before(cutoff) ⇒ RemoveMessage(mailbox, id)
              lines 11-15 sc_step PBox mb []: select {ctx.Done ⇒ PDone true | timer ⇒ PIdle}
              line 16     the walk goes on (return true)
      Join    waits for retentionShutdown to be closed: l_closed *)
From Coq Require Import ZArith Lia.
From IV Require Import Base.Bytes Base.BytesFacts Model.StoreSpec Model.Retention Model.RetentionLoop Gen.RetentionShape.
Open Scope N_scope.

Definition expected_start : list str :=
  [(* if rs.retentionPeriod <= 0 { *) [105; 102; 32; 114; 115; 46; 114; 101; 116; 101; 110; 116; 105; 111; 110; 80; 101; 114; 105; 111; 100; 32; 60; 61; 32; 48; 32; 123];
   (* close(rs.retentionShutdown) *) [99; 108; 111; 115; 101; 40; 114; 115; 46; 114; 101; 116; 101; 110; 116; 105; 111; 110; 83; 104; 117; 116; 100; 111; 119; 110; 41];
   (* return *) [114; 101; 116; 117; 114; 110];
   (* } *) [125];
   (* start := time.Now() *) [115; 116; 97; 114; 116; 32; 58; 61; 32; 116; 105; 109; 101; 46; 78; 111; 119; 40; 41];
   (* retentionLoop: *) [114; 101; 116; 101; 110; 116; 105; 111; 110; 76; 111; 111; 112; 58];
   (* for { *) [102; 111; 114; 32; 123];
   (* since := time.Since(start) *) [115; 105; 110; 99; 101; 32; 58; 61; 32; 116; 105; 109; 101; 46; 83; 105; 110; 99; 101; 40; 115; 116; 97; 114; 116; 41];
   (* if since < time.Minute { *) [105; 102; 32; 115; 105; 110; 99; 101; 32; 60; 32; 116; 105; 109; 101; 46; 77; 105; 110; 117; 116; 101; 32; 123];
   (* dur := time.Minute - since *) [100; 117; 114; 32; 58; 61; 32; 116; 105; 109; 101; 46; 77; 105; 110; 117; 116; 101; 32; 45; 32; 115; 105; 110; 99; 101];
   (* select { *) [115; 101; 108; 101; 99; 116; 32; 123];
   (* case <-ctx.Done(): *) [99; 97; 115; 101; 32; 60; 45; 99; 116; 120; 46; 68; 111; 110; 101; 40; 41; 58];
   (* break retentionLoop *) [98; 114; 101; 97; 107; 32; 114; 101; 116; 101; 110; 116; 105; 111; 110; 76; 111; 111; 112];
   (* case <-time.After(dur): *) [99; 97; 115; 101; 32; 60; 45; 116; 105; 109; 101; 46; 65; 102; 116; 101; 114; 40; 100; 117; 114; 41; 58];
   (* } *) [125];
   (* } *) [125];
   (* start = time.Now() *) [115; 116; 97; 114; 116; 32; 61; 32; 116; 105; 109; 101; 46; 78; 111; 119; 40; 41];
   (* if err := rs.DoScan(ctx); err != nil { *) [105; 102; 32; 101; 114; 114; 32; 58; 61; 32; 114; 115; 46; 68; 111; 83; 99; 97; 110; 40; 99; 116; 120; 41; 59; 32; 101; 114; 114; 32; 33; 61; 32; 110; 105; 108; 32; 123];
   (* } *) [125];
   (* select { *) [115; 101; 108; 101; 99; 116; 32; 123];
   (* case <-ctx.Done(): *) [99; 97; 115; 101; 32; 60; 45; 99; 116; 120; 46; 68; 111; 110; 101; 40; 41; 58];
   (* break retentionLoop *) [98; 114; 101; 97; 107; 32; 114; 101; 116; 101; 110; 116; 105; 111; 110; 76; 111; 111; 112];
   (* default: *) [100; 101; 102; 97; 117; 108; 116; 58];
   (* } *) [125];
   (* } *) [125];
   (* close(rs.retentionShutdown) *) [99; 108; 111; 115; 101; 40; 114; 115; 46; 114; 101; 116; 101; 110; 116; 105; 111; 110; 83; 104; 117; 116; 100; 111; 119; 110; 41]].

Definition expected_doscan : list str :=
  [(* cutoff := time.Now().Add(-1 * rs.retentionPeriod) *) [99; 117; 116; 111; 102; 102; 32; 58; 61; 32; 116; 105; 109; 101; 46; 78; 111; 119; 40; 41; 46; 65; 100; 100; 40; 45; 49; 32; 42; 32; 114; 115; 46; 114; 101; 116; 101; 110; 116; 105; 111; 110; 80; 101; 114; 105; 111; 100; 41];
   (* err := rs.ds.VisitMailboxes(func) { *) [101; 114; 114; 32; 58; 61; 32; 114; 115; 46; 100; 115; 46; 86; 105; 115; 105; 116; 77; 97; 105; 108; 98; 111; 120; 101; 115; 40; 102; 117; 110; 99; 41; 32; 123];
   (* for range messages { *) [102; 111; 114; 32; 114; 97; 110; 103; 101; 32; 109; 101; 115; 115; 97; 103; 101; 115; 32; 123];
   (* if msg.Date().Before(cutoff) { *) [105; 102; 32; 109; 115; 103; 46; 68; 97; 116; 101; 40; 41; 46; 66; 101; 102; 111; 114; 101; 40; 99; 117; 116; 111; 102; 102; 41; 32; 123];
   (* if err := rs.ds.RemoveMessage(msg.Mailbox(), msg.ID()); err != nil { *) [105; 102; 32; 101; 114; 114; 32; 58; 61; 32; 114; 115; 46; 100; 115; 46; 82; 101; 109; 111; 118; 101; 77; 101; 115; 115; 97; 103; 101; 40; 109; 115; 103; 46; 77; 97; 105; 108; 98; 111; 120; 40; 41; 44; 32; 109; 115; 103; 46; 73; 68; 40; 41; 41; 59; 32; 101; 114; 114; 32; 33; 61; 32; 110; 105; 108; 32; 123];
   (* } else { *) [125; 32; 101; 108; 115; 101; 32; 123];
   (* } *) [125];
   (* } else { *) [125; 32; 101; 108; 115; 101; 32; 123];
   (* } *) [125];
   (* } *) [125];
   (* select { *) [115; 101; 108; 101; 99; 116; 32; 123];
   (* case <-ctx.Done(): *) [99; 97; 115; 101; 32; 60; 45; 99; 116; 120; 46; 68; 111; 110; 101; 40; 41; 58];
   (* return false *) [114; 101; 116; 117; 114; 110; 32; 102; 97; 108; 115; 101];
   (* case <-time.After(rs.retentionSleep): *) [99; 97; 115; 101; 32; 60; 45; 116; 105; 109; 101; 46; 65; 102; 116; 101; 114; 40; 114; 115; 46; 114; 101; 116; 101; 110; 116; 105; 111; 110; 83; 108; 101; 101; 112; 41; 58];
   (* } *) [125];
   (* return true *) [114; 101; 116; 117; 114; 110; 32; 116; 114; 117; 101];
   (* } *) [125];
   (* if err != nil { *) [105; 102; 32; 101; 114; 114; 32; 33; 61; 32; 110; 105; 108; 32; 123];
   (* return err *) [114; 101; 116; 117; 114; 110; 32; 101; 114; 114];
   (* } *) [125];
   (* return nil *) [114; 101; 116; 117; 114; 110; 32; 110; 105; 108]].

Definition expected_join : list str :=
  [(* if rs.retentionShutdown != nil { *) [105; 102; 32; 114; 115; 46; 114; 101; 116; 101; 110; 116; 105; 111; 110; 83; 104; 117; 116; 100; 111; 119; 110; 32; 33; 61; 32; 110; 105; 108; 32; 123];
   (* <-rs.retentionShutdown *) [60; 45; 114; 115; 46; 114; 101; 116; 101; 110; 116; 105; 111; 110; 83; 104; 117; 116; 100; 111; 119; 110];
   (* } *) [125]].

Lemma skeletons_pinned :
  start_skeleton = expected_start /\ doscan_skeleton = expected_doscan /\ join_skeleton = expected_join.
Proof. repeat split; reflexivity. Qed.

(** Comparison operators as they appear in the source. *)
Definition cmp_of_op (o : str) : option (Z -> Z -> bool) :=
  if str_eqb o [60; 61] then Some Z.leb else if str_eqb o [60] then Some Z.ltb
  else if str_eqb o [62; 61] then Some Z.geb else if str_eqb o [62] then Some Z.gtb
  else if str_eqb o [61; 61] then Some Z.eqb else None.

(** The guard of Start as the source spells it IS the model's: for that operator and constant,
    Start has returned at once (mode LExit, retentionShutdown closed) exactly when the guard
    holds of the period, and waits otherwise. *)
Lemma disabled_guard_is_model :
  exists cmp, cmp_of_op disabled_guard_op = Some cmp /\
    forall period now st,
      l_mode (linit period now st) = (if cmp period disabled_guard_rhs then LExit else LWait) /\
      l_closed (linit period now st) = cmp period disabled_guard_rhs.
Proof.
  exists Z.leb. split; [reflexivity|]. intros period now st. unfold linit, disabled_guard_rhs. cbn [l_mode l_closed].
  destruct (period <=? 0)%Z; split; reflexivity.
Qed.

(** The wait test of the loop as the source spells it (since < time.Minute) IS the model's
    "due": the scan starts exactly when that test fails. *)
Lemma wait_test_is_model :
  wait_seconds = minute /\
  exists cmp, cmp_of_op wait_op = Some cmp /\
    forall y : lstate, (l_last y + minute <=? l_now y)%Z = negb (cmp (l_now y - l_last y)%Z wait_seconds).
Proof.
  split; [reflexivity|]. exists Z.ltb. split; [reflexivity|]. intros y. unfold wait_seconds, minute.
  destruct (l_last y + 60 <=? l_now y)%Z eqn:A; destruct (l_now y - l_last y <? 60)%Z eqn:B; try reflexivity;
    [apply Z.leb_le in A; apply Z.ltb_lt in B; lia|apply Z.leb_gt in A; apply Z.ltb_ge in B; lia].
Qed.

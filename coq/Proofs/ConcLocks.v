(** C09 — lock discipline, source against model.  Gen/StoreLocks.v is regenerated on every run from the stores'
    source (go/cmd/pins/c09_locks.go): the synchronisation skeleton of every function.

    1. On the regenerated tables themselves: both stores follow the discipline [disciplined] of Model/ConcSk.v —
       a lock is acquired only while none is held (in particular never the one already held: Go's RWMutex is not
       reentrant, a second RLock behind a waiting writer never returns), no rendezvous and no caller-supplied
       callback under a lock, every path gives back what it took.  A change that nests acquisitions (withMailbox
       inside a withMailbox body, a store method called under the bucket lock) makes this theorem fail whatever
       else the change does.
    2. The memory store's table IS the structure Model/ConcMem.v transcribes ([mem_lock_skeleton_pinned]); the only
       instrumentation point under a mailbox lock is mem.add.visible.
    3. The model has the same discipline: whoever holds a mailbox lock is parked at that point, holds no other
       lock, and its next step takes no lock and blocks on nothing — it releases. *)
From IV Require Import Model.ConcSk Gen.StoreLocks.
From IV Require Import Model.Conc Model.ConcMem Proofs.ConcBase Proofs.ConcMemInv.

(* ------------------------------------------------------------ 1. the source's tables *)

(** The serial-number channel of the file store: its only sender is a goroutine started at package
    initialisation that does nothing but send (no lock, no receive), so a receive from it cannot wait for a lock
    holder. *)
Definition file_free : list string := ["countChannel"].

Fixpoint recvs_ev (e : sk) : list string :=
  let go := fix go (l : list sk) : list string := match l with [] => [] | x :: l' => (recvs_ev x ++ go l')%list end in
  match e with
  | KRecv ch => [ch]
  | KWith _ b | KLoop b | KDefer b => go b
  | KAlt arms => (fix goa (a : list (list sk)) : list string := match a with [] => [] | x :: a' => (go x ++ goa a')%list end) arms
  | _ => []
  end.
Definition receives (ch : string) (tbl : table) : bool :=
  existsb (fun fb => existsb (String.eqb ch) (recvs_ev (KLoop (snd fb)))) tbl.
(** If the serial-number channel is used at all, its sender is the goroutine started at package initialisation, and
    that goroutine does nothing but send. *)
Definition free_source_ok (tbl : table) : bool :=
  negb (receives "countChannel" tbl) ||
  (match lookup "countGenerator" tbl with Some [KLoop [KSend _]] => true | _ => false end &&
   match lookup "init" tbl with Some [KGo "countGenerator"] => true | _ => false end).

Theorem lock_acquisitions_not_nested :
  disciplined [] mem_sk = true /\
  disciplined file_free file_sk = true /\
  free_source_ok file_sk = true.
Proof. vm_compute. repeat split; reflexivity. Qed.

(* ------------------------------------------------------------ 2. the memory store's table is the model's *)

(** What Model/ConcMem.v transcribes, written out by hand. *)
Definition model_sk : table :=
  [("New", [KAlt [[KAlt [[KGo "Store.maxSizeEnforcer"]; []]]; []]]);
   ("Store.AddMessage",
    [KWith "true" [KPoint "mem.add.visible"];                       (* PAddLock -> PAddVisible -> (cap loop) *)
     KLoop [KCall "Store.enforcerRemove"];                          (* PAddEvict *)
     KPoint "mem.add.register";                                     (* PAddRegister *)
     KCall "Store.enforcerDeliver"]);
   ("Store.GetMessage", [KAlt [[KCall "Store.GetMessages"]; []]; KWith "false" []]);   (* PLatestLock | PGetLock *)
   ("Store.GetMessages", [KWith "false" []]);                       (* PListLock *)
   ("Store.MarkSeen", [KWith "true" []]);                           (* PSeenLock *)
   ("Store.PurgeMessages",
    [KWith "true" [];                                               (* PPurgeLock *)
     KPoint "mem.purge.swapped";                                    (* PPurgeSwapped *)
     KAlt [[KLoop [KCall "Store.enforcerRemove"]]; []]]);           (* PPurgeEnf *)
   ("Store.RemoveMessage", [KCall "Store.removeMessage"; KCall "Store.enforcerRemove"]);  (* PRemoveLock, PRemoveEnf *)
   ("Store.VisitMailboxes",
    [KLock "s"; KUnlock "s";                                        (* PStart OVisit: the names, atomically *)
     KLoop [KCall "Store.GetMessages"; KCallback "f"; KAlt [[KBreak]; []]];   (* PVisitLock *)
     KReturn]);
   ("Store.enforcerDeliver", [KAlt [[KSend "incoming"; KPoint "mem.deliver.sent"; KRecv "done"]; []]]);
   ("Store.enforcerRemove",
    [KPoint "mem.enfremove"; KAlt [[KSend "remove"; KPoint "mem.remove.sent"; KRecv "done"]; []]]);
   ("Store.maxSizeEnforcer",
    [KLoop [KPoint "mem.enf.idle";                                  (* EIdle *)
       KAlt [[KRecv "incoming"; KPoint "mem.enf.incoming";          (* EIncoming *)
              KAlt [[KClose "done"]; []];
              KLoop [KPoint "mem.enf.evict"; KCall "Store.removeMessage"];   (* EEvict, EEvLock *)
              KClose "done"];
             [KRecv "remove"; KPoint "mem.enf.remove"; KClose "done"]]]]);   (* ERemove *)
   ("Store.removeMessage", [KWith "true" []]);
   ("Store.withMailbox",
    [KLock "s"; KUnlock "s";                                        (* [touch]: part of the step that starts an operation *)
     KPoint "mem.wm.lock";                                          (* the P*Lock / EEvLock program counters *)
     KAlt [[KLock "mb"]; [KRLock "mb"]];
     KDefer [KAlt [[KUnlock "mb"]; [KRUnlock "mb"]]];
     KCallback "f"])].

(** The operations of the store, the enforcer goroutine and the constructor: with every helper call and every
    withMailbox replaced by what it runs, the source's skeleton is the model's.  (Extracting or inlining a helper
    leaves this unchanged; a moved lock site, rendezvous or instrumentation point does not.) *)
Definition api : list string :=
  ["New"; "Store.AddMessage"; "Store.GetMessage"; "Store.GetMessages"; "Store.MarkSeen"; "Store.PurgeMessages";
   "Store.RemoveMessage"; "Store.VisitMailboxes"; "Store.maxSizeEnforcer"].

Theorem mem_lock_skeleton_pinned :
  map (expanded mem_sk) api = map (expanded model_sk) api /\
  points_under_mailbox_lock mem_sk = [("Store.AddMessage", "mem.add.visible")].
Proof. split; vm_compute; reflexivity. Qed.

Example model_skeleton_is_disciplined : disciplined [] model_sk = true.
Proof. vm_compute. reflexivity. Qed.

(** Sanity: the checker names the seeded change C09-q1 (GetMessage resolves "latest" by calling GetMessages inside
    its own withMailbox body) and two more nestings. *)
Fixpoint replace_fn (f : string) (b : list sk) (t : table) : table :=
  match t with [] => [] | (g, b') :: t' => if String.eqb f g then (g, b) :: t' else (g, b') :: replace_fn f b t' end.
Example q1_is_rejected :
  disciplined [] (replace_fn "Store.GetMessage"
    [KWith "false" [KAlt [[KCall "Store.GetMessages"; KAlt [[KReturn]; []]]; []]]] model_sk) = false.
Proof. vm_compute. reflexivity. Qed.
Example rendezvous_under_lock_is_rejected :
  disciplined [] (replace_fn "Store.RemoveMessage" [KWith "true" [KCall "Store.enforcerRemove"]] model_sk) = false.
Proof. vm_compute. reflexivity. Qed.
Definition file_demo : table :=
  [("Store.GetMessages", [KRLock "mb"; KDefer [KRUnlock "mb"]; KReturn]);
   ("Store.PurgeMessages", [KLock "mb"; KDefer [KUnlock "mb"]; KCall "nextCount"; KReturn]);
   ("nextCount", [KLock "idCounter"; KUnlock "idCounter"; KReturn])].
Example leaf_lock_under_bucket_lock_is_accepted : disciplined [] file_demo = true.
Proof. vm_compute. reflexivity. Qed.
Example store_method_under_bucket_lock_is_rejected :
  disciplined [] (replace_fn "Store.PurgeMessages"
    [KLock "mb"; KDefer [KUnlock "mb"]; KCall "Store.GetMessages"; KReturn] file_demo) = false.
Proof. vm_compute. reflexivity. Qed.
Example missing_unlock_is_rejected :
  disciplined [] (replace_fn "Store.GetMessages" [KRLock "mb"; KAlt [[KReturn]; []]; KRUnlock "mb"; KReturn] file_demo) = false.
Proof. vm_compute. reflexivity. Qed.
Example non_leaf_lock_under_bucket_lock_is_rejected :
  disciplined [] (replace_fn "nextCount" [KLock "idCounter"; KCall "Store.GetMessages"; KUnlock "idCounter"; KReturn] file_demo) = false.
Proof. vm_compute. reflexivity. Qed.

(* ------------------------------------------------------------ 3. the model's discipline *)

(** The instrumentation point a client thread is parked at. *)
Definition pc_site (p : pc) : option string :=
  match p with
  | PStart _ | PDone _ => None
  | PAddLock _ _ _ | PGetLock _ _ | PLatestLock _ | PListLock _ | PSeenLock _ _ | PRemoveLock _ _ | PPurgeLock _
  | PVisitLock _ _ _ => Some "mem.wm.lock"
  | PAddVisible _ _ => Some "mem.add.visible"
  | PAddEvict _ _ _ _ false | PRemoveEnf _ _ false | PPurgeEnf _ _ _ false => Some "mem.enfremove"
  | PAddEvict _ _ _ _ true | PRemoveEnf _ _ true | PPurgeEnf _ _ _ true => Some "mem.remove.sent"
  | PAddRegister _ _ false => Some "mem.add.register"
  | PAddRegister _ _ true => Some "mem.deliver.sent"
  | PPurgeSwapped _ _ => Some "mem.purge.swapped"
  end.

Lemma invL_reach cap max ops s : reach (init_sys cap max [] enf0 ops) s -> invL s.
Proof. revert s. apply reach_ind_inv; [apply init_invL | intros; eapply invL_step; eauto]. Qed.

(** Every cap, every size limit, every schedule, wherever it stops: a thread that holds a mailbox lock
    - is parked at one of the source's points under a mailbox lock (there is one: mem.add.visible),
    - holds no second lock,
    - and its next step is enabled whatever the others do (it acquires nothing and waits for nobody), after which
      it holds no lock at all.
    The threads about to acquire (parked at mem.wm.lock) therefore hold nothing; the enforcer never holds a lock
    across a scheduling point ([x_lock] names client threads only). *)
Theorem mem_lock_holder_only_releases : forall cap max ops sched,
  match run (init_sys cap max [] enf0 ops) sched with
  | Fin s | BlockedAt _ s | CrashedAt _ s =>
      forall mb t, x_lock (getx mb s) = Some t ->
        (exists p site, nth_error (s_thr s) t = Some p /\ pc_site p = Some site /\
                        In site (map snd (points_under_mailbox_lock mem_sk))) /\
        (forall mb', x_lock (getx mb' s) = Some t -> mb' = mb) /\
        (forall c, exists s', step s (T t) c = SOk s' /\ forall mb', x_lock (getx mb' s') <> Some t)
  end.
Proof.
  intros cap max ops sched.
  pose proof (run_from_reach (init_sys cap max [] enf0 ops) sched 0 _ (reach_refl _)) as H. unfold run.
  assert (G : forall s, reach (init_sys cap max [] enf0 ops) s ->
    forall mb t, x_lock (getx mb s) = Some t ->
        (exists p site, nth_error (s_thr s) t = Some p /\ pc_site p = Some site /\
                        In site (map snd (points_under_mailbox_lock mem_sk))) /\
        (forall mb', x_lock (getx mb' s) = Some t -> mb' = mb) /\
        (forall c, exists s', step s (T t) c = SOk s' /\ forall mb', x_lock (getx mb' s') <> Some t)).
  { intros s R mb t Hl. pose proof (invL_reach _ _ _ _ R) as HL.
    destruct (HL _ _ Hl) as [nm Hn].
    assert (Huniq : forall mb', x_lock (getx mb' s) = Some t -> mb' = mb).
    { intros mb' Hl'. destruct (HL _ _ Hl') as [nm' Hn']. rewrite Hn in Hn'. now inversion Hn'. }
    split; [|split].
    - exists (PAddVisible mb nm), "mem.add.visible". split; [exact Hn|]. split; [reflexivity|].
      destruct mem_lock_skeleton_pinned as [_ ->]. left; reflexivity.
    - exact Huniq.
    - intros c. cbn [step]. unfold step_thr. rewrite Hn.
      destruct (box_cap (s_cap s) (x_box (getx mb s))) as [b ev]. eexists; split; [reflexivity|].
      intros mb' Hl'. rewrite getx_setpc in Hl'.
      destruct (N.eq_dec mb' mb) as [->|Hne].
      + rewrite getx_setx_same in Hl'. discriminate.
      + rewrite getx_setx_other in Hl' by assumption. apply Huniq in Hl'. contradiction. }
  destruct (run_from 0 _ sched) as [s|n s|n s]; [apply G; exact H | apply G; exact H | apply G; apply H].
Qed.

(** C09 x C07 — linearizability of the memory store (no size limit) with respect to the abstract store
    [StoreSpec] itself: the commit order of any finished concurrent execution, read as C07 operations, is a
    sequential history of [StoreSpec.run_spec] with exactly the results the threads obtained.

    What differs between the two developments, and how it is bridged (visible in the statement):
    * id allocation: a Conc operation names a message by its id; the memory store's id is the per-mailbox
      delivery counter, so in ANY sequential order "id i of mailbox n" is C07's handle "the (i-1)-th delivery
      to n IN THAT ORDER". The handles of the C07 history are therefore relative to the commit order
      ([up_op] applied to the commit log), not to any order fixed before the run;
    * C07 observations are richer (handle numbers, dates, sizes in listings): they are projected onto Conc's
      results by [down_obs]; dates are 0, mailbox [n] is the name [[n]];
    * a walk is not one operation of the history: it commits one listing ([Lst]) per mailbox. *)
From Coq Require Import List Arith Lia NArith ZArith.
From IV Require Import Base.Bytes Model.StoreSpec Model.StoreSpecImpl Model.MemStore Proofs.ConcC07Mem.
From IV Require Model.Conc Model.ConcMem Proofs.ConcMemInv Proofs.ConcStmts Proofs.ConcMemLin Proofs.ConcMemLogOps.
Import ListNotations.

Module M := IV.Model.ConcMem.
Module St := IV.Proofs.ConcStmts.

Theorem mem_linearizable_to_storespec : forall cap ops sched s,
  M.run (M.init_sys cap None [] M.enf0 ops) sched = M.Fin s ->
  let history := map up_op (map St.lop (M.s_log s)) in
  (* the commit order is a sequential StoreSpec history with the committed results *)
  map St.lres (M.s_log s) = map down_obs (map fst (run_spec (cfg0 cap) spec_init history)) /\
  (* every finished operation other than a walk returned the result of its own commit *)
  (forall t o r, nth_error ops t = Some o -> o <> C.OVisit ->
     nth_error (M.s_thr s) t = Some (M.PDone r) -> In (C.T t, o, r) (M.s_log s)).
Proof.
  intros cap ops sched s Hr. cbv zeta.
  destruct (IV.Proofs.ConcMemLin.mem_linearizable_holds cap ops sched s Hr) as (H1 & _ & H3).
  split; [|exact H3].
  rewrite <- H1. apply conc_spec_is_storespec.
  pose proof (IV.Proofs.ConcMemInv.run_from_reach (M.init_sys cap None [] M.enf0 ops) sched 0 _ (IV.Proofs.ConcMemInv.reach_refl _)) as R.
  unfold M.run in Hr. rewrite Hr in R.
  pose proof (IV.Proofs.ConcMemLogOps.log_no_walk _ _ _ _ R) as HF.
  rewrite Forall_map. eapply Forall_impl; [|exact HF]. intros e He. exact He.
Qed.

(** C09 — memory store with the size limit: second half of the ownership invariant for tags, enforcer steps
    (continues Proofs/ConcMemOwn2.v). [reg1]/[reg2]: the enforcer's removal by (mailbox, id) hits the message with
    the popped tag, and misses only if that tag is in no mailbox. *)
From IV Require Import Model.Conc Model.ConcMem Proofs.ConcBase Proofs.ConcMemInv Proofs.ConcMemCrash Proofs.ConcMemLinEnf Proofs.ConcMemTerm Proofs.ConcMemTags Proofs.ConcMemOwn Proofs.ConcMemOwn2.
From Coq Require Import Lia ZifyN ZifyNat ZifyBool.
Local Open Scope nat_scope.
#[local] Hint Rewrite LV_touch LV_setpc LV_addlog LV_with_enf LV_take_done : sys.

Definition reg1 (s : msys) : Prop :=
  forall k w b m', e_pc (s_enf s) = EEvLock k w ->
    box_remove (m_id (snd k)) (x_box (getx (fst k) s)) = (b, Some m') -> m_tag m' = etag k.
Definition reg2 (s : msys) : Prop :=
  forall k w b, e_pc (s_enf s) = EEvLock k w ->
    box_remove (m_id (snd k)) (x_box (getx (fst k) s)) = (b, None) -> LV (etag k) s = 0.

Lemma og2_enf g s s' : reg1 s -> reg2 s -> og g s -> og2 g s -> step_enf s = SOk s' -> og2 g s'.
Proof.
  intros R1 R2 [H1 H2 H3 H4 H5] [P6 P7 P8 P9 P10] H. unfold step_enf in H.
  destruct (s_max s) as [max|] eqn:Emax; [|discriminate].
  destruct (e_pc (s_enf s)) eqn:Epc; try discriminate.
  all: split_enf H.
  all: inv_ok H.
  all: unfold UB, PR, NT, NTt in *.
  all: try match goal with |- context [setx ?mb ?x ?ss] => pose proof (LV_setx g mb x ss) as HL end.
  all: try match goal with Hp : e_pc _ = EEvLock _ _, H : box_remove _ _ = (_, Some _), R : reg1 _ |- _ =>
         pose proof (R _ _ _ _ Hp H) as Hr1; apply (box_remove_cnt g) in H end.
  all: try match goal with Hp : e_pc _ = EEvLock _ _, H : box_remove _ _ = (_, None), R : reg2 _ |- _ =>
         pose proof (R _ _ _ Hp H) as Hr2 end.
  all: try match goal with H : ent_take _ _ = Some _ |- _ => destruct (ent_take_cnt g _ _ _ _ H) as [Htk1 Htk2] end.
  all: try match goal with H : ent_take _ _ = None |- _ => pose proof (ent_take_none _ _ H) as Htn end.
  all: constructor; unfold UB, PR, NT, NTt, after_evict; autorewrite with sys.
  all: repeat match goal with |- context [if (?a <? ?b)%Z then _ else _] => destruct (a <? b)%Z end.
  all: unfold IN, POP, BK, ER in *; rewrite ?Epc in *;
       cbn [e_pc e_all e_els e_rem with_epc s_enf with_enf finish_enf x_box b_msgs m_tag] in *;
       rewrite ?map_app, ?cnt_app in *; cbn [map cnt] in *;
       rewrite ?tag_mem_filter in *; unfold tag_mem in *; cbn [existsb] in *.
  all: try match goal with H : e_all _ = _ :: _ |- _ => rewrite H in *; cbn [map cnt] in * end.
  all: unfold etag in *.
  all: try match goal with Hr1 : m_tag _ = m_tag _ |- _ => rewrite Hr1 in * end.
  all: repeat match goal with
       | |- context [(?y =? ?x)%N] => destruct (N.eqb_spec y x)
       | H : context [(?y =? ?x)%N] |- _ => destruct (N.eqb_spec y x)
       end; cbn [b2n negb andb orb] in *.
  all: subst.
  all: repeat match goal with
       | |- context [existsb ?f ?l] => let b := fresh "b" in set (b := existsb f l) in *; clearbody b; destruct b
       | H : context [existsb ?f ?l] |- _ => let b := fresh "b" in set (b := existsb f l) in *; clearbody b; destruct b
       end.
  all: repeat match goal with H : ?x = ?x -> _ |- _ => specialize (H eq_refl) end.
  all: try discriminate.
  all: try lia.
  all: intuition (try discriminate; try lia).
Qed.

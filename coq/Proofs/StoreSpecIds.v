(** C07 — ids are literal: a string names a message only if it is, character for character, the
    id the store returned for it. *)
From Coq Require Import List NArith Lia.
From IV Require Import Base.Bytes Base.BytesFacts Model.StoreSpec Model.StoreSpecImpl Model.StoreSpecIds.
Import ListNotations.

Section Lit.
Variable ID : Type.
Variable render : ID -> str.

Lemma find_by_string_some s l p : find_by_string ID render s l = Some p -> s = render (fst p) /\ In p l.
Proof.
  induction l as [|[i m] l IH]; [discriminate|]. simpl. destruct (str_eqb s (render i)) eqn:E.
  - intros H. inversion H; subst. apply str_eqb_eq in E. split; [exact E | left; reflexivity].
  - intros H. destruct (IH H) as [H1 H2]. split; [exact H1 | right; exact H2].
Qed.

(** [ids_are_literal]: whatever the rendering of ids, the stores' look-up by string answers only
    for a string that IS the rendering of a key; any other string — another spelling that a number
    parser would read as the same number, blanks, another letter case — finds nothing. And a
    string that is the rendering of a key finds that key's first entry. *)
Theorem ids_are_literal s l :
  (forall p, find_by_string ID render s l = Some p -> s = render (fst p)) /\
  ((forall p, In p l -> s <> render (fst p)) -> find_by_string ID render s l = None) /\
  (forall i m l', (forall p, In p l -> s <> render (fst p)) -> s = render i ->
                  find_by_string ID render s (l ++ (i, m) :: l') = Some (i, m)).
Proof.
  split; [intros p H; apply (find_by_string_some s l p H)|]. split.
  - intros H. destruct (find_by_string ID render s l) as [p|] eqn:E; [|reflexivity].
    destruct (find_by_string_some s l p E) as [H1 H2]. exfalso. apply (H p H2). exact H1.
  - intros i m l' H Hs. induction l as [|[j mj] l IH]; simpl.
    + rewrite Hs, str_eqb_refl. reflexivity.
    + assert (str_eqb s (render j) = false) as ->.
      { destruct (str_eqb s (render j)) eqn:E; [|reflexivity]. apply str_eqb_eq in E. exfalso.
        apply (H (j, mj)); [left; reflexivity | exact E]. }
      apply IH. intros p Hp. apply H. right; exact Hp.
Qed.
End Lit.

(** The memory store's ids are decimal renderings of the index; a number parser reads other
    spellings as the same number, the store does not (what seed C07-q1 changed). *)
Example itoa_values : itoa 0%nat = [48%N] /\ itoa 3%nat = [51%N] /\ itoa 10%nat = [49%N; 48%N] /\ itoa 1203%nat = [49%N; 50%N; 48%N; 51%N].
Proof. vm_compute. repeat split; reflexivity. Qed.

Example other_spellings_name_nothing :
  let box := [(1%nat, {| m_date := 0%Z; m_tag := 0%N; m_size := 1%N; m_seen := false |});
              (3%nat, {| m_date := 0%Z; m_tag := 1%N; m_size := 1%N; m_seen := false |})] in
  let find s := option_map fst (find_by_string nat itoa s box) in
  find [51%N] = Some 3%nat /\                                   (* "3" *)
  find [48%N; 51%N] = None /\ atoi [48%N; 51%N] = Some 3%N /\      (* "03": Atoi reads 3, the store finds nothing *)
  find [43%N; 51%N] = None /\ atoi [43%N; 51%N] = Some 3%N /\      (* "+3" *)
  find [32%N; 51%N] = None /\ find [51%N; 32%N] = None.            (* " 3", "3 " *)
Proof. vm_compute. repeat split; reflexivity. Qed.

(** atoi is a left inverse of itoa on the numbers a mailbox can reach in practice (checked by
    evaluation up to 2000), so distinct indices have distinct id strings there. *)
Example atoi_itoa_sample : forallb (fun n => match atoi (itoa n) with Some k => N.eqb k (N.of_nat n) | None => false end) (seq 0%nat 2000%nat) = true.
Proof. vm_compute. reflexivity. Qed.

(** C14: the hand-written router of [Model/Rest.v] against the route tables the translator
    (go/cmd/pins) reads from pkg/rest/routes.go, pkg/webui/routes.go, server.FullAssembly and
    the client on every run: every registered template, instantiated with arbitrary non-empty
    segments, is routed to the handler of that name with exactly those variables. A route
    added, removed, renamed, re-templated or given another method makes this file fail. *)
From IV Require Import Base.Bytes Base.BytesFacts Model.StoreSpec Model.Rest Gen.RestRoutes.
Open Scope N_scope.

Definition meth_of (s : str) : meth :=
  if str_eqb s [71; 69; 84] then GET else if str_eqb s [68; 69; 76; 69; 84; 69] then DELETE else if str_eqb s [80; 65; 84; 67; 72] then PATCH else MOther.

Definition hid_of (s : str) : option hid :=
  if str_eqb s [77; 97; 105; 108; 98; 111; 120; 76; 105; 115; 116; 86; 49] then Some HList else
  if str_eqb s [77; 97; 105; 108; 98; 111; 120; 80; 117; 114; 103; 101; 86; 49] then Some HPurge else
  if str_eqb s [77; 97; 105; 108; 98; 111; 120; 83; 104; 111; 119; 86; 49] then Some HShow else
  if str_eqb s [77; 97; 105; 108; 98; 111; 120; 77; 97; 114; 107; 83; 101; 101; 110; 86; 49] then Some HSeen else
  if str_eqb s [77; 97; 105; 108; 98; 111; 120; 68; 101; 108; 101; 116; 101; 86; 49] then Some HDel else
  if str_eqb s [77; 97; 105; 108; 98; 111; 120; 83; 111; 117; 114; 99; 101; 86; 49] then Some HSrc else
  if str_eqb s [77; 97; 105; 108; 98; 111; 120; 77; 101; 115; 115; 97; 103; 101] then Some UMsg else
  if str_eqb s [77; 97; 105; 108; 98; 111; 120; 72; 84; 77; 76] then Some UHtml else
  if str_eqb s [77; 97; 105; 108; 98; 111; 120; 83; 111; 117; 114; 99; 101] then Some USrc else
  if str_eqb s [77; 97; 105; 108; 98; 111; 120; 86; 105; 101; 119; 65; 116; 116; 97; 99; 104] then Some UAtt else
  None.

Definition v_name : str := [123; 110; 97; 109; 101; 125]. Definition v_id : str := [123; 105; 100; 125]. Definition v_num : str := [123; 110; 117; 109; 125]. Definition v_file : str := [123; 102; 105; 108; 101; 125].

Definition inst (name id num file seg : str) : str :=
  if str_eqb seg v_name then name else if str_eqb seg v_id then id
  else if str_eqb seg v_num then num else if str_eqb seg v_file then file else seg.

Definition tpl_segs (tpl : str) : list str := tl (split_on slash tpl).
Definition has_var (v tpl : str) : bool := existsb (str_eqb v) (tpl_segs tpl).

Definition entry_ok (mount : str) (e : str * str * str) : Prop :=
  let '(tpl, hname, mth) := e in
  forall name id num file, name <> [] -> id <> [] -> num <> [] -> file <> [] ->
    route [] (meth_of mth) (mount :: map (inst name id num file) (tpl_segs tpl)) =
    match hid_of hname with
    | Some h => RHandler h name (if has_var v_id tpl then id else []) (if has_var v_num tpl then num else [])
    | None => ROther
    end.

Ltac entry := intros [|n name] [|i id] [|u num] [|f file] N1 N2 N3 N4; try congruence; reflexivity.

Lemma api_table_sound : Forall (entry_ok s_api) api_routes.
Proof. repeat (constructor; [entry|]). constructor. Qed.

Lemma ui_table_sound : Forall (entry_ok s_serve) ui_routes.
Proof. repeat (constructor; [entry|]). constructor. Qed.

Lemma mounts_pinned : mount_points = [slash :: s_serve ++ [slash]; slash :: s_api ++ [slash]] /\ client_prefixes = [s_prefix].
Proof. split; reflexivity. Qed.

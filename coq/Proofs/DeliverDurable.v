(** C01 + C10: mail acknowledged with 250 survives a restart. The deliveries of an SMTP dialogue, performed as
    file-store operations on the DISK model (paths, index files, crash points), leave on disk — and after any
    number of stops and starts, with visit walks in between — in every mailbox exactly the (cap most recent of
    the) messages the dialogue entitles it to, in order; and a process killed during a further delivery leaves
    every mailbox as it was, or with the delivery complete, or (capped mailbox: the open finding) minus the
    evicted oldest messages. Composition of delivery_exact (C01), capped_store_holds_most_recent_entitled,
    filedisk_refines_storespec, crash_is_storespec_state (C10/C11). *)
From IV Require Import Base.Bytes Base.BytesFacts Model.FileDisk Proofs.FileDiskMap Proofs.FileDiskInv Proofs.FileDiskSteps Proofs.FileDiskOps Proofs.FileDiskCrash Proofs.FileDiskDurable Proofs.FileDiskHistory Proofs.FileDiskParents Proofs.FileDiskSpec Proofs.FileDiskSpecRun Proofs.FileDiskSpecTop Model.FileDiskCodec Proofs.FileDiskCodec.
From IV Require Import Model.Policy Model.Smtp Model.StoreSpec Model.StoreSpecImpl Proofs.StoreSpecFacts Proofs.StoreSpecRefine Proofs.SmtpInv Proofs.SmtpThms Proofs.StoreCap Proofs.DeliverStore Proofs.DeliverStoreCap.
From Coq Require Import List NArith ZArith Bool Lia Arith.
Import ListNotations.
Local Open Scope nat_scope.

(** the tags a by-name listing of the disk shows, in order *)
Definition disk_tags (date_of : str -> Z) (dtag_of : str -> N) (dec : str -> option index) (hash : str -> str)
  (d : disk) (mb : str) : list N :=
  map (fun p => m_tag (snd p)) (ix date_of dtag_of dec hash d mb).

(** stops, starts and visit walks only *)
Definition quiet_items (its : list FileDiskDurable.item) : Prop := forall it, In it its -> it = IReopen \/ it = IVisit.

Lemma run_items_quiet enc dec hash cap its : forall d, quiet_items its -> run_items enc dec hash cap d its = d.
Proof.
  induction its as [|it r IH]; intros d H; [reflexivity|].
  assert (Hr : quiet_items r) by (intros x Hx; apply H; right; exact Hx).
  destruct (H it (or_introl eq_refl)) as [->| ->]; simpl; apply IH; auto.
Qed.

Section Durable.
  Variable info_of : Z -> N -> str.
  Variable body_of : N -> N -> str.
  Variable date_of : str -> Z.
  Variable dtag_of : str -> N.
  Hypothesis info_date : forall d t, date_of (info_of d t) = d.
  Hypothesis info_tag : forall d t, dtag_of (info_of d t) = t.
  Hypothesis body_len : forall t s, N.of_nat (length (body_of t s)) = s.
  Variable enc : index -> str.
  Variable dec : str -> option index.
  Hypothesis dec_enc : forall i, dec (enc i) = Some i.
  Variable hash : str -> str.
  Hypothesis hash_inj : forall a b, hash a = hash b -> a = b.
  Variable tag_of : delivery -> N.
  Variable date : Z.
  Variable cap : nat.

  Notation cfg := (cfgc cap).
  Notation xdisk := (exec_disk info_of body_of date_of dtag_of enc dec hash cfg).
  Notation fresh := (disk_fresh info_of body_of date_of dtag_of enc dec hash cfg).
  Notation dtags := (disk_tags date_of dtag_of dec hash).
  Notation addc := (add_opc tag_of date).

  Lemma cfg_max : c_max cfg = 0%N.
  Proof. reflexivity. Qed.

  Lemma RD_tags st d iss mb :
    RD date_of dtag_of enc dec hash cfg st d iss -> dtags d mb = tags (box mb (live st)).
  Proof.
    intros HR. unfold disk_tags. rewrite (rd_box _ _ _ _ _ _ _ _ _ HR). unfold drep, rep, tags.
    rewrite map_map. reflexivity.
  Qed.

  (** the disk after a list of deliveries represents the specification's state after them *)
  Lemma deliveries_RD ds sup :
    fresh (([], sup), []) (map addc ds) ->
    let '((d', _), iss') := final_impl str str_eqb dstate xdisk (([], sup), []) (map addc ds) in
    RD date_of dtag_of enc dec hash cfg (final_spec cfg spec_init (map addc ds)) d' iss'.
  Proof.
    intros Hf.
    destruct (disk_run_sim_all info_of body_of date_of dtag_of info_date info_tag body_len enc dec dec_enc hash hash_inj
                cfg cfg_max (map addc ds) spec_init [] sup []
                (RD_init date_of dtag_of enc dec hash cfg) (RV_init dec hash) SInv_init Hf) as [_ B].
    eapply (final_proj _ _ _ B). intros d' iss' [HR _]. exact HR.
  Qed.

  (** ** acknowledged mail survives restarts *)
  Theorem acknowledged_mail_survives_restart_sec (c : Smtp.scfg) (items : list Smtp.item) (sup : list (list str)) (its : list FileDiskDurable.item) :
    forallb sane_item items = true ->
    let tr := fst (Smtp.run c Smtp.init items) in
    fresh (([], sup), []) (map addc (deliveries_of tr)) ->
    quiet_items its ->
    let '((d', _), _) := final_impl str str_eqb dstate xdisk (([], sup), []) (map addc (deliveries_of tr)) in
    reach enc dec hash cap d' /\
    forall mb, dtags (run_items enc dec hash cap d' its) mb =
               map tag_of (cap_box cap (filter (fun d => str_eqb mb (d_mailbox d)) (entitled c None [] [] (dialogue tr)))).
  Proof.
    intros Hs tr Hf Hq. pose proof (deliveries_RD (deliveries_of tr) sup Hf) as HR.
    revert HR. match goal with |- context [final_impl ?a ?b ?c ?e ?s ?o] => generalize (final_impl a b c e s o) end.
    intros [[d' s'] iss'] HR'. split; [apply (rd_reach _ _ _ _ _ _ _ _ _ HR')|].
    intros mb. rewrite run_items_quiet by exact Hq. rewrite (RD_tags _ _ _ mb HR').
    apply (capped_store_holds_most_recent_entitled tag_of date cap c items mb Hs).
  Qed.

  (** ** a process killed during a further delivery *)
  Theorem killed_delivery_keeps_acknowledged_mail_sec (ds : list delivery) (dl : delivery) (sup : list (list str))
      (cands : list str) :
    fresh (([], sup), []) (map addc ds) ->
    let '((d0, _), _) := final_impl str str_eqb dstate xdisk (([], sup), []) (map addc ds) in
    let od := FileDisk.Add (d_mailbox dl) (info_of date (tag_of dl)) (body_of (tag_of dl) (N.of_nat (length (d_body dl)))) cands in
    let T0 := fun mb => map tag_of (store_get (store_after_cap cap [] ds) mb) in
    forall d', crash_reach (steps enc dec hash cap od d0) d0 d' ->
      reach enc dec hash cap d' /\
      ((forall mb, dtags d' mb = T0 mb) \/
       (exists j, 1 <= j <= evictions dec hash cap od d0 /\
          dtags d' (d_mailbox dl) = skipn j (T0 (d_mailbox dl)) /\
          forall mb, mb <> d_mailbox dl -> dtags d' mb = T0 mb) \/
       (forall mb, dtags d' mb = dtags (FileDisk.exec enc dec hash cap od d0) mb)).
  Proof.
    intros Hf. pose proof (deliveries_RD ds sup Hf) as HR.
    revert HR. match goal with |- context [final_impl ?a ?b ?c ?e ?s ?o] => generalize (final_impl a b c e s o) end.
    intros [[d0 s0] iss0] HR0 od T0 d' Hc.
    assert (HT : forall mb, tags (box mb (live (final_spec cfg spec_init (map addc ds)))) = T0 mb).
    { intros mb. apply (deliveries_reach_the_capped_store tag_of date cap ds mb). }
    pose proof (rd_reach _ _ _ _ _ _ _ _ _ HR0) as Hr0.
    split; [eapply reach_step; eauto|].
    destruct (crash_is_storespec_state date_of dtag_of enc dec dec_enc hash hash_inj cfg _ d0 iss0 od d' HR0 Hc)
      as [H1|[[j [Hj H2]]|[_ H3]]].
    - left. intros mb. rewrite (RD_tags _ _ _ mb H1). apply HT.
    - right; left. exists j. split; [exact Hj|].
      pose proof (drop_oldest_spec (op_mailbox od) j (live (final_spec cfg spec_init (map addc ds)))) as Hd.
      destruct (drop_oldest (op_mailbox od) j (live (final_spec cfg spec_init (map addc ds)))) as [dl' r].
      destruct Hd as [_ [Hb [Hbo _]]]. cbn [snd] in H2. cbn [op_mailbox od] in *. split.
      + rewrite (RD_tags _ _ _ (d_mailbox dl) H2). cbn [live]. rewrite Hb. rewrite <- HT. unfold tags. apply map_skipn.
      + intros mb Hne. rewrite (RD_tags _ _ _ mb H2). cbn [live]. rewrite (Hbo mb Hne). apply HT.
    - right; right. intros mb. unfold disk_tags. rewrite H3. reflexivity.
  Qed.
End Durable.

(** Mail acknowledged with 250 survives a restart: for every SMTP configuration and every (sane) input, the
    deliveries the dialogue makes, performed on the disk model of the file store with a mailbox cap [cap] (0 = none),
    then any number of stops, starts and visit walks, leave the by-name listing of EVERY mailbox showing exactly the
    tags of the [cap] most recent of the messages the dialogue entitles that mailbox to, in order; the disk is
    reachable, so every C10/C11 theorem applies to it. Hypotheses as in filedisk_refines_storespec: gob round trip,
    [hash] injective on names, the descriptor encoding round trip, and [disk_fresh] for the deliveries (the id
    generator offers an unused, never-issued id: what the open finding K-C10-id-reissued-after-restart violates). *)
Theorem acknowledged_mail_survives_restart :
  forall (info_of : Z -> N -> str) (body_of : N -> N -> str) (date_of : str -> Z) (dtag_of : str -> N),
    (forall d t, date_of (info_of d t) = d) -> (forall d t, dtag_of (info_of d t) = t) ->
    (forall t s, N.of_nat (length (body_of t s)) = s) ->
  forall (enc : index -> str) (dec : str -> option index), (forall i, dec (enc i) = Some i) ->
  forall (hash : str -> str), (forall a b, hash a = hash b -> a = b) ->
  forall (tag_of : delivery -> N) (date : Z) (cap : nat)
         (c : Smtp.scfg) (items : list Smtp.item) (sup : list (list str)) (its : list FileDiskDurable.item),
    forallb sane_item items = true ->
    let tr := fst (Smtp.run c Smtp.init items) in
    disk_fresh info_of body_of date_of dtag_of enc dec hash (cfgc cap) (([], sup), []) (map (add_opc tag_of date) (deliveries_of tr)) ->
    quiet_items its ->
    let '((d', _), _) := final_impl str str_eqb FileDiskSpecRun.dstate (exec_disk info_of body_of date_of dtag_of enc dec hash (cfgc cap))
                           (([], sup), []) (map (add_opc tag_of date) (deliveries_of tr)) in
    reach enc dec hash cap d' /\
    forall mb, disk_tags date_of dtag_of dec hash (run_items enc dec hash cap d' its) mb =
               map tag_of (cap_box cap (filter (fun d => str_eqb mb (d_mailbox d)) (entitled c None [] [] (dialogue tr)))).
Proof. intros. apply acknowledged_mail_survives_restart_sec; auto. Qed.

(** A process killed at any crash point of a FURTHER delivery (after the deliveries [ds] were acknowledged) leaves,
    in every mailbox, the acknowledged mail as it was; or the further delivery complete; or — a delivery that evicts
    for the cap, the open finding — the mailbox minus its j oldest messages, 1 <= j <= evictions (without a cap:
    evictions = 0, so every acknowledged message is still listed). *)
Theorem killed_delivery_keeps_acknowledged_mail :
  forall (info_of : Z -> N -> str) (body_of : N -> N -> str) (date_of : str -> Z) (dtag_of : str -> N),
    (forall d t, date_of (info_of d t) = d) -> (forall d t, dtag_of (info_of d t) = t) ->
    (forall t s, N.of_nat (length (body_of t s)) = s) ->
  forall (enc : index -> str) (dec : str -> option index), (forall i, dec (enc i) = Some i) ->
  forall (hash : str -> str), (forall a b, hash a = hash b -> a = b) ->
  forall (tag_of : delivery -> N) (date : Z) (cap : nat)
         (ds : list delivery) (dl : delivery) (sup : list (list str)) (cands : list str),
    disk_fresh info_of body_of date_of dtag_of enc dec hash (cfgc cap) (([], sup), []) (map (add_opc tag_of date) ds) ->
    let '((d0, _), _) := final_impl str str_eqb FileDiskSpecRun.dstate (exec_disk info_of body_of date_of dtag_of enc dec hash (cfgc cap))
                           (([], sup), []) (map (add_opc tag_of date) ds) in
    let od := FileDisk.Add (d_mailbox dl) (info_of date (tag_of dl)) (body_of (tag_of dl) (N.of_nat (length (d_body dl)))) cands in
    let T0 := fun mb => map tag_of (store_get (store_after_cap cap [] ds) mb) in
    forall d', crash_reach (steps enc dec hash cap od d0) d0 d' ->
      reach enc dec hash cap d' /\
      ((forall mb, disk_tags date_of dtag_of dec hash d' mb = T0 mb) \/
       (exists j, (1 <= j <= evictions dec hash cap od d0)%nat /\
          disk_tags date_of dtag_of dec hash d' (d_mailbox dl) = skipn j (T0 (d_mailbox dl)) /\
          forall mb, mb <> d_mailbox dl -> disk_tags date_of dtag_of dec hash d' mb = T0 mb) \/
       (forall mb, disk_tags date_of dtag_of dec hash d' mb =
                   disk_tags date_of dtag_of dec hash (FileDisk.exec enc dec hash cap od d0) mb)).
Proof. intros. apply killed_delivery_keeps_acknowledged_mail_sec; auto. Qed.

(** An instance: the complete dialogue of Proofs/SmtpExamples.v (HELO, MAIL, RCPT z@w, DATA, block, QUIT) against a
    file store without a cap; the concrete descriptor encoding and index codec; stop, walk, start. The hypotheses
    hold, and the listing of mailbox "z" on the disk after the restarts shows the one acknowledged message. *)
From IV Require Import Model.Dot Model.SmtpWire Proofs.SmtpExamples.

Definition ex_items : list Smtp.item := fst (fst (run_bytes c0 orc w_all)).
Definition ex_tag (d : delivery) : N := 7%N.
Definition ex_sup : list (list str) := [[[105; 49]%N]].

Example acknowledged_mail_survives_restart_example :
  forallb sane_item ex_items = true /\
  (let tr := fst (Smtp.run c0 Smtp.init ex_items) in
   map d_mailbox (deliveries_of tr) = [[122%N]] /\
   disk_fresh x_info x_body x_date x_tag enc_index dec_index (fun s => s) (cfgc 0) (([], ex_sup), [])
     (map (add_opc ex_tag 5%Z) (deliveries_of tr)) /\
   let '((d', _), _) := final_impl str str_eqb FileDiskSpecRun.dstate (exec_disk x_info x_body x_date x_tag enc_index dec_index (fun s => s) (cfgc 0))
                          (([], ex_sup), []) (map (add_opc ex_tag 5%Z) (deliveries_of tr)) in
   disk_tags x_date x_tag dec_index (fun s => s) (run_items enc_index dec_index (fun s => s) 0 d' [IReopen; IVisit; IReopen]) [122%N] = [7%N]).
Proof.
  assert (Hs : forallb sane_item ex_items = true) by (vm_compute; reflexivity).
  split; [exact Hs|]. cbv zeta.
  assert (Hd : map d_mailbox (deliveries_of (fst (Smtp.run c0 Smtp.init ex_items))) = [[122%N]]) by (vm_compute; reflexivity).
  split; [exact Hd|].
  assert (Hf : disk_fresh x_info x_body x_date x_tag enc_index dec_index (fun s => s) (cfgc 0) (([], ex_sup), [])
                 (map (add_opc ex_tag 5%Z) (deliveries_of (fst (Smtp.run c0 Smtp.init ex_items))))).
  { vm_compute. split; [|exact I]. eexists. split; [reflexivity|]. intros []. }
  split; [exact Hf|].
  pose proof (acknowledged_mail_survives_restart x_info x_body x_date x_tag x_info_date x_info_tag x_body_len
                enc_index dec_index dec_enc_index (fun s => s) (fun a b H => H) ex_tag 5%Z 0%nat c0 ex_items ex_sup
                [IReopen; IVisit; IReopen] Hs Hf) as H.
  cbv zeta in H.
  assert (Hq : quiet_items [IReopen; IVisit; IReopen]).
  { intros it [<-|[<-|[<-|[]]]]; auto. }
  specialize (H Hq). revert H.
  match goal with |- context [final_impl ?a ?b ?c ?e ?s ?o] => generalize (final_impl a b c e s o) end.
  intros [[d' s'] iss'] [_ H]. rewrite (H [122%N]). vm_compute. reflexivity.
Qed.

(** Theorems of the SMTP session properties (C01, C03, C05 session part, C06), stated over all
    configurations and all item lists, and transferred to all byte streams. *)
From IV Require Import Base.Bytes Base.BytesFacts Model.Policy Model.Smtp Model.Dot Model.SmtpWire Proofs.SmtpInv.
From Coq Require Import ZifyBool ZifyNat Lia.

(** ** The byte-level loop is the item-level run on the items it consumed *)
Lemma run_stream_run : forall fuel c o s w,
  let '(its, tr, sf) := run_stream fuel c o s w in fst (run c s its) = tr.
Proof.
  induction fuel as [|f IH]; intros c o s w; cbn [run_stream]; [reflexivity|].
  destruct (st s) eqn:Es; try reflexivity;
    (destruct (next_item o s w) as [it rest];
     destruct (step c s it) as [s' r d| |] eqn:E; try reflexivity;
     specialize (IH c o s' rest); destruct (run_stream f c o s' rest) as [[its tr] sf];
     cbn [run]; rewrite E; destruct (run c s' its) as [tr' e]; cbn [fst] in *; subst; reflexivity).
Qed.

Definition no_extension (o : oracles) : Prop := t_mail_hook o = [] /\ t_rcpt_hook o = [] /\ t_msg_hook o = [].

Lemma classify_quiet o line : no_extension o -> quiet_item (L (classify o line)) = true.
Proof.
  intros (H1 & H2 & _). unfold classify, hook_for. rewrite H1, H2. cbn [assoc].
  destruct (parse_cmd line); try reflexivity.
  repeat match goal with
         | |- context [if ?b then _ else _] => destruct b
         | |- context [match ?x with _ => _ end] => destruct x
         end; reflexivity.
Qed.

Lemma next_item_quiet o s w : no_extension o -> quiet_item (fst (next_item o s w)) = true.
Proof.
  intros H. unfold next_item.
  destruct (st s);
    try (destruct (read_line w) as [[l r]|]; [apply classify_quiet; exact H|reflexivity]).
  destruct (dec BeginLine w) as [[b r]|]; [|reflexivity].
  unfold block_item. destruct H as (_ & _ & H3). rewrite H3.
  destruct (match assoc b (t_hdr o) with Some h => h | None => None end); reflexivity.
Qed.

Lemma run_stream_quiet : forall fuel c o s w, no_extension o ->
  forallb quiet_item (fst (fst (run_stream fuel c o s w))) = true.
Proof.
  induction fuel as [|f IH]; intros c o s w H; cbn [run_stream]; [reflexivity|].
  destruct (st s) eqn:Es; try reflexivity;
    (pose proof (next_item_quiet o s w H) as Hq;
     destruct (next_item o s w) as [it rest];
     destruct (step c s it) as [s' r d| |]; try reflexivity;
     specialize (IH c o s' rest H); destruct (run_stream f c o s' rest) as [[its tr] sf];
     cbn [fst forallb] in *; rewrite Hq, IH; reflexivity).
Qed.

Lemma quiet_all_sane its : forallb quiet_item its = true -> forallb sane_item its = true.
Proof.
  induction its as [|it its IH]; simpl; [reflexivity|].
  rewrite !andb_true_iff. intros [H1 H2]. split; [apply quiet_sane; exact H1|apply IH; exact H2].
Qed.

(** ** C01 *)
Theorem delivery_exact : forall c items,
  forallb sane_item items = true ->
  deliveries_of (fst (run c init items)) = entitled c None [] [] (dialogue (fst (run c init items))).
Proof.
  intros c items H.
  apply (run_entitled c items init None (inv_init c)); [intros [?|?]; discriminate|exact H].
Qed.

Theorem delivery_exact_bytes : forall c o w, no_extension o ->
  let tr := snd (fst (run_bytes c o w)) in
  deliveries_of tr = entitled c None [] [] (dialogue tr).
Proof.
  intros c o w H. unfold run_bytes.
  pose proof (run_stream_run (length w + 2) c o init w) as Hr.
  pose proof (run_stream_quiet (length w + 2) c o init w H) as Hq.
  destruct (run_stream (length w + 2) c o init w) as [[its tr] sf]. cbn [fst snd] in *.
  rewrite <- Hr. apply delivery_exact. apply quiet_all_sane. exact Hq.
Qed.

(** Only a DATA block answered 250 adds anything. *)
Lemma step_delivers c s it s' r d : step c s it = Ok s' r d -> d <> [] ->
  (exists body h hook, it = B (PBlock body (Some h) hook)) /\ r = one 250.
Proof.
  intros H Hd.
  unfold step, step_greet, step_ready, step_mail, step_mail_from, step_data in H.
  destruct (st s) eqn:Es; step_cases; try congruence; split; eauto.
Qed.

Theorem refused_adds_nothing : forall c items it r d,
  In (it, r, d) (fst (run c init items)) -> d <> [] ->
  (exists body h hook, it = B (PBlock body (Some h) hook)) /\ r = one 250.
Proof.
  intros c items. generalize init.
  induction items as [|it0 items IH]; intros s it r d Hin Hd; cbn [run] in Hin; [destruct Hin|].
  destruct (step c s it0) as [s' r0 d0| |] eqn:E; try (destruct Hin; fail).
  destruct (run c s' items) as [tr e] eqn:R. cbn [fst] in Hin.
  destruct Hin as [Heq|Hin].
  - inversion Heq; subst. eapply step_delivers; eauto.
  - eapply (IH s'); [rewrite R; exact Hin|exact Hd].
Qed.

(** Without a hook, the deliveries of one accepted block go to exactly the mailboxes of the
    accepted recipients whose domain is storable, one each, in order (multiset reading). *)
Theorem one_per_recipient : forall c o rs hl body h,
  map d_mailbox (deliveries_for c o rs hl body h None) =
  map r_mailbox (filter (fun r => should_store (pol c) (r_domain r)) rs).
Proof. intros. unfold deliveries_for. rewrite map_map. reflexivity. Qed.

Theorem delivered_fields : forall c o rs hl body h d,
  In d (deliveries_for c o rs hl body h None) ->
  d_body d = body /\ d_retpath d = o_addr o /\ d_subject d = h_subject h /\
  d_size d = Z.of_nat (length body) /\
  d_from d = match h_from h with Some a => a | None => o_addr o end /\
  d_to d = match h_to h with Some l => l | None => map r_addr rs end.
Proof.
  intros c o rs hl body h d H. unfold deliveries_for in H. apply in_map_iff in H.
  destruct H as (r & <- & _). cbn. repeat split; reflexivity.
Qed.

(** The store after a dialogue: every mailbox holds what it held plus the deliveries that name
    it, in order; no other mailbox changes. *)
Lemma store_get_add σ d n :
  store_get (store_add σ d) n = if str_eqb n (d_mailbox d) then store_get σ n ++ [d] else store_get σ n.
Proof.
  induction σ as [|[m ms] σ IH]; cbn [store_add store_get].
  - destruct (str_eqb (d_mailbox d) n) eqn:E1, (str_eqb n (d_mailbox d)) eqn:E2; try reflexivity.
    + apply str_eqb_eq in E1. subst. rewrite str_eqb_refl in E2. discriminate.
    + apply str_eqb_eq in E2. subst. rewrite str_eqb_refl in E1. discriminate.
  - destruct (str_eqb m (d_mailbox d)) eqn:E1; cbn [store_get].
    + apply str_eqb_eq in E1. subst m.
      destruct (str_eqb (d_mailbox d) n) eqn:E2.
      * apply str_eqb_eq in E2. subst n. rewrite str_eqb_refl. reflexivity.
      * destruct (str_eqb n (d_mailbox d)) eqn:E3; [|reflexivity].
        apply str_eqb_eq in E3. subst n. rewrite str_eqb_refl in E2. discriminate.
    + destruct (str_eqb m n) eqn:E2; [|exact IH].
      apply str_eqb_eq in E2. subst n. rewrite E1. reflexivity.
Qed.

Theorem no_other_mailbox_changes : forall ds σ n,
  store_get (store_after σ ds) n = store_get σ n ++ filter (fun d => str_eqb n (d_mailbox d)) ds.
Proof.
  induction ds as [|d ds IH]; intros σ n; cbn [store_after fold_left filter].
  - rewrite app_nil_r. reflexivity.
  - change (fold_left store_add ds (store_add σ d)) with (store_after (store_add σ d) ds).
    rewrite IH, store_get_add. destruct (str_eqb n (d_mailbox d)); [rewrite <- app_assoc|]; reflexivity.
Qed.

(** ** C03 *)
Theorem sequencing : forall c items, forallb sane_item items = true ->
  seq_ok false false 0 (dialogue (fst (run c init items))) = true.
Proof. intros c items H. apply run_seq; [apply inv_init|cbn; auto|exact H]. Qed.

Theorem sequencing_bytes : forall c o w, no_extension o ->
  seq_ok false false 0 (dialogue (snd (fst (run_bytes c o w)))) = true.
Proof.
  intros c o w H. unfold run_bytes.
  pose proof (run_stream_run (length w + 2) c o init w) as Hr.
  pose proof (run_stream_quiet (length w + 2) c o init w H) as Hq.
  destruct (run_stream (length w + 2) c o init w) as [[its tr] sf]. cbn [fst snd] in *.
  rewrite <- Hr. apply sequencing. apply quiet_all_sane. exact Hq.
Qed.

Theorem one_reply_per_line : forall c items s,
  forallb reply_ok (dialogue (fst (run c s items))) = true.
Proof.
  intros c items s. unfold dialogue. rewrite forallb_forall. intros x Hx.
  apply in_map_iff in Hx. destruct Hx as ([[it r] d] & <- & Hin). cbn [fst snd].
  pose proof (run_forall c (fun e => reply_ok (fst (fst e), snd (fst e)))
                (fun s it s' r d H => step_reply_ok c s it s' r d H) items s) as HF.
  rewrite forallb_forall in HF. apply (HF _ Hin).
Qed.

(** C05 on the dialogue: wherever the policy decides, 250 / 550 on RCPT and 250 on MAIL say what
    the domain policy says. *)
Theorem accept_rule : forall c items s,
  forallb (accept_ok c) (dialogue (fst (run c s items))) = true.
Proof.
  intros c items s. unfold dialogue. rewrite forallb_forall. intros x Hx.
  apply in_map_iff in Hx. destruct Hx as ([[it r] d] & <- & Hin). cbn [fst snd].
  pose proof (run_forall c (fun e => accept_ok c (fst (fst e), snd (fst e)))
                (fun s it s' r d H => step_accept_ok c s it s' r d H) items s) as HF.
  rewrite forallb_forall in HF. apply (HF _ Hin).
Qed.

Theorem total_no_panic : forall c items, snd (run c init items) <> EPanic.
Proof. intros. apply run_no_panic, inv_init. Qed.

Theorem progress : forall c s l, st s <> DATA -> st s <> QUIT ->
  exists s' r d, step c s (L l) = Ok s' r d.
Proof. intros. apply step_fits_line; assumption. Qed.

Theorem progress_data : forall c s p, Inv c s -> st s = DATA -> exists s' r d, step c s (B p) = Ok s' r d.
Proof.
  intros c s p HI Hs. pose proof (step_no_panic c s (B p) HI) as Hp.
  unfold step, step_data in *. rewrite Hs in *.
  destruct p as [| |body hdr hook]; eauto.
  destruct (max_bytes c <? Z.of_nat (length body))%Z; eauto.
  destruct hdr; eauto. destruct (from s); eauto. congruence.
Qed.

(** RSET, a repeated EHLO, and the end of a DATA block discard the envelope. *)
Theorem envelope_reset : forall c s it s' r d, step c s it = Ok s' r d ->
  (it = L Rset \/ (exists dm, it = L (Ehlo dm) /\ (st s = READY \/ st s = MAIL)) \/
   (exists body hdr hook, it = B (PBlock body hdr hook))) ->
  st s <> LOGIN -> st s <> PASSWORD ->
  rcpts s' = [] /\ from s' = None.
Proof.
  intros c s it s' r d H Hc Hl Hp.
  unfold step, step_greet, step_ready, step_mail, step_mail_from, step_data, reset in H.
  destruct Hc as [->|[(dm & -> & Hst)|(body & hdr & hook & ->)]];
    destruct (st s) eqn:Es; try congruence; try (destruct Hst; congruence);
    step_cases; cbn; auto.
Qed.

(** ** C06 *)
Theorem size_rule : forall c items s, forallb (size_ok c) (fst (run c s items)) = true.
Proof. intros. apply run_forall. intros. eapply step_size_ok; eauto. Qed.

Theorem oversize_data_refused : forall c s body hdr hook,
  st s = DATA -> (max_bytes c < Z.of_nat (length body))%Z ->
  step c s (B (PBlock body hdr hook)) = Ok (reset s) (one 552) [].
Proof.
  intros c s body hdr hook Hs Hl. unfold step, step_data. rewrite Hs.
  destruct (max_bytes c <? Z.of_nat (length body))%Z eqn:E; [reflexivity|lia].
Qed.

Theorem size_param_refused : forall c s n o h,
  st s = READY -> (max_bytes c < n)%Z -> (n <= int32_max)%Z ->
  step c s (L (Mail (MParsed (SzVal n) o) h)) = Ok s (one 552) [].
Proof.
  intros c s n o h Hs Hl Hr. unfold step, step_ready, step_mail_from. rewrite Hs.
  destruct (int32_max <? n)%Z eqn:E0; [lia|].
  destruct (max_bytes c <? n)%Z eqn:E; [reflexivity|lia].
Qed.

(** A declared SIZE beyond the 32-bit range is a parameter error, whatever the limit. *)
Theorem huge_size_param_refused : forall c s n o h,
  st s = READY -> (int32_max < n)%Z ->
  step c s (L (Mail (MParsed (SzVal n) o) h)) = Ok s (one 501) [].
Proof.
  intros c s n o h Hs Hl. unfold step, step_ready, step_mail_from. rewrite Hs.
  destruct (int32_max <? n)%Z eqn:E0; [reflexivity|lia].
Qed.

(** Whatever its magnitude, a declared SIZE above the limit is never accepted. *)
Theorem oversize_declared_never_accepted : forall c s n o h s' r d,
  (max_bytes c < n)%Z ->
  step c s (L (Mail (MParsed (SzVal n) o) h)) = Ok s' r d ->
  first_code r <> 250%Z /\ d = [].
Proof.
  intros c s n o h s' r d Hl H.
  pose proof (step_size_ok _ _ _ _ _ _ H) as Hs. cbn in Hs.
  destruct (max_bytes c <? n)%Z eqn:E; [|lia].
  split; [destruct (first_code r =? 250)%Z eqn:E2; [discriminate|lia]|].
  unfold step, step_greet, step_ready, step_mail, step_mail_from in H.
  destruct (st s); try discriminate;
  repeat match type of H with
         | context [match ?x with _ => _ end] => destruct x eqn:?
         end; inversion H; reflexivity.
Qed.

Theorem within_limit_accepted : forall c s body h hook o,
  st s = DATA -> from s = Some o -> (Z.of_nat (length body) <= max_bytes c)%Z ->
  step c s (B (PBlock body (Some h) hook)) =
  Ok (reset s) (one 250) (deliveries_for c o (rcpts s) (helo s) body h hook).
Proof.
  intros c s body h hook o Hs Hf Hl. unfold step, step_data. rewrite Hs, Hf.
  destruct (max_bytes c <? Z.of_nat (length body))%Z eqn:E; [lia|reflexivity].
Qed.

(** After a refusal the session is READY with an empty envelope: a following valid transaction
    is accepted and delivered. *)
Theorem usable_after_refusal : forall c s body hdr hook og rc body2 h2,
  st s = DATA -> (max_bytes c < Z.of_nat (length body))%Z ->
  should_accept_origin (pol c) (o_domain og) = true ->
  should_accept (pol c) (r_domain rc) = true -> (0 < max_rcpt c)%Z ->
  (Z.of_nat (length body2) <= max_bytes c)%Z ->
  exists sf tr,
    run c s [B (PBlock body hdr hook); L (Mail (MParsed SzNone (Some og)) NoAns);
             L (Rcpt (RParsed (Some rc)) NoAns); L (DataC true); B (PBlock body2 (Some h2) None)]
    = (tr, EOpen sf) /\
    deliveries_of tr = deliveries_for c og [rc] (helo s) body2 h2 None /\ st sf = READY.
Proof.
  intros c s body hdr hook og rc body2 h2 Hs Hl Ho Hr Hm Hl2.
  cbn [run]. rewrite (oversize_data_refused c s body hdr hook Hs Hl).
  unfold step at 1. unfold reset at 1. rewrite Hs. cbn [st step_ready step_mail_from].
  replace (true && negb (should_accept_origin (pol c) (o_domain og))) with false by (rewrite Ho; reflexivity).
  unfold step at 1. cbn [set_st st step_mail rcpts reset]. rewrite Hr. cbn [negb andb length].
  replace (max_rcpt c <=? Z.of_nat 0)%Z with false by lia.
  unfold step at 1. cbn [st step_mail rcpts app set_st].
  unfold step at 1. cbn [st step_data from rcpts helo reset set_st].
  replace (max_bytes c <? Z.of_nat (length body2))%Z with false by lia.
  do 2 eexists. split; [reflexivity|]. split; [|reflexivity].
  unfold deliveries_of. cbn. rewrite app_nil_r. reflexivity.
Qed.

(** ** C05, session part *)
Theorem recipients_bounded : forall c items tr s',
  run c init items = (tr, EOpen s') -> (Z.of_nat (length (rcpts s')) <= Z.max 0 (max_rcpt c))%Z.
Proof. intros c items tr s' H. eapply inv_rcpt_bound, run_inv; [apply inv_init|exact H]. Qed.

Theorem rcpt_250_iff : forall c s p h s' r d,
  st s = MAIL -> step c s (L (Rcpt p h)) = Ok s' r d ->
  (first_code r = 250%Z /\ (forall cd t, h <> Deny cd t)) <->
  exists rc, p = RParsed (Some rc) /\ (forall cd t, h <> Deny cd t) /\
             (h = Allow \/ should_accept (pol c) (r_domain rc) = true) /\
             (Z.of_nat (length (rcpts s)) < max_rcpt c)%Z.
Proof.
  intros c s p h s' r d Hs H. unfold step, step_mail in H. rewrite Hs in H.
  destruct p as [|[rc|]].
  - inversion H; subst. split; [intros [Hc _]; discriminate Hc|intros (rc' & Hp & _); discriminate Hp].
  - destruct h as [| | |cd t].
    + (* NoAns *)
      cbn [andb] in H. destruct (should_accept (pol c) (r_domain rc)) eqn:Ea; cbn [negb] in H.
      * destruct (max_rcpt c <=? Z.of_nat (length (rcpts s)))%Z eqn:Em; inversion H; subst.
        -- split; [intros [Hc _]; discriminate Hc|intros (rc' & Hp & _ & _ & Hb); inversion Hp; subst; lia].
        -- split; [intros [_ Hd]; exists rc; repeat split; auto; lia|intros _; split; [reflexivity|discriminate]].
      * inversion H; subst.
        split; [intros [Hc _]; discriminate Hc
               |intros (rc' & Hp & _ & [Ha|Ha] & _); [discriminate Ha|inversion Hp; subst; congruence]].
    + (* Defer *)
      cbn [andb] in H. destruct (should_accept (pol c) (r_domain rc)) eqn:Ea; cbn [negb] in H.
      * destruct (max_rcpt c <=? Z.of_nat (length (rcpts s)))%Z eqn:Em; inversion H; subst.
        -- split; [intros [Hc _]; discriminate Hc|intros (rc' & Hp & _ & _ & Hb); inversion Hp; subst; lia].
        -- split; [intros [_ Hd]; exists rc; repeat split; auto; lia|intros _; split; [reflexivity|discriminate]].
      * inversion H; subst.
        split; [intros [Hc _]; discriminate Hc
               |intros (rc' & Hp & _ & [Ha|Ha] & _); [discriminate Ha|inversion Hp; subst; congruence]].
    + (* Allow *)
      cbn [andb] in H.
      destruct (max_rcpt c <=? Z.of_nat (length (rcpts s)))%Z eqn:Em; inversion H; subst.
      * split; [intros [Hc _]; discriminate Hc|intros (rc' & Hp & _ & _ & Hb); inversion Hp; subst; lia].
      * split; [intros [_ Hd]; exists rc; repeat split; auto; lia|intros _; split; [reflexivity|discriminate]].
    + inversion H; subst. split; [intros [_ Hd]; exfalso; eapply Hd; reflexivity
                                 |intros (rc' & _ & Hd & _); exfalso; eapply Hd; reflexivity].
  - inversion H; subst. split; [intros [Hc _]; discriminate Hc|intros (rc' & Hp & _); discriminate Hp].
Qed.

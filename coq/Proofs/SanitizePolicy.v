(** C18 — the token-level policy model emits only inert tokens, for EVERY token list and EVERY
    answer of the pattern matcher; the only hypothesis is on net/url's results (urlinfo_sound,
    checked by the oracle on every case). *)
From IV Require Import Base.Bytes Gen.SanitizeConsts Gen.SanitizePolicy Model.Sanitize Model.SanitizePolicy
  Proofs.SanitizeEscape Proofs.SanitizeStyle Proofs.SanitizeFilter.

(* --------------------------------------------------------------------- string facts *)

Lemma str_eqb_eq : forall a b, str_eqb a b = true -> a = b.
Proof.
  induction a as [|x a IH]; intros [|y b] H; cbn [str_eqb] in H; try discriminate; [reflexivity|].
  apply andb_prop in H as [H1 H2]. apply N.eqb_eq in H1. subst. f_equal. auto.
Qed.

Lemma str_eqb_rf : forall s, str_eqb s s = true.
Proof. induction s; cbn [str_eqb]; [reflexivity|]. rewrite N.eqb_refl. assumption. Qed.

Lemma mem_str_In : forall x l, mem_str x l = true -> In x l.
Proof.
  intros x l H. unfold mem_str in H. apply existsb_exists in H as [y [I E]].
  apply str_eqb_eq in E. subst. exact I.
Qed.

Lemma assoc_s_In : forall (A : Type) k (l : list (str * A)) v, assoc_s k l = Some v -> In (k, v) l.
Proof.
  induction l as [|[k' v'] l IH]; intros v H; cbn [assoc_s] in H; [discriminate|].
  destruct (str_eqb k' k) eqn:E.
  - apply str_eqb_eq in E. subst. inversion H. left; reflexivity.
  - right. auto.
Qed.

(* ------------------------------------------------------------ facts about the tables *)

Definition safe_key (k : str) : bool := negb (starts_on k) && negb (mem_str k url_attr_names).

Definition key_static_ok (el k : str) : bool :=
  negb (starts_on k)
  && (negb (mem_str k url_attr_names)
      || match checked_url_key el with Some k' => str_eqb k' k | None => false end).

(** every attribute the policy can let through, on every element, is not an event handler, and
    if it is a URL attribute it is the one validURL is applied to on that element; no forbidden
    element is in the element table except those the loop drops by name (script, style) *)
Definition tables_ok : bool :=
  forallb (fun ea => forallb (fun kp => key_static_ok (fst ea) (fst kp)) (snd ea)) bm_el_attrs
  && forallb (fun kp => safe_key (fst kp)) bm_global_attrs
  && forallb (fun n => match assoc_s n bm_el_attrs with None => true | Some _ => unsafe_name n end) forbidden_elements
  && forallb (fun sc => mem_str sc safe_schemes) bm_url_schemes
  && safe_key s_rel && safe_key s_target && safe_key s_crossorigin
  && bm_requireParseableURLs && negb bm_allowUnsafe.

Lemma tables_ok_true : tables_ok = true.
Proof. vm_compute. reflexivity. Qed.

Definition tbl_el : bool := forallb (fun ea => forallb (fun kp => key_static_ok (fst ea) (fst kp)) (snd ea)) bm_el_attrs.
Definition tbl_global : bool := forallb (fun kp => safe_key (fst kp)) bm_global_attrs.
Definition tbl_forbidden : bool :=
  forallb (fun n => match assoc_s n bm_el_attrs with None => true | Some _ => unsafe_name n end) forbidden_elements.

Definition tbl_schemes : bool := forallb (fun sc => mem_str sc safe_schemes) bm_url_schemes.

Lemma tables_parts : tbl_el = true /\ tbl_global = true /\ tbl_forbidden = true /\ tbl_schemes = true.
Proof.
  pose proof tables_ok_true as T. unfold tables_ok in T.
  fold tbl_el tbl_global tbl_forbidden tbl_schemes in T.
  do 5 (apply andb_prop in T as [T _]).
  apply andb_prop in T as [T S]. apply andb_prop in T as [T F]. apply andb_prop in T as [E G]. auto.
Qed.

Lemma T_schemes : forall sc, mem_str sc bm_url_schemes = true -> mem_str sc safe_schemes = true.
Proof.
  intros sc H. apply mem_str_In in H. destruct tables_parts as [_ [_ [_ T]]]. unfold tbl_schemes in T.
  rewrite forallb_forall in T. exact (T _ H).
Qed.

Lemma T_el : forall el aps k ps, In (el, aps) bm_el_attrs -> In (k, ps) aps -> key_static_ok el k = true.
Proof.
  intros el aps k ps H1 H2. destruct tables_parts as [T _]. unfold tbl_el in T.
  rewrite forallb_forall in T. specialize (T _ H1). cbn [fst snd] in T.
  rewrite forallb_forall in T. exact (T _ H2).
Qed.

Lemma T_global : forall k ps, In (k, ps) bm_global_attrs -> safe_key k = true.
Proof.
  intros k ps H1. destruct tables_parts as [_ [T _]]. unfold tbl_global in T.
  rewrite forallb_forall in T. exact (T _ H1).
Qed.

Lemma T_forbidden : forall n aps, assoc_s n bm_el_attrs = Some aps -> unsafe_name n = false -> mem_str n forbidden_elements = false.
Proof.
  intros n aps A U. destruct (mem_str n forbidden_elements) eqn:M; [|reflexivity].
  apply mem_str_In in M. destruct tables_parts as [_ [_ [T _]]]. unfold tbl_forbidden in T.
  rewrite forallb_forall in T. specialize (T _ M). rewrite A in T. congruence.
Qed.

Lemma T_special : safe_key s_rel = true /\ safe_key s_target = true /\ safe_key s_crossorigin = true.
Proof. repeat split; vm_compute; reflexivity. Qed.

Lemma T_parseable : bm_requireParseableURLs = true. Proof. reflexivity. Qed.
Lemma T_unsafe : bm_allowUnsafe = false. Proof. reflexivity. Qed.

(* ------------------------------------------------------------------ inert attributes *)

Definition ainert (n : str) (a : hattr) : bool := attr_inert n (a_key a, a_val a).

Lemma safe_key_static : forall n k, safe_key k = true -> key_static_ok n k = true.
Proof.
  intros n k H. unfold safe_key in H. unfold key_static_ok. apply andb_prop in H as [H1 H2].
  rewrite H1, H2. reflexivity.
Qed.

Lemma safe_key_inert : forall n a, safe_key (a_key a) = true -> ainert n a = true.
Proof.
  intros n a H. unfold safe_key in H. apply andb_prop in H as [H1 H2].
  unfold ainert, attr_inert. cbn [fst snd]. rewrite H1, H2. reflexivity.
Qed.

Definition special (k : str) : bool := str_eqb k s_rel || str_eqb k s_target || str_eqb k s_crossorigin.

Lemma special_safe : forall k, special k = true -> safe_key k = true.
Proof.
  intros k H. unfold special in H. destruct T_special as [A [B C]].
  apply orb_prop in H as [H|H]; [apply orb_prop in H as [H|H]|]; apply str_eqb_eq in H; subst; assumption.
Qed.

(* ------------------------------------------------------------------ the URL decision *)

Lemma scheme_scan_nonempty : forall r acc s, acc <> [] -> scheme_scan acc r = Some s -> s <> [].
Proof.
  induction r as [|c r IH]; intros acc s Ha H; cbn [scheme_scan] in H; [discriminate|].
  destruct (c =? 58).
  - inversion H. intro E. apply Ha. apply (f_equal (@rev N)) in E. rewrite rev_involutive in E. exact E.
  - destruct (scheme_char c); [|discriminate]. eapply IH; [|exact H]. discriminate.
Qed.

Lemma browser_scheme_nonempty : forall v s, browser_scheme v = Some s -> s <> [].
Proof.
  intros v s H. unfold browser_scheme in H. destruct (strip_url v) as [|c r]; [discriminate|].
  destruct (is_alpha c); [|discriminate]. eapply scheme_scan_nonempty; [|exact H]. discriminate.
Qed.

Definition attr_sound (a : hattr) : bool :=
  match a_url a with Some u => urlinfo_sound u | None => true end.

Lemma valid_url_scheme : forall a v, attr_sound a = true -> valid_url a = Some v -> scheme_allowed v = true.
Proof.
  intros a v S H. unfold valid_url in H. rewrite T_parseable in H. unfold attr_sound in S.
  destruct (a_url a) as [u|]; [|discriminate].
  destruct (u_ok u) eqn:Ok; [|discriminate].
  unfold urlinfo_sound in S. rewrite Ok in S. cbn [negb orb] in S.
  unfold scheme_allowed.
  destruct (is_nil (u_scheme u)) eqn:Nil.
  - destruct (bm_allowRelativeURLs && negb (is_nil (u_str u))); [|discriminate]. inversion H; subst v.
    destruct (browser_scheme (u_str u)) as [s|] eqn:B; [|reflexivity].
    apply str_eqb_eq in S. subst s. apply browser_scheme_nonempty in B.
    destruct (u_scheme u); [congruence|discriminate].
  - destruct (mem_str (u_scheme u) bm_url_schemes) eqn:M; [|discriminate]. inversion H; subst v.
    destruct (browser_scheme (u_str u)) as [s|] eqn:B; [|reflexivity].
    apply str_eqb_eq in S. subst s. apply T_schemes. exact M.
Qed.

(* ------------------------------------------- what sanitize_attrs can return, stage by stage *)

Lemma filter_allowed_static : forall n aps attrs a,
  In (n, aps) bm_el_attrs -> In a (filter (attr_allowed aps) attrs) -> key_static_ok n (a_key a) = true.
Proof.
  intros n aps attrs a Hn H. apply filter_In in H as [_ H]. unfold attr_allowed in H.
  apply orb_prop in H as [H|H].
  - destruct (assoc_s (a_key a) aps) as [ps|] eqn:A; [|discriminate]. apply assoc_s_In in A.
    eapply T_el; eauto.
  - destruct (assoc_s (a_key a) bm_global_attrs) as [ps|] eqn:A; [|discriminate]. apply assoc_s_In in A.
    apply safe_key_static. eapply T_global; eauto.
Qed.

Lemma static_no_url_inert : forall n a, checked_url_key n = None -> key_static_ok n (a_key a) = true -> ainert n a = true.
Proof.
  intros n a C H. unfold key_static_ok in H. rewrite C in H. rewrite orb_false_r in H.
  apply safe_key_inert. exact H.
Qed.

Lemma check_urls_inert : forall n attrs,
  mem_str n linkable_els = true ->
  (forall a, In a attrs -> key_static_ok n (a_key a) = true /\ attr_sound a = true) ->
  forall a', In a' (check_urls n attrs) -> ainert n a' = true.
Proof.
  intros n attrs L H a' I. unfold check_urls in I. rewrite T_parseable in I.
  assert (C : checked_url_key n = url_key n) by (unfold checked_url_key; rewrite L; reflexivity).
  destruct (url_key n) as [k|] eqn:K.
  - apply in_flat_map in I as [a [Ia I]]. destruct (H a Ia) as [St So].
    destruct (str_eqb (a_key a) k) eqn:E.
    + destruct (valid_url a) as [v|] eqn:V; [|contradiction]. destruct I as [<-|[]].
      unfold ainert, attr_inert. cbn [set_val a_key a_val fst snd].
      unfold key_static_ok in St. apply andb_prop in St as [S1 _]. rewrite S1. cbn [andb].
      rewrite C. apply str_eqb_eq in E. subst k. rewrite str_eqb_rf. cbn [andb].
      rewrite (valid_url_scheme a v So V). apply orb_true_r.
    + destruct I as [<-|[]]. unfold key_static_ok in St. rewrite C in St.
      apply andb_prop in St as [S1 S2]. apply orb_prop in S2 as [S2|S2].
      * apply safe_key_inert. unfold safe_key. rewrite S1, S2. reflexivity.
      * apply str_eqb_eq in S2. subst k. rewrite str_eqb_rf in E. discriminate.
  - destruct (H a' I) as [St _]. apply static_no_url_inert; [rewrite C; reflexivity|exact St].
Qed.

(** rel_target and cross_origin only touch / add attributes with one of three harmless keys *)
Lemma map_special : forall (c : hattr -> bool) (f : hattr -> str) l a',
  (forall a, c a = true -> special (a_key a) = true) ->
  In a' (map (fun a => if c a then set_val a (f a) else a) l) -> In a' l \/ special (a_key a') = true.
Proof.
  intros c f l a' Hc I. apply in_map_iff in I as [a [E I]]. destruct (c a) eqn:C.
  - right. subst a'. cbn [set_val a_key]. auto.
  - left. subst. exact I.
Qed.

Lemma fold_target_special : forall (is_a addTB : bool) l st a',
  In a' (snd (fold_left (fun (st : bool * list hattr) a =>
                        let '(found, acc) := st in
                        if is_a && str_eqb (a_key a) s_target then
                          let found1 := found || str_eqb (a_val a) s_blank in
                          if addTB && negb found1 then (true, acc ++ [set_val a s_blank])
                          else (found1, acc ++ [a])
                        else (found, acc ++ [a])) l st)) ->
  In a' (snd st) \/ In a' l \/ special (a_key a') = true.
Proof.
  induction l as [|a l IH]; intros [found acc] a' I; cbn [fold_left] in I; [left; exact I|].
  apply IH in I. destruct I as [I|[I|I]]; [|right; left; right; exact I|right; right; exact I].
  destruct (is_a && str_eqb (a_key a) s_target) eqn:C.
  - destruct (addTB && negb (found || str_eqb (a_val a) s_blank)); cbn [snd] in I;
      apply in_app_or in I as [I|[<-|[]]]; auto.
    + right. right. cbn [set_val a_key]. apply andb_prop in C as [_ C]. unfold special. rewrite C.
      rewrite orb_true_r. reflexivity.
    + right. left. left. reflexivity.
  - cbn [snd] in I. apply in_app_or in I as [I|[<-|[]]]; auto. right. left. left. reflexivity.
Qed.

Lemma mk_special : forall k v, special k = true -> special (a_key (mk_attr k v)) = true.
Proof. intros. exact H. Qed.

Lemma special_rel : special s_rel = true. Proof. reflexivity. Qed.
Lemma special_target : special s_target = true. Proof. reflexivity. Qed.
Lemma special_cross : special s_crossorigin = true. Proof. reflexivity. Qed.

Lemma rel_target_elems : forall el l a', In a' (rel_target el l) -> In a' l \/ special (a_key a') = true.
Proof.
  intros el l a' I. unfold rel_target in I.
  match type of I with In _ (if ?c then _ else _) => destruct c end; [|left; exact I].
  match type of I with In _ (if ?c then _ else _) => destruct c end; [left; exact I|].
  cbv zeta in I.
  (* peel the stages from the outside *)
  set (external := existsb _ (filter _ l)) in I.
  set (addNF := bm_requireNoFollow || external && bm_requireNoFollowFullyQualifiedLinks) in I.
  set (addNR := bm_requireNoReferrer || external && bm_requireNoReferrerFullyQualifiedLinks) in I.
  set (addTB := external && bm_addTargetBlankToFullyQualifiedLinks) in I.
  set (pass1 := map _ l) in I.
  set (pass1t := snd (fold_left _ pass1 (false, []))) in I.
  assert (P1 : forall x, In x pass1 -> In x l \/ special (a_key x) = true).
  { intros x Ix. unfold pass1 in Ix.
    apply (map_special (fun a => str_eqb (a_key a) s_rel && (addNF || addNR))
             (fun a => add_word addNR s_noreferrer (add_word addNF s_nofollow (a_val a)))) in Ix; [exact Ix|].
    intros a C. apply andb_prop in C as [C _]. unfold special. rewrite C. reflexivity. }
  assert (P1t : forall x, In x pass1t -> In x l \/ special (a_key x) = true).
  { intros x Ix. unfold pass1t in Ix. apply fold_target_special in Ix as [[]|[Ix|Ix]]; auto. }
  set (with_rel := if _ : bool then pass1t ++ [mk_attr s_rel _] else pass1t) in I.
  assert (PR : forall x, In x with_rel -> In x l \/ special (a_key x) = true).
  { intros x Ix. unfold with_rel in Ix.
    match type of Ix with In _ (if ?c then _ else _) => destruct c end; [|auto].
    apply in_app_or in Ix as [Ix|[<-|[]]]; auto. }
  set (with_target := if _ : bool then with_rel ++ [mk_attr s_target s_blank] else with_rel) in I.
  assert (PT : forall x, In x with_target -> In x l \/ special (a_key x) = true).
  { intros x Ix. unfold with_target in Ix.
    match type of Ix with In _ (if ?c then _ else _) => destruct c end; [|auto].
    apply in_app_or in Ix as [Ix|[<-|[]]]; auto. }
  match type of I with In _ (if ?c then _ else _) => destruct c end; [|auto].
  match type of I with In _ (if ?c then _ else _) => destruct c end.
  - apply (map_special (fun a => str_eqb (a_key a) s_rel && negb (contains s_noopener (a_val a)))
             (fun a => a_val a ++ [32] ++ s_noopener)) in I.
    + destruct I as [I|I]; auto.
    + intros a C. apply andb_prop in C as [C _]. unfold special. rewrite C. reflexivity.
  - apply in_app_or in I as [I|[<-|[]]]; auto.
Qed.

Lemma cross_origin_elems : forall el l a', In a' (cross_origin el l) -> In a' l \/ special (a_key a') = true.
Proof.
  intros el l a' I. unfold cross_origin in I.
  match type of I with In _ (if ?c then _ else _) => destruct c end; [|left; exact I].
  match type of I with In _ (if ?c then _ else _) => destruct c end.
  - apply (map_special (fun a => str_eqb (a_key a) s_crossorigin) (fun _ => s_anonymous)) in I; [exact I|].
    intros a C. unfold special. rewrite C. apply orb_true_r.
  - apply in_app_or in I as [I|[<-|[]]]; auto.
Qed.

Lemma sanitize_attrs_inert : forall n aps attrs,
  In (n, aps) bm_el_attrs -> forallb attr_sound attrs = true ->
  forall a', In a' (sanitize_attrs n attrs aps) -> ainert n a' = true.
Proof.
  intros n aps attrs Hn So a' I. unfold sanitize_attrs in I.
  set (clean := filter (attr_allowed aps) attrs) in I.
  assert (Cl : forall a, In a clean -> key_static_ok n (a_key a) = true /\ attr_sound a = true).
  { intros a Ia. split; [eapply filter_allowed_static; eauto|].
    apply filter_In in Ia as [Ia _]. rewrite forallb_forall in So. auto. }
  destruct (is_nil clean); [contradiction|].
  apply cross_origin_elems in I as [I|I]; [|apply safe_key_inert, special_safe; exact I].
  destruct (mem_str n linkable_els) eqn:L.
  - apply rel_target_elems in I as [I|I]; [|apply safe_key_inert, special_safe; exact I].
    eapply check_urls_inert; eauto.
  - destruct (Cl _ I) as [St _]. apply static_no_url_inert; [|exact St].
    unfold checked_url_key. rewrite L. reflexivity.
Qed.

(* ----------------------------------------------------------------------- the token loop *)

Definition tok_sound (t : htoken) : bool := forallb attr_sound (t_attrs t).

Lemma spaces_inert : forallb otoken_inert spaces = true.
Proof. unfold spaces. destruct bm_addSpaces; reflexivity. Qed.

Lemma tag_inert_intro : forall n aps attrs,
  assoc_s n bm_el_attrs = Some aps -> unsafe_name n = false ->
  (forall a, In a attrs -> ainert n a = true) ->
  tag_inert n (out_attrs attrs) = true.
Proof.
  intros n aps attrs A U H. unfold tag_inert. rewrite A. cbn [is_nil negb andb].
  rewrite (T_forbidden n aps A U). cbn [negb andb].
  apply forallb_forall. intros kv I. unfold out_attrs in I. apply in_map_iff in I as [a [<- I]].
  exact (H a I).
Qed.

Lemma bm_step_inert : forall s t, tok_sound t = true -> forallb otoken_inert (snd (bm_step s t)) = true.
Proof.
  intros s t So. unfold bm_step. rewrite T_unsafe. cbn [negb]. rewrite !andb_true_r.
  destruct (t_kind t); try reflexivity.
  - (* text *)
    destruct (skip_content s); [reflexivity|].
    destruct (str_eqb (recent s) s_script || str_eqb (recent s) s_style); reflexivity.
  - (* start *)
    destruct (unsafe_name (t_data t)) eqn:U; [reflexivity|].
    destruct (assoc_s (t_data t) bm_el_attrs) as [aps|] eqn:A.
    + match goal with |- context [if ?c then _ else _] => destruct c end; [apply spaces_inert|].
      cbn [snd set_recent skip_content]. destruct (skip_content s); [reflexivity|].
      cbn [forallb otoken_inert]. rewrite andb_true_r.
      eapply tag_inert_intro; eauto. intros a I.
      destruct (is_nil (t_attrs t)); [contradiction|].
      eapply sanitize_attrs_inert; eauto. apply assoc_s_In. exact A.
    + destruct (mem_str (t_data t) bm_skip_content); apply spaces_inert.
  - (* end *)
    destruct (unsafe_name (t_data t)); [reflexivity|].
    match goal with |- context [if ?c then _ else _] => destruct c end; [apply spaces_inert|].
    destruct (assoc_s (t_data t) bm_el_attrs).
    + cbn [snd]. match goal with |- context [if ?c then [] else _] => destruct c end; reflexivity.
    + destruct (mem_str (t_data t) bm_skip_content); apply spaces_inert.
  - (* self-closing *)
    destruct (unsafe_name (t_data t)) eqn:U; [reflexivity|].
    destruct (assoc_s (t_data t) bm_el_attrs) as [aps|] eqn:A; [|apply spaces_inert].
    match goal with |- context [if ?c then _ else _] => destruct c end; [apply spaces_inert|].
    cbn [snd]. destruct (skip_content s); [reflexivity|].
    cbn [forallb otoken_inert]. rewrite andb_true_r.
    eapply tag_inert_intro; eauto. intros a I.
    destruct (is_nil (t_attrs t)); [contradiction|].
    eapply sanitize_attrs_inert; eauto. apply assoc_s_In. exact A.
Qed.

Lemma bm_run_inert : forall toks s, forallb tok_sound toks = true -> forallb otoken_inert (bm_run s toks) = true.
Proof.
  induction toks as [|t r IH]; intros s H; [reflexivity|].
  cbn [forallb] in H. apply andb_prop in H as [Ht Hr]. cbn [bm_run].
  rewrite forallb_app, bm_step_inert, IH; auto.
Qed.

(* ------------------------------------------------------------------------- rendering *)

Lemma render_attr_shape : forall k v,
  exists v', render_attr (k, v) = [32] ++ k ++ [61; 34] ++ v' ++ [34]
             /\ (forall c, In c v' -> c <> 34 /\ c <> 60 /\ c <> 62 /\ c <> 39 /\ c <> 13)
             /\ unescape esc_x v' = v.
Proof.
  intros k v. exists (escape esc_x v). split; [reflexivity|]. split.
  - intros c I. destruct (proj1 (proj2 escape_no_active_chars) _ _ I) as [? [? [? [? ?]]]]. tauto.
  - apply unescape_escape_x.
Qed.

Lemma render_text_clean : forall d c, In c (render_otoken (OText d)) -> c <> 60 /\ c <> 62 /\ c <> 34 /\ c <> 39.
Proof.
  intros d c I. cbn [render_otoken] in I.
  destruct (proj1 (proj2 escape_no_active_chars) _ _ I) as [? [? [? [? ?]]]]. tauto.
Qed.

(** the style values that come out are values that went in: the policy passes them through *)
Lemma style_not_special : special s_style = false. Proof. reflexivity. Qed.

(* -------------------------------------------------------------------- the composition *)

(** sanitized_html_inert: for EVERY document string, EVERY token list and EVERY pattern-match
    answer, if the supplied net/url results are sound then Policy.Sanitize's output is either the
    (white-space only) document itself or the rendering of a token list in which every start tag
    is an allowed, non-forbidden element whose attributes are no event handlers and whose URL
    attributes show a browser an allowed scheme (or none); attribute values and text are written
    escaped. *)
Theorem sanitized_html_inert : forall (doc : str) (toks : list htoken),
  forallb tok_sound toks = true ->
  (blank doc = true /\ bm_sanitize doc toks = doc)
  \/ (bm_sanitize doc toks = render_tokens (bm_tokens toks)
      /\ forallb otoken_inert (bm_tokens toks) = true
      /\ (forall d, In (OText d) (bm_tokens toks) ->
            forall c, In c (render_otoken (OText d)) -> c <> 60 /\ c <> 62 /\ c <> 34 /\ c <> 39)
      /\ (forall n attrs k v,
            In (OStart n attrs) (bm_tokens toks) \/ In (OSelf n attrs) (bm_tokens toks) -> In (k, v) attrs ->
            exists v', render_attr (k, v) = [32] ++ k ++ [61; 34] ++ v' ++ [34]
            /\ (forall c, In c v' -> c <> 34 /\ c <> 60 /\ c <> 62 /\ c <> 39 /\ c <> 13)
            /\ unescape esc_x v' = v)).
Proof.
  intros doc toks H. unfold bm_sanitize. destruct (blank doc) eqn:B; [left; auto|right].
  split; [reflexivity|]. split; [apply bm_run_inert; exact H|]. split.
  - intros d _. apply render_text_clean.
  - intros n attrs k v _ _. apply render_attr_shape.
Qed.

(** a blank document holds no markup at all *)
Lemma space_len_blank : forall tbl s n, space_len tbl s = Some n -> exists e, In e tbl /\ strip_prefix e s <> None.
Proof.
  induction tbl as [|e tbl IH]; intros s n H; cbn [space_len] in H; [discriminate|].
  destruct (strip_prefix e s) eqn:E.
  - exists e. split; [left; reflexivity|congruence].
  - destruct (IH _ _ H) as [e' [I P]]. exists e'. split; [right; exact I|exact P].
Qed.

(* ------------------------------------------------------------------------ non-vacuity *)
(* a href=javascript:alert(1) onclick=x, with a sound parse result: the tag loses both *)
Definition ex_js : hattr :=
  {| a_key := s_href; a_val := [106;97;118;97;115;99;114;105;112;116;58;97;108;101;114;116;40;49;41];
     a_match := repeat false bm_npatterns;
     a_url := Some {| u_ok := true; u_scheme := [106;97;118;97;115;99;114;105;112;116];
                      u_str := [106;97;118;97;115;99;114;105;112;116;58;97;108;101;114;116;40;49;41]; u_host := false |} |}.
Definition ex_on : hattr := {| a_key := [111;110;99;108;105;99;107]; a_val := [120]; a_match := repeat true bm_npatterns; a_url := None |}.
Example policy_example_sound : tok_sound {| t_kind := KStart; t_data := s_a; t_attrs := [ex_js; ex_on] |} = true.
Proof. vm_compute. reflexivity. Qed.
Example policy_example :
  bm_tokens [ {| t_kind := KStart; t_data := s_a; t_attrs := [ex_js; ex_on] |};
              {| t_kind := KText; t_data := [120; 60]; t_attrs := [] |};
              {| t_kind := KEnd; t_data := s_a; t_attrs := [] |} ]
  = match assoc_s s_a bm_el_attrs with
    | Some _ => if mem_str s_a bm_no_attrs_ok then [OStart s_a []; OText [120; 60]; OEnd s_a []] else [OText [120; 60]]
    | None => [OText [120; 60]]
    end.
Proof. vm_compute. reflexivity. Qed.
(* the hypothesis matters: an unsound parse result (scheme reported empty for a javascript: string) is let through *)
Example policy_hyp_needed :
  let bad := {| a_key := s_href; a_val := []; a_match := []; a_url := Some {| u_ok := true; u_scheme := [];
                 u_str := [106;97;118;97;115;99;114;105;112;116;58;120]; u_host := false |} |} in
  attr_sound bad = false.
Proof. vm_compute. reflexivity. Qed.

(* ------------------------------------------------- style values are passed through unchanged *)

Lemma check_urls_elems : forall n attrs a', In a' (check_urls n attrs) ->
  In a' attrs \/ (exists k, url_key n = Some k /\ a_key a' = k).
Proof.
  intros n attrs a' I. unfold check_urls in I. destruct bm_requireParseableURLs; [|left; exact I].
  destruct (url_key n) as [k|]; [|left; exact I].
  apply in_flat_map in I as [a [Ia I]]. destruct (str_eqb (a_key a) k) eqn:E.
  - destruct (valid_url a); [|contradiction]. destruct I as [<-|[]]. right. exists k. split; [reflexivity|].
    cbn [set_val a_key]. apply str_eqb_eq. exact E.
  - destruct I as [<-|[]]. left. exact Ia.
Qed.

Lemma url_key_not_style : forall n k, url_key n = Some k -> k <> s_style.
Proof.
  intros n k H. unfold url_key in H.
  destruct (mem_str n href_els); [inversion H; discriminate|].
  destruct (mem_str n cite_els); [inversion H; discriminate|].
  destruct (mem_str n src_els); [inversion H; discriminate|discriminate].
Qed.

Lemma sanitize_attrs_style : forall n aps attrs a',
  In a' (sanitize_attrs n attrs aps) -> a_key a' = s_style -> In a' attrs.
Proof.
  intros n aps attrs a' I K. unfold sanitize_attrs in I.
  destruct (is_nil (filter (attr_allowed aps) attrs)); [contradiction|].
  assert (S : special (a_key a') = false) by (rewrite K; reflexivity).
  apply cross_origin_elems in I as [I|I]; [|congruence].
  assert (F : In a' (filter (attr_allowed aps) attrs) -> In a' attrs) by (intro X; apply filter_In in X; tauto).
  destruct (mem_str n linkable_els); [|auto].
  apply rel_target_elems in I as [I|I]; [|congruence].
  apply check_urls_elems in I as [I|[k [U E]]]; [auto|].
  exfalso. apply (url_key_not_style n k U). congruence.
Qed.

Lemma bm_run_In : forall toks s o, In o (bm_run s toks) -> exists s' t, In t toks /\ In o (snd (bm_step s' t)).
Proof.
  induction toks as [|t r IH]; intros s o I; cbn [bm_run] in I; [contradiction|].
  apply in_app_or in I as [I|I].
  - exists s, t. split; [left; reflexivity|exact I].
  - destruct (IH _ _ I) as [s' [t' [It Io]]]. exists s', t'. split; [right; exact It|exact Io].
Qed.

Lemma out_attrs_In : forall attrs k v, In (k, v) (out_attrs attrs) -> exists a, In a attrs /\ a_key a = k /\ a_val a = v.
Proof.
  intros attrs k v I. unfold out_attrs in I. apply in_map_iff in I as [a [E I]]. inversion E. eauto.
Qed.

Lemma bm_step_style : forall s t n attrs v,
  In (OStart n attrs) (snd (bm_step s t)) \/ In (OSelf n attrs) (snd (bm_step s t)) ->
  In (s_style, v) attrs -> exists a, In a (t_attrs t) /\ a_key a = s_style /\ a_val a = v.
Proof.
  intros s t n attrs v I Iv. unfold bm_step in I.
  assert (Sp : forall o, In o spaces -> exists x, o = ORaw x).
  { intros o Io. unfold spaces in Io. destruct bm_addSpaces; [destruct Io as [<-|[]]; eauto|contradiction]. }
  assert (NoSp : forall m l, ~ In (OStart m l) spaces /\ ~ In (OSelf m l) spaces).
  { intros m l. split; intro X; destruct (Sp _ X); discriminate. }
  destruct (t_kind t).
  - destruct (skip_content s); [destruct I as [[]|[]]|].
    destruct (str_eqb (recent s) s_script || str_eqb (recent s) s_style).
    + destruct bm_allowUnsafe; destruct I as [I|I]; cbn in I; try tauto; destruct I as [I|[]]; discriminate.
    + destruct I as [[I|[]]|[I|[]]]; discriminate.
  - (* start *)
    destruct (unsafe_name (t_data t) && negb bm_allowUnsafe); [destruct I as [[]|[]]|].
    destruct (assoc_s (t_data t) bm_el_attrs) as [aps|].
    + match type of I with context [if ?c then _ else _] => destruct c end.
      * destruct (NoSp n attrs). tauto.
      * cbn [snd] in I. match type of I with context [if ?c then [] else _] => destruct c end; [destruct I as [[]|[]]|].
        destruct I as [[I|[]]|[I|[]]]; [|discriminate]. inversion I; subst.
        apply out_attrs_In in Iv as [a [Ia [K V]]].
        destruct (is_nil (t_attrs t)); [contradiction|].
        exists a. split; [eapply sanitize_attrs_style; eauto|auto].
    + destruct (mem_str (t_data t) bm_skip_content); cbn [snd] in I; destruct (NoSp n attrs); tauto.
  - (* end *)
    destruct (unsafe_name (t_data t) && negb bm_allowUnsafe); [destruct I as [[]|[]]|].
    match type of I with context [if ?c then _ else _] => destruct c end; [destruct (NoSp n attrs); tauto|].
    destruct (assoc_s (t_data t) bm_el_attrs).
    + cbn [snd] in I. match type of I with context [if ?c then [] else _] => destruct c end; [destruct I as [[]|[]]|].
      destruct I as [[I|[]]|[I|[]]]; discriminate.
    + destruct (mem_str (t_data t) bm_skip_content); cbn [snd] in I; destruct (NoSp n attrs); tauto.
  - (* self *)
    destruct (unsafe_name (t_data t) && negb bm_allowUnsafe); [destruct I as [[]|[]]|].
    destruct (assoc_s (t_data t) bm_el_attrs) as [aps|]; [|destruct (NoSp n attrs); tauto].
    match type of I with context [if ?c then _ else _] => destruct c end; [destruct (NoSp n attrs); tauto|].
    cbn [snd] in I. destruct (skip_content s); [destruct I as [[]|[]]|].
    destruct I as [[I|[]]|[I|[]]]; [discriminate|]. inversion I; subst.
    apply out_attrs_In in Iv as [a [Ia [K V]]].
    destruct (is_nil (t_attrs t)); [contradiction|].
    exists a. split; [eapply sanitize_attrs_style; eauto|auto].
  - destruct I as [[]|[]].
  - destruct I as [[]|[]].
Qed.

(** every style value the policy writes on a start tag is the value of a style attribute of an
    input token: whatever holds of all style values going in holds of all coming out *)
Theorem style_values_pass_through : forall toks n attrs v,
  In (OStart n attrs) (bm_tokens toks) \/ In (OSelf n attrs) (bm_tokens toks) ->
  In (s_style, v) attrs ->
  exists t a, In t toks /\ In a (t_attrs t) /\ a_key a = s_style /\ a_val a = v.
Proof.
  intros toks n attrs v I Iv. unfold bm_tokens in I.
  destruct I as [I|I]; apply bm_run_In in I as [s' [t [It Io]]];
    (destruct (bm_step_style s' t n attrs v) as [a [Ia [K V]]]; [tauto|exact Iv|]); exists t, a; auto.
Qed.


(* ------------------------------- the style clause, composed, with H-tok as an explicit hypothesis *)

Fixpoint item_attrs (items : list item) : list attr :=
  match items with
  | [] => []
  | Raw _ :: r => item_attrs r
  | Tag _ attrs _ :: r => attrs ++ item_attrs r
  end.

(** H-tok for style values, as a hypothesis: every style attribute the policy's tokenizer reports
    on the rewritten document carries a value the start-tag rewriter wrote, i.e. the output of
    sanitizeStyle on the token list of some style attribute of the original document. (This is
    what is assumed of x/net/html: tokenising the rewriter's quoted, escaped output reads the
    value back. It is not provable without a model of the tokenizer.) *)
Definition H_tok_style (items : list item) (toks2 : list htoken) : Prop :=
  forall t a, In t toks2 -> In a (t_attrs t) -> a_key a = s_style ->
    exists key val toks, In (Attr key val toks) (item_attrs items) /\ is_style key = true /\ a_val a = sanitize_style toks.

(** the style clause of C18 over html_model: under H-tok, every style value on a start tag of the
    final token list is a concatenation of allow-listed declaration groups *)
Theorem html_style_clause : forall items toks2, H_tok_style items toks2 ->
  forall n attrs v,
    In (OStart n attrs) (bm_tokens toks2) \/ In (OSelf n attrs) (bm_tokens toks2) ->
    In (s_style, v) attrs ->
    exists ps, v = render ps /\ groups_ok false ps = true /\ (forall p, In (PProp p) ps -> allowed p = true).
Proof.
  intros items toks2 H n attrs v I Iv.
  destruct (style_values_pass_through toks2 n attrs v I Iv) as [t [a [It [Ia [K V]]]]].
  destruct (H t a It Ia K) as [key [val [toks [_ [_ E]]]]].
  destruct (style_only_allowed toks) as [ps [R [G P]]].
  exists ps. split; [congruence|]. split; assumption.
Qed.


(** the computable form of H-tok for style values implies the hypothesis of html_style_clause *)
Lemma style_vals_In : forall items v, In v (style_vals_of_items items) ->
  exists key val toks, In (Attr key val toks) (item_attrs items) /\ is_style key = true /\ v = sanitize_style toks.
Proof.
  induction items as [|it items IH]; intros v I; [contradiction|].
  unfold style_vals_of_items in I. cbn [flat_map] in I. apply in_app_or in I as [I|I].
  - destruct it as [b|n attrs sc]; [contradiction|].
    apply in_flat_map in I as [[k val toks] [Ia I]]. unfold is_style.
    destruct (str_eqb (go_lower k) style_key) eqn:E; [|contradiction]. destruct I as [<-|[]].
    exists k, val, toks. split; [cbn [item_attrs]; apply in_or_app; left; exact Ia|]. split; [exact E|reflexivity].
  - destruct (IH v I) as [k [val [toks [Ia R]]]]. exists k, val, toks. split; [|exact R].
    destruct it; cbn [item_attrs]; [exact Ia|apply in_or_app; right; exact Ia].
Qed.

Lemma h_tok_style_check_sound : forall items toks2, h_tok_style_check items toks2 = true -> H_tok_style items toks2.
Proof.
  intros items toks2 H t a It Ia K. unfold h_tok_style_check in H. rewrite forallb_forall in H.
  specialize (H t It). rewrite forallb_forall in H. specialize (H a Ia).
  rewrite K, str_eqb_rf in H. cbn [negb orb] in H. apply mem_str_In in H.
  exact (style_vals_In items (a_val a) H).
Qed.

(** the style clause with the hypothesis in its checked, computable form *)
Theorem html_style_clause_checked : forall items toks2, h_tok_style_check items toks2 = true ->
  forall n attrs v,
    In (OStart n attrs) (bm_tokens toks2) \/ In (OSelf n attrs) (bm_tokens toks2) ->
    In (s_style, v) attrs ->
    exists ps, v = render ps /\ groups_ok false ps = true /\ (forall p, In (PProp p) ps -> allowed p = true).
Proof. intros items toks2 H. apply (html_style_clause items toks2). apply h_tok_style_check_sound. exact H. Qed.

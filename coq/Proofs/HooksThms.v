(** C17: extension hooks decide exactly what they say. *)
From IV Require Import Base.Bytes Base.BytesFacts Model.Policy Model.Smtp Model.Hooks Proofs.SmtpInv.
From Coq Require Import ZifyBool ZifyNat Lia Permutation.

(** Deny refuses MAIL / RCPT with the hook's own code; nothing is recorded. *)
Theorem deny_literal_mail : forall c s sz o code text,
  st s = READY -> sz <> SzBad ->
  (match sz with SzVal n => (n <= max_bytes c /\ n <= int32_max)%Z | _ => True end) ->
  step c s (L (Mail (MParsed sz (Some o)) (Deny code text))) = Ok s (one code) [].
Proof.
  intros c s sz o code text Hs Hb Hsz. unfold step, step_ready, step_mail_from. rewrite Hs.
  destruct sz as [| |n]; try congruence; try reflexivity.
  destruct (int32_max <? n)%Z eqn:E0; [lia|].
  destruct (max_bytes c <? n)%Z eqn:E; [lia|reflexivity].
Qed.

Theorem deny_literal_rcpt : forall c s r code text,
  st s = MAIL -> step c s (L (Rcpt (RParsed (Some r)) (Deny code text))) = Ok s (one code) [].
Proof. intros c s r code text Hs. unfold step, step_mail. rewrite Hs. reflexivity. Qed.

(** Allow accepts even against the domain policy (the recipient limit still applies). *)
Theorem allow_overrides_policy_mail : forall c s sz o,
  st s = READY -> sz <> SzBad ->
  (match sz with SzVal n => (n <= max_bytes c /\ n <= int32_max)%Z | _ => True end) ->
  step c s (L (Mail (MParsed sz (Some o)) Allow)) =
  Ok {| st := MAIL; from := Some o; rcpts := rcpts s; helo := helo s; tls := tls s |} (one 250) [].
Proof.
  intros c s sz o Hs Hb Hsz. unfold step, step_ready, step_mail_from. rewrite Hs.
  destruct sz as [| |n]; try congruence; try reflexivity.
  destruct (int32_max <? n)%Z eqn:E0; [lia|].
  destruct (max_bytes c <? n)%Z eqn:E; [lia|reflexivity].
Qed.

Theorem allow_overrides_policy_rcpt : forall c s r,
  st s = MAIL -> (Z.of_nat (length (rcpts s)) < max_rcpt c)%Z ->
  step c s (L (Rcpt (RParsed (Some r)) Allow)) =
  Ok {| st := MAIL; from := from s; rcpts := rcpts s ++ [r]; helo := helo s; tls := tls s |} (one 250) [].
Proof.
  intros c s r Hs Hl. unfold step, step_mail. rewrite Hs. cbn [andb].
  destruct (max_rcpt c <=? Z.of_nat (length (rcpts s)))%Z eqn:E; [lia|]. rewrite <- Hs.
  destruct s; reflexivity.
Qed.

(** Defer is exactly "no answer": policy decides. *)
Theorem defer_is_policy : forall c s p,
  step c s (L (Mail p Defer)) = step c s (L (Mail p NoAns)) /\
  forall q, step c s (L (Rcpt q Defer)) = step c s (L (Rcpt q NoAns)).
Proof.
  intros c s p. split.
  - unfold step, step_ready, step_mail, step_mail_from, step_greet; destruct (st s); try reflexivity.
    all: try (destruct p as [| |sz o]; try reflexivity; destruct sz, o; reflexivity).
  - intros q. unfold step, step_ready, step_mail, step_mail_from, step_greet; destruct (st s); try reflexivity.
    all: try (destruct q as [|[r|]]; reflexivity).
Qed.

(** Only the first listener that answers counts. *)
Theorem first_answer_wins : forall (E R : Type) (ls1 ls2 : list (E -> option R)) l e r,
  (forall l', In l' ls1 -> l' e = None) -> l e = Some r -> broker_emit (ls1 ++ l :: ls2) e = Some r.
Proof.
  intros E R ls1. induction ls1 as [|l1 ls1 IH]; intros ls2 l e r Hn Hl; cbn [app broker_emit].
  - rewrite Hl. reflexivity.
  - rewrite (Hn l1 (or_introl eq_refl)). apply IH; [intros; apply Hn; right; assumption|exact Hl].
Qed.

Theorem silent_listener_is_absent : forall (E R : Type) (ls1 ls2 : list (E -> option R)) l e,
  l e = None -> broker_emit (ls1 ++ l :: ls2) e = broker_emit (ls1 ++ ls2) e.
Proof.
  intros E R ls1. induction ls1 as [|l1 ls1 IH]; intros ls2 l e Hl; cbn [app broker_emit].
  - rewrite Hl. reflexivity.
  - destruct (l1 e); [reflexivity|apply IH; exact Hl].
Qed.

(** A replaced inbound message is delivered to exactly the mailboxes, and with the sender,
    recipients and subject, the hook returned; the store policy is bypassed. *)
Theorem replacement_exact : forall c o rs hl body h mbs f t sj d,
  In d (deliveries_for c o rs hl body h
          (Some {| ov_mailboxes := Some mbs; ov_from := Some f; ov_to := Some t; ov_subject := Some sj |})) ->
  In (d_mailbox d) mbs /\ d_from d = f /\ d_to d = t /\ d_subject d = sj /\ d_body d = body.
Proof.
  intros c o rs hl body h mbs f t sj d H. unfold deliveries_for in H. cbn in H.
  apply in_map_iff in H. destruct H as (mb & <- & Hin). cbn. auto.
Qed.

Theorem replacement_mailboxes : forall c o rs hl body h ov,
  map d_mailbox (deliveries_for c o rs hl body h (Some ov)) =
  match ov_mailboxes ov with Some l => l | None => map r_mailbox rs end.
Proof. intros. unfold deliveries_for. rewrite map_map. cbn. rewrite map_id. reflexivity. Qed.

(** A handler that raises an error or returns the wrong kind of value has not answered. *)
Theorem erroring_hook_is_silent : forall call,
  (forall a, call <> Returned (LResponse a)) -> smtp_answer call = NoAns.
Proof.
  intros call H. destruct call as [|v]; [reflexivity|]. destruct v; try reflexivity.
  exfalso. eapply H. reflexivity.
Qed.

Theorem erroring_msg_hook_is_silent : forall call,
  (forall ov, call <> Returned (LInbound ov)) -> msg_answer call = None.
Proof.
  intros call H. destruct call as [|v]; [reflexivity|]. destruct v; try reflexivity.
  exfalso. eapply H. reflexivity.
Qed.

(** With no answer from any hook the session is the policy-only session of C01: a broken
    script loses no mail. *)
Theorem silent_hooks_deliver_as_policy : forall c items,
  forallb quiet_item items = true ->
  deliveries_of (fst (run c init items)) = entitled c None [] [] (dialogue (fst (run c init items))).
Proof.
  intros c items H. apply (run_entitled c items init None (inv_init c)); [intros [?|?]; discriminate|].
  clear -H. induction items as [|it items IH]; simpl in *; [reflexivity|].
  apply andb_true_iff in H. destruct H as [H1 H2]. rewrite (quiet_sane _ H1), (IH H2). reflexivity.
Qed.

(** ** statePool: no LState is ever held by two callers *)
Definition pool_inv (p : pool) : Prop :=
  NoDup (free p ++ map snd (held p)) /\ (forall i, In i (free p ++ map snd (held p)) -> i < next_id p)%nat.

Lemma take_held_spec : forall t h i h', take_held t h = Some (i, h') ->
  exists a b, h = a ++ (t, i) :: b /\ h' = a ++ b.
Proof.
  induction h as [|[t' j] h IH]; intros i h' H; cbn in H; [discriminate|].
  destruct (Nat.eqb t t') eqn:E.
  - apply Nat.eqb_eq in E. subst t'. inversion H; subst. eexists [], _. split; reflexivity.
  - destruct (take_held t h) as [[k r]|] eqn:T; [|discriminate]. inversion H; subst.
    destruct (IH _ _ eq_refl) as (a & b & Ha & Hb). subst. exists ((t', j) :: a), b. split; reflexivity.
Qed.

Lemma pool_step_inv p o : pool_inv p -> pool_inv (pool_step p o).
Proof.
  intros [Hnd Hlt]. destruct o as [t|t]; cbn [pool_step].
  - destruct (rev (free p)) as [|i r] eqn:Er.
    + assert (free p = []) as Hf by (destruct (free p); [reflexivity|]; apply (f_equal (@length nat)) in Er;
        rewrite rev_length in Er; discriminate).
      rewrite Hf in *. cbn in *. split.
      * constructor; [|exact Hnd]. intro Hin. apply Hlt in Hin. exact (Nat.lt_irrefl _ Hin).
      * intros i [<-|Hin]; [apply Nat.lt_succ_diag_r|]. apply Hlt in Hin. apply Nat.lt_lt_succ_r. exact Hin.
    + assert (free p = rev r ++ [i]) as Hf by (rewrite <- (rev_involutive (free p)), Er; reflexivity).
      rewrite Hf in *. cbn [free next_id held map snd]. split.
      * rewrite <- app_assoc in Hnd. cbn [app] in Hnd.
        apply NoDup_remove in Hnd as [Hnd Hni]. cbn [free held map snd].
        apply Permutation_NoDup with (l := i :: rev r ++ map snd (held p)).
        -- apply Permutation_middle.
        -- constructor; assumption.
      * cbn [free held map snd]. intros j Hin. apply Hlt. rewrite <- app_assoc. cbn [app].
        apply in_app_or in Hin as [Hin|Hin]; [apply in_or_app; left; exact Hin|].
        apply in_or_app; right. destruct Hin as [<-|Hin]; [left; reflexivity|right; exact Hin].
  - destruct (take_held t (held p)) as [[i h']|] eqn:T; [|split; assumption].
    destruct (take_held_spec _ _ _ _ T) as (a & b & Hh & ->). rewrite Hh in *.
    rewrite map_app in Hnd, Hlt. cbn [map snd] in Hnd, Hlt.
    unfold pool_inv. cbn [free next_id held]. rewrite map_app, <- app_assoc. cbn [app]. split.
    + apply Permutation_NoDup with (l := free p ++ map snd a ++ i :: map snd b); [|exact Hnd].
      apply Permutation_app_head. symmetry. apply Permutation_middle.
    + intros j Hin. apply Hlt.
      apply in_app_or in Hin as [Hin|Hin]; [apply in_or_app; left; exact Hin|].
      apply in_or_app; right. destruct Hin as [<-|Hin].
      * apply in_or_app; right; left; reflexivity.
      * apply in_app_or in Hin as [Hin|Hin]; apply in_or_app; [left|right; right]; exact Hin.
Qed.

Theorem pool_exclusive : forall ops, pool_inv (fold_left pool_step ops pool_init).
Proof.
  intros ops. assert (H : pool_inv pool_init) by (split; [constructor|intros i []]).
  revert H. generalize pool_init. induction ops as [|o ops IH]; intros p H; cbn [fold_left]; [exact H|].
  apply IH, pool_step_inv, H.
Qed.

(** Consequence in words: the states held at any moment are pairwise distinct and none of them
    is in the pool. *)
Corollary held_distinct : forall ops, NoDup (map snd (held (fold_left pool_step ops pool_init))).
Proof.
  intros ops. destruct (pool_exclusive ops) as [H _]. revert H.
  generalize (free (fold_left pool_step ops pool_init)) as f.
  induction f as [|x f IH]; cbn [app]; intros H; [exact H|]. apply IH. inversion H; assumption.
Qed.

Example pool_example :
  map snd (held (fold_left pool_step [PGet 1; PGet 2; PPut 1; PGet 3; PGet 4] pool_init)) = [2; 0; 1]%nat.
Proof. reflexivity. Qed.

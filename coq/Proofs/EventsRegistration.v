(** C16 — an emit reaches every stable listener exactly once, whatever other listeners are
    added, replaced or removed around it (Emit is atomic w.r.t. registration: RWMutex). *)
From Coq Require Import List Arith Lia.
From IV Require Import Base.Bytes Model.StoreSpec Model.Events.
Import ListNotations.
Local Open Scope nat_scope.

Section R.
Variable E : Type.

Lemma rget_remove_other n m (ls : list (nat * list E)) : n <> m -> rget E n (rremove E m ls) = rget E n ls.
Proof.
  intros Hne. induction ls as [|[k q] ls IH]; [reflexivity|]. simpl.
  destruct (Nat.eqb m k) eqn:Q.
  - apply Nat.eqb_eq in Q. subst k. assert (Nat.eqb n m = false) as -> by (apply Nat.eqb_neq; exact Hne). reflexivity.
  - simpl. destruct (Nat.eqb n k); [reflexivity | exact IH].
Qed.

Lemma rget_app_some n (a b : list (nat * list E)) q : rget E n a = Some q -> rget E n (a ++ b) = Some q.
Proof.
  induction a as [|[k r] a IH]; [discriminate|]. simpl. destruct (Nat.eqb n k); [auto | exact IH].
Qed.

Lemma rget_emit n e (ls : list (nat * list E)) :
  rget E n (map (fun p => (fst p, snd p ++ [e])) ls) = option_map (fun q => q ++ [e]) (rget E n ls).
Proof.
  induction ls as [|[k r] ls IH]; [reflexivity|]. simpl. destruct (Nat.eqb n k); [reflexivity | exact IH].
Qed.

(** [emit_reaches_every_stable_listener]: a listener that is registered and is neither removed
    nor replaced during a schedule has received, at its end, exactly the events emitted during
    it, once each and in emit order — whatever happens to the other listeners. *)
Theorem emit_reaches_every_stable_listener n : forall sched ls q,
  rget E n ls = Some q -> rstable E n sched = true ->
  rget E n (rrun E ls sched) = Some (q ++ remitted E sched).
Proof.
  induction sched as [|a sched IH]; intros ls q Hg Hs.
  - simpl. rewrite app_nil_r. exact Hg.
  - unfold rrun in *. cbn [fold_left]. destruct a as [e|m|m]; cbn [rstable remitted rstep] in *.
    + rewrite (IH _ (q ++ [e])); [rewrite <- app_assoc; reflexivity | rewrite rget_emit, Hg; reflexivity | exact Hs].
    + apply andb_true_iff in Hs as [H1 H2]. apply Bool.negb_true_iff in H1. apply Nat.eqb_neq in H1.
      apply IH; [|exact H2]. apply rget_app_some. rewrite rget_remove_other by exact H1. exact Hg.
    + apply andb_true_iff in Hs as [H1 H2]. apply Bool.negb_true_iff in H1. apply Nat.eqb_neq in H1.
      apply IH; [|exact H2]. rewrite rget_remove_other by exact H1. exact Hg.
Qed.
End R.

Example stable_example :
  rget nat 1 (rrun nat [(0, []); (1, [])] [REmit nat 7; RRem nat 0; REmit nat 8; RAdd nat 0; REmit nat 9]) = Some [7; 8; 9].
Proof. reflexivity. Qed.

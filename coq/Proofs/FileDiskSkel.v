(** The ORDER of the file store's mutation steps, tied to the source: the skeletons the disk model was written
    from are the ones the translator reads from pkg/storage/file on every run (conditions compared by position,
    not by text), and the model's step lists are assembled from the skeletons' crash points in the skeletons'
    call order. A change of the order of os calls / crash points / helper calls inside AddMessage, newMessage,
    removeMessage, writeIndex, createDir, removeDir, removeDirIfEmpty, purge (seeds C10-q1, C11-q1 were such
    changes) makes [file_steps_pinned] fail to re-check. *)
From IV Require Import Base.Bytes Base.BytesFacts Model.FileDisk Model.FileDiskSkel Gen.FileSteps Proofs.FileDiskMap.
From Coq Require Import String List NArith Bool Lia.
Import ListNotations.
Open Scope string_scope.
Open Scope list_scope.

(** conditions are compared by position only (their text changes with harmless renamings) *)
Fixpoint erase (t : tok) : tok :=
  match t with
  | If_ _ => If_ "" | For_ _ => For_ "" | E t' => E (erase t') | _ => t
  end.

Theorem file_steps_pinned :
  map erase sk_AddMessage = map erase src_AddMessage /\
  map erase sk_MarkSeen = map erase src_MarkSeen /\
  map erase sk_RemoveMessage = map erase src_RemoveMessage /\
  map erase sk_PurgeMessages = map erase src_PurgeMessages /\
  map erase sk_newMessage = map erase src_newMessage /\
  map erase sk_removeMessage = map erase src_removeMessage /\
  map erase sk_purge = map erase src_purge /\
  map erase sk_writeIndex = map erase src_writeIndex /\
  map erase sk_createDir = map erase src_createDir /\
  map erase sk_removeDir = map erase src_removeDir /\
  map erase sk_removeDirIfEmpty = map erase src_removeDirIfEmpty.
Proof. repeat split; reflexivity. Qed.

(** * Reading a skeleton *)
(** crash points on the main path, in order *)
Fixpoint pts (l : list tok) : list string :=
  match l with [] => [] | P s :: r => s :: pts r | _ :: r => pts r end.

(** helper calls and crash points on the main path, in order *)
Fixpoint cps (l : list tok) : list tok :=
  match l with
  | [] => []
  | P s :: r => P s :: cps r
  | C s :: r => C s :: cps r
  | _ :: r => cps r
  end.

(** the two branches of a skeleton that is one if/else *)
Fixpoint split_if (depth : nat) (in_else : bool) (l : list tok) : list tok * list tok :=
  match l with
  | [] => ([], [])
  | t :: r =>
      match t, depth with
      | End_, 0%nat => ([], [])
      | Else_, 0%nat => split_if 0%nat true r
      | _, _ =>
          let depth' := match t with If_ _ | For_ _ => S depth | End_ => pred depth | _ => depth end in
          let '(a, b) := split_if depth' in_else r in
          if in_else then (a, t :: b) else (t :: a, b)
      end
  end.

Definition then_of (l : list tok) : list tok := match l with If_ _ :: r => fst (split_if 0%nat false r) | _ => [] end.
Definition else_of (l : list tok) : list tok := match l with If_ _ :: r => snd (split_if 0%nat false r) | _ => [] end.

(** * The model's steps carry the site names of the hooks *)
Definition site_of (s : fsstep) : string :=
  match s with
  | Mkdir _ => "file.dir.mkdir"
  | Create Raw _ => "file.add.create" | Write Raw _ _ => "file.add.write"
  | Flush Raw _ _ => "file.add.flush" | Close Raw _ => "file.add.close"
  | Create Tmp _ => "file.index.create" | Write Tmp _ _ => "file.index.write"
  | Flush Tmp _ _ => "file.index.flush" | Close Tmp _ => "file.index.close"
  | Rename _ _ => "file.index.rename" | RemoveIdx _ => "file.index.remove" | RemoveRaw _ => "file.remove.raw"
  | RemoveAll _ => "file.dir.removeall" | Rmdir _ => "file.dir.rmdir"
  end.

Definition sites (ss : list fsstep) : list string := map site_of ss.

Lemma sites_pseq a b d : sites (pseq a b d) = sites (a d) ++ sites (b (run' (a d) d)).
Proof. unfold sites, pseq. apply map_app. Qed.

Section Skel.
  Variable enc : FileDisk.index -> str.
  Variable dec : str -> option FileDisk.index.
  Variable hash : str -> str.
  Variable cap : nat.

  (** AddMessage's own crash points: create, write, flush, close of the .raw — in the source's order *)
  Lemma file_sites p b d : sites (p_file Raw p b d) = pts sk_AddMessage.
  Proof. reflexivity. Qed.

  (** createDir: the MkdirAll point, only when Stat failed *)
  Lemma mkdir_sites h d :
    sites (p_mkdir h d) = match lookup d (mbdir h) with None => pts (then_of sk_createDir) | Some _ => [] end.
  Proof. unfold p_mkdir. destruct (lookup d (mbdir h)); reflexivity. Qed.

  (** writeIndex, messages left: createDir first, then create / write / flush / close / rename of the tmp index *)
  Lemma index_nonempty_sites h nm m ms d :
    sites (p_write_index enc h nm (m :: ms) d) = sites (p_mkdir h d) ++ pts (then_of sk_writeIndex) /\
    cps (then_of sk_writeIndex) =
      [C "createDir"; P "file.index.create"; P "file.index.write"; P "file.index.flush"; P "file.index.close"; P "file.index.rename"].
  Proof. split; [|reflexivity]. unfold p_write_index. rewrite sites_pseq. reflexivity. Qed.

  (** writeIndex, no message left: unlink the index, then removeDir = RemoveAll, then removeDirIfEmpty at most twice *)
  Lemma index_empty_sites h nm d :
    exists k, (k <= 2)%nat /\
      sites (p_write_index enc h nm [] d) =
      pts (else_of sk_writeIndex) ++ pts sk_removeDir ++ concat (repeat (pts sk_removeDirIfEmpty) k) /\
      cps (else_of sk_writeIndex) = [P "file.index.remove"; C "removeDir"] /\
      cps sk_removeDir = [P "file.dir.removeall"; C "removeDirIfEmpty"; C "removeDirIfEmpty"].
  Proof.
    unfold p_write_index. rewrite sites_pseq. unfold p_rmdirs.
    destruct (empty_dir _ (l2dir h)).
    - destruct (empty_dir _ (l1dir h)); [exists 2%nat | exists 1%nat]; repeat split; auto.
    - exists 0%nat. repeat split; auto.
  Qed.

  (** removeMessage: writeIndex first, the .raw is unlinked afterwards and only when messages are left *)
  Lemma remove_sites h nm ms id d :
    sites (p_remove enc h nm ms id d) =
      sites (p_write_index enc h nm (remove_first id ms) d) ++
      (match remove_first id ms with [] => [] | _ => pts sk_removeMessage end) /\
    cps sk_removeMessage = [C "readIndex"; C "writeIndex"; P "file.remove.raw"].
  Proof.
    split; [|reflexivity]. unfold p_remove. rewrite sites_pseq. destruct (remove_first id ms); reflexivity.
  Qed.

  (** newMessage's cap loop: one removeMessage of the oldest per round *)
  Lemma evict_sites n h nm m ms d :
    sites (p_evict enc (S n) h nm (m :: ms) d) =
      sites (p_remove enc h nm (m :: ms) (m_id m) d) ++
      sites (p_evict enc n h nm ms (run' (p_remove enc h nm (m :: ms) (m_id m) d) d)) /\
    cps sk_newMessage = [C "readIndex"; C "removeMessage"; C "generateID"; C "hasID"; P "file.add.idretry"; C "generateID"].
  Proof. split; [|reflexivity]. simpl p_evict. apply sites_pseq. Qed.

  (** AddMessage as a whole: newMessage (the evictions), createDir, its own four points, writeIndex — the call
      order of the source *)
  Lemma add_sites mb info body cands d nm ms id :
    read_index dec d (hash mb) mb = Some (nm, ms) ->
    pick_id cands (skipn (evict_count cap (length ms)) ms) = Some id ->
    exists d1 d3,
      sites (steps enc dec hash cap (FileDisk.Add mb info body cands) d) =
        sites (p_evict enc (evict_count cap (length ms)) (hash mb) nm ms d) ++
        sites (p_mkdir (hash mb) d1) ++ pts sk_AddMessage ++
        sites (p_write_index enc (hash mb) nm (skipn (evict_count cap (length ms)) ms ++ [new_meta id info body]) d3) /\
      cps sk_AddMessage =
        [C "mbox"; C "newMessage"; C "createDir"; P "file.add.create"; P "file.add.write"; P "file.add.flush";
         P "file.add.close"; C "writeIndex"].
  Proof.
    intros Hri Hp. unfold steps. cbn [op_mailbox]. rewrite Hri, Hp.
    rewrite !sites_pseq. do 2 eexists. split; reflexivity.
  Qed.

  (** MarkSeen and PurgeMessages go through writeIndex, RemoveMessage through removeMessage *)
  Lemma op_calls :
    cps sk_MarkSeen = [C "mbox"; C "readIndex"; C "writeIndex"] /\
    cps sk_RemoveMessage = [C "mbox"; C "removeMessage"] /\
    cps sk_PurgeMessages = [C "mbox"; C "readIndex"; C "purge"] /\ cps sk_purge = [C "writeIndex"].
  Proof. repeat split; reflexivity. Qed.
End Skel.

(** The model's step lists are assembled from the pinned skeletons. *)
Theorem model_steps_from_skeleton : forall (enc : FileDisk.index -> str) (h nm : str) (m : meta) (ms : list meta) (id : str) (p : path) (b : str) (d : disk),
  sites (p_file Raw p b d) = pts sk_AddMessage /\
  sites (p_write_index enc h nm (m :: ms) d) = sites (p_mkdir h d) ++ pts (then_of sk_writeIndex) /\
  sites (p_mkdir h d) = match lookup d (mbdir h) with None => pts (then_of sk_createDir) | Some _ => [] end /\
  (exists k, (k <= 2)%nat /\
     sites (p_write_index enc h nm [] d) =
     pts (else_of sk_writeIndex) ++ pts sk_removeDir ++ concat (repeat (pts sk_removeDirIfEmpty) k)) /\
  sites (p_remove enc h nm (m :: ms) id d) =
     sites (p_write_index enc h nm (remove_first id (m :: ms)) d) ++
     (match remove_first id (m :: ms) with [] => [] | _ => pts sk_removeMessage end).
Proof.
  intros. split; [apply file_sites|]. split; [apply index_nonempty_sites|]. split; [apply mkdir_sites|]. split.
  - destruct (index_empty_sites enc h nm d) as [k [Hk [H _]]]. eauto.
  - apply remove_sites.
Qed.

(** The model's path scheme is the source's: index file name, suffixes of the temporary index and of the message
    files, and the prefix lengths of the two directory levels — the same for by-name access (Store.mbox) and for the
    walk (Store.mboxFromHash). *)
From IV Require Import Gen.FilePaths.
Theorem paths_pinned : forall (h id : str),
  idx_name = src_index_name /\ tmp_name = (src_index_name ++ src_tmp_suffix)%list /\ raw_ext = src_raw_suffix /\
  mbdir h = [firstn src_level1_mbox h; firstn src_level2_mbox h; h] /\
  mbdir h = [firstn src_level1_walk h; firstn src_level2_walk h; h] /\
  idx h = (mbdir h ++ [src_index_name])%list /\ tmp h = (mbdir h ++ [(src_index_name ++ src_tmp_suffix)%list])%list /\
  raw h id = (mbdir h ++ [(id ++ src_raw_suffix)%list])%list.
Proof. intros. repeat split; reflexivity. Qed.

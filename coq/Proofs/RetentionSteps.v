(** C12: the small-step scanner, left alone and not cancelled, computes the big-step [scan]
    (so [scan_exact] speaks about the very machine the interleaving theorems are about). *)
From Coq Require Import List Arith Lia ZArith.
From IV Require Import Base.Bytes Model.StoreSpec Model.Retention Proofs.Retention.
Import ListNotations.
Local Open Scope nat_scope.

Section Steps.
Variable cfg : scfg.
Variable cutoff : Z.

Lemma run_app y a b : run cfg cutoff y (a ++ b) = run cfg cutoff (run cfg cutoff y a) b.
Proof. unfold run. apply fold_left_app. Qed.

Lemma run_cons y e r : run cfg cutoff y (e :: r) = run cfg cutoff (ev_step cfg cutoff y e) r.
Proof. reflexivity. Qed.

(** Inside a callback: one step per snapshot entry, one to look at the context. *)
Lemma box_run snap : forall y mb,
  s_phase y = PBox mb snap -> s_cancel y = false ->
  let y' := run cfg cutoff y (repeat (EStep false) (S (length snap))) in
  s_st y' = scan_snapshot cfg cutoff mb snap (s_st y) /\ s_phase y' = PIdle /\ s_todo y' = s_todo y /\ s_cancel y' = false.
Proof.
  induction snap as [|v r IH]; intros y mb P C.
  - cbn [length repeat]. rewrite run_cons. cbn [ev_step run fold_left]. unfold sc_step. rewrite P, C.
    unfold set_phase. cbn. auto.
  - cbn [length]. change (repeat (EStep false) (S (S (length r)))) with (EStep false :: repeat (EStep false) (S (length r))).
    rewrite run_cons. cbn [ev_step]. rewrite scan_snapshot_cons.
    set (y1 := sc_step cfg cutoff false y).
    assert (P1 : s_phase y1 = PBox mb r) by (unfold y1, sc_step; rewrite P; destruct (expired cutoff (snd v)); reflexivity).
    assert (C1 : s_cancel y1 = false) by (unfold y1, sc_step; rewrite P; destruct (expired cutoff (snd v)); exact C).
    assert (T1 : s_todo y1 = s_todo y) by (unfold y1, sc_step; rewrite P; destruct (expired cutoff (snd v)); reflexivity).
    assert (S1 : s_st y1 = if expired cutoff (snd v) then do_remove cfg (s_st y) mb (fst v) else s_st y)
      by (unfold y1, sc_step; rewrite P; destruct (expired cutoff (snd v)); reflexivity).
    destruct (IH y1 mb P1 C1) as [A [B [T D]]]. cbv zeta. rewrite <- S1, <- T1. auto.
Qed.

Lemma repeat_add {A} (x : A) a b : repeat x (a + b) = repeat x a ++ repeat x b.
Proof. induction a; cbn; [reflexivity|f_equal; assumption]. Qed.

(** The whole walk. *)
Lemma walk_run order : forall y,
  s_phase y = PIdle -> s_todo y = order -> s_cancel y = false ->
  exists n, s_st (run cfg cutoff y (repeat (EStep false) n)) = scan cfg cutoff order (s_st y) /\
            s_phase (run cfg cutoff y (repeat (EStep false) n)) = PDone false.
Proof.
  induction order as [|m r IH]; intros y P T C.
  - exists 1. cbn [repeat]. rewrite run_cons. cbn [ev_step run fold_left]. unfold sc_step. rewrite P, T. cbn. auto.
  - set (y1 := ev_step cfg cutoff y (EStep false)).
    assert (P1 : s_phase y1 = PBox m (snapshot (s_st y) m)) by (unfold y1; cbn [ev_step]; unfold sc_step; rewrite P, T; reflexivity).
    assert (C1 : s_cancel y1 = false) by (unfold y1; cbn [ev_step]; unfold sc_step; rewrite P, T; exact C).
    assert (S1 : s_st y1 = s_st y) by (unfold y1; cbn [ev_step]; unfold sc_step; rewrite P, T; reflexivity).
    assert (T1 : s_todo y1 = r) by (unfold y1; cbn [ev_step]; unfold sc_step; rewrite P, T; reflexivity).
    destruct (box_run (snapshot (s_st y) m) y1 m P1 C1) as [A [B [T2 D]]].
    set (k := S (length (snapshot (s_st y) m))) in *.
    set (y2 := run cfg cutoff y1 (repeat (EStep false) k)) in *.
    destruct (IH y2 B (eq_trans T2 T1) D) as [n [E F]].
    exists (1 + (k + n)). cbn [Nat.add repeat]. rewrite run_cons. fold y1. rewrite repeat_add, run_app. fold y2.
    split; [|exact F]. rewrite E, A, S1. symmetry. apply scan_cons.
Qed.

Lemma steps_compute_scan order st :
  exists n, s_st (run cfg cutoff (sys_init order st) (repeat (EStep false) n)) = scan cfg cutoff order st /\
            s_phase (run cfg cutoff (sys_init order st) (repeat (EStep false) n)) = PDone false.
Proof. apply (walk_run order (sys_init order st)); reflexivity. Qed.

End Steps.

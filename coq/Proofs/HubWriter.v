(** C15: the socket writer (Model/HubWriter.v): one text frame per event, in order; a writer that
    has ended has closed its listener; the ping period lies inside the pong deadline. *)
From Coq Require Import Lia.
From IV Require Import Base.Bytes Gen.HubWriter Model.Hub Model.HubWriter Proofs.HubBasics Proofs.HubClose.
Local Open Scope nat_scope.

(** The source's writer loops are the ones the model assumes: on an event exactly ONE write of
    exactly that event (no loop over a backlog), with a write deadline, ending the loop on error;
    one ping per tick; one close frame when done; Close deferred in writer and reader. *)
Theorem writer_arms_pinned :
  v1_writer_arms = model_writer_arms /\ v2_writer_arms = model_writer_arms /\
  v1_writer_defers_close = true /\ v2_writer_defers_close = true /\
  v1_reader_defers_close = true /\ v2_reader_defers_close = true.
Proof. repeat split; reflexivity. Qed.

(** Pings are sent often enough for the peer's pongs to keep the read deadline alive, and a write
    that the peer does not take fails after [write_wait] seconds — the bound of the slow-listener
    stall (K-C15-slow-listener). *)
Theorem ping_inside_pong_deadline :
  (v1_pong_wait_s * v1_ping_period_num / v1_ping_period_den < v1_pong_wait_s /\
   v2_pong_wait_s * v2_ping_period_num / v2_ping_period_den < v2_pong_wait_s /\
   0 < v1_write_wait_s /\ 0 < v2_write_wait_s /\ v1_write_wait_s = 10 /\ v2_write_wait_s = 10)%nat.
Proof. vm_compute. repeat split; lia. Qed.

(** * Steps other than the writer's take leave what has been taken alone *)

Lemma find_l_app_new l l0 s0 xs : find_l l (xs ++ [(l0, s0)]) =
  match find_l l xs with Some s => Some s | None => if Nat.eqb l0 l then Some s0 else None end.
Proof. rewrite find_l_app. destruct (find_l l xs); reflexivity. Qed.

Lemma step_lout c h a h' : step c h a = Some h' -> is_take a = false ->
  forall l s', find_l l (ls h') = Some s' ->
    (exists s, find_l l (ls h) = Some s /\ lout s' = lout s) \/ (find_l l (ls h) = None /\ lout s' = []).
Proof.
  intros E NT l s' F.
  assert (U : forall k x, (forall s0, find_l k (ls h) = Some s0 -> lout x = lout s0) ->
              find_l l (upd_l k x (ls h)) = Some s' ->
              (exists s, find_l l (ls h) = Some s /\ lout s' = lout s) \/ (find_l l (ls h) = None /\ lout s' = [])).
  { intros k x Hx Fu. destruct (Nat.eq_dec l k) as [->|N].
    - destruct (find_l k (ls h)) as [s0|] eqn:F0.
      + rewrite find_l_upd_same in Fu by congruence. inversion Fu; subst. left. exists s0. split; auto.
      + exfalso. assert (find_l k (upd_l k x (ls h)) <> None) by congruence. apply find_l_upd_none in H. congruence.
    - rewrite find_l_upd_other in Fu by auto. left. exists s'. auto. }
  assert (Same : ls h' = ls h -> (exists s, find_l l (ls h) = Some s /\ lout s' = lout s) \/ (find_l l (ls h) = None /\ lout s' = [])).
  { intros X. rewrite X in F. left. exists s'. auto. }
  destruct a; cbn [step is_take] in *; try discriminate.
  - destruct (is_add o); [discriminate|]. unfold enq in E. destruct (stopped h); [inversion E; subst; auto|].
    destruct (length (opq h) <? opcap c); inversion E; subst; auto.
  - destruct (find_l l0 (ls h)) eqn:F0; [discriminate|].
    assert (X : ls h' = ls h ++ [(l0, new_lst k f fail)]).
    { unfold enq in E. cbn [set_ls stopped opq] in E. destruct (stopped h); [inversion E; subst; reflexivity|].
      destruct (length (opq h) <? opcap c); inversion E; subst; reflexivity. }
    rewrite X, find_l_app_new in F. destruct (find_l l (ls h)) as [s|] eqn:F1.
    + inversion F; subst. left. exists s'. auto.
    + destruct (Nat.eqb l0 l); [|discriminate]. inversion F; subst. right. auto.
  - destruct (find_l l0 (ls h)) as [x|] eqn:F0; [|discriminate]. destruct (lclosed x); inversion E; subst; auto.
    cbn [set_ls ls] in F. eapply U; [|exact F]. intros s0 Fs. rewrite F0 in Fs. inversion Fs; subst. reflexivity.
  - destruct (find_l l0 (ls h)) as [x|] eqn:F0; [|discriminate]. destruct (lrm x); [|discriminate].
    assert (X : ls h' = upd_l l0 (l_rm_done x) (ls h)).
    { unfold enq in E. cbn [set_ls stopped opq] in E. destruct (stopped h); [inversion E; subst; reflexivity|].
      destruct (length (opq h) <? opcap c); inversion E; subst; reflexivity. }
    rewrite X in F. eapply U; [|exact F]. intros s0 Fs. rewrite F0 in Fs. inversion Fs; subst. reflexivity.
  - unfold hub_step in E. destruct (stopped h); [discriminate|]. destruct (work h) as [|d w].
    + destruct (opq h) as [|o q]; [discriminate|]. inversion E; subst. apply Same. destruct o; reflexivity.
    + destruct (find_l (d_to d) (ls h)) as [x|] eqn:F0.
      * destruct (deliver c choice x (d_ev d)) as [[x' err]|] eqn:D; [|discriminate]. inversion E; subst.
        cbn [ls] in F. eapply U; [|exact F]. intros s0 Fs. rewrite F0 in Fs. inversion Fs; subst.
        unfold deliver in D. destruct (wants (lk s0) (lf s0) (d_ev d)); cbn [negb] in D; [|inversion D; reflexivity].
        destruct (lk s0).
        -- destruct (lclosed s0); [destruct (choice || (cap_of c V1 <=? length (lq s0)))|destruct (length (lq s0) <? cap_of c V1)];
             inversion D; reflexivity.
        -- destruct (lclosed s0); [destruct (choice || (cap_of c V2 <=? length (lq s0)))|destruct (length (lq s0) <? cap_of c V2)];
             inversion D; reflexivity.
        -- destruct (lfail s0) as [[|n]|]; inversion D; reflexivity.
      * inversion E; subst. auto.
  - destruct (work h); [|discriminate]. inversion E; subst. auto.
Qed.

Lemma do_close_lout c h l0 : forall l s', find_l l (ls (do_close c h l0)) = Some s' ->
    exists s, find_l l (ls h) = Some s /\ lout s' = lout s.
Proof.
  intros l s' F. unfold do_close in F.
  destruct (step c h (AClose l0)) as [h1|] eqn:E1; [|exists s'; auto].
  assert (A : forall s1, find_l l (ls h1) = Some s1 -> exists s, find_l l (ls h) = Some s /\ lout s1 = lout s).
  { intros s1 F1. destruct (step_lout c h _ h1 E1 eq_refl l s1 F1) as [X|[X Y]]; auto.
    exfalso. cbn [step] in E1. destruct (find_l l0 (ls h)) as [x|] eqn:F0; [|discriminate].
    destruct (lclosed x); inversion E1; subst; [congruence|]. cbn [set_ls ls] in F1.
    assert (find_l l (upd_l l0 (l_close x) (ls h)) <> None) by congruence. apply find_l_upd_none in H. congruence. }
  destruct (step c h1 (ARm l0)) as [h2|] eqn:E2; [|apply A; exact F].
  destruct (step_lout c h1 _ h2 E2 eq_refl l s' F) as [(s1 & F1 & L1)|[X Y]].
  - destruct (A s1 F1) as (s & Fs & Ls). exists s. split; auto. congruence.
  - exfalso. cbn [step] in E2. destruct (find_l l0 (ls h1)) as [x|] eqn:F0; [|discriminate]. destruct (lrm x); [|discriminate].
    assert (Y2 : ls h2 = upd_l l0 (l_rm_done x) (ls h1)).
    { unfold enq in E2. cbn [set_ls stopped opq] in E2. destruct (stopped h1); [inversion E2; subst; reflexivity|].
      destruct (length (opq h1) <? opcap c); inversion E2; subst; reflexivity. }
    rewrite Y2 in F. assert (find_l l (upd_l l0 (l_rm_done x) (ls h1)) <> None) by congruence.
    apply find_l_upd_none in H. congruence.
Qed.

(** * One text frame per event, in order *)

Record framed (y : whub) : Prop := mkFramed {
  fr_texts : forall l s, find_l l (ls (wh y)) = Some s ->
    match find_w l (wws y) with
    | Some w => texts (w_frames w) ++ w_lost w = lout s /\ (w_lost w <> [] -> w_alive w = false)
    | None => lout s = []
    end;
  fr_exists : forall l w, find_w l (wws y) = Some w -> find_l l (ls (wh y)) <> None
}.

Lemma find_w_app l xs ys : find_w l (xs ++ ys) = match find_w l xs with Some w => Some w | None => find_w l ys end.
Proof. induction xs as [|[k w] t IH]; cbn [find_w app]; auto. destruct (Nat.eqb k l); auto. Qed.

Lemma find_w_upd l k w xs : find_w k xs <> None ->
  find_w l (upd_w k w xs) = if Nat.eqb k l then Some w else find_w l xs.
Proof.
  induction xs as [|[j x] t IH]; cbn [find_w upd_w]; [congruence|]. intros H.
  destruct (Nat.eqb j k) eqn:E.
  - apply Nat.eqb_eq in E. subst j. cbn [find_w]. destruct (Nat.eqb k l); reflexivity.
  - cbn [find_w]. destruct (Nat.eqb j l) eqn:E2.
    + apply Nat.eqb_eq in E2. subst j. rewrite Nat.eqb_sym, E. reflexivity.
    + apply IH. exact H.
Qed.

Lemma texts_app a b : texts (a ++ b) = texts a ++ texts b.
Proof. unfold texts. apply flat_map_app. Qed.

Lemma step_keeps_listeners c h a h' l : step c h a = Some h' -> find_l l (ls h) <> None -> find_l l (ls h') <> None.
Proof.
  intros E H. destruct a; cbn [step] in E.
  - destruct (is_add o); [discriminate|]. unfold enq in E. destruct (stopped h); [inversion E; subst; auto|].
    destruct (length (opq h) <? opcap c); inversion E; subst; auto.
  - destruct (find_l l0 (ls h)) eqn:F0; [discriminate|].
    assert (X : ls h' = ls h ++ [(l0, new_lst k f fail)]).
    { unfold enq in E. cbn [set_ls stopped opq] in E. destruct (stopped h); [inversion E; subst; reflexivity|].
      destruct (length (opq h) <? opcap c); inversion E; subst; reflexivity. }
    rewrite X, find_l_app. destruct (find_l l (ls h)); congruence.
  - destruct (find_l l0 (ls h)) as [x|]; [|discriminate]. destruct (lclosed x); inversion E; subst; auto.
    cbn [set_ls ls]. apply find_l_upd_none. auto.
  - destruct (find_l l0 (ls h)) as [x|]; [|discriminate]. destruct (lrm x); [|discriminate].
    assert (X : ls h' = upd_l l0 (l_rm_done x) (ls h)).
    { unfold enq in E. cbn [set_ls stopped opq] in E. destruct (stopped h); [inversion E; subst; reflexivity|].
      destruct (length (opq h) <? opcap c); inversion E; subst; reflexivity. }
    rewrite X. apply find_l_upd_none. auto.
  - destruct (find_l l0 (ls h)) as [x|]; [|discriminate]. destruct (l_take x); [|discriminate]. inversion E; subst.
    cbn [set_ls ls]. apply find_l_upd_none. auto.
  - unfold hub_step in E. destruct (stopped h); [discriminate|]. destruct (work h) as [|d w].
    + destruct (opq h) as [|o q]; [discriminate|]. inversion E; subst. destruct o; exact H.
    + destruct (find_l (d_to d) (ls h)) as [x|].
      * destruct (deliver c choice x (d_ev d)) as [[x' err]|]; [|discriminate]. inversion E; subst.
        cbn [ls]. apply find_l_upd_none. auto.
      * inversion E; subst. exact H.
  - destruct (work h); [|discriminate]. inversion E; subst. exact H.
Qed.

Lemma do_close_keeps_listeners c h l0 l : find_l l (ls h) <> None -> find_l l (ls (do_close c h l0)) <> None.
Proof.
  intros H. unfold do_close. destruct (step c h (AClose l0)) as [h1|] eqn:E1; auto.
  pose proof (step_keeps_listeners c h _ h1 l E1 H) as H1.
  destruct (step c h1 (ARm l0)) as [h2|] eqn:E2; auto. eapply step_keeps_listeners; eauto.
Qed.

Lemma take_lout c h l h' : step c h (ATake l) = Some h' ->
  exists e,
    (forall l0 s', find_l l0 (ls h') = Some s' ->
       exists s0, find_l l0 (ls h) = Some s0 /\ lout s' = if Nat.eqb l0 l then lout s0 ++ [e] else lout s0) /\
    last_taken h' l = Some e.
Proof.
  intros E. cbn [step] in E. destruct (find_l l (ls h)) as [s|] eqn:F; [|discriminate].
  unfold l_take in E. destruct (lq s) as [|e q] eqn:Q; [discriminate|]. inversion E; subst h'; clear E.
  exists e. split.
  - intros l0 s' F'. cbn [set_ls ls] in F'. destruct (Nat.eq_dec l0 l) as [->|N].
    + rewrite find_l_upd_same in F' by congruence. inversion F'; subst. exists s. rewrite Nat.eqb_refl. auto.
    + rewrite find_l_upd_other in F' by auto. exists s'. assert (Nat.eqb l0 l = false) as -> by (apply Nat.eqb_neq; auto). auto.
  - unfold last_taken. cbn [set_ls ls]. rewrite find_l_upd_same by congruence. cbn [lout]. rewrite map_app. cbn [map].
    generalize (map Some (lout s)). clear. induction l as [|x t IH]; cbn; auto.
    destruct (t ++ [Some e]) eqn:X; [destruct t; discriminate|]. exact IH.
Qed.

(** the hub part changes without touching what was taken (no new listener), the writer table changes at [l] only,
    keeping texts ++ lost *)
Lemma framed_transfer y h' l w w' :
  framed y -> find_w l (wws y) = Some w ->
  (forall l0 s', find_l l0 (ls h') = Some s' -> exists s, find_l l0 (ls (wh y)) = Some s /\ lout s' = lout s) ->
  (forall l0, find_l l0 (ls (wh y)) <> None -> find_l l0 (ls h') <> None) ->
  texts (w_frames w') ++ w_lost w' = texts (w_frames w) ++ w_lost w ->
  (w_lost w' <> [] -> w_alive w' = false) ->
  framed (mkWH h' (upd_w l w' (wws y))).
Proof.
  intros [A B] Fw HL HK HT HA. constructor; cbn [wh wws].
  - intros l0 s' F'. destruct (HL l0 s' F') as (s & Fs & Ls). specialize (A l0 s Fs).
    rewrite find_w_upd by congruence. destruct (Nat.eqb l l0) eqn:E.
    + apply Nat.eqb_eq in E. subst l0. rewrite Fw in A. destruct A as [A1 A2]. split; [congruence|exact HA].
    + rewrite Ls. exact A.
  - intros l0 w0 F0. rewrite find_w_upd in F0 by congruence. apply HK. destruct (Nat.eqb l l0) eqn:E.
    + apply Nat.eqb_eq in E. subst l0. eapply B; eauto.
    + eapply B; eauto.
Qed.

Lemma framed_hub_only y h' :
  framed y ->
  (forall l0 s', find_l l0 (ls h') = Some s' -> exists s, find_l l0 (ls (wh y)) = Some s /\ lout s' = lout s) ->
  (forall l0, find_l l0 (ls (wh y)) <> None -> find_l l0 (ls h') <> None) ->
  framed (mkWH h' (wws y)).
Proof.
  intros [A B] HL HK. constructor; cbn [wh wws].
  - intros l0 s' F'. destruct (HL l0 s' F') as (s & Fs & Ls). specialize (A l0 s Fs). rewrite Ls. exact A.
  - intros l0 w0 F0. apply HK. eapply B; eauto.
Qed.

Theorem one_frame_per_event_step c y a y' : framed y -> wstep c y a = Some y' -> framed y'.
Proof.
  intros FR E. pose proof FR as [A B]. destruct a; cbn [wstep] in E.
  - (* WEnv *)
    destruct (is_take a) eqn:NT; [discriminate|]. destruct (step c (wh y) a) as [h|] eqn:St; [|discriminate].
    inversion E; subst y'. constructor; cbn [wh wws].
    + intros l s F. destruct (step_lout c (wh y) a h St NT l s F) as [(s0 & F0 & L0)|[F0 L0]].
      * specialize (A l s0 F0). rewrite L0. exact A.
      * destruct (find_w l (wws y)) as [w|] eqn:Fw; [|exact L0]. exfalso. apply (B l w Fw). exact F0.
    + intros l w Fw. eapply step_keeps_listeners; eauto.
  - (* WStart *)
    destruct (find_l l (ls (wh y))) as [s0|] eqn:F0; [|discriminate]. destruct (find_w l (wws y)) eqn:Fw; [discriminate|].
    inversion E; subst y'. constructor; cbn [wh wws].
    + intros l1 s F. specialize (A l1 s F). rewrite find_w_app.
      destruct (find_w l1 (wws y)) eqn:F1; auto. cbn [find_w]. destruct (Nat.eqb l l1); auto. cbn. split; [symmetry; exact A|congruence].
    + intros l1 w F1. rewrite find_w_app in F1. destruct (find_w l1 (wws y)) eqn:F2; [eapply B; eauto|].
      cbn [find_w] in F1. destruct (Nat.eqb l l1) eqn:E1; [|discriminate]. apply Nat.eqb_eq in E1. subst. congruence.
  - (* WEvent *)
    destruct (find_w l (wws y)) as [w|] eqn:Fw; [|discriminate]. destruct (w_alive w) eqn:Al; [|discriminate].
    destruct (step c (wh y) (ATake l)) as [h|] eqn:St; [|discriminate].
    destruct (take_lout c _ _ _ St) as (e & TL & LT). rewrite LT in E. inversion E; subst y'; clear E.
    assert (NoLost : w_lost w = []).
    { pose proof (B l w Fw) as NE. destruct (find_l l (ls (wh y))) as [s0|] eqn:F0; [|congruence].
      specialize (A l s0 F0). rewrite Fw in A. destruct A as [_ A2]. destruct (w_lost w); auto. specialize (A2 ltac:(discriminate)). congruence. }
    constructor; cbn [wh wws].
    + intros l0 s' F'. destruct (TL l0 s' F') as (s0 & F0 & L0). specialize (A l0 s0 F0).
      rewrite find_w_upd by congruence. destruct (Nat.eqb l l0) eqn:E0.
      * apply Nat.eqb_eq in E0. subst l0. rewrite Nat.eqb_refl in L0. rewrite Fw in A. destruct A as [A1 A2].
        cbn [w_frames w_lost w_alive]. rewrite NoLost in *. rewrite texts_app, !app_nil_r in *. cbn [texts flat_map app].
        split; [congruence|congruence].
      * rewrite Nat.eqb_sym, E0 in L0. rewrite L0. exact A.
    + intros l0 w0 F0. rewrite find_w_upd in F0 by congruence.
      assert (find_l l0 (ls (wh y)) <> None).
      { destruct (Nat.eqb l l0) eqn:E0; [apply Nat.eqb_eq in E0; subst; eapply B; eauto|eapply B; eauto]. }
      eapply step_keeps_listeners; eauto.
  - (* WEventFail *)
    destruct (find_w l (wws y)) as [w|] eqn:Fw; [|discriminate]. destruct (w_alive w) eqn:Al; [|discriminate].
    destruct (step c (wh y) (ATake l)) as [h|] eqn:St; [|discriminate].
    destruct (take_lout c _ _ _ St) as (e & TL & LT). rewrite LT in E. inversion E; subst y'; clear E.
    constructor; cbn [wh wws].
    + intros l0 s' F'. destruct (do_close_lout c h l l0 s' F') as (s1 & F1 & L1).
      destruct (TL l0 s1 F1) as (s0 & F0 & L0). specialize (A l0 s0 F0).
      rewrite find_w_upd by congruence. destruct (Nat.eqb l l0) eqn:E0.
      * apply Nat.eqb_eq in E0. subst l0. rewrite Nat.eqb_refl in L0. rewrite Fw in A. destruct A as [A1 A2].
        cbn [w_frames w_lost w_alive]. split; [|reflexivity]. rewrite app_assoc, A1. congruence.
      * rewrite Nat.eqb_sym, E0 in L0. rewrite L1, L0. exact A.
    + intros l0 w0 F0. rewrite find_w_upd in F0 by congruence. apply do_close_keeps_listeners.
      assert (find_l l0 (ls (wh y)) <> None).
      { destruct (Nat.eqb l l0) eqn:E0; [apply Nat.eqb_eq in E0; subst; eapply B; eauto|eapply B; eauto]. }
      eapply step_keeps_listeners; eauto.
  - (* WTick *)
    destruct (find_w l (wws y)) as [w|] eqn:Fw; [|discriminate]. destruct (w_alive w) eqn:Al; [|discriminate].
    inversion E; subst y'.
    assert (LostDead : w_lost w <> [] -> false = true).
    { intros H. pose proof (B l w Fw) as NE. destruct (find_l l (ls (wh y))) as [s0|] eqn:F0; [|congruence].
      specialize (A l s0 F0). rewrite Fw in A. destruct A as [_ A2]. rewrite (A2 H) in Al. discriminate. }
    apply framed_transfer with (w := w); [exact FR|exact Fw| | | |].
    + intros l0 s' F'. exists s'. auto.
    + auto.
    + cbn [w_frames w_lost]. rewrite texts_app. cbn. rewrite app_nil_r. reflexivity.
    + cbn [w_lost w_alive]. intros H. exfalso. specialize (LostDead H). discriminate.
  - (* WTickFail *)
    destruct (find_w l (wws y)) as [w|] eqn:Fw; [|discriminate]. destruct (w_alive w) eqn:Al; [|discriminate].
    inversion E; subst y'.
    apply framed_transfer with (w := w); [exact FR|exact Fw| | | |].
    + intros l0 s' F'. eapply do_close_lout; eauto.
    + intros l0 H. apply do_close_keeps_listeners. exact H.
    + reflexivity.
    + reflexivity.
  - (* WDone *)
    destruct (find_w l (wws y)) as [w|] eqn:Fw; [|discriminate]. destruct (find_l l (ls (wh y))) as [s|] eqn:F; [|discriminate].
    destruct (w_alive w && lclosed s); [|discriminate]. inversion E; subst y'.
    apply framed_transfer with (w := w); [exact FR|exact Fw| | | |].
    + intros l0 s' F'. eapply do_close_lout; eauto.
    + intros l0 H. apply do_close_keeps_listeners. exact H.
    + cbn [w_frames w_lost]. rewrite texts_app. cbn. rewrite app_nil_r. reflexivity.
    + reflexivity.
  - (* WReaderGone *)
    destruct (find_l l (ls (wh y))) as [s|] eqn:F; [|discriminate]. inversion E; subst y'. apply framed_hub_only; auto.
    + intros l0 s' F'. eapply do_close_lout; eauto.
    + intros l0 H. apply do_close_keeps_listeners. exact H.
Qed.

(** For every schedule of hub, clients, writers and readers: what a monitor's writer has put on
    the wire as text frames, followed by the (at most one) event whose write failed, is exactly
    what it took from the queue — one frame per event, in the queue's order, nothing merged,
    nothing repeated. *)
Theorem one_frame_per_event :
  forall n c acts y l s w,
    wrunw c (whub_init n) acts = Some y -> find_l l (ls (wh y)) = Some s -> find_w l (wws y) = Some w ->
    texts (w_frames w) ++ w_lost w = lout s /\ (length (w_lost w) <= 1)%nat.
Proof.
  intros n c acts y l s w R F Fw.
  assert (G : forall acts y0 y1, framed y0 -> wrunw c y0 acts = Some y1 -> framed y1).
  { induction acts0 as [|a t IH]; intros y0 y1 FR R0; cbn [wrunw] in R0.
    - inversion R0; subst; auto.
    - destruct (wstep c y0 a) eqn:E; [|discriminate]. eapply IH; [|exact R0]. eapply one_frame_per_event_step; eauto. }
  assert (FR : framed y).
  { eapply G; [|exact R]. constructor; cbn; [intros l0 s0 H; discriminate|intros l0 w0 H; discriminate]. }
  destruct FR as [A _]. specialize (A l s F). rewrite Fw in A. destruct A as [A1 A2]. split; auto.
  (* at most one lost: a second loss needs a live writer *)
  clear A1 A2 F s.
  assert (L : forall acts y0 y1, (forall l0 w0, find_w l0 (wws y0) = Some w0 -> length (w_lost w0) <= 1 /\ (w_lost w0 <> [] -> w_alive w0 = false)) ->
              wrunw c y0 acts = Some y1 ->
              forall l0 w0, find_w l0 (wws y1) = Some w0 -> length (w_lost w0) <= 1 /\ (w_lost w0 <> [] -> w_alive w0 = false)).
  { induction acts0 as [|a t IH]; intros y0 y1 H0 R0; cbn [wrunw] in R0.
    - inversion R0; subst; auto.
    - destruct (wstep c y0 a) as [y2|] eqn:E; [|discriminate]. apply (IH y2 y1); auto. clear IH R0.
      intros l0 w0 F0. destruct a; cbn [wstep] in E.
      + destruct (is_take a); [discriminate|]. destruct (step c (wh y0) a); [|discriminate]. inversion E; subst. eapply H0; eauto.
      + destruct (find_l l1 (ls (wh y0))); [|discriminate]. destruct (find_w l1 (wws y0)) eqn:F1; [discriminate|]. inversion E; subst.
        cbn [wws] in F0. rewrite find_w_app in F0. destruct (find_w l0 (wws y0)) eqn:F2; [inversion F0; subst; eapply H0; eauto|].
        cbn [find_w] in F0. destruct (Nat.eqb l1 l0); [|discriminate]. inversion F0; subst. cbn. split; [lia|congruence].
      + destruct (find_w l1 (wws y0)) as [w1|] eqn:F1; [|discriminate]. destruct (w_alive w1) eqn:Al; [|discriminate].
        destruct (step c (wh y0) (ATake l1)) as [h|]; [|discriminate]. destruct (last_taken h l1); [|discriminate]. inversion E; subst.
        cbn [wws] in F0. rewrite find_w_upd in F0 by congruence. destruct (Nat.eqb l1 l0); [|eapply H0; eauto].
        inversion F0; subst. cbn. destruct (H0 l1 w1 F1) as [H1 H2]. split; auto.
        intros X. specialize (H2 X). congruence.
      + destruct (find_w l1 (wws y0)) as [w1|] eqn:F1; [|discriminate]. destruct (w_alive w1) eqn:Al; [|discriminate].
        destruct (step c (wh y0) (ATake l1)) as [h|]; [|discriminate]. destruct (last_taken h l1); [|discriminate]. inversion E; subst.
        cbn [wws] in F0. rewrite find_w_upd in F0 by congruence. destruct (Nat.eqb l1 l0); [|eapply H0; eauto].
        inversion F0; subst. cbn. destruct (H0 l1 w1 F1) as [H1 H2]. split; auto.
        destruct (w_lost w1) eqn:WL; [cbn; lia|]. specialize (H2 ltac:(discriminate)). congruence.
      + destruct (find_w l1 (wws y0)) as [w1|] eqn:F1; [|discriminate]. destruct (w_alive w1) eqn:Al; [|discriminate]. inversion E; subst.
        cbn [wws] in F0. rewrite find_w_upd in F0 by congruence. destruct (Nat.eqb l1 l0); [|eapply H0; eauto].
        inversion F0; subst. cbn. destruct (H0 l1 w1 F1) as [H1 H2]. split; auto. intros X. specialize (H2 X). congruence.
      + destruct (find_w l1 (wws y0)) as [w1|] eqn:F1; [|discriminate]. destruct (w_alive w1) eqn:Al; [|discriminate]. inversion E; subst.
        cbn [wws] in F0. rewrite find_w_upd in F0 by congruence. destruct (Nat.eqb l1 l0); [|eapply H0; eauto].
        inversion F0; subst. cbn. destruct (H0 l1 w1 F1) as [H1 H2]. split; auto.
      + destruct (find_w l1 (wws y0)) as [w1|] eqn:F1; [|discriminate]. destruct (find_l l1 (ls (wh y0))) as [s1|]; [|discriminate].
        destruct (w_alive w1 && lclosed s1); [|discriminate]. inversion E; subst.
        cbn [wws] in F0. rewrite find_w_upd in F0 by congruence. destruct (Nat.eqb l1 l0); [|eapply H0; eauto].
        inversion F0; subst. cbn. destruct (H0 l1 w1 F1) as [H1 H2]. split; auto.
      + destruct (find_l l1 (ls (wh y0))); [|discriminate]. inversion E; subst. eapply H0; eauto. }
  destruct (L acts (whub_init n) y) with (l0 := l) (w0 := w) as [X _]; auto.
  intros l0 w0 H. discriminate.
Qed.

(** * A writer that has ended has closed its listener *)

Definition closedL (l : nat) (h : hub) : Prop := exists s, find_l l (ls h) = Some s /\ lclosed s = true.

Lemma closedL_step c h a h' l : step c h a = Some h' -> closedL l h -> closedL l h'.
Proof. intros E (s & F & C). eapply closed_stays_step; eauto. Qed.

Lemma do_close_closes c h l : find_l l (ls h) <> None -> closedL l (do_close c h l).
Proof.
  intros H. unfold do_close. destruct (find_l l (ls h)) as [s|] eqn:F; [|congruence].
  destruct (close_first_step_always_enabled c h l s F) as (h1 & E1 & s1 & F1 & C1). rewrite E1.
  assert (K1 : closedL l h1) by (exists s1; auto).
  destruct (step c h1 (ARm l)) as [h2|] eqn:E2; auto. eapply closedL_step; eauto.
Qed.

Lemma do_close_keeps_closed c h l0 l : closedL l h -> closedL l (do_close c h l0).
Proof.
  intros K. unfold do_close. destruct (step c h (AClose l0)) as [h1|] eqn:E1; auto.
  pose proof (closedL_step c h _ h1 l E1 K) as K1.
  destruct (step c h1 (ARm l0)) as [h2|] eqn:E2; auto. eapply closedL_step; eauto.
Qed.

Definition ended_closed (y : whub) : Prop :=
  forall l w, find_w l (wws y) = Some w -> w_alive w = false -> closedL l (wh y).

Lemma ended_closed_step c y a y' : framed y -> ended_closed y -> wstep c y a = Some y' -> ended_closed y'.
Proof.
  intros [_ B] EC E l0 w0 F0 D0. destruct a; cbn [wstep] in E.
  - destruct (is_take a); [discriminate|]. destruct (step c (wh y) a) as [h|] eqn:St; [|discriminate]. inversion E; subst y'.
    cbn [wh wws] in *. eapply closedL_step; eauto.
  - destruct (find_l l (ls (wh y))); [|discriminate]. destruct (find_w l (wws y)) eqn:Fw; [discriminate|]. inversion E; subst y'.
    cbn [wh wws] in *. rewrite find_w_app in F0. destruct (find_w l0 (wws y)) eqn:F1; [inversion F0; subst; eapply EC; eauto|].
    cbn [find_w] in F0. destruct (Nat.eqb l l0); [|discriminate]. inversion F0; subst. discriminate.
  - destruct (find_w l (wws y)) as [w|] eqn:Fw; [|discriminate]. destruct (w_alive w); [|discriminate].
    destruct (step c (wh y) (ATake l)) as [h|] eqn:St; [|discriminate]. destruct (last_taken h l); [|discriminate]. inversion E; subst y'.
    cbn [wh wws] in *. rewrite find_w_upd in F0 by congruence. destruct (Nat.eqb l l0); [inversion F0; subst; discriminate|].
    eapply closedL_step; eauto.
  - destruct (find_w l (wws y)) as [w|] eqn:Fw; [|discriminate]. destruct (w_alive w); [|discriminate].
    destruct (step c (wh y) (ATake l)) as [h|] eqn:St; [|discriminate]. destruct (last_taken h l); [|discriminate]. inversion E; subst y'.
    cbn [wh wws] in *. rewrite find_w_upd in F0 by congruence. destruct (Nat.eqb l l0) eqn:E0.
    + apply Nat.eqb_eq in E0. subst l0. apply do_close_closes. eapply step_keeps_listeners; eauto.
    + apply do_close_keeps_closed. eapply closedL_step; eauto.
  - destruct (find_w l (wws y)) as [w|] eqn:Fw; [|discriminate]. destruct (w_alive w); [|discriminate]. inversion E; subst y'.
    cbn [wh wws] in *. rewrite find_w_upd in F0 by congruence. destruct (Nat.eqb l l0); [inversion F0; subst; discriminate|]. eapply EC; eauto.
  - destruct (find_w l (wws y)) as [w|] eqn:Fw; [|discriminate]. destruct (w_alive w); [|discriminate]. inversion E; subst y'.
    cbn [wh wws] in *. rewrite find_w_upd in F0 by congruence. destruct (Nat.eqb l l0) eqn:E0.
    + apply Nat.eqb_eq in E0. subst l0. apply do_close_closes. eapply B; eauto.
    + apply do_close_keeps_closed. eapply EC; eauto.
  - destruct (find_w l (wws y)) as [w|] eqn:Fw; [|discriminate]. destruct (find_l l (ls (wh y))) as [s|] eqn:F; [|discriminate].
    destruct (w_alive w && lclosed s); [|discriminate]. inversion E; subst y'.
    cbn [wh wws] in *. rewrite find_w_upd in F0 by congruence. destruct (Nat.eqb l l0) eqn:E0.
    + apply Nat.eqb_eq in E0. subst l0. apply do_close_closes. congruence.
    + apply do_close_keeps_closed. eapply EC; eauto.
  - destruct (find_l l (ls (wh y))); [|discriminate]. inversion E; subst y'. cbn [wh wws] in *.
    apply do_close_keeps_closed. eapply EC; eauto.
Qed.

(** However a writer ends — a failed write (peer gone, write deadline exceeded) or the close frame
    after the listener was closed — its listener is closed from then on; by [close_unblocks_hub] the
    hub never again waits for it: a slow monitor stalls the hub for at most the write deadline. *)
Theorem ended_writer_has_closed_its_listener :
  forall n c acts y l w,
    wrunw c (whub_init n) acts = Some y -> find_w l (wws y) = Some w -> w_alive w = false ->
    exists s, find_l l (ls (wh y)) = Some s /\ lclosed s = true.
Proof.
  intros n c acts y l w R F D.
  assert (G : forall acts y0 y1, framed y0 -> ended_closed y0 -> wrunw c y0 acts = Some y1 -> framed y1 /\ ended_closed y1).
  { induction acts0 as [|a t IH]; intros y0 y1 FR EC R0; cbn [wrunw] in R0.
    - inversion R0; subst; auto.
    - destruct (wstep c y0 a) eqn:E; [|discriminate]. eapply IH; [| |exact R0].
      + eapply one_frame_per_event_step; eauto.
      + eapply ended_closed_step; eauto. }
  destruct (G acts (whub_init n) y) as [_ EC]; auto.
  - constructor; cbn; [intros l0 s0 H; discriminate|intros l0 w0 H; discriminate].
  - intros l0 w0 H. discriminate.
  - exact (EC l w F D).
Qed.

(** Non-vacuity: a v2 monitor, its writer started, two events framed, a ping, the third write fails. *)
Example writer_demo :
  exists y w s,
    wrunw pinned_cfg (whub_init 0)
      [WEnv (ANew 1 V2 [] None); WEnv (AHub true); WStart 1;
       WEnv (AEnq (ODispatch ([97%N], [49%N]))); WEnv (AHub true); WEnv (AHub true); WEvent 1;
       WEnv (AEnq (ODelete ([97%N], [49%N]))); WEnv (AHub true); WEnv (AHub true); WTick 1; WEvent 1;
       WEnv (AEnq (ODispatch ([97%N], [50%N]))); WEnv (AHub true); WEnv (AHub true); WEventFail 1] = Some y /\
    find_w 1 (wws y) = Some w /\ find_l 1 (ls (wh y)) = Some s /\
    w_frames w = [FText (Stored ([97%N], [49%N])); FPing; FText (Deleted ([97%N], [49%N]))] /\
    w_lost w = [Stored ([97%N], [50%N])] /\ w_alive w = false /\ lclosed s = true.
Proof. eexists. eexists. eexists. split; [vm_compute; reflexivity|]. repeat split; vm_compute; reflexivity. Qed.

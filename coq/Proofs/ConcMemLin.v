(** C09 — memory store without size limit: linearizability by forward simulation.
    The sequential specification [seq_exec] run over the commit log (the commit steps in the order
    they happen) yields exactly the logged results, and its store is the abstraction of the
    concurrent state: every mailbox as it is, or — while a delivery is parked inside the critical
    section, after its insert and before the cap loop — as it will be once the cap loop has run
    (nobody can look at the mailbox before that: the lock is held). *)
From IV Require Import Model.Conc Model.ConcMem Proofs.ConcBase Proofs.ConcMemInv Proofs.ConcMemCrash Proofs.ConcStmts.
From Coq Require Import Lia ZifyN ZifyNat ZifyBool.

Definition abs_box (cap : N) (x : mbx) : box :=
  match x_lock x with Some _ => fst (box_cap cap (x_box x)) | None => x_box x end.

Lemma seq_run_snoc touch cap s l o :
  seq_run touch cap s (l ++ [o]) =
  (fst (seq_exec touch cap (fst (seq_run touch cap s l)) o),
   snd (seq_run touch cap s l) ++ [snd (seq_exec touch cap (fst (seq_run touch cap s l)) o)]).
Proof.
  revert s; induction l as [|a l IH]; intros s; cbn [app seq_run].
  - cbn [fst snd app]. destruct (seq_exec touch cap s o); reflexivity.
  - destruct (seq_exec touch cap s a) as [s1 r]. rewrite IH.
    destruct (seq_run touch cap s1 l) as [s2 rs]. cbn [fst snd app].
    destruct (seq_exec touch cap s2 o); reflexivity.
Qed.

Lemma sget_aset_same mb b s : sget mb (aset mb b s) = b.
Proof. unfold sget. now rewrite aget_aset_same. Qed.
Lemma sget_aset_other mb mb' b s : mb' <> mb -> sget mb' (aset mb b s) = sget mb' s.
Proof. intros H. unfold sget. now rewrite aget_aset_other. Qed.
Lemma sget_rd mb mb' s : sget mb' (aset mb (sget mb s) s) = sget mb' s.
Proof. destruct (N.eq_dec mb' mb) as [->|H]; [apply sget_aset_same | now apply sget_aset_other]. Qed.

(** L2: a delivery parked at mem.add.visible holds its mailbox's lock. *)
Definition invL2 (s : msys) : Prop :=
  forall t mb nm, nth_error (s_thr s) t = Some (PAddVisible mb nm) -> x_lock (getx mb s) = Some t.

Definition sim (s : msys) : Prop :=
  let sp := seq_run true (s_cap s) [] (map lop (s_log s)) in
  snd sp = map lres (s_log s) /\ forall mb, sget mb (fst sp) = abs_box (s_cap s) (getx mb s).

Lemma cap_setpc t p s : s_cap (setpc t p s) = s_cap s. Proof. reflexivity. Qed.
Lemma cap_addlog e s : s_cap (addlog e s) = s_cap s. Proof. reflexivity. Qed.
Lemma cap_with_enf e s : s_cap (with_enf s e) = s_cap s. Proof. reflexivity. Qed.
Lemma cap_take_done t s : s_cap (take_done t s) = s_cap s. Proof. reflexivity. Qed.
Lemma log_setpc t p s : s_log (setpc t p s) = s_log s. Proof. reflexivity. Qed.
Lemma log_setx mb x s : s_log (setx mb x s) = s_log s. Proof. reflexivity. Qed.
Lemma log_addlog e s : s_log (addlog e s) = s_log s ++ [e]. Proof. reflexivity. Qed.
Lemma log_with_enf e s : s_log (with_enf s e) = s_log s. Proof. reflexivity. Qed.
Lemma log_take_done t s : s_log (take_done t s) = s_log s. Proof. reflexivity. Qed.
#[export] Hint Rewrite cap_setpc cap_addlog cap_with_enf cap_take_done
  log_setpc log_setx log_addlog log_with_enf log_take_done : sys.

Lemma cap_step s w c s' : step s w c = SOk s' -> s_cap s' = s_cap s.
Proof.
  intros H. destruct w as [t|]; cbn [step] in H.
  - unfold step_thr in H.
    destruct (nth_error (s_thr s) t) as [p|] eqn:Ep; [|discriminate].
    destruct p; try discriminate.
    all: split_step H.
    all: inv_ok H; autorewrite with sys; reflexivity.
  - unfold step_enf in H. destruct (s_max s) eqn:E; [|discriminate].
    destruct (e_pc (s_enf s)); try discriminate;
      repeat match type of H with
       | context [if ?b then _ else _] => destruct b eqn:?
       | context [match e_all ?e with _ => _ end] => destruct (e_all e) eqn:?
       | context [match ent_take ?g ?l with _ => _ end] => destruct (ent_take g l) as [[? ?]|] eqn:?
       | context [match box_remove ?a ?b with _ => _ end] => destruct (box_remove a b) as [? [?|]] eqn:?
       end; try discriminate; inv_ok H; autorewrite with sys; reflexivity.
Qed.

Lemma invL2_thr s t c s' : invL2 s -> step_thr s t c = SOk s' -> invL2 s'.
Proof.
  intros HL H. unfold step_thr in H.
  destruct (nth_error (s_thr s) t) as [p|] eqn:Ep; [|discriminate].
  pose proof (nth_error_lt _ _ _ Ep) as Hlt.
  destruct p; try discriminate.
  all: split_step H.
  all: inv_ok H.
  all: intros t0 mb0 nm0 Hn; autorewrite with sys in *.
  all: apply nth_set_cases in Hn; destruct Hn as [(-> & Hp & _)|(Hne & Hn)].
  all: try discriminate.
  all: try (destruct l; discriminate).
  all: try (unfold purge_next in Hp; match type of Hp with context [pick ?c ?l] => destruct (pick c l) as [[? ?]|] end; discriminate).
  all: try (unfold next_add in Hp; match type of Hp with context [match ?l with _ => _ end] => destruct l end; discriminate).
  all: try (inv_ok Hp; rewrite getx_setx_same; reflexivity).
  all: try (pose proof (HL _ _ _ Ep) as Hself).
  all: try (specialize (HL _ _ _ Hn)).
  all: try match goal with
       | |- context [getx ?m0 (setx ?mb _ _)] =>
           destruct (N.eq_dec m0 mb) as [->|?]; [|rewrite getx_setx_other by assumption; assumption]
       end.
  all: try assumption.
  all: try congruence.
Qed.

Lemma abs_unlocked cap x : x_lock x = None -> abs_box cap x = x_box x.
Proof. unfold abs_box. now intros ->. Qed.

Lemma sim_thr s t c s' : s_max s = None -> invL2 s -> sim s -> step_thr s t c = SOk s' -> sim s'.
Proof.
  intros Hmax HL [S1 S2] H. unfold step_thr in H.
  destruct (nth_error (s_thr s) t) as [p|] eqn:Ep; [|discriminate].
  destruct p; try discriminate.
  all: split_step H.
  all: try congruence.
  all: inv_ok H.
  all: unfold sim; autorewrite with sys.
  all: rewrite ?map_app; cbn [map lop lres fst snd]; rewrite ?seq_run_snoc; cbn [fst snd].
  all: rewrite ?S1.
  all: try (split; [reflexivity | exact S2]).
  all: try (split; [reflexivity | intros mb0; autorewrite with sys; apply S2]).
  all: set (S := fst (seq_run true (s_cap s) [] (map lop (s_log s)))) in *.
  all: try (apply abs_unlocked with (cap := s_cap s) in Elk).
  all: unfold seq_exec.
  all: try (rewrite (S2 mb), ?Elk).
  (* the delivery leaving its critical section: the specification already ran the cap loop *)
  2:{ split; [reflexivity|]. intros mb0. autorewrite with sys.
      destruct (N.eq_dec mb0 mb) as [->|Hne]; [|rewrite getx_setx_other by assumption; apply S2].
      rewrite getx_setx_same, S2. unfold abs_box at 1. rewrite (HL _ _ _ Ep). cbn [abs_box x_lock x_box].
      match goal with Hq : box_cap _ _ = _ |- _ => now rewrite Hq end. }
  all: try (unfold box_seen in *; destruct (find_msg id (b_msgs (x_box (getx mb s)))) eqn:Ef).
  all: repeat match goal with Hq : _ = (_, _) |- _ => first [rewrite Hq | inv_ok Hq] end.
  all: cbn [fst snd].
  all: try match goal with |- context [box_cap ?c ?b] => destruct (box_cap c b) as [b2 ev] eqn:Ecap end.
  all: cbn [fst snd].
  all: (split; [reflexivity|]).
  all: intros mb0; autorewrite with sys.
  all: destruct (N.eq_dec mb0 mb) as [->|Hne];
       [ rewrite ?getx_setx_same, sget_aset_same
       | rewrite ?getx_setx_other by assumption; rewrite sget_aset_other by assumption; apply S2 ].
  all: unfold abs_box; cbn [x_lock x_box]; rewrite ?Ecap; try reflexivity.
  all: try (fold (abs_box (s_cap s) (getx mb s)); symmetry; exact Elk).
  all: try (unfold box_purge in *; congruence).
Qed.

Lemma step_enf_nolimit s : s_max s = None -> step_enf s = SNoop.
Proof. intros H. unfold step_enf. now rewrite H. Qed.

Lemma init_sim cap ops : sim (init_sys cap None [] enf0 ops).
Proof. split; [reflexivity|]. intros mb. reflexivity. Qed.

Lemma init_invL2 cap max ops : invL2 (init_sys cap max [] enf0 ops).
Proof. intros t mb nm H. destruct (init_thr_nth _ _ _ _ _ H) as (o & Ho & _). discriminate. Qed.

Lemma nolimit_reach cap ops s :
  reach (init_sys cap None [] enf0 ops) s -> s_max s = None /\ s_cap s = cap /\ invL2 s /\ sim s.
Proof.
  revert s. apply reach_ind_inv.
  - split; [reflexivity | split; [reflexivity | split; [apply init_invL2 | apply init_sim]]].
  - intros s s' w c (Hm & Hc & HL & HS) Hs.
    destruct w as [t|]; cbn [step] in Hs; [|rewrite step_enf_nolimit in Hs by exact Hm; discriminate].
    split; [|split; [|split]].
    + rewrite (max_step s (T t) c s' Hs). exact Hm.
    + rewrite (cap_step s (T t) c s' Hs). exact Hc.
    + eapply invL2_thr; eauto.
    + eapply sim_thr; eauto.
Qed.

Theorem mem_linearizable_run cap ops sched :
  match run (init_sys cap None [] enf0 ops) sched with
  | Fin s | BlockedAt _ s | CrashedAt _ s =>
      let sp := seq_run true cap [] (map lop (s_log s)) in
      snd sp = map lres (s_log s) /\
      (forall mb, x_lock (getx mb s) = None -> sget mb (fst sp) = x_box (getx mb s))
  end.
Proof.
  pose proof (run_from_reach (init_sys cap None [] enf0 ops) sched 0 _ (reach_refl _)) as H. unfold run.
  assert (G : forall s, reach (init_sys cap None [] enf0 ops) s ->
     let sp := seq_run true cap [] (map lop (s_log s)) in
      snd sp = map lres (s_log s) /\
      (forall mb, x_lock (getx mb s) = None -> sget mb (fst sp) = x_box (getx mb s))).
  { intros s R. destruct (nolimit_reach _ _ _ R) as (_ & Hc & _ & [S1 S2]). rewrite Hc in *.
    split; [exact S1|]. intros mb Hl. rewrite S2. now apply abs_unlocked. }
  destruct (run_from 0 _ sched); [apply G; exact H | apply G; exact H | apply G; apply H].
Qed.

(** Real-time order: a step appends at most one commit, and it is the stepping party's own. *)
Lemma commit_is_own_step s w c s' : step s w c = SOk s' ->
  s_log s' = s_log s \/ exists o r, s_log s' = s_log s ++ [(w, o, r)].
Proof.
  intros H. destruct w as [t|]; cbn [step] in H.
  - unfold step_thr in H.
    destruct (nth_error (s_thr s) t) as [p|] eqn:Ep; [|discriminate].
    destruct p; try discriminate.
    all: split_step H.
    all: inv_ok H; autorewrite with sys; eauto.
  - unfold step_enf in H. destruct (s_max s) eqn:E; [|discriminate].
    destruct (e_pc (s_enf s)); try discriminate;
      repeat match type of H with
       | context [if ?b then _ else _] => destruct b eqn:?
       | context [match e_all ?e with _ => _ end] => destruct (e_all e) eqn:?
       | context [match ent_take ?g ?l with _ => _ end] => destruct (ent_take g l) as [[? ?]|] eqn:?
       | context [match box_remove ?a ?b with _ => _ end] => destruct (box_remove a b) as [? [?|]] eqn:?
       end; try discriminate; inv_ok H; autorewrite with sys; eauto.
Qed.

(** What a thread has committed so far, read off its program counter. *)
Definition committed (p : pc) : option (op * res) :=
  match p with
  | PAddVisible mb nm | PAddEvict mb nm _ _ _ | PAddRegister mb nm _ =>
      Some (OAdd mb (m_tag nm) (m_size nm), RId (m_id nm))
  | PRemoveEnf m mb _ => Some (ORemove mb (m_id m), ROk)
  | PPurgeSwapped mb _ | PPurgeEnf mb _ _ _ => Some (OPurge mb, ROk)
  | _ => None
  end.
Definition pending_op (p : pc) : option op :=
  match p with
  | PStart o => Some o
  | PAddLock mb g z => Some (OAdd mb g z)
  | PGetLock mb id => Some (OGet mb id)
  | PLatestLock mb => Some (OLatest mb)
  | PListLock mb => Some (OList mb)
  | PSeenLock mb id => Some (OSeen mb id)
  | PRemoveLock mb id => Some (ORemove mb id)
  | PPurgeLock mb => Some (OPurge mb)
  | PVisitLock _ _ _ => Some OVisit
  | _ => None
  end.

(** R: thread t still has to run ops[t], or has committed ops[t] with the result it will return,
    or has returned the result logged for ops[t] (walks return the concatenation of their
    per-mailbox listings and are not single log entries). *)
Definition rfact (ops : list op) (log : list logent) (t : tid) (p : pc) : Prop :=
  match p with
  | PDone r => exists o, nth_error ops t = Some o /\ (o = OVisit \/ In (T t, o, r) log)
  | _ => match committed p with
         | Some (o, r) => nth_error ops t = Some o /\ In (T t, o, r) log
         | None => exists o, pending_op p = Some o /\ nth_error ops t = Some o
         end
  end.
Definition invR (ops : list op) (s : msys) : Prop :=
  forall t p, nth_error (s_thr s) t = Some p -> rfact ops (s_log s) t p.

Lemma rfact_mono ops log e t p : rfact ops log t p -> rfact ops (log ++ [e]) t p.
Proof.
  unfold rfact. destruct p; cbn [committed pending_op]; auto.
  all: try (intros [? ?]; split; [assumption | apply in_or_app; left; assumption]).
  intros (o & Ho & [Hv|Hi]); exists o; split; auto. right. apply in_or_app; left; assumption.
Qed.

Lemma box_remove_id id b b' m : box_remove id b = (b', Some m) -> m_id m = id.
Proof.
  unfold box_remove. destruct (find_msg id (b_msgs b)) eqn:E; [|discriminate].
  intros H; inversion H; subst. now destruct (find_msg_in _ _ _ E).
Qed.

Lemma invR_thr ops s t c s' : s_max s = None -> invR ops s -> step_thr s t c = SOk s' -> invR ops s'.
Proof.
  intros Hmax HR H. unfold step_thr in H.
  destruct (nth_error (s_thr s) t) as [p|] eqn:Ep; [|discriminate].
  pose proof (HR _ _ Ep) as Hself.
  destruct p; try discriminate.
  all: split_step H.
  all: try congruence.
  all: inv_ok H.
  all: intros t0 p0 Hn; autorewrite with sys in *.
  all: apply nth_set_cases in Hn; destruct Hn as [(-> & -> & _)|(Hne & Hn)].
  all: try (first [apply rfact_mono; apply HR; exact Hn | apply HR; exact Hn]).
  (* the moving thread *)
  all: unfold rfact in Hself |- *; cbn [committed pending_op] in Hself.
  all: repeat match goal with
       | Hx : exists _, _ |- _ => destruct Hx as (? & ? & ?)
       | Hx : _ /\ _ |- _ => destruct Hx
       | Hx : Some _ = Some _ |- _ => inv_ok Hx
       end.
  all: try match goal with Hq : box_remove _ _ = (_, Some _) |- _ => apply box_remove_id in Hq; subst end.
  all: try (unfold next_add; match goal with |- context [match ?l with [] => _ | _ => _ end] => destruct l end).
  all: try (unfold purge_next; match goal with |- context [pick ?c ?l] => destruct (pick c l) as [[? ?]|] end).
  all: cbn [committed pending_op m_tag m_size m_id].
  all: try (eexists; split; [eassumption|]).
  all: try (split; [assumption|]).
  all: try (left; reflexivity).
  all: try (right).
  all: try (apply in_or_app; right; left; reflexivity).
  all: try (apply in_or_app; left; assumption).
  all: try assumption.
  all: eauto.
Qed.

Lemma init_invR cap ops : invR ops (init_sys cap None [] enf0 ops).
Proof.
  intros t p H. destruct (init_thr_nth _ _ _ _ _ H) as (o & -> & Ho).
  unfold rfact; cbn [committed pending_op]. eauto.
Qed.

Lemma nolimit_reach_R cap ops s : reach (init_sys cap None [] enf0 ops) s -> s_max s = None /\ invR ops s.
Proof.
  revert s. apply reach_ind_inv.
  - split; [reflexivity | apply init_invR].
  - intros s s' w c (Hm & HR) Hs.
    destruct w as [t|]; cbn [step] in Hs; [|rewrite step_enf_nolimit in Hs by exact Hm; discriminate].
    split; [rewrite (max_step s (T t) c s' Hs); exact Hm | eapply invR_thr; eauto].
Qed.

Theorem mem_linearizable_holds : mem_linearizable_stmt.
Proof.
  intros cap ops sched s Hr.
  pose proof (mem_linearizable_run cap ops sched) as H. rewrite Hr in H. destruct H as [H1 H2].
  split; [exact H1 | split; [exact H2|]].
  intros t o r Ho Hv Hn.
  pose proof (run_from_reach (init_sys cap None [] enf0 ops) sched 0 _ (reach_refl _)) as R.
  unfold run in Hr. rewrite Hr in R.
  destruct (nolimit_reach_R _ _ _ R) as [_ HR]. specialize (HR _ _ Hn). unfold rfact in HR.
  destruct HR as (o' & Ho' & [->|Hi]); rewrite Ho in Ho'; inversion Ho'; subst; [contradiction | exact Hi].
Qed.

(** C01 / C02 / C13 / C14 composed — the whole life of a message in one statement: from the bytes of an SMTP
    connection to its deletion.

    For any bytes w on one SMTP connection and any delivery d of the dialogue over them (store without a cap):
      1. d is in the mailbox it names: some entry e at some position i carries its tag; REST /source answers
         exactly that entry; the POP3 view holds src d at that position   ([every_delivery_is_readable]);
      2. REST DELETE of that entry answers 200 and leaves the store st' = st without exactly e, invariant kept;
      3. on st' the store, REST /source, web-UI /source and a second DELETE answer not-there; the POP3 view of the
         mailbox is the old one without that message, in the old order;
      4. every OTHER live entry of st (of the same dialogue or not) is still live in st' - and since the
         invariant holds on st', [read_interfaces_agree_on_source] applies to it there: it is still served, byte
         for byte, by every interface. *)
From Coq Require Import List NArith ZArith Lia.
From IV Require Import Base.Bytes Base.BytesFacts Model.Policy Model.Smtp Model.Dot Model.SmtpWire Model.StoreSpec
  Proofs.StoreSpecFacts Proofs.StoreSpecRefine Proofs.DeliverStoreCap.
From IV Require Model.Rest Model.Pop3Wire Model.Pop3 Model.Pop3Store Proofs.InterfacesAgree.
From IV Require Import Proofs.EndToEnd Proofs.InterfacesRemoval.
Import ListNotations.
Local Open Scope nat_scope.

Section Life.
Variable tag_of : delivery -> N.
Variable date : Z.
Variable content : N -> str.
Variable src : delivery -> str.
Variable mfa : str -> option str.
Variable srcok : str -> nat -> bool.

Theorem delivered_then_deleted : forall c o w d name num body,
  let tr := snd (fst (run_bytes c o w)) in
  let st := store_of tag_of date 0 (deliveries_of tr) in
  (forall d', In d' (deliveries_of tr) -> content (tag_of d') = src d') ->
  In d (deliveries_of tr) -> mfa name = Some (d_mailbox d) ->
  (forall k, srcok (d_mailbox d) k = true) ->
  exists i e,
    (* 1. readable *)
    nth_error (box (d_mailbox d) (live st)) i = Some e /\ m_tag (e_msg e) = tag_of d /\
    Rest.run_handler mfa (cfgc 0) srcok st Rest.HSrc name (Rest.id_of_k (e_k e)) num body = (st, (Rest.S200, Rest.PSrc (e_k e, e_msg e))) /\
    nth_error (Pop3.mmsgs (Pop3.get_box (Pop3Store.abs content st) (d_mailbox d))) i =
      Some {| Pop3.sid := Pop3Store.id_of_k (e_k e); Pop3.ssrc := src d |} /\
    (* 2. deleted *)
    let st' := {| live := remove_ent (d_mailbox d) (e_k e) (live st); counts := counts st |} in
    Rest.run_handler mfa (cfgc 0) srcok st Rest.HDel name (Rest.id_of_k (e_k e)) num body = (st', (Rest.S200, Rest.POk)) /\
    SInv st' /\
    (* 3. gone everywhere *)
    exec_spec (cfgc 0) st' (Get (d_mailbox d) (Kth (e_k e))) = (st', OGet NotExist, []) /\
    Rest.run_handler mfa (cfgc 0) srcok st' Rest.HSrc name (Rest.id_of_k (e_k e)) num body = (st', (Rest.S404, Rest.PNone)) /\
    Rest.run_handler mfa (cfgc 0) srcok st' Rest.USrc name (Rest.id_of_k (e_k e)) num body = (st', (Rest.S404, Rest.PNone)) /\
    Pop3.mmsgs (Pop3.get_box (Pop3Store.abs content st') (d_mailbox d)) =
      map (Pop3Store.smsg_of content) (filter (fun x => negb (Nat.eqb (e_k x) (e_k e))) (box (d_mailbox d) (live st))) /\
    (* 4. everything else stays *)
    (forall x, In x (live st) -> x <> e -> In x (live st')) /\
    (forall mb', mb' <> d_mailbox d -> box mb' (live st') = box mb' (live st)).
Proof.
  intros c o w d name num body tr st Hsrc Hin Hn Hok.
  destruct (every_delivery_is_readable tag_of date content src mfa srcok c o w d name num body Hsrc Hin Hn Hok)
    as (i & e & H1 & H2 & H3 & H4).
  fold tr in H1, H3, H4. fold st in H1, H3, H4.
  exists i, e. split; [exact H1|]. split; [exact H2|]. split; [exact H3|]. split; [exact H4|].
  pose proof (store_of_inv tag_of date 0 (deliveries_of tr)) as HI. fold st in HI.
  assert (He : In e (box (d_mailbox d) (live st))) by (eapply nth_error_In; exact H1).
  destruct (removed_message_is_gone_from_every_interface mfa (cfgc 0) srcok content st name (d_mailbox d) e num body HI Hn He)
    as (R1 & _ & R3 & R4 & R5 & R6 & _ & _ & R9 & _ & R11 & _ & R13 & _).
  cbn zeta. split; [exact R1|]. split; [exact R3|]. split; [exact R4|]. split; [exact R5|]. split; [exact R6|].
  split; [exact R9|]. split; [exact R11|exact R13].
Qed.

End Life.

(** The same life ended through POP3: the store the SMTP dialogue built satisfies the invariant the POP3 commit
    theorem asks for, so for ANY POP3 session over that store that is in TRANSACTION state and has marked the
    message (snapshot position j, retain flag false), its QUIT leaves a store on which REST and the web UI answer 404
    for it - and on which nothing the session did not mark has gone. *)
From IV Require Proofs.Pop3 Proofs.Pop3Store Proofs.InterfacesRemovalPop3.

Section LifePop3.
Variable tag_of : delivery -> N.
Variable date : Z.
Variable content : N -> str.
Variable src : delivery -> str.
Variable mfa : str -> option str.
Variable srcok : str -> nat -> bool.

Lemma store_of_cinv ds : Proofs.Pop3Store.CInv (store_of tag_of date 0 ds).
Proof. unfold store_of. apply Proofs.Pop3Store.final_spec_CInv, Proofs.Pop3Store.CInv_init. Qed.

Theorem delivered_then_popped : forall c o w d name num body fl pw args j m,
  let tr := snd (fst (run_bytes c o w)) in
  let st := store_of tag_of date 0 (deliveries_of tr) in
  (forall d', In d' (deliveries_of tr) -> content (tag_of d') = src d') ->
  In d (deliveries_of tr) -> mfa name = Some (d_mailbox d) ->
  (forall k, srcok (d_mailbox d) k = true) ->
  exists i e,
    nth_error (box (d_mailbox d) (live st)) i = Some e /\ m_tag (e_msg e) = tag_of d /\
    Rest.run_handler mfa (cfgc 0) srcok st Rest.HSrc name (Rest.id_of_k (e_k e)) num body = (st, (Rest.S200, Rest.PSrc (e_k e, e_msg e))) /\
    (* any POP3 session on that mailbox over that store which marked it … *)
    (Pop3.w_store pw = Pop3Store.abs content st -> Proofs.Pop3.winv pw ->
     Pop3.s_state (Pop3.w_sess pw) = Pop3.Trans -> Pop3.s_user (Pop3.w_sess pw) = d_mailbox d ->
     nth_error (Pop3.s_msgs (Pop3.w_sess pw)) j = Some m -> nth_error (Pop3.s_retain (Pop3.w_sess pw)) j = Some false ->
     Pop3.p_id m = Pop3Store.id_of_k (e_k e) ->
     let st' := final_spec (cfgc 0) st (Pop3Store.quit_ops (d_mailbox d) (Pop3.s_msgs (Pop3.w_sess pw)) (Pop3.s_retain (Pop3.w_sess pw))) in
     let pw' := Pop3.wstep fl pw (Pop3.ECmd (Pop3.CCmd Pop3.QUIT args)) in
     (* … ends with its QUIT, after which the message is gone from the store, REST and the web UI *)
     Pop3.s_state (Pop3.w_sess pw') = Pop3.Closed /\ Pop3.w_store pw' = Pop3Store.abs content st' /\
     exec_spec (cfgc 0) st' (Get (d_mailbox d) (Kth (e_k e))) = (st', OGet NotExist, []) /\
     Rest.run_handler mfa (cfgc 0) srcok st' Rest.HSrc name (Rest.id_of_k (e_k e)) num body = (st', (Rest.S404, Rest.PNone)) /\
     Rest.run_handler mfa (cfgc 0) srcok st' Rest.USrc name (Rest.id_of_k (e_k e)) num body = (st', (Rest.S404, Rest.PNone)) /\
     (forall x, In x (live st') -> In x (live st)) /\
     (forall mb', mb' <> d_mailbox d -> box mb' (live st') = box mb' (live st))).
Proof.
  intros c o w d name num body fl pw args j m tr st Hsrc Hin Hn Hok.
  destruct (every_delivery_is_readable tag_of date content src mfa srcok c o w d name num body Hsrc Hin Hn Hok)
    as (i & e & H1 & H2 & H3 & _).
  fold tr in H1, H3. fold st in H1, H3.
  exists i, e. split; [exact H1|]. split; [exact H2|]. split; [exact H3|].
  intros Hst Hw Ht Hu Hm Hr Hid st' pw'.
  pose proof (store_of_cinv (deliveries_of tr)) as Hc. fold st in Hc.
  destruct (InterfacesRemovalPop3.pop3_quit_deletions_reach_every_interface content mfa srcok (cfgc 0) fl st pw args Hc Hst Hw Ht)
    as (Q1 & Q2 & Q3 & Q4 & _ & Q6).
  cbn zeta in Q1, Q2, Q3, Q4, Q6. rewrite Hu in Q2, Q3, Q4, Q6. fold st' in Q2, Q3, Q4, Q6. fold pw' in Q1, Q2.
  destruct (Q3 j m (e_k e) name num body Hm Hr Hid Hn) as (G1 & G2 & G3 & _).
  split; [exact Q1|]. split; [exact Q2|]. split; [exact G1|]. split; [exact G2|]. split; [exact G3|].
  split; [exact Q4|exact Q6].
Qed.

End LifePop3.

(** C04 for the modelled literal parser [go_parse_ip] (Model/IpLit.v): the naming theorems
    without any hypothesis about net.ParseIP, and the theorem that Go's Unicode-aware
    strings.ToLower never sees a non-ASCII string in any naming mode. *)
From IV Require Import Base.Bytes Base.BytesFacts Model.Addr Model.IpLit Model.AddrU
  Proofs.AddrFacts Proofs.AddrScan Proofs.AddrDomain Proofs.AddrNaming Proofs.AddrReadSide Proofs.AddrPlus Proofs.AddrPlusAny Proofs.IpLit.
From Coq Require Import ZifyN ZifyNat ZifyBool.

Notation extract_go := (extract_mailbox go_parse_ip).
Notation newrcpt_go := (new_recipient go_parse_ip).

Theorem name_fixed_point_go mode a r : newrcpt_go mode a = Some r -> extract_go mode (r_mailbox r) = Some (r_mailbox r).
Proof. apply name_fixed_point. exact go_parse_ip_lower. Qed.

Theorem read_name_idempotent_go mode a n : extract_go mode a = Some n -> extract_go mode n = Some n /\ n <> [].
Proof.
  intros E. split; [eapply extract_idempotent; [exact go_parse_ip_lower | exact E] | eapply extract_nonempty; exact E].
Qed.

Theorem case_insensitive_go mode a a' r r' :
  lower a = lower a' -> newrcpt_go mode a = Some r -> newrcpt_go mode a' = Some r' -> r_mailbox r = r_mailbox r'.
Proof. apply case_insensitive; [exact go_parse_ip_lower | exact go_parse_ip_alphabet]. Qed.

Theorem plus_insensitive_any_go mode l e d r r' :
  newrcpt_go mode (l ++ 64 :: d) = Some r -> newrcpt_go mode (l ++ 43 :: e ++ 64 :: d) = Some r' -> r_mailbox r = r_mailbox r'.
Proof. apply plus_insensitive_any. exact go_parse_ip_alphabet. Qed.

Theorem read_side_same_name_go site flow : In (site, flow) read_sites ->
  forall mode a r, newrcpt_go mode a = Some r ->
    read_name go_parse_ip mode flow a = Some (r_mailbox r) /\ read_name go_parse_ip mode flow (r_mailbox r) = Some (r_mailbox r).
Proof. apply read_side_same_name. exact go_parse_ip_lower. Qed.

(** * Unicode lower-casing is never reached by a non-ASCII string *)

Lemma forall_is_ascii s : Forall (fun c => c < 128) s -> is_ascii s = true.
Proof. intros H. apply forallb_forall. rewrite Forall_forall in H. intros c I. apply H in I. lia. Qed.

Lemma is_ascii_skipn n s : is_ascii s = true -> is_ascii (skipn n s) = true.
Proof.
  unfold is_ascii. rewrite !forallb_forall. intros H c I. apply H.
  rewrite <- (firstn_skipn n s). apply in_or_app. right. exact I.
Qed.

Section Unicode.
Variable ulower : str -> str.
Hypothesis ulower_ascii : forall s, is_ascii s = true -> ulower s = lower s.

Lemma parse_mailbox_name_u_eq l : is_ascii l = true -> parse_mailbox_name_u ulower l = parse_mailbox_name l.
Proof. intros A. unfold parse_mailbox_name_u, parse_mailbox_name. rewrite (ulower_ascii l A). reflexivity. Qed.

Lemma canonical_domain_u_eq d : is_ascii d = true -> canonical_domain_u ulower d = canonical_domain d.
Proof.
  intros A. unfold canonical_domain_u, canonical_domain.
  rewrite (ulower_ascii d A), (ulower_ascii _ (is_ascii_skipn canon_skip d A)). reflexivity.
Qed.

Lemma parse_email_local_ascii a l d : parse_email a = Some (l, d) -> is_ascii l = true.
Proof. intros P. apply forall_is_ascii. exact (proj1 (lowercased_strings_ascii go_parse_ip a l d P)). Qed.

Lemma validate_go_ascii d : validate_domain go_parse_ip d = true -> is_ascii d = true.
Proof. intros V. apply forall_is_ascii. exact (validate_ascii go_parse_ip go_parse_ip_alphabet d V). Qed.

Theorem extract_mailbox_unicode_irrelevant mode a : extract_mailbox_u ulower go_parse_ip mode a = extract_go mode a.
Proof.
  destruct mode.
  - unfold extract_mailbox_u, extract_mailbox. destruct (parse_email a) as [[l d]|] eqn:P; [|reflexivity].
    rewrite (parse_mailbox_name_u_eq l (parse_email_local_ascii a l d P)). reflexivity.
  - unfold extract_mailbox_u, extract_mailbox. destruct (parse_email a) as [[l d]|] eqn:P; [|reflexivity].
    rewrite (parse_mailbox_name_u_eq l (parse_email_local_ascii a l d P)).
    destruct (parse_mailbox_name l) as [[|c n]|]; try reflexivity.
    destruct ((c =? 46) || has_dotdot (c :: n)); [reflexivity|]. destruct d as [|d0 d']; [reflexivity|].
    destruct (validate_domain go_parse_ip (d0 :: d')) eqn:V; [|reflexivity]. cbn [negb].
    rewrite (canonical_domain_u_eq _ (validate_go_ascii _ V)). reflexivity.
  - cbn [extract_mailbox_u extract_mailbox]. unfold extract_domain_mailbox_u, extract_domain_mailbox. cbv zeta.
    destruct (match a with [] => false | c :: _ => (c =? 91) && (last a 0 =? 93) end) eqn:B.
    + destruct a as [|a0 a']; [discriminate|].
      destruct (validate_domain go_parse_ip (a0 :: a')) eqn:V; [|reflexivity].
      rewrite (canonical_domain_u_eq _ (validate_go_ascii _ V)). reflexivity.
    + destruct (parse_email a) as [[l d]|] eqn:P; [|reflexivity].
      destruct l as [|l0 l1].
      * destruct d as [|d0 d1].
        -- destruct (validate_domain go_parse_ip []) eqn:V; [|reflexivity].
           rewrite (canonical_domain_u_eq _ (validate_go_ascii _ V)). reflexivity.
        -- destruct (validate_domain go_parse_ip (d0 :: d1)) eqn:V; [|reflexivity].
           rewrite (canonical_domain_u_eq _ (validate_go_ascii _ V)). reflexivity.
      * rewrite (parse_mailbox_name_u_eq _ (parse_email_local_ascii a _ d P)).
        destruct (parse_mailbox_name (l0 :: l1)) as [l'|]; [|reflexivity].
        destruct d as [|d0 d1].
        -- destruct (validate_domain go_parse_ip l') eqn:V; [|reflexivity].
           rewrite (canonical_domain_u_eq _ (validate_go_ascii _ V)). reflexivity.
        -- destruct (validate_domain go_parse_ip (d0 :: d1)) eqn:V; [|reflexivity].
           rewrite (canonical_domain_u_eq _ (validate_go_ascii _ V)). reflexivity.
Qed.

Theorem new_recipient_unicode_irrelevant mode a : new_recipient_u ulower go_parse_ip mode a = newrcpt_go mode a.
Proof. unfold new_recipient_u, new_recipient. rewrite extract_mailbox_unicode_irrelevant. reflexivity. Qed.

End Unicode.

(** * Non-vacuity with the modelled literal parser itself (not yes_ip / no_ip) *)
(* "u@[IPv6:2001:DB8::A]" is accepted in every mode; names u, u@[IPv6:2001:db8::a], [IPv6:2001:db8::a] *)
Definition go_sample_v6 : str := [117;64;91;73;80;118;54;58;50;48;48;49;58;68;66;56;58;58;65;93].
Example go_sample_v6_names :
  map (fun m => option_map r_mailbox (newrcpt_go m go_sample_v6)) [Local; Full; Domain] =
  [Some [117]; Some [117;64;91;73;80;118;54;58;50;48;48;49;58;100;98;56;58;58;97;93]; Some [91;73;80;118;54;58;50;48;48;49;58;100;98;56;58;58;97;93]].
Proof. vm_compute. reflexivity. Qed.
(* "U+x@[1.2.3.4]" accepted (names u, u@[1.2.3.4], [1.2.3.4]); "u@[1.2.3]", "u@[ipv6:2001:db8::a]" and "u@[01.2.3.4]" are refused *)
Example go_sample_v4_names :
  map (fun m => option_map r_mailbox (newrcpt_go m [85;43;120;64;91;49;46;50;46;51;46;52;93])) [Local; Full; Domain] =
  [Some [117]; Some [117;64;91;49;46;50;46;51;46;52;93]; Some [91;49;46;50;46;51;46;52;93]] /\
  newrcpt_go Full [117;64;91;49;46;50;46;51;93] = None /\
  newrcpt_go Full [117;64;91;105;112;118;54;58;50;48;48;49;58;100;98;56;58;58;97;93] = None /\
  newrcpt_go Full [117;64;91;48;49;46;50;46;51;46;52;93] = None.
Proof. vm_compute. repeat split; reflexivity. Qed.

(** The '+extension' theorems say "both accepted => same name"; they do not say that the +ext
    variant of an accepted address is accepted. It need not be, at the length limits: a local
    part of 128 bytes is accepted, the same local part with "+x" appended is refused (the at
    sign must sit at an index <= 128); likewise at the 320 limit of the whole address. *)
Theorem plus_variant_need_not_be_accepted :
  exists l e d, newrcpt_go Local (l ++ 64 :: d) <> None /\ newrcpt_go Local (l ++ 43 :: e ++ 64 :: d) = None.
Proof. exists (repeat 97 128), [120], [100]. split; [vm_compute; discriminate | vm_compute; reflexivity]. Qed.

(** C09 — memory store, every configuration: no two deliveries to one mailbox are ever given the
    same id (the id is the mailbox counter, read and incremented inside the mailbox lock, and the
    counter never decreases). *)
From IV Require Import Model.Conc Model.ConcMem Proofs.ConcBase Proofs.ConcMemInv Proofs.ConcMemLin.
From Coq Require Import Lia ZifyN ZifyNat ZifyBool.

Definition is_add (mb : mbname) (e : logent) : bool :=
  match e with
  | (_, OAdd mb' _ _, RId _) => mb' =? mb
  | _ => false
  end.
Definition idof (e : logent) : N := match snd e with RId id => id | _ => 0 end.
Definition add_ids (mb : mbname) (log : list logent) : list N := map idof (filter (is_add mb) log).

Definition invI (s : msys) : Prop :=
  forall mb, NoDup (add_ids mb (s_log s)) /\
             forall id, In id (add_ids mb (s_log s)) -> id <= b_last (x_box (getx mb s)).

Lemma add_ids_snoc mb log e : add_ids mb (log ++ [e]) = add_ids mb log ++ (if is_add mb e then [idof e] else []).
Proof. unfold add_ids. rewrite filter_app, map_app. cbn [filter]. destruct (is_add mb e); reflexivity. Qed.

Lemma cap_loop_last fuel cap b ev : b_last (fst (cap_loop fuel cap b ev)) = b_last b.
Proof.
  revert b ev; induction fuel as [|f IH]; intros b ev; cbn [cap_loop]; [reflexivity|].
  destruct (N.of_nat (length (b_msgs b)) <=? cap); [reflexivity|].
  destruct (find_msg (b_first b) (b_msgs b)); rewrite IH; reflexivity.
Qed.
Lemma box_cap_last cap b : b_last (fst (box_cap cap b)) = b_last b.
Proof. unfold box_cap. destruct (cap =? 0); [reflexivity | apply cap_loop_last]. Qed.
Lemma box_seen_last id b : b_last (fst (box_seen id b)) = b_last b.
Proof. unfold box_seen. destruct (find_msg id (b_msgs b)); reflexivity. Qed.
Lemma box_remove_last id b : b_last (fst (box_remove id b)) = b_last b.
Proof. unfold box_remove. destruct (find_msg id (b_msgs b)); reflexivity. Qed.

Lemma NoDup_snoc (l : list N) x : NoDup l -> ~ In x l -> NoDup (l ++ [x]).
Proof.
  intros Hn Hx. induction Hn as [|a l Ha Hl IH]; cbn; [constructor; [tauto | constructor]|].
  constructor.
  - rewrite in_app_iff. cbn. intros [?|[?|[]]]; [tauto | subst; apply Hx; now left].
  - apply IH. intros H; apply Hx; now right.
Qed.

(** Effect of one step on one mailbox's counter and on the log, all that [invI] needs. *)
Lemma invI_step s w c s' : invI s -> step s w c = SOk s' -> invI s'.
Proof.
  intros HI H.
  assert (Hmono : forall mb, b_last (x_box (getx mb s)) <= b_last (x_box (getx mb s')) /\
            (s_log s' = s_log s \/
             exists e, s_log s' = s_log s ++ [e] /\
               (forall m, is_add m e = true -> m = mb -> idof e = b_last (x_box (getx mb s)) + 1 /\
                                                      b_last (x_box (getx mb s')) = idof e))).
  { intros mb0. destruct w as [t|]; cbn [step] in H.
    - unfold step_thr in H.
      destruct (nth_error (s_thr s) t) as [p|] eqn:Ep; [|discriminate].
      destruct p; try discriminate.
      all: split_step H.
      all: inv_ok H; autorewrite with sys.
      all: try match goal with |- context [getx ?m0 (setx ?mb _ _)] =>
             destruct (N.eq_dec m0 mb) as [->|?]; [rewrite getx_setx_same | rewrite getx_setx_other by assumption] end.
      all: cbn [x_box].
      all: repeat match goal with
           | Hq : box_cap ?c ?b = (?b', _) |- _ =>
               let Hx := fresh in pose proof (box_cap_last c b) as Hx; rewrite Hq in Hx; cbn [fst] in Hx; clear Hq
           | Hq : box_seen ?i ?b = (?b', _) |- _ =>
               let Hx := fresh in pose proof (box_seen_last i b) as Hx; rewrite Hq in Hx; cbn [fst] in Hx; clear Hq
           | Hq : box_remove ?i ?b = (?b', _) |- _ =>
               let Hx := fresh in pose proof (box_remove_last i b) as Hx; rewrite Hq in Hx; cbn [fst] in Hx; clear Hq
           | Hq : box_purge ?b = (?b', _) |- _ => unfold box_purge in Hq; inv_ok Hq; cbn [b_last]
           | Hq : box_insert _ _ ?b = (_, _) |- _ => unfold box_insert in Hq; inv_ok Hq; cbn [b_last]
           end.
      all: split; [lia|].
      all: try (left; reflexivity).
      all: right; eexists; split; [reflexivity|].
      all: intros m0 Hm Heq; cbn [is_add idof snd] in *; try discriminate.
      all: try (apply N.eqb_eq in Hm; subst; try congruence).
      all: try (split; reflexivity).
    - unfold step_enf in H. destruct (s_max s) eqn:E; [|discriminate].
      destruct (e_pc (s_enf s)); try discriminate;
      repeat match type of H with
       | context [if ?b then _ else _] => destruct b eqn:?
       | context [match e_all ?e with _ => _ end] => destruct (e_all e) eqn:?
       | context [match ent_take ?g ?l with _ => _ end] => destruct (ent_take g l) as [[? ?]|] eqn:?
       | context [match box_remove ?a ?b with _ => _ end] => destruct (box_remove a b) as [? [?|]] eqn:Hrem
       end; try discriminate; inv_ok H; autorewrite with sys.
      all: try match goal with |- context [getx ?m0 (setx ?mb _ _)] =>
             destruct (N.eq_dec m0 mb) as [->|?]; [rewrite getx_setx_same | rewrite getx_setx_other by assumption] end.
      all: cbn [x_box].
      all: try match goal with
           | Hq : box_remove ?i ?b = (?b', _) |- _ =>
               let Hx := fresh in pose proof (box_remove_last i b) as Hx; rewrite Hq in Hx; cbn [fst] in Hx
           end.
      all: split; [lia|].
      all: try (left; reflexivity).
      all: right; eexists; split; [reflexivity|].
      all: intros m0 Hm Heq; cbn [is_add] in Hm; discriminate. }
  intros mb. destruct (HI mb) as [Hnd Hle]. destruct (Hmono mb) as [Hb [Hl|(e & Hl & He)]]; rewrite Hl.
  - split; [exact Hnd|]. intros id Hin. specialize (Hle _ Hin). lia.
  - rewrite add_ids_snoc. destruct (is_add mb e) eqn:Ea.
    + destruct (He _ Ea eq_refl) as [Hid Hnew]. split.
      * apply NoDup_snoc; [exact Hnd|]. intros Hin. specialize (Hle _ Hin). lia.
      * intros id Hin. apply in_app_or in Hin. destruct Hin as [Hin|[<-|[]]]; [specialize (Hle _ Hin); lia | lia].
    + rewrite app_nil_r. split; [exact Hnd|]. intros id Hin. specialize (Hle _ Hin). lia.
Qed.

Lemma NoDup_map_inj {A B} (f : A -> B) l a b :
  NoDup (map f l) -> In a l -> In b l -> f a = f b -> a = b.
Proof.
  induction l as [|x l IH]; cbn; [tauto|]. intros Hn. inversion Hn as [|? ? Hx Hl]; subst.
  intros [->|Ha] [->|Hb] Hf; auto.
  - exfalso. apply Hx. rewrite Hf. now apply in_map.
  - exfalso. apply Hx. rewrite <- Hf. now apply in_map.
Qed.

Lemma init_invI cap max ops : invI (init_sys cap max [] enf0 ops).
Proof. intros mb. split; [constructor | intros id []]. Qed.

Theorem mem_ids_distinct_holds : ConcStmts.mem_ids_distinct_stmt.
Proof.
  intros cap max ops sched s t1 t2 mb g1 g2 z1 z2 id Hr H1 H2.
  pose proof (run_from_reach (init_sys cap max [] enf0 ops) sched 0 _ (reach_refl _)) as R.
  unfold run in Hr. rewrite Hr in R.
  assert (HI : invI s).
  { clear Hr H1 H2. revert s R. apply reach_ind_inv; [apply init_invI | intros; eapply invI_step; eauto]. }
  destruct (HI mb) as [Hnd _]. unfold add_ids in Hnd.
  assert (E : (T t1, OAdd mb g1 z1, RId id) = (T t2, OAdd mb g2 z2, RId id)).
  { eapply NoDup_map_inj; [exact Hnd | | | reflexivity].
    all: apply filter_In; split; [assumption|]; cbn [is_add]; apply N.eqb_refl. }
  now inversion E.
Qed.

(** C09 — file store: one VisitMailboxes walk reports no mailbox twice.
    Every mailbox lies under exactly one level-2 and one level-1 name; the walk takes every name of a
    directory listing once; so what has been reported can never be reached again by what is left. *)
From IV Require Import Model.Conc Model.ConcFile Proofs.ConcBase Proofs.ConcFileInv Proofs.ConcFileLin Proofs.ConcFileVisit.
From Coq Require Import Lia ZifyN ZifyNat ZifyBool.

Lemma take_nth_NoDup {A} n (l : list A) x r : take_nth n l = Some (x, r) -> NoDup l -> NoDup (x :: r).
Proof.
  revert n x r; induction l as [|a l IH]; intros [|n] x r; cbn [take_nth]; try discriminate.
  - intros H; inversion H; subst; auto.
  - destruct (take_nth n l) as [[z r']|] eqn:E; [|discriminate].
    intros H Hn; inversion H; subst. inversion Hn as [|? ? Ha Hl]; subst.
    specialize (IH _ _ _ E Hl). inversion IH as [|? ? Hx Hr]; subst.
    destruct (take_nth_in _ _ _ _ E) as [Hxl Hrl].
    constructor.
    + intros [->|Hi]; contradiction.
    + constructor; [intros Hi; apply Ha; now apply Hrl | exact Hr].
Qed.
Lemma pick_NoDup {A} c (l : list A) x r : pick c l = Some (x, r) -> NoDup l -> NoDup (x :: r).
Proof. unfold pick. destruct l; [discriminate|]. apply take_nth_NoDup. Qed.

Lemma NoDup_app_one (l : list N) x : NoDup l -> ~ In x l -> NoDup (l ++ [x]).
Proof.
  intros Hn Hx. induction Hn as [|a l Ha Hl IH]; cbn; [constructor; [tauto | constructor]|].
  constructor.
  - rewrite in_app_iff. cbn. intros [?|[?|[]]]; [tauto | subst; apply Hx; now left].
  - apply IH. intros H; apply Hx; now right.
Qed.
Lemma NoDup_addN x l : NoDup l -> NoDup (addN x l).
Proof.
  intros H. unfold addN. destruct (memN x l) eqn:E; [exact H|].
  apply NoDup_app_one; [exact H|]. intros Hi. apply memN_In in Hi. congruence.
Qed.
Lemma NoDup_filter {A} (f : A -> bool) l : NoDup l -> NoDup (filter f l).
Proof.
  induction 1 as [|a l Ha Hl IH]; cbn; [constructor|]. destruct (f a); [|exact IH].
  constructor; [|exact IH]. intros Hi. apply filter_In in Hi. tauto.
Qed.
Lemma NoDup_delN x l : NoDup l -> NoDup (delN x l).
Proof. apply NoDup_filter. Qed.

Section Once.
  Variable g : geo.
  Variable t : tid.
  Hypothesis Hwf : wf_geo g.

  Let k1 := k1_of g.
  Let k2 := k2_of g.
  Let kk := k1_of_k2 g.
  Definition indom (m : mbname) : Prop := aget m g <> None.

  Definition accok (acc : list (mbname * view)) (F : mbname -> Prop) : Prop :=
    NoDup (map fst acc) /\ forall m, In m (map fst acc) -> indom m /\ ~ F m.

  Lemma accok_weaken acc (F F' : mbname -> Prop) : (forall m, indom m -> F' m -> F m) -> accok acc F -> accok acc F'.
  Proof. intros H [Hn Ha]. split; [exact Hn|]. intros m Hm. destruct (Ha m Hm) as [Hd Hf]. split; auto. Qed.

  Definition once (p : fpc) : Prop :=
    match p with
    | FVisit2 n1 r1 acc => NoDup (n1 :: r1) /\ accok acc (fun m => In (k1 m) (n1 :: r1))
    | FVisit3 n2 r2 r1 acc =>
        NoDup (n2 :: r2) /\ NoDup r1 /\ (forall z, In z (n2 :: r2) -> ~ In (kk z) r1) /\
        accok acc (fun m => In (k2 m) (n2 :: r2) \/ In (k1 m) r1)
    | FVisitMb x r3 r2 r1 acc =>
        NoDup (x :: r3) /\ NoDup r2 /\ NoDup r1 /\ (forall z, In z r2 -> ~ In (kk z) r1) /\
        (forall y, In y (x :: r3) -> ~ In (k2 y) r2 /\ ~ In (k1 y) r1 /\ indom y) /\
        accok acc (fun m => In m (x :: r3) \/ In (k2 m) r2 \/ In (k1 m) r1)
    | FDone (RVisit l) => NoDup (map fst l)
    | _ => True
    end.

  Lemma once_next1 c r1 acc s : (t < length (f_thr s))%nat -> NoDup r1 -> accok acc (fun m => In (k1 m) r1) ->
    exists p', nth_error (f_thr (visit_next1 t c r1 acc s)) t = Some p' /\ once p'.
  Proof.
    intros Hl Hn Ha. unfold visit_next1. destruct (pick c r1) as [[n1 r1']|] eqn:E; cbn; rewrite nth_set_same by exact Hl;
      eexists; (split; [reflexivity|]); cbn [once].
    - split; [eapply pick_NoDup; eauto|]. eapply accok_weaken; [|exact Ha].
      intros m _ Hm. destruct (pick_in _ _ _ _ E) as [Hx Hr]. destruct Hm as [<-|Hm]; auto.
    - exact (proj1 Ha).
  Qed.

  Lemma once_next2 c r2 r1 acc s : (t < length (f_thr s))%nat -> NoDup r2 -> NoDup r1 ->
    (forall z, In z r2 -> ~ In (kk z) r1) -> accok acc (fun m => In (k2 m) r2 \/ In (k1 m) r1) ->
    exists p', nth_error (f_thr (visit_next2 t c r2 r1 acc s)) t = Some p' /\ once p'.
  Proof.
    intros Hl Hn2 Hn1 Hz Ha. unfold visit_next2. destruct (pick c r2) as [[n2 r2']|] eqn:E.
    - cbn; rewrite nth_set_same by exact Hl. eexists; split; [reflexivity|]. cbn [once].
      destruct (pick_in _ _ _ _ E) as [Hx Hr].
      split; [eapply pick_NoDup; eauto|]. split; [exact Hn1|]. split.
      + intros z [<-|Hzi]; apply Hz; auto.
      + eapply accok_weaken; [|exact Ha]. intros m _ [[<-|Hm]|Hm]; auto.
    - apply once_next1; auto. eapply accok_weaken; [|exact Ha]. intros m _ Hm; cbn beta; auto.
  Qed.

  Lemma once_next3 c r3 r2 r1 acc s : (t < length (f_thr s))%nat -> NoDup r3 -> NoDup r2 -> NoDup r1 ->
    (forall z, In z r2 -> ~ In (kk z) r1) ->
    (forall y, In y r3 -> ~ In (k2 y) r2 /\ ~ In (k1 y) r1 /\ indom y) ->
    accok acc (fun m => In m r3 \/ In (k2 m) r2 \/ In (k1 m) r1) ->
    exists p', nth_error (f_thr (visit_next3 t c r3 r2 r1 acc s)) t = Some p' /\ once p'.
  Proof.
    intros Hl Hn3 Hn2 Hn1 Hz Hy Ha. unfold visit_next3. destruct (pick c r3) as [[x r3']|] eqn:E.
    - cbn; rewrite nth_set_same by exact Hl. eexists; split; [reflexivity|]. cbn [once].
      destruct (pick_in _ _ _ _ E) as [Hx Hr].
      split; [eapply pick_NoDup; eauto|]. split; [exact Hn2|]. split; [exact Hn1|]. split; [exact Hz|]. split.
      + intros y [<-|Hyi]; apply Hy; auto.
      + eapply accok_weaken; [|exact Ha]. intros m _ [[<-|Hm]|Hm]; auto.
    - apply once_next2; auto. eapply accok_weaken; [|exact Ha]. intros m _ Hm; cbn beta; auto.
  Qed.

  Definition sok (s : fsys) : Prop :=
    NoDup (f_l1 s) /\ NoDup (f_l2 s) /\ NoDup (f_mbd s) /\ (forall m, In m (f_mbd s) -> indom m).

  Lemma k1_kk m : indom m -> kk (k2 m) = k1 m.
  Proof. intros H. unfold kk, k2, k1. now apply k1_of_k2_wf. Qed.

  Lemma once_own_step s c s' p : f_geo s = g -> sok s -> nth_error (f_thr s) t = Some p -> once p ->
    fstep s t c = SOk s' -> exists p', nth_error (f_thr s') t = Some p' /\ once p'.
  Proof.
    intros Hg (N1 & N2 & N3 & Hdom) Hn Ho H. pose proof (nth_error_lt _ _ _ Hn) as Hlt.
    unfold fstep in H. rewrite Hn in H.
    destruct p; try discriminate.
    all: fsplit H.
    all: injection H as <-.
    all: cbn [once] in Ho.
    all: try (cbn [f_thr fsetpc faddlog ffinish funlock flock fbump set_idx fwith]; rewrite nth_set_same by exact Hlt;
              eexists; split; [reflexivity|]; cbn [once]; try exact I;
              unfold box_get, box_latest, box_list;
              first [ destruct (find_msg _ _) | destruct (last_msg _) | idtac ]; exact I).
    all: rewrite ?Hg in *.
    - (* root read *)
      apply once_next1; [cbn; assumption | exact N1 |]. split; [constructor | intros m []].
    - (* level-1 present *)
      destruct Ho as [Hnd Ha]. inversion Hnd as [|? ? Hn1 Hr1]; subst.
      apply once_next2; [cbn; assumption | now apply NoDup_filter | exact Hr1 | |].
      + intros z Hz. apply filter_In in Hz. destruct Hz as [_ Hz]. apply N.eqb_eq in Hz. fold kk in Hz. now rewrite Hz.
      + eapply accok_weaken; [|exact Ha]. intros m Hd [Hm|Hm]; [|now right].
        left. apply filter_In in Hm. destruct Hm as [_ Hm]. apply N.eqb_eq in Hm. fold kk in Hm.
        rewrite k1_kk in Hm by exact Hd. now symmetry.
    - (* level-1 vanished *)
      destruct Ho as [Hnd Ha]. inversion Hnd; subst.
      apply once_next1; [cbn; assumption | assumption |]. eapply accok_weaken; [|exact Ha]. intros m _ Hm; cbn beta; now right.
    - (* level-2 present *)
      destruct Ho as (Hnd & Hn1 & Hz & Ha). inversion Hnd as [|? ? Hn2 Hr2]; subst.
      apply once_next3; [cbn; assumption | now apply NoDup_filter | exact Hr2 | exact Hn1 | | |].
      + intros z Hzi. apply Hz. now right.
      + intros y Hy. apply filter_In in Hy. destruct Hy as [Hy1 Hy2]. apply N.eqb_eq in Hy2. fold k2 in Hy2.
        assert (Hd : indom y) by (apply Hdom; exact Hy1).
        split; [now rewrite Hy2|]. split; [|exact Hd].
        rewrite <- (k1_kk y Hd), Hy2. apply Hz. now left.
      + eapply accok_weaken; [|exact Ha]. intros m _ [Hm|[Hm|Hm]]; [|left; now right | now right].
        left. left. apply filter_In in Hm. destruct Hm as [_ Hm]. apply N.eqb_eq in Hm. fold k2 in Hm. now symmetry.
    - (* level-2 vanished *)
      destruct Ho as (Hnd & Hn1 & Hz & Ha). inversion Hnd; subst.
      apply once_next2; [cbn; assumption | assumption | exact Hn1 | |].
      + intros z Hzi. apply Hz. now right.
      + eapply accok_weaken; [|exact Ha]. intros m _ [Hm|Hm]; cbn beta; [left; now right | now right].
    - (* the mailbox is read *)
      destruct Ho as (Hnd & Hn2 & Hn1 & Hz & Hy & [Han Ha]). inversion Hnd as [|? ? Hx Hr3]; subst.
      destruct (Hy mb (or_introl eq_refl)) as (Hy2 & Hy1 & Hyd).
      apply once_next3; [cbn; assumption | exact Hr3 | exact Hn2 | exact Hn1 | exact Hz | |].
      + intros y Hyi. apply Hy. now right.
      + split.
        * rewrite map_app. cbn [map fst]. apply NoDup_app_one; [exact Han|].
          intros Hi. destruct (Ha _ Hi) as [_ Hf]. apply Hf. left. now left.
        * intros m Hm. rewrite map_app in Hm. apply in_app_or in Hm. destruct Hm as [Hm|[<-|[]]].
          -- destruct (Ha _ Hm) as [Hd Hf]. split; [exact Hd|]. intros [Hq|Hq]; apply Hf; [left; now right | now right].
          -- split; [exact Hyd|]. intros [Hq|[Hq|Hq]]; contradiction.
  Qed.
End Once.

Section OnceInv.
  Variable g : geo.
  Variable t : tid.
  Hypothesis Hwf : wf_geo g.

  Definition pcdom (p : fpc) : Prop :=
    match p with FStart (OAdd mb _ _) | FAddMkdir mb _ _ => indom g mb | _ => True end.

  Definition invO (s : fsys) : Prop :=
    f_geo s = g /\ sok g s /\ (forall u p, nth_error (f_thr s) u = Some p -> pcdom p) /\
    (forall p, nth_error (f_thr s) t = Some p -> once g p).

  Lemma sok_step s u c s' : f_geo s = g -> sok g s -> (forall v p, nth_error (f_thr s) v = Some p -> pcdom p) ->
    fstep s u c = SOk s' ->
    sok g s' /\ (forall v p, nth_error (f_thr s') v = Some p -> pcdom p).
  Proof.
    intros Hg (N1 & N2 & N3 & Hdom) Hpc H. unfold fstep in H.
    destruct (nth_error (f_thr s) u) as [pu|] eqn:Hn; [|discriminate].
    pose proof (Hpc _ _ Hn) as Hself. pose proof (nth_error_lt _ _ _ Hn) as Hlt.
    destruct pu; try discriminate.
    all: fsplit H.
    all: injection H as <-.
    all: unfold visit_next3, visit_next2, visit_next1.
    all: repeat match goal with |- context [pick ?c ?l] => destruct (pick c l) as [[? ?]|] end.
    all: unfold sok; cbn [f_l1 f_l2 f_mbd f_thr fsetpc faddlog ffinish funlock flock fbump set_idx fwith].
    all: cbn [pcdom] in Hself.
    all: (split; [ repeat split; try assumption; try (apply NoDup_addN; assumption); try (apply NoDup_delN; assumption);
                   try (intros m Hm; first [ apply Hdom; exact Hm
                                           | apply filter_In in Hm; apply Hdom; apply Hm
                                           | unfold addN in Hm; destruct (memN _ _); [apply Hdom; exact Hm|];
                                             apply in_app_or in Hm; destruct Hm as [Hm|[<-|[]]]; [apply Hdom; exact Hm | exact Hself] ])
                 | intros v p Hp; apply nth_set_cases in Hp; destruct Hp as [(_ & -> & _)|(_ & Hp)];
                   [ cbn [pcdom]; try exact I; try exact Hself | eapply Hpc; eauto ] ]).
  Qed.

  Lemma invO_step s u c s' : invO s -> fstep s u c = SOk s' -> invO s'.
  Proof.
    intros (Hg & Hs & Hpc & Ho) H.
    destruct (nth_error (f_thr s) u) as [pu|] eqn:Hu; [|unfold fstep in H; rewrite Hu in H; discriminate].
    destruct (fstep_effect _ _ _ _ _ Hu H) as [Hg' Heff].
    destruct (sok_step _ _ _ _ Hg Hs Hpc H) as [Hs' Hpc'].
    split; [congruence|]. split; [exact Hs'|]. split; [exact Hpc'|].
    intros p Hp. destruct (Nat.eq_dec u t) as [->|Hne].
    - destruct (once_own_step g t Hwf s c s' pu Hg Hs Hu (Ho _ Hu) H) as (p' & Hp' & Hon). congruence.
    - assert (Hthr : exists p', f_thr s' = set_nth u p' (f_thr s)) by (destruct Heff; eauto).
      destruct Hthr as [p' Hthr]. rewrite Hthr in Hp. rewrite nth_set_other in Hp by exact Hne. auto.
  Qed.
End OnceInv.

(** One walk reports no mailbox twice (every delivery goes to a mailbox of the geometry). *)
Theorem file_visit_at_most_once : forall g ops sched s t l,
  wf_geo g -> (forall mb tag size, In (OAdd mb tag size) ops -> aget mb g <> None) ->
  In s (ftrace (finit g ops) sched) -> nth_error (f_thr s) t = Some (FDone (RVisit l)) ->
  NoDup (map fst l).
Proof.
  intros g ops sched s t l Hwf Hops Hs Hn.
  assert (H0 : invO g t (finit g ops)).
  { split; [reflexivity|]. split; [repeat split; try constructor; intros m []|]. split.
    - intros u p Hp. cbn in Hp. rewrite nth_error_map in Hp. destruct (nth_error ops u) as [o|] eqn:Eo; inversion Hp; subst.
      destruct o; cbn; auto. eapply Hops. eapply nth_error_In; eauto.
    - intros p Hp. cbn in Hp. rewrite nth_error_map in Hp. destruct (nth_error ops t); inversion Hp; subst. exact I. }
  assert (G : forall sched s0, invO g t s0 -> forall x, In x (ftrace s0 sched) -> invO g t x).
  { induction sched0 as [|[u c] r IH]; intros s0 HI x Hx; cbn [ftrace] in Hx.
    - destruct Hx as [<-|[]]. exact HI.
    - destruct Hx as [<-|Hx]; [exact HI|].
      destruct (fstep s0 u c) as [s1| | |] eqn:E; try (destruct Hx; fail).
      + eapply IH; [eapply invO_step; eauto | exact Hx].
      + eapply IH; eauto. }
  destruct (G sched _ H0 s Hs) as (_ & _ & _ & Ho). exact (Ho _ Hn).
Qed.

(** Visited exactly once: a mailbox that holds mail in every state from the walk's first read to its
    last is reported, and nothing is reported twice. *)
Theorem file_visit_sees_stable_mailboxes : forall g ops sched mb t,
  wf_geo g -> (forall m tag size, In (OAdd m tag size) ops -> aget m g <> None) -> aget mb g <> None ->
  Forall (fun s => during t s -> holds mb s) (ftrace (finit g ops) sched) ->
  forall s l, In s (ftrace (finit g ops) sched) ->
    nth_error (f_thr s) t = Some (FDone (RVisit l)) ->
    In mb (map fst l) /\ NoDup (map fst l).
Proof.
  intros g ops sched mb t Hwf Hops Hmb HF s l Hs Hn. split.
  - eapply file_visit_sees_stable_mailboxes_partial; eauto.
  - eapply file_visit_at_most_once; eauto.
Qed.

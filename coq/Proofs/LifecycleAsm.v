(** C19: start-up and shutdown of the assembled server (Model/LifecycleAsm.v). *)
From Coq Require Import Lia.
From IV Require Import Base.Bytes Gen.LifecyclePins Model.Lifecycle Model.LifecycleAsm.
Local Open Scope nat_scope.

Lemma comp_eq_dec_asm (a b : comp) : {a = b} + {a <> b}.
Proof. decide equality. Qed.

Lemma phase_set_other_asm y c p c0 : c0 <> c -> phase_of (set_phase y c p) c0 = phase_of y c0.
Proof. destruct c, c0; intros N; try reflexivity; congruence. Qed.

(** * Shutdown terminates *)

Lemma rstep_twice n r : rstep true n (rstep true n r) = RStopped.
Proof. destruct r as [| [|j] | |]; reflexivity. Qed.

Lemma rstep_stopped b n : rstep b n RStopped = RStopped.
Proof. reflexivity. Qed.

(** The scanner goroutine exists from the start and for ever, when Services.Start starts it. *)
Lemma ret_exists_step sh e y a y' : astep sh e y a = Some y' -> a_ret y <> None -> a_ret y' <> None.
Proof.
  destruct a; cbn [astep]; intros E H.
  - destruct (phase_of y c); try discriminate. inversion E; subst. destruct c; exact H.
  - destruct (phase_of y c); try discriminate. inversion E; subst. destruct c; exact H.
  - destruct (sh_waiter sh && Nat.eqb (a_ready y) 0 && negb (a_readycalled y)); [|discriminate]. inversion E; subst; exact H.
  - destruct (phase_of y c); try discriminate. destruct (a_notified y); [discriminate|]. inversion E; subst; exact H.
  - destruct (a_cancel y); [discriminate|]. inversion E; subst; exact H.
  - destruct (phase_of y c); try discriminate. destruct (a_cancel y); [|discriminate]. inversion E; subst. destruct c; exact H.
  - destruct (a_cancel y && sh_hub sh); [|discriminate]. inversion E; subst; exact H.
  - destruct (a_ret y); [|discriminate]. inversion E; subst. cbn. discriminate.
  - destruct (a_cancel y); [|discriminate]. destruct (a_todo y) as [|w t]; [discriminate|].
    destruct (wait_ok y w); [|discriminate]. inversion E; subst; exact H.
Qed.

Lemma ret_exists_run sh e acts : forall y y', arun sh e y acts = Some y' -> a_ret y <> None -> a_ret y' <> None.
Proof.
  induction acts as [|a t IH]; intros y y' R H; cbn [arun] in R.
  - inversion R; subst; auto.
  - destruct (astep sh e y a) eqn:E; [|discriminate]. eapply IH; eauto. eapply ret_exists_step; eauto.
Qed.

Lemma cancel_stays_step sh e y a y' : astep sh e y a = Some y' -> a_cancel y = true -> a_cancel y' = true.
Proof.
  destruct a; cbn [astep]; intros E H.
  - destruct (phase_of y c); try discriminate. inversion E; subst. destruct c; exact H.
  - destruct (phase_of y c); try discriminate. inversion E; subst. destruct c; exact H.
  - destruct (sh_waiter sh && Nat.eqb (a_ready y) 0 && negb (a_readycalled y)); [|discriminate]. inversion E; subst; exact H.
  - destruct (phase_of y c); try discriminate. destruct (a_notified y); [discriminate|]. inversion E; subst; exact H.
  - rewrite H in E. discriminate.
  - destruct (phase_of y c); try discriminate. destruct (a_cancel y) eqn:C; [|discriminate]. inversion E; subst. destruct c; cbn; exact C.
  - destruct (a_cancel y && sh_hub sh); [|discriminate]. inversion E; subst; exact H.
  - destruct (a_ret y); [|discriminate]. inversion E; subst. exact H.
  - destruct (a_cancel y); [|discriminate]. destruct (a_todo y) as [|w t]; [discriminate|].
    destruct (wait_ok y w); [|discriminate]. inversion E; subst; reflexivity.
Qed.

(** main() gets through all its remaining waits once the scanner has stopped and both accept loops
    have exited (or never ran). *)
Lemma main_finishes sh e : forall todo y,
  a_cancel y = true -> a_ret y = Some RStopped ->
  loop_counted (p_smtp y) = false -> loop_counted (p_pop3 y) = false -> a_todo y = todo ->
  exists y', arun sh e y (map (fun _ => XMain) todo) = Some y' /\ a_todo y' = [].
Proof.
  induction todo as [|w t IH]; intros y C R LS LP T; cbn [map arun].
  - exists y. auto.
  - cbn [astep]. rewrite C, T.
    assert (wait_ok y w = true) as -> by (destruct w; cbn [wait_ok]; rewrite ?R, ?LS, ?LP; reflexivity).
    apply IH; reflexivity || assumption.
Qed.

(** What it takes to bring one listening server to rest after cancel: let its Start get as far as
    it gets (bind or fail; report ready), then close its listener — the accept loop exits. *)
Definition rest_acts (e : env) (y : asys) (c : comp) : list aact :=
  match phase_of y c with
  | BInit => if fails e c then [XBind c] else [XBind c; XReadyCall c; XClose c]
  | BBound => [XReadyCall c; XClose c]
  | BReady => [XClose c]
  | _ => []
  end.

Lemma rest_one sh e y c : a_cancel y = true ->
  exists y', arun sh e y (rest_acts e y c) = Some y' /\ loop_counted (phase_of y' c) = false /\
             (forall c0, c0 <> c -> phase_of y' c0 = phase_of y c0) /\
             a_cancel y' = true /\ a_ret y' = a_ret y /\ a_todo y' = a_todo y.
Proof.
  intros C. unfold rest_acts.
  destruct c; cbn [phase_of];
    [destruct (p_web y) eqn:P | destruct (p_smtp y) eqn:P | destruct (p_pop3 y) eqn:P];
    try (destruct (fails e _) eqn:F);
    cbn [arun astep phase_of set_phase p_web p_smtp p_pop3 a_cancel a_ret a_todo]; rewrite ?P, ?F, ?C;
    cbn [arun astep phase_of set_phase p_web p_smtp p_pop3 a_cancel a_ret a_todo]; rewrite ?C;
    cbn [arun astep phase_of set_phase p_web p_smtp p_pop3 a_cancel a_ret a_todo];
    eexists; (split; [reflexivity|]); cbn [phase_of p_web p_smtp p_pop3 a_cancel a_ret a_todo loop_counted];
    rewrite ?P; repeat split; auto; intros c0 N; destruct c0; cbn; congruence.
Qed.

Lemma arun_app sh e a : forall y b, arun sh e y (a ++ b) = match arun sh e y a with Some y1 => arun sh e y1 b | None => None end.
Proof.
  induction a as [|x t IH]; intros y b; cbn [app arun]; auto. destruct (astep sh e y x); auto.
Qed.

(** From EVERY state that any schedule can reach — whichever listeners failed to bind, whatever
    has or has not happened yet — once main() has cancelled there is a continuation (each server's
    Start gets to its end and closes its listener, the scanner goroutine takes two steps, then
    main()'s remaining waits in order) all of whose steps are enabled and after which main() is
    done: no wait of the shutdown sequence can be blocked for ever. *)
Definition finish_acts (e : env) (y : asys) : list aact :=
  let a1 := rest_acts e y CSmtp in
  a1 ++ rest_acts e y CPop3 ++ [XRet 0; XRet 0] ++ map (fun _ => XMain) (a_todo y).

Theorem shutdown_terminates_gen :
  forall sh e ren acts y,
    sh_ret sh = true ->
    arun sh e (asm_init sh ren) acts = Some y -> a_cancel y = true ->
    exists y', arun sh e y (finish_acts e y) = Some y' /\ a_todo y' = [].
Proof.
  intros sh e ren acts y SR R C.
  assert (NE : a_ret y <> None).
  { eapply ret_exists_run; [exact R|]. cbn [asm_init a_ret]. rewrite SR. discriminate. }
  unfold finish_acts.
  destruct (rest_one sh e y CSmtp C) as (y1 & R1 & L1 & O1 & C1 & Rt1 & T1).
  destruct (rest_one sh e y1 CPop3 C1) as (y2 & R2 & L2 & O2 & C2 & Rt2 & T2).
  assert (RA : rest_acts e y1 CPop3 = rest_acts e y CPop3).
  { unfold rest_acts. rewrite (O1 CPop3) by discriminate. reflexivity. }
  rewrite arun_app, R1, arun_app, <- RA, R2.
  destruct (a_ret y2) as [r|] eqn:Er; [|congruence].
  cbn [app arun astep]. rewrite Er. cbn [a_ret a_cancel]. rewrite C2. cbn [a_ret]. rewrite rstep_twice.
  set (y3 := mkA _ _ _ _ _ _ _ _ _ _).
  assert (H1 : a_cancel y3 = true) by reflexivity.
  assert (H2 : a_ret y3 = Some RStopped) by reflexivity.
  assert (H3 : loop_counted (p_smtp y3) = false).
  { cbn. change (loop_counted (phase_of y2 CSmtp) = false). rewrite (O2 CSmtp) by discriminate. exact L1. }
  assert (H4 : loop_counted (p_pop3 y3) = false) by (cbn; exact L2).
  assert (H5 : a_todo y3 = a_todo y) by (cbn; congruence).
  destruct (main_finishes sh e (a_todo y) y3 H1 H2 H3 H4 H5) as (y' & R' & T').
  exists y'. auto.
Qed.

Theorem shutdown_terminates :
  forall e ren acts y,
    arun pinned_shape e (asm_init pinned_shape ren) acts = Some y -> a_cancel y = true ->
    exists y', arun pinned_shape e y (finish_acts e y) = Some y' /\ a_todo y' = [].
Proof. intros. eapply shutdown_terminates_gen; eauto. Qed.

(** A wait that has become possible stays possible, whatever else happens — provided, for a Drain,
    that the server's Start has at least begun (a Drain called before Start has bound the listener
    finds an empty WaitGroup; that is start-up, not shutdown). *)
Definition wait_settled (y : asys) (w : wait) : Prop :=
  match w with
  | WSmtpDrain => p_smtp y <> BInit
  | WPop3Drain => p_pop3 y <> BInit
  | WRetJoin => True
  end.

Theorem wait_stays_enabled :
  forall sh e y a y' w, astep sh e y a = Some y' -> wait_ok y w = true -> wait_settled y w ->
    wait_ok y' w = true /\ wait_settled y' w.
Proof.
  intros sh e y a y' w E H S.
  assert (G : forall c, loop_counted (phase_of y c) = false -> phase_of y c <> BInit ->
                        loop_counted (phase_of y' c) = false /\ phase_of y' c <> BInit).
  { intros c L N. destruct a; cbn [astep] in E.
    - destruct (phase_of y c0) eqn:P; try discriminate. inversion E; subst y'.
      destruct (comp_eq_dec_asm c c0) as [->|X]; [congruence|]. rewrite phase_set_other_asm by auto. auto.
    - destruct (phase_of y c0) eqn:P; try discriminate. inversion E; subst y'.
      change (loop_counted (phase_of (set_phase y c0 BReady) c) = false /\ phase_of (set_phase y c0 BReady) c <> BInit).
      destruct (comp_eq_dec_asm c c0) as [->|X]; [rewrite P in L; discriminate|]. rewrite phase_set_other_asm by auto. auto.
    - destruct (sh_waiter sh && Nat.eqb (a_ready y) 0 && negb (a_readycalled y)); [|discriminate]. inversion E; subst. destruct c; auto.
    - destruct (phase_of y c0); try discriminate. destruct (a_notified y); [discriminate|]. inversion E; subst. destruct c; auto.
    - destruct (a_cancel y); [discriminate|]. inversion E; subst. destruct c; auto.
    - destruct (phase_of y c0) eqn:P; try discriminate. destruct (a_cancel y); [|discriminate]. inversion E; subst y'.
      destruct (comp_eq_dec_asm c c0) as [->|X]; [rewrite P in L; discriminate|]. rewrite phase_set_other_asm by auto. auto.
    - destruct (a_cancel y && sh_hub sh); [|discriminate]. inversion E; subst. destruct c; auto.
    - destruct (a_ret y); [|discriminate]. inversion E; subst. destruct c; auto.
    - destruct (a_cancel y); [|discriminate]. destruct (a_todo y) as [|w0 t]; [discriminate|].
      destruct (wait_ok y w0); [|discriminate]. inversion E; subst. destruct c; auto. }
  destruct w; cbn [wait_ok wait_settled] in *.
  - apply Bool.negb_true_iff in H. destruct (G CSmtp H S) as [A B]. cbn [phase_of] in A, B. rewrite A. auto.
  - apply Bool.negb_true_iff in H. destruct (G CPop3 H S) as [A B]. cbn [phase_of] in A, B. rewrite A. auto.
  - split; auto. destruct (a_ret y) as [[]|] eqn:R; try discriminate.
    destruct a; cbn [astep] in E.
    + destruct (phase_of y c); try discriminate. inversion E; subst. destruct c; cbn; rewrite R; reflexivity.
    + destruct (phase_of y c); try discriminate. inversion E; subst. cbn. rewrite R. reflexivity.
    + destruct (sh_waiter sh && Nat.eqb (a_ready y) 0 && negb (a_readycalled y)); [|discriminate]. inversion E; subst; cbn; rewrite R; reflexivity.
    + destruct (phase_of y c); try discriminate. destruct (a_notified y); [discriminate|]. inversion E; subst; cbn; rewrite R; reflexivity.
    + destruct (a_cancel y); [discriminate|]. inversion E; subst; cbn; rewrite R; reflexivity.
    + destruct (phase_of y c); try discriminate. destruct (a_cancel y); [|discriminate]. inversion E; subst. destruct c; cbn; rewrite R; reflexivity.
    + destruct (a_cancel y && sh_hub sh); [|discriminate]. inversion E; subst; cbn; rewrite R; reflexivity.
    + rewrite R in E. inversion E; subst. reflexivity.
    + destruct (a_cancel y); [|discriminate]. destruct (a_todo y) as [|w t]; [discriminate|].
      destruct (wait_ok y w); [|discriminate]. inversion E; subst; cbn; rewrite R; reflexivity.
Qed.

(** * readyFunc is called iff all listeners bound *)

Definition pend (sh : shape) (c : comp) (p : bphase) : nat :=
  match p with BInit | BBound | BFailed => b2n (tracked sh c) | _ => 0 end.

Record RInv (sh : shape) (e : env) (y : asys) : Prop := mkRInv {
  ri_count : a_ready y = pend sh CWeb (p_web y) + pend sh CSmtp (p_smtp y) + pend sh CPop3 (p_pop3 y);
  ri_fail : forall c, fails e c = true ->
              phase_of y c = BAbsent \/ phase_of y c = BInit \/ phase_of y c = BFailed;
  ri_nofail : forall c, phase_of y c = BFailed -> fails e c = true;
  ri_called : a_readycalled y = true -> a_ready y = 0;
  ri_notified : forall c, a_notified y = Some c -> fails e c = true
}.

Lemma rinv_init sh e ren : RInv sh e (asm_init sh ren).
Proof.
  constructor; cbn [asm_init a_ready p_web p_smtp p_pop3 a_readycalled a_notified]; try discriminate.
  - destruct (sh_web sh), (sh_smtp sh), (sh_pop3 sh); cbn; lia.
  - intros c _. destruct c; cbn; [destruct (sh_web sh)|destruct (sh_smtp sh)|destruct (sh_pop3 sh)]; auto.
  - intros c. destruct c; cbn; [destruct (sh_web sh)|destruct (sh_smtp sh)|destruct (sh_pop3 sh)]; discriminate.
Qed.

Lemma comp_eq_dec (a b : comp) : {a = b} + {a <> b}.
Proof. decide equality. Qed.

Lemma phase_set_same y c p : phase_of (set_phase y c p) c = p.
Proof. destruct c; reflexivity. Qed.

Lemma phase_set_other y c p c0 : c0 <> c -> phase_of (set_phase y c p) c0 = phase_of y c0.
Proof. destruct c, c0; intros N; try reflexivity; congruence. Qed.

Lemma set_phase_fields y c p :
  a_ready (set_phase y c p) = a_ready y /\ a_readycalled (set_phase y c p) = a_readycalled y /\
  a_notified (set_phase y c p) = a_notified y.
Proof. destruct c; auto. Qed.

Definition cnt (sh : shape) (y : asys) : nat :=
  pend sh CWeb (p_web y) + pend sh CSmtp (p_smtp y) + pend sh CPop3 (p_pop3 y).

Lemma cnt_set sh y c p : cnt sh (set_phase y c p) + pend sh c (phase_of y c) = cnt sh y + pend sh c p.
Proof. unfold cnt. destruct c; cbn [set_phase p_web p_smtp p_pop3 phase_of]; lia. Qed.

(** Replacing one listener's phase. *)
Lemma rinv_set sh e y c p :
  RInv sh e y ->
  pend sh c p = pend sh c (phase_of y c) ->
  (fails e c = true -> p = BAbsent \/ p = BInit \/ p = BFailed) ->
  (p = BFailed -> fails e c = true) ->
  RInv sh e (set_phase y c p).
Proof.
  intros [I1 I2 I3 I4 I5] Hp Hf Hn. destruct (set_phase_fields y c p) as (E1 & E2 & E3).
  constructor.
  - fold (cnt sh (set_phase y c p)). fold (cnt sh y) in I1. pose proof (cnt_set sh y c p). rewrite E1. lia.
  - intros c0 F0. destruct (comp_eq_dec c0 c) as [->|N].
    + rewrite phase_set_same. auto.
    + rewrite phase_set_other by auto. auto.
  - intros c0 H. destruct (comp_eq_dec c0 c) as [->|N].
    + rewrite phase_set_same in H. auto.
    + rewrite phase_set_other in H by auto. auto.
  - rewrite E1, E2. exact I4.
  - rewrite E3. exact I5.
Qed.

Lemma rinv_step sh e y a y' : RInv sh e y -> astep sh e y a = Some y' -> RInv sh e y'.
Proof.
  intros I E. destruct a; cbn [astep] in E.
  - (* bind *)
    destruct (phase_of y c) eqn:P; try discriminate. inversion E; subst y'; clear E.
    apply rinv_set; auto.
    + rewrite P. destruct (fails e c); reflexivity.
    + intros F. rewrite F. auto.
    + destruct (fails e c); [reflexivity|discriminate].
  - (* ready call: the phase changes and the counter drops together *)
    destruct (phase_of y c) eqn:P; try discriminate. inversion E; subst y'; clear E.
    destruct I as [I1 I2 I3 I4 I5]. destruct (set_phase_fields y c BReady) as (E1 & E2 & E3).
    constructor; cbn [a_ready p_web p_smtp p_pop3 a_readycalled a_notified phase_of].
    + fold (cnt sh (set_phase y c BReady)). fold (cnt sh y) in I1. pose proof (cnt_set sh y c BReady) as CS.
      rewrite P in CS. cbn [pend] in CS. lia.
    + intros c0 F0. change (phase_of (set_phase y c BReady) c0 = BAbsent \/ phase_of (set_phase y c BReady) c0 = BInit \/
                            phase_of (set_phase y c BReady) c0 = BFailed).
      destruct (comp_eq_dec c0 c) as [->|N].
      * specialize (I2 _ F0). rewrite P in I2. destruct I2 as [X|[X|X]]; discriminate.
      * rewrite phase_set_other by auto. auto.
    + intros c0. change (phase_of (set_phase y c BReady) c0 = BFailed -> fails e c0 = true).
      destruct (comp_eq_dec c0 c) as [->|N].
      * rewrite phase_set_same. discriminate.
      * rewrite phase_set_other by auto. auto.
    + intros H. specialize (I4 H). lia.
    + exact I5.
  - destruct (sh_waiter sh && Nat.eqb (a_ready y) 0 && negb (a_readycalled y)) eqn:G; [|discriminate].
    inversion E; subst y'; clear E. destruct I as [I1 I2 I3 I4 I5]. constructor; cbn; auto.
    intros _. apply Bool.andb_true_iff in G. destruct G as [G _]. apply Bool.andb_true_iff in G. destruct G as [_ G].
    apply Nat.eqb_eq in G. exact G.
  - destruct (phase_of y c) eqn:P; try discriminate. destruct (a_notified y); [discriminate|].
    inversion E; subst y'; clear E. destruct I as [I1 I2 I3 I4 I5]. constructor; cbn; auto.
    intros c0 H. inversion H; subst. apply I3. exact P.
  - destruct (a_cancel y); [discriminate|]. inversion E; subst y'. destruct I. constructor; cbn; auto.
  - destruct (phase_of y c) eqn:P; try discriminate. destruct (a_cancel y); [|discriminate].
    inversion E; subst y'; clear E. apply rinv_set; auto.
    + rewrite P. reflexivity.
    + intros F. destruct I as [_ I2 _ _ _]. specialize (I2 _ F). rewrite P in I2. destruct I2 as [X|[X|X]]; discriminate.
    + discriminate.
  - destruct (a_cancel y && sh_hub sh); [|discriminate]. inversion E; subst y'. destruct I. constructor; cbn; auto.
  - destruct (a_ret y); [|discriminate]. inversion E; subst y'. destruct I. constructor; cbn; auto.
  - destruct (a_cancel y); [|discriminate]. destruct (a_todo y) as [|w t]; [discriminate|].
    destruct (wait_ok y w); [|discriminate]. inversion E; subst y'. destruct I. constructor; cbn; auto.
Qed.

Lemma rinv_run sh e acts : forall y y', RInv sh e y -> arun sh e y acts = Some y' -> RInv sh e y'.
Proof.
  induction acts as [|a t IH]; intros y y' I R; cbn [arun] in R.
  - inversion R; subst; auto.
  - destruct (astep sh e y a) eqn:E; [|discriminate]. eapply IH; [|exact R]. eapply rinv_step; eauto.
Qed.

(** A component that is started never becomes absent. *)
Lemma started_set y c0 p c : p <> BAbsent -> phase_of y c <> BAbsent -> phase_of (set_phase y c0 p) c <> BAbsent.
Proof.
  intros Hp H. destruct (comp_eq_dec c c0) as [->|N].
  - rewrite phase_set_same. exact Hp.
  - rewrite phase_set_other by auto. exact H.
Qed.

Lemma started_step sh e y a y' c : astep sh e y a = Some y' -> phase_of y c <> BAbsent -> phase_of y' c <> BAbsent.
Proof.
  intros E H. destruct a; cbn [astep] in E.
  - destruct (phase_of y c0) eqn:P; try discriminate. inversion E; subst. apply started_set; auto.
    destruct (fails e c0); discriminate.
  - destruct (phase_of y c0) eqn:P; try discriminate. inversion E; subst.
    change (phase_of (set_phase y c0 BReady) c <> BAbsent). apply started_set; auto. discriminate.
  - destruct (sh_waiter sh && Nat.eqb (a_ready y) 0 && negb (a_readycalled y)); [|discriminate]. inversion E; subst. destruct c; exact H.
  - destruct (phase_of y c0); try discriminate. destruct (a_notified y); [discriminate|]. inversion E; subst. destruct c; exact H.
  - destruct (a_cancel y); [discriminate|]. inversion E; subst. destruct c; exact H.
  - destruct (phase_of y c0) eqn:P; try discriminate. destruct (a_cancel y); [|discriminate]. inversion E; subst.
    apply started_set; auto. discriminate.
  - destruct (a_cancel y && sh_hub sh); [|discriminate]. inversion E; subst. destruct c; exact H.
  - destruct (a_ret y); [|discriminate]. inversion E; subst. destruct c; exact H.
  - destruct (a_cancel y); [|discriminate]. destruct (a_todo y) as [|w t]; [discriminate|].
    destruct (wait_ok y w); [|discriminate]. inversion E; subst. destruct c; exact H.
Qed.

Lemma started_run sh e acts c : forall y y', arun sh e y acts = Some y' -> phase_of y c <> BAbsent -> phase_of y' c <> BAbsent.
Proof.
  induction acts as [|a t IH]; intros y y' R H; cbn [arun] in R.
  - inversion R; subst; auto.
  - destruct (astep sh e y a) eqn:E; [|discriminate]. eapply IH; eauto. eapply started_step; eauto.
Qed.

(** Only-if: in no schedule is readyFunc called while a started, readiness-tracked listener
    failed (or may still fail) to bind. *)
Theorem ready_only_if_all_bound_gen :
  forall sh e ren acts y c,
    arun sh e (asm_init sh ren) acts = Some y -> a_readycalled y = true ->
    phase_of (asm_init sh ren) c <> BAbsent -> tracked sh c = true -> fails e c = false.
Proof.
  intros sh e ren acts y c R RC ST TR.
  pose proof (rinv_run sh e acts _ _ (rinv_init sh e ren) R) as [I1 I2 I3 I4 I5].
  pose proof (started_run sh e acts c _ _ R ST) as NA.
  specialize (I4 RC). rewrite I4 in I1.
  destruct (fails e c) eqn:F; auto. exfalso.
  destruct (I2 c F) as [X|[X|X]]; [congruence| |];
    destruct c; cbn in X; rewrite X in I1; cbn in I1; cbn in TR; rewrite TR in I1; cbn in I1; lia.
Qed.

Theorem ready_iff_all_bound :
  forall e ren,
    (exists acts y, arun pinned_shape e (asm_init pinned_shape ren) acts = Some y /\ a_readycalled y = true)
    <-> (f_web e = false /\ f_smtp e = false /\ f_pop3 e = false).
Proof.
  intros e ren. split.
  - intros (acts & y & R & RC). repeat split.
    + apply (ready_only_if_all_bound_gen pinned_shape e ren acts y CWeb R RC); [discriminate|reflexivity].
    + apply (ready_only_if_all_bound_gen pinned_shape e ren acts y CSmtp R RC); [discriminate|reflexivity].
    + apply (ready_only_if_all_bound_gen pinned_shape e ren acts y CPop3 R RC); [discriminate|reflexivity].
  - intros (A & B & C). destruct e as [fw fs fp]. cbn in A, B, C. subst.
    destruct ren;
      (exists [XBind CWeb; XBind CSmtp; XBind CPop3; XReadyCall CWeb; XReadyCall CSmtp; XReadyCall CPop3; XReadyWait];
       eexists; split; vm_compute; reflexivity).
Qed.

(** The combined Notify channel carries an error iff some listener failed to bind. *)
Theorem notified_iff_some_failed :
  forall e ren,
    (exists acts y, arun pinned_shape e (asm_init pinned_shape ren) acts = Some y /\ a_notified y <> None)
    <-> (f_web e = true \/ f_smtp e = true \/ f_pop3 e = true).
Proof.
  intros e ren. split.
  - intros (acts & y & R & N).
    pose proof (rinv_run pinned_shape e acts _ _ (rinv_init pinned_shape e ren) R) as [_ _ _ _ I5].
    destruct (a_notified y) as [c|] eqn:E; [|congruence]. specialize (I5 c eq_refl).
    destruct c; cbn in I5; auto.
  - intros H. destruct e as [[] [] []]; cbn in H; try (destruct H as [H|[H|H]]; discriminate).
    all: destruct ren;
         first [ exists [XBind CWeb; XFwd CWeb]; eexists; split; [vm_compute; reflexivity|vm_compute; discriminate]
               | exists [XBind CSmtp; XFwd CSmtp]; eexists; split; [vm_compute; reflexivity|vm_compute; discriminate]
               | exists [XBind CPop3; XFwd CPop3]; eexists; split; [vm_compute; reflexivity|vm_compute; discriminate] ].
Qed.

(** * No listener is left open *)

(** A listener's Start that has bound its port and not yet closed it. *)
Definition listening (p : bphase) : bool := match p with BBound | BReady => true | _ => false end.

(** From every reachable state — in particular when shutdown is requested before or during start-up
    (context already cancelled when Start runs, or cancelled at once after another listener failed to
    bind) — once the context is cancelled, letting each server's Start run to its end leaves NO port
    bound: every listener is closed, or never bound. As coded a Start that finds the context already
    cancelled still binds, reports ready and then closes its listener at once; a Start that returned
    between the bind and that close would leave the port listening for the rest of the process. *)
Theorem no_listener_left_open :
  forall e ren acts y,
    arun pinned_shape e (asm_init pinned_shape ren) acts = Some y -> a_cancel y = true ->
    exists y', arun pinned_shape e y (rest_acts e y CWeb ++ rest_acts e y CSmtp ++ rest_acts e y CPop3) = Some y' /\
               listening (p_web y') = false /\ listening (p_smtp y') = false /\ listening (p_pop3 y') = false /\
               p_web y' <> BInit /\ p_smtp y' <> BInit /\ p_pop3 y' <> BInit.
Proof.
  intros e ren acts y R C.
  assert (ST : forall c, phase_of y c <> BAbsent).
  { intros c. eapply started_run; [exact R|]. destruct c; cbn; discriminate. }
  (* one listener at a time; the others' phases, hence their rest_acts, are untouched *)
  assert (ONE : forall y0 c, a_cancel y0 = true -> phase_of y0 c <> BAbsent ->
            exists y1, arun pinned_shape e y0 (rest_acts e y0 c) = Some y1 /\ listening (phase_of y1 c) = false /\
                       phase_of y1 c <> BInit /\ (forall c0, c0 <> c -> phase_of y1 c0 = phase_of y0 c0) /\ a_cancel y1 = true).
  { intros y0 c C0 NA. unfold rest_acts.
    destruct c; cbn [phase_of] in *;
      [destruct (p_web y0) eqn:P | destruct (p_smtp y0) eqn:P | destruct (p_pop3 y0) eqn:P]; try congruence;
      try (destruct (fails e _) eqn:F);
      cbn [arun astep phase_of set_phase p_web p_smtp p_pop3 a_cancel]; rewrite ?P, ?F, ?C0;
      cbn [arun astep phase_of set_phase p_web p_smtp p_pop3 a_cancel]; rewrite ?C0;
      cbn [arun astep phase_of set_phase p_web p_smtp p_pop3 a_cancel];
      eexists; (split; [reflexivity|]); cbn [phase_of p_web p_smtp p_pop3 a_cancel listening];
      rewrite ?P; repeat split; auto; try discriminate; intros c0 N; destruct c0; cbn; congruence. }
  destruct (ONE y CWeb C (ST CWeb)) as (y1 & R1 & L1 & I1 & O1 & C1).
  assert (RA2 : rest_acts e y1 CSmtp = rest_acts e y CSmtp) by (unfold rest_acts; rewrite (O1 CSmtp) by discriminate; reflexivity).
  assert (ST1 : phase_of y1 CSmtp <> BAbsent) by (rewrite (O1 CSmtp) by discriminate; apply ST).
  destruct (ONE y1 CSmtp C1 ST1) as (y2 & R2 & L2 & I2 & O2 & C2).
  assert (RA3 : rest_acts e y2 CPop3 = rest_acts e y CPop3).
  { unfold rest_acts. rewrite (O2 CPop3), (O1 CPop3) by discriminate. reflexivity. }
  assert (ST2 : phase_of y2 CPop3 <> BAbsent) by (rewrite (O2 CPop3), (O1 CPop3) by discriminate; apply ST).
  destruct (ONE y2 CPop3 C2 ST2) as (y3 & R3 & L3 & I3 & O3 & C3).
  exists y3. split.
  - rewrite arun_app, R1, arun_app, <- RA2, R2, <- RA3. exact R3.
  - assert (W : phase_of y3 CWeb = phase_of y1 CWeb).
    { rewrite (O3 CWeb) by discriminate. apply (O2 CWeb). discriminate. }
    assert (Sm : phase_of y3 CSmtp = phase_of y2 CSmtp) by (apply (O3 CSmtp); discriminate).
    rewrite <- W in L1, I1. rewrite <- Sm in L2, I2. cbn [phase_of] in *. repeat split; auto.
Qed.

(** C14: the JSON answers against the source, read by the translator on every run
    (coq/Gen/RestJson.v): the json name of every field of the answer structs
    (pkg/rest/model/apiv1_model.go, pkg/webui/mailbox_json.go), the Go expression each handler puts
    into each field, the structs the Go client decodes into, and per handler its 404s, content
    types and JSON renderings. [model_*] below is what the rendering model of [Model/Rest.v]
    (jheader / jmessage / juimessage) says: JSON name ↦ the datum it carries. Joining the struct
    tags of the source with the handlers' field assignments gives exactly these tables; a field
    renamed, dropped, added, reordered or filled from another expression makes this file fail. *)
From IV Require Import Base.Bytes Base.BytesFacts Model.StoreSpec Model.Rest Gen.RestJson.
Open Scope N_scope.

(** What a field of an answer carries. *)
Inductive fsrc :=
| FName       (* the mailbox name the handler resolved (MailboxForAddress) *)
| FId | FFrom | FTo | FSubject | FDate | FMillis | FSize | FSeen      (* the stored message's metadata *)
| FHeaderMap | FBody | FText | FHtml                                   (* its parsed content *)
| FTextToHtml | FSanitized | FAtts | FErrors                           (* web UI: converted text, sanitised html, parts, MIME errors *)
| FPartFile | FPartCtype | FLink | FMd5 | FIndex                       (* one attachment *)
| FErrName | FErrDetail | FErrSevere.

(** Meaning of the Go expressions that appear on the right-hand sides of the handlers' literals. *)
Definition expr_meaning (e : str) : option fsrc :=
  if str_eqb e [110; 97; 109; 101] then Some FName else
  if str_eqb e [109; 115; 103; 46; 73; 68] then Some FId else
  if str_eqb e [115; 116; 114; 105; 110; 103; 117; 116; 105; 108; 46; 83; 116; 114; 105; 110; 103; 65; 100; 100; 114; 101; 115; 115; 40; 109; 115; 103; 46; 70; 114; 111; 109; 41] then Some FFrom else
  if str_eqb e [115; 116; 114; 105; 110; 103; 117; 116; 105; 108; 46; 83; 116; 114; 105; 110; 103; 65; 100; 100; 114; 101; 115; 115; 76; 105; 115; 116; 40; 109; 115; 103; 46; 84; 111; 41] then Some FTo else
  if str_eqb e [109; 115; 103; 46; 83; 117; 98; 106; 101; 99; 116] then Some FSubject else
  if str_eqb e [109; 115; 103; 46; 68; 97; 116; 101] then Some FDate else
  if str_eqb e [109; 115; 103; 46; 68; 97; 116; 101; 46; 85; 110; 105; 120; 78; 97; 110; 111; 40; 41; 32; 47; 32; 49; 48; 48; 48; 48; 48; 48] then Some FMillis else
  if str_eqb e [109; 115; 103; 46; 83; 105; 122; 101] then Some FSize else
  if str_eqb e [109; 115; 103; 46; 83; 101; 101; 110] then Some FSeen else
  if str_eqb e [109; 115; 103; 46; 72; 101; 97; 100; 101; 114; 40; 41] then Some FHeaderMap else
  if str_eqb e [38; 109; 111; 100; 101; 108; 46; 74; 83; 79; 78; 77; 101; 115; 115; 97; 103; 101; 66; 111; 100; 121; 86; 49; 123; 32; 84; 101; 120; 116; 58; 32; 109; 115; 103; 46; 84; 101; 120; 116; 40; 41; 44; 32; 72; 84; 77; 76; 58; 32; 109; 115; 103; 46; 72; 84; 77; 76; 40; 41; 44; 32; 125] then Some FBody else
  if str_eqb e [97; 116; 116; 97; 99; 104; 109; 101; 110; 116; 115] then Some FAtts else
  if str_eqb e [109; 115; 103; 46; 84; 101; 120; 116; 40; 41] then Some FText else
  if str_eqb e [109; 115; 103; 46; 72; 84; 77; 76; 40; 41] then Some FHtml else
  if str_eqb e [119; 101; 98; 46; 84; 101; 120; 116; 84; 111; 72; 84; 77; 76; 40; 109; 115; 103; 46; 84; 101; 120; 116; 40; 41; 41] then Some FTextToHtml else
  if str_eqb e [104; 116; 109; 108; 66; 111; 100; 121] then Some FSanitized else
  if str_eqb e [109; 105; 109; 101; 69; 114; 114; 111; 114; 115] then Some FErrors else
  if str_eqb e [112; 97; 114; 116; 46; 67; 111; 110; 116; 101; 110; 116; 84; 121; 112; 101] then Some FPartCtype else
  if str_eqb e [112; 97; 114; 116; 46; 70; 105; 108; 101; 78; 97; 109; 101] then Some FPartFile else
  if str_eqb e [108; 105; 110; 107] then Some FLink else
  if str_eqb e [104; 101; 120; 46; 69; 110; 99; 111; 100; 101; 84; 111; 83; 116; 114; 105; 110; 103; 40; 99; 104; 101; 99; 107; 115; 117; 109; 91; 58; 93; 41] then Some FMd5 else
  if str_eqb e [115; 116; 114; 99; 111; 110; 118; 46; 73; 116; 111; 97; 40; 105; 41] then Some FIndex else
  if str_eqb e [101; 46; 78; 97; 109; 101] then Some FErrName else
  if str_eqb e [101; 46; 68; 101; 116; 97; 105; 108] then Some FErrDetail else
  if str_eqb e [101; 46; 83; 101; 118; 101; 114; 101] then Some FErrSevere else
  None.

Fixpoint lookup (k : str) (l : list (str * str)) : option str :=
  match l with [] => None | (a, b) :: r => if str_eqb k a then Some b else lookup k r end.

(** Join the struct tags (Go field, json name) with a handler's literal (Go field, expression):
    json name ↦ meaning of the expression, in the order of the struct (= the order of the JSON object). *)
Fixpoint join_tags (tags fill : list (str * str)) : option (list (str * fsrc)) :=
  match tags with
  | [] => Some []
  | (field, json) :: r =>
      match lookup field fill with
      | Some e => match expr_meaning e, join_tags r fill with
                  | Some s, Some l => Some ((json, s) :: l)
                  | _, _ => None
                  end
      | None => None
      end
  end.

Definition model_header : list (str * fsrc) :=
  [([109; 97; 105; 108; 98; 111; 120], FName);
   ([105; 100], FId);
   ([102; 114; 111; 109], FFrom);
   ([116; 111], FTo);
   ([115; 117; 98; 106; 101; 99; 116], FSubject);
   ([100; 97; 116; 101], FDate);
   ([112; 111; 115; 105; 120; 45; 109; 105; 108; 108; 105; 115], FMillis);
   ([115; 105; 122; 101], FSize);
   ([115; 101; 101; 110], FSeen)].
Definition model_message : list (str * fsrc) :=
  [([109; 97; 105; 108; 98; 111; 120], FName);
   ([105; 100], FId);
   ([102; 114; 111; 109], FFrom);
   ([116; 111], FTo);
   ([115; 117; 98; 106; 101; 99; 116], FSubject);
   ([100; 97; 116; 101], FDate);
   ([112; 111; 115; 105; 120; 45; 109; 105; 108; 108; 105; 115], FMillis);
   ([115; 105; 122; 101], FSize);
   ([115; 101; 101; 110], FSeen);
   ([98; 111; 100; 121], FBody);
   ([104; 101; 97; 100; 101; 114], FHeaderMap);
   ([97; 116; 116; 97; 99; 104; 109; 101; 110; 116; 115], FAtts)].
Definition model_body : list (str * fsrc) :=
  [([116; 101; 120; 116], FText);
   ([104; 116; 109; 108], FHtml)].
Definition model_attachment : list (str * fsrc) :=
  [([102; 105; 108; 101; 110; 97; 109; 101], FPartFile);
   ([99; 111; 110; 116; 101; 110; 116; 45; 116; 121; 112; 101], FPartCtype);
   ([100; 111; 119; 110; 108; 111; 97; 100; 45; 108; 105; 110; 107], FLink);
   ([118; 105; 101; 119; 45; 108; 105; 110; 107], FLink);
   ([109; 100; 53], FMd5)].
Definition model_ui_message : list (str * fsrc) :=
  [([109; 97; 105; 108; 98; 111; 120], FName);
   ([105; 100], FId);
   ([102; 114; 111; 109], FFrom);
   ([116; 111], FTo);
   ([115; 117; 98; 106; 101; 99; 116], FSubject);
   ([100; 97; 116; 101], FDate);
   ([112; 111; 115; 105; 120; 45; 109; 105; 108; 108; 105; 115], FMillis);
   ([115; 105; 122; 101], FSize);
   ([115; 101; 101; 110], FSeen);
   ([104; 101; 97; 100; 101; 114], FHeaderMap);
   ([116; 101; 120; 116], FTextToHtml);
   ([104; 116; 109; 108], FSanitized);
   ([97; 116; 116; 97; 99; 104; 109; 101; 110; 116; 115], FAtts);
   ([101; 114; 114; 111; 114; 115], FErrors)].
Definition model_ui_attachment : list (str * fsrc) :=
  [([105; 100], FIndex);
   ([102; 105; 108; 101; 110; 97; 109; 101], FPartFile);
   ([99; 111; 110; 116; 101; 110; 116; 45; 116; 121; 112; 101], FPartCtype)].
Definition model_ui_error : list (str * fsrc) :=
  [([110; 97; 109; 101], FErrName);
   ([100; 101; 116; 97; 105; 108], FErrDetail);
   ([115; 101; 118; 101; 114; 101], FErrSevere)].

(** The answer structs and the handlers' assignments of the source give exactly the model's tables. *)
Lemma json_tables_pinned :
  join_tags tags_header_v1 fill_list_header = Some model_header /\
  join_tags tags_message_v1 fill_show_message = Some model_message /\
  join_tags tags_body_v1 fill_show_body = Some model_body /\
  join_tags tags_attachment_v1 fill_show_attachment = Some model_attachment /\
  join_tags tags_ui_message fill_ui_message = Some model_ui_message /\
  join_tags tags_ui_attachment fill_ui_attachment = Some model_ui_attachment /\
  join_tags tags_ui_error fill_ui_error = Some model_ui_error.
Proof. repeat split; reflexivity. Qed.

(** The nine header fields are the same — same names, same data, same order — in a list entry,
    in the v1 message and in the web-UI message. *)
Lemma header_shared : firstn 9 model_message = model_header /\ firstn 9 model_ui_message = model_header.
Proof. split; reflexivity. Qed.

(** The Go client decodes into the very structs the server encodes. *)
Lemma client_decodes_server_structs :
  map fst tags_client_header = [[42; 109; 111; 100; 101; 108; 46; 74; 83; 79; 78; 77; 101; 115; 115; 97; 103; 101; 72; 101; 97; 100; 101; 114; 86; 49]; [99; 108; 105; 101; 110; 116]] /\ map fst tags_client_message = [[42; 109; 111; 100; 101; 108; 46; 74; 83; 79; 78; 77; 101; 115; 115; 97; 103; 101; 86; 49]; [99; 108; 105; 101; 110; 116]].
Proof. split; reflexivity. Qed.

(** What each JSON name of a header carries, in terms of the rendering model's record. *)
Inductive jv := VS (s : str) | VK (k : nat) | VT (tag : N) | VZ (z : Z) | VN (n : N) | VB (b : bool).

Definition header_value (h : jheader) (s : fsrc) : option jv :=
  match s with
  | FName => Some (VS (jh_mailbox h)) | FId => Some (VK (jh_id h))
  | FFrom => Some (VT (jh_from h)) | FTo => Some (VT (jh_to h)) | FSubject => Some (VT (jh_subject h))
  | FDate => Some (VZ (jh_date h)) | FMillis => Some (VZ (jh_millis h))
  | FSize => Some (VN (jh_size h)) | FSeen => Some (VB (jh_seen h))
  | _ => None
  end.

Definition header_object (h : jheader) : list (str * option jv) :=
  map (fun p => (fst p, header_value h (snd p))) model_header.

(** The JSON object of a header, name by name, for the header of a stored message: every name
    of the source's struct carries the model record's field of that meaning, which is the
    store's datum ([Proofs/RestJson.v header_fields]). *)
Lemma header_object_of mb v :
  header_object (jheader_of mb v) =
  [([109; 97; 105; 108; 98; 111; 120], Some (VS mb)); ([105; 100], Some (VK (fst v))); ([102; 114; 111; 109], Some (VT (m_tag (snd v)))); ([116; 111], Some (VT (m_tag (snd v))));
   ([115; 117; 98; 106; 101; 99; 116], Some (VT (m_tag (snd v)))); ([100; 97; 116; 101], Some (VZ (m_date (snd v)))); ([112; 111; 115; 105; 120; 45; 109; 105; 108; 108; 105; 115], Some (VZ (m_date (snd v))));
   ([115; 105; 122; 101], Some (VN (m_size (snd v)))); ([115; 101; 101; 110], Some (VB (m_seen (snd v))))].
Proof. reflexivity. Qed.

(** Status codes and content types, per handler, in source order: "404" = http.NotFound,
    "json" = web.RenderJSON (200, application/json), "ct:" = the Content-Type of a plain answer. *)
Lemma answers_pinned :
  ans_list = [[106; 115; 111; 110]] /\
  ans_show = [[52; 48; 52]; [106; 115; 111; 110]] /\
  ans_seen = [[52; 48; 52]; [106; 115; 111; 110]] /\
  ans_purge = [[106; 115; 111; 110]] /\
  ans_source = [[52; 48; 52]; [99; 116; 58; 116; 101; 120; 116; 47; 112; 108; 97; 105; 110]] /\
  ans_delete = [[52; 48; 52]; [106; 115; 111; 110]] /\
  ans_ui_message = [[52; 48; 52]; [106; 115; 111; 110]] /\
  ans_ui_html = [[52; 48; 52]; [99; 116; 58; 116; 101; 120; 116; 47; 104; 116; 109; 108; 59; 32; 99; 104; 97; 114; 115; 101; 116; 61; 85; 84; 70; 45; 56]] /\
  ans_ui_source = [[52; 48; 52]; [99; 116; 58; 116; 101; 120; 116; 47; 112; 108; 97; 105; 110]] /\
  ans_ui_attach = [[52; 48; 52]; [99; 116; 58; 61; 112; 97; 114; 116; 46; 67; 111; 110; 116; 101; 110; 116; 84; 121; 112; 101]] /\
  ans_render_json = [[99; 116; 58; 97; 112; 112; 108; 105; 99; 97; 116; 105; 111; 110; 47; 106; 115; 111; 110; 59; 32; 99; 104; 97; 114; 115; 101; 116; 61; 117; 116; 102; 45; 56]] /\
  handler_error_status = [[104; 116; 116; 112; 46; 83; 116; 97; 116; 117; 115; 73; 110; 116; 101; 114; 110; 97; 108; 83; 101; 114; 118; 101; 114; 69; 114; 114; 111; 114]; [104; 116; 116; 112; 46; 83; 116; 97; 116; 117; 115; 73; 110; 116; 101; 114; 110; 97; 108; 83; 101; 114; 118; 101; 114; 69; 114; 114; 111; 114]].
Proof. repeat split; reflexivity. Qed.

(** …which is what the handler model answers: a handler that can answer 404 in the source is one
    whose model function has a 404 case, a handler with a "json" / "ct:" answer is one whose model
    function has a 200 case with that payload kind, and a handler error is a 500. *)
Lemma model_statuses :
  (forall mb rid, fst (h_show mb rid (None, ENotExist)) = S404 /\ fst (h_show mb rid (None, EOther)) = S500) /\
  (forall mb, fst (h_uimsg mb (None, ENotExist)) = S404) /\
  fst (h_src (None, ENotExist)) = S404 /\ fst (h_uihtml (None, ENotExist)) = S404 /\
  fst (h_uisrc (None, ENotExist)) = S404 /\ (forall n, fst (h_uiatt n (None, ENotExist)) = S404) /\
  h_unit ENotExist = (S404, PNone) /\ h_unit ENil = (S200, POk) /\ h_unit EOther = (S500, PNone) /\
  h_purge ENil = (S200, POk) /\ h_purge ENotExist = (S500, PNone).
Proof. repeat split. Qed.

(** The C14 driver decodes the answers by json name (go/cmd/c14/main.go, structs jhdr and jatt):
    every name it reads is a name the source's structs write — so a renamed field cannot
    silently turn into a zero value on the driver's side. *)
Definition source_names : list str :=
  map snd tags_message_v1 ++ map snd tags_ui_message ++ map snd tags_body_v1.
Definition source_att_names : list str := map snd tags_attachment_v1 ++ map snd tags_ui_attachment.

Lemma driver_reads_source_names :
  forallb (fun p => mem_str (snd p) source_names) driver_tags_message = true /\
  forallb (fun p => mem_str (snd p) source_att_names) driver_tags_attachment = true /\
  driver_tags_message <> [] /\ driver_tags_attachment <> [].
Proof. repeat split; try reflexivity; discriminate. Qed.

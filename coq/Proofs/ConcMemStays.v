(** C09 — memory store, no cap, no size limit: a delivery that committed with an id is in its mailbox
    at the end unless a removal of that id or a purge of that mailbox committed after it.
    Sequential fact about [seq_run], transported to every interleaving by linearizability. *)
From IV Require Import Model.Conc Model.ConcMem Proofs.ConcBase Proofs.ConcMemInv Proofs.ConcStmts Proofs.ConcMemLin Proofs.ConcMemLinEnf.
From Coq Require Import Lia ZifyN ZifyNat ZifyBool.

Lemma seq_run_app touch cap s l1 l2 :
  seq_run touch cap s (l1 ++ l2) =
  (fst (seq_run touch cap (fst (seq_run touch cap s l1)) l2),
   snd (seq_run touch cap s l1) ++ snd (seq_run touch cap (fst (seq_run touch cap s l1)) l2)).
Proof.
  revert s; induction l1 as [|a l1 IH]; intros s; cbn [app seq_run fst snd].
  - destruct (seq_run touch cap s l2); reflexivity.
  - destruct (seq_exec touch cap s a) as [s1 r]. rewrite IH.
    destruct (seq_run touch cap s1 l1) as [s2 rs]. cbn [fst snd app]. reflexivity.
Qed.

Lemma seq_run_length touch cap s l : length (snd (seq_run touch cap s l)) = length l.
Proof.
  revert s; induction l as [|a l IH]; intros s; cbn [seq_run]; [reflexivity|].
  destruct (seq_exec touch cap s a) as [s1 r]. specialize (IH s1).
  destruct (seq_run touch cap s1 l). cbn [snd length] in *. lia.
Qed.

Lemma app_eq_len {A} (a b c d : list A) : length a = length c -> a ++ b = c ++ d -> b = d.
Proof.
  revert c; induction a as [|x a IH]; intros [|y c] Hl H; cbn in *; try discriminate.
  - exact H.
  - inversion H; subst. eapply IH; [|eassumption]. congruence.
Qed.

Definition has (id : N) (b : box) : Prop := find_msg id (b_msgs b) <> None.

Lemma find_app id l1 l2 : find_msg id (l1 ++ l2) = match find_msg id l1 with Some m => Some m | None => find_msg id l2 end.
Proof. induction l1 as [|x l IH]; cbn; [reflexivity|]. destruct (m_id x =? id); [reflexivity | exact IH]. Qed.

Lemma find_mark id id' l : find_msg id (mark_seen id' l) <> None <-> find_msg id l <> None.
Proof.
  induction l as [|x l IH]; cbn; [tauto|].
  destruct (m_id x =? id') eqn:E; cbn.
  - destruct (m_id x =? id); [split; intros; discriminate | tauto].
  - destruct (m_id x =? id); [tauto | exact IH].
Qed.

Lemma find_del id id' l : id' <> id -> find_msg id l <> None -> find_msg id (del_msg id' l) <> None.
Proof.
  intros Hne. induction l as [|x l IH]; cbn; [tauto|].
  destruct (m_id x =? id') eqn:E; cbn.
  - destruct (m_id x =? id) eqn:E2; [|tauto].
    apply N.eqb_eq in E, E2. congruence.
  - destruct (m_id x =? id); [congruence | exact IH].
Qed.

Definition harmless (mb id : N) (o : op) : Prop :=
  match o with ORemove mb' id' => mb' <> mb \/ id' <> id | OPurge mb' => mb' <> mb | _ => True end.

Lemma seq_exec_keeps mb id s o : harmless mb id o -> has id (sget mb s) -> has id (sget mb (fst (seq_exec true 0 s o))).
Proof.
  intros Hh Hin. unfold seq_exec.
  destruct o as [mb' tag size|mb' i|mb'|mb'|mb' i|mb' i|mb'|]; cbn [fst harmless] in *.
  - unfold box_insert, box_cap. cbn [N.eqb fst snd].
    destruct (N.eq_dec mb mb') as [->|Hne]; [rewrite sget_aset_same | rewrite sget_aset_other by assumption; exact Hin].
    unfold has in *. cbn [b_msgs]. rewrite find_app. destruct (find_msg id (b_msgs (sget mb' s))); congruence.
  - now rewrite sget_rd.
  - now rewrite sget_rd.
  - now rewrite sget_rd.
  - unfold box_seen. destruct (find_msg i (b_msgs (sget mb' s))) eqn:E; cbn [fst]; [|now rewrite sget_rd].
    destruct (N.eq_dec mb mb') as [->|Hne]; [rewrite sget_aset_same | rewrite sget_aset_other by assumption; exact Hin].
    unfold has in *. cbn [b_msgs]. now apply find_mark.
  - unfold box_remove. destruct (find_msg i (b_msgs (sget mb' s))) eqn:E; cbn [fst]; [|now rewrite sget_rd].
    destruct (N.eq_dec mb mb') as [->|Hne]; [rewrite sget_aset_same | rewrite sget_aset_other by assumption; exact Hin].
    unfold has in *. cbn [b_msgs]. apply find_del; [|exact Hin]. destruct Hh; congruence.
  - rewrite sget_aset_other by congruence. exact Hin.
  - exact Hin.
Qed.

Lemma seq_run_keeps mb id l : forall s, Forall (harmless mb id) l -> has id (sget mb s) ->
  has id (sget mb (fst (seq_run true 0 s l))).
Proof.
  induction l as [|o l IH]; intros s Hf Hin; cbn [seq_run fst]; [exact Hin|].
  inversion Hf; subst.
  pose proof (seq_exec_keeps mb id s o H1 Hin) as Hk.
  destruct (seq_exec true 0 s o) as [s1 r]. cbn [fst] in Hk.
  specialize (IH s1 H2 Hk). destruct (seq_run true 0 s1 l). exact IH.
Qed.

Lemma add_result mb g z s : exists id, snd (seq_exec true 0 s (OAdd mb g z)) = RId id /\
  has id (sget mb (fst (seq_exec true 0 s (OAdd mb g z)))).
Proof.
  unfold seq_exec, box_insert, box_cap. cbn [N.eqb fst snd]. eexists; split; [reflexivity|].
  rewrite sget_aset_same. unfold has. cbn [b_msgs]. rewrite find_app.
  destruct (find_msg _ (b_msgs (sget mb s))); [congruence|]. cbn. rewrite N.eqb_refl. congruence.
Qed.

Theorem mem_delivered_stays_holds : mem_delivered_stays_unless_removed_stmt.
Proof.
  intros ops sched s pre post t mb g z id Hr Hlog Hpost Hlock.
  destruct (mem_linearizable_holds 0 ops sched s Hr) as (S1 & S2 & _).
  specialize (S2 mb Hlock). rewrite <- S2. clear S2.
  assert (Hm1 : map lop (s_log s) = map lop pre ++ OAdd mb g z :: map lop post)
    by (rewrite Hlog, map_app; reflexivity).
  assert (Hm2 : map lres (s_log s) = map lres pre ++ RId id :: map lres post)
    by (rewrite Hlog, map_app; reflexivity).
  rewrite Hm1 in *. rewrite Hm2 in S1. clear Hm1 Hm2 Hlog.
  rewrite seq_run_app in *. cbn [fst snd] in *.
  set (S0 := fst (seq_run true 0 [] (map lop pre))) in *.
  cbn [seq_run] in *.
  destruct (add_result mb g z S0) as (id' & Hid & Hhas).
  destruct (seq_exec true 0 S0 (OAdd mb g z)) as [Sa ra] eqn:Ea. cbn [fst snd] in *.
  assert (Hf : Forall (harmless mb id) (map lop post)).
  { apply Forall_forall. intros o Ho. apply in_map_iff in Ho. destruct Ho as (e & <- & He). exact (Hpost e He). }
  pose proof (seq_run_keeps mb id (map lop post) Sa Hf) as Hk.
  destruct (seq_run true 0 Sa (map lop post)) as [Sb rb] eqn:Eb. cbn [fst snd] in *.
  apply app_eq_len in S1; [|rewrite seq_run_length; now rewrite !map_length].
  assert (id' = id) by (inversion S1; congruence). subst id'.
  apply Hk. exact Hhas.
Qed.

(* ------------------------------------------------ every configuration: "unless removed or evicted" *)

(** With a cap, a later delivery to the same mailbox may evict; with a size limit the enforcer's evictions
    are removals committed by the enforcer, i.e. [ORemove] entries of the log. *)
Definition harmless_c (cap : N) (mb id : N) (o : op) : Prop :=
  match o with
  | ORemove mb' id' => mb' <> mb \/ id' <> id
  | OPurge mb' => mb' <> mb
  | OAdd mb' _ _ => cap = 0 \/ mb' <> mb
  | _ => True
  end.

Lemma seq_exec_keeps_c cap mb id s o : harmless_c cap mb id o -> has id (sget mb s) -> has id (sget mb (fst (seq_exec true cap s o))).
Proof.
  intros Hh Hin. unfold seq_exec.
  destruct o as [mb' tag size|mb' i|mb'|mb'|mb' i|mb' i|mb'|]; cbn [fst harmless_c] in *.
  - destruct (N.eq_dec mb mb') as [->|Hne].
    + destruct Hh as [->|Hh]; [|congruence]. unfold box_insert, box_cap. cbn [N.eqb fst snd]. rewrite sget_aset_same.
      unfold has in *. cbn [b_msgs]. rewrite find_app. destruct (find_msg id (b_msgs (sget mb' s))); congruence.
    + unfold box_insert. destruct (box_cap cap _) as [b2 ev]. cbn [fst]. rewrite sget_aset_other by assumption. exact Hin.
  - now rewrite sget_rd.
  - now rewrite sget_rd.
  - now rewrite sget_rd.
  - unfold box_seen. destruct (find_msg i (b_msgs (sget mb' s))) eqn:E; cbn [fst]; [|now rewrite sget_rd].
    destruct (N.eq_dec mb mb') as [->|Hne]; [rewrite sget_aset_same | rewrite sget_aset_other by assumption; exact Hin].
    unfold has in *. cbn [b_msgs]. now apply find_mark.
  - unfold box_remove. destruct (find_msg i (b_msgs (sget mb' s))) eqn:E; cbn [fst]; [|now rewrite sget_rd].
    destruct (N.eq_dec mb mb') as [->|Hne]; [rewrite sget_aset_same | rewrite sget_aset_other by assumption; exact Hin].
    unfold has in *. cbn [b_msgs]. apply find_del; [|exact Hin]. destruct Hh; congruence.
  - rewrite sget_aset_other by congruence. exact Hin.
  - exact Hin.
Qed.

Lemma seq_run_keeps_c cap mb id l : forall s, Forall (harmless_c cap mb id) l -> has id (sget mb s) ->
  has id (sget mb (fst (seq_run true cap s l))).
Proof.
  induction l as [|o l IH]; intros s Hf Hin; cbn [seq_run fst]; [exact Hin|].
  inversion Hf; subst.
  pose proof (seq_exec_keeps_c cap mb id s o H1 Hin) as Hk.
  destruct (seq_exec true cap s o) as [s1 r]. cbn [fst] in Hk.
  specialize (IH s1 H2 Hk). destruct (seq_run true cap s1 l). exact IH.
Qed.

(** Every cap, every size limit, every schedule: a message that is in its mailbox after some prefix of the commit
    order is still there at the end unless, after that prefix, a removal of that id committed (by a client or —
    size eviction — by the enforcer), its mailbox was purged, or (with a cap) another delivery to its mailbox
    committed. *)
Theorem mem_present_stays_unless_removed_or_evicted : forall cap max ops sched s pre post mb id,
  run (init_sys cap max [] enf0 ops) sched = Fin s ->
  s_log s = pre ++ post ->
  find_msg id (b_msgs (sget mb (fst (seq_run true cap [] (map lop pre))))) <> None ->
  (forall e, In e post -> harmless_c cap mb id (lop e)) ->
  x_lock (getx mb s) = None ->
  find_msg id (b_msgs (x_box (getx mb s))) <> None.
Proof.
  intros cap max ops sched s pre post mb id Hr Hlog Hpre Hpost Hlock.
  pose proof (ConcMemLinEnf.mem_linearizable_with_enforcer_holds cap max ops sched) as H. rewrite Hr in H.
  destruct H as [_ S2]. rewrite <- (S2 mb Hlock). rewrite Hlog, map_app, seq_run_app. cbn [fst].
  assert (Hf : Forall (harmless_c cap mb id) (map lop post)).
  { apply Forall_forall. intros o Ho. apply in_map_iff in Ho. destruct Ho as (e & <- & He). exact (Hpost e He). }
  exact (seq_run_keeps_c cap mb id (map lop post) _ Hf Hpre).
Qed.

(** C09 — memory store with the size limit: the linear-ownership invariant for tags (stage 2 of the quiescence
    statement, audit aud-store item 4).  For every tag g, in every reachable state:
      o1  the tag is in at most one registration phase: still to be delivered, delivered but not yet handed to the
          enforcer, being registered, in the book (at most once), or just popped for eviction;
      o2  it is in a mailbox, or carried as a removal notice that has not been consumed — at most once in all;
      o3  while still to be delivered it is nowhere else (not in a mailbox, no notice, el and removed unset);
      o4  if its el field is set, it is in the book, or it is neither in a mailbox nor announced any more;
      o5  if it is in the book its el field is set.
    Consequences proved here: the book has no tag twice, the "element no longer linked" branch of the notice
    handler is never taken, and curSize is EXACTLY the total of the book plus the message being evicted. *)
From IV Require Import Model.Conc Model.ConcMem Proofs.ConcBase Proofs.ConcMemInv Proofs.ConcMemCrash Proofs.ConcMemLinEnf Proofs.ConcMemTerm Proofs.ConcMemTags.
From Coq Require Import Lia ZifyN ZifyNat ZifyBool.
Local Open Scope nat_scope.

Record og (g : N) (s : msys) : Prop := {
  o1 : UB g s + PR g s + IN g (s_enf s) + BK g (s_enf s) + POP g (s_enf s) <= 1;
  o2 : LV g s + NT g s <= 1;
  o3 : UB g s = 1 -> LV g s = 0 /\ NT g s = 0 /\ tag_mem g (e_els (s_enf s)) = false /\ tag_mem g (e_rem (s_enf s)) = false;
  o4 : tag_mem g (e_els (s_enf s)) = true -> BK g (s_enf s) = 1 \/ (LV g s = 0 /\ NT g s = 0);
  o5 : 1 <= BK g (s_enf s) -> tag_mem g (e_els (s_enf s)) = true
}.

#[local] Hint Rewrite LV_touch LV_setpc LV_addlog LV_with_enf LV_take_done : sys.

Lemma b2n_le b : b2n b <= 1. Proof. destruct b; cbn; lia. Qed.

Lemma idle_enf g s : is_idle s = true -> IN g (s_enf s) = 0 /\ POP g (s_enf s) = 0 /\ ER g (s_enf s) = 0.
Proof. unfold is_idle, IN, POP, ER. destruct (e_pc (s_enf s)); try discriminate; auto. Qed.

Lemma og_thr g s t c s' : og g s -> step_thr s t c = SOk s' -> og g s'.
Proof.
  intros [H1 H2 H3 H4 H5] H. unfold step_thr in H.
  destruct (nth_error (s_thr s) t) as [p|] eqn:Ep; [|discriminate].
  destruct p; try discriminate.
  all: split_step H.
  all: inv_ok H.
  all: unfold UB, PR, NT, NTt in *.
  all: match goal with Ep : nth_error _ _ = Some _ |- context [setpc _ ?q _] =>
         pose proof (sumf_set_nth (ub g) _ _ _ q Ep) as Hu;
         pose proof (sumf_set_nth (pr g) _ _ _ q Ep) as Hp;
         pose proof (sumf_set_nth (nt g) _ _ _ q Ep) as Hn end.
  all: try match goal with |- context [setx ?mb ?x ?ss] => pose proof (LV_setx g mb x ss) as HL end.
  all: try match goal with H : is_idle _ = true |- _ => destruct (idle_enf g _ H) as (Hi1 & Hi2 & Hi3) end.
  all: try match goal with H : box_insert _ _ _ = _ |- _ => apply (box_insert_cnt g) in H end.
  all: try match goal with H : box_cap _ _ = _ |- _ => apply (box_cap_cnt g) in H end.
  all: try match goal with H : box_seen _ _ = _ |- _ => apply (box_seen_cnt g) in H end.
  all: try match goal with H : box_remove _ _ = (_, Some _) |- _ => apply (box_remove_cnt g) in H end.
  all: try match goal with H : box_purge _ = _ |- _ => unfold box_purge in H; inv_ok H end.
  all: rewrite ?nt_next_add, ?pr_next_add, ?ub_next_add, ?nt_purge_next, ?pr_purge_next, ?ub_purge_next in *.
  all: try match goal with H : pick _ _ = Some _ |- _ => pose proof (pick_cnt g _ _ _ _ H) as Hpk end.
  all: try match goal with sent : bool |- _ => destruct sent end.
  all: constructor; unfold UB, PR, NT, NTt; autorewrite with sys;
       unfold IN, POP, BK, ER in *;
       cbn [ub pr nt e_pc e_all e_els e_rem with_epc s_enf take_done with_enf x_box b_msgs m_tag] in *;
       unfold etag in *; cbn [snd fst tags map cnt m_tag] in *.
  all: repeat match goal with
       | |- context [b2n ?b] => let n := fresh "n" in pose proof (b2n_le b); set (n := b2n b) in *; clearbody n
       | H : context [b2n ?b] |- _ => let n := fresh "n" in pose proof (b2n_le b); set (n := b2n b) in *; clearbody n
       end.
  all: lia.
Qed.


(** C09 — memory store WITH the size limit: the forward simulation of ConcMemLin extends to the
    enforcer goroutine; its evictions are removals committed by the enforcer. *)
From IV Require Import Model.Conc Model.ConcMem Proofs.ConcBase Proofs.ConcMemInv Proofs.ConcMemCrash Proofs.ConcStmts Proofs.ConcMemLin.
From Coq Require Import Lia ZifyN ZifyNat ZifyBool.

Lemma sim_thr_any s t c s' : invL2 s -> sim s -> step_thr s t c = SOk s' -> sim s'.
Proof.
  intros HL [S1 S2] H.
  destruct (s_max s) eqn:Hmax; [|eapply sim_thr; eauto; split; assumption].
  unfold step_thr in H.
  destruct (nth_error (s_thr s) t) as [p|] eqn:Ep; [|discriminate].
  destruct p; try discriminate.
  all: split_step H.
  all: try congruence.
  all: inv_ok H.
  all: unfold sim; autorewrite with sys.
  all: rewrite ?map_app; cbn [map lop lres fst snd]; rewrite ?seq_run_snoc; cbn [fst snd].
  all: rewrite ?S1.
  all: try (split; [reflexivity | exact S2]).
  all: try (split; [reflexivity | intros mb0; autorewrite with sys; apply S2]).
  all: set (S := fst (seq_run true (s_cap s) [] (map lop (s_log s)))) in *.
  all: try (apply abs_unlocked with (cap := s_cap s) in Elk).
  all: unfold seq_exec.
  all: try (rewrite (S2 mb), ?Elk).
  2:{ split; [reflexivity|]. intros mb0. autorewrite with sys.
      destruct (N.eq_dec mb0 mb) as [->|Hne]; [|rewrite getx_setx_other by assumption; apply S2].
      rewrite getx_setx_same, S2. unfold abs_box at 1. rewrite (HL _ _ _ Ep). cbn [abs_box x_lock x_box].
      match goal with Hq : box_cap _ _ = _ |- _ => now rewrite Hq end. }
  all: try (unfold box_seen in *; destruct (find_msg id (b_msgs (x_box (getx mb s)))) eqn:Ef).
  all: repeat match goal with Hq : _ = (_, _) |- _ => first [rewrite Hq | inv_ok Hq] end.
  all: cbn [fst snd].
  all: try match goal with |- context [box_cap ?c ?b] => destruct (box_cap c b) as [b2 ev] eqn:Ecap end.
  all: cbn [fst snd].
  all: (split; [reflexivity|]).
  all: intros mb0; autorewrite with sys.
  all: destruct (N.eq_dec mb0 mb) as [->|Hne];
       [ rewrite ?getx_setx_same, sget_aset_same
       | rewrite ?getx_setx_other by assumption; rewrite sget_aset_other by assumption; apply S2 ].
  all: unfold abs_box; cbn [x_lock x_box]; rewrite ?Ecap; try reflexivity.
  all: try (fold (abs_box (s_cap s) (getx mb s)); symmetry; exact Elk).
  all: try (unfold box_purge in *; congruence).
Qed.

Ltac split_enf H :=
  repeat match type of H with
   | context [if locked ?mb ?ss then _ else _] => destruct (locked mb ss) eqn:Elk; [discriminate|]; apply locked_false in Elk
   | context [if ?b then _ else _] => destruct b eqn:?
   | context [match e_all ?e with _ => _ end] => destruct (e_all e) eqn:?
   | context [match ent_take ?g ?l with _ => _ end] => destruct (ent_take g l) as [[? ?]|] eqn:?
   | context [match box_remove ?a ?b with _ => _ end] => destruct (box_remove a b) as [? [?|]] eqn:Hrem
   end; try discriminate.

Lemma invL2_enf s s' : invL2 s -> step_enf s = SOk s' -> invL2 s'.
Proof.
  intros HL H. unfold step_enf in H.
  destruct (s_max s) as [max|] eqn:Emax; [|discriminate].
  destruct (e_pc (s_enf s)) eqn:Epc; try discriminate.
  all: split_enf H.
  all: inv_ok H.
  all: intros t0 mb0 nm0 Hn; autorewrite with sys in *.
  all: specialize (HL _ _ _ Hn).
  all: try match goal with
       | |- context [getx ?m0 (setx ?mb _ _)] =>
           destruct (N.eq_dec m0 mb) as [->|?]; [|rewrite getx_setx_other by assumption; assumption]
       end.
  all: try assumption.
  all: congruence.
Qed.

Lemma sim_enf s s' : sim s -> step_enf s = SOk s' -> sim s'.
Proof.
  intros [S1 S2] H. unfold step_enf in H.
  destruct (s_max s) as [max|] eqn:Emax; [|discriminate].
  destruct (e_pc (s_enf s)) eqn:Epc; try discriminate.
  all: split_enf H.
  all: inv_ok H.
  all: unfold sim; autorewrite with sys.
  all: rewrite ?map_app; cbn [map lop lres fst snd]; rewrite ?seq_run_snoc; cbn [fst snd].
  all: rewrite ?S1.
  all: try (split; [reflexivity | exact S2]).
  all: try (split; [reflexivity | intros mb0; autorewrite with sys; apply S2]).
  all: set (S := fst (seq_run true (s_cap s) [] (map lop (s_log s)))) in *.
  all: apply abs_unlocked with (cap := s_cap s) in Elk.
  all: unfold seq_exec; rewrite (S2 (fst k)), Elk, Hrem; cbn [fst snd].
  all: (split; [reflexivity|]).
  all: intros mb0; autorewrite with sys.
  all: destruct (N.eq_dec mb0 (fst k)) as [->|Hne];
       [ rewrite ?getx_setx_same, sget_aset_same
       | rewrite ?getx_setx_other by assumption; rewrite sget_aset_other by assumption; apply S2 ].
  all: unfold abs_box; cbn [x_lock x_box]; try reflexivity.
  all: fold (abs_box (s_cap s) (getx (fst k) s)); symmetry; exact Elk.
Qed.

Lemma any_reach cap max ops s :
  reach (init_sys cap max [] enf0 ops) s -> s_cap s = cap /\ invL2 s /\ sim s.
Proof.
  revert s. apply reach_ind_inv.
  - split; [reflexivity | split; [apply init_invL2 | split; [reflexivity | intros mb; reflexivity]]].
  - intros s s' w c (Hc & HL & HS) Hs. split; [|split].
    + rewrite (cap_step _ _ _ _ Hs). exact Hc.
    + destruct w; cbn [step] in Hs; eauto using invL2_thr, invL2_enf.
    + destruct w; cbn [step] in Hs; eauto using sim_thr_any, sim_enf.
Qed.

Theorem mem_linearizable_with_enforcer_holds : forall cap max ops sched,
  match run (init_sys cap max [] enf0 ops) sched with
  | Fin s | BlockedAt _ s | CrashedAt _ s =>
      let sp := seq_run true cap [] (map lop (s_log s)) in
      snd sp = map lres (s_log s) /\
      (forall mb, x_lock (getx mb s) = None -> sget mb (fst sp) = x_box (getx mb s))
  end.
Proof.
  intros cap max ops sched.
  pose proof (run_from_reach (init_sys cap max [] enf0 ops) sched 0 _ (reach_refl _)) as H. unfold run.
  assert (G : forall s, reach (init_sys cap max [] enf0 ops) s ->
     let sp := seq_run true cap [] (map lop (s_log s)) in
      snd sp = map lres (s_log s) /\
      (forall mb, x_lock (getx mb s) = None -> sget mb (fst sp) = x_box (getx mb s))).
  { intros s R. destruct (any_reach _ _ _ _ R) as (Hc & _ & [S1 S2]). rewrite Hc in *.
    split; [exact S1|]. intros mb Hl. rewrite S2. now apply abs_unlocked. }
  destruct (run_from 0 _ sched); [apply G; exact H | apply G; exact H | apply G; apply H].
Qed.

(** Results: every finished non-walk operation returned the result of its own commit. *)
Lemma invR_thr_any ops s t c s' : invR ops s -> step_thr s t c = SOk s' -> invR ops s'.
Proof.
  intros HR H.
  destruct (s_max s) eqn:Hmax; [|eapply invR_thr; eauto].
  unfold step_thr in H.
  destruct (nth_error (s_thr s) t) as [p|] eqn:Ep; [|discriminate].
  pose proof (HR _ _ Ep) as Hself.
  destruct p; try discriminate.
  all: split_step H.
  all: try congruence.
  all: inv_ok H.
  all: intros t0 p0 Hn; autorewrite with sys in *.
  all: apply nth_set_cases in Hn; destruct Hn as [(-> & -> & _)|(Hne & Hn)].
  all: try (first [apply rfact_mono; apply HR; exact Hn | apply HR; exact Hn]).
  all: unfold rfact in Hself |- *; cbn [committed pending_op] in Hself.
  all: repeat match goal with
       | Hx : exists _, _ |- _ => destruct Hx as (? & ? & ?)
       | Hx : _ /\ _ |- _ => destruct Hx
       | Hx : Some _ = Some _ |- _ => inv_ok Hx
       end.
  all: try match goal with Hq : box_remove _ _ = (_, Some _) |- _ => apply box_remove_id in Hq; subst end.
  all: try (unfold next_add; match goal with |- context [match ?l with [] => _ | _ => _ end] => destruct l end).
  all: try (unfold purge_next; match goal with |- context [pick ?c ?l] => destruct (pick c l) as [[? ?]|] end).
  all: cbn [committed pending_op m_tag m_size m_id].
  all: try (eexists; split; [eassumption|]).
  all: try (split; [assumption|]).
  all: try (left; reflexivity).
  all: try (right).
  all: try (apply in_or_app; right; left; reflexivity).
  all: try (apply in_or_app; left; assumption).
  all: try assumption.
  all: eauto.
Qed.

Lemma invR_enf ops s s' : invR ops s -> step_enf s = SOk s' -> invR ops s'.
Proof.
  intros HR H. unfold step_enf in H.
  destruct (s_max s) as [max|] eqn:Emax; [|discriminate].
  destruct (e_pc (s_enf s)) eqn:Epc; try discriminate.
  all: split_enf H.
  all: inv_ok H.
  all: intros t0 p0 Hn; autorewrite with sys in *.
  all: first [apply rfact_mono; apply HR; exact Hn | apply HR; exact Hn].
Qed.

Theorem mem_results_are_commits : forall cap max ops sched s t o r,
  run (init_sys cap max [] enf0 ops) sched = Fin s ->
  nth_error ops t = Some o -> o <> OVisit -> nth_error (s_thr s) t = Some (PDone r) ->
  In (T t, o, r) (s_log s).
Proof.
  intros cap max ops sched s t o r Hr Ho Hv Hn.
  pose proof (run_from_reach (init_sys cap max [] enf0 ops) sched 0 _ (reach_refl _)) as R.
  unfold run in Hr. rewrite Hr in R.
  assert (HR : invR ops s).
  { clear Hr Hn. revert s R. apply reach_ind_inv.
    - intros t0 p H. destruct (init_thr_nth _ _ _ _ _ H) as (o0 & -> & Ho0). unfold rfact; cbn; eauto.
    - intros s1 s2 w c HR Hs. destruct w; cbn [step] in Hs; eauto using invR_thr_any, invR_enf. }
  specialize (HR _ _ Hn). unfold rfact in HR.
  destruct HR as (o' & Ho' & [->|Hi]); rewrite Ho in Ho'; inversion Ho'; subst; [contradiction | exact Hi].
Qed.

Theorem mem_linearizable_with_enforcer_stmt_holds : mem_linearizable_with_enforcer_stmt.
Proof.
  intros cap max ops sched s Hr.
  pose proof (mem_linearizable_with_enforcer_holds cap (Some max) ops sched) as H. rewrite Hr in H. apply H.
Qed.

(** C18 — sanitizeStyle: only allow-listed declarations survive, for every token list. *)
From IV Require Import Base.Bytes Gen.SanitizeConsts Model.Sanitize.

(** The shape of the output, piece by piece: outside a declaration only marker comments and
    allow-listed property identifiers may be written; a property identifier opens a
    declaration; inside a declaration value tokens follow until (and including) the first
    ';' token, which closes it. *)
Fixpoint groups_ok (inside : bool) (ps : list piece) : bool :=
  match ps with
  | [] => true
  | PMarker _ :: r => negb inside && groups_ok false r
  | PProp v :: r => negb inside && allowed v && groups_ok true r
  | PVal t :: r => inside && groups_ok (negb (is_semi t)) r
  end.

Definition inside_of (s : sstate) : bool := match s with StValid => true | _ => false end.

Lemma style_run_groups : forall toks s ps,
  style_run s toks = Some ps -> groups_ok (inside_of s) ps = true.
Proof.
  induction toks as [|t r IH]; intros s ps H; cbn [style_run] in H.
  - inversion H; reflexivity.
  - destruct (fst t =? tok_eof). { inversion H; reflexivity. }
    destruct (fst t =? tok_error). { discriminate. }
    destruct (style_run (fst (style_step s t)) r) as [ps'|] eqn:E; [|discriminate].
    inversion H; subst ps; clear H.
    apply IH in E.
    destruct s; cbn [style_step] in *.
    + destruct (fst t =? tok_ident).
      * destruct (allowed (snd t)) eqn:A; cbn [fst snd app inside_of groups_ok negb andb] in *.
        -- rewrite A. exact E.
        -- exact E.
      * destruct (fst t =? tok_s); cbn [fst snd app inside_of groups_ok negb andb] in *; exact E.
    + destruct (is_semi t); cbn [fst snd app inside_of groups_ok] in *; exact E.
    + destruct (is_semi t) eqn:S; cbn [fst snd app inside_of groups_ok negb andb] in *; rewrite S; exact E.
Qed.

Lemma groups_ok_props : forall ps inside v,
  groups_ok inside ps = true -> In (PProp v) ps -> allowed v = true.
Proof.
  induction ps as [|p r IH]; intros inside v G I; [contradiction|].
  destruct I as [->|I].
  - cbn [groups_ok] in G. apply andb_prop in G as [G _]. apply andb_prop in G as [_ G]. exact G.
  - destruct p; cbn [groups_ok] in G; apply andb_prop in G as [_ G]; eauto.
Qed.

(** value tokens are written only inside a declaration opened by an allow-listed property:
    every PVal is preceded, within its group, by a PProp *)
Fixpoint vals_guarded (open : bool) (ps : list piece) : bool :=
  match ps with
  | [] => true
  | PMarker _ :: r => vals_guarded false r
  | PProp v :: r => vals_guarded (allowed v) r
  | PVal t :: r => open && vals_guarded (open && negb (is_semi t)) r
  end.

Lemma groups_ok_guarded : forall ps inside, groups_ok inside ps = true -> vals_guarded inside ps = true.
Proof.
  induction ps as [|p r IH]; intros inside G; [reflexivity|].
  destruct p; cbn [groups_ok vals_guarded] in *.
  - apply andb_prop in G as [_ G]. auto.
  - apply andb_prop in G as [G1 G]. apply andb_prop in G1 as [_ A]. rewrite A. auto.
  - apply andb_prop in G as [I G]. rewrite I. cbn [andb]. auto.
Qed.

Theorem style_only_allowed : forall toks : list tok,
  exists ps : list piece,
    sanitize_style toks = render ps
    /\ groups_ok false ps = true
    /\ (forall v, In (PProp v) ps -> allowed v = true).
Proof.
  intro toks. exists (style_pieces toks). split; [reflexivity|].
  assert (G : groups_ok false (style_pieces toks) = true).
  { unfold style_pieces. destruct (style_run StStart toks) as [ps|] eqn:E; [|reflexivity].
    exact (style_run_groups _ _ _ E). }
  split; [exact G|]. intros v I. exact (groups_ok_props _ _ _ G I).
Qed.

(** an error token anywhere before EOF empties the result *)
Lemma style_error_empty : forall pre t post,
  forallb (fun x => negb (fst x =? tok_eof)) pre = true -> fst t = tok_error ->
  sanitize_style (pre ++ t :: post) = [].
Proof.
  intros pre t post Hp Ht. unfold sanitize_style, style_pieces.
  assert (forall s, style_run s (pre ++ t :: post) = None) as ->; [|reflexivity].
  induction pre as [|x pre IH]; intro s; cbn [app style_run].
  - rewrite Ht. reflexivity.
  - cbn [forallb] in Hp. apply andb_prop in Hp as [Hx Hp].
    destruct (fst x =? tok_eof); [discriminate|].
    destruct (fst x =? tok_error); [reflexivity|]. rewrite IH; auto.
Qed.

(* -------- the property identifier that survives: what "allowed" means on ASCII ------- *)

Lemma go_lower_ascii : forall v, is_ascii v = true -> go_lower v = lower v.
Proof.
  unfold go_lower. induction v as [|c v IH]; intro H; [reflexivity|].
  cbn [is_ascii forallb] in H. apply andb_prop in H as [Hc Hv].
  cbn [go_lower_aux lower map]. rewrite Hc. f_equal. apply IH. exact Hv.
Qed.

(** For an ASCII identifier the test is exactly: its ASCII lower-casing is on the list. A
    non-ASCII identifier equals no ASCII property name under ASCII case-insensitivity (which
    is how a style sheet is read), whatever the test answers. *)
Lemma allowed_ascii : forall v, is_ascii v = true -> allowed v = mem_str (lower v) allowed_properties.
Proof. intros v H. unfold allowed. rewrite go_lower_ascii; auto. Qed.

(* ------- link with the oracle: if re-scanning the result gives back the kept tokens, ---
   ------- the declaration check of the oracle holds ------------------------------------ *)

Definition piece_tok (p : piece) : tok :=
  match p with
  | PMarker ty => (tok_comment, render_piece p)
  | PProp v => (tok_ident, v)
  | PVal t => t
  end.

Definition proper_val (p : piece) : bool :=
  match p with PVal t => negb (fst t =? tok_eof) && negb (fst t =? tok_error) | _ => true end.

Lemma style_run_proper : forall toks s ps, style_run s toks = Some ps -> forallb proper_val ps = true.
Proof.
  induction toks as [|t r IH]; intros s ps H; cbn [style_run] in H.
  - inversion H; reflexivity.
  - destruct (fst t =? tok_eof) eqn:E1. { inversion H; reflexivity. }
    destruct (fst t =? tok_error) eqn:E2. { discriminate. }
    destruct (style_run (fst (style_step s t)) r) as [ps'|] eqn:E; [|discriminate].
    inversion H; subst ps; clear H. apply IH in E.
    rewrite forallb_app, E, andb_true_r.
    destruct s; cbn [style_step].
    + destruct (fst t =? tok_ident); [destruct (allowed (snd t))|destruct (fst t =? tok_s)]; reflexivity.
    + destruct (is_semi t); reflexivity.
    + destruct (is_semi t); cbn [snd forallb proper_val]; rewrite E1, E2; reflexivity.
Qed.

Lemma groups_decls_ok : forall ps inside,
  groups_ok inside ps = true -> forallb proper_val ps = true ->
  decls_ok (negb inside) (map piece_tok ps) = true.
Proof.
  induction ps as [|p r IH]; intros inside G P; [reflexivity|].
  cbn [forallb] in P. apply andb_prop in P as [Pp P].
  destruct p; cbn [groups_ok] in G; cbn [map piece_tok decls_ok fst snd].
  - apply andb_prop in G as [I G]. destruct inside; [discriminate|].
    change (tok_comment =? tok_eof) with false. change (tok_comment =? tok_error) with false.
    cbn [negb]. change (tok_comment =? tok_comment) with true. rewrite orb_true_r. cbn [orb].
    exact (IH false G P).
  - apply andb_prop in G as [I G]. apply andb_prop in I as [I A]. destruct inside; [discriminate|].
    change (tok_ident =? tok_eof) with false. change (tok_ident =? tok_error) with false.
    cbn [negb]. change (tok_ident =? tok_s) with false. change (tok_ident =? tok_comment) with false.
    unfold is_semi at 1. cbn [fst]. change (tok_ident =? tok_char) with false. cbn [andb orb].
    change (tok_ident =? tok_ident) with true. rewrite A. cbn [andb].
    exact (IH true G P).
  - apply andb_prop in G as [I G]. destruct inside; [|discriminate].
    cbn [proper_val] in Pp. apply andb_prop in Pp as [P1 P2].
    destruct (fst t =? tok_eof); [discriminate|]. destruct (fst t =? tok_error); [discriminate|].
    cbn [negb]. specialize (IH _ G P). rewrite negb_involutive in IH. exact IH.
Qed.

(** Under the (assumed, tested) hypothesis that re-scanning the output yields the kept
    tokens, the oracle's declaration check holds of sanitizeStyle's output. *)
Theorem style_rescan_ok : forall toks, decls_ok true (map piece_tok (style_pieces toks)) = true.
Proof.
  intro toks. unfold style_pieces.
  destruct (style_run StStart toks) as [ps|] eqn:E; [|reflexivity].
  exact (groups_decls_ok ps false (style_run_groups _ _ _ E) (style_run_proper _ _ _ E)).
Qed.

(* --------------------------- non-vacuity ------------------------------------------- *)
(* The examples are built from the FIRST entry of the generated allow-list and from an
   identifier no allow-list will hold, so that they keep checking when the list changes. *)
Definition never_allowed : str := [120;45;45;118;101;114;105;102;45;110;101;118;101;114].   (* x--verif-never *)
Definition ex_toks (p : str) : list tok :=   (* p:red;x--verif-never:fixed;P:1px  (P = upper-cased p) *)
  [(tok_ident, p); (tok_char, [58]); (tok_ident, [114;101;100]); (tok_char, [59]);
   (tok_ident, never_allowed); (tok_char, [58]); (tok_ident, [102;105;120;101;100]); (tok_char, [59]);
   (tok_ident, upper p); (tok_char, [58]); (8, [49;112;120]); (tok_eof, [])].
Example style_example :
  match allowed_properties with
  | p :: _ => sanitize_style (ex_toks p) = p ++ [58;114;101;100;59] ++ upper p ++ [58;49;112;120]
  | [] => True
  end.
Proof. vm_compute. reflexivity. Qed.
Example style_marker_example :   (* ":x;p" -> marker comment, then the allowed identifier *)
  match allowed_properties with
  | p :: _ => sanitize_style [(tok_char, [58]); (tok_ident, [120]); (tok_char, [59]); (tok_ident, p)]
              = [47;42;67;72;65;82;42;47] ++ p
  | [] => True
  end.
Proof. vm_compute. reflexivity. Qed.
(** the Kelvin sign: Go's ToLower folds it to k, so word-breaK passes the allow-list test
    exactly when word-break is on the list *)
Example kelvin_allowed :
  allowed [119;111;114;100;45;98;114;101;97;226;132;170]
  = mem_str [119;111;114;100;45;98;114;101;97;107] allowed_properties.
Proof. vm_compute. reflexivity. Qed.

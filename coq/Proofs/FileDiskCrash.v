(** C11/C10: what every crash state and every completed operation of the file store looks like to
    a reader, for all histories (which may themselves contain crashes). *)
From IV Require Import Base.Bytes Base.BytesFacts Model.FileDisk
  Proofs.FileDiskMap Proofs.FileDiskInv Proofs.FileDiskSteps Proofs.FileDiskOps.
From Coq Require Import List NArith Bool Lia.
Import ListNotations.

Lemma map_skipn {A B} (f : A -> B) j l : map f (skipn j l) = skipn j (map f l).
Proof. revert l; induction j; intros l; simpl; auto. destruct l; simpl; auto. Qed.

Section Crash.
  Variable enc : index -> str.
  Variable dec : str -> option index.
  Hypothesis dec_enc : forall i, dec (enc i) = Some i.
  Variable hash : str -> str.
  Variable cap : nat.

  Notation Inv := (Inv dec).
  Notation U := (U dec).
  Notation live := (live dec).
  Notation Loaded := (Loaded dec).
  Notation view := (view dec).
  Notation visit := (visit dec).
  Notation steps := (steps enc dec hash cap).
  Notation exec := (exec enc dec hash cap).
  Notation ids := (map m_id).
  Notation nev := (nev cap).
  Notation post_ms := (post_ms cap).
  Notation kept := (kept cap).
  Notation PostO := (PostO dec cap).
  Notation MidO := (MidO dec cap).

  (** Every disk the store can leave behind: start empty; run any operation and stop it anywhere
      (between two steps, inside a step, or let it finish). *)
  Inductive reach : disk -> Prop :=
  | reach_init : reach []
  | reach_step d o d' : reach d -> crash_reach (steps o d) d d' -> reach d'.

  Definition mailbox_of (o : op) : str := hash (op_mailbox o).

  Lemma read_index_ok d h caller : Inv d -> exists nm ms, read_index dec d h caller = Some (nm, ms).
  Proof.
    intros HI. pose proof (proj2 HI h) as HM. unfold MInv in HM. unfold read_index.
    destruct (lookup d (idx h)) as [[|b]|]; [destruct HM| |eauto].
    destruct HM as [nm [ms [Hd _]]]. eauto.
  Qed.

  (** number of cap evictions the operation performs before its own commit *)
  Definition evictions (o : op) (d : disk) : nat :=
    match read_index dec d (mailbox_of o) (op_mailbox o) with
    | Some (_, ms) => nev o ms
    | None => O
    end.

  (** what the mailbox looks like once the operation is complete *)
  Definition post_view (d : disk) (o : op) (h nm : str) (ms : list meta) : list (str * meta * option str) :=
    match o with
    | FileDisk.Add _ info body cands =>
        match pick_id cands (skipn (evict_count cap (length ms)) ms) with
        | Some id => mkview d h nm (skipn (evict_count cap (length ms)) ms) ++ [(nm, new_meta id info body, Some body)]
        | None => mkview d h nm (skipn (evict_count cap (length ms)) ms)
        end
    | _ => mkview d h nm (post_ms o ms)
    end.

  Lemma mkview_ext d d' h nm ms :
    (forall m, In m ms -> content d' h (m_id m) = content d h (m_id m)) -> mkview d' h nm ms = mkview d h nm ms.
  Proof. intros H. unfold mkview. apply map_ext_in. intros m Hm. rewrite H; auto. Qed.

  Lemma U_view_kept d h nm ms ks d' :
    U d h nm ms ks d' -> (forall id, In id ks -> live d h id) -> (forall m, In m ms -> In (m_id m) ks) ->
    view d' h = Some (mkview d h nm ms).
  Proof.
    intros HU Hl Hall. rewrite (U_view dec d h nm ms ks d' HU). f_equal. apply mkview_ext.
    intros m Hm. eapply U_content; eauto.
  Qed.

  Lemma pre_view d h nm ms j d' :
    Inv d -> Loaded d h nm ms -> U d h nm (skipn j ms) (ids (skipn j ms)) d' ->
    view d' h = option_map (skipn j) (view d h) /\ forall h', h' <> h -> view d' h' = view d h'.
  Proof.
    intros HI HL HU. destruct (Loaded_facts dec d h nm ms (proj2 HI h) HL) as [_ [_ Hlive]]. split.
    - rewrite (view_Loaded dec d h nm ms HL). simpl. unfold mkview. rewrite <- map_skipn.
      apply (U_view_kept d h nm (skipn j ms) _ d' HU).
      + intros id Hid. apply Hlive. rewrite map_skipn in Hid. eapply In_skipn; eauto.
      + intros m Hm. apply in_map; auto.
    - intros h' Hne. eapply U_view_other; eauto.
  Qed.

  Lemma post_views d o h nm ms d' :
    Inv d -> Loaded d h nm ms -> PostO d o h nm ms d' ->
    view d' h = Some (post_view d o h nm ms) /\ forall h', h' <> h -> view d' h' = view d h'.
  Proof.
    intros HI HL [HU Hnew]. destruct (Loaded_facts dec d h nm ms (proj2 HI h) HL) as [Hnd [_ Hlive]].
    split; [|intros h' Hne; eapply U_view_other; eauto].
    unfold post_view. destruct o as [mb info body cands | mb id | mb id | mb];
      unfold FileDiskOps.post_ms, FileDiskOps.kept, newraw in *.
    - destruct (pick_id cands (skipn (evict_count cap (length ms)) ms)) as [id|] eqn:Hp.
      + rewrite (U_view dec _ _ _ _ _ _ HU). f_equal. unfold mkview. rewrite map_app. f_equal.
        * apply map_ext_in. intros m Hm. f_equal. eapply U_content; eauto.
          -- apply in_map; auto.
          -- apply Hlive. apply in_map. eapply In_skipn; eauto.
        * simpl. unfold content. simpl. rewrite Hnew. auto.
      + apply (U_view_kept d h nm _ _ d' HU).
        * intros id Hid. apply Hlive. rewrite map_skipn in Hid. eapply In_skipn; eauto.
        * intros m Hm. apply in_map; auto.
    - destruct (find_id id ms) as [m0|]; [destruct (m_seen m0)|];
        apply (U_view_kept d h nm _ _ d' HU); auto; try (intros m Hm; apply in_map; auto; fail).
      intros m Hm. rewrite <- (mark_seen_ids id ms). apply in_map; auto.
    - destruct (has_id id ms); apply (U_view_kept d h nm _ _ d' HU); auto; try (intros m Hm; apply in_map; auto).
      intros x Hx. apply Hlive. apply in_map_iff in Hx. destruct Hx as [m [<- Hm]]. apply in_map. eapply remove_first_In; eauto.
    - apply (U_view_kept d h nm _ _ d' HU); auto. intros x [].
  Qed.

  (** ** The master statement about crash states *)
  Theorem crash_views d o nm ms d' :
    Inv d -> read_index dec d (mailbox_of o) (op_mailbox o) = Some (nm, ms) ->
    crash_reach (steps o d) d d' ->
    Inv d' /\ (forall h', h' <> mailbox_of o -> view d' h' = view d h') /\
    ((exists j, (j <= nev o ms)%nat /\ view d' (mailbox_of o) = option_map (skipn j) (view d (mailbox_of o))) \/
     view d' (mailbox_of o) = Some (post_view d o (mailbox_of o) nm ms)).
  Proof.
    intros HI Hri Hc.
    assert (HL : Loaded d (mailbox_of o) nm ms) by (eapply read_index_Loaded; eauto; apply HI).
    destruct (steps_spec enc dec dec_enc hash cap d o nm ms HI Hri) as [Hmid _].
    destruct (Hmid d' Hc) as [[j [Hj HU]]|HP].
    - destruct (pre_view d _ nm ms j d' HI HL HU) as [A B]. split; [apply HU|]. split; auto. left. eauto.
    - destruct (post_views d o _ nm ms d' HI HL HP) as [A B]. split; [apply HP|]. split; auto.
  Qed.

  Theorem exec_views d o nm ms :
    Inv d -> read_index dec d (mailbox_of o) (op_mailbox o) = Some (nm, ms) ->
    run (steps o d) d = Some (exec o d) /\ Inv (exec o d) /\
    view (exec o d) (mailbox_of o) = Some (post_view d o (mailbox_of o) nm ms) /\
    (forall h', h' <> mailbox_of o -> view (exec o d) h' = view d h').
  Proof.
    intros HI Hri.
    assert (HL : Loaded d (mailbox_of o) nm ms) by (eapply read_index_Loaded; eauto; apply HI).
    destruct (steps_spec enc dec dec_enc hash cap d o nm ms HI Hri) as [_ [d1 [R HP]]].
    unfold FileDisk.exec. rewrite (run_run' _ _ _ R). split; auto.
    destruct (post_views d o _ nm ms d1 HI HL HP) as [A B]. split; [apply HP|]. split; auto.
  Qed.

  Lemma crash_Inv d o d' : Inv d -> crash_reach (steps o d) d d' -> Inv d'.
  Proof.
    intros HI Hc. destruct (read_index_ok d (mailbox_of o) (op_mailbox o) HI) as [nm [ms Hri]].
    eapply crash_views; eauto.
  Qed.

  Lemma reach_Inv d : reach d -> Inv d.
  Proof. induction 1; [apply Inv_empty | eapply crash_Inv; eauto]. Qed.

  Lemma exec_reach d o : reach d -> reach (exec o d).
  Proof.
    intros Hr. pose proof (reach_Inv d Hr) as HI.
    destruct (read_index_ok d (mailbox_of o) (op_mailbox o) HI) as [nm [ms Hri]].
    destruct (exec_views d o nm ms HI Hri) as [R _].
    apply (reach_step d o (exec o d) Hr). apply crash_reach_run; auto.
  Qed.

  (** ** crash_readable *)
  Lemma Inv_view d h : Inv d -> view d h <> None.
  Proof.
    intros HI. destruct (read_index_ok d h [] HI) as [nm [ms Hri]]. unfold FileDisk.view. rewrite Hri. discriminate.
  Qed.

  Lemma children_lookup p d c : In c (children p d) -> lookup d (p ++ [c]) <> None.
  Proof. intros H. apply children_In in H. destruct H as [n Hn]. eapply In_lookup; eauto. Qed.

  Lemma visit_mboxes_ok d names : Inv d -> visit_mboxes dec d names <> None.
  Proof.
    intros HI. induction names as [|n r IH]; simpl; [discriminate|].
    destruct (view d n) eqn:E; [|exfalso; eapply Inv_view; eauto].
    destruct (visit_mboxes dec d r); [discriminate | auto].
  Qed.

  Lemma is_dir_short d p : Inv d -> lookup d p <> None -> (length p <= 3)%nat -> is_dir d p = true.
  Proof.
    intros HI Hl Hlen. unfold is_dir. destruct p; auto.
    destruct (lookup d (s :: p)) as [n|] eqn:E; [|congruence].
    rewrite (Struct_dir d _ n (proj1 HI) E); auto.
  Qed.

  Lemma visit_l2_ok d n1 names :
    Inv d -> (forall n2, In n2 names -> lookup d [n1; n2] <> None) -> visit_l2 dec d n1 names <> None.
  Proof.
    intros HI. induction names as [|n r IH]; cbn [visit_l2]; intros H; [discriminate|].
    rewrite (is_dir_short d [n1; n] HI); [| apply H; simpl; auto | simpl; lia].
    destruct (visit_mboxes dec d (children [n1; n] d)) eqn:E; [|exfalso; eapply visit_mboxes_ok; eauto].
    destruct (visit_l2 dec d n1 r) eqn:F; [discriminate|]. apply IH; auto. intros n2 Hn2; apply H; simpl; auto.
  Qed.

  Lemma visit_l1_ok d names :
    Inv d -> (forall n1, In n1 names -> lookup d [n1] <> None) -> visit_l1 dec d names <> None.
  Proof.
    intros HI. induction names as [|n r IH]; cbn [visit_l1]; intros H; [discriminate|].
    rewrite (is_dir_short d [n] HI); [| apply H; simpl; auto | simpl; lia].
    destruct (visit_l2 dec d n (children [n] d)) eqn:E.
    - destruct (visit_l1 dec d r) eqn:F; [discriminate|]. apply IH; auto. intros n2 Hn2; apply H; simpl; auto.
    - exfalso. eapply (visit_l2_ok d n); eauto. intros n2 Hn2. apply (children_lookup [n] d n2 Hn2).
  Qed.

  Theorem crash_readable d :
    reach d -> (forall h, view d h <> None) /\ visit d <> None.
  Proof.
    intros Hr. pose proof (reach_Inv d Hr) as HI. split.
    - intros h. apply Inv_view; auto.
    - unfold FileDisk.visit. apply visit_l1_ok; auto. intros n1 Hn. apply (children_lookup [] d n1 Hn).
  Qed.

  (** ** crash_atomic *)
  Theorem crash_atomic_capped d o d' :
    reach d -> crash_reach (steps o d) d d' ->
    (exists j, (j <= evictions o d)%nat /\
       view d' (mailbox_of o) = option_map (skipn j) (view d (mailbox_of o)) /\
       forall h', h' <> mailbox_of o -> view d' h' = view d h') \/
    (forall h', view d' h' = view (exec o d) h').
  Proof.
    intros Hr Hc. pose proof (reach_Inv d Hr) as HI.
    destruct (read_index_ok d (mailbox_of o) (op_mailbox o) HI) as [nm [ms Hri]].
    destruct (crash_views d o nm ms d' HI Hri Hc) as [_ [Hoth [[j [Hj Hv]]|Hv]]].
    - left. exists j. unfold evictions. rewrite Hri. auto.
    - right. destruct (exec_views d o nm ms HI Hri) as [_ [_ [A B]]].
      intros h'. destruct (str_eqb h' (mailbox_of o)) eqn:E.
      + apply str_eqb_eq in E; subst. congruence.
      + assert (h' <> mailbox_of o) by (intros ->; rewrite str_eqb_refl in E; discriminate).
        rewrite Hoth, B; auto.
  Qed.

  Theorem crash_atomic_partial d o d' :
    reach d -> evictions o d = O -> crash_reach (steps o d) d d' ->
    (forall h', view d' h' = view d h') \/ (forall h', view d' h' = view (exec o d) h').
  Proof.
    intros Hr He Hc. destruct (crash_atomic_capped d o d' Hr Hc) as [[j [Hj [Hv Ho]]]|H]; auto.
    left. rewrite He in Hj. assert (j = 0%nat) by lia. subst. intros h'.
    destruct (str_eqb h' (mailbox_of o)) eqn:E.
    - apply str_eqb_eq in E; subst. rewrite Hv. destruct (view d (mailbox_of o)); auto.
    - apply Ho. intros ->. rewrite str_eqb_refl in E. discriminate.
  Qed.

  (** ** accepts_mail_after: on every reachable disk — in particular in every crash state — a delivery
      whose id generator eventually produces an unused id runs without any failing step and the
      mailbox then lists the old messages (minus cap evictions) followed by the new one, full content. *)
  Theorem accepts_mail_after d mb info body cands v :
    reach d -> view d (hash mb) = Some v ->
    pick_id cands (skipn (evict_count cap (length v)) (map (fun e => snd (fst e)) v)) <> None ->
    exists d1 id nm,
      run (steps (FileDisk.Add mb info body cands) d) d = Some d1 /\ reach d1 /\
      result_of dec hash cap (FileDisk.Add mb info body cands) d = RId id /\
      view d1 (hash mb) = Some (skipn (evict_count cap (length v)) v ++ [(nm, new_meta id info body, Some body)]) /\
      (forall h', h' <> hash mb -> view d1 h' = view d h').
  Proof.
    intros Hr Hv Hp. pose proof (reach_Inv d Hr) as HI.
    set (o := FileDisk.Add mb info body cands).
    destruct (read_index_ok d (mailbox_of o) (op_mailbox o) HI) as [nm [ms Hri]].
    assert (HL : Loaded d (hash mb) nm ms) by (eapply read_index_Loaded; eauto; apply HI).
    assert (Ev : v = mkview d (hash mb) nm ms).
    { rewrite (view_Loaded dec d _ nm ms HL) in Hv. inversion Hv; auto. }
    assert (Em : map (fun e : str * meta * option str => snd (fst e)) v = ms).
    { rewrite Ev. unfold mkview. rewrite map_map. simpl. apply map_id. }
    assert (El : length v = length ms) by (rewrite Ev; unfold mkview; apply map_length).
    rewrite Em, El in Hp.
    destruct (pick_id cands (skipn (evict_count cap (length ms)) ms)) as [id|] eqn:Hpick; [|congruence].
    destruct (exec_views d o nm ms HI Hri) as [R [I1 [A B]]].
    exists (exec o d), id, nm. split; auto. split; [apply exec_reach; auto|]. split.
    - unfold result_of. cbn [op_mailbox o]. unfold mailbox_of in Hri. cbn [op_mailbox o] in Hri. rewrite Hri, Hpick. auto.
    - split; auto. unfold mailbox_of in A. cbn [op_mailbox o] in A. rewrite A.
      unfold post_view, o. rewrite Hpick. rewrite El, Ev. unfold mkview. rewrite map_skipn. auto.
  Qed.
End Crash.

(** C16 — causal order of the emitted events: unless a delivery is larger than the whole size
    limit (open finding K-C16-oversize-order), no message's deleted event precedes its stored
    event, in any history, on the abstract store and on both back-end models. *)
From Coq Require Import List Arith Lia Sorted.
From IV Require Import Base.Bytes Base.BytesFacts Model.StoreSpec Model.StoreSpecImpl Model.MemStore Model.FileStore Model.Events
  Proofs.StoreSpecFacts Proofs.StoreSpecRefine Proofs.StoreSpecLimits Proofs.MemStoreRefine Proofs.FileStoreRefine
  Proofs.MemStoreLimits Proofs.EventsTrace Proofs.EventsCount.
Import ListNotations.
Local Open Scope nat_scope.

Definition has (k : mkey) (seen : list mkey) : Prop := existsb (mkey_eqb k) seen = true.
Definition Iseen (l : list entry) (seen : list mkey) : Prop := forall e, In e l -> has (ekey e) seen.

Lemma has_cons k x seen : has k seen -> has k (x :: seen).
Proof. unfold has. simpl. intros ->. apply orb_true_r. Qed.

Lemma has_head k seen : has k (k :: seen).
Proof. unfold has. simpl. rewrite (proj2 (mkey_eqb_eq k k) eq_refl). reflexivity. Qed.

Lemma sbd_deleted_block seen D tail : (forall e, In e D -> has (ekey e) seen) ->
  sbd_scan seen (map ev_deleted D ++ tail) = sbd_scan seen tail.
Proof.
  induction D as [|e D IH]; intros H; [reflexivity|]. cbn [map app sbd_scan].
  change (is_stored (ev_deleted e)) with false. cbv iota. change (ev_key (ev_deleted e)) with (ekey e).
  rewrite (H e (or_introl eq_refl)). apply IH. intros x Hx. apply H. right; exact Hx.
Qed.

Lemma add_fit_keeps_new cfg lc nw : (c_max cfg = 0 \/ m_size (e_msg nw) <= c_max cfg)%N ->
  exists d2 r', add_fit cfg (lc ++ [nw]) = (d2, r' ++ [nw]) /\ lc = d2 ++ r'.
Proof.
  intros Hfit. unfold add_fit. destruct (c_max cfg =? 0)%N eqn:Q.
  - exists [], lc. auto.
  - apply N.eqb_neq in Q. destruct Hfit as [Hfit|Hfit]; [contradiction|].
    destruct (evict_fit_keeps_last (c_max cfg) nw Hfit lc) as [r' Hr].
    pose proof (evict_fit_spec (c_max cfg) (lc ++ [nw])) as Hs.
    destruct (evict_fit (c_max cfg) (lc ++ [nw])) as [d2 l3]. simpl in Hr. subst l3. destruct Hs as [Hs _].
    exists d2, r'. split; [reflexivity|]. rewrite app_assoc in Hs. apply app_inj_tail in Hs as [Hs _]. exact Hs.
Qed.

Definition guard (cfg : scfg) (o : op) : Prop :=
  match o with Add _ _ _ sz => (c_max cfg = 0 \/ sz <= c_max cfg)%N | _ => True end.

Lemma exec_order cfg st o seen tail : SInv st -> Iseen (live st) seen -> guard cfg o ->
  let '(st', _, evs) := exec_spec cfg st o in
  exists seen', sbd_scan seen (evs ++ tail) = sbd_scan seen' tail /\ Iseen (live st') seen'.
Proof.
  intros HI Hs Hg. destruct o as [mb date tag size|mb h|mb|mb h|mb h|mb|].
  - cbn [exec_spec]. set (m := {| m_date := date; m_tag := tag; m_size := size; m_seen := false |}).
    rewrite spec_add_unfold. cbv zeta. rewrite (add_cap_eq cfg st mb m).
    set (nw := {| e_mb := mb; e_k := count_of mb (counts st); e_msg := m |}).
    set (d := FileStoreRefine.cap_d cfg (length (box mb (live st)))).
    set (lc := snd (drop_oldest mb d (live st))).
    assert (Hlc : forall e, In e lc -> In e (live st)).
    { pose proof (drop_oldest_spec mb d (live st)) as H. unfold lc. destruct (drop_oldest mb d (live st)) as [dd rr]. simpl. tauto. }
    destruct (add_fit_keeps_new cfg lc nw Hg) as [d2 [r' [Hq Hsplit]]]. rewrite Hq. cbn [live].
    exists (ekey nw :: seen). split.
    + rewrite <- !app_assoc. rewrite sbd_deleted_block.
      2:{ intros e He. apply Hs. assert (In e (box mb (live st))) as Hb.
          { rewrite <- (firstn_skipn d (box mb (live st))). apply in_or_app. left; exact He. }
          apply box_in in Hb. tauto. }
      rewrite sbd_deleted_block.
      2:{ intros e He. apply Hs, Hlc. rewrite Hsplit. apply in_or_app. left; exact He. }
      reflexivity.
    + intros e He. apply in_app_or in He as [He|[<-|[]]]; [|apply has_head].
      apply has_cons. apply Hs, Hlc. rewrite Hsplit. apply in_or_app. right; exact He.
  - destruct h; cbn [exec_spec]; exists seen; simpl; auto.
  - cbn [exec_spec]. exists seen. simpl; auto.
  - cbn [exec_spec]. destruct (find_h mb h (live st)) as [e|]; exists seen; simpl; [|auto]. split; [reflexivity|].
    intros x Hx. unfold set_seen in Hx. apply in_map_iff in Hx as [y [<- Hy]].
    replace (ekey (if is_ent mb (e_k e) y then _ else y)) with (ekey y) by (destruct (is_ent mb (e_k e) y); reflexivity).
    apply Hs. exact Hy.
  - cbn [exec_spec]. destruct (find_h mb h (live st)) as [e|] eqn:F; exists seen; [|simpl; auto].
    destruct h as [k0| |]; try discriminate. simpl in F. apply find_some in F as [He _]. split.
    + apply (sbd_deleted_block seen [e] tail). intros x [<-|[]]. apply Hs. exact He.
    + intros x Hx. cbn [live] in Hx. unfold remove_ent in Hx. apply filter_In in Hx as [Hx _]. apply Hs. exact Hx.
  - cbn [exec_spec live]. exists seen. split.
    + apply sbd_deleted_block. intros e He. apply box_in in He as [He _]. apply Hs. exact He.
    + intros x Hx. apply filter_In in Hx as [Hx _]. apply Hs. exact Hx.
  - cbn [exec_spec]. exists seen. simpl; auto.
Qed.

Lemma run_order cfg : forall ops st seen, SInv st -> Iseen (live st) seen -> (forall o, In o ops -> guard cfg o) ->
  sbd_scan seen (trace_of (run_spec cfg st ops)) = None.
Proof.
  induction ops as [|o ops IH]; intros st seen HI Hs Hg; [reflexivity|].
  rewrite trace_cons.
  pose proof (exec_order cfg st o seen (trace_of (run_spec cfg (fst (fst (exec_spec cfg st o))) ops)) HI Hs (Hg o (or_introl eq_refl))) as H.
  pose proof (exec_spec_SInv cfg st o HI) as HI'.
  destruct (exec_spec cfg st o) as [[st' ob] evs]. cbn [fst snd] in *. destruct H as [seen' [H1 H2]].
  rewrite H1. apply IH; auto. intros o' Ho'. apply Hg. right; exact Ho'.
Qed.

Lemma no_oversize_guard cfg ops : no_oversize cfg ops -> forall o, In o ops -> guard cfg o.
Proof. intros H o Ho. destruct o; simpl; auto. eapply H. exact Ho. Qed.

Theorem stored_before_deleted_partial_spec cfg ops : no_oversize cfg ops ->
  sbd_ok (trace_of (run_spec cfg spec_init ops)) = true.
Proof.
  intros H. unfold sbd_ok. rewrite (run_order cfg ops spec_init [] SInv_init); [reflexivity | intros e [] | apply no_oversize_guard; exact H].
Qed.

(** On the back-end models. *)
Theorem stored_before_deleted_partial cfg ticks ops : no_oversize cfg ops ->
  sbd_ok (trace_of (run_mem cfg ops)) = true /\
  (c_max cfg = 0%N -> file_fresh cfg (file_init ticks, []) ops -> sbd_ok (trace_of (run_file cfg ticks ops)) = true).
Proof.
  intros H. split; [rewrite mem_refines_spec; apply stored_before_deleted_partial_spec; exact H|].
  intros Hm Hf. rewrite file_refines_spec by assumption. apply stored_before_deleted_partial_spec. exact H.
Qed.

(** Lookup lemmas for the disk map of [Model/FileDisk.v]. *)
From IV Require Import Base.Bytes Base.BytesFacts Model.FileDisk.
From Coq Require Import List NArith Bool Lia.
Import ListNotations.

Lemma path_eqb_eq a b : path_eqb a b = true <-> a = b.
Proof.
  revert b; induction a as [|x a IH]; destruct b as [|y b]; simpl; try (split; congruence).
  rewrite andb_true_iff, str_eqb_eq, IH. split; [intros [-> ->]; auto | intros H; inversion H; auto].
Qed.

Lemma path_eqb_refl a : path_eqb a a = true.
Proof. apply path_eqb_eq; auto. Qed.

Lemma path_eqb_neq a b : a <> b -> path_eqb a b = false.
Proof. intros H. destruct (path_eqb a b) eqn:E; auto. apply path_eqb_eq in E. contradiction. Qed.

Lemma path_eqb_sym a b : path_eqb a b = path_eqb b a.
Proof.
  destruct (path_eqb a b) eqn:E.
  - apply path_eqb_eq in E; subst. symmetry; apply path_eqb_refl.
  - destruct (path_eqb b a) eqn:F; auto. apply path_eqb_eq in F; subst. rewrite path_eqb_refl in E. discriminate.
Qed.

Lemma path_eq_dec (a b : path) : {a = b} + {a <> b}.
Proof. destruct (path_eqb a b) eqn:E; [left; apply path_eqb_eq; auto | right; intros ->; rewrite path_eqb_refl in E; discriminate]. Qed.

Lemma is_prefix_spec p q : is_prefix p q = true <-> exists r, q = p ++ r.
Proof.
  revert q; induction p as [|x p IH]; intros q; simpl.
  - split; eauto.
  - destruct q as [|y q].
    + split; [discriminate | intros [r H]; discriminate].
    + rewrite andb_true_iff, str_eqb_eq, IH. split.
      * intros [-> [r ->]]. eauto.
      * intros [r H]. inversion H; subst. eauto.
Qed.

Lemma lookup_filter (f : path -> bool) d q :
  lookup (filter (fun e => f (fst e)) d) q = if f q then lookup d q else None.
Proof.
  induction d as [|[k n] d IH]; simpl.
  - destruct (f q); auto.
  - destruct (f k) eqn:Fk; simpl.
    + destruct (path_eqb k q) eqn:E.
      * apply path_eqb_eq in E; subst. rewrite Fk; auto.
      * apply IH.
    + destruct (path_eqb k q) eqn:E.
      * apply path_eqb_eq in E; subst. rewrite IH, Fk; auto.
      * apply IH.
Qed.

Lemma lookup_del p q d : lookup (del p d) q = if path_eqb p q then None else lookup d q.
Proof.
  unfold del. rewrite (lookup_filter (fun k => negb (path_eqb k p))).
  rewrite (path_eqb_sym q p). destruct (path_eqb p q); auto.
Qed.

Lemma lookup_set p n q d : lookup (set p n d) q = if path_eqb p q then Some n else lookup d q.
Proof. unfold set; simpl. destruct (path_eqb p q) eqn:E; auto. rewrite lookup_del, E; auto. Qed.

Lemma lookup_del_tree p q d : lookup (del_tree p d) q = if is_prefix p q then None else lookup d q.
Proof.
  unfold del_tree. rewrite (lookup_filter (fun k => negb (is_prefix p k))). destruct (is_prefix p q); auto.
Qed.

Lemma lookup_del_tree_partial keep p q d :
  lookup (del_tree_partial keep p d) q =
  if negb (is_prefix p q) || path_eqb q p || keep q then lookup d q else None.
Proof.
  unfold del_tree_partial.
  apply (lookup_filter (fun k => negb (is_prefix p k) || path_eqb k p || keep k)).
Qed.

Lemma lookup_In d k n : lookup d k = Some n -> In (k, n) d.
Proof.
  induction d as [|[k' n'] d IH]; simpl; [discriminate|].
  destruct (path_eqb k' k) eqn:E.
  - apply path_eqb_eq in E; subst. intros H; inversion H; auto.
  - auto.
Qed.

Lemma In_lookup d k n : In (k, n) d -> lookup d k <> None.
Proof.
  induction d as [|[k' n'] d IH]; simpl; [tauto|].
  intros [H|H].
  - inversion H; subst. rewrite path_eqb_refl. discriminate.
  - destruct (path_eqb k' k); [discriminate | auto].
Qed.

Lemma child_of_spec p q c : child_of p q = Some c <-> q = p ++ [c].
Proof.
  unfold child_of. destruct (is_prefix p q) eqn:E.
  - apply is_prefix_spec in E. destruct E as [r ->].
    rewrite skipn_app, skipn_all, Nat.sub_diag; simpl.
    destruct r as [|x [|y r]]; split; intros H; try discriminate.
    + apply (f_equal (@length str)) in H. rewrite app_nil_r, app_length in H; simpl in H; lia.
    + inversion H; auto.
    + apply app_inv_head in H. inversion H; auto.
    + apply app_inv_head in H. discriminate.
  - split; [discriminate|]. intros ->.
    assert (is_prefix p (p ++ [c]) = true) by (apply is_prefix_spec; eauto). congruence.
Qed.

Lemma children_In p d c : In c (children p d) <-> exists n, In (p ++ [c], n) d.
Proof.
  unfold children. rewrite in_flat_map. split.
  - intros [[k n] [Hin H]]. simpl in H. destruct (child_of p k) eqn:E; simpl in H; [|tauto].
    destruct H as [->|[]]. apply child_of_spec in E; subst. eauto.
  - intros [n Hin]. exists (p ++ [c], n). split; auto. simpl.
    assert (child_of p (p ++ [c]) = Some c) by (apply child_of_spec; auto). rewrite H; simpl; auto.
Qed.

Lemma children_nil p d : children p d = [] <-> forall c, lookup d (p ++ [c]) = None.
Proof.
  split.
  - intros H c. destruct (lookup d (p ++ [c])) eqn:E; auto.
    apply lookup_In in E. assert (In c (children p d)) by (apply children_In; eauto).
    rewrite H in H0. destruct H0.
  - intros H. destruct (children p d) as [|c l] eqn:E; auto.
    assert (In c (children p d)) by (rewrite E; simpl; auto).
    apply children_In in H0. destruct H0 as [n Hn]. apply In_lookup in Hn. rewrite H in Hn. congruence.
Qed.

(** MkdirAll *)
Lemma mkdir_chain_spec rest : forall pre d d',
  mkdir_chain pre rest d = Some d' ->
  (forall q n, lookup d q = Some n -> lookup d' q = Some n) /\
  (forall q n, lookup d' q = Some n -> lookup d q = Some n \/
       (n = Dir /\ exists k, (0 < k <= length rest)%nat /\ q = pre ++ firstn k rest)) /\
  (forall k, (0 < k <= length rest)%nat -> lookup d' (pre ++ firstn k rest) = Some Dir).
Proof.
  induction rest as [|c rest IH]; intros pre d d' H; simpl in H.
  - inversion H; subst. repeat split; auto. intros k Hk; simpl in Hk; lia.
  - assert (Hcases : exists d0, mkdir_chain (pre ++ [c]) rest d0 = Some d' /\
              lookup d0 (pre ++ [c]) = Some Dir /\
              (forall q n, lookup d q = Some n -> lookup d0 q = Some n) /\
              (forall q n, lookup d0 q = Some n -> lookup d q = Some n \/ (n = Dir /\ q = pre ++ [c]))).
    { destruct (lookup d (pre ++ [c])) as [[|b]|] eqn:E; try discriminate.
      - exists d. repeat split; auto.
      - exists ((pre ++ [c], Dir) :: d). split; auto. simpl. rewrite path_eqb_refl. split; auto. split.
        + intros q n Hq. destruct (path_eqb (pre ++ [c]) q) eqn:F; auto.
          apply path_eqb_eq in F; subst. congruence.
        + intros q n Hq. destruct (path_eqb (pre ++ [c]) q) eqn:F; auto.
          apply path_eqb_eq in F; subst. inversion Hq; auto. }
    destruct Hcases as [d0 [Hm [Hc [Hup Hdown]]]].
    destruct (IH _ _ _ Hm) as [A [B C]].
    split; [|split].
    + intros q n Hq. auto.
    + intros q n Hq. destruct (B q n Hq) as [H0|[-> [k [Hk ->]]]].
      * destruct (Hdown q n H0) as [|[-> ->]]; auto.
        right. split; auto. exists 1%nat. simpl. split; [lia|]. try rewrite firstn_O. auto.
      * right. split; auto. exists (S k). simpl. split; [lia|]. rewrite <- app_assoc. auto.
    + intros k Hk. destruct k as [|k]; [lia|]. simpl.
      destruct k as [|k].
      * try rewrite firstn_O. apply A; auto.
      * replace (pre ++ c :: firstn (S k) rest) with ((pre ++ [c]) ++ firstn (S k) rest) by (rewrite <- app_assoc; auto).
        apply C. simpl in Hk. lia.
Qed.

Lemma mkdir_chain_ok rest : forall pre d,
  (forall k b, lookup d (pre ++ firstn k rest) <> Some (File b)) ->
  exists d', mkdir_chain pre rest d = Some d'.
Proof.
  induction rest as [|c rest IH]; intros pre d H; simpl; eauto.
  assert (Hn : forall b, lookup d (pre ++ [c]) <> Some (File b)).
  { intros b. specialize (H 1%nat b). simpl in H. try rewrite firstn_O in H. auto. }
  destruct (lookup d (pre ++ [c])) as [[|b]|] eqn:E.
  - apply IH. intros k b. specialize (H (S k) b). simpl in H. rewrite <- app_assoc. auto.
  - exfalso. apply (Hn b); auto.
  - apply IH. intros k b. simpl. destruct (path_eqb (pre ++ [c]) ((pre ++ [c]) ++ firstn k rest)); [discriminate|].
    specialize (H (S k) b). simpl in H. rewrite <- app_assoc. auto.
Qed.

(** C19: theorems about the shutdown model (Model/Lifecycle.v). *)
From Coq Require Import Lia.
From IV Require Import Base.Bytes Model.Lifecycle.
Local Open Scope nat_scope.

(** * A session's step does not depend on the shutdown flags *)

(** Whatever the context and the listener are doing, a session in a given state reacts to a given
    action in the same way. (Proved, not assumed: the flags ARE inputs of [sess_step].) *)
Theorem session_step_ignores_shutdown :
  forall pz c1 l1 c2 l2 s a, sess_step pz c1 l1 s a = sess_step pz c2 l2 s a.
Proof. intros pz c1 l1 c2 l2 s a. destruct a; reflexivity. Qed.

(** * The WaitGroup counter counts the sessions that are alive *)

(** What one session contributes to [Server.wg]: 1 from the accept loop until its goroutine's
    last Done, plus (SMTP) 1 of its own while its command loop is running. *)
Definition weight (pz : proto) (p : phase) : nat :=
  match p with
  | Held | Ending => 1
  | Ended => 0
  | _ => 1 + inner pz
  end.

Fixpoint total (pz : proto) (xs : list (nat * session)) : nat :=
  match xs with [] => 0 | (_, s) :: t => weight pz (ph s) + total pz t end.

Definition counted (y : sys) : Prop := wg (sv y) = total (pr (sv y)) (ss (sv y)).

Lemma total_app pz a b : total pz (a ++ b) = total pz a + total pz b.
Proof. induction a as [|[k s] t IH]; cbn [app total]; auto. rewrite IH. lia. Qed.

Lemma total_upd pz i s s' xs :
  find_s i xs = Some s -> total pz (upd_s i s' xs) + weight pz (ph s) = total pz xs + weight pz (ph s').
Proof.
  induction xs as [|[k x] t IH]; cbn [find_s upd_s total]; [discriminate|].
  destruct (Nat.eqb k i).
  - intros E. inversion E; subst. cbn [total]. lia.
  - intros E. specialize (IH E). cbn [total]. lia.
Qed.

Lemma total_ge pz i s xs : find_s i xs = Some s -> weight pz (ph s) <= total pz xs.
Proof.
  induction xs as [|[k x] t IH]; cbn [find_s total]; [discriminate|].
  destruct (Nat.eqb k i).
  - intros E. inversion E; subst. lia.
  - intros E. specialize (IH E). lia.
Qed.

Lemma rank_weight pz p k : rank pz p = Some k -> weight pz p = 1 + inner pz.
Proof. destruct pz, p; cbn; intros E; try discriminate; reflexivity. Qed.

Lemma running_weight pz p : running p = true -> weight pz p = 1 + inner pz.
Proof. destruct p; cbn; intros E; try discriminate; reflexivity. Qed.

(** The session's own step changes the counter by exactly the change of its weight. *)
Lemma sess_step_weight pz c0 l0 s a s' inc dec :
  sess_step pz c0 l0 s a = Some (s', inc, dec) ->
  weight pz (ph s) + inc = weight pz (ph s') + dec /\ dec <= weight pz (ph s) + inc.
Proof.
  destruct a; cbn [sess_step]; try discriminate.
  - destruct (ph s) eqn:P; try discriminate. intros E. inversion E; subst. cbn. lia.
  - destruct (rank pz (ph s)) as [a|] eqn:R1; [|discriminate].
    destruct (rank pz to) as [b|] eqn:R2; [|discriminate]. destruct (a <? b); [|discriminate].
    intros E. inversion E; subst. cbn [ph]. rewrite (rank_weight _ _ _ R1), (rank_weight _ _ _ R2). lia.
  - destruct (running (ph s)) eqn:R; [|discriminate].
    destruct (ph s) eqn:P; cbn in R; try discriminate; intros E; inversion E; subst; cbn; destruct pz; cbn; lia.
  - destruct (ph s) eqn:P; try discriminate. intros E. inversion E; subst. cbn. lia.
  - destruct (running (ph s)) eqn:R; [|discriminate]. intros E. inversion E; subst. cbn [ph].
    rewrite (running_weight _ _ R). cbn. lia.
  - destruct (ph s) eqn:P; try discriminate. intros E. inversion E; subst. cbn. lia.
Qed.

Lemma counted_step y a y' : counted y -> step y a = Some y' -> counted y'.
Proof.
  unfold counted. intros C E.
  assert (Sess : forall i, target a = Some i ->
            match find_s i (ss (sv y)) with
            | None => None
            | Some s =>
                match sess_step (pr (sv y)) (cancelled y) (lopen (sv y)) s a with
                | None => None
                | Some (s', inc, dec) =>
                    Some (mkSys (cancelled y) (mkSrv (pr (sv y)) (lopen (sv y)) (wg (sv y) + inc - dec) (upd_s i s' (ss (sv y)))))
                end
            end = Some y' -> wg (sv y') = total (pr (sv y')) (ss (sv y'))).
  { intros i _ E1. destruct (find_s i (ss (sv y))) as [s|] eqn:F; [|discriminate].
    destruct (sess_step (pr (sv y)) (cancelled y) (lopen (sv y)) s a) as [[[s' inc] dec]|] eqn:SS; [|discriminate].
    inversion E1; subst y'; clear E1. cbn [sv wg pr ss].
    pose proof (total_upd (pr (sv y)) i s s' _ F). pose proof (total_ge (pr (sv y)) i s _ F).
    destruct (sess_step_weight _ _ _ _ _ _ _ _ SS). lia. }
  destruct a; cbn [step] in E; try (eapply Sess; [reflexivity|exact E]).
  - destruct (lopen (sv y)); [|discriminate]. destruct (find_s i (ss (sv y))); [discriminate|].
    inversion E; subst y'. cbn [sv wg pr ss]. rewrite total_app. cbn. lia.
  - inversion E; subst. exact C.
  - destruct (cancelled y && lopen (sv y)); [|discriminate]. inversion E; subst. exact C.
Qed.

Lemma counted_run acts : forall y y', counted y -> run y acts = Some y' -> counted y'.
Proof.
  induction acts as [|a t IH]; intros y y' C R; cbn [run] in R.
  - inversion R; subst; auto.
  - destruct (step y a) eqn:E; [|discriminate]. eapply IH; [|exact R]. eapply counted_step; eauto.
Qed.

Lemma total_zero pz xs : total pz xs = 0 <-> forall i s, In (i, s) xs -> alive s = false.
Proof.
  induction xs as [|[k x] t IH]; cbn [total In].
  - split; auto. intros _ i s [].
  - split.
    + intros H i s [E|E].
      * inversion E; subst. unfold alive. destruct (ph s); cbn in H; try lia; reflexivity.
      * apply IH in E; auto. lia.
    + intros H. assert (alive x = false) by (apply (H k); auto).
      assert (total pz t = 0) by (apply IH; intros i s E; apply (H i); auto).
      unfold alive in H0. destruct (ph x); try discriminate. cbn. lia.
Qed.

(** [Drain] returns exactly when no accepted session is still alive — for the SMTP server and
    for the POP3 server, as coded now, in every reachable state. *)
Theorem drain_exact :
  forall p acts y, run (sys_init p) acts = Some y ->
    (drain_returns y = true <-> forall i s, In (i, s) (ss (sv y)) -> alive s = false).
Proof.
  intros p acts y R. assert (C : counted y) by (eapply counted_run; [|exact R]; reflexivity).
  unfold drain_returns. rewrite Nat.eqb_eq, C. apply total_zero.
Qed.

(** * Nothing new starts after the listener has been closed *)

Lemma closed_stays acts : forall y y', lopen (sv y) = false -> run y acts = Some y' ->
  lopen (sv y') = false /\ map fst (ss (sv y')) = map fst (ss (sv y)).
Proof.
  induction acts as [|a t IH]; intros y y' L R; cbn [run] in R.
  - inversion R; subst; auto.
  - destruct (step y a) as [y1|] eqn:E; [|discriminate].
    assert (lopen (sv y1) = false /\ map fst (ss (sv y1)) = map fst (ss (sv y))) as [L1 M1].
    { assert (Sess : forall i, target a = Some i ->
                match find_s i (ss (sv y)) with
                | None => None
                | Some s =>
                    match sess_step (pr (sv y)) (cancelled y) (lopen (sv y)) s a with
                    | None => None
                    | Some (s', inc, dec) =>
                        Some (mkSys (cancelled y) (mkSrv (pr (sv y)) (lopen (sv y)) (wg (sv y) + inc - dec) (upd_s i s' (ss (sv y)))))
                    end
                end = Some y1 -> lopen (sv y1) = false /\ map fst (ss (sv y1)) = map fst (ss (sv y))).
      { intros i _ E1. destruct (find_s i (ss (sv y))) as [s|]; [|discriminate].
        destruct (sess_step (pr (sv y)) (cancelled y) (lopen (sv y)) s a) as [[[s' inc] dec]|]; [|discriminate].
        inversion E1; subst y1. cbn [sv lopen ss]. split; auto.
        generalize (ss (sv y)). induction l as [|[k x] l IHl]; cbn [upd_s map fst]; auto.
        destruct (Nat.eqb k i); cbn [map fst]; [reflexivity|]. rewrite IHl. reflexivity. }
      destruct a; cbn [step] in E; try (eapply Sess; [reflexivity|exact E]).
      - rewrite L in E. discriminate.
      - inversion E; subst. auto.
      - rewrite L, Bool.andb_false_r in E. discriminate. }
    destruct (IH y1 y' L1 R) as [L2 M2]. split; auto. congruence.
Qed.

Theorem no_accept_after_close :
  forall y y0 acts y' i,
    step y LClose = Some y0 -> run y0 acts = Some y' ->
    step y' (Accept i) = None /\ map fst (ss (sv y')) = map fst (ss (sv y)).
Proof.
  intros y y0 acts y' i E R. cbn [step] in E. destruct (cancelled y && lopen (sv y)); [|discriminate].
  inversion E; subst y0; clear E.
  destruct (closed_stays acts (mkSys true (mkSrv (pr (sv y)) false (wg (sv y)) (ss (sv y)))) y' eq_refl R) as [L M]. split; auto.
  cbn [step]. rewrite L. reflexivity.
Qed.

(** The listener is closed only on request. *)
Theorem close_only_after_cancel :
  forall y y', step y LClose = Some y' -> cancelled y = true.
Proof.
  intros y y' E. cbn [step] in E. destruct (cancelled y); [reflexivity|discriminate].
Qed.

(** * An open session is untouched by shutdown *)

Definition is_shutdown (a : action) : bool := match a with Cancel | LClose => true | _ => false end.

(** Same sessions and counter; the first one still has its listener open. *)
Definition same_sessions (y1 y2 : sys) : Prop :=
  ss (sv y1) = ss (sv y2) /\ wg (sv y1) = wg (sv y2) /\ pr (sv y1) = pr (sv y2) /\ lopen (sv y1) = true.

Lemma unaffected_gen acts : forall y1 y2 y2', same_sessions y1 y2 -> run y2 acts = Some y2' ->
  exists y1', run y1 (filter (fun a => negb (is_shutdown a)) acts) = Some y1' /\ same_sessions y1' y2'.
Proof.
  induction acts as [|a t IH]; intros y1 y2 y2' S R; cbn [run filter] in *.
  - inversion R; subst. exists y1. split; auto.
  - destruct (step y2 a) as [y3|] eqn:E; [|discriminate].
    destruct S as (S1 & S2 & S3 & S4).
    destruct a; cbn [is_shutdown negb run].
    1-7: cbn [step target] in *.
    + (* Accept *) destruct (lopen (sv y2)); [|discriminate]. rewrite S4, S1.
      destruct (find_s i (ss (sv y2))); [discriminate|]. inversion E; subst y3; clear E.
      eapply IH; [|exact R]. cbn. rewrite S2, S3. repeat split; auto.
    + rewrite S1, S3. destruct (find_s i (ss (sv y2))) as [s|]; [|discriminate].
      rewrite (session_step_ignores_shutdown (pr (sv y2)) (cancelled y1) (lopen (sv y1)) (cancelled y2) (lopen (sv y2))).
      destruct (sess_step (pr (sv y2)) (cancelled y2) (lopen (sv y2)) s (Begin i)) as [[[s' inc] dec]|]; [|discriminate].
      inversion E; subst y3; clear E. eapply IH; [|exact R]. cbn. rewrite S2. repeat split; auto.
    + rewrite S1, S3. destruct (find_s i (ss (sv y2))) as [s|]; [|discriminate].
      rewrite (session_step_ignores_shutdown (pr (sv y2)) (cancelled y1) (lopen (sv y1)) (cancelled y2) (lopen (sv y2))).
      destruct (sess_step (pr (sv y2)) (cancelled y2) (lopen (sv y2)) s (Client i to)) as [[[s' inc] dec]|]; [|discriminate].
      inversion E; subst y3; clear E. eapply IH; [|exact R]. cbn. rewrite S2. repeat split; auto.
    + rewrite S1, S3. destruct (find_s i (ss (sv y2))) as [s|]; [|discriminate].
      rewrite (session_step_ignores_shutdown (pr (sv y2)) (cancelled y1) (lopen (sv y1)) (cancelled y2) (lopen (sv y2))).
      destruct (sess_step (pr (sv y2)) (cancelled y2) (lopen (sv y2)) s (Quit i)) as [[[s' inc] dec]|]; [|discriminate].
      inversion E; subst y3; clear E. eapply IH; [|exact R]. cbn. rewrite S2. repeat split; auto.
    + rewrite S1, S3. destruct (find_s i (ss (sv y2))) as [s|]; [|discriminate].
      rewrite (session_step_ignores_shutdown (pr (sv y2)) (cancelled y1) (lopen (sv y1)) (cancelled y2) (lopen (sv y2))).
      destruct (sess_step (pr (sv y2)) (cancelled y2) (lopen (sv y2)) s (Purge i)) as [[[s' inc] dec]|]; [|discriminate].
      inversion E; subst y3; clear E. eapply IH; [|exact R]. cbn. rewrite S2. repeat split; auto.
    + rewrite S1, S3. destruct (find_s i (ss (sv y2))) as [s|]; [|discriminate].
      rewrite (session_step_ignores_shutdown (pr (sv y2)) (cancelled y1) (lopen (sv y1)) (cancelled y2) (lopen (sv y2))).
      destruct (sess_step (pr (sv y2)) (cancelled y2) (lopen (sv y2)) s (Abort i)) as [[[s' inc] dec]|]; [|discriminate].
      inversion E; subst y3; clear E. eapply IH; [|exact R]. cbn. rewrite S2. repeat split; auto.
    + rewrite S1, S3. destruct (find_s i (ss (sv y2))) as [s|]; [|discriminate].
      rewrite (session_step_ignores_shutdown (pr (sv y2)) (cancelled y1) (lopen (sv y1)) (cancelled y2) (lopen (sv y2))).
      destruct (sess_step (pr (sv y2)) (cancelled y2) (lopen (sv y2)) s (Exit i)) as [[[s' inc] dec]|]; [|discriminate].
      inversion E; subst y3; clear E. eapply IH; [|exact R]. cbn. rewrite S2. repeat split; auto.
    + (* Cancel *) cbn [step] in E. inversion E; subst y3. eapply IH; [|exact R]. cbn. repeat split; auto.
    + (* LClose *) cbn [step] in E. destruct (cancelled y2 && lopen (sv y2)); [|discriminate].
      inversion E; subst y3. eapply IH; [|exact R]. cbn. repeat split; auto.
Qed.

(** Take any schedule, with shutdown requested at any moment(s); erase the cancellation and
    the closing of the listener: the schedule is still possible, and every session goes through
    exactly the same states (replies, stored messages, applied deletions) and the counter is
    the same.  I.e. a session that is open when shutdown is requested completes its dialogue as
    if nothing had happened. *)
Theorem open_session_unaffected :
  forall p acts y, run (sys_init p) acts = Some y ->
    exists y0, run (sys_init p) (filter (fun a => negb (is_shutdown a)) acts) = Some y0 /\
               ss (sv y0) = ss (sv y) /\ wg (sv y0) = wg (sv y).
Proof.
  intros p acts y R.
  destruct (unaffected_gen acts (sys_init p) (sys_init p) y) as (y0 & R0 & S); auto.
  - repeat split; reflexivity.
  - exists y0. destruct S as (S1 & S2 & _). auto.
Qed.

(** Concretely: whatever the shutdown flags, QUIT is possible in every running position. SMTP: a
    message whose DATA was accepted is stored and acknowledged first. POP3 in TRANSACTION state:
    the session enters UPDATE, where removing the marked messages is possible whatever the flags
    and is what ends the session. *)
Theorem inflight_completes :
  forall y i s, find_s i (ss (sv y)) = Some s -> running (ph s) = true ->
    exists y' s', step y (Quit i) = Some y' /\ find_s i (ss (sv y')) = Some s' /\
      stored s' = (match ph s with SData | SBody => S (stored s) | _ => stored s end) /\
      (ph s' = Ending \/
       (ph s' = PUpdate /\ exists y'' s'', step y' (Purge i) = Some y'' /\ find_s i (ss (sv y'')) = Some s'' /\
          ph s'' = Ending /\ left s'' = if marked s then 0 else left s)).
Proof.
  intros y i s F Rn.
  assert (U : forall (xs : list (nat * session)) x, find_s i xs <> None -> find_s i (upd_s i x xs) = Some x).
  { induction xs as [|[k z] t IH]; cbn [find_s upd_s]; [congruence|]. intros x.
    destruct (Nat.eqb k i) eqn:E; cbn [find_s]; rewrite E; auto. }
  cbn [step target]. rewrite F. cbn [sess_step]. rewrite Rn.
  destruct (ph s) eqn:P; cbn in Rn; try discriminate.
  all: try (eexists; eexists; split; [reflexivity|]; cbn [sv ss]; split; [apply U; congruence|];
            split; [reflexivity|]; left; reflexivity).
  all: eexists; eexists; split; [reflexivity|]; cbn [sv ss]; split; [apply U; congruence|];
       split; [reflexivity|]; right; split; [reflexivity|];
       cbn [step target sv ss]; rewrite U by congruence; cbn [sess_step ph];
       eexists; eexists; split; [reflexivity|]; cbn [sv ss]; split; [apply U; rewrite U; congruence|];
       split; reflexivity.
Qed.

(** * Drain also waits for the deletions of a QUIT *)

(** A session whose QUIT was accepted in TRANSACTION state is past UPDATE only when its marked
    messages are gone; before its command loop is over it has not committed. *)
Definition purged (s : session) : Prop :=
  match ph s with
  | Ending | Ended => committed s = true -> marked s = true -> left s = 0
  | PUpdate => True
  | _ => committed s = false
  end.

Lemma purged_sess_step pz c0 l0 s a s' inc dec : purged s -> sess_step pz c0 l0 s a = Some (s', inc, dec) -> purged s'.
Proof.
  unfold purged. destruct a; cbn [sess_step]; try discriminate.
  - destruct (ph s) eqn:P; try discriminate. intros H E. inversion E; subst. cbn. exact H.
  - destruct (rank pz (ph s)) as [a|] eqn:R1; [|discriminate].
    destruct (rank pz to) as [b|] eqn:R2; [|discriminate]. destruct (a <? b); [|discriminate].
    intros H E. inversion E; subst. cbn [ph committed].
    destruct pz, (ph s); cbn in R1; try discriminate; destruct to; cbn in R2; try discriminate; exact H.
  - destruct (running (ph s)) eqn:R; [|discriminate].
    destruct (ph s) eqn:P; cbn in R; try discriminate; intros H E; inversion E; subst; cbn; auto; intros; congruence.
  - destruct (ph s) eqn:P; try discriminate. intros H E. inversion E; subst. cbn. intros _ ->. reflexivity.
  - destruct (running (ph s)) eqn:R; [|discriminate].
    destruct (ph s) eqn:P; cbn in R; try discriminate; intros H E; inversion E; subst; cbn; intros; congruence.
  - destruct (ph s) eqn:P; try discriminate. intros H E. inversion E; subst. cbn. exact H.
Qed.

Definition all_purged (y : sys) : Prop := forall i s, In (i, s) (ss (sv y)) -> purged s.

Lemma in_upd_s i s' xs j x : In (j, x) (upd_s i s' xs) -> In (j, x) xs \/ x = s'.
Proof.
  induction xs as [|[k z] t IH]; cbn [upd_s In]; [tauto|].
  destruct (Nat.eqb k i); cbn [In].
  - intros [E|E]; [inversion E; auto|auto].
  - intros [E|E]; auto. destruct (IH E); auto.
Qed.

Lemma find_s_in i s xs : find_s i xs = Some s -> In (i, s) xs.
Proof.
  induction xs as [|[k z] t IH]; cbn [find_s In]; [discriminate|].
  destruct (Nat.eqb k i) eqn:E.
  - apply Nat.eqb_eq in E. subst. intros H. inversion H; auto.
  - auto.
Qed.

Lemma all_purged_step y a y' : all_purged y -> step y a = Some y' -> all_purged y'.
Proof.
  unfold all_purged. intros C E.
  assert (Sess : forall i, target a = Some i ->
            match find_s i (ss (sv y)) with
            | None => None
            | Some s =>
                match sess_step (pr (sv y)) (cancelled y) (lopen (sv y)) s a with
                | None => None
                | Some (s', inc, dec) =>
                    Some (mkSys (cancelled y) (mkSrv (pr (sv y)) (lopen (sv y)) (wg (sv y) + inc - dec) (upd_s i s' (ss (sv y)))))
                end
            end = Some y' -> forall j x, In (j, x) (ss (sv y')) -> purged x).
  { intros i _ E1. destruct (find_s i (ss (sv y))) as [s|] eqn:F; [|discriminate].
    destruct (sess_step (pr (sv y)) (cancelled y) (lopen (sv y)) s a) as [[[s' inc] dec]|] eqn:SS; [|discriminate].
    inversion E1; subst y'; clear E1. cbn [sv ss]. intros j x H.
    destruct (in_upd_s _ _ _ _ _ H) as [H1| ->]; [eauto|].
    eapply purged_sess_step; [|exact SS]. eapply C. eapply find_s_in; eauto. }
  destruct a; cbn [step] in E; try (eapply Sess; [reflexivity|exact E]).
  - destruct (lopen (sv y)); [|discriminate]. destruct (find_s i (ss (sv y))); [discriminate|].
    inversion E; subst y'. cbn [sv ss]. intros j x H. apply in_app_iff in H. destruct H as [H|[H|[]]]; eauto.
    inversion H; subst. cbn. reflexivity.
  - inversion E; subst. exact C.
  - destruct (cancelled y && lopen (sv y)); [|discriminate]. inversion E; subst. exact C.
Qed.

Lemma all_purged_run acts : forall y y', all_purged y -> run y acts = Some y' -> all_purged y'.
Proof.
  induction acts as [|a t IH]; intros y y' C R; cbn [run] in R.
  - inversion R; subst; auto.
  - destruct (step y a) eqn:E; [|discriminate]. eapply IH; [|exact R]. eapply all_purged_step; eauto.
Qed.

(** When Drain returns, every session has ended (drain_exact) AND the marked messages of every
    session that QUIT in TRANSACTION state have been removed: the deletions are part of the
    session that Drain waits for, not something left running behind it. *)
Theorem drain_waits_for_quit_deletes :
  forall p acts y, run (sys_init p) acts = Some y -> drain_returns y = true ->
    forall i s, In (i, s) (ss (sv y)) -> committed s = true -> marked s = true -> left s = 0.
Proof.
  intros p acts y R D i s H Cm Mk.
  assert (A : alive s = false) by (eapply (proj1 (drain_exact p acts y R)); eauto).
  assert (P : purged s). { eapply (all_purged_run acts (sys_init p) y); eauto. intros j x []. }
  unfold alive in A. unfold purged in P. destruct (ph s); try discriminate. auto.
Qed.

(** * The retention scanner stops *)

(** Once the context is cancelled the scanner goroutine needs at most two of its own steps
    (finish the mailbox it is visiting; notice the cancellation) to close its shutdown channel,
    from whatever state it was in, and then stays stopped: [Join] returns. *)
Theorem retention_stops :
  forall n k r, 2 <= k -> rsteps true n k r = RStopped.
Proof.
  intros n k r H. destruct k as [|[|k]]; try lia. cbn [rsteps].
  assert (S2 : rstep true n (rstep true n r) = RStopped) by (destruct r as [| [|j] | |]; reflexivity).
  rewrite S2. clear. induction k; cbn [rsteps rstep]; auto.
Qed.

(** A disabled scanner (retention period <= 0) is stopped from the start. *)
Theorem retention_disabled_joined : rinit false = RStopped.
Proof. reflexivity. Qed.

(** Without cancellation an enabled scanner never stops by itself. *)
Theorem retention_runs_until_cancel :
  forall n k, rsteps false n k RSleep <> RStopped.
Proof.
  intros n k. assert (G : forall k r, r <> RStopped -> rsteps false n k r <> RStopped).
  { induction k0 as [|k0 IH]; intros r H; cbn [rsteps]; auto. apply IH.
    destruct r as [| [|j] | |]; cbn; congruence. }
  apply G. discriminate.
Qed.

(** * Non-vacuity *)

Definition demo_smtp_acts : list action :=
  [Accept 1; Begin 1; Client 1 SData; Accept 2; Cancel; LClose; Client 1 SBody; Begin 2;
   Quit 1; Exit 1; Abort 2].
Definition demo_smtp_state : sys :=
  match run (sys_init PSmtp) demo_smtp_acts with Some y => y | None => sys_init PSmtp end.

Example demo_smtp :
  run (sys_init PSmtp) demo_smtp_acts = Some demo_smtp_state
  /\ drain_returns demo_smtp_state = false
  /\ find_s 1 (ss (sv demo_smtp_state)) = Some (mkS Ended 1 1 false false) /\ wg (sv demo_smtp_state) = 1.
Proof. vm_compute. repeat split; reflexivity. Qed.

Definition demo_pop3_acts : list action :=
  [Accept 1; Begin 1; Client 1 PDele; Cancel; LClose; Quit 1; Purge 1; Exit 1].
Definition demo_pop3_state : sys :=
  match run (sys_init PPop3) demo_pop3_acts with Some y => y | None => sys_init PPop3 end.

Example demo_pop3 :
  run (sys_init PPop3) demo_pop3_acts = Some demo_pop3_state
  /\ drain_returns demo_pop3_state = true
  /\ find_s 1 (ss (sv demo_pop3_state)) = Some (mkS Ended 0 0 true true).
Proof. vm_compute. repeat split; reflexivity. Qed.

(** C06: the SIZE declaration as the MAIL parser sees it against the declaration read without the patterns
    ([declared_size_spec], Model/SmtpMailParse.v).  The parser is regenerated from the source on every run; these
    commands - SIZE first, in the middle, last, in any letter case, next to BODY= and AUTH=<> - are evaluated with it
    each time: on each of them the parser accepts the command and sees exactly the declared value. *)
From IV Require Import Base.Bytes Base.Regex Gen.SmtpRegex Model.Policy Model.Smtp Model.SmtpWire Model.SmtpAddr Model.SmtpMailParse.

Definition size_samples : list str :=
  [[70; 82; 79; 77; 58; 60; 97; 64; 98; 46; 111; 114; 103; 62; 32; 83; 73; 90; 69; 61; 49; 48; 48; 48; 48];
   [70; 82; 79; 77; 58; 60; 97; 64; 98; 46; 111; 114; 103; 62; 32; 83; 73; 90; 69; 61; 49; 48; 48; 48; 48; 32; 66; 79; 68; 89; 61; 56; 66; 73; 84; 77; 73; 77; 69];
   [70; 82; 79; 77; 58; 60; 97; 64; 98; 46; 111; 114; 103; 62; 32; 66; 79; 68; 89; 61; 56; 66; 73; 84; 77; 73; 77; 69; 32; 83; 73; 90; 69; 61; 49; 48; 48; 48; 48];
   [70; 82; 79; 77; 58; 60; 97; 64; 98; 46; 111; 114; 103; 62; 32; 115; 105; 122; 101; 61; 49; 48; 48; 48; 48; 32; 65; 85; 84; 72; 61; 60; 62];
   [70; 82; 79; 77; 58; 60; 97; 64; 98; 46; 111; 114; 103; 62; 32; 66; 79; 68; 89; 61; 56; 66; 73; 84; 77; 73; 77; 69; 32; 83; 105; 122; 101; 61; 48; 48; 55; 32; 65; 85; 84; 72; 61; 60; 62];
   [70; 82; 79; 77; 58; 60; 62; 32; 83; 73; 90; 69; 61; 53; 32; 66; 79; 68; 89; 61; 55; 66; 73; 84];
   [102; 114; 111; 109; 58; 32; 60; 97; 64; 98; 46; 111; 114; 103; 62; 32; 83; 73; 90; 69; 61; 49; 50; 51; 52; 53; 54; 55; 56; 57; 48; 49; 50; 32; 88; 61; 49]  (* from: <a@b.org> SIZE=123456789012 X=1 *)].

Definition sample_ok (a : str) : bool :=
  match mail_facts_of (fun _ => false) a, declared_size_spec a with
  | Some f, Some ds => mf_match f && mf_params_ok f && size_seen_ok a f
  | _, _ => false
  end.

Theorem declared_size_is_seen_wherever_it_stands : forallb sample_ok size_samples = true.
Proof. vm_compute. reflexivity. Qed.

(** the independent reading itself, on the first two samples: 10000, wherever it stands *)
Theorem declared_size_spec_samples :
  map declared_size_spec (firstn 3 size_samples) = [Some [49;48;48;48;48]; Some [49;48;48;48;48]; Some [49;48;48;48;48]].
Proof. vm_compute. reflexivity. Qed.

(** No demand where the reading cannot be sure where the path ends (second audit, C06-M1): a quoted pair or a quoted
    local part may hold "> SIZE=1 " INSIDE the reverse-path; the patterns rightly see no SIZE parameter there. *)
Definition no_demand_samples : list str :=
  [[70; 82; 79; 77; 58; 60; 97; 92; 62; 32; 83; 73; 90; 69; 61; 49; 32; 64; 98; 62; 32; 88; 61; 49];
   [70; 82; 79; 77; 58; 60; 34; 97; 62; 32; 83; 73; 90; 69; 61; 49; 32; 34; 64; 98; 46; 111; 114; 103; 62; 32; 88; 61; 53]].
Theorem no_demand_inside_quoted_paths :
  forallb (fun a => match declared_size_spec a with None => true | Some _ => false end) no_demand_samples = true /\
  forallb (fun a => match mail_facts_of (fun _ => false) a with Some f => size_seen_ok a f | None => false end) no_demand_samples = true.
Proof. vm_compute. split; reflexivity. Qed.

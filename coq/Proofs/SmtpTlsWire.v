(** STARTTLS on the wire (Model/SmtpWire.v, [run_stream_tls]): the byte-level loop with the switch to TLS is still a
    run of the session step over its items - so every item-level theorem (sequencing, one reply per line, the size
    and accept rules, [delivery_exact]) holds of it -, it is the plain loop when there is no plaintext left, and
    plaintext pipelined behind an accepted STARTTLS line is never executed: the result does not depend on it.
    STATUS (second audit): [starttls_switch] / [injected_plaintext_is_never_executed] hold by the definition of the
    model's switch ([drop_plain]); that the code behaves so is tied by the smtptls stream (real handshake, plaintext
    pipelined in the same segment) and by the mutant seeded/own-C03-starttls-injection.  Scope: plaintext that was in
    the session's 4 KiB read buffer when the connection was wrapped.  What had not been read yet reaches the TLS
    handshake as garbage: it is not executed either, but the session ends there - the model would go on with the TLS
    part.  The plain loops [run_bytes] / [run_net] / [run_net_w] are the model of a TLS-enabled server only for streams
    with nothing pipelined behind an accepted STARTTLS ([tls_stream_without_plaintext] is the bridge at byte level;
    TLS together with pauses or failing writes is not modelled). *)
From IV Require Import Base.Bytes Base.BytesFacts Model.Policy Model.Smtp Model.Dot Model.SmtpWire Proofs.SmtpInv Proofs.SmtpThms Proofs.DotCodec Proofs.SmtpCut Proofs.SmtpTls.
From Coq Require Import ZifyBool ZifyNat ZifyN Lia.

Lemma run_stream_tls_run : forall fuel c o s w tl,
  let '(its, tr, sf) := run_stream_tls fuel c o s w tl in fst (run c s its) = tr.
Proof.
  induction fuel as [|f IH]; intros c o s w tl; cbn [run_stream_tls]; [reflexivity|].
  destruct (st s) eqn:Es; try reflexivity;
    (destruct (next_item o s w) as [it rest];
     destruct (step c s it) as [s' rp d| |] eqn:E; try reflexivity;
     match goal with |- context [run_stream_tls f c o s' ?x tl] => specialize (IH c o s' x tl);
       destruct (run_stream_tls f c o s' x tl) as [[its tr] sf] end;
     cbn [run]; rewrite E; destruct (run c s' its) as [tr' e]; cbn [fst] in *; subst; reflexivity).
Qed.

(** hence, for every plaintext / TLS split of every byte stream: *)
Theorem tls_sequencing : forall c o plain secure,
  forallb sane_item (fst (fst (run_bytes_tls c o plain secure))) = true ->
  seq_ok false false 0 (dialogue (snd (fst (run_bytes_tls c o plain secure)))) = true.
Proof.
  intros c o plain secure H. unfold run_bytes_tls in *.
  pose proof (run_stream_tls_run (length plain + length secure + 2) c o init (plain ++ secure) (length secure)) as R.
  destruct (run_stream_tls _ c o init (plain ++ secure) (length secure)) as [[its tr] sf]. cbn [fst snd] in *.
  rewrite <- R. apply sequencing. exact H.
Qed.

Theorem tls_delivery_exact : forall c o plain secure,
  forallb sane_item (fst (fst (run_bytes_tls c o plain secure))) = true ->
  let tr := snd (fst (run_bytes_tls c o plain secure)) in
  deliveries_of tr = entitled c None [] [] (dialogue tr).
Proof.
  intros c o plain secure H. unfold run_bytes_tls in *.
  pose proof (run_stream_tls_run (length plain + length secure + 2) c o init (plain ++ secure) (length secure)) as R.
  destruct (run_stream_tls _ c o init (plain ++ secure) (length secure)) as [[its tr] sf]. cbn [fst snd] in *.
  rewrite <- R. apply delivery_exact. exact H.
Qed.

Theorem tls_one_reply_per_item : forall c o plain secure,
  forallb reply_ok (dialogue (snd (fst (run_bytes_tls c o plain secure)))) = true.
Proof.
  intros c o plain secure. unfold run_bytes_tls.
  pose proof (run_stream_tls_run (length plain + length secure + 2) c o init (plain ++ secure) (length secure)) as R.
  destruct (run_stream_tls _ c o init (plain ++ secure) (length secure)) as [[its tr] sf]. cbn [fst snd] in *.
  rewrite <- R. apply one_reply_per_line.
Qed.

(** nothing to drop: the plain loop *)
Lemma next_item_rest_le o s w : (length (snd (next_item o s w)) <= length w)%nat.
Proof.
  destruct w as [|b w].
  - unfold next_item. destruct (st s); cbn; lia.
  - pose proof (next_item_shorter o s (b :: w) ltac:(discriminate)). lia.
Qed.

Lemma drop_plain_all tl rest : (length rest <= tl)%nat -> drop_plain tl rest = rest.
Proof. intros H. unfold drop_plain. replace (length rest - tl)%nat with 0%nat by lia. reflexivity. Qed.

Theorem tls_stream_without_plaintext : forall f c o s w tl,
  (length w <= tl)%nat -> run_stream_tls f c o s w tl = run_stream f c o s w.
Proof.
  induction f as [|f IH]; intros c o s w tl H; [reflexivity|]. cbn [run_stream_tls run_stream].
  pose proof (next_item_rest_le o s w) as Hl.
  destruct (st s); try reflexivity;
    (destruct (next_item o s w) as [it rest]; cbn [snd] in Hl;
     destruct (step c s it) as [s' r d| |]; try reflexivity;
     rewrite drop_plain_all by lia;
     destruct (accepted_starttls it r); rewrite IH by lia; reflexivity).
Qed.

(** The switch itself: a STARTTLS line the session accepts, plaintext [junk] pipelined behind it, then the TLS part. *)
Theorem starttls_switch : forall f c o s line junk secure,
  st s = READY -> tls_enabled c = true -> tls s = false ->
  ~ In LFb line -> line <> [] -> classify o (drop_last_cr line) = Starttls ->
  run_stream_tls (S f) c o s (line ++ LFb :: junk ++ secure) (length secure) =
  let s' := {| st := GREET; from := from s; rcpts := rcpts s; helo := []; tls := true |} in
  let '(its, tr, sf) := run_stream_tls f c o s' secure (length secure) in
  (L Starttls :: its, (L Starttls, one 220, []) :: tr, sf).
Proof.
  intros f c o s line junk secure Hs Ht Hf Hn Hne Hc. cbn [run_stream_tls]. rewrite Hs.
  unfold next_item. rewrite Hs. unfold read_line.
  destruct (line ++ LFb :: junk ++ secure) as [|b w] eqn:Ew; [destruct line; discriminate|]. rewrite <- Ew.
  rewrite split_lf_app by exact Hn. rewrite Hc.
  pose proof (starttls_answer c s Hs) as Ha. rewrite Ht, Hf in Ha. cbn [andb negb] in Ha. rewrite Ha.
  cbn [accepted_starttls one]. unfold drop_plain. rewrite app_length.
  replace (length junk + length secure - length secure)%nat with (length junk) by lia.
  rewrite skipn_app, skipn_all, Nat.sub_diag. cbn [skipn app]. reflexivity.
Qed.

(** ... so what was pipelined in plaintext behind the STARTTLS line is irrelevant: it is never executed. *)
Theorem injected_plaintext_is_never_executed : forall f c o s line junk1 junk2 secure,
  st s = READY -> tls_enabled c = true -> tls s = false ->
  ~ In LFb line -> line <> [] -> classify o (drop_last_cr line) = Starttls ->
  run_stream_tls (S f) c o s (line ++ LFb :: junk1 ++ secure) (length secure) =
  run_stream_tls (S f) c o s (line ++ LFb :: junk2 ++ secure) (length secure).
Proof. intros. rewrite !starttls_switch by assumption. reflexivity. Qed.

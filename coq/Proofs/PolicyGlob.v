(** The wildcard matcher of the model (the DP exactly as coded) computes the glob
    specification on every input that holds no ['*'] itself. *)
From IV Require Import Base.Bytes Base.BytesFacts Model.Policy.

Definition okc (c d : N) : bool := (c =? qmark) || (d =? c).

Lemma existsb_ext' {A} (f g : A -> bool) l : (forall x, f x = g x) -> existsb f l = existsb g l.
Proof. intros H; induction l as [|x l IH]; simpl; [reflexivity|]. rewrite H, IH; reflexivity. Qed.

Lemma existsb_map' {A B} (f : B -> bool) (g : A -> B) l : existsb f (map g l) = existsb (fun x => f (g x)) l.
Proof. induction l as [|x l IH]; simpl; [reflexivity|]. rewrite IH; reflexivity. Qed.

Lemma existsb_andb_l {A} (b : bool) (f : A -> bool) l : existsb (fun x => b && f x) l = b && existsb f l.
Proof. induction l as [|x l IH]; simpl; [destruct b; reflexivity|]. rewrite IH. destruct b, (f x); reflexivity. Qed.

Lemma existsb_orb {A} (f g : A -> bool) l : existsb (fun x => f x || g x) l = existsb f l || existsb g l.
Proof.
  induction l as [|x l IH]; simpl; [reflexivity|]. rewrite IH.
  destruct (f x), (g x), (existsb f l), (existsb g l); reflexivity.
Qed.

Lemma suffixes_snoc s d : suffixes (s ++ [d]) = map (fun t => t ++ [d]) (suffixes s) ++ [[]].
Proof. induction s as [|x s IH]; simpl; [reflexivity|]. rewrite IH. reflexivity. Qed.

Lemma suffixes_last_nil s : existsb (globb []) (suffixes s) = true.
Proof. induction s as [|x s IH]; simpl; [reflexivity|exact IH]. Qed.

Lemma globb_nil_snoc s d : globb [] (s ++ [d]) = false.
Proof. destruct s; reflexivity. Qed.

(** Snoc lemma (a): the empty input. *)
Lemma globb_snoc_nil p c : globb (p ++ [c]) [] = (c =? star) && globb p [].
Proof.
  induction p as [|x p IH]; simpl.
  - destruct (c =? star); reflexivity.
  - destruct (x =? star); simpl.
    + rewrite IH. rewrite !orb_false_r. reflexivity.
    + rewrite andb_false_r. reflexivity.
Qed.

(** Snoc lemma (b): a non-star pattern character at the end. *)
Lemma globb_cons c p s :
  globb (c :: p) s = if c =? star then existsb (globb p) (suffixes s)
                     else match s with [] => false | d :: s' => okc c d && globb p s' end.
Proof. reflexivity. Qed.

Lemma globb_snoc_char p c s d :
  (c =? star) = false -> globb (p ++ [c]) (s ++ [d]) = okc c d && globb p s.
Proof.
  intros Hc. revert s. induction p as [|x p IH]; intros s.
  - cbn [app]. rewrite globb_cons, Hc. destruct s as [|e s]; cbn [app].
    + cbn [globb]. rewrite andb_true_r. reflexivity.
    + rewrite globb_nil_snoc. cbn [globb]. rewrite !andb_false_r. reflexivity.
  - cbn [app]. rewrite !globb_cons. destruct (x =? star) eqn:Hx.
    + rewrite suffixes_snoc, existsb_app, existsb_map'. cbn [existsb].
      rewrite globb_snoc_nil, Hc. cbn [andb orb]. rewrite orb_false_r.
      rewrite (existsb_ext' _ (fun t => okc c d && globb p t)) by (intros t; apply IH).
      apply existsb_andb_l.
    + destruct s as [|e s]; cbn [app].
      * rewrite globb_snoc_nil, Hc. cbn [andb]. rewrite !andb_false_r. reflexivity.
      * rewrite IH. destruct (okc x e), (okc c d), (globb p s); reflexivity.
Qed.

(** Snoc lemma (c): a star at the end of the pattern. *)
Lemma globb_snoc_star p s d :
  globb (p ++ [star]) (s ++ [d]) = globb (p ++ [star]) s || globb p (s ++ [d]).
Proof.
  revert s. induction p as [|x p IH]; intros s.
  - cbn [app]. rewrite !globb_cons. replace (star =? star) with true by reflexivity.
    rewrite !suffixes_last_nil. reflexivity.
  - cbn [app]. rewrite !globb_cons. destruct (x =? star) eqn:Hx.
    + rewrite !suffixes_snoc, !existsb_app, !existsb_map'. cbn [existsb].
      rewrite (existsb_ext' _ (fun t => globb (p ++ [star]) t || globb p (t ++ [d]))) by (intros t; apply IH).
      rewrite existsb_orb, globb_snoc_nil. replace (star =? star) with true by reflexivity. cbn [andb].
      rewrite !orb_false_r.
      symmetry. apply orb_assoc.
    + destruct s as [|e s]; cbn [app].
      * rewrite globb_snoc_nil. replace (star =? star) with true by reflexivity. cbn [andb orb]. reflexivity.
      * rewrite IH. destruct (okc x e), (globb (p ++ [star]) s), (globb p (s ++ [d])); reflexivity.
Qed.

(** The ideal DP row: column j holds [globb (firstn j p) s]. *)
Fixpoint ideal_from (pre rest s : str) : list bool :=
  globb pre s :: match rest with
                 | [] => []
                 | c :: rest' => ideal_from (pre ++ [c]) rest' s
                 end.
Definition ideal (p s : str) : list bool := ideal_from [] p s.

Lemma ideal_from_unfold pre rest s :
  ideal_from pre rest s = globb pre s :: match rest with [] => [] | c :: rest' => ideal_from (pre ++ [c]) rest' s end.
Proof. destruct rest; reflexivity. Qed.

Lemma row0_from_ideal pre rest :
  row0_from (globb pre []) rest = tl (ideal_from pre rest []).
Proof.
  revert pre. induction rest as [|c rest IH]; intros pre; [reflexivity|].
  cbn [row0_from ideal_from tl].
  rewrite <- globb_snoc_nil. rewrite IH.
  rewrite (ideal_from_unfold (pre ++ [c]) rest []). reflexivity.
Qed.

Lemma row0_ideal p : row0 p = ideal p [].
Proof.
  unfold row0, ideal. change true with (globb [] []). rewrite row0_from_ideal.
  rewrite (ideal_from_unfold [] p []). reflexivity.
Qed.

Lemma next_row_ideal d pre rest s :
  (d =? star) = false ->
  next_row d rest (ideal_from pre rest s) (globb pre (s ++ [d])) = tl (ideal_from pre rest (s ++ [d])).
Proof.
  intros Hd. revert pre. induction rest as [|c rest IH]; intros pre; [reflexivity|].
  cbn [ideal_from tl].
  rewrite (ideal_from_unfold (pre ++ [c]) rest s).
  cbn [next_row].
  assert (Hv : (if (c =? qmark) || (d =? c)
                then globb pre s
                else if c =? star then globb (pre ++ [c]) s || globb pre (s ++ [d]) else false)
               = globb (pre ++ [c]) (s ++ [d])).
  { destruct (c =? star) eqn:Hc.
    - apply N.eqb_eq in Hc. subst c.
      replace (star =? qmark) with false by reflexivity. rewrite Hd. cbn [orb].
      rewrite globb_snoc_star. reflexivity.
    - rewrite (globb_snoc_char _ _ _ _ Hc). unfold okc.
      destruct ((c =? qmark) || (d =? c)); reflexivity. }
  rewrite Hv.
  rewrite <- (ideal_from_unfold (pre ++ [c]) rest s).
  rewrite IH.
  rewrite (ideal_from_unfold (pre ++ [c]) rest (s ++ [d])). reflexivity.
Qed.

Lemma step_row_ideal p s d :
  (d =? star) = false -> step_row p (ideal p s) d = ideal p (s ++ [d]).
Proof.
  intros Hd. unfold step_row, ideal.
  pose proof (next_row_ideal d [] p s Hd) as H. rewrite globb_nil_snoc in H. rewrite H.
  rewrite (ideal_from_unfold [] p (s ++ [d])). rewrite globb_nil_snoc. reflexivity.
Qed.

Lemma fold_rows p s :
  forallb (fun d => negb (d =? star)) s = true ->
  fold_left (step_row p) s (row0 p) = ideal p s.
Proof.
  induction s as [|d s IH] using rev_ind; intros H.
  - simpl. apply row0_ideal.
  - rewrite forallb_app in H. apply andb_true_iff in H as [H1 H2].
    simpl in H2. rewrite andb_true_r in H2. apply negb_true_iff in H2.
    rewrite fold_left_app. simpl. rewrite IH by exact H1. apply step_row_ideal. exact H2.
Qed.

Lemma last_cons_ne {A} (a d : A) l : l <> [] -> last (a :: l) d = last l d.
Proof. destruct l; [congruence | reflexivity]. Qed.

Lemma last_ideal_from pre rest s : last (ideal_from pre rest s) false = globb (pre ++ rest) s.
Proof.
  revert pre. induction rest as [|c rest IH]; intros pre.
  - simpl. rewrite app_nil_r. reflexivity.
  - cbn [ideal_from]. rewrite last_cons_ne by (destruct rest; discriminate).
    rewrite IH. rewrite <- app_assoc. reflexivity.
Qed.

Lemma match_wild_globb p s :
  forallb (fun d => negb (d =? star)) s = true -> match_wild p s = globb p s.
Proof.
  intros H. unfold match_wild. rewrite fold_rows by exact H. apply last_ideal_from.
Qed.

(** ** The boolean specification reflects the readable relation. *)

Lemma in_suffixes t u : In t (suffixes u) <-> exists s, u = s ++ t.
Proof.
  induction u as [|x u IH]; simpl.
  - split.
    + intros [H|[]]. subst. exists []. reflexivity.
    + intros [s H]. left. symmetry in H. apply app_eq_nil in H. symmetry. tauto.
  - split.
    + intros [H|H].
      * subst. exists []. reflexivity.
      * apply IH in H as [s Hs]. exists (x :: s). simpl. congruence.
    + intros [[|y s] H]; simpl in H.
      * left. exact H.
      * right. apply IH. inversion H. exists s. reflexivity.
Qed.

Lemma globb_glob p s : globb p s = true <-> glob p s.
Proof.
  revert s. induction p as [|c p IH]; intros s; simpl.
  - destruct s; split; intros H; try discriminate; try constructor; inversion H.
  - destruct (c =? star) eqn:Hc.
    + apply N.eqb_eq in Hc. subst c. rewrite existsb_exists. split.
      * intros [t [Ht Hg]]. apply in_suffixes in Ht as [s0 Hs]. subst s.
        apply glob_star. apply IH. exact Hg.
      * intros H. inversion H; subst; try discriminate; try (exfalso; congruence).
        exists t. split; [apply in_suffixes; eexists; reflexivity | apply IH; assumption].
    + destruct s as [|d s].
      * split; [discriminate|]. intros H. inversion H; subst; try (vm_compute in Hc; discriminate).
      * rewrite andb_true_iff, orb_true_iff, !N.eqb_eq, IH. split.
        -- intros [[H|H] Hg]; subst.
           ++ apply glob_qmark. exact Hg.
           ++ apply glob_char; [intros E; subst; discriminate | exact Hg].
        -- intros H. inversion H; subst; try (vm_compute in Hc; discriminate); tauto.
Qed.

Theorem match_wild_correct p s :
  ~ In star s -> (match_wild p s = true <-> glob p s).
Proof.
  intros Hs. rewrite match_wild_globb; [apply globb_glob|].
  apply forallb_forall. intros d Hd. apply negb_true_iff. apply N.eqb_neq. intros E. subst. contradiction.
Qed.

(** Outside the guard the code's second [if] overrides the first: the matcher and the
    specification differ. Not reachable through the SMTP server (a validated sender domain
    holds no ['*']); kept as the witness showing the guard is needed. *)
Lemma match_wild_star_input_differs :
  exists p s, match_wild p s <> globb p s.
Proof. exists [star], [97; star]. vm_compute. discriminate. Qed.

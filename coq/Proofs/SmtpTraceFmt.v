(** The trace headers of the model against the source: Gen/SmtpTrace.v is regenerated on every run from the three
    fmt.Sprintf sites that build the Return-Path and Received lines (handler.go dataHandler, manager.go Deliver) and
    from the io.MultiReader call that orders the pieces.  Rendering those very format strings with the model's
    values gives the model's [trace_headers], the expressions substituted are the ones the model takes them to be,
    and the pieces are handed to the store in the model's order.  A header reworded, an argument swapped or a piece
    reordered in the source breaks a theorem here - even if no generated case were to look at that byte. *)
From IV Require Import Base.Bytes Model.Dot Gen.SmtpTrace.

(** fmt.Sprintf for formats that only use %s (any other verb is left as it is, which then fails the theorem) *)
Fixpoint render (f : str) (args : list str) : str :=
  match f with
  | 37 :: 115 :: f' =>                                   (* "%s" *)
      match args with
      | a :: args' => a ++ render f' args'
      | [] => 37 :: 115 :: render f' []                  (* %!s(MISSING) in Go: kept visible *)
      end
  | c :: f' => c :: render f' args
  | [] => []
  end.

Theorem trace_headers_are_the_source_formats : forall retpath helo ip domain mailbox,
  render fmt_retpath [retpath] ++
  render fmt_for [render fmt_received [helo; ip; domain]; mailbox; tstamp_mask]
  = trace_headers retpath helo ip domain mailbox.
Proof.
  intros. unfold fmt_retpath, fmt_for, fmt_received, trace_headers, s_retpath, s_received, s_by, s_for.
  cbn [render app]. repeat (rewrite <- app_assoc; cbn [app]). rewrite ?app_nil_r. reflexivity.
Qed.

(** the expressions: sender address; HELO name, remote host, configured domain; the header so far, the mailbox, the time *)
(** from.Address.Address | s.remoteDomain, s.remoteHost, s.config.Domain | recvdHeader, mb, tstamp *)
Theorem trace_arguments_pinned :
  fmt_retpath_args = [[102;114;111;109;46;65;100;100;114;101;115;115;46;65;100;100;114;101;115;115]] /\
  fmt_received_args = [[115;46;114;101;109;111;116;101;68;111;109;97;105;110];
                       [115;46;114;101;109;111;116;101;72;111;115;116];
                       [115;46;99;111;110;102;105;103;46;68;111;109;97;105;110]] /\
  fmt_for_args = [[114;101;99;118;100;72;101;97;100;101;114]; [109;98]; [116;115;116;97;109;112]].
Proof. repeat split; reflexivity. Qed.

(** the order: Return-Path line, Received lines, then the payload - [stored_source] *)
Theorem stored_pieces_in_source_order :
  deliver_piece_order = [[114;101;116;117;114;110;80;97;116;104]; [114;101;99;118;100]; [115;111;117;114;99;101]] /\
  forall retpath helo ip domain mailbox payload,
    stored_source retpath helo ip domain mailbox payload =
    render fmt_retpath [retpath] ++
    render fmt_for [render fmt_received [helo; ip; domain]; mailbox; tstamp_mask] ++ payload.
Proof.
  split; [reflexivity|]. intros. unfold stored_source.
  rewrite <- trace_headers_are_the_source_formats, <- app_assoc. reflexivity.
Qed.

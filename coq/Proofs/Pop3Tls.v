(** STLS / CAPA layer (Model/Pop3Tls.v): what holds of the code's TLS handling, for every
    history of segments, handshake outcomes and connections to one server. *)
From Coq Require Import ZifyN ZifyNat ZifyBool.
From IV Require Import Base.Bytes Base.BytesFacts Model.Pop3Wire Model.Pop3 Model.Pop3Tls Proofs.Pop3Wire Proofs.Pop3 Proofs.Pop3Bytes.
Open Scope N_scope.

(** The acceptance test of one line. *)
Definition accepts (tc : tcfg) (tw : tworld) (l : str) : bool :=
  is_open (t_w tw) && negb (w_wfail (t_w tw)) && is_stls (parse_line l) &&
  match s_state (w_sess (t_w tw)) with Auth => true | _ => false end &&
  stls_available tc (t_srv tw).

(** Every line is either a step of the session model of Model/Pop3.v, or an accepted STLS,
    which touches neither the store nor the session (state, user, snapshot, marks). *)
Theorem tline_cases : forall tc fl tw l hs,
  let '(tw', replaced) := tline tc fl tw l hs in
  (accepts tc tw l = false /\ replaced = false /\
   t_w tw' = wstep fl (t_w tw) (ELine l) /\ t_srv tw' = t_srv tw /\ t_upgrades tw' = t_upgrades tw /\
   t_pend tw' = t_pend tw) \/
  (accepts tc tw l = true /\ replaced = true /\
   w_store (t_w tw') = w_store (t_w tw) /\ t_srv tw' = true /\ t_upgrades tw' = S (t_upgrades tw) /\
   t_pend tw' = [] /\
   if hs then w_sess (t_w tw') = w_sess (t_w tw) /\ w_out (t_w tw') = w_out (t_w tw) ++ [r_plus] /\ t_secure tw' = true
   else s_state (w_sess (t_w tw')) = Closed /\ w_out (t_w tw') = w_out (t_w tw) ++ [r_plus; r_minus]).
Proof.
  intros tc fl tw l hs. unfold tline. fold (accepts tc tw l).
  destruct (accepts tc tw l) eqn:Ha.
  - destruct hs; cbn beta iota zeta; right; cbn; repeat split; reflexivity.
  - cbn beta iota zeta. left. repeat split; reflexivity.
Qed.

(** The server-level invariant: at most one handshake is ever started, and none before
    [tlsState] is set. *)
Definition srv_inv (tw : tworld) : Prop :=
  (t_srv tw = false -> t_upgrades tw = O) /\ (t_upgrades tw <= 1)%nat.

Lemma accepts_needs_fresh tc tw l : accepts tc tw l = true -> t_srv tw = false.
Proof.
  unfold accepts, stls_available. intros H.
  destruct (t_srv tw); [cbn [negb] in H; rewrite !andb_false_r in H; discriminate|reflexivity].
Qed.

Lemma tline_inv tc fl tw l hs : srv_inv tw -> srv_inv (fst (tline tc fl tw l hs)).
Proof.
  intros [I1 I2]. pose proof (tline_cases tc fl tw l hs) as H. destruct (tline tc fl tw l hs) as [tw' rp].
  cbn [fst]. destruct H as [(_ & _ & _ & A & B & _)|(Ha & _ & _ & A & B & _)]; unfold srv_inv.
  - rewrite A, B. auto.
  - pose proof (I1 (accepts_needs_fresh _ _ _ Ha)). rewrite A, B. split; [discriminate|lia].
Qed.

Lemma tlines_inv tc fl ls : forall tw hs, srv_inv tw -> srv_inv (fst (tlines tc fl tw ls hs)).
Proof.
  induction ls as [|l ls IH]; intros tw hs I; cbn [tlines]; [exact I|].
  pose proof (tline_inv tc fl tw l hs I) as I'. destruct (tline tc fl tw l hs) as [tw' rp].
  destruct rp; [exact I'|apply IH; exact I'].
Qed.

Lemma tstep_inv tc fl tw te : srv_inv tw -> srv_inv (tstep tc fl tw te).
Proof.
  intros I. destruct te as [b hs|e]; cbn [tstep]; [|exact I].
  unfold tchunk. destruct (feed (frev (t_pend tw)) b) as [ls p].
  pose proof (tlines_inv tc fl ls tw hs I) as I'. destruct (tlines tc fl tw ls hs) as [tw' rp].
  destruct rp; exact I'.
Qed.

Lemma trun_inv tc fl tes : forall tw, srv_inv tw -> srv_inv (trun tc fl tw tes).
Proof.
  unfold trun. induction tes as [|te tes IH]; intros tw I; [exact I|]. cbn [fold_left]. apply IH, tstep_inv, I.
Qed.

Lemma tconnect_inv tc st srv ups : ((srv = false -> ups = O) /\ (ups <= 1)%nat) -> srv_inv (tconnect tc st srv ups).
Proof.
  intros [I1 I2]. unfold srv_inv, tconnect. cbn. split; [|exact I2].
  intros H. apply I1. destruct srv; [discriminate|reflexivity].
Qed.

(** Over all the connections a server ever sees, at most ONE handshake is started. *)
Theorem stls_at_most_once : forall tc fl conns st,
  Forall (fun tw => (t_upgrades tw <= 1)%nat) (tsessions tc fl st false O conns).
Proof.
  intros tc fl conns st.
  assert (G : forall conns st srv ups, ((srv = false -> ups = O) /\ (ups <= 1)%nat) ->
              Forall srv_inv (tsessions tc fl st srv ups conns)).
  { induction conns0 as [|tes rest IH]; intros st0 srv ups I; cbn [tsessions]; [constructor|].
    pose proof (trun_inv tc fl (tes ++ [TOther EEof]) _ (tconnect_inv tc st0 srv ups I)) as I'.
    constructor; [exact I'|]. apply IH. exact I'. }
  specialize (G conns st false O (conj (fun _ => eq_refl) (le_S _ _ (le_n _)))).
  eapply Forall_impl; [|exact G]. intros tw [_ H]. exact H.
Qed.

(** [tlsState] is never reset: once set it stays set - on this connection and, because it is the
    SERVER's field, on every later connection.  (An observation about the code, outside the
    letter of C13: after one client upgraded, or merely failed its handshake, no other client of
    that server can use STLS any more.) *)
Lemma tline_srv_mono tc fl tw l hs : t_srv tw = true -> t_srv (fst (tline tc fl tw l hs)) = true.
Proof.
  intros H. pose proof (tline_cases tc fl tw l hs) as C. destruct (tline tc fl tw l hs) as [tw' rp]. cbn [fst].
  destruct C as [(_ & _ & _ & A & _)|(_ & _ & _ & A & _)]; congruence.
Qed.

Lemma tlines_srv_mono tc fl ls : forall tw hs, t_srv tw = true -> t_srv (fst (tlines tc fl tw ls hs)) = true.
Proof.
  induction ls as [|l ls IH]; intros tw hs H; cbn [tlines]; [exact H|].
  pose proof (tline_srv_mono tc fl tw l hs H) as H'. destruct (tline tc fl tw l hs) as [tw' rp].
  destruct rp; [exact H'|apply IH; exact H'].
Qed.

Lemma tstep_srv_mono tc fl tw te : t_srv tw = true -> t_srv (tstep tc fl tw te) = true.
Proof.
  intros H. destruct te as [b hs|e]; cbn [tstep]; [|exact H].
  unfold tchunk. destruct (feed (frev (t_pend tw)) b) as [ls p].
  pose proof (tlines_srv_mono tc fl ls tw hs H) as H'. destruct (tlines tc fl tw ls hs) as [tw' rp].
  destruct rp; exact H'.
Qed.

Lemma trun_srv_mono tc fl tes : forall tw, t_srv tw = true -> t_srv (trun tc fl tw tes) = true.
Proof.
  unfold trun. induction tes as [|te tes IH]; intros tw H; [exact H|]. cbn [fold_left]. apply IH, tstep_srv_mono, H.
Qed.

Theorem upgrade_is_for_good : forall tc fl conns st ups,
  Forall (fun tw => t_srv tw = true) (tsessions tc fl st true ups conns).
Proof.
  intros tc fl conns. induction conns as [|tes rest IH]; intros st ups; cbn [tsessions]; [constructor|].
  assert (H : t_srv (trun tc fl (tconnect tc st true ups) (tes ++ [TOther EEof])) = true)
    by (apply trun_srv_mono; reflexivity).
  constructor; [exact H|]. rewrite H. apply IH.
Qed.

(** With [tlsState] set no STLS is accepted: the line is an ordinary step of the session model,
    which answers -ERR and changes nothing. *)
Theorem stls_refused_once_upgraded : forall tc fl tw l hs,
  t_srv tw = true ->
  tline tc fl tw l hs = (fst (tline tc fl tw l hs), false) /\
  t_w (fst (tline tc fl tw l hs)) = wstep fl (t_w tw) (ELine l).
Proof.
  intros tc fl tw l hs H. pose proof (tline_cases tc fl tw l hs) as C.
  destruct (tline tc fl tw l hs) as [tw' rp]. cbn [fst].
  destruct C as [(_ & -> & A & _)|(Ha & _)]; [split; [reflexivity|exact A]|].
  apply accepts_needs_fresh in Ha. congruence.
Qed.

(** What an accepted STLS leaves untouched: the store, the state (still AUTHORIZATION), the
    user name given before (a later PASS logs that user in), marks, snapshot. *)
Theorem stls_keeps_session : forall tc fl tw l,
  accepts tc tw l = true ->
  let tw' := fst (tline tc fl tw l true) in
  w_store (t_w tw') = w_store (t_w tw) /\ w_sess (t_w tw') = w_sess (t_w tw) /\
  s_state (w_sess (t_w tw')) = Auth /\ t_secure tw' = true /\ t_srv tw' = true.
Proof.
  intros tc fl tw l Ha. unfold tline. fold (accepts tc tw l). rewrite Ha. cbn.
  repeat split. unfold accepts in Ha. repeat (apply andb_prop in Ha; destruct Ha as [Ha ?]).
  destruct (s_state (w_sess (t_w tw))); try discriminate; reflexivity.
Qed.

(** A failed handshake: "+OK" then "-ERR", the session is over, nothing is committed - and the
    server is marked as upgraded all the same (the handler has no return after the error). *)
Theorem failed_handshake : forall tc fl tw l,
  accepts tc tw l = true ->
  let tw' := fst (tline tc fl tw l false) in
  w_store (t_w tw') = w_store (t_w tw) /\ s_state (w_sess (t_w tw')) = Closed /\
  w_out (t_w tw') = w_out (t_w tw) ++ [r_plus; r_minus] /\ t_srv tw' = true /\ t_secure tw' = false.
Proof.
  intros tc fl tw l Ha. unfold tline. fold (accepts tc tw l). rewrite Ha. cbn. repeat split.
Qed.

(** Plaintext pipelined behind an accepted STLS in the same segment is never executed. *)
Theorem pipelined_behind_stls_dropped : forall tc fl tw l rest hs,
  accepts tc tw l = true ->
  tlines tc fl tw (l :: rest) hs = (fst (tline tc fl tw l hs), true).
Proof.
  intros tc fl tw l rest hs Ha. cbn [tlines].
  pose proof (tline_cases tc fl tw l hs) as C. destruct (tline tc fl tw l hs) as [tw' rp]. cbn [fst].
  destruct C as [(Hn & _)|(_ & -> & _)]; [congruence|reflexivity].
Qed.

(** CAPA lists STLS exactly while it is still available. *)
Theorem capa_lists_stls_iff_available : forall tc srv,
  capa_lists_stls tc srv = stls_available tc srv.
Proof. intros [en fo] srv. unfold capa_lists_stls, stls_available. cbn. destruct en, fo, srv; reflexivity. Qed.

(** ** Without TLS configured the layer is the session model on the byte stream *)

Definition bevent_of (te : tevent) : bevent :=
  match te with TChunk b _ => BBytes b | TOther e => BOther e end.

Lemma accepts_off tc tw l : t_enabled tc = false -> accepts tc tw l = false.
Proof. intros H. unfold accepts, stls_available. rewrite H. rewrite !andb_false_r. reflexivity. Qed.

Lemma tlines_off tc fl ls : forall tw hs, t_enabled tc = false ->
  snd (tlines tc fl tw ls hs) = false /\
  t_w (fst (tlines tc fl tw ls hs)) = run fl (t_w tw) (map ELine ls) /\
  t_srv (fst (tlines tc fl tw ls hs)) = t_srv tw /\ t_upgrades (fst (tlines tc fl tw ls hs)) = t_upgrades tw.
Proof.
  induction ls as [|l ls IH]; intros tw hs Hoff; cbn [tlines map]; [repeat split; reflexivity|].
  pose proof (tline_cases tc fl tw l hs) as C. destruct (tline tc fl tw l hs) as [tw' rp].
  destruct C as [(_ & -> & A & B & D & _)|(Ha & _)]; [|rewrite accepts_off in Ha by exact Hoff; discriminate].
  destruct (IH tw' hs Hoff) as (E1 & E2 & E3 & E4). repeat split; [exact E1|rewrite E2, A, run_cons; reflexivity|congruence|congruence].
Qed.

Theorem tls_off_is_the_session_model : forall tc fl tes tw,
  t_enabled tc = false ->
  t_w (trun tc fl tw tes) = run fl (t_w tw) (expand (t_pend tw) (map bevent_of tes)) /\
  t_upgrades (trun tc fl tw tes) = t_upgrades tw.
Proof.
  intros tc fl tes. unfold trun. induction tes as [|te tes IH]; intros tw Hoff; [split; reflexivity|].
  cbn [fold_left map]. destruct te as [b hs|e]; cbn [tstep bevent_of expand].
  - unfold tchunk. destruct (feed (frev (t_pend tw)) b) as [ls p].
    destruct (tlines_off tc fl ls tw hs Hoff) as (E1 & E2 & E3 & E4).
    destruct (tlines tc fl tw ls hs) as [tw' rp]. cbn [fst snd] in *. subst rp.
    destruct (IH (with_pend tw' p) Hoff) as [A B]. cbn [t_w t_pend with_pend t_upgrades] in *.
    rewrite A, B, E2, run_app. split; [reflexivity|exact E4].
  - destruct (IH (tother fl tw e) Hoff) as [A B]. cbn [t_w t_pend tother t_upgrades] in *.
    rewrite A, B. split; reflexivity.
Qed.

(** ** TLS or not, deletions are committed only by a QUIT line in TRANSACTION *)

Theorem tline_commit_only_by_quit : forall tc fl tw l hs,
  commits (t_w tw) (ELine l) = false ->
  w_store (t_w (fst (tline tc fl tw l hs))) = w_store (t_w tw).
Proof.
  intros tc fl tw l hs Hc. pose proof (tline_cases tc fl tw l hs) as C.
  destruct (tline tc fl tw l hs) as [tw' rp]. cbn [fst].
  destruct C as [(_ & _ & A & _)|(_ & _ & A & _)]; [|exact A].
  rewrite A. destruct (wstep_facts fl (t_w tw) (ELine l)) as (_ & _ & _ & F4 & _). rewrite (F4 Hc). reflexivity.
Qed.

Theorem tlines_without_quit_keep_store : forall tc fl ls tw hs,
  (forall l, In l ls -> is_quit (parse_line l) = false) ->
  w_store (t_w (fst (tlines tc fl tw ls hs))) = w_store (t_w tw).
Proof.
  intros tc fl ls. induction ls as [|l ls IH]; intros tw hs H; cbn [tlines]; [reflexivity|].
  assert (Hc : commits (t_w tw) (ELine l) = false).
  { unfold commits. destruct (s_state (w_sess (t_w tw))); try reflexivity. cbn [ev_cmd]. apply H. left. reflexivity. }
  pose proof (tline_commit_only_by_quit tc fl tw l hs Hc) as Hs.
  destruct (tline tc fl tw l hs) as [tw' rp]. cbn [fst] in *.
  destruct rp; [exact Hs|]. rewrite IH by (intros l' H'; apply H; right; exact H'). exact Hs.
Qed.

(** ** Non-vacuity: a server with STLS configured, two connections *)
Definition ex_tc : tcfg := {| t_enabled := true; t_force := false |}.
Definition crlf (l : list N) : str := l ++ [13; 10].
Definition w_stls : str := [83; 84; 76; 83].
Definition ex_conns : list (list tevent) :=
  [ [TChunk (crlf w_CAPA) true;
     TChunk (crlf [85; 83; 69; 82; 32; 98]) true;                        (* USER b *)
     TChunk (crlf w_stls ++ crlf [85; 83; 69; 82; 32; 122]) true;        (* STLS + pipelined USER z: dropped *)
     TChunk (crlf w_CAPA) true;
     TChunk (crlf [80; 65; 83; 83; 32; 120]) true];                      (* PASS x: logs b in *)
    [TChunk (crlf w_CAPA) true; TChunk (crlf w_stls) true] ].            (* another client: no STLS any more *)

Example ex_tls :
  map (fun tw => (map r_ok (w_out (t_w tw)), t_flags tw, t_srv tw, t_upgrades tw, s_user (w_sess (t_w tw))))
      (tsessions ex_tc Mem [] false O ex_conns) =
  [ ([true; true; true; true; true; true], [false; true; false; false; false; false], true, 1%nat, [98]);
    ([true; true; false], [false; false; false], true, 1%nat, []) ].
Proof. vm_compute. reflexivity. Qed.

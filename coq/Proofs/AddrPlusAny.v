(** C04, '+extension', the general clause: for EVERY l, e, d (at signs and colons anywhere,
    routes, quoting inside the extension), if l@d and l+e@d are both accepted they get the
    same mailbox name. The only fact about IP literals used is that an accepted literal
    consists of hex digits, '.' and ':' (hypothesis [parse_ip_alphabet]; discharged for the
    modelled literal parser in Proofs/IpLit.v). *)
From IV Require Import Base.Bytes Base.BytesFacts Model.Addr Proofs.AddrFacts Proofs.AddrScan Proofs.AddrDomain
  Proofs.AddrNaming Proofs.AddrPlus.
From Coq Require Import ZifyN ZifyNat ZifyBool.

Ltac norm_app := repeat first [rewrite <- app_assoc | progress simpl app].
Ltac norm_app_in H := repeat first [rewrite <- app_assoc in H | progress simpl app in H].

(** * List facts: first / last occurrence of a byte *)

Lemma split_last_unique (c : N) A : forall A' Y Y', ~ In c Y -> ~ In c Y' ->
  A ++ c :: Y = A' ++ c :: Y' -> A = A' /\ Y = Y'.
Proof.
  induction A as [|x A IH]; intros [|x' A'] Y Y' HY HY' H; cbn [app] in H.
  - inversion H. split; reflexivity.
  - inversion H; subst. exfalso. apply HY. apply in_or_app. right. left. reflexivity.
  - inversion H; subst. exfalso. apply HY'. apply in_or_app. right. left. reflexivity.
  - inversion H; subst. destruct (IH A' Y Y' HY HY' H2) as [-> ->]. split; reflexivity.
Qed.

Lemma split_last_exists (c : N) d : In c d -> exists d1 Y, d = d1 ++ c :: Y /\ ~ In c Y.
Proof.
  induction d as [|x d IH]; intros H; [destruct H|].
  destruct (in_dec N.eq_dec c d) as [I|I].
  - destruct (IH I) as [d1 [Y [-> HY]]]. exists (x :: d1), Y. split; [reflexivity | exact HY].
  - destruct H as [->|H]; [|tauto]. exists [], d. split; [reflexivity | exact I].
Qed.

Lemma split_first_exists (c : N) d : In c d -> exists d1 Y, d = d1 ++ c :: Y /\ ~ In c d1.
Proof.
  induction d as [|x d IH]; intros H; [destruct H|].
  destruct (N.eq_dec x c) as [->|Ne].
  - exists [], d. split; [reflexivity | simpl; tauto].
  - destruct H as [H|H]; [congruence|]. destruct (IH H) as [d1 [Y [-> HY]]].
    exists (x :: d1), Y. split; [reflexivity|]. intros [X|X]; [congruence | tauto].
Qed.

Lemma index_of_first (c : N) u t : ~ In c u -> index_of c (u ++ c :: t) = Some (length u).
Proof.
  induction u as [|x u IH]; intros H; cbn [app index_of length].
  - rewrite N.eqb_refl. reflexivity.
  - destruct (x =? c) eqn:E; [apply N.eqb_eq in E; subst; exfalso; apply H; left; reflexivity|].
    rewrite IH by (intros X; apply H; right; exact X). reflexivity.
Qed.

Lemma index_of_some (c : N) s : forall k, index_of c s = Some k ->
  exists u t, s = u ++ c :: t /\ ~ In c u /\ length u = k.
Proof.
  induction s as [|x s IH]; intros k H; [discriminate|]. cbn [index_of] in H.
  destruct (x =? c) eqn:E.
  - apply N.eqb_eq in E. subst. inversion H; subst. exists [], s. split; [reflexivity|]. split; [simpl; tauto | reflexivity].
  - destruct (index_of c s) as [k'|]; [|discriminate]. inversion H; subst.
    destruct (IH k' eq_refl) as [u [t [-> [Hu Hl]]]]. exists (x :: u), t. split; [reflexivity|]. split; [|simpl; congruence].
    intros [X|X]; [apply N.eqb_neq in E; congruence | tauto].
Qed.

Lemma skipn_past (u : str) c t : skipn (S (length u)) (u ++ c :: t) = t.
Proof. induction u as [|x u IH]; [reflexivity | exact IH]. Qed.

(** * strip_route *)

Definition route_prefix (x u : str) : Prop :=
  (u = [] /\ exists c t, x = c :: t /\ c <> 64) \/ (exists w, u = 64 :: w ++ [58] /\ ~ In 58 w).

Lemma strip_route_spec x x' : strip_route x = Some x' -> exists u, x = u ++ x' /\ route_prefix x u.
Proof.
  unfold strip_route. destruct x as [|c t]; [discriminate|].
  destruct (c =? 64) eqn:E.
  - apply N.eqb_eq in E. subst c. destruct (index_of 58 (64 :: t)) as [k|] eqn:I; [|discriminate].
    intros H. inversion H; subst x'. clear H.
    destruct (index_of_some 58 _ k I) as [u [t' [Eq [Hu Hl]]]].
    destruct u as [|u0 u]; [discriminate Eq|]. inversion Eq; subst u0 t. subst k.
    exists (64 :: u ++ [58]). split.
    + cbn [length]. rewrite skipn_past. norm_app. reflexivity.
    + right. exists u. split; [reflexivity|]. intros X; apply Hu; right; exact X.
  - intros H. inversion H; subst. exists []. split; [reflexivity|]. left. split; [reflexivity|].
    exists c, t. split; [reflexivity|]. apply N.eqb_neq. exact E.
Qed.

Lemma strip_route_route w t : ~ In 58 w -> strip_route (64 :: w ++ 58 :: t) = Some t.
Proof.
  intros H. unfold strip_route. rewrite N.eqb_refl.
  change (64 :: w ++ 58 :: t) with ((64 :: w) ++ 58 :: t).
  rewrite index_of_first by (intros [X|X]; [discriminate | tauto]).
  rewrite skipn_past. reflexivity.
Qed.

Lemma strip_route_noroute c t : c <> 64 -> strip_route (c :: t) = Some (c :: t).
Proof. intros H. unfold strip_route. apply N.eqb_neq in H. rewrite H. reflexivity. Qed.

(** * parse_email in terms of strip_route and scan *)

Lemma parse_email_inv x X Y : parse_email x = Some (X, Y) ->
  exists x', strip_route x = Some x' /\ scan x' 0 46 false false = Some (X, Y).
Proof.
  unfold parse_email. destruct x as [|c t]; [discriminate|].
  destruct (max_address_len <? N.of_nat (length (c :: t))); [discriminate|].
  destruct (strip_route (c :: t)) as [[|c' t']|]; try discriminate.
  destruct (c' =? 46); [discriminate|]. intros H. eexists. split; [reflexivity | exact H].
Qed.

(** two addresses that are both parsed and strip to the same string parse alike *)
Lemma parse_email_same_strip x y X Y X' Y' :
  parse_email x = Some (X, Y) -> parse_email y = Some (X', Y') -> strip_route x = strip_route y -> X = X' /\ Y = Y'.
Proof.
  intros P P' S. apply parse_email_inv in P as [x' [S1 P]]. apply parse_email_inv in P' as [y' [S2 P']].
  rewrite S1, S2 in S. inversion S; subst. rewrite P in P'. inversion P'. split; reflexivity.
Qed.

(** every at sign in front of the domain is copied into the local part *)
Lemma scan_structure s : forall i p cq sq X Y, scan s i p cq sq = Some (X, Y) -> Y <> [] ->
  exists L, s = L ++ 64 :: Y /\ (In 64 L -> In 64 X).
Proof.
  induction s as [|c s IH]; intros i p cq sq X Y H HY; cbn [scan] in H.
  - destruct (cq || sq); [discriminate|]. inversion H; subst. congruence.
  - assert (PUSH : forall i' p' cq' sq', push c (scan s i' p' cq' sq') = Some (X, Y) ->
              exists L, c :: s = L ++ 64 :: Y /\ (In 64 L -> In 64 X)).
    { intros i' p' cq' sq' HP. apply push_some in HP as [X' [-> R]]. destruct (IH _ _ _ _ _ _ R HY) as [L [-> HL]].
      exists (c :: L). split; [reflexivity|]. intros [E|I]; [left; exact E | right; apply HL; exact I]. }
    assert (SKIP : forall i' p' cq' sq', c <> 64 -> scan s i' p' cq' sq' = Some (X, Y) ->
              exists L, c :: s = L ++ 64 :: Y /\ (In 64 L -> In 64 X)).
    { intros i' p' cq' sq' Hc R. destruct (IH _ _ _ _ _ _ R HY) as [L [-> HL]].
      exists (c :: L). split; [reflexivity|]. intros [E|I]; [congruence | apply HL; exact I]. }
    destruct (classify c) eqn:K.
    + eapply PUSH; eauto.
    + destruct (p =? 46); [discriminate|]. eapply PUSH; eauto.
    + eapply SKIP; eauto. intros E. subst. rewrite classify_at in K. discriminate.
    + assert (Hc : c <> 64) by (intros E; subst; rewrite classify_at in K; discriminate).
      destruct cq; [eapply PUSH; eauto|]. destruct sq; [eapply SKIP; eauto|].
      destruct (i =? 0); [eapply SKIP; eauto | discriminate].
    + destruct (cq || sq); [eapply PUSH; eauto|].
      destruct (max_local_index <? i); [discriminate|]. destruct (p =? 46); [discriminate|].
      inversion H; subst. apply classify_at_inv in K. subst. exists []. split; [reflexivity|]. simpl. tauto.
    + discriminate.
    + destruct (cq || sq); [eapply PUSH; eauto | discriminate].
Qed.

Lemma removelast_last_split (r : str) : r <> [] -> r = firstn (length r - 1) r ++ [last r 0].
Proof.
  induction r as [|x r IH]; intros H; [congruence|]. destruct r as [|y r]; [reflexivity|].
  change (last (x :: y :: r) 0) with (last (y :: r) 0).
  replace (length (x :: y :: r) - 1)%nat with (S (length (y :: r) - 1)) by (simpl; lia).
  cbn [firstn app]. f_equal. apply IH. discriminate.
Qed.

Section PlusAny.
Variable parse_ip : str -> bool.
Hypothesis parse_ip_alphabet : forall s, parse_ip s = true -> forallb ip_char s = true.
Notation validate := (validate_domain parse_ip).
Notation newrcpt := (new_recipient parse_ip).

(** what a validated domain consists of: label bytes, or a bracketed literal *)
Lemma validate_forall (P : N -> Prop) d :
  (forall c, ip_char c = true -> P c) -> (forall c, is_dom_char c = true -> P c) -> P 91 -> P 93 -> Forall P canon_tag ->
  validate d = true -> Forall P d.
Proof.
  intros Pip Pdom P91 P93 Ptag V. destruct (bracket_type d) eqn:B.
  - assert (PI : parse_ip (ip_inner d) = true).
    { unfold validate_domain in V. unfold bracket_type in B. rewrite B in V.
      destruct (N.of_nat (length d) =? 0); [discriminate|]. destruct (max_domain_len <? N.of_nat (length d)); [discriminate | exact V]. }
    apply parse_ip_alphabet in PI. unfold bracket_type in B. apply andb_true_iff in B as [B1 B2].
    assert (ALL : forall r, forallb ip_char (firstn (length r - 1) r) = true -> last r 0 = 93 -> r <> [] -> Forall P r).
    { intros r F L Hr. rewrite (removelast_last_split r Hr). apply Forall_app. split.
      - apply Forall_forall. rewrite forallb_forall in F. intros c I. apply Pip. apply F. exact I.
      - rewrite L. constructor; [exact P93 | constructor]. }
    unfold is_bracketed in B2. apply andb_true_iff in B2 as [B2 B3]. apply N.eqb_eq in B3.
    destruct d as [|d0 d1]; [discriminate|]. simpl in B2. apply N.eqb_eq in B2. subst d0.
    destruct (has_prefix ip_tag d1) eqn:T.
    + (* tagged: d = "[IPv6:" ++ r *)
      assert (T' : has_prefix canon_tag (91 :: d1) = true) by (rewrite canon_tag_is; cbn [has_prefix]; rewrite N.eqb_refl; exact T).
      apply has_prefix_split in T'. set (r := skipn (length canon_tag) (91 :: d1)) in *. rewrite T' in *.
      rewrite ip_inner_tagged in PI.
      assert (Hr : r <> []).
      { intros E. rewrite E in B3. vm_compute in B3. discriminate. }
      rewrite last_app_nonempty in B3 by exact Hr.
      apply Forall_app. split; [exact Ptag | exact (ALL r PI B3 Hr)].
    + rewrite ip_inner_plain in PI by exact T. cbn [skipn length] in PI.
      replace (S (length d1) - 1 - 1)%nat with (length d1 - 1)%nat in PI by lia.
      assert (Hd : d1 <> []) by (intros E; subst; vm_compute in B1; discriminate).
      assert (L1 : last d1 0 = 93) by (rewrite last_cons in B3; destruct d1; [congruence|]; rewrite <- B3; apply last_default_nonempty).
      constructor; [exact P91 | exact (ALL d1 PI L1 Hd)].
  - destruct (validate_label_type parse_ip d V B) as [_ [_ [D _]]].
    apply Forall_forall. rewrite forallb_forall in D. intros c I. apply Pdom. apply D. exact I.
Qed.

(** a validated domain holds no at sign *)
Lemma validate_no_at d : validate d = true -> ~ In 64 d.
Proof.
  intros V I. assert (F : Forall (fun c => c <> 64) d).
  { apply validate_forall; [ | | | | | exact V].
    - intros c H E. subst. vm_compute in H. discriminate.
    - intros c H E. subst. vm_compute in H. discriminate.
    - discriminate.
    - discriminate.
    - apply Forall_forall. intros c H E. subst. vm_compute in H. intuition discriminate. }
  rewrite Forall_forall in F. exact (F 64 I eq_refl).
Qed.

(** a validated domain is ASCII *)
Lemma validate_ascii d : validate d = true -> Forall (fun c => c < 128) d.
Proof.
  apply validate_forall.
  - intros c H. unfold ip_char, is_digit in H. lia.
  - intros c H. unfold is_dom_char, is_label_char, is_alpha, is_upper, is_lower, is_digit in H. lia.
  - lia.
  - lia.
  - apply Forall_forall. intros c H. vm_compute in H. intuition (subst; reflexivity).
Qed.

(** the shape of every accepted address *)
Lemma accepted_struct mode x r : newrcpt mode x = Some r ->
  exists u L Y X, x = u ++ L ++ 64 :: Y /\ strip_route x = Some (L ++ 64 :: Y) /\ route_prefix x u /\
    ~ In 64 L /\ ~ In 64 Y /\ ~ In 64 X /\
    scan (L ++ 64 :: Y) 0 46 false false = Some (X, Y) /\ parse_email x = Some (X, Y).
Proof.
  intros R. destruct (recipient_name parse_ip mode x r R) as [X [Y [P [V _]]]].
  pose proof (recipient_local_no_at parse_ip mode x r X Y R P) as NX.
  pose proof (validate_no_at Y V) as NY. pose proof (validate_nonempty parse_ip Y V) as Yn.
  destruct (parse_email_inv x X Y P) as [x' [S SC]].
  destruct (scan_structure _ _ _ _ _ _ _ SC Yn) as [L [-> HL]].
  destruct (strip_route_spec _ _ S) as [u [E RP]].
  exists u, L, Y, X. repeat split; try assumption. intros I. apply NX. apply HL. exact I.
Qed.

(** names are determined by the parse *)
Lemma same_name mode a b r r' Xa Xb Y :
  newrcpt mode a = Some r -> newrcpt mode b = Some r' ->
  parse_email a = Some (Xa, Y) -> parse_email b = Some (Xb, Y) ->
  take_until ext_separator (lower Xa) = take_until ext_separator (lower Xb) ->
  r_mailbox r = r_mailbox r'.
Proof.
  intros R R' P P' T.
  destruct (recipient_name parse_ip mode a r R) as [x [y [P1 [_ N]]]]. rewrite P in P1. inversion P1; subst x y.
  destruct (recipient_name parse_ip mode b r' R') as [x [y [P2 [_ N']]]]. rewrite P' in P2. inversion P2; subst x y.
  assert (Q : forall m m', parse_mailbox_name Xa = Some m -> parse_mailbox_name Xb = Some m' -> m = m').
  { intros m m' A B. apply parse_mailbox_name_some in A as [-> _]. apply parse_mailbox_name_some in B as [-> _]. exact T. }
  destruct mode.
  - apply Q; assumption.
  - destruct N as [m [N1 ->]], N' as [m' [N1' ->]]. rewrite (Q m m' N1 N1'). reflexivity.
  - destruct N as [-> _], N' as [-> _]. reflexivity.
Qed.

(** the core, at the level of the scanning loop: local part L, then '+' and any extension without an at sign *)
Lemma scan_plus_core L e Y Xa Ya Xb Yb :
  ~ In 64 L -> ~ In 64 e ->
  scan (L ++ 64 :: Y) 0 46 false false = Some (Xa, Ya) -> ~ In 64 Xa ->
  scan (L ++ 43 :: e ++ 64 :: Y) 0 46 false false = Some (Xb, Yb) -> ~ In 64 Xb ->
  Ya = Yb /\ take_until ext_separator (lower Xa) = take_until ext_separator (lower Xb).
Proof.
  intros HL He P NA P' NB.
  rewrite scan_app in P by exact HL. rewrite scan_app in P' by exact HL.
  destruct (scan_pre L 0 46 false false) as [[[[o p1] cq1] sq1]|]; [|discriminate].
  set (i1 := 0 + N.of_nat (length L)) in *.
  assert (Q : cq1 || sq1 = false).
  { destruct (cq1 || sq1) eqn:Q; [|reflexivity]. exfalso. cbn [scan] in P. rewrite classify_at, Q in P.
    destruct (scan Y (i1 + 1) 64 false sq1) as [[x0 y0]|]; [|discriminate]. cbn [push pushl] in P.
    inversion P; subst. apply NA. apply in_or_app. right. left. reflexivity. }
  apply orb_false_iff in Q as [-> ->].
  cbn [scan] in P. rewrite classify_at in P. cbn [orb] in P.
  destruct (max_local_index <? i1); [discriminate|]. destruct (p1 =? 46); [discriminate|].
  cbn [pushl] in P. rewrite app_nil_r in P. inversion P; subst Xa Ya. clear P.
  (* the second address *)
  cbn [scan] in P'. replace (classify 43) with CCopy in P' by (vm_compute; reflexivity).
  rewrite scan_app in P' by exact He.
  destruct (scan_pre e (i1 + 1) 43 false false) as [[[[o2 p2] cq2] sq2]|]; [|discriminate].
  assert (Q : cq2 || sq2 = false).
  { destruct (cq2 || sq2) eqn:Q; [|reflexivity]. exfalso. cbn [scan] in P'. rewrite classify_at, Q in P'.
    destruct (scan Y (i1 + 1 + N.of_nat (length e) + 1) 64 false sq2) as [[x0 y0]|]; [|discriminate]. cbn [push pushl] in P'.
    inversion P'; subst. apply NB. apply in_or_app. right. right. apply in_or_app. right. left. reflexivity. }
  apply orb_false_iff in Q as [-> ->].
  cbn [scan] in P'. rewrite classify_at in P'. cbn [orb] in P'.
  destruct (max_local_index <? i1 + 1 + N.of_nat (length e)); [discriminate|]. destruct (p2 =? 46); [discriminate|].
  cbn [pushl push] in P'. inversion P'; subst Xb Yb. clear P'.
  split; [reflexivity|]. rewrite app_nil_r. rewrite lower_app.
  change (lower (43 :: o2)) with (ext_separator :: lower o2). rewrite take_until_app. reflexivity.
Qed.

Theorem plus_insensitive_any mode l e d r r' :
  newrcpt mode (l ++ 64 :: d) = Some r -> newrcpt mode (l ++ 43 :: e ++ 64 :: d) = Some r' ->
  r_mailbox r = r_mailbox r'.
Proof.
  intros R R'.
  destruct (accepted_struct mode _ r R) as [ua [La [Ya [Xa [Ea [Sa [RPa [NLa [NYa [NXa [SCa Pa]]]]]]]]]]].
  destruct (accepted_struct mode _ r' R') as [ub [Lb [Yb [Xb [Eb [Sb [RPb [NLb [NYb [NXb [SCb Pb]]]]]]]]]]].
  (* it suffices that the two parses have the same domain and equivalent local parts *)
  assert (GOAL : Ya = Yb /\ take_until ext_separator (lower Xa) = take_until ext_separator (lower Xb) -> r_mailbox r = r_mailbox r').
  { intros [<- T]. eapply same_name; eassumption. }
  apply GOAL. clear GOAL.
  assert (SAME : strip_route (l ++ 64 :: d) = strip_route (l ++ 43 :: e ++ 64 :: d) ->
                 Ya = Yb /\ take_until ext_separator (lower Xa) = take_until ext_separator (lower Xb)).
  { intros S. destruct (parse_email_same_strip _ _ _ _ _ _ Pa Pb S) as [-> ->]. split; reflexivity. }
  destruct (in_dec N.eq_dec 64 d) as [Id|Id].
  - (* d itself holds an at sign: d = d1 @ Y *)
    destruct (split_last_exists 64 d Id) as [d1 [Y [-> HY]]].
    assert (A1 : (ua ++ La) ++ 64 :: Ya = (l ++ 64 :: d1) ++ 64 :: Y) by (norm_app; norm_app_in Ea; symmetry; exact Ea).
    destruct (split_last_unique 64 _ _ _ _ NYa HY A1) as [A2 ->].
    assert (B1 : (ub ++ Lb) ++ 64 :: Yb = (l ++ 43 :: e ++ 64 :: d1) ++ 64 :: Y) by (norm_app; norm_app_in Eb; symmetry; exact Eb).
    destruct (split_last_unique 64 _ _ _ _ NYb HY B1) as [B2 ->].
    destruct RPa as [[-> _]|[w [-> Hw]]].
    + exfalso. apply NLa. cbn [app] in A2. rewrite A2. apply in_or_app. right. left. reflexivity.
    + destruct (app_eq_app _ _ _ _ A2) as [z [[Z1 Z2]|[Z1 Z2]]].
      2:{ exfalso. apply NLa. rewrite Z2. apply in_or_app. right. left. reflexivity. }
      destruct z as [|z0 v]; [exfalso; apply NLa; cbn [app] in Z2; rewrite <- Z2; left; reflexivity|].
      cbn [app] in Z2. inversion Z2; subst z0. subst d1. clear Z2.
      (* 64 :: w ++ [58] = l ++ 64 :: v : the first colon of the address closes the route, after l *)
      destruct (exists_last (l := 64 :: v) ltac:(discriminate)) as [v0 [x Ev]].
      assert (Z3 : (64 :: w) ++ [58] = (l ++ v0) ++ [x]) by (norm_app; norm_app_in Z1; rewrite Z1; rewrite Ev; norm_app; reflexivity).
      apply app_inj_tail in Z3 as [Z3 <-].
      assert (N58 : ~ In 58 (l ++ v0)) by (rewrite <- Z3; intros [X|X]; [discriminate | tauto]).
      destruct l as [|l0 l'].
      * (* l empty: the second address starts with '+', no route, and keeps an at sign in its local part *)
        exfalso. cbn [app] in Sb. rewrite strip_route_noroute in Sb by discriminate.
        assert (E2 : (43 :: e ++ 64 :: v ++ La) ++ 64 :: Y = Lb ++ 64 :: Y) by (norm_app; norm_app_in Sb; injection Sb as Sb; exact Sb).
        apply app_inv_tail in E2. apply NLb. rewrite <- E2. right. apply in_or_app. right. left. reflexivity.
      * cbn [app] in Z3. inversion Z3; subst l0.
        destruct (in_dec N.eq_dec 58 e) as [Ie|Ie].
        -- (* a colon in the extension closes the route early: an at sign stays in the local part *)
           exfalso. destruct (split_first_exists 58 e Ie) as [e1 [e2 [-> He1]]].
           assert (E3 : (64 :: l') ++ 43 :: (e1 ++ 58 :: e2) ++ 64 :: (v ++ La) ++ 64 :: Y =
                        64 :: (l' ++ 43 :: e1) ++ 58 :: (e2 ++ 64 :: v ++ La ++ 64 :: Y)) by (norm_app; reflexivity).
           rewrite E3 in Sb. rewrite strip_route_route in Sb.
           2:{ intros X. apply in_app_or in X as [X|[X|X]]; [apply N58; apply in_or_app; left; right; exact X | discriminate | tauto]. }
           assert (E4 : (e2 ++ 64 :: v ++ La) ++ 64 :: Y = Lb ++ 64 :: Y) by (norm_app; norm_app_in Sb; injection Sb as Sb; exact Sb).
           apply app_inv_tail in E4. apply NLb. rewrite <- E4. apply in_or_app. right. left. reflexivity.
        -- (* otherwise both addresses lose the same route: identical remainder *)
           apply SAME.
           assert (E5 : (64 :: l') ++ 64 :: (v ++ La) ++ 64 :: Y = 64 :: (l' ++ v0) ++ 58 :: (La ++ 64 :: Y)).
           { norm_app. f_equal. f_equal. change (64 :: v ++ La ++ 64 :: Y) with ((64 :: v) ++ La ++ 64 :: Y). rewrite Ev. norm_app. reflexivity. }
           assert (E6 : (64 :: l') ++ 43 :: e ++ 64 :: (v ++ La) ++ 64 :: Y = 64 :: (l' ++ 43 :: e ++ v0) ++ 58 :: (La ++ 64 :: Y)).
           { norm_app. f_equal. f_equal. f_equal. f_equal. change (64 :: v ++ La ++ 64 :: Y) with ((64 :: v) ++ La ++ 64 :: Y). rewrite Ev. norm_app. reflexivity. }
           rewrite E5, E6. rewrite !strip_route_route; [reflexivity | |].
           ++ intros X. apply in_app_or in X as [X|[X|X]]; [apply N58; apply in_or_app; left; right; exact X | discriminate |].
              apply in_app_or in X as [X|X]; [tauto | apply N58; apply in_or_app; right; exact X].
           ++ intros X. apply N58. apply in_app_or in X as [X|X]; apply in_or_app; [left; right; exact X | right; exact X].
  - (* d holds no at sign: the explicit at sign separates, in both addresses *)
    assert (A1 : (ua ++ La) ++ 64 :: Ya = l ++ 64 :: d) by (norm_app; symmetry; exact Ea).
    destruct (split_last_unique 64 _ _ _ _ NYa Id A1) as [A2 ->].
    assert (B1 : (ub ++ Lb) ++ 64 :: Yb = (l ++ 43 :: e) ++ 64 :: d) by (norm_app; norm_app_in Eb; symmetry; exact Eb).
    destruct (split_last_unique 64 _ _ _ _ NYb Id B1) as [B2 ->].
    destruct RPa as [[-> [c [t [Ec Hc]]]]|[w [-> Hw]]].
    + (* no route *)
      cbn [app] in A2. subst La. destruct l as [|l0 l']; [cbn [app] in Ec; inversion Ec; congruence|].
      cbn [app] in Ec. inversion Ec; subst l0 t.
      cbn [app] in Sb. rewrite strip_route_noroute in Sb by exact Hc.
      assert (E2 : ((c :: l') ++ 43 :: e) ++ 64 :: d = Lb ++ 64 :: d) by (norm_app; norm_app_in Sb; injection Sb as Sb; exact Sb).
      apply app_inv_tail in E2. subst Lb.
      assert (He : ~ In 64 e) by (intros X; apply NLb; apply in_or_app; right; right; exact X).
      replace (((c :: l') ++ 43 :: e) ++ 64 :: d) with ((c :: l') ++ 43 :: e ++ 64 :: d) in SCb by (norm_app; reflexivity).
      exact (scan_plus_core _ _ _ _ _ _ _ NLa He SCa NXa SCb NXb).
    + (* a route closed inside l *)
      assert (El : l = 64 :: w ++ 58 :: La) by (rewrite <- A2; norm_app; reflexivity).
      assert (E3 : l ++ 43 :: e ++ 64 :: d = 64 :: w ++ 58 :: (La ++ 43 :: e ++ 64 :: d)) by (rewrite El; norm_app; reflexivity).
      rewrite E3 in Sb. rewrite strip_route_route in Sb by exact Hw.
      assert (E4 : (La ++ 43 :: e) ++ 64 :: d = Lb ++ 64 :: d) by (norm_app; norm_app_in Sb; injection Sb as Sb; exact Sb).
      apply app_inv_tail in E4. subst Lb.
      assert (He : ~ In 64 e) by (intros X; apply NLb; apply in_or_app; right; right; exact X).
      replace ((La ++ 43 :: e) ++ 64 :: d) with (La ++ 43 :: e ++ 64 :: d) in SCb by (norm_app; reflexivity).
      exact (scan_plus_core _ _ _ _ _ _ _ NLa He SCa NXa SCb NXb).
Qed.

End PlusAny.

(** the statement that used to be listed as not proved *)
Theorem plus_insensitive_any_stmt_holds : plus_insensitive_any_stmt.
Proof. exact plus_insensitive_any. Qed.

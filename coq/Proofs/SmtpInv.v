(** Invariants of the SMTP session model and the step lemmas behind the C01/C03/C05/C06
    theorems. Every statement quantifies over all configurations and all item lists. *)
From IV Require Import Base.Bytes Base.BytesFacts Model.Policy Model.Smtp.
From Coq Require Import ZifyBool ZifyNat Lia.

(** Extension hooks that do not lie about acceptance: a Deny never uses the codes that mean
    "accepted" (250) or "send data" (354). *)
Definition sane_hook (h : hook_ans) : bool :=
  match h with Deny c _ => negb (c =? 250)%Z && negb (c =? 354)%Z | _ => true end.
Definition sane_item (it : item) : bool :=
  match it with
  | L (Mail _ h) | L (Rcpt _ h) => sane_hook h
  | _ => true
  end.
Definition quiet_hook (h : hook_ans) : bool := match h with NoAns | Defer => true | _ => false end.
(** No extension is installed (or none answers). *)
Definition quiet_item (it : item) : bool :=
  match it with
  | L (Mail _ h) | L (Rcpt _ h) => quiet_hook h
  | B (PBlock _ _ (Some _)) => false
  | _ => true
  end.

Lemma quiet_sane it : quiet_item it = true -> sane_item it = true.
Proof. destruct it as [[]| | | |]; simpl; auto; destruct h; simpl; auto; discriminate. Qed.

(** ** The session invariant *)
Record Inv (c : scfg) (s : session) : Prop := {
  inv_from : st s = MAIL \/ st s = DATA -> from s <> None;
  inv_norcpt : st s <> MAIL -> st s <> DATA -> st s <> QUIT -> rcpts s = [];
  inv_data : st s = DATA -> rcpts s <> [];
  inv_bound : (Z.of_nat (length (rcpts s)) <= Z.max 0 (max_rcpt c))%Z;
  inv_helo0 : st s = GREET -> helo s = [];
  inv_helo1 : st s <> GREET -> st s <> QUIT -> helo s <> [] }.

Lemma inv_init c : Inv c init.
Proof. constructor; simpl; intros; try congruence; try lia; intuition congruence. Qed.

Ltac inv_solve :=
  constructor; simpl in *; intros;
  repeat match goal with
         | H : _ \/ _ |- _ => destruct H
         end;
  try congruence; try lia; auto.

Ltac step_cases :=
  repeat match goal with
         | H : context [match ?x with _ => _ end] |- _ =>
             match type of x with
             | sstate => fail 1
             | _ => destruct x eqn:?
             end
         | H : Ok _ _ _ = Ok _ _ _ |- _ => inversion H; subst; clear H
         | H : Misfit = Ok _ _ _ |- _ => discriminate H
         | H : Panic = Ok _ _ _ |- _ => discriminate H
         | H : context [if ?b then _ else _] |- _ => destruct b eqn:?
         end.

Lemma app_nonnil {A} (l : list A) x : l ++ [x] <> [].
Proof. destruct l; discriminate. Qed.

Lemma step_inv c s it s' r d : Inv c s -> step c s it = Ok s' r d -> Inv c s'.
Proof.
  intros [Hf Hn Hd Hb Hh0 Hh1] H.
  unfold step, step_greet, step_ready, step_mail, step_mail_from, step_data, set_st, reset in H.
  destruct (st s) eqn:Es; step_cases;
    constructor; simpl in *; intros;
    repeat match goal with H : _ \/ _ |- _ => destruct H end;
    try congruence; try lia; auto using app_nonnil;
    try (apply Hn; congruence);
    try (rewrite Hn by congruence; simpl; lia);
    try (match goal with E : rcpts _ = [] |- _ => rewrite E; simpl; lia end);
    try (apply Hh1; congruence);
    try (apply Hf; auto; fail);
    try (rewrite app_length; simpl; lia).
Qed.

Lemma run_inv c : forall items s tr s', Inv c s -> run c s items = (tr, EOpen s') -> Inv c s'.
Proof.
  induction items as [|it items IH]; simpl; intros s tr s' HI H.
  - inversion H; subst; auto.
  - destruct (step c s it) eqn:E; try discriminate.
    destruct (run c s'0 items) as [tr' e] eqn:R. inversion H; subst.
    eapply IH; [eapply step_inv; eauto|eauto].
Qed.

(** C03 total_no_panic: no input sequence reaches the nil dereference in Deliver. *)
Lemma step_no_panic c s it : Inv c s -> step c s it <> Panic.
Proof.
  intros [Hf _ _ _ _ _].
  unfold step, step_greet, step_ready, step_mail, step_mail_from, step_data.
  destruct (st s) eqn:Es; destruct it as [l|p| | |]; try discriminate;
    try (destruct l; try discriminate);
    repeat match goal with
           | |- context [match ?x with _ => _ end] => destruct x eqn:?; try discriminate
           | |- context [if ?b then _ else _] => destruct b eqn:?; try discriminate
           end.
  all: try (exfalso; apply Hf; auto; fail).
Qed.

Lemma run_no_panic c : forall items s, Inv c s -> snd (run c s items) <> EPanic.
Proof.
  induction items as [|it items IH]; simpl; intros s HI; [discriminate|].
  destruct (step c s it) eqn:E.
  - destruct (run c s' items) as [tr e] eqn:R. simpl.
    specialize (IH s' (step_inv _ _ _ _ _ _ HI E)). rewrite R in IH. exact IH.
  - discriminate.
  - exfalso. eapply step_no_panic; eauto.
Qed.

(** C03 progress: a line always fits outside DATA/QUIT, a block always fits in DATA. *)
Lemma step_fits_line c s l : st s <> DATA -> st s <> QUIT ->
  exists s' r d, step c s (L l) = Ok s' r d.
Proof.
  intros H1 H2.
  unfold step, step_greet, step_ready, step_mail, step_mail_from.
  destruct (st s) eqn:Es; try congruence; destruct l;
    repeat match goal with
           | |- context [match ?x with _ => _ end] => destruct x eqn:?
           | |- context [if ?b then _ else _] => destruct b eqn:?
           end; eauto.
Qed.

(** C05 recipients_bounded, in every reachable state. *)
Lemma inv_rcpt_bound c s : Inv c s -> (Z.of_nat (length (rcpts s)) <= Z.max 0 (max_rcpt c))%Z.
Proof. intros [_ _ _ H _ _]; exact H. Qed.

(** ** Per-step reply shape (C03 one_reply_per_line) and size rule (C06) *)
Lemma ehlo_group c s : group_ok 250 (ehlo_reply c s) = true.
Proof. unfold ehlo_reply; destruct (tls_enabled c && negb (tls _)); reflexivity. Qed.

Lemma one_group code : group_ok code (one code) = true.
Proof. simpl. rewrite Z.eqb_refl. reflexivity. Qed.

Lemma step_reply_ok c s it s' r d : step c s it = Ok s' r d -> reply_ok (it, r) = true.
Proof.
  intros H.
  unfold step, step_greet, step_ready, step_mail, step_mail_from, step_data in H.
  destruct (st s) eqn:Es; step_cases; simpl;
    rewrite ?Z.eqb_refl; auto using ehlo_group;
    try (unfold ehlo_reply; destruct (tls_enabled c && negb (tls _)); reflexivity).
Qed.

Lemma step_size_ok c s it s' r d : step c s it = Ok s' r d -> size_ok c (it, r, d) = true.
Proof.
  intros H.
  unfold step, step_greet, step_ready, step_mail, step_mail_from, step_data in H.
  destruct (st s) eqn:Es; step_cases; simpl; rewrite ?Heqb, ?Heqb0, ?Heqb1; auto;
    repeat match goal with
           | |- context [match ?x with _ => _ end] => destruct x eqn:?
           end; auto; try lia; try congruence.
Qed.

Lemma step_accept_ok c s it s' r d : step c s it = Ok s' r d -> accept_ok c (it, r) = true.
Proof.
  intros H.
  unfold step, step_greet, step_ready, step_mail, step_mail_from, step_data in H.
  destruct (st s) eqn:Es; step_cases; cbn; rewrite ?Heqb, ?Heqb0, ?Heqb1; auto;
    repeat match goal with
           | H : (_ && _)%bool = false |- _ => apply Bool.andb_false_iff in H as [H|H]
           | H : negb _ = false |- _ => apply Bool.negb_false_iff in H
           | H : negb _ = true |- _ => apply Bool.negb_true_iff in H
           | H : (_ && _)%bool = true |- _ => apply Bool.andb_true_iff in H as [? ?]
           end; try discriminate;
    repeat match goal with H : _ = true |- _ => rewrite H | H : _ = false |- _ => rewrite H end;
    try reflexivity; auto;
    repeat match goal with
           | |- context [match ?x with _ => _ end] => destruct x
           end; reflexivity.
Qed.

Lemma run_forall c (P : entry -> bool) :
  (forall s it s' r d, step c s it = Ok s' r d -> P (it, r, d) = true) ->
  forall items s, forallb P (fst (run c s items)) = true.
Proof.
  intros HP. induction items as [|it items IH]; simpl; intros s; [reflexivity|].
  destruct (step c s it) eqn:E; simpl; auto.
  destruct (run c s' items) as [tr e] eqn:R. simpl.
  rewrite (HP _ _ _ _ _ E). specialize (IH s'). rewrite R in IH. exact IH.
Qed.

(** ** C03 sequencing: the ghost state of [seq_ok] is determined by the session *)
Definition Ghost (s : session) (g o : bool) (n : nat) : Prop :=
  match st s with
  | GREET => o = false /\ n = 0%nat
  | READY | LOGIN | PASSWORD => g = true /\ o = false /\ n = 0%nat
  | MAIL | DATA => g = true /\ o = true /\ n = length (rcpts s)
  | QUIT => True
  end.

Lemma step_seq c s it s' r d g o n rest :
  Inv c s -> Ghost s g o n -> sane_item it = true -> step c s it = Ok s' r d ->
  exists g' o' n', Ghost s' g' o' n' /\ seq_ok g o n ((it, r) :: rest) = seq_ok g' o' n' rest.
Proof.
  intros [Hf Hn Hd Hb _ _] HG Hs H.
  unfold step, step_greet, step_ready, step_mail, step_mail_from, step_data, set_st, reset in H.
  unfold Ghost in *.
  destruct (st s) eqn:Es; step_cases; simpl in *; rewrite ?Es in *; simpl;
    repeat match goal with H : _ /\ _ |- _ => destruct H end; subst;
    try (rewrite andb_true_iff, !negb_true_iff in Hs; destruct Hs as [Hs1 Hs2]; rewrite ?Hs1, ?Hs2);
    try solve [do 3 eexists; split; [|reflexivity]; simpl; auto
              |exists true, false, 0%nat; split; [|try reflexivity]; simpl; auto
              |exists true, true, 0%nat; split; [|try reflexivity]; simpl; auto].
  all: try (unfold ehlo_reply; destruct (tls_enabled c && negb (tls _)); simpl;
            exists true, false, 0%nat; split; [|reflexivity]; simpl; auto).
  all: try (exists true, true, 0%nat; split; [simpl; rewrite Hn by congruence; auto | reflexivity]).
  all: try (match goal with l : pline |- _ => destruct l; simpl end;
            exists true, false, 0%nat; split; auto; fail).
  all: try (match goal with E : rcpts _ = [] |- _ => exists true, true, 0%nat; rewrite E; simpl; auto end; fail).
  all: try (exists true, true, (S (length (rcpts s))); split;
            [simpl; rewrite app_length; simpl; repeat split; auto; lia| reflexivity]).
  all: try (exists true, true, (length (rcpts s)); split; [simpl; auto|];
            simpl; destruct (rcpts s); simpl; congruence).
Qed.

Lemma run_seq c : forall items s g o n,
  Inv c s -> Ghost s g o n -> forallb sane_item items = true ->
  seq_ok g o n (dialogue (fst (run c s items))) = true.
Proof.
  induction items as [|it items IH]; simpl; intros s g o n HI HG Hs; [reflexivity|].
  apply andb_true_iff in Hs; destruct Hs as [Hs1 Hs2].
  destruct (step c s it) eqn:E; simpl; auto.
  destruct (run c s' items) as [tr e] eqn:R.
  destruct (step_seq c s it s' r d g o n (dialogue tr) HI HG Hs1 E) as (g' & o' & n' & HG' & Heq).
  cbn [fst dialogue map snd]. fold (dialogue tr).
  change ((fst (fst (it, r, d)), snd (fst (it, r, d)))) with (it, r).
  rewrite Heq. specialize (IH s' g' o' n' (step_inv _ _ _ _ _ _ HI E) HG' Hs2).
  rewrite R in IH. exact IH.
Qed.

(** ** C01 delivery_exact: the model's deliveries are what the dialogue entitles *)
Definition Rel (s : session) (sender : option origin) : Prop :=
  st s = MAIL \/ st s = DATA -> from s = sender.

Lemma step_entitled c s it s' r d sender rest :
  Inv c s -> Rel s sender -> sane_item it = true -> step c s it = Ok s' r d ->
  exists sender', Rel s' sender' /\
    entitled c sender (helo s) (rcpts s) ((it, r) :: rest) = d ++ entitled c sender' (helo s') (rcpts s') rest.
Proof.
  intros [Hf Hn Hd Hb Hh0 Hh1] HR Hs H.
  unfold step, step_greet, step_ready, step_mail, step_mail_from, step_data, set_st, reset in H.
  unfold Rel in *.
  destruct (st s) eqn:Es; step_cases; simpl in *; rewrite ?Es in *;
    try (rewrite andb_true_iff, !negb_true_iff in Hs; destruct Hs as [Hs1 Hs2]; rewrite ?Hs1, ?Hs2);
    try rewrite (Hn ltac:(congruence) ltac:(congruence) ltac:(congruence)) in *;
    try solve [exists sender; split; [intros [?|?]; try congruence; auto|reflexivity]
              |eexists; split; [intros [?|?]; try congruence; simpl; reflexivity|reflexivity]].
  all: try solve [exists sender; split; [intros [?|?]; try congruence; auto|];
                  repeat match goal with |- context [match ?x with _ => _ end] => destruct x end; reflexivity].
  all: try solve [unfold ehlo_reply; destruct (tls_enabled c && negb (tls _)); simpl;
                  exists sender; split; [intros [?|?]; congruence|reflexivity]].
  all: try solve [match goal with E : rcpts _ = [] |- _ => exists sender; rewrite E; split; auto end].
  all: try solve [exists sender; split; [intros [?|?]; congruence|];
                  rewrite (Hh0 eq_refl); reflexivity].
  all: try solve [exists sender; split; [intros [?|?]; congruence|];
                  destruct (helo s) eqn:Eh; [exfalso; apply Hh1; congruence|reflexivity]].
  all: try solve [exists sender; split; [intros [?|?]; congruence|];
                  rewrite <- (HR ltac:(auto)); rewrite ?Heqo, ?Heqo0; simpl; rewrite ?app_nil_r; reflexivity].
Qed.

Lemma run_entitled c : forall items s sender,
  Inv c s -> Rel s sender -> forallb sane_item items = true ->
  deliveries_of (fst (run c s items)) =
  entitled c sender (helo s) (rcpts s) (dialogue (fst (run c s items))).
Proof.
  induction items as [|it items IH]; simpl; intros s sender HI HR Hs; [reflexivity|].
  apply andb_true_iff in Hs; destruct Hs as [Hs1 Hs2].
  destruct (step c s it) eqn:E; simpl; auto.
  destruct (run c s' items) as [tr e] eqn:R.
  destruct (step_entitled c s it s' r d sender (dialogue tr) HI HR Hs1 E) as (sender' & HR' & Heq).
  cbn [fst dialogue map snd]. fold (dialogue tr).
  change ((fst (fst (it, r, d)), snd (fst (it, r, d)))) with (it, r).
  rewrite Heq. unfold deliveries_of. cbn [map concat snd].
  specialize (IH s' sender' (step_inv _ _ _ _ _ _ HI E) HR' Hs2).
  rewrite R in IH. cbn [fst] in IH. unfold deliveries_of in IH. rewrite IH. reflexivity.
Qed.

(** C18 — the structure of sanitize.HTML, read from the source by the translator on every run
    (Gen/SanitizePipeline.v), is the structure the model composes: two passes, each run on every
    call, the second on the result of the first, its result returned; the tokenizer of
    styleTagFilter is created by html.NewTokenizer and only read through the methods the model
    accounts for (no buffer limit or other configuration). A pass made conditional, a third pass,
    a pass on the wrong value, a tokenizer option: each makes this theorem fail by name. *)
From IV Require Import Base.Bytes Gen.SanitizePipeline Model.Sanitize Model.SanitizePolicy.

Definition s_sanitizeStyleTags : str := [115;97;110;105;116;105;122;101;83;116;121;108;101;84;97;103;115].
Definition s_policy_sanitize : str := [112;111;108;105;99;121;46;83;97;110;105;116;105;122;101].
Definition s_styleTagFilter : str := [115;116;121;108;101;84;97;103;70;105;108;116;101;114].
Definition s_ret : str := [35;114;101;116].
Definition s_new_tokenizer : str := [104;116;109;108;46;78;101;119;84;111;107;101;110;105;122;101;114].

(** HTML(): exactly sanitizeStyleTags(param) then policy.Sanitize(that result), both unguarded,
    the second result returned *)
Definition html_pipeline_ok : bool :=
  match html_calls with
  | [(f1, a1, l1, g1); (f2, a2, l2, g2)] =>
      str_eqb f1 s_sanitizeStyleTags && negb g1 && str_eqb f2 s_policy_sanitize && negb g2
      && Nat.eqb html_nparams 1
      && match a1, l1, a2 with
         | [p], x :: _, [x'] =>
             str_eqb p [118; 48] (* v0: the parameter *) && str_eqb x x'
             && match l2, html_returns with
                | [y], r :: _ => str_eqb y r || str_eqb y s_ret
                | _, _ => false
                end
         | _, _, _ => false
         end
  | _ => false
  end.

(** sanitizeStyleTags(): every call unguarded, styleTagFilter among them *)
Definition style_tags_pipeline_ok : bool :=
  forallb (fun c => negb (snd c)) style_tags_calls
  && existsb (fun c => str_eqb (fst (fst (fst c))) s_styleTagFilter) style_tags_calls.

Definition tokenizer_read_methods : list str :=
  [[69;114;114]; [78;101;120;116]; [82;97;119]; [84;97;103;65;116;116;114]; [84;97;103;78;97;109;101];
   [84;111;107;101;110]; [84;101;120;116]].   (* Err Next Raw TagAttr TagName Token Text *)

Definition tokenizer_ok : bool :=
  str_eqb tokenizer_ctor s_new_tokenizer && forallb (fun m => mem_str m tokenizer_read_methods) tokenizer_methods.

Theorem html_pipeline_pinned :
  html_pipeline_ok = true /\ style_tags_pipeline_ok = true /\ tokenizer_ok = true
  /\ (forall items toks2, html_model items toks2 = bm_sanitize (style_tag_filter items) toks2).
Proof. repeat split; vm_compute; reflexivity. Qed.

(** C17, the TEXT of a deny (until now in NOT_PROVED: reply lines of the session model are code x continuation flag).
    The reply line of a deny is [deny_line code text] (Model/Hooks.v); its format is the source's
    (Gen/SmtpDeny.v, regenerated on every run: the Sprintf sites of handler.go that take ErrorCode and ErrorMsg); for a
    three-digit code the line starts with exactly the digits of the code the session model answers, a blank, and then
    the hook's text byte for byte; the correspondence check compares the implementation's raw reply line with this
    function (extracted), for MAIL and RCPT. *)
From IV Require Import Base.Bytes Base.BytesFacts Model.Policy Model.Smtp Model.Hooks Gen.SmtpDeny.
From Coq Require Import ZifyBool ZifyNat ZifyN Lia.

(** "%03d %s", at the two sites *)
Theorem deny_format_pinned : fmt_deny = [37; 48; 51; 100; 32; 37; 115] /\ deny_sites = 2%nat.
Proof. split; reflexivity. Qed.

(** rendering that format: the verb %03d with [fmt_03d], the verb %s with the text *)
Fixpoint render_deny (f : str) (code : option Z) (text : option str) : str :=
  match f with
  | 37 :: 48 :: 51 :: 100 :: f' =>
      match code with Some z => fmt_03d z ++ render_deny f' None text | None => 37 :: 48 :: 51 :: 100 :: render_deny f' None text end
  | 37 :: 115 :: f' =>
      match text with Some t => t ++ render_deny f' code None | None => 37 :: 115 :: render_deny f' code None end
  | c :: f' => c :: render_deny f' code text
  | [] => []
  end.

Theorem deny_line_is_the_source_format : forall code text,
  render_deny fmt_deny (Some code) (Some text) = deny_line code text.
Proof.
  intros. unfold fmt_deny, deny_line. cbn [render_deny]. rewrite app_nil_r. reflexivity.
Qed.

(** three-digit codes: the three digits, a blank, the text *)
Definition digit (d : Z) : N := (48 + Z.to_N d)%N.
Theorem deny_line_three_digits : forall a b c text,
  (1 <= a <= 9)%Z -> (0 <= b <= 9)%Z -> (0 <= c <= 9)%Z ->
  deny_line (100 * a + 10 * b + c) text = digit a :: digit b :: digit c :: 32 :: text.
Proof.
  intros a b c text Ha Hb Hc.
  assert (Ea : (a = 1 \/ a = 2 \/ a = 3 \/ a = 4 \/ a = 5 \/ a = 6 \/ a = 7 \/ a = 8 \/ a = 9)%Z) by lia.
  assert (Eb : (b = 0 \/ b = 1 \/ b = 2 \/ b = 3 \/ b = 4 \/ b = 5 \/ b = 6 \/ b = 7 \/ b = 8 \/ b = 9)%Z) by lia.
  assert (Ec : (c = 0 \/ c = 1 \/ c = 2 \/ c = 3 \/ c = 4 \/ c = 5 \/ c = 6 \/ c = 7 \/ c = 8 \/ c = 9)%Z) by lia.
  clear Ha Hb Hc.
  repeat (destruct Ea as [Ea|Ea]); subst a;
    repeat (destruct Eb as [Eb|Eb]); subst b;
    repeat (destruct Ec as [Ec|Ec]); subst c; reflexivity.
Qed.

(** ... so the code a client reads off the line is the code of the session model's reply [one code] *)
Definition line_code (l : str) : option Z :=
  match l with
  | a :: b :: c :: _ =>
      if is_digit a && is_digit b && is_digit c
      then Some (100 * Z.of_N (a - 48) + 10 * Z.of_N (b - 48) + Z.of_N (c - 48))%Z else None
  | _ => None
  end.
Theorem deny_line_carries_the_model_code : forall code text, (100 <= code <= 999)%Z ->
  line_code (deny_line code text) = Some code /\ first_code (one code) = code.
Proof.
  intros code text H. split; [|reflexivity].
  assert (E : exists a b c, code = (100 * a + 10 * b + c)%Z /\ (1 <= a <= 9)%Z /\ (0 <= b <= 9)%Z /\ (0 <= c <= 9)%Z).
  { exists (code / 100)%Z, ((code / 10) mod 10)%Z, (code mod 10)%Z. lia. }
  destruct E as (a & b & c & -> & Ha & Hb & Hc).
  rewrite deny_line_three_digits by assumption. unfold line_code, digit, is_digit.
  replace ((48 <=? 48 + Z.to_N a) && (48 + Z.to_N a <=? 57))%N with true by lia.
  replace ((48 <=? 48 + Z.to_N b) && (48 + Z.to_N b <=? 57))%N with true by lia.
  replace ((48 <=? 48 + Z.to_N c) && (48 + Z.to_N c <=? 57))%N with true by lia.
  cbn [andb]. f_equal. lia.
Qed.

(** the text is not touched: whatever follows the fourth byte is the hook's message *)
Theorem deny_line_text_verbatim : forall code text, (100 <= code <= 999)%Z -> skipn 4 (deny_line code text) = text.
Proof.
  intros code text H.
  assert (E : exists a b c, code = (100 * a + 10 * b + c)%Z /\ (1 <= a <= 9)%Z /\ (0 <= b <= 9)%Z /\ (0 <= c <= 9)%Z).
  { exists (code / 100)%Z, ((code / 10) mod 10)%Z, (code mod 10)%Z. lia. }
  destruct E as (a & b & c & -> & Ha & Hb & Hc).
  rewrite deny_line_three_digits by assumption. reflexivity.
Qed.

(** what %03d does outside three digits (the generator uses 5, 99 and 999 too) *)
Example deny_line_padding :
  deny_line 5 [120] = [48;48;53;32;120] /\ deny_line 99 [120] = [48;57;57;32;120] /\
  deny_line (-5) [120] = [45;48;53;32;120] /\ deny_line 12345 [] = [49;50;51;52;53;32].
Proof. repeat split; reflexivity. Qed.

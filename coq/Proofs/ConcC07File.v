(** C09 x C07 — the file store: statement (NOT proved) that the sequential specification the interleaved
    file store is linearizable to ([ConcFile.fseq_exec], theorem file_linearizable) is the abstract store
    [StoreSpec.exec_spec] without cap and size limit — the hypotheses under which C07 proves
    [file_refines_spec] (c_max = 0; ids fresh), plus c_cap = 0 because the concurrency model of the file store
    has no cap.  What differs and is bridged in the statement:
    * ids: the concurrency model issues ids from one store-wide counter (only freshness matters; the real
      ids are clock seconds + counter, C07's [file_fresh]); an id is read as the handle "position of that id
      among the ids issued to this mailbox so far" ([hd_iss], the inverse of C07's [resolve]);
    * a delivery's answer is compared up to the id ([C.RId 0] on both sides). *)
From Coq Require Import List Arith Lia NArith ZArith.
From IV Require Import Base.Bytes Model.StoreSpec Model.StoreSpecImpl Proofs.ConcC07Mem.
From IV Require Model.Conc Model.ConcFile.
Import ListNotations.

Module F := IV.Model.ConcFile.

Definition issued_f := list (N * list N).
Definition iss_get (mb : N) (iss : issued_f) : list N := match C.aget mb iss with Some l => l | None => [] end.

Fixpoint pos_of (i : N) (l : list N) : option nat :=
  match l with [] => None | j :: l' => if (i =? j)%N then Some 0%nat else option_map S (pos_of i l') end.
Definition hd_iss (iss : issued_f) (mb i : N) : handle :=
  match pos_of i (iss_get mb iss) with Some k => Kth k | None => Bogus end.

Fixpoint up_file (iss : issued_f) (next : N) (ops : list C.op) : list op :=
  match ops with
  | [] => []
  | o :: r =>
      match o with
      | C.OAdd mb tag size =>
          Add (nm mb) 0%Z tag size :: up_file (C.aset mb (iss_get mb iss ++ [(next + 1)%N]) iss) (next + 1)%N r
      | C.OGet mb i => Get (nm mb) (hd_iss iss mb i) :: up_file iss next r
      | C.OLatest mb => Get (nm mb) Latest :: up_file iss next r
      | C.OList mb => Lst (nm mb) :: up_file iss next r
      | C.OSeen mb i => Seen (nm mb) (hd_iss iss mb i) :: up_file iss next r
      | C.ORemove mb i => Remove (nm mb) (hd_iss iss mb i) :: up_file iss next r
      | C.OPurge mb => Purge (nm mb) :: up_file iss next r
      | C.OVisit => Visit :: up_file iss next r
      end
  end.

Definition shape (r : C.res) : C.res := match r with C.RId _ => C.RId 0 | _ => r end.

Definition file_spec_is_storespec_stmt : Prop :=
  forall ops, Forall no_visit ops ->
    map shape (snd (F.fseq_run ([], 0%N) ops)) =
    map shape (map down_obs (map fst (run_spec {| c_cap := 0%nat; c_max := 0%N |} spec_init (up_file [] 0%N ops)))).

(** Sanity: the statement holds on a history with two mailboxes, re-delivery after purge, a removal by id and
    mark-seen. *)
Example file_spec_is_storespec_instance :
  let ops := [C.OAdd 1 1 10; C.OAdd 2 2 10; C.OAdd 1 3 10; C.OSeen 1 3; C.OList 1; C.ORemove 1 1; C.OGet 1 1;
              C.OLatest 1; C.OPurge 1; C.OAdd 1 4 10; C.OGet 1 4; C.OList 2; C.OGet 2 2; C.OSeen 2 9]%N in
  map shape (snd (F.fseq_run ([], 0%N) ops)) =
  map shape (map down_obs (map fst (run_spec {| c_cap := 0%nat; c_max := 0%N |} spec_init (up_file [] 0%N ops)))).
Proof. vm_compute. reflexivity. Qed.

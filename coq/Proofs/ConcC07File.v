(** C09 x C07 — the file store: the sequential specification the interleaved
    file store is linearizable to ([ConcFile.fseq_exec], theorem file_linearizable) IS the abstract store
    [StoreSpec.exec_spec] without cap and size limit — the hypotheses under which C07 proves
    [file_refines_spec] (c_max = 0; ids fresh), plus c_cap = 0 because the concurrency model of the file store
    has no cap.  What differs and is bridged in the statement:
    * ids: the concurrency model issues ids from one store-wide counter (only freshness matters; the real
      ids are clock seconds + counter, C07's [file_fresh]); an id is read as the handle "position of that id
      among the ids issued to this mailbox so far" ([hd_iss], the inverse of C07's [resolve]);
    * a delivery's answer is compared up to the id ([C.RId 0] on both sides). *)
From Coq Require Import List Arith Lia NArith ZArith.
From Coq Require Import Sorted ZifyN ZifyNat ZifyBool.
From IV Require Import Base.Bytes Model.StoreSpec Model.StoreSpecImpl Proofs.StoreSpecFacts Proofs.StoreSpecRefine Proofs.ConcC07Mem.
From IV Require Model.Conc Model.ConcFile Proofs.ConcBase Proofs.ConcFileInv Proofs.ConcFileLin Proofs.ConcFileLogOps.
Import ListNotations.

Module F := IV.Model.ConcFile.

Definition issued_f := list (N * list N).
Definition iss_get (mb : N) (iss : issued_f) : list N := match C.aget mb iss with Some l => l | None => [] end.

Fixpoint pos_of (i : N) (l : list N) : option nat :=
  match l with [] => None | j :: l' => if (i =? j)%N then Some 0%nat else option_map S (pos_of i l') end.
Definition hd_iss (iss : issued_f) (mb i : N) : handle :=
  match pos_of i (iss_get mb iss) with Some k => Kth k | None => Bogus end.

Fixpoint up_file (iss : issued_f) (next : N) (ops : list C.op) : list op :=
  match ops with
  | [] => []
  | o :: r =>
      match o with
      | C.OAdd mb tag size =>
          Add (nm mb) 0%Z tag size :: up_file (C.aset mb (iss_get mb iss ++ [(next + 1)%N]) iss) (next + 1)%N r
      | C.OGet mb i => Get (nm mb) (hd_iss iss mb i) :: up_file iss next r
      | C.OLatest mb => Get (nm mb) Latest :: up_file iss next r
      | C.OList mb => Lst (nm mb) :: up_file iss next r
      | C.OSeen mb i => Seen (nm mb) (hd_iss iss mb i) :: up_file iss next r
      | C.ORemove mb i => Remove (nm mb) (hd_iss iss mb i) :: up_file iss next r
      | C.OPurge mb => Purge (nm mb) :: up_file iss next r
      | C.OVisit => Visit :: up_file iss next r
      end
  end.

Definition shape (r : C.res) : C.res := match r with C.RId _ => C.RId 0 | _ => r end.

Definition file_spec_is_storespec_stmt : Prop :=
  forall ops, Forall no_visit ops ->
    map shape (snd (F.fseq_run ([], 0%N) ops)) =
    map shape (map down_obs (map fst (run_spec {| c_cap := 0%nat; c_max := 0%N |} spec_init (up_file [] 0%N ops)))).

(* ------------------------------------------------------------------ proof *)

Local Open Scope nat_scope.

Definition fmsg (m : C.msg) : N * msg := (C.m_id m, cmsg m).
Definition idof (iss : issued_f) (mb : N) (k : nat) : N := nth k (iss_get mb iss) 0%N.
Definition afind := al_find N N.eqb.
Definition aremove := al_remove N N.eqb.
Definition aseen := al_seen N N.eqb.

Lemma afind_fmsg i l : afind i (map fmsg l) = option_map cmsg (C.find_msg i l).
Proof.
  induction l as [|m l IH]; [reflexivity|]. cbn [map C.find_msg]. unfold afind in *. cbn [al_find fmsg].
  rewrite N.eqb_sym. destruct (C.m_id m =? i)%N; [reflexivity | exact IH].
Qed.
Lemma aremove_fmsg i l : aremove i (map fmsg l) = map fmsg (C.del_msg i l).
Proof.
  induction l as [|m l IH]; [reflexivity|]. cbn [map C.del_msg]. unfold aremove in *. cbn [al_remove fmsg].
  rewrite N.eqb_sym. destruct (C.m_id m =? i)%N; [reflexivity|]. cbn [map]. now rewrite IH.
Qed.
Lemma aseen_fmsg i l : aseen i (map fmsg l) = map fmsg (C.mark_seen i l).
Proof.
  induction l as [|m l IH]; [reflexivity|]. cbn [map C.mark_seen]. unfold aseen in *. cbn [al_seen fmsg].
  rewrite N.eqb_sym. destruct (C.m_id m =? i)%N; [reflexivity|]. cbn [map]. now rewrite IH.
Qed.

Lemma Neqb_eq a b : N.eqb a b = true <-> a = b.
Proof. apply N.eqb_eq. Qed.

Lemma pos_of_some i L k : pos_of i L = Some k -> k < length L /\ nth k L 0%N = i.
Proof.
  revert k; induction L as [|j L IH]; intros k; cbn [pos_of]; [discriminate|].
  destruct (i =? j)%N eqn:E.
  - intros H; inversion H; subst. apply N.eqb_eq in E. cbn. split; [lia | congruence].
  - destruct (pos_of i L) as [k'|]; [|discriminate]. cbn [option_map]. intros H; inversion H; subst.
    destruct (IH k' eq_refl). cbn. split; [lia | assumption].
Qed.
Lemma pos_of_none i L : pos_of i L = None -> ~ In i L.
Proof.
  induction L as [|j L IH]; cbn [pos_of]; [tauto|]. destruct (i =? j)%N eqn:E; [discriminate|].
  destruct (pos_of i L); [discriminate|]. intros _ [H|H]; [apply N.eqb_neq in E; congruence | now apply IH].
Qed.

Record RF (S : F.fspec) (iss : issued_f) (st : spec_store) : Prop := {
  rf_box : forall mb, map fmsg (F.smsgs mb S) = rep N (idof iss mb) (box (nm mb) (live st));
  rf_cnt : forall mb, count_of (nm mb) (counts st) = length (iss_get mb iss);
  rf_nd : forall mb, NoDup (iss_get mb iss);
  rf_fresh : forall mb i, In i (iss_get mb iss) -> (i <= snd S)%N;
  rf_inv : SInv st
}.

Section FSteps.
  Variables (S : F.fspec) (iss : issued_f) (st : spec_store).
  Hypothesis HR : RF S iss st.

  Lemma idof_inj mb a b : a < length (iss_get mb iss) -> b < length (iss_get mb iss) -> idof iss mb a = idof iss mb b -> a = b.
  Proof. intros Ha Hb H. unfold idof in H. eapply NoDup_nth; eauto. apply (rf_nd _ _ _ HR). Qed.

  Lemma box_lt mb e : In e (box (nm mb) (live st)) -> e_k e < length (iss_get mb iss).
  Proof.
    intros He. apply box_in in He. destruct He as [He Hm]. destruct (rf_inv _ _ _ HR) as [_ H2].
    specialize (H2 e He). rewrite Hm in H2. now rewrite (rf_cnt _ _ _ HR) in H2.
  Qed.

  Lemma box_sorted mb : StronglySorted klt (box (nm mb) (live st)).
  Proof. destruct (rf_inv _ _ _ HR) as [H1 _]. apply H1. Qed.

  (** What a Conc id means: the handle of its position among the ids issued to the mailbox. *)
  Lemma find_by_id mb i :
    option_map cmsg (C.find_msg i (F.smsgs mb S)) =
    option_map e_msg (find_h (nm mb) (hd_iss iss mb i) (live st)).
  Proof.
    rewrite <- afind_fmsg, (rf_box _ _ _ HR). unfold hd_iss.
    destruct (pos_of i (iss_get mb iss)) as [k|] eqn:Ep.
    - destruct (pos_of_some _ _ _ Ep) as [Hk Hn]. cbn [find_h]. rewrite find_box.
      replace i with (idof iss mb k) by exact Hn. unfold afind.
      apply (rep_find N N.eqb Neqb_eq (idof iss mb) (length (iss_get mb iss)) (idof_inj mb)); [exact Hk | apply box_lt].
    - cbn [find_h option_map]. pose proof (pos_of_none _ _ Ep) as Hni.
      assert (G : forall sb, (forall e, In e sb -> e_k e < length (iss_get mb iss)) -> afind i (rep N (idof iss mb) sb) = None).
      { induction sb as [|e sb IH]; intros Hb; [reflexivity|]. cbn [rep map]. unfold afind. cbn [al_find].
        destruct (i =? idof iss mb (e_k e))%N eqn:E.
        - apply N.eqb_eq in E. exfalso. apply Hni. rewrite E. unfold idof. apply nth_In. apply Hb. now left.
        - apply IH. intros x Hx. apply Hb. now right. }
      apply G. apply box_lt.
  Qed.

  Definition cfg00 : scfg := {| c_cap := 0; c_max := 0 |}.

  Lemma smsgs_aset_same mb l : F.smsgs mb (C.aset mb l (fst S), snd S) = l.
  Proof. unfold F.smsgs; cbn [fst]. now rewrite ConcBase.aget_aset_same. Qed.
  Lemma smsgs_aset_other mb mb' l : mb' <> mb -> F.smsgs mb' (C.aset mb l (fst S), snd S) = F.smsgs mb' S.
  Proof. intros H. unfold F.smsgs; cbn [fst]. now rewrite ConcBase.aget_aset_other. Qed.

  Lemma nm_neq mb mb' : mb' <> mb -> nm mb' <> nm mb.
  Proof. intros H E. apply nm_inj in E. congruence. Qed.

  (** Updating one mailbox on both sides (same issued table, same counters). *)
  Lemma RF_update mb l live' :
    map fmsg l = rep N (idof iss mb) (box (nm mb) live') ->
    (forall mb', mb' <> mb -> box (nm mb') live' = box (nm mb') (live st)) ->
    SInv {| live := live'; counts := counts st |} ->
    RF (C.aset mb l (fst S), snd S) iss {| live := live'; counts := counts st |}.
  Proof.
    intros Hb Ho Hi. destruct HR as [H1 H2 H3 H4 H5]. constructor; cbn [live counts snd]; auto.
    intros mb'. destruct (N.eq_dec mb' mb) as [->|Hne].
    - rewrite smsgs_aset_same. exact Hb.
    - rewrite smsgs_aset_other by exact Hne. rewrite Ho by exact Hne. apply H1.
  Qed.

  Lemma step_get_f mb i :
    let '(S', r) := F.fseq_exec S (C.OGet mb i) in
    let '(st', ob, _) := exec_spec cfg00 st (Get (nm mb) (hd_iss iss mb i)) in
    RF S' iss st' /\ shape r = shape (down_obs ob).
  Proof.
    cbn [F.fseq_exec]. pose proof (find_by_id mb i) as Hf.
    assert (Hex : exec_spec cfg00 st (Get (nm mb) (hd_iss iss mb i)) =
                  (st, OGet (res_of_find (find_h (nm mb) (hd_iss iss mb i) (live st))), [])).
    { unfold hd_iss. destruct (pos_of i (iss_get mb iss)); reflexivity. }
    rewrite Hex. split; [exact HR|]. unfold C.box_get. cbn [C.b_msgs].
    destruct (C.find_msg i (F.smsgs mb S)) as [m|]; destruct (find_h (nm mb) (hd_iss iss mb i) (live st)) as [e|];
      cbn [option_map] in Hf; try discriminate; cbn [res_of_find down_obs shape view_of snd]; [|reflexivity].
    inversion Hf as [Hm]. reflexivity.
  Qed.

  Lemma msgs_are mb : map cmsg (F.smsgs mb S) = map e_msg (box (nm mb) (live st)).
  Proof.
    pose proof (f_equal (map snd) (rf_box _ _ _ HR mb)) as H. unfold rep in H. rewrite !map_map in H. exact H.
  Qed.

  Lemma step_latest_f mb :
    let '(S', r) := F.fseq_exec S (C.OLatest mb) in
    let '(st', ob, _) := exec_spec cfg00 st (Get (nm mb) Latest) in
    RF S' iss st' /\ shape r = shape (down_obs ob).
  Proof.
    cbn [F.fseq_exec exec_spec]. split; [exact HR|]. unfold C.box_latest. cbn [C.b_msgs].
    pose proof (msgs_are mb) as Hm.
    assert (Hl : option_map cmsg (C.last_msg (F.smsgs mb S)) = option_map e_msg (last_opt (box (nm mb) (live st)))).
    { rewrite <- (last_opt_map e_msg), <- Hm. clear. induction (F.smsgs mb S) as [|m l IH]; [reflexivity|].
      destruct l as [|m' l]; [reflexivity|]. exact IH. }
    destruct (C.last_msg (F.smsgs mb S)) as [m|]; destruct (last_opt (box (nm mb) (live st))) as [e|];
      cbn [option_map] in Hl; try discriminate; cbn [res_of_find down_obs shape view_of snd]; [|reflexivity].
    inversion Hl as [Hx]. reflexivity.
  Qed.

  Lemma step_list_f mb :
    let '(S', r) := F.fseq_exec S (C.OList mb) in
    let '(st', ob, _) := exec_spec cfg00 st (Lst (nm mb)) in
    RF S' iss st' /\ shape r = shape (down_obs ob).
  Proof.
    cbn [F.fseq_exec exec_spec]. split; [exact HR|]. unfold C.box_list. cbn [C.b_msgs down_obs shape]. f_equal.
    pose proof (f_equal (map (fun m => (m_tag m, m_seen m))) (msgs_are mb)) as H. rewrite !map_map in H.
    unfold C.view_of. rewrite map_map. exact H.
  Qed.

  Lemma find_kth_k mb k e : find (is_ent (nm mb) k) (live st) = Some e -> e_k e = k /\ In e (box (nm mb) (live st)).
  Proof.
    intros H. destruct (find_some_in _ _ _ H) as [Hin Hf]. unfold is_ent in Hf. apply andb_true_iff in Hf. destruct Hf as [H1 H2].
    apply Nat.eqb_eq in H2. split; [exact H2|]. apply box_in. split; [exact Hin|]. now apply ent_in_eq.
  Qed.

  Lemma SInv_after o : SInv (fst (fst (exec_spec cfg00 st o))).
  Proof. apply exec_spec_SInv. apply (rf_inv _ _ _ HR). Qed.

  Lemma step_seen_f mb i :
    let '(S', r) := F.fseq_exec S (C.OSeen mb i) in
    let '(st', ob, _) := exec_spec cfg00 st (Seen (nm mb) (hd_iss iss mb i)) in
    RF S' iss st' /\ shape r = shape (down_obs ob).
  Proof.
    cbn [F.fseq_exec]. pose proof (find_by_id mb i) as Hf. pose proof (SInv_after (Seen (nm mb) (hd_iss iss mb i))) as HI.
    unfold hd_iss in *. destruct (pos_of i (iss_get mb iss)) as [k|] eqn:Ep; cbn [exec_spec find_h] in *.
    - destruct (pos_of_some _ _ _ Ep) as [Hk Hi].
      destruct (find (is_ent (nm mb) k) (live st)) as [e|] eqn:Ef; destruct (C.find_msg i (F.smsgs mb S)) as [m|] eqn:Em;
        cbn [option_map] in Hf; try discriminate; cbn [fst snd] in *.
      + destruct (find_kth_k _ _ _ Ef) as [Hek _]. rewrite Hek in *. split; [|reflexivity].
        apply RF_update; [| intros mb' Hne; apply box_seen_other; now apply nm_neq | exact HI].
        rewrite <- aseen_fmsg, (rf_box _ _ _ HR), box_seen_same. rewrite <- Hi.
        apply (rep_seen N N.eqb Neqb_eq (idof iss mb) (length (iss_get mb iss)) (idof_inj mb)); [exact Hk | apply box_lt | apply box_sorted].
      + split; [exact HR | reflexivity].
    - destruct (C.find_msg i (F.smsgs mb S)); cbn [option_map] in Hf; try discriminate. split; [exact HR | reflexivity].
  Qed.

  Lemma step_remove_f mb i :
    let '(S', r) := F.fseq_exec S (C.ORemove mb i) in
    let '(st', ob, _) := exec_spec cfg00 st (Remove (nm mb) (hd_iss iss mb i)) in
    RF S' iss st' /\ shape r = shape (down_obs ob).
  Proof.
    cbn [F.fseq_exec]. pose proof (find_by_id mb i) as Hf. pose proof (SInv_after (Remove (nm mb) (hd_iss iss mb i))) as HI.
    unfold hd_iss in *. destruct (pos_of i (iss_get mb iss)) as [k|] eqn:Ep; cbn [exec_spec find_h] in *.
    - destruct (pos_of_some _ _ _ Ep) as [Hk Hi].
      destruct (find (is_ent (nm mb) k) (live st)) as [e|] eqn:Ef; destruct (C.find_msg i (F.smsgs mb S)) as [m|] eqn:Em;
        cbn [option_map] in Hf; try discriminate; cbn [fst snd] in *.
      + destruct (find_kth_k _ _ _ Ef) as [Hek _]. rewrite Hek in *. split; [|reflexivity].
        apply RF_update; [| intros mb' Hne; apply box_remove_other; now apply nm_neq | exact HI].
        rewrite <- aremove_fmsg, (rf_box _ _ _ HR), box_remove_same. rewrite <- Hi.
        apply (rep_remove N N.eqb Neqb_eq (idof iss mb) (length (iss_get mb iss)) (idof_inj mb)); [exact Hk | apply box_lt | apply box_sorted].
      + split; [exact HR | reflexivity].
    - destruct (C.find_msg i (F.smsgs mb S)); cbn [option_map] in Hf; try discriminate. split; [exact HR | reflexivity].
  Qed.

  Lemma step_purge_f mb :
    let '(S', r) := F.fseq_exec S (C.OPurge mb) in
    let '(st', ob, _) := exec_spec cfg00 st (Purge (nm mb)) in
    RF S' iss st' /\ shape r = shape (down_obs ob).
  Proof.
    cbn [F.fseq_exec exec_spec]. pose proof (SInv_after (Purge (nm mb))) as HI. cbn [exec_spec fst] in HI.
    split; [|reflexivity].
    apply RF_update; [| intros mb' Hne; apply box_purge_other; now apply nm_neq | exact HI].
    rewrite box_purge_same. reflexivity.
  Qed.

  Lemma iss_get_same mb l : iss_get mb (C.aset mb l iss) = l.
  Proof. unfold iss_get. now rewrite ConcBase.aget_aset_same. Qed.
  Lemma iss_get_other mb mb' l : mb' <> mb -> iss_get mb' (C.aset mb l iss) = iss_get mb' iss.
  Proof. intros H. unfold iss_get. now rewrite ConcBase.aget_aset_other. Qed.

  Lemma rep_ext_in (f g : nat -> N) sb : (forall e, In e sb -> f (e_k e) = g (e_k e)) -> rep N f sb = rep N g sb.
  Proof. intros H. unfold rep. apply map_ext_in. intros e He. now rewrite (H e He). Qed.

  Lemma smsgs_set_same mb l X n : F.smsgs mb (C.aset mb l X, n) = l.
  Proof. unfold F.smsgs; cbn [fst]. now rewrite ConcBase.aget_aset_same. Qed.
  Lemma smsgs_set_other mb mb' l X n n' : mb' <> mb -> F.smsgs mb' (C.aset mb l X, n) = F.smsgs mb' (X, n').
  Proof. intros H. unfold F.smsgs; cbn [fst]. now rewrite ConcBase.aget_aset_other. Qed.
  Lemma NoDup_snoc_l {A} (l : list A) a : NoDup l -> ~ In a l -> NoDup (l ++ [a]).
  Proof.
    intros Hn Hx. induction Hn as [|b l Hb Hl IH]; cbn; [constructor; [tauto | constructor]|].
    constructor; [rewrite in_app_iff; cbn; intros [?|[?|[]]]; [tauto | subst; apply Hx; now left] | apply IH; intros H; apply Hx; now right].
  Qed.

  Lemma step_add_f mb tag size :
    let '(S', r) := F.fseq_exec S (C.OAdd mb tag size) in
    let '(st', ob, _) := exec_spec cfg00 st (Add (nm mb) 0%Z tag size) in
    RF S' (C.aset mb (iss_get mb iss ++ [(snd S + 1)%N]) iss) st' /\ shape r = shape (down_obs ob) /\ snd S' = (snd S + 1)%N.
  Proof.
    pose proof (SInv_after (Add (nm mb) 0%Z tag size)) as HI.
    cbn [F.fseq_exec]. cbn [exec_spec] in *. unfold spec_add in *. cbn [cfg00 c_cap c_max Nat.eqb N.eqb] in *. cbn [fst snd] in *.
    split; [|split; reflexivity].
    set (x := (snd S + 1)%N). set (k := count_of (nm mb) (counts st)).
    set (e := {| e_mb := nm mb; e_k := k; e_msg := {| m_date := 0; m_tag := tag; m_size := size; m_seen := false |} |}).
    assert (Hk : k = length (iss_get mb iss)) by apply (rf_cnt _ _ _ HR).
    constructor; cbn [live counts snd fst].
    - intros mb'. destruct (N.eq_dec mb' mb) as [->|Hne].
      + rewrite smsgs_set_same, map_app, box_app. cbn [map]. unfold rep. rewrite map_app.
        assert (Hbe : box (nm mb) [e] = [e]).
        { unfold box. cbn [filter]. assert (ent_in (nm mb) e = true) as -> by (apply ent_in_eq; reflexivity). reflexivity. }
        rewrite Hbe. cbn [map e_k e_msg e]. f_equal.
        * rewrite (rf_box _ _ _ HR). apply rep_ext_in. intros e' He'. unfold idof. rewrite iss_get_same.
          rewrite app_nth1 by (apply box_lt; exact He'). reflexivity.
        * unfold fmsg, cmsg. cbn. f_equal. f_equal. unfold idof. rewrite iss_get_same, Hk, nth_middle. reflexivity.
      + rewrite (smsgs_set_other mb mb' _ (fst S) _ (snd S)) by exact Hne. change (fst S, snd S) with (fst S, snd S). replace (fst S, snd S) with S by (destruct S; reflexivity). rewrite box_app.
        assert (Hbe : box (nm mb') [e] = []).
        { unfold box. cbn [filter]. assert (ent_in (nm mb') e = false) as -> by (apply ent_in_neq; cbn; intros E; apply nm_inj in E; congruence). reflexivity. }
        rewrite Hbe, app_nil_r, (rf_box _ _ _ HR). apply rep_ext_in. intros e' He'. unfold idof. now rewrite iss_get_other.
    - intros mb'. destruct (N.eq_dec mb' mb) as [->|Hne].
      + rewrite count_bump_same, iss_get_same, app_length. cbn. fold k. lia.
      + rewrite count_bump_other by (apply nm_neq; congruence). rewrite iss_get_other by exact Hne. apply (rf_cnt _ _ _ HR).
    - intros mb'. destruct (N.eq_dec mb' mb) as [->|Hne].
      + rewrite iss_get_same. apply NoDup_snoc_l; [apply (rf_nd _ _ _ HR)|].
        intros Hin. pose proof (rf_fresh _ _ _ HR _ _ Hin). unfold x in *. lia.
      + rewrite iss_get_other by exact Hne. apply (rf_nd _ _ _ HR).
    - intros mb' i Hin. destruct (N.eq_dec mb' mb) as [->|Hne].
      + rewrite iss_get_same in Hin. apply in_app_or in Hin. destruct Hin as [Hin|[<-|[]]]; [|unfold x; lia].
        pose proof (rf_fresh _ _ _ HR _ _ Hin). lia.
      + rewrite iss_get_other in Hin by exact Hne. pose proof (rf_fresh _ _ _ HR _ _ Hin). lia.
    - exact HI.
  Qed.
End FSteps.

Lemma run_sim_f : forall ops S iss st, RF S iss st -> Forall no_visit ops ->
  map shape (snd (F.fseq_run S ops)) =
  map shape (map down_obs (map fst (run_spec cfg00 st (up_file iss (snd S) ops)))).
Proof.
  induction ops as [|o ops IH]; intros S iss st HR Hv; [reflexivity|].
  inversion Hv as [|? ? Ho Hrest]; subst.
  cbn [F.fseq_run up_file].
  destruct o as [mb tag size|mb i|mb|mb|mb i|mb i|mb|]; cbn [run_spec map].
  - pose proof (step_add_f S iss st HR mb tag size) as H.
    destruct (F.fseq_exec S (C.OAdd mb tag size)) as [S' r]. destruct (exec_spec cfg00 st (Add (nm mb) 0%Z tag size)) as [[st' ob] evs].
    destruct H as (HR' & Hs & Hn). specialize (IH S' _ st' HR' Hrest). rewrite Hn in IH.
    destruct (F.fseq_run S' ops) as [S2 rs]. cbn [snd map fst] in *. now rewrite Hs, IH.
  - pose proof (step_get_f S iss st HR mb i) as H.
    destruct (F.fseq_exec S (C.OGet mb i)) as [S' r] eqn:E1. destruct (exec_spec cfg00 st (Get (nm mb) (hd_iss iss mb i))) as [[st' ob] evs].
    destruct H as (HR' & Hs). assert (Hn : snd S' = snd S) by (cbn in E1; inversion E1; reflexivity).
    specialize (IH S' _ st' HR' Hrest). rewrite Hn in IH.
    destruct (F.fseq_run S' ops) as [S2 rs]. cbn [snd map fst] in *. now rewrite Hs, IH.
  - pose proof (step_latest_f S iss st HR mb) as H.
    destruct (F.fseq_exec S (C.OLatest mb)) as [S' r] eqn:E1. destruct (exec_spec cfg00 st (Get (nm mb) Latest)) as [[st' ob] evs].
    destruct H as (HR' & Hs). assert (Hn : snd S' = snd S) by (cbn in E1; inversion E1; reflexivity).
    specialize (IH S' _ st' HR' Hrest). rewrite Hn in IH.
    destruct (F.fseq_run S' ops) as [S2 rs]. cbn [snd map fst] in *. now rewrite Hs, IH.
  - pose proof (step_list_f S iss st HR mb) as H.
    destruct (F.fseq_exec S (C.OList mb)) as [S' r] eqn:E1. destruct (exec_spec cfg00 st (Lst (nm mb))) as [[st' ob] evs].
    destruct H as (HR' & Hs). assert (Hn : snd S' = snd S) by (cbn in E1; inversion E1; reflexivity).
    specialize (IH S' _ st' HR' Hrest). rewrite Hn in IH.
    destruct (F.fseq_run S' ops) as [S2 rs]. cbn [snd map fst] in *. now rewrite Hs, IH.
  - pose proof (step_seen_f S iss st HR mb i) as H.
    destruct (F.fseq_exec S (C.OSeen mb i)) as [S' r] eqn:E1. destruct (exec_spec cfg00 st (Seen (nm mb) (hd_iss iss mb i))) as [[st' ob] evs].
    destruct H as (HR' & Hs).
    assert (Hn : snd S' = snd S) by (cbn in E1; destruct (C.find_msg i (F.smsgs mb S)); inversion E1; reflexivity).
    specialize (IH S' _ st' HR' Hrest). rewrite Hn in IH.
    destruct (F.fseq_run S' ops) as [S2 rs]. cbn [snd map fst] in *. now rewrite Hs, IH.
  - pose proof (step_remove_f S iss st HR mb i) as H.
    destruct (F.fseq_exec S (C.ORemove mb i)) as [S' r] eqn:E1. destruct (exec_spec cfg00 st (Remove (nm mb) (hd_iss iss mb i))) as [[st' ob] evs].
    destruct H as (HR' & Hs).
    assert (Hn : snd S' = snd S) by (cbn in E1; destruct (C.find_msg i (F.smsgs mb S)); inversion E1; reflexivity).
    specialize (IH S' _ st' HR' Hrest). rewrite Hn in IH.
    destruct (F.fseq_run S' ops) as [S2 rs]. cbn [snd map fst] in *. now rewrite Hs, IH.
  - pose proof (step_purge_f S iss st HR mb) as H.
    destruct (F.fseq_exec S (C.OPurge mb)) as [S' r] eqn:E1. destruct (exec_spec cfg00 st (Purge (nm mb))) as [[st' ob] evs].
    destruct H as (HR' & Hs). assert (Hn : snd S' = snd S) by (cbn in E1; inversion E1; reflexivity).
    specialize (IH S' _ st' HR' Hrest). rewrite Hn in IH.
    destruct (F.fseq_run S' ops) as [S2 rs]. cbn [snd map fst] in *. now rewrite Hs, IH.
  - exfalso. apply Ho. reflexivity.
Qed.

Lemma RF_init : RF ([], 0%N) [] spec_init.
Proof.
  constructor; cbn; auto.
  - intros mb. constructor.
  - intros mb i [].
  - apply SInv_init.
Qed.

(** The sequential specification of the file-store concurrency model is the abstract store (no cap, no size
    limit): same answers on every operation list (walks apart), an id being read as the handle of its position
    among the ids issued to its mailbox, deliveries compared up to the id. *)
Theorem file_spec_is_storespec : forall ops, Forall no_visit ops ->
  map shape (snd (F.fseq_run ([], 0%N) ops)) =
  map shape (map down_obs (map fst (run_spec {| c_cap := 0%nat; c_max := 0%N |} spec_init (up_file [] 0%N ops)))).
Proof. intros ops Hv. exact (run_sim_f ops ([], 0%N) [] spec_init RF_init Hv). Qed.

(** Linearizability of the file store with respect to the abstract store itself: the commit order of any
    schedule of the file-store concurrency model, read as C07 operations (ids as handles of the issued table
    built along that very order), is a [StoreSpec.run_spec] history with the committed results (deliveries up to
    the id). Real-time consistency is file_commit_in_real_time. *)
Module FL := IV.Proofs.ConcFileLin.
Theorem file_linearizable_to_storespec : forall g ops sched s,
  (F.frun (F.finit g ops) sched = F.FFin s \/ exists n, F.frun (F.finit g ops) sched = F.FBlockedAt n s) ->
  map shape (map FL.flres (F.f_log s)) =
  map shape (map down_obs (map fst (run_spec {| c_cap := 0%nat; c_max := 0%N |} spec_init
                                              (up_file [] 0%N (map FL.flop (F.f_log s)))))).
Proof.
  intros g ops sched s Hr.
  pose proof (FL.file_linearizable_holds g ops sched) as H.
  pose proof (IV.Proofs.ConcFileInv.frun_from_reach (F.finit g ops) sched 0 _ (IV.Proofs.ConcFileInv.freach_refl _)) as R.
  unfold F.frun in *.
  assert (Hs : F.frun_from 0 (F.finit g ops) sched = F.FFin s \/ exists n, F.frun_from 0 (F.finit g ops) sched = F.FBlockedAt n s) by exact Hr.
  assert (HR : IV.Proofs.ConcFileInv.freach (F.finit g ops) s /\ snd (F.fseq_run ([], 0%N) (map FL.flop (F.f_log s))) = map FL.flres (F.f_log s)).
  { destruct Hs as [Hs|[n Hs]]; rewrite Hs in H, R; (split; [exact R | exact (proj1 H)]). }
  destruct HR as [R' H1]. rewrite <- H1. apply file_spec_is_storespec.
  pose proof (IV.Proofs.ConcFileLogOps.flog_no_walk _ _ _ R') as HF.
  rewrite Forall_map. eapply Forall_impl; [|exact HF]. intros e He. exact He.
Qed.

(** Sanity: the statement holds on a history with two mailboxes, re-delivery after purge, a removal by id and
    mark-seen. *)
Example file_spec_is_storespec_instance :
  let ops := [C.OAdd 1 1 10; C.OAdd 2 2 10; C.OAdd 1 3 10; C.OSeen 1 3; C.OList 1; C.ORemove 1 1; C.OGet 1 1;
              C.OLatest 1; C.OPurge 1; C.OAdd 1 4 10; C.OGet 1 4; C.OList 2; C.OGet 2 2; C.OSeen 2 9]%N in
  map shape (snd (F.fseq_run ([], 0%N) ops)) =
  map shape (map down_obs (map fst (run_spec {| c_cap := 0%nat; c_max := 0%N |} spec_init (up_file [] 0%N ops)))).
Proof. vm_compute. reflexivity. Qed.

(** Crash states of step lists: a small sequencing logic, and the specification of every phase of the
    file store's operations (createDir, writing a file, the two forms of writeIndex, removeMessage,
    cap eviction). *)
From IV Require Import Base.Bytes Base.BytesFacts Model.FileDisk Proofs.FileDiskMap Proofs.FileDiskInv.
From Coq Require Import List NArith Bool Lia.
Import ListNotations.

(** * Sequencing *)
Definition Spec (d : disk) (ss : list fsstep) (Mid Post : disk -> Prop) : Prop :=
  (forall d', crash_reach ss d d' -> Mid d') /\ (exists d1, run ss d = Some d1 /\ Post d1).

Lemma run_app s1 s2 d d1 : run s1 d = Some d1 -> run (s1 ++ s2) d = run s2 d1.
Proof.
  revert d; induction s1 as [|s r IH]; intros d H; simpl in *.
  - inversion H; auto.
  - destruct (apply_step s d); [auto | discriminate].
Qed.

Lemma run_run' ss d d1 : run ss d = Some d1 -> run' ss d = d1.
Proof.
  revert d; induction ss as [|s r IH]; intros d H; simpl in *.
  - inversion H; auto.
  - unfold app1. destruct (apply_step s d); [apply IH; auto | discriminate].
Qed.

Lemma crash_reach_nil d d' : crash_reach [] d d' -> d' = d.
Proof. intros H; inversion H; auto. Qed.

Lemma crash_reach_app s1 s2 d d' :
  crash_reach (s1 ++ s2) d d' ->
  crash_reach s1 d d' \/ exists d1, run s1 d = Some d1 /\ crash_reach s2 d1 d'.
Proof.
  revert d; induction s1 as [|s r IH]; intros d H; simpl in *.
  - right. eauto.
  - inversion H as [ | v s0 ss0 d0 d0' Hm | s0 ss0 d0 d1 d0' Ha Hr]; subst.
    + left; constructor.
    + left. eapply cr_mid; eauto.
    + destruct (IH _ Hr) as [A|[d2 [A B]]].
      * left. eapply cr_step; eauto.
      * right. exists d2. rewrite Ha. auto.
Qed.

Lemma crash_reach_run ss d d1 : run ss d = Some d1 -> crash_reach ss d d1.
Proof.
  revert d; induction ss as [|s r IH]; intros d H; simpl in *.
  - inversion H; constructor.
  - destruct (apply_step s d) eqn:E; [|discriminate]. eapply cr_step; eauto.
Qed.

Lemma crash_disk_reach k v ss d d' : crash_disk k v ss d = Some d' -> crash_reach ss d d'.
Proof.
  revert ss d; induction k as [|k IH]; intros ss d H; simpl in H.
  - destruct v as [v|].
    + destruct ss as [|s r]; [discriminate|]. eapply cr_mid; eauto.
    + inversion H; constructor.
  - destruct ss as [|s r]; [discriminate|]. destruct (apply_step s d) eqn:E; [|discriminate].
    eapply cr_step; eauto.
Qed.

Lemma Spec_nil d (M P : disk -> Prop) : M d -> P d -> Spec d [] M P.
Proof.
  intros HM HP. split.
  - intros d' H. apply crash_reach_nil in H; subst; auto.
  - exists d; auto.
Qed.

Lemma Spec_seq d s1 s2 (M1 P1 M2 P2 M : disk -> Prop) :
  Spec d s1 M1 P1 ->
  (forall d1, run s1 d = Some d1 -> P1 d1 -> Spec d1 s2 M2 P2) ->
  (forall x, M1 x -> M x) -> (forall x, M2 x -> M x) ->
  Spec d (s1 ++ s2) M P2.
Proof.
  intros [A [d1 [R1 HP1]]] H W1 W2. destruct (H d1 R1 HP1) as [B [d2 [R2 HP2]]]. split.
  - intros d' Hc. apply crash_reach_app in Hc. destruct Hc as [Hc|[d1' [R1' Hc]]]; auto.
    rewrite R1 in R1'. inversion R1'; subst. auto.
  - exists d2. rewrite (run_app _ _ _ _ R1). auto.
Qed.

Lemma Spec_pseq d (a b : prog) (M1 P1 M2 P2 M : disk -> Prop) :
  Spec d (a d) M1 P1 ->
  (forall d1, run (a d) d = Some d1 -> P1 d1 -> Spec d1 (b d1) M2 P2) ->
  (forall x, M1 x -> M x) -> (forall x, M2 x -> M x) ->
  Spec d (pseq a b d) M P2.
Proof.
  intros HA H W1 W2. unfold pseq.
  pose proof HA as [A [d1 [R1 HP1]]]. rewrite (run_run' _ _ _ R1).
  apply (Spec_seq d (a d) (b d1) M1 P1 M2 P2 M); auto.
  intros d1' R1' HP1'. rewrite R1 in R1'. inversion R1'; subst. apply H; auto.
Qed.

Lemma Spec_weaken d ss (M P M' P' : disk -> Prop) :
  Spec d ss M P -> (forall x, M x -> M' x) -> (forall x, P x -> P' x) -> Spec d ss M' P'.
Proof. intros [A [d1 [R HP]]] W1 W2. split; auto. exists d1; auto. Qed.

Lemma Spec_step d s d1 (M P : disk -> Prop) :
  apply_step s d = Some d1 -> M d -> M d1 ->
  (forall v d', mid_step v s d = Some d' -> M d') -> P d1 -> Spec d [s] M P.
Proof.
  intros E M0 M1 Hmid HP. split.
  - intros d' H. inversion H as [ | v s0 ss0 d0 d0' Hm | s0 ss0 d0 d2 d0' Ha Hr]; subst; auto.
    + eapply Hmid; eauto.
    + rewrite E in Ha. inversion Ha; subst. apply crash_reach_nil in Hr; subst; auto.
  - exists d1. simpl. rewrite E. auto.
Qed.

(** a property preserved by every step and every mid-step state holds in every crash state *)
Lemma crash_reach_inv (R : disk -> Prop) ss : forall d d',
  R d ->
  (forall s x y, In s ss -> R x -> apply_step s x = Some y -> R y) ->
  (forall s v x y, In s ss -> R x -> mid_step v s x = Some y -> R y) ->
  crash_reach ss d d' -> R d'.
Proof.
  induction ss as [|s r IH]; intros d d' R0 Hs Hm H.
  - apply crash_reach_nil in H; subst; auto.
  - inversion H as [ | v s0 ss0 d0 d0' Hmm | s0 ss0 d0 d2 d0' Ha Hr]; subst; auto.
    + eapply Hm; eauto. simpl; auto.
    + eapply IH; [| | |eauto].
      * eapply Hs; eauto. simpl; auto.
      * intros; eapply Hs; eauto. simpl; auto.
      * intros; eapply Hm; eauto. simpl; auto.
Qed.

Section Phases.
  Variable enc : index -> str.
  Variable dec : str -> option index.
  Hypothesis dec_enc : forall i, dec (enc i) = Some i.

  Notation Inv := (Inv dec).
  Notation Q := (Q dec).
  Notation U := (U dec).
  Notation live := (live dec).
  Notation hidden := (hidden dec).
  Notation Loaded := (Loaded dec).

  Lemma Struct_dir d p n : Struct d -> lookup d p = Some n -> (length p <= 3)%nat -> n = Dir.
  Proof. intros HS H Hl. apply HS in H. destruct n; auto. lia. Qed.

  Lemma Struct_file d p n : Struct d -> lookup d p = Some n -> length p = 4%nat -> exists b, n = File b.
  Proof. intros HS H Hl. apply HS in H. destruct n; eauto. lia. Qed.

  Lemma is_dir_mbdir d h :
    is_dir d (mbdir h) = match lookup d (mbdir h) with Some Dir => true | _ => false end.
  Proof. reflexivity. Qed.

  (** ** createDir *)
  Lemma mkdir_chain_Q d rest d' :
    Inv d -> (length rest <= 3)%nat -> mkdir_chain [] rest d = Some d' ->
    Q d d' /\ (forall q, length q = 4%nat -> lookup d' q = lookup d q) /\
    (forall q n, lookup d q = Some n -> lookup d' q = Some n).
  Proof.
    intros HI Hlen H. destruct (mkdir_chain_spec _ _ _ _ H) as [A [B C]].
    assert (L4 : forall q, length q = 4%nat -> lookup d' q = lookup d q).
    { intros q Hq. destruct (lookup d' q) as [n|] eqn:E.
      - destruct (B q n E) as [H0|[-> [k [Hk ->]]]]; auto.
        simpl in Hq. rewrite firstn_length in Hq. lia.
      - destruct (lookup d q) as [n|] eqn:F; auto. rewrite (A q n F) in E. discriminate. }
    split; [|split; auto]. apply dirs_Q; auto.
    intros q n Hq. destruct (B q n Hq) as [H0|[-> [k [Hk ->]]]].
    - apply (proj1 HI) in H0; auto.
    - simpl. rewrite firstn_length. lia.
  Qed.

  Lemma mkdir_phase d h :
    Inv d ->
    Spec d (p_mkdir h d) (Q d)
      (fun d1 => Q d d1 /\ is_dir d1 (mbdir h) = true /\ forall q, length q = 4%nat -> lookup d1 q = lookup d q).
  Proof.
    intros HI. unfold p_mkdir. destruct (lookup d (mbdir h)) as [n|] eqn:E.
    - apply Spec_nil; [apply Q_refl; auto|]. split; [apply Q_refl; auto|]. split; auto.
      rewrite is_dir_mbdir, E.
      rewrite (Struct_dir d _ n (proj1 HI) E); auto.
    - destruct (mkdir_chain_ok (mbdir h) [] d) as [d1 Hd1].
      { intros k b Hk. simpl in Hk. apply (proj1 HI) in Hk. simpl in Hk. rewrite firstn_length in Hk. simpl in Hk. lia. }
      destruct (mkdir_chain_Q d (mbdir h) d1 HI (Nat.le_refl 3) Hd1) as [HQ [L4 Lup]].
      eapply Spec_step; [exact Hd1 | apply Q_refl; auto | exact HQ | | ].
      + intros v d' Hm. destruct v; simpl in Hm; try discriminate.
        eapply (mkdir_chain_Q d (firstn n (mbdir h))); eauto. rewrite firstn_length. simpl. lia.
      + split; auto. split; auto.
        destruct (mkdir_chain_spec _ _ _ _ Hd1) as [_ [_ C]].
        assert (C3 : lookup d1 (mbdir h) = Some Dir) by (apply (C 3%nat); simpl; lia).
        rewrite is_dir_mbdir, C3. auto.
  Qed.

  (** ** writing one file at a hidden position *)
  Definition T (d : disk) (p : path) (d' : disk) : Prop :=
    (forall q, q <> p -> lookup d' q = lookup d q) /\
    (lookup d' p = lookup d p \/ exists c, lookup d' p = Some (File c)).

  Lemma T_set d p x c : T d p x -> T d p (set p (File c) x).
  Proof.
    intros [A B]. split.
    - intros q Hq. rewrite lookup_set, path_eqb_neq; auto.
    - right. exists c. rewrite lookup_set, path_eqb_refl. auto.
  Qed.

  Lemma file_steps_T d w p b s x y :
    In s (p_file w p b d) -> T d p x -> apply_step s x = Some y -> T d p y.
  Proof.
    unfold p_file. intros Hin HT E. simpl in Hin.
    destruct Hin as [<-|[<-|[<-|[<-|[]]]]]; simpl in E.
    - destruct (is_dir x (parent p)); [|discriminate].
      destruct (lookup x p) as [[|c]|]; inversion E; subst; apply T_set; auto.
    - destruct (lookup x p) as [[|c]|]; inversion E; subst; apply T_set; auto.
    - destruct (lookup x p) as [[|c]|]; inversion E; subst; apply T_set; auto.
    - destruct (lookup x p) as [[|c]|]; inversion E; subst; auto.
  Qed.

  Lemma file_mid_T d w p b s v x y :
    In s (p_file w p b d) -> T d p x -> mid_step v s x = Some y -> T d p y.
  Proof.
    unfold p_file. intros Hin HT E. simpl in Hin.
    destruct Hin as [<-|[<-|[<-|[<-|[]]]]]; destruct v; simpl in E; try discriminate.
    - destruct (lookup x p) as [[|c]|]; inversion E; subst; apply T_set; auto.
    - destruct (lookup x p) as [[|c]|]; inversion E; subst; apply T_set; auto.
  Qed.

  Lemma T_Q d p d' : Inv d -> length p = 4%nat -> hidden d p -> T d p d' -> Q d d'.
  Proof. intros HI Hl Hh [A B]. eapply touch_Q; eauto. destruct B; auto. Qed.

  Lemma file_phase d w p b :
    Inv d -> length p = 4%nat -> hidden d p -> is_dir d (parent p) = true ->
    Spec d (p_file w p b d) (Q d)
      (fun d1 => Q d d1 /\ lookup d1 p = Some (File b) /\ forall q, q <> p -> lookup d1 q = lookup d q).
  Proof.
    intros HI Hl Hh Hdir.
    assert (T0 : T d p d) by (split; auto).
    assert (Hmid : forall d', crash_reach (p_file w p b d) d d' -> T d p d').
    { intros d' Hc. eapply (crash_reach_inv (T d p)); eauto.
      - intros; eapply file_steps_T; eauto.
      - intros; eapply file_mid_T; eauto. }
    assert (Hnd : lookup d p <> Some Dir).
    { intros E. apply (proj1 HI) in E. simpl in E. lia. }
    assert (Hrun : exists d1, run (p_file w p b d) d = Some d1 /\ lookup d1 p = Some (File b)).
    { unfold p_file. simpl. rewrite Hdir.
      assert (forall x, exists d1,
        match match lookup (set p (File []) x) p with Some (File _) => Some (set p (File b) (set p (File []) x)) | _ => None end with
        | Some d'0 => match match lookup d'0 p with Some (File _) => Some (set p (File b) d'0) | _ => None end with
                      | Some d'1 => match match lookup d'1 p with Some (File _) => Some d'1 | _ => None end with
                                    | Some d'2 => Some d'2 | None => None end
                      | None => None end
        | None => None end = Some d1 /\ lookup d1 p = Some (File b)).
      { intros x. rewrite !lookup_set, !path_eqb_refl. rewrite !lookup_set, !path_eqb_refl.
        rewrite !lookup_set, !path_eqb_refl. eexists; split; eauto. rewrite lookup_set, path_eqb_refl. auto. }
      destruct (lookup d p) as [[|c]|] eqn:E; [congruence| |]; apply H. }
    destruct Hrun as [d1 [R L]]. split.
    - intros d' Hc. eapply T_Q; eauto.
    - exists d1. split; auto. pose proof (Hmid d1 (crash_reach_run _ _ _ R)) as HT.
      split; [eapply T_Q; eauto|]. split; auto. apply HT.
  Qed.

  (** ** writeIndex, non-empty list: createDir, write index.gob.tmp, rename *)
  Lemma index_phase d h nm ms :
    Inv d -> ms <> [] -> NoDup (map m_id ms) ->
    (forall m, In m ms -> exists c, lookup d (raw h (m_id m)) = Some (File c)) ->
    Spec d (p_write_index enc h nm ms d)
      (fun d' => Q d d' \/ (U d h nm ms (map m_id ms) d' /\
                 forall q, length q = 4%nat -> q <> idx h -> q <> tmp h -> lookup d' q = lookup d q))
      (fun d1 => U d h nm ms (map m_id ms) d1 /\
                 forall q, length q = 4%nat -> q <> idx h -> q <> tmp h -> lookup d1 q = lookup d q).
  Proof.
    intros HI Hne Hnd Hraw. unfold p_write_index. destruct ms as [|m0 ms0]; [congruence|].
    set (ms := m0 :: ms0) in *. set (e := enc (nm, ms)).
    set (PP := fun d1 => U d h nm ms (map m_id ms) d1 /\
                 forall q, length q = 4%nat -> q <> idx h -> q <> tmp h -> lookup d1 q = lookup d q).
    eapply Spec_pseq with (M1 := Q d) (M2 := fun d' => Q d d' \/ PP d').
    - apply mkdir_phase; auto.
    - intros d1 _ [HQ1 [Hdir1 L1]].
      eapply Spec_seq with (M1 := Q d) (M2 := fun d' => Q d d' \/ PP d').
      + eapply Spec_weaken.
        * apply (file_phase d1 Tmp (tmp h) e); auto; try apply HQ1. apply hidden_tmp.
        * intros x Hx. eapply Q_trans; eauto.
        * intros x Hx. exact Hx.
      + intros d2 _ [HQ2 [Lt L2]].
        assert (HQ02 : Q d d2) by (eapply Q_trans; eauto).
        assert (I2 : Inv d2) by apply HQ2.
        assert (Hraw2 : forall m, In m ms -> exists c, lookup d2 (raw h (m_id m)) = Some (File c)).
        { intros m Hm. rewrite L2 by apply raw_ne_tmp. rewrite L1 by apply len_raw. auto. }
        destruct (commit_rename enc dec dec_enc d2 h nm ms I2 Hne Lt Hnd Hraw2) as [HU HL].
        assert (Hdir2 : is_dir d2 (mbdir h) = true).
        { rewrite is_dir_mbdir in *. rewrite L2; auto. intros E; inversion E. }
        assert (Ei : apply_step (Rename (tmp h) (idx h)) d2 = Some (set (idx h) (File e) (del (tmp h) d2))).
        { cbn [apply_step]. rewrite Lt. rewrite parent_idx, Hdir2.
          destruct (lookup d2 (idx h)) as [[|c]|] eqn:E; auto.
          apply (proj1 I2) in E. simpl in E. lia. }
        assert (HPP : PP (set (idx h) (File e) (del (tmp h) d2))).
        { split; [eapply Q_then_U; eauto|].
          intros q Hq H1 H2. unfold e. rewrite HL, L2, L1; auto. }
        eapply Spec_step; [exact Ei | left; auto | right; exact HPP
                          | intros v d' Hm; destruct v; discriminate | exact HPP].
      + auto.
      + auto.
    - intros x Hx; left; auto.
    - auto.
  Qed.

  (** ** writeIndex, empty list: unlink the index, RemoveAll, the two parents *)
  Lemma rmall_Q d h d' :
    Inv d -> lookup d (idx h) = None ->
    (forall q, lookup d' q = lookup d q \/ (is_prefix (mbdir h) q = true /\ lookup d' q = None)) ->
    Q d d'.
  Proof.
    intros HI Hi H. apply quiet_Q; auto.
    - intros q n Hq. destruct (H q) as [E|[_ E]]; [|congruence]. rewrite E in Hq. apply (proj1 HI) in Hq; auto.
    - intros q Hq. destruct (H q) as [E|[Hp E]]; auto.
      destruct (lookup d q) eqn:F; [|left; congruence].
      right. split.
      + intros h' ->. apply prefix_mbdir_idx in Hp; subst. congruence.
      + intros h' id -> [b [nm [ms [Hl _]]]]. apply prefix_mbdir_raw in Hp; subst. congruence.
  Qed.

  Lemma rmdir_Q d p : Inv d -> lookup d p = Some Dir -> Q d (del p d).
  Proof.
    intros HI Hp. assert (Hl : (length p <= 3)%nat) by (apply (proj1 HI) in Hp; auto).
    apply dirs_Q; auto.
    - intros q n Hq. rewrite lookup_del in Hq. destruct (path_eqb p q); [discriminate|]. apply (proj1 HI) in Hq; auto.
    - intros q Hq. rewrite lookup_del, path_eqb_neq; auto. intros ->. lia.
  Qed.

  Lemma rmdirs_phase d h : Inv d -> Spec d (p_rmdirs h d) (Q d) (Q d).
  Proof.
    intros HI. unfold p_rmdirs, empty_dir.
    destruct (lookup d (l2dir h)) as [[|]|] eqn:E2; try (apply Spec_nil; apply Q_refl; auto).
    destruct (children (l2dir h) d) eqn:C2; try (apply Spec_nil; apply Q_refl; auto).
    assert (Q2 : Q d (del (l2dir h) d)) by (apply rmdir_Q; auto).
    assert (S2 : apply_step (Rmdir (l2dir h)) d = Some (del (l2dir h) d)) by (cbn [apply_step]; rewrite E2, C2; auto).
    change (Rmdir (l2dir h) :: ?l) with ([Rmdir (l2dir h)] ++ l).
    eapply Spec_seq with (M1 := Q d) (M2 := Q d) (P1 := fun d1 => d1 = del (l2dir h) d).
    - eapply Spec_step; [exact S2 | apply Q_refl; auto | exact Q2
                        | intros v d' Hm; destruct v; discriminate | reflexivity].
    - intros d1 _ ->.
      destruct (lookup (del (l2dir h) d) (l1dir h)) as [[|]|] eqn:E1; try (apply Spec_nil; auto).
      destruct (children (l1dir h) (del (l2dir h) d)) eqn:C1; try (apply Spec_nil; auto).
      assert (Q1 : Q (del (l2dir h) d) (del (l1dir h) (del (l2dir h) d))) by (apply rmdir_Q; auto; apply Q2).
      eapply Spec_step; [cbn [apply_step]; rewrite E1, C1; reflexivity | exact Q2 | eapply Q_trans; eauto
                        | intros v d' Hm; destruct v; discriminate | eapply Q_trans; eauto].
    - auto.
    - auto.
  Qed.

  Lemma empty_phase d h nm :
    Inv d ->
    Spec d (p_write_index enc h nm [] d)
      (fun d' => Q d d' \/ U d h nm [] [] d') (U d h nm [] []).
  Proof.
    intros HI. unfold p_write_index.
    assert (Hfirst : exists d1, apply_step (RemoveIdx (idx h)) d = Some d1 /\ U d h nm [] [] d1 /\ lookup d1 (idx h) = None).
    { simpl. destruct (lookup d (idx h)) as [[|b]|] eqn:E.
      - pose proof (proj2 HI h) as HM. unfold MInv in HM. rewrite E in HM. destruct HM.
      - eexists; split; eauto. destruct (commit_remove dec d h nm HI) as [HU _]. split; auto.
        rewrite lookup_del, path_eqb_refl. auto.
      - eexists; split; eauto. split; auto.
        apply (Q_U dec d h nm [] d); [apply Q_refl; auto | exact E]. }
    destruct Hfirst as [d1 [S1 [U1 N1]]].
    eapply Spec_pseq with (M1 := fun d' => Q d d' \/ U d h nm [] [] d') (P1 := fun d2 => U d h nm [] [] d2)
                          (M2 := fun d' => U d h nm [] [] d').
    - change [RemoveIdx (idx h); RemoveAll (mbdir h)] with ([RemoveIdx (idx h)] ++ [RemoveAll (mbdir h)]).
      eapply Spec_seq with (M1 := fun d' => Q d d' \/ U d h nm [] [] d') (P1 := fun x => x = d1)
                           (M2 := fun d' => U d h nm [] [] d').
      + eapply Spec_step; [exact S1 | left; apply Q_refl; auto | right; exact U1
                          | intros v d' Hm; destruct v; discriminate | reflexivity].
      + intros x _ ->. assert (I1 : Inv d1) by apply U1.
        eapply Spec_step with (d1 := del_tree (mbdir h) d1); [reflexivity | exact U1 | | | ].
        * eapply U_Q; [exact U1|]. apply (rmall_Q d1 h); auto. intros q. rewrite lookup_del_tree.
          destruct (is_prefix (mbdir h) q); auto.
        * intros v d' Hm. destruct v; simpl in Hm; try discriminate. inversion Hm; subst.
          eapply U_Q; [exact U1|]. apply (rmall_Q d1 h); auto. intros q. rewrite lookup_del_tree_partial.
          destruct (is_prefix (mbdir h) q) eqn:P; simpl; auto.
          destruct (path_eqb q (mbdir h) || keep q); auto.
        * eapply U_Q; [exact U1|]. apply (rmall_Q d1 h); auto. intros q. rewrite lookup_del_tree.
          destruct (is_prefix (mbdir h) q); auto.
      + auto.
      + auto.
    - intros d2 _ U2. eapply Spec_weaken.
      + apply rmdirs_phase. apply U2.
      + intros x Hx. eapply U_Q; eauto.
      + intros x Hx. eapply U_Q; eauto.
    - auto.
    - auto.
  Qed.
End Phases.

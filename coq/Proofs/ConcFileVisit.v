(** C09 — file store: a VisitMailboxes walk reports every mailbox that holds mail during the whole
    walk.  The walker's remaining work always still contains the mailbox (its level-1 name is the
    current one or still to come, ... ) or the mailbox has been reported; the directory chain of a
    mailbox that holds mail exists (index => directory => both parents), so no read of the walk can
    skip it. *)
From IV Require Import Model.Conc Model.ConcFile Proofs.ConcBase Proofs.ConcFileInv Proofs.ConcFileLin.
From Coq Require Import Lia ZifyN ZifyNat ZifyBool.

(** Geometry: a level-2 name lies under one level-1 name. *)
Definition wf_geo (g : geo) : Prop :=
  forall m m' a b a' b', In (m, (a, b)) g -> In (m', (a', b')) g -> b = b' -> a = a'.

Lemma aget_In {V} k (v : V) l : aget k l = Some v -> In (k, v) l.
Proof.
  induction l as [|[k' v'] l IH]; cbn; [discriminate|].
  destruct (k' =? k) eqn:E; [apply N.eqb_eq in E; subst; intros H; inversion H; auto | auto].
Qed.

Lemma k1_of_k2_wf g mb : wf_geo g -> aget mb g <> None -> k1_of_k2 g (k2_of g mb) = k1_of g mb.
Proof.
  intros Hwf Hin. unfold k2_of, k1_of. destruct (aget mb g) as [[a b]|] eqn:E; [|congruence].
  apply aget_In in E. clear Hin.
  assert (G : forall g', (forall x, In x g' -> In x g) -> In (mb, (a, b)) g' -> k1_of_k2 g' b = a).
  { induction g' as [|[m' [a' b']] g' IH]; cbn; [tauto|]. intros Hsub Hi.
    destruct (b' =? b) eqn:Eb.
    - apply N.eqb_eq in Eb. symmetry. apply (Hwf mb m' a b a' b'); [assumption | apply Hsub; now left | congruence].
    - destruct Hi as [Hi|Hi]; [inversion Hi; subst; rewrite N.eqb_refl in Eb; discriminate|].
      apply IH; auto. }
  apply G; auto.
Qed.

Lemma memN_In x l : memN x l = true <-> In x l.
Proof.
  unfold memN. rewrite existsb_exists. split.
  - intros (y & Hy & E). apply N.eqb_eq in E. now subst.
  - intros H. exists x. split; [assumption | apply N.eqb_refl].
Qed.

Lemma take_nth_complete {A} n (l : list A) x r : take_nth n l = Some (x, r) -> forall y, In y l -> y = x \/ In y r.
Proof.
  revert n x r; induction l as [|a l IH]; intros [|n] x r; cbn [take_nth]; try discriminate.
  - intros H; inversion H; subst. cbn. intros y [->|Hy]; auto.
  - destruct (take_nth n l) as [[z r']|] eqn:E; [|discriminate].
    intros H; inversion H; subst. intros y [->|Hy]; [right; now left|].
    destruct (IH _ _ _ E y Hy); [auto | right; now right].
Qed.
Lemma take_nth_some {A} n (l : list A) : (n < length l)%nat -> take_nth n l <> None.
Proof.
  revert n; induction l as [|a l IH]; intros [|n] H; cbn in *; try lia; [discriminate|].
  specialize (IH n ltac:(lia)). destruct (take_nth n l) as [[? ?]|]; congruence.
Qed.
Lemma pick_complete {A} c (l : list A) x r : pick c l = Some (x, r) -> forall y, In y l -> y = x \/ In y r.
Proof. unfold pick. destruct l; [discriminate|]. apply take_nth_complete. Qed.
Lemma pick_none {A} c (l : list A) : pick c l = None -> l = [].
Proof.
  unfold pick. destruct l as [|a l]; [reflexivity|]. intros H. exfalso.
  apply (take_nth_some (c mod length (a :: l)) (a :: l)); [|exact H].
  apply Nat.mod_upper_bound. cbn; lia.
Qed.

Section Walk.
  Variable g : geo.
  Variable mb : mbname.
  Variable t : tid.
  Hypothesis Hwf : wf_geo g.
  Hypothesis Hmb : aget mb g <> None.

  Let k1 := k1_of g mb.
  Let k2 := k2_of g mb.

  Definition vis (acc : list (mbname * view)) : Prop := In mb (map fst acc).

  (** The walker's remaining work still leads to [mb], or [mb] has been reported. *)
  Definition ahead (p : fpc) : Prop :=
    match p with
    | FVisit2 n1 r1 acc => vis acc \/ n1 = k1 \/ In k1 r1
    | FVisit3 n2 r2 r1 acc => vis acc \/ n2 = k2 \/ In k2 r2 \/ In k1 r1
    | FVisitMb m r3 r2 r1 acc => vis acc \/ m = mb \/ In mb r3 \/ In k2 r2 \/ In k1 r1
    | FDone (RVisit l) => vis l
    | _ => True
    end.

  Definition during (s : fsys) : Prop :=
    match nth_error (f_thr s) t with
    | Some FVisit1 | Some (FVisit2 _ _ _) | Some (FVisit3 _ _ _ _) | Some (FVisitMb _ _ _ _ _) => True
    | _ => False
    end.

  Definition holds (s : fsys) : Prop := fmsgs mb s <> [].

  (** T: the directory of [mb] has both its parents. *)
  Definition invT (s : fsys) : Prop :=
    has_dir mb s = true -> memN k2 (f_l2 s) = true /\ memN k1 (f_l1 s) = true.

  Lemma invT_step s u c s' : f_geo s = g -> invT s -> fstep s u c = SOk s' -> invT s'.
  Proof.
    intros Hg HT H. unfold fstep in H.
    destruct (nth_error (f_thr s) u) as [p|] eqn:Hn; [|discriminate].
    destruct p; try discriminate.
    all: fsplit H.
    all: injection H as <-.
    all: unfold visit_next3, visit_next2, visit_next1.
    all: repeat match goal with |- context [pick ?c ?l] => destruct (pick c l) as [[? ?]|] end.
    all: unfold invT, has_dir in *; cbn [f_mbd f_l1 f_l2 fsetpc faddlog ffinish funlock flock fbump set_idx fwith].
    all: try exact HT.
    all: rewrite ?Hg in *.
    all: rewrite ?memN_addN, ?memN_delN.
    all: intros Hd.
    (* mkdir: the chain of the created mailbox appears; others keep theirs *)
    all: try (apply orb_true_iff in Hd; destruct Hd as [Hd|Hd];
              [ destruct (HT Hd) as [H2 H1]; rewrite H2, H1; auto
              | apply N.eqb_eq in Hd; subst mb0; fold k1 k2; rewrite !N.eqb_refl, !orb_true_r; auto ]).
    (* RemoveAll of a mailbox directory *)
    all: try (apply andb_true_iff in Hd; destruct Hd as [Hd _]; exact (HT Hd)).
    (* rmdir of a level-2 / level-1 directory that is empty: it is not ours *)
    all: destruct (HT Hd) as [H2 H1]; rewrite ?H2, ?H1; split; auto.
    all: rewrite ?andb_true_l; apply negb_true_iff; apply N.eqb_neq; intros Heq.
    - (* level 2 *)
      unfold l2_empty in *. rewrite Hg in *.
      match goal with Hx : negb (existsb _ (f_mbd s)) = true |- _ => apply negb_true_iff in Hx;
        assert (Hc : existsb (fun m : mbname => k2_of g m =? k2_of g mb0) (f_mbd s) = true)
          by (apply existsb_exists; exists mb; split; [now apply memN_In | fold k2; rewrite Heq; apply N.eqb_refl]);
        congruence end.
    - unfold l2_empty in *. rewrite Hg in *.
      match goal with Hx : negb (existsb _ (f_mbd s)) = true |- _ => apply negb_true_iff in Hx;
        assert (Hc : existsb (fun m : mbname => k2_of g m =? k2_of g mb0) (f_mbd s) = true)
          by (apply existsb_exists; exists mb; split; [now apply memN_In | fold k2; rewrite Heq; apply N.eqb_refl]);
        congruence end.
    - (* level 1 *)
      unfold l1_empty in *. rewrite Hg in *.
      match goal with Hx : negb (existsb _ (f_l2 s)) = true |- _ => apply negb_true_iff in Hx;
        assert (Hc : existsb (fun n2 : N => k1_of_k2 g n2 =? k1_of g mb0) (f_l2 s) = true)
          by (apply existsb_exists; exists k2; split; [now apply memN_In | unfold k2; rewrite k1_of_k2_wf by assumption; fold k1; rewrite Heq; apply N.eqb_refl]);
        congruence end.
  Qed.

  Definition chain (s : fsys) : Prop :=
    memN mb (f_mbd s) = true /\ memN k2 (f_l2 s) = true /\ memN k1 (f_l1 s) = true.

  Lemma ahead_next1 c r1 acc s : (t < length (f_thr s))%nat -> vis acc \/ In k1 r1 ->
    exists p', nth_error (f_thr (visit_next1 t c r1 acc s)) t = Some p' /\ ahead p'.
  Proof.
    intros Hl H. unfold visit_next1. destruct (pick c r1) as [[n1 r1']|] eqn:E; cbn; rewrite nth_set_same by exact Hl.
    - eexists; split; [reflexivity|]. cbn [ahead]. destruct H as [H|H]; [auto|].
      destruct (pick_complete _ _ _ _ E _ H); auto.
    - eexists; split; [reflexivity|]. cbn [ahead]. destruct H as [H|H]; [auto|].
      apply pick_none in E. subst. destruct H.
  Qed.

  Lemma ahead_next2 c r2 r1 acc s : (t < length (f_thr s))%nat -> vis acc \/ In k2 r2 \/ In k1 r1 ->
    exists p', nth_error (f_thr (visit_next2 t c r2 r1 acc s)) t = Some p' /\ ahead p'.
  Proof.
    intros Hl H. unfold visit_next2. destruct (pick c r2) as [[n2 r2']|] eqn:E.
    - cbn; rewrite nth_set_same by exact Hl. eexists; split; [reflexivity|]. cbn [ahead].
      destruct H as [H|[H|H]]; auto. destruct (pick_complete _ _ _ _ E _ H); auto.
    - apply ahead_next1; [exact Hl|]. destruct H as [H|[H|H]]; auto.
      apply pick_none in E. subst. destruct H.
  Qed.

  Lemma ahead_next3 c r3 r2 r1 acc s : (t < length (f_thr s))%nat -> vis acc \/ In mb r3 \/ In k2 r2 \/ In k1 r1 ->
    exists p', nth_error (f_thr (visit_next3 t c r3 r2 r1 acc s)) t = Some p' /\ ahead p'.
  Proof.
    intros Hl H. unfold visit_next3. destruct (pick c r3) as [[m r3']|] eqn:E.
    - cbn; rewrite nth_set_same by exact Hl. eexists; split; [reflexivity|]. cbn [ahead].
      destruct H as [H|[H|H]]; auto. destruct (pick_complete _ _ _ _ E _ H); auto.
    - apply ahead_next2; [exact Hl|]. destruct H as [H|[H|H]]; auto.
      apply pick_none in E. subst. destruct H.
  Qed.

  Lemma in_filter_N (f : N -> bool) x l : memN x l = true -> f x = true -> In x (filter f l).
  Proof. intros H Hf. apply filter_In. split; [now apply memN_In | exact Hf]. Qed.

  (** The walker's own step keeps [mb] ahead, provided the directory chain exists when it reads. *)
  Lemma ahead_own_step s c s' p : f_geo s = g -> nth_error (f_thr s) t = Some p -> ahead p ->
    (during s -> chain s) -> fstep s t c = SOk s' ->
    exists p', nth_error (f_thr s') t = Some p' /\ ahead p'.
  Proof.
    intros Hg Hn Ha Hch H. pose proof (nth_error_lt _ _ _ Hn) as Hlt.
    assert (Hdur : match p with FVisit1 | FVisit2 _ _ _ | FVisit3 _ _ _ _ | FVisitMb _ _ _ _ _ => chain s | _ => True end).
    { unfold during in Hch. rewrite Hn in Hch. destruct p; auto. }
    unfold fstep in H. rewrite Hn in H.
    destruct p; try discriminate.
    all: fsplit H.
    all: injection H as <-.
    all: cbn [ahead] in Ha.
    all: try (apply ahead_next1; [cbn; assumption|]).
    all: try (apply ahead_next2; [cbn; assumption|]).
    all: try (apply ahead_next3; [cbn; assumption|]).
    all: try (cbn [f_thr fsetpc faddlog ffinish funlock flock fbump set_idx fwith]; rewrite nth_set_same by exact Hlt;
              eexists; split; [reflexivity|]; cbn [ahead]; try exact I;
              try (unfold box_get, box_latest, box_list;
                   repeat match goal with |- context [match ?x with _ => _ end] => destruct x end; exact I); fail).
    all: try (cbn [f_thr fsetpc faddlog]; rewrite nth_set_same by exact Hlt; eexists; split; [reflexivity|];
              unfold ahead, box_get, box_latest;
              first [ destruct (find_msg _ _) | destruct (last_msg _) ]; exact I).
    all: rewrite ?Hg in *; destruct Hdur as (Hc3 & Hc2 & Hc1).
    - (* read of the root: k1 is listed *)
      right. now apply memN_In.
    - (* level-1 directory present *)
      destruct Ha as [Ha|[Ha|Ha]]; auto. subst n1. right; left.
      apply in_filter_N; [exact Hc2|]. unfold k2. rewrite k1_of_k2_wf by assumption. apply N.eqb_refl.
    - (* level-1 directory vanished: it was not ours *)
      destruct Ha as [Ha|[Ha|Ha]]; auto. subst n1. congruence.
    - destruct Ha as [Ha|[Ha|[Ha|Ha]]]; auto. subst n2. right; left.
      apply in_filter_N; [exact Hc3|]. apply N.eqb_refl.
    - destruct Ha as [Ha|[Ha|[Ha|Ha]]]; auto. subst n2. congruence.
    - (* the mailbox itself is read *)
      destruct Ha as [Ha|[Ha|[Ha|[Ha|Ha]]]]; auto.
      + left. unfold vis. rewrite map_app. apply in_or_app. now left.
      + subst. left. unfold vis. rewrite map_app. apply in_or_app. right. now left.
  Qed.
End Walk.

(** States a schedule passes through. *)
Fixpoint ftrace (s : fsys) (sched : list (tid * nat)) : list fsys :=
  s :: match sched with
       | [] => []
       | (u, c) :: r => match fstep s u c with
                        | SOk s' => ftrace s' r
                        | SNoop => ftrace s r
                        | _ => []
                        end
       end.

Section WalkInv.
  Variable g : geo.
  Variable mb : mbname.
  Variable t : tid.
  Hypothesis Hwf : wf_geo g.
  Hypothesis Hmb : aget mb g <> None.

  Definition invW (s : fsys) : Prop :=
    f_geo s = g /\ finv2 s /\ invT g mb s /\ (forall p, nth_error (f_thr s) t = Some p -> ahead g mb p).

  Lemma holds_chain s : invW s -> holds mb s -> chain g mb s.
  Proof.
    intros (Hg & Hinv & HT & _) Hh.
    assert (Hd : has_dir mb s = true).
    { apply (iD _ Hinv). unfold holds, fmsgs in Hh. destruct (aget mb (f_idx s)); congruence. }
    destruct (HT Hd) as [H2 H1]. repeat split; assumption.
  Qed.

  Lemma invW_step s u c s' : invW s -> (during t s -> holds mb s) -> fstep s u c = SOk s' -> invW s'.
  Proof.
    intros HW Hdur H. pose proof HW as (Hg & Hinv & HT & Ha).
    destruct (nth_error (f_thr s) u) as [pu|] eqn:Hu; [|unfold fstep in H; rewrite Hu in H; discriminate].
    destruct (fstep_effect _ _ _ _ _ Hu H) as [Hg' Heff].
    split; [congruence|]. split; [eapply finv2_step; eauto|]. split; [eapply invT_step; eauto|].
    intros p Hp.
    destruct (Nat.eq_dec u t) as [->|Hne].
    - destruct (ahead_own_step g mb t Hwf Hmb s c s' pu Hg Hu (Ha _ Hu)) as (p' & Hp' & Hah); auto.
      + intros Hd. apply holds_chain; auto.
      + congruence.
    - assert (Hthr : exists p', f_thr s' = set_nth u p' (f_thr s)) by (destruct Heff; eauto).
      destruct Hthr as [p' Hthr]. rewrite Hthr in Hp. rewrite nth_set_other in Hp by exact Hne. auto.
  Qed.

  Lemma init_invW ops : invW (finit g ops).
  Proof.
    split; [reflexivity|]. split; [apply init_finv2|]. split.
    - intros H. cbn in H. discriminate.
    - intros p H. cbn in H. rewrite nth_error_map in H. destruct (nth_error ops t); inversion H; subst. exact I.
  Qed.

  Lemma trace_invW : forall sched s, invW s ->
    Forall (fun x => during t x -> holds mb x) (ftrace s sched) ->
    forall x, In x (ftrace s sched) -> invW x.
  Proof.
    induction sched as [|[u c] r IH]; intros s HW HF x Hx; cbn [ftrace] in *.
    - destruct Hx as [<-|[]]. exact HW.
    - inversion HF as [|? ? Hs Hrest]; subst. destruct Hx as [<-|Hx]; [exact HW|].
      destruct (fstep s u c) as [s'| | |] eqn:E.
      + eapply IH; [eapply invW_step; eauto | exact Hrest | exact Hx].
      + destruct Hx.
      + eapply IH; [exact HW | exact Hrest | exact Hx].
      + destruct Hx.
  Qed.
End WalkInv.

(** A walk reports every mailbox that holds mail in every state from the walk's first read to its
    last ("at least once"; "at most once" is [file_visit_at_most_once] in ConcFileVisitOnce.v). *)
Theorem file_visit_sees_stable_mailboxes_partial : forall g ops sched mb t,
  wf_geo g -> aget mb g <> None ->
  Forall (fun s => during t s -> holds mb s) (ftrace (finit g ops) sched) ->
  forall s l, In s (ftrace (finit g ops) sched) ->
    nth_error (f_thr s) t = Some (FDone (RVisit l)) -> In mb (map fst l).
Proof.
  intros g ops sched mb t Hwf Hmb HF s l Hs Hn.
  destruct (trace_invW g mb t Hwf Hmb sched _ (init_invW g mb t ops) HF s Hs) as (_ & _ & _ & Ha).
  exact (Ha _ Hn).
Qed.

(** Non-vacuity: a walk overlapping a delivery to another mailbox; mailbox 1 holds mail throughout. *)
Definition ex_geo : geo := [(1, (5, 7)); (2, (6, 8))].
Definition ex_sched : list (tid * nat) :=
  [(0,0); (0,0); (0,0); (1,0); (1,0); (2,0); (2,0); (2,0); (1,0); (1,0); (1,0); (1,0); (1,0); (1,0); (1,0); (1,0)]%nat.
Definition ex_trace := ftrace (finit ex_geo [OAdd 1 1 10; OVisit; OAdd 2 2 10]) ex_sched.
Definition ex_stable (s : fsys) : bool :=
  match nth_error (f_thr s) 1%nat with
  | Some FVisit1 | Some (FVisit2 _ _ _) | Some (FVisit3 _ _ _ _) | Some (FVisitMb _ _ _ _ _) =>
      match fmsgs 1 s with [] => false | _ => true end
  | _ => true
  end.
Example visit_partial_hypothesis_holds : forallb ex_stable ex_trace = true.
Proof. vm_compute. reflexivity. Qed.
Example visit_partial_conclusion :
  exists l, nth_error (f_thr (last ex_trace (finit ex_geo []))) 1%nat = Some (FDone (RVisit l)) /\ In 1 (map fst l).
Proof. vm_compute. eexists. split; [reflexivity|]. cbn. auto. Qed.

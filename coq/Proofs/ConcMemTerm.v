(** C09 — memory store: "every operation completes" (audit aud-store item 5).  Every productive step of the model
    — of a client thread or of the size enforcer, for every cap, every size limit, every choice — strictly decreases
    one natural number [M]; hence no schedule has more than [M (initial state)] productive steps: no livelock, the
    cap loop, the enforcer's eviction loop and the walk included.  With deadlock freedom (some party can move unless
    all are done) every fair schedule therefore finishes every operation.
    The measure: a weight per program counter (the straight-line rest of the operation), 4 per message in a mailbox
    (it may still be evicted / purged: tell the enforcer, wait), 3 per entry of the enforcer's book (it may still be
    evicted: two steps), and — in a lower-order position — what a walk still has to visit. *)
From IV Require Import Model.Conc Model.ConcMem Proofs.ConcBase Proofs.ConcMemInv Proofs.ConcStmts Proofs.ConcMemLinEnf.
From Coq Require Import Lia ZifyN ZifyNat ZifyBool.

(* ------------------------------------------------------------------ sums *)

Definition sumf {A} (f : A -> nat) (l : list A) : nat := list_sum (map f l).

Lemma sumf_set_nth {A} (f : A -> nat) l t p p' : nth_error l t = Some p ->
  (sumf f (set_nth t p' l) + f p = sumf f l + f p')%nat.
Proof.
  unfold sumf. revert t; induction l as [|y l IH]; intros [|t] H; try discriminate.
  - cbn in H. inversion H; subst. cbn [set_nth map list_sum fold_right]. unfold list_sum. cbn [fold_right]. lia.
  - cbn in H. specialize (IH _ H). cbn [set_nth map]. unfold list_sum in *. cbn [fold_right]. lia.
Qed.

Lemma sumf_le_add {A} (f f' : A -> nat) l : (forall p, f' p <= f p + 1)%nat ->
  (sumf f' l <= sumf f l + length l)%nat.
Proof.
  intros H. unfold sumf, list_sum. induction l as [|y l IH]; cbn [map fold_right length]; [lia|]. specialize (H y). lia.
Qed.

(* ------------------------------------------------------------------ mailboxes *)

Definition lenb (x : mbx) : nat := length (b_msgs (x_box x)).
Definition Lsum (bs : list (mbname * mbx)) : nat := sumf (fun kb => lenb (snd kb)) bs.

Lemma Lsum_aset mb x bs :
  (Lsum (aset mb x bs) + lenb (match aget mb bs with Some y => y | None => mbx0 end) = Lsum bs + lenb x)%nat.
Proof.
  unfold Lsum, sumf, list_sum. induction bs as [|[k v] bs IH]; cbn [aset aget map fold_right snd].
  - unfold lenb, mbx0. cbn. lia.
  - destruct (k =? mb) eqn:E; cbn [map fold_right snd]; lia.
Qed.

Lemma length_aset {V} mb (x : V) bs : (length bs <= length (aset mb x bs) <= S (length bs))%nat.
Proof.
  induction bs as [|[k v] bs IH]; cbn [aset length]; [lia|].
  destruct (k =? mb); cbn [length]; lia.
Qed.

Lemma Lsum_setx mb x s : (Lsum (s_boxes (setx mb x s)) + lenb (getx mb s) = Lsum (s_boxes s) + lenb x)%nat.
Proof. unfold setx, getx. cbn [s_boxes with_boxes]. apply Lsum_aset. Qed.

Lemma Lsum_touch mb s : Lsum (s_boxes (touch mb s)) = Lsum (s_boxes s).
Proof.
  unfold touch. destruct (aget mb (s_boxes s)) eqn:E; [reflexivity|].
  pose proof (Lsum_setx mb mbx0 s) as H. unfold getx in H. rewrite E in H. lia.
Qed.

Lemma B_setx mb x s : (length (s_boxes (setx mb x s)) <= S (length (s_boxes s)))%nat.
Proof. unfold setx. cbn [s_boxes with_boxes]. apply length_aset. Qed.
Lemma B_touch mb s : (length (s_boxes (touch mb s)) <= S (length (s_boxes s)))%nat.
Proof. unfold touch. destruct (aget mb (s_boxes s)); [lia | apply B_setx]. Qed.

Lemma boxes_setpc t p s : s_boxes (setpc t p s) = s_boxes s. Proof. reflexivity. Qed.
Lemma boxes_addlog e s : s_boxes (addlog e s) = s_boxes s. Proof. reflexivity. Qed.
Lemma boxes_with_enf e s : s_boxes (with_enf s e) = s_boxes s. Proof. reflexivity. Qed.
Lemma boxes_take_done t s : s_boxes (take_done t s) = s_boxes s. Proof. reflexivity. Qed.
Lemma enf_take_done_pc t s : e_pc (s_enf (take_done t s)) = e_pc (s_enf s). Proof. reflexivity. Qed.
Lemma enf_take_done_all t s : e_all (s_enf (take_done t s)) = e_all (s_enf s). Proof. reflexivity. Qed.
#[local] Hint Rewrite boxes_setpc boxes_addlog boxes_with_enf boxes_take_done enf_take_done_pc enf_take_done_all
  Lsum_touch : sys.

(* ------------------------------------------------------------------ per-mailbox functions and lengths *)

Lemma len_del id l m : find_msg id l = Some m -> length l = S (length (del_msg id l)).
Proof.
  induction l as [|x l IH]; cbn; [discriminate|].
  destruct (m_id x =? id); [reflexivity|]. intros H. cbn. now rewrite <- IH.
Qed.
Lemma len_mark id l : length (mark_seen id l) = length l.
Proof. induction l as [|x l IH]; cbn; [reflexivity|]. destruct (m_id x =? id); cbn; congruence. Qed.

Lemma cap_loop_len fuel cap b ev b' ev' : cap_loop fuel cap b ev = (b', ev') ->
  (length (b_msgs b') + length ev' = length (b_msgs b) + length ev)%nat.
Proof.
  revert b ev; induction fuel as [|f IH]; intros b ev H; cbn [cap_loop] in H.
  - inversion H; subst; reflexivity.
  - destruct (N.of_nat (length (b_msgs b)) <=? cap); [inversion H; subst; reflexivity|].
    destruct (find_msg (b_first b) (b_msgs b)) as [old|] eqn:E.
    + apply IH in H. cbn [b_msgs] in H. rewrite app_length in H. cbn [length] in H.
      rewrite (len_del _ _ _ E). lia.
    + apply IH in H. exact H.
Qed.
Lemma box_cap_len cap b b' ev : box_cap cap b = (b', ev) ->
  (length (b_msgs b') + length ev = length (b_msgs b))%nat.
Proof.
  unfold box_cap. destruct (cap =? 0); intros H; [inversion H; subst; cbn; lia|].
  apply cap_loop_len in H. cbn in H. lia.
Qed.
Lemma box_insert_len g z b id b' : box_insert g z b = (id, b') -> length (b_msgs b') = S (length (b_msgs b)).
Proof. unfold box_insert. intros H; inversion H; subst. cbn [b_msgs]. rewrite app_length. cbn. lia. Qed.
Lemma box_seen_len id b b' r : box_seen id b = (b', r) -> length (b_msgs b') = length (b_msgs b).
Proof.
  unfold box_seen. destruct (find_msg id (b_msgs b)); intros H; inversion H; subst; [|reflexivity].
  cbn [b_msgs]. apply len_mark.
Qed.
Lemma box_remove_len id b b' m : box_remove id b = (b', Some m) -> length (b_msgs b) = S (length (b_msgs b')).
Proof.
  unfold box_remove. destruct (find_msg id (b_msgs b)) eqn:E; intros H; inversion H; subst.
  cbn [b_msgs]. eapply len_del; eauto.
Qed.
Lemma box_purge_len b b' ms : box_purge b = (b', ms) -> b_msgs b' = [] /\ ms = b_msgs b.
Proof. unfold box_purge. intros H; inversion H; subst. auto. Qed.

Lemma take_nth_len {A} n (l : list A) x r : take_nth n l = Some (x, r) -> length l = S (length r).
Proof.
  revert n x r; induction l as [|a l IH]; intros [|n] x r; cbn [take_nth]; try discriminate.
  - intros H; inversion H; subst; reflexivity.
  - destruct (take_nth n l) as [[y r']|] eqn:E; [|discriminate].
    intros H; inversion H; subst. cbn. now rewrite (IH _ _ _ E).
Qed.
Lemma pick_len {A} c (l : list A) x r : pick c l = Some (x, r) -> length l = S (length r).
Proof. unfold pick. destruct l; [discriminate|]. apply take_nth_len. Qed.
Lemma ent_take_len g l k r : ent_take g l = Some (k, r) -> length l = S (length r).
Proof.
  revert k r; induction l as [|a l IH]; intros k r; cbn [ent_take]; [discriminate|].
  destruct (m_tag (snd a) =? g); [intros H; inversion H; subst; reflexivity|].
  destruct (ent_take g l) as [[x r']|]; [|discriminate].
  intros H; inversion H; subst. cbn. now rewrite (IH _ _ eq_refl).
Qed.

(* ------------------------------------------------------------------ the measure *)

Definition WR : nat := 7.       (* mem.add.register: send, the enforcer's registration, wait *)
Definition W0 (p : pc) : nat :=
  match p with
  | PStart (OAdd _ _ _) => WR + 8
  | PStart (OGet _ _) | PStart (OLatest _) | PStart (OList _) | PStart (OSeen _ _) => 2
  | PStart (ORemove _ _) => 5
  | PStart (OPurge _) => 3
  | PStart OVisit => 0
  | PAddLock _ _ _ => WR + 7
  | PAddVisible _ _ => WR + 1
  | PAddEvict _ _ _ rest sent => (if sent then 1 else 3) + 4 * length rest + WR
  | PAddRegister _ _ sent => if sent then 1 else WR
  | PGetLock _ _ | PLatestLock _ | PListLock _ | PSeenLock _ _ => 1
  | PRemoveLock _ _ => 4
  | PRemoveEnf _ _ sent => if sent then 1 else 3
  | PPurgeLock _ => 2
  | PPurgeSwapped _ ms => 4 * length ms + 1
  | PPurgeEnf _ _ rest sent => (if sent then 1 else 3) + 4 * length rest
  | PVisitLock _ _ _ => 0
  | PDone _ => 0
  end.
Definition WE (e : epc) : nat :=
  match e with EIdle => 0 | EIncoming _ _ => 5 | EEvict _ => 1 | EEvLock _ _ => 2 | ERemove _ _ => 1 end.
(** What a walk still has to do, given the number of mailboxes. *)
Definition Vw (B : nat) (p : pc) : nat :=
  match p with PStart OVisit => B + 2 | PVisitLock _ rest _ => length rest + 1 | _ => 0 end.
Definition is_visit (p : pc) : bool :=
  match p with PStart OVisit | PVisitLock _ _ _ => true | _ => false end.

Definition M0 (s : msys) : nat :=
  (sumf W0 (s_thr s) + WE (e_pc (s_enf s)) + 4 * Lsum (s_boxes s) + 3 * length (e_all (s_enf s)))%nat.
Definition Vs (s : msys) : nat := sumf (Vw (length (s_boxes s))) (s_thr s).
Definition M (s : msys) : nat := ((length (s_thr s) + 1) * M0 s + Vs s)%nat.

Lemma lex_dec n a a' v v' : (a' + 1 <= a)%nat -> (v' <= v + n)%nat -> ((n + 1) * a' + v' < (n + 1) * a + v)%nat.
Proof. intros H1 H2. nia. Qed.
Lemma Vw_mono B B' p : (B' <= S B)%nat -> (Vw B' p <= Vw B p + 1)%nat.
Proof. intros H. destruct p; cbn [Vw]; try lia. destruct o; lia. Qed.

(* ------------------------------------------------------------------ one step *)

Lemma Vs_other s s' t p p' :
  nth_error (s_thr s) t = Some p -> s_thr s' = set_nth t p' (s_thr s) -> is_visit p = false -> is_visit p' = false ->
  (length (s_boxes s') <= S (length (s_boxes s)))%nat ->
  (Vs s' <= Vs s + length (s_thr s))%nat.
Proof.
  intros Ep Ht Hp Hp' HB. unfold Vs. rewrite Ht.
  pose proof (sumf_set_nth (Vw (length (s_boxes s'))) _ _ _ p' Ep) as H1.
  pose proof (sumf_le_add (Vw (length (s_boxes s))) (Vw (length (s_boxes s'))) (s_thr s) (fun q => Vw_mono _ _ q HB)) as H2.
  assert (Vw (length (s_boxes s')) p = 0%nat) by (destruct p; try discriminate; try reflexivity; destruct o; try discriminate; reflexivity).
  assert (Vw (length (s_boxes s')) p' = 0%nat) by (destruct p'; try discriminate; try reflexivity; destruct o; try discriminate; reflexivity).
  lia.
Qed.

Lemma Vs_enf s s' : s_thr s' = s_thr s -> (length (s_boxes s') <= S (length (s_boxes s)))%nat ->
  (Vs s' <= Vs s + length (s_thr s))%nat.
Proof.
  intros Ht HB. unfold Vs. rewrite Ht.
  exact (sumf_le_add (Vw (length (s_boxes s))) (Vw (length (s_boxes s'))) (s_thr s) (fun q => Vw_mono _ _ q HB)).
Qed.

Lemma visit_next_add mb nm ev : is_visit (next_add mb nm ev) = false.
Proof. destruct ev; reflexivity. Qed.
Lemma visit_purge_next mb c ms : is_visit (purge_next mb c ms) = false.
Proof. unfold purge_next. destruct (pick c ms) as [[? ?]|]; reflexivity. Qed.
Lemma W0_next_add mb nm ev : (W0 (next_add mb nm ev) <= 4 * length ev + WR)%nat.
Proof. destruct ev; cbn [next_add W0 length]; lia. Qed.
Lemma W0_purge_next mb c ms : (W0 (purge_next mb c ms) + 1 <= 4 * length ms \/ W0 (purge_next mb c ms) = 0)%nat.
Proof.
  unfold purge_next. destruct (pick c ms) as [[m r]|] eqn:E; [|right; reflexivity].
  apply pick_len in E. left. cbn [W0]. lia.
Qed.

Lemma idle_WE s : is_idle s = true -> WE (e_pc (s_enf s)) = 0%nat.
Proof. unfold is_idle. destruct (e_pc (s_enf s)); try discriminate; reflexivity. Qed.

Lemma thr_step_dec s t c s' : step_thr s t c = SOk s' -> (M s' < M s)%nat.
Proof.
  intros H. unfold step_thr in H.
  destruct (nth_error (s_thr s) t) as [p|] eqn:Ep; [|discriminate].
  pose proof (nth_error_lt _ _ _ Ep) as Hlt.
  destruct p; try discriminate.
  all: split_step H.
  all: inv_ok H.
  all: unfold M; autorewrite with sys; rewrite ?length_set_nth.
  all: try (apply lex_dec;
    [ unfold M0; autorewrite with sys
    | eapply Vs_other; [exact Ep | autorewrite with sys; reflexivity | reflexivity
                       | first [reflexivity | apply visit_next_add | apply visit_purge_next]
                       | autorewrite with sys; first [apply B_setx | apply B_touch | lia] ] ]).
  (* the walk's own steps: M0 unchanged, its rest shrinks *)
  all: try (match goal with Ep : nth_error _ _ = Some _ |- (_ * M0 (setpc _ ?q _) + _ < _)%nat =>
         pose proof (sumf_set_nth W0 _ _ _ q Ep) as Hsum;
         pose proof (sumf_set_nth (Vw (length (s_boxes s))) _ _ _ q Ep) as Hv end;
       unfold M0, Vs; autorewrite with sys; cbn [W0 Vw] in *;
       repeat match goal with H : pick _ _ = Some _ |- _ => apply pick_len in H end;
       rewrite ?map_length in *; nia).
  all: try match goal with Ep : nth_error _ _ = Some _ |- context [set_nth _ ?q (s_thr _)] => pose proof (sumf_set_nth W0 _ _ _ q Ep) as Hsum end.
  all: try match goal with |- context [Lsum (s_boxes (setx ?mb ?x ?ss))] => pose proof (Lsum_setx mb x ss) as HL end.
  all: try match goal with H : is_idle _ = true |- _ => pose proof (idle_WE _ H) as Hidle end.
  all: try match goal with H : box_insert _ _ _ = _ |- _ => apply box_insert_len in H end.
  all: try match goal with H : box_cap _ _ = _ |- _ => apply box_cap_len in H end.
  all: try match goal with H : box_seen _ _ = _ |- _ => apply box_seen_len in H end.
  all: try match goal with H : box_remove _ _ = (_, Some _) |- _ => apply box_remove_len in H end.
  all: try match goal with H : box_purge _ = _ |- _ => apply box_purge_len in H; destruct H as [Hb ?]; subst end.
  all: try match goal with sent : bool |- _ => destruct sent end.
  all: try match goal with |- context [next_add ?a ?b ?l] => pose proof (W0_next_add a b l) end.
  all: try match goal with |- context [purge_next ?a ?b ?l] => pose proof (W0_purge_next a b l) end.
  all: unfold lenb in *; cbn [W0 WE e_pc e_all with_epc x_box length] in *; unfold WR in *.
  all: try match goal with Hb : b_msgs _ = [] |- _ => rewrite Hb in *; cbn [length] in * end.
  all: lia.
Qed.

Lemma all_finish w e : e_all (finish_enf w e) = e_all e. Proof. reflexivity. Qed.
Lemma pc_finish w e : e_pc (finish_enf w e) = EIdle. Proof. reflexivity. Qed.

Lemma WE_after max w e : (WE (e_pc (after_evict max w e)) <= 1)%nat /\ e_all (after_evict max w e) = e_all e.
Proof. unfold after_evict. destruct (max <? e_cur e)%Z; cbn; split; auto. Qed.

Lemma enf_step_dec s s' : step_enf s = SOk s' -> (M s' < M s)%nat.
Proof.
  intros H. unfold step_enf in H.
  destruct (s_max s) as [max|] eqn:Emax; [|discriminate].
  destruct (e_pc (s_enf s)) eqn:Epc; try discriminate.
  all: split_enf H.
  all: inv_ok H.
  all: unfold M; autorewrite with sys.
  all: apply lex_dec;
    [ unfold M0; autorewrite with sys
    | apply Vs_enf; autorewrite with sys; [reflexivity | first [apply B_setx | apply B_touch | lia]] ].
  all: try match goal with |- context [Lsum (s_boxes (setx ?mb ?x ?ss))] => pose proof (Lsum_setx mb x ss) as HL end.
  all: try match goal with H : box_remove _ _ = (_, Some _) |- _ => apply box_remove_len in H end.
  all: try match goal with H : ent_take _ _ = Some _ |- _ => apply ent_take_len in H end.
  all: repeat match goal with |- context [after_evict ?a ?b ?c] =>
         let Ha := fresh "Ha" in let Hb := fresh "Hb" in
         destruct (WE_after a b c) as [Ha Hb]; rewrite Hb; clear Hb; revert Ha; generalize (WE (e_pc (after_evict a b c))); intros ? Ha end.
  all: rewrite ?all_finish, ?pc_finish, ?Epc.
  all: unfold lenb in *; cbn [W0 WE e_pc e_all with_epc x_box length] in *.
  all: rewrite ?app_length in *; cbn [length] in *.
  all: try match goal with H : e_all _ = _ |- _ => rewrite H in *; cbn [length] in * end.
  all: lia.
Qed.

Theorem step_decreases s w c s' : step s w c = SOk s' -> (M s' < M s)%nat.
Proof. destruct w; cbn [step]; [apply thr_step_dec | apply enf_step_dec]. Qed.

Lemma productive_le_M sched : forall s, (productive s sched <= M s)%nat.
Proof.
  induction sched as [|[w c] r IH]; intros s; cbn [productive]; [lia|].
  destruct (step s w c) as [s'| | |] eqn:E; try lia.
  - pose proof (step_decreases _ _ _ _ E). specialize (IH s'). lia.
  - apply IH.
Qed.

(** Every cap, every size limit (no hypothesis on it), every list of operations: an explicit bound on the number of
    productive steps of ANY schedule — the measure of the initial state. *)
Theorem mem_terminates : forall cap max ops sched,
  (productive (init_sys cap max [] enf0 ops) sched <= M (init_sys cap max [] enf0 ops))%nat.
Proof. intros. apply productive_le_M. Qed.

Theorem mem_terminates_holds : mem_terminates_stmt.
Proof. intros cap max ops _. eexists. intros sched. apply mem_terminates. Qed.

(** The bound, spelled out: n operations finish within (n+1)*15*n + 2*n productive steps. *)
Lemma init_weights ops : (sumf W0 (map PStart ops) <= 15 * length ops /\ sumf (Vw 0) (map PStart ops) <= 2 * length ops)%nat.
Proof.
  unfold sumf, list_sum. induction ops as [|o ops [IH1 IH2]]; cbn [map fold_right length]; [lia|].
  destruct o; cbn [W0 Vw]; unfold WR; lia.
Qed.
Theorem mem_step_bound : forall cap max ops sched,
  (productive (init_sys cap max [] enf0 ops) sched <= (length ops + 1) * (15 * length ops) + 2 * length ops)%nat.
Proof.
  intros cap max ops sched. etransitivity; [apply mem_terminates|].
  destruct (init_weights ops) as [H1 H2].
  unfold M, M0, Vs, init_sys. cbn [s_thr s_enf s_boxes e_pc e_all enf0 WE map length].
  rewrite map_length. unfold Lsum. cbn [sumf map list_sum fold_right].
  change (sumf (fun kb : mbname * mbx => lenb (snd kb)) []) with 0%nat.
  nia.
Qed.

(** The POP3 session over every scripted connection (Model/Pop3Net.v): chunks separated by
    pauses longer than the idle timeout, ended by EOF, silence or a read error. *)
From Coq Require Import ZifyN ZifyNat ZifyBool.
From IV Require Import Base.Bytes Base.BytesFacts Model.Pop3Wire Model.Pop3 Model.Pop3Net Proofs.Pop3Wire Proofs.Pop3 Proofs.Pop3Bytes.
Open Scope N_scope.

(** The world is the plain model run on the events the reader produced. *)
Lemma run_reader_run : forall fuel fl w r, fst (run_reader fuel fl w r) = run fl w (snd (run_reader fuel fl w r)).
Proof.
  induction fuel as [|f IH]; intros fl w r; cbn [run_reader]; [reflexivity|].
  destruct (is_open w); [|reflexivity].
  destruct (next_event_net r) as [e r']. specialize (IH fl (wstep fl w e) r').
  destruct (run_reader f fl (wstep fl w e) r') as [w' evs]. cbn [fst snd] in *. rewrite run_cons. exact IH.
Qed.

Definition is_end_event (e : event) : bool := match e with EEof | EReadErr => true | _ => false end.
Definition is_eline (e : event) : bool := match e with ELine _ => true | _ => false end.

Lemma next_event_kind r : let e := fst (next_event_net r) in is_eline e = true \/ is_end_event e = true.
Proof.
  unfold next_event_net. destruct (cut_line (cur r)) as [[l rest]|]; [left; reflexivity|].
  destruct (later r); [|right; reflexivity]. destruct (fin r); right; reflexivity.
Qed.

Lemma run_reader_events : forall fuel fl w r e,
  In e (snd (run_reader fuel fl w r)) -> is_eline e = true \/ is_end_event e = true.
Proof.
  induction fuel as [|f IH]; intros fl w r e; cbn [run_reader]; [intros []|].
  destruct (is_open w); [|intros []].
  pose proof (next_event_kind r) as Hk. destruct (next_event_net r) as [e0 r']. cbn [fst] in Hk.
  specialize (IH fl (wstep fl w e0) r' e). destruct (run_reader f fl (wstep fl w e0) r') as [w' evs].
  cbn [snd] in *. intros [<-|H]; auto.
Qed.

(** ** The endings never commit, and they end the session *)

Theorem end_never_commits : forall w e, is_end_event e = true -> commits w e = false.
Proof. intros w e He. unfold commits. destruct e; try discriminate He; destruct (s_state (w_sess w)); reflexivity. Qed.

Lemma end_event_closes fl w e : is_end_event e = true -> is_open w = true ->
  is_open (wstep fl w e) = false /\ w_store (wstep fl w e) = w_store w /\
  w_sess (wstep fl w e) = set_state (w_sess w) Closed.
Proof.
  intros He Ho. destruct e; try discriminate; cbn [wstep]; rewrite ?Ho; repeat split; reflexivity.
Qed.

Lemma run_reader_closed fuel fl w r : is_open w = false -> run_reader fuel fl w r = (w, []).
Proof. intros H. destruct fuel; cbn [run_reader]; [reflexivity|]. rewrite H. reflexivity. Qed.

(** ** Fuel *)

Definition measure (r : reader) : nat := (length (cur r) + total_len (later r) + length (later r))%nat.

Lemma cut_line_some w l rest : cut_line w = Some (l, rest) ->
  w = l ++ rest /\ (exists body, l = body ++ [LF] /\ ~ In LF body) /\ count_lf w = S (count_lf rest).
Proof.
  revert l rest. induction w as [|c w IH]; intros l rest H; cbn [cut_line] in H; [discriminate|].
  cbn [count_lf]. destruct (c =? LF) eqn:E.
  - inversion H; subst. apply N.eqb_eq in E. subst c. split; [reflexivity|]. split; [|reflexivity].
    exists []. split; [reflexivity|intros []].
  - destruct (cut_line w) as [[l0 r0]|]; [|discriminate]. inversion H; subst.
    destruct (IH l0 rest eq_refl) as (A & (body & B & C) & D). subst w l0. split; [reflexivity|]. split; [|exact D].
    exists (c :: body). split; [reflexivity|]. intros [X|X]; [apply N.eqb_neq in E; congruence|auto].
Qed.

Lemma cut_line_none w : cut_line w = None -> count_lf w = O.
Proof.
  induction w as [|c w IH]; cbn [cut_line count_lf]; [reflexivity|].
  destruct (c =? LF); [discriminate|]. destruct (cut_line w) as [[l r]|]; [discriminate|]. exact IH.
Qed.

Lemma next_event_measure r :
  let '(e, r') := next_event_net r in
  (is_eline e = true /\ (measure r' < measure r)%nat) \/ is_end_event e = true.
Proof.
  unfold next_event_net. destruct (cut_line (cur r)) as [[l rest]|] eqn:E.
  - left. split; [reflexivity|]. apply cut_line_some in E. destruct E as (A & (body & B & _) & _).
    unfold measure. cbn [cur later]. rewrite A, B, !app_length. cbn [length]. lia.
  - destruct (later r); [|right; reflexivity]. destruct (fin r); right; reflexivity.
Qed.

Theorem net_never_stuck : forall fuel fl w r,
  (measure r + 2 <= fuel)%nat -> is_open (fst (run_reader fuel fl w r)) = false.
Proof.
  induction fuel as [|f IH]; intros fl w r Hf; [lia|].
  cbn [run_reader]. destruct (is_open w) eqn:Ho; [|exact Ho].
  pose proof (next_event_measure r) as Hm. destruct (next_event_net r) as [e r']. cbn beta iota in Hm.
  destruct Hm as [[_ Hm]|He].
  - specialize (IH fl (wstep fl w e) r' ltac:(lia)).
    destruct (run_reader f fl (wstep fl w e) r') as [w' evs]. exact IH.
  - destruct (end_event_closes fl w e He Ho) as (Hc & _).
    rewrite (run_reader_closed f fl _ r' Hc). exact Hc.
Qed.

Lemma run_reader_fuel : forall f1 f2 fl w r,
  (measure r + 2 <= f1)%nat -> (measure r + 2 <= f2)%nat -> run_reader f1 fl w r = run_reader f2 fl w r.
Proof.
  induction f1 as [|f1 IH]; intros [|f2] fl w r H1 H2; try lia.
  cbn [run_reader]. destruct (is_open w) eqn:Ho; [|reflexivity].
  pose proof (next_event_measure r) as Hm. destruct (next_event_net r) as [e r']. cbn beta iota in Hm.
  destruct Hm as [[_ Hm]|He].
  - rewrite (IH f2 fl (wstep fl w e) r') by lia. reflexivity.
  - destruct (end_event_closes fl w e He Ho) as (Hc & _).
    rewrite !(run_reader_closed _ fl _ r' Hc). reflexivity.
Qed.

Lemma measure_start chunks f :
  measure {| cur := hd [] chunks; later := tl chunks; fin := f |} = (total_len chunks + length chunks - (match chunks with [] => 0 | _ => 1 end))%nat.
Proof.
  destruct chunks as [|w ws]; unfold measure; cbn [hd tl cur later length]; [reflexivity|].
  change (total_len (w :: ws)) with (length w + total_len ws)%nat. generalize (total_len ws). intros t. unfold str. lia.
Qed.

(** The session over EVERY connection ends. *)
Theorem net_session_always_ends fl st chunks f :
  s_state (w_sess (fst (run_net fl st chunks f))) = Closed.
Proof.
  pose proof (net_never_stuck (total_len chunks + length chunks + 2) fl (init_world st)
                {| cur := hd [] chunks; later := tl chunks; fin := f |}) as H.
  rewrite measure_start in H. specialize (H ltac:(unfold str in *; destruct chunks; lia)).
  unfold run_net. unfold is_open in H. destruct (s_state _); try discriminate; reflexivity.
Qed.

(** ** At most one reply per line, at most one more for the way the connection ends *)

Lemma out_len_end fl w e : is_end_event e = true -> (length (w_out (wstep fl w e)) <= S (length (w_out w)))%nat.
Proof.
  destruct e; try discriminate; intros _; cbn [wstep w_out]; [lia|].
  destruct (is_open w); cbn [w_out]; [|lia]. destruct (w_wfail w); [lia|rewrite app_length; cbn; lia].
Qed.

Lemma net_reply_bound : forall fuel fl w r,
  (length (w_out (fst (run_reader fuel fl w r))) <=
   length (w_out w) + count_lf (cur r ++ concat (later r)) + 1)%nat.
Proof.
  induction fuel as [|f IH]; intros fl w r; cbn [run_reader fst]; [lia|].
  destruct (is_open w) eqn:Ho; [|cbn [fst]; lia].
  unfold next_event_net. destruct (cut_line (cur r)) as [[l rest]|] eqn:E.
  - specialize (IH fl (wstep fl w (ELine l)) {| cur := rest; later := later r; fin := fin r |}).
    destruct (run_reader f fl _ _) as [w' evs]. cbn [fst cur later] in *.
    pose proof (out_len_step fl w (ELine l) eq_refl) as Hs.
    apply cut_line_some in E. destruct E as (A & _ & C).
    assert (Hc : count_lf (cur r ++ concat (later r)) = S (count_lf (rest ++ concat (later r)))).
    { assert (Happ : forall a b, count_lf (a ++ b) = (count_lf a + count_lf b)%nat).
      { induction a as [|x a IHa]; intros b; cbn [app count_lf]; [reflexivity|]. destruct (x =? LF); rewrite IHa; lia. }
      rewrite !Happ, C. lia. }
    lia.
  - assert (Hend : forall e r', is_end_event e = true ->
                   (length (w_out (fst (let (w', evs) := run_reader f fl (wstep fl w e) r' in (w', e :: evs)))) <=
                    length (w_out w) + count_lf (cur r ++ concat (later r)) + 1)%nat).
    { intros e r' He. destruct (end_event_closes fl w e He Ho) as (Hc & _).
      rewrite (run_reader_closed f fl _ r' Hc). cbn [fst]. pose proof (out_len_end fl w e He). lia. }
    destruct (later r); [|apply Hend; reflexivity]. apply Hend. destruct (fin r); reflexivity.
Qed.

Theorem net_reply_per_line fl st chunks f :
  (length (w_out (fst (run_net fl st chunks f))) <= 2 + count_lf (concat chunks))%nat.
Proof.
  unfold run_net. pose proof (net_reply_bound (total_len chunks + length chunks + 2) fl (init_world st)
                                {| cur := hd [] chunks; later := tl chunks; fin := f |}) as H.
  cbn [cur later w_out init_world length] in H.
  assert (E : hd [] chunks ++ concat (tl chunks) = concat chunks) by (destruct chunks; reflexivity).
  rewrite E in H. lia.
Qed.

(** ** Deletions are committed only by a QUIT line in TRANSACTION *)

Lemma fold_ext_id evs : forall st,
  (forall e, In e evs -> is_eline e = true \/ is_end_event e = true) -> fold_left ext_step evs st = st.
Proof.
  induction evs as [|e evs IH]; intros st H; [reflexivity|]. cbn [fold_left].
  assert (ext_step st e = st) as -> by (destruct (H e (or_introl eq_refl)) as [X|X]; destruct e; try discriminate X; reflexivity).
  apply IH. intros e' H'. apply H. right. exact H'.
Qed.

Theorem net_commit_only_by_quit fl st chunks f :
  let '(w, evs) := run_net fl st chunks f in
  (forall pre l post, evs = pre ++ ELine l :: post -> commits (run fl (init_world st) pre) (ELine l) = false) ->
  w_store w = st.
Proof.
  unfold run_net.
  pose proof (run_reader_run (total_len chunks + length chunks + 2) fl (init_world st)
                {| cur := hd [] chunks; later := tl chunks; fin := f |}) as Hr.
  pose proof (run_reader_events (total_len chunks + length chunks + 2) fl (init_world st)
                {| cur := hd [] chunks; later := tl chunks; fin := f |}) as He.
  destruct (run_reader _ fl (init_world st) _) as [w evs]. cbn [fst snd] in *. intros H. rewrite Hr.
  rewrite no_quit_no_delete.
  - cbn [w_store init_world]. apply fold_ext_id. exact He.
  - intros pre e post E. assert (Hin : In e evs) by (rewrite E; apply in_or_app; right; left; reflexivity).
    destruct (He e Hin) as [X|X].
    + destruct e; try discriminate X. apply (H pre line post E).
    + apply end_never_commits. exact X.
Qed.


(** In particular: a connection on which no QUIT line arrives - however it is cut into chunks
    and however it ends - leaves the store alone. *)
Theorem net_without_quit_keeps_store : forall fl st chunks f,
  (forall l, In (ELine l) (snd (run_net fl st chunks f)) -> is_quit (parse_line l) = false) ->
  w_store (fst (run_net fl st chunks f)) = st.
Proof.
  intros fl st chunks f H. pose proof (net_commit_only_by_quit fl st chunks f) as G.
  destruct (run_net fl st chunks f) as [w evs]. cbn [fst snd] in *. apply G.
  intros pre l post E. unfold commits. destruct (s_state _); try reflexivity. cbn [ev_cmd].
  apply H. rewrite E. apply in_or_app. right. left. reflexivity.
Qed.

(** ** How the connection ends changes nothing but the last reply *)

Definition same_but_out (a b : world) : Prop :=
  w_store a = w_store b /\ w_sess a = w_sess b /\ w_wfail a = w_wfail b.

Lemma run_reader_fin : forall fuel fl w cu la f1 f2,
  let a := run_reader fuel fl w {| cur := cu; later := la; fin := f1 |} in
  let b := run_reader fuel fl w {| cur := cu; later := la; fin := f2 |} in
  same_but_out (fst a) (fst b) /\
  (exists common, (snd a = common \/ exists e, is_end_event e = true /\ snd a = common ++ [e]) /\
                  (snd b = common \/ exists e, is_end_event e = true /\ snd b = common ++ [e])).
Proof.
  induction fuel as [|n IH]; intros fl w cu la f1 f2; cbn [run_reader].
  - split; [repeat split|]. exists []. split; left; reflexivity.
  - destruct (is_open w) eqn:Ho; [|split; [repeat split|exists []; split; left; reflexivity]].
    unfold next_event_net. cbn [cur later fin].
    destruct (cut_line cu) as [[l rest]|].
    + specialize (IH fl (wstep fl w (ELine l)) rest la f1 f2). cbn zeta in IH.
      destruct (run_reader n fl _ {| cur := rest; later := la; fin := f1 |}) as [wa ea].
      destruct (run_reader n fl _ {| cur := rest; later := la; fin := f2 |}) as [wb eb].
      cbn [fst snd] in *. destruct IH as (S & common & A & B). split; [exact S|].
      exists (ELine l :: common). split.
      * destruct A as [->|(e & He & ->)]; [left; reflexivity|right; exists e; split; [exact He|reflexivity]].
      * destruct B as [->|(e & He & ->)]; [left; reflexivity|right; exists e; split; [exact He|reflexivity]].
    + destruct la as [|w' ws].
      * assert (E1 : is_end_event (end_event f1) = true) by (destruct f1; reflexivity).
        assert (E2 : is_end_event (end_event f2) = true) by (destruct f2; reflexivity).
        destruct (end_event_closes fl w _ E1 Ho) as (C1 & S1 & T1).
        destruct (end_event_closes fl w _ E2 Ho) as (C2 & S2 & T2).
        rewrite !(run_reader_closed n fl _ _ C1), !(run_reader_closed n fl _ _ C2). cbn [fst snd].
        split.
        -- unfold same_but_out. rewrite S1, S2, T1, T2. repeat split.
           destruct f1, f2; cbn [end_event wstep]; rewrite ?Ho; reflexivity.
        -- exists []. split; right; eexists; (split; [|reflexivity]); assumption.
      * destruct (run_reader n fl (wstep fl w EReadErr) {| cur := w'; later := ws; fin := f1 |}) as [wa ea] eqn:Ea.
        destruct (end_event_closes fl w EReadErr eq_refl Ho) as (C1 & _).
        rewrite (run_reader_closed n fl _ _ C1) in Ea. inversion Ea; subst.
        rewrite (run_reader_closed n fl _ _ C1). cbn [fst snd].
        split; [repeat split|]. exists [EReadErr]. split; left; reflexivity.
Qed.

Theorem how_it_ends_is_irrelevant fl st chunks f1 f2 :
  same_but_out (fst (run_net fl st chunks f1)) (fst (run_net fl st chunks f2)).
Proof. unfold run_net. apply (run_reader_fin _ fl (init_world st) (hd [] chunks) (tl chunks) f1 f2). Qed.

(** ** A pause ends the session: what the client sends after it is never read *)

Lemma run_reader_pause : forall fuel fl w cu w' ws f,
  run_reader fuel fl w {| cur := cu; later := w' :: ws; fin := f |} =
  run_reader fuel fl w {| cur := cu; later := []; fin := FIdle |}.
Proof.
  induction fuel as [|n IH]; intros fl w cu w' ws f; cbn [run_reader]; [reflexivity|].
  destruct (is_open w) eqn:Ho; [|reflexivity].
  unfold next_event_net. cbn [cur later fin]. destruct (cut_line cu) as [[l rest]|].
  - rewrite (IH fl (wstep fl w (ELine l)) rest w' ws f). reflexivity.
  - cbn [end_event]. destruct (end_event_closes fl w EReadErr eq_refl Ho) as (C1 & _).
    rewrite !(run_reader_closed n fl _ _ C1). reflexivity.
Qed.

Theorem pause_ends_the_session fl st w w' ws f :
  run_net fl st (w :: w' :: ws) f = run_net fl st [w] FIdle.
Proof.
  unfold run_net. cbn [hd tl]. rewrite run_reader_pause.
  apply run_reader_fuel; unfold measure, str in *; cbn [cur later length total_len fold_right]; lia.
Qed.

(** ** One chunk ended by EOF is the plain byte stream *)

Lemma closed_inert fl evs : forall w,
  is_open w = false -> (forall e, In e evs -> is_eline e = true \/ e = EEof) -> run fl w evs = w.
Proof.
  induction evs as [|e evs IH]; intros w Hc He; [reflexivity|].
  rewrite run_cons.
  assert (wstep fl w e = w) as ->.
  { destruct (He e (or_introl eq_refl)) as [X| ->].
    - destruct e; try discriminate X. cbn [wstep]. apply closed_is_inert. exact Hc.
    - cbn [wstep]. unfold is_open in Hc. destruct w as [st s wf out]. cbn in *. f_equal.
      destruct s as [p u m r c]. cbn in *. destruct p; try discriminate. reflexivity. }
  apply IH; [exact Hc|]. intros e' H'. apply He. right. exact H'.
Qed.

Lemma read_lines_cut w l rest : cut_line w = Some (l, rest) -> read_lines w = l :: read_lines rest.
Proof.
  unfold read_lines. intros H. apply cut_line_some in H. destruct H as (-> & (body & -> & Hb) & _).
  clear -Hb. rewrite <- app_assoc. cbn [app].
  assert (G : forall cu, fst (feed cu (body ++ LF :: rest)) = frev (LF :: rev body ++ cu) :: fst (feed [] rest)).
  { induction body as [|c body IH]; intros cu; cbn [app feed].
    - rewrite N.eqb_refl. destruct (feed [] rest). reflexivity.
    - destruct (c =? LF) eqn:E; [apply N.eqb_eq in E; exfalso; apply Hb; left; exact E|].
      rewrite IH by (intros X; apply Hb; right; exact X). cbn [rev]. rewrite <- app_assoc. reflexivity. }
  rewrite G. rewrite frev_rev. cbn [rev]. rewrite app_nil_r, rev_involutive. reflexivity.
Qed.

Lemma read_lines_none w : cut_line w = None -> read_lines w = [].
Proof.
  unfold read_lines. intros H. assert (G : forall cu, fst (feed cu w) = []).
  { induction w as [|c w IH]; intros cu; cbn [feed]; [reflexivity|]. cbn [cut_line] in H.
    destruct (c =? LF); [discriminate|]. destruct (cut_line w) as [[l r]|]; [discriminate|]. apply IH. reflexivity. }
  apply G.
Qed.

Theorem net_single_is_stream fl st w : fst (run_net fl st [w] FEof) = run_stream fl st w.
Proof.
  unfold run_net, run_stream. cbn [hd tl].
  assert (G : forall fuel wd cu, (length cu + 2 <= fuel)%nat ->
              fst (run_reader fuel fl wd {| cur := cu; later := []; fin := FEof |}) =
              run fl wd (map ELine (read_lines cu) ++ [EEof])).
  { induction fuel as [|n IH]; intros wd cu Hf; [lia|]. cbn [run_reader].
    destruct (is_open wd) eqn:Ho.
    - unfold next_event_net. cbn [cur later fin]. destruct (cut_line cu) as [[l rest]|] eqn:E.
      + rewrite (read_lines_cut _ _ _ E). cbn [map app]. rewrite run_cons.
        assert (Hl : (length rest < length cu)%nat).
        { apply cut_line_some in E. destruct E as (-> & (body & -> & _) & _). rewrite !app_length. cbn. lia. }
        specialize (IH (wstep fl wd (ELine l)) rest ltac:(lia)).
        destruct (run_reader n fl _ _) as [w' evs]. exact IH.
      + rewrite (read_lines_none _ E). cbn [map app end_event].
        destruct (end_event_closes fl wd EEof eq_refl Ho) as (C & _).
        rewrite (run_reader_closed n fl _ _ C). reflexivity.
    - cbn [fst]. symmetry. apply closed_inert; [exact Ho|].
      intros e He. apply in_app_or in He. destruct He as [He|[<-|[]]]; [|right; reflexivity].
      apply in_map_iff in He. destruct He as (l & <- & _). left. reflexivity. }
  apply G. unfold total_len. cbn [fold_right length]. lia.
Qed.

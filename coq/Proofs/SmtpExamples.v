(** Non-vacuity of the byte-level SMTP theorems (audit): a complete dialogue — HELO, MAIL, RCPT, DATA, block, QUIT —
    evaluated by the byte-level loop delivers one message; the same bytes with a pause longer than the idle timeout
    INSIDE the DATA block end the session with 221 and deliver nothing; with the pause after the block they deliver. *)
From IV Require Import Base.Bytes Model.Policy Model.Smtp Model.Dot Model.SmtpWire.

Definition a_mail : str := [70;82;79;77;58;60;120;64;121;62].  (* FROM:<x@y> *)
Definition w_head : str := [72;69;76;79;32;97;13;10] ++ [77;65;73;76;32] ++ a_mail ++ [13;10] ++
  [82;67;80;84;32;84;79;58;60;122;64;119;62;13;10] ++ [68;65;84;65;13;10].
Definition w_block1 : str := [83;58;32;49;13;10;13;10;104].            (* "S: 1" CRLF CRLF "h" *)
Definition w_block2 : str := [105;13;10;46;13;10].                      (* "i" CRLF "." CRLF *)
Definition w_quit : str := [81;85;73;84;13;10].
Definition w_all : str := w_head ++ w_block1 ++ w_block2 ++ w_quit.
Definition og := {| o_addr := [120;64;121]; o_domain := [121] |}.
Definition rc := {| r_addr := [122;64;119]; r_domain := [119]; r_mailbox := [122] |}.
Definition orc := {| t_mail := [(a_mail, {| mf_match:=true; mf_has_params:=false; mf_params_ok:=false; mf_size:=None; mf_origin:=Some og |})];
  t_rcpt := [([122;64;119], Some rc)]; t_mail_hook := []; t_rcpt_hook := [];
  t_hdr := [([83;58;32;49;10;10;104;105;10], Some {| h_from:=None; h_to:=None; h_subject:=[49] |})]; t_msg_hook := [] |}.
Definition c0 := {| pol := {| def_accept := true; accept_l := []; reject_l := []; def_store := true; store_l := []; discard_l := [];
                              reject_origin_l := [] |}; max_rcpt := 10; max_bytes := 1000; tls_enabled := false |}.

Example full_dialogue_delivers :
  let '(its, tr, sf) := run_bytes c0 orc w_all in
  map (fun e => snd (fst e)) tr = [one 250; one 250; one 250; one 354; one 250; one 221] /\
  map d_mailbox (deliveries_of tr) = [[122]] /\ st sf = QUIT.
Proof. vm_compute. repeat split; reflexivity. Qed.

(** the client pauses in the middle of the DATA block: 221, nothing stored, the rest is never read *)
Example pause_in_data_ends_session :
  let '(its, tr, sf) := run_net c0 orc [w_head ++ w_block1; w_block2 ++ w_quit] FEof in
  map (fun e => snd (fst e)) tr = [one 250; one 250; one 250; one 354; one 221] /\
  deliveries_of tr = [] /\ st sf = QUIT.
Proof. vm_compute. repeat split; reflexivity. Qed.

(** the same bytes, the pause after the block: stored, then 221 for the pause instead of for QUIT *)
Example pause_after_data_delivers :
  let '(its, tr, sf) := run_net c0 orc [w_head ++ w_block1 ++ w_block2; w_quit] FEof in
  map (fun e => snd (fst e)) tr = [one 250; one 250; one 250; one 354; one 250; one 221] /\
  map d_mailbox (deliveries_of tr) = [[122]] /\ st sf = QUIT.
Proof. vm_compute. repeat split; reflexivity. Qed.

(** STARTTLS (second audit): the switch on a concrete stream.  EHLO, STARTTLS with QUIT and NOOP injected in plaintext
    behind it, then under TLS: NOOP, EHLO, a second STARTTLS, QUIT.  With the switch the injected lines are never
    answered; the plain byte loop on the same bytes executes the injected QUIT (that is why [run_bytes] is the model
    of a TLS-enabled server only for streams with nothing pipelined behind an accepted STARTTLS). *)
Definition c_tls := {| pol := pol c0; max_rcpt := 10; max_bytes := 1000; tls_enabled := true |}.
Definition w_plain : str := [69;72;76;79;32;97;13;10] ++ [83;84;65;82;84;84;76;83;13;10] ++ w_quit ++ [78;79;79;80;13;10].
Definition w_secure : str := [78;79;79;80;13;10] ++ [69;72;76;79;32;98;13;10] ++ [83;84;65;82;84;84;76;83;13;10] ++ w_quit.

Example starttls_injection_instance :
  map (fun e => map fst (snd (fst e))) (snd (fst (run_bytes_tls c_tls orc w_plain w_secure)))
    = [[250;250;250;250;250]; [220]; [250]; [250;250;250;250]; [454]; [221]]%Z /\
  map (fun e => map fst (snd (fst e))) (snd (fst (run_bytes c_tls orc (w_plain ++ w_secure))))
    = [[250;250;250;250;250]; [220]; [221]]%Z.
Proof. vm_compute. split; reflexivity. Qed.

(** the 220 of STARTTLS is a reply the step function writes (Proofs/SmtpReplies.v has it among its witnesses since the exemption of 220 was removed) *)
Example starttls_writes_220 :
  exists s', step c_tls {| st := READY; from := None; rcpts := []; helo := [97]; tls := false |} (L Starttls) = Ok s' (one 220) [].
Proof. eexists. reflexivity. Qed.

(** failing writes on the complete dialogue: the server's writes fail after k lines (greeting included).  k = 4: the
    transcript runs through the block (250 250 250 354 250), the message is stored, the client saw 250 250 250 - the one
    block beyond what it saw; k = 7: the block's 250 is among the lines the client received. *)
Example write_failure_instance :
  (let '(its, tr, seen) := run_net_w c0 orc [w_all] FEof (Some 4%nat) in
   (map (fun e => map fst (snd (fst e))) tr, length (deliveries_of tr), map fst seen))
    = ([[250]; [250]; [250]; [354]; [250]]%Z, 1%nat, [250; 250; 250]%Z) /\
  (let '(its, tr, seen) := run_net_w c0 orc [w_all] FEof (Some 7%nat) in
   (length (deliveries_of tr), map fst seen)) = (1%nat, [250; 250; 250; 354; 250; 221]%Z).
Proof. vm_compute. split; reflexivity. Qed.

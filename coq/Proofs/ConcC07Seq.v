(** C09 x C07 — a run of the memory-store concurrency model in which operations do not overlap gives exactly
    the answers and the final mailboxes of C07's [run_mem] (= [run_spec], C07 [mem_refines_spec]).
    Proved here WITHOUT size limit, for every cap; the statement WITH the size limit is kept below
    ([conc_sequential_is_memstore_limit_stmt], not proved): it needs the correspondence of the enforcer's
    book-keeping (registration order = arrival order when nothing overlaps, curSize = total), which the
    forced-schedule correspondence and the oracle [qstep] check on every run. *)
From Coq Require Import List Arith Lia NArith ZArith.
From IV Require Import Base.Bytes Model.StoreSpec Model.StoreSpecImpl Model.MemStore Proofs.MemStoreRefine Proofs.ConcC07Mem.
From IV Require Model.Conc Model.ConcMem Proofs.ConcMemSeq.
Import ListNotations.
Local Open Scope nat_scope.

Module M := IV.Model.ConcMem.
Module Sq := IV.Proofs.ConcMemSeq.

Theorem conc_sequential_is_memstore : forall cap ops blocks s,
  Forall no_visit ops -> length blocks = length ops -> Sq.blocks_ok 0%nat blocks ->
  Sq.run_blocks (M.init_sys cap None [] M.enf0 ops) 0%nat blocks = Some s ->
  (* every operation returned what C07's memory store / abstract store answers at its place in the program *)
  (forall t r, nth_error (M.s_thr s) t = Some (M.PDone r) ->
     nth_error (map down_obs (map fst (run_mem (cfg0 cap) (map up_op ops)))) t = Some r) /\
  nth_error (map down_obs (map fst (run_mem (cfg0 cap) (map up_op ops)))) =
    nth_error (map down_obs (map fst (run_spec (cfg0 cap) spec_init (map up_op ops)))) /\
  (* and the final mailboxes are C07's final mailboxes *)
  (forall mb, M.x_lock (M.getx mb s) = None ->
     get_mbox (nm mb) (fst (final_mem (cfg0 cap) (map up_op ops))) = abs_box (M.x_box (M.getx mb s))).
Proof.
  intros cap ops blocks s Hv Hlen Hok Hr.
  destruct (Sq.nonoverlapping_run_is_seq_run cap ops Hv blocks s Hlen Hok Hr) as (_ & H2 & H3).
  split; [|split].
  - intros t r Ht. rewrite mem_refines_spec, <- (conc_spec_is_storespec cap ops Hv). now apply H2.
  - now rewrite mem_refines_spec.
  - intros mb Hl. rewrite (conc_spec_final_is_memstore cap ops mb Hv). f_equal. now apply H3.
Qed.

(** Non-vacuity: such a run exists (three operations on one mailbox with cap 1, run one after the other). *)
Example nonoverlapping_run_exists :
  exists s, Sq.run_blocks (M.init_sys 1%N None [] M.enf0 [C.OAdd 1%N 1%N 10%N; C.OAdd 1%N 2%N 10%N; C.OList 1%N]) 0
    [repeat (C.T 0, 0) 6; repeat (C.T 1, 0) 6; repeat (C.T 2, 0) 6] = Some s.
Proof. eexists. vm_compute. reflexivity. Qed.

(** The statement with the size limit (every cap, every limit), NOT proved. [blocks] may now also move the
    enforcer; tags are distinct because a tag stands for the identity of the Message object. *)
Definition add_tags (ops : list C.op) : list N :=
  flat_map (fun o => match o with C.OAdd _ g _ => [g] | _ => [] end) ops.
Definition conc_sequential_is_memstore_limit_stmt : Prop :=
  forall cap (maxb : N) ops blocks s,
    maxb <> 0%N -> Forall no_visit ops -> NoDup (add_tags ops) ->
    length blocks = length ops -> Sq.blocks_ok 0 blocks ->
    Sq.run_blocks (M.init_sys cap (Some (Z.of_N maxb)) [] M.enf0 ops) 0 blocks = Some s ->
    forall t r, nth_error (M.s_thr s) t = Some (M.PDone r) ->
      nth_error (map down_obs (map fst (run_mem {| c_cap := N.to_nat cap; c_max := maxb |} (map up_op ops)))) t = Some r.

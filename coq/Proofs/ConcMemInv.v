(** C09 — memory store: state-access lemmas, reachability, and the invariants behind
    deadlock freedom (lock holder is inside AddMessage's critical section; a waiting client has
    either been answered or is the one the enforcer is working for). *)
From IV Require Import Model.Conc Model.ConcMem Proofs.ConcBase.
From Coq Require Import Lia ZifyN ZifyNat ZifyBool.

(* ------------------------------------------------------------- access lemmas *)

Lemma getx_setx_same mb x s : getx mb (setx mb x s) = x.
Proof. unfold getx, setx; cbn. now rewrite aget_aset_same. Qed.
Lemma getx_setx_other mb mb' x s : mb' <> mb -> getx mb' (setx mb x s) = getx mb' s.
Proof. intros H. unfold getx, setx; cbn. now rewrite aget_aset_other. Qed.
Lemma getx_touch mb mb' s : getx mb' (touch mb s) = getx mb' s.
Proof.
  unfold touch. destruct (aget mb (s_boxes s)) eqn:E; [reflexivity|].
  destruct (N.eq_dec mb' mb) as [->|H].
  - rewrite getx_setx_same. unfold getx. now rewrite E.
  - now rewrite getx_setx_other.
Qed.
Lemma getx_setpc mb t p s : getx mb (setpc t p s) = getx mb s. Proof. reflexivity. Qed.
Lemma getx_addlog mb e s : getx mb (addlog e s) = getx mb s. Proof. reflexivity. Qed.
Lemma getx_with_enf mb e s : getx mb (with_enf s e) = getx mb s. Proof. reflexivity. Qed.
Lemma getx_take_done mb t s : getx mb (take_done t s) = getx mb s. Proof. reflexivity. Qed.

Lemma thr_setx mb x s : s_thr (setx mb x s) = s_thr s. Proof. reflexivity. Qed.
Lemma thr_touch mb s : s_thr (touch mb s) = s_thr s.
Proof. unfold touch. now destruct (aget mb (s_boxes s)). Qed.
Lemma thr_setpc t p s : s_thr (setpc t p s) = set_nth t p (s_thr s). Proof. reflexivity. Qed.
Lemma thr_addlog e s : s_thr (addlog e s) = s_thr s. Proof. reflexivity. Qed.
Lemma thr_with_enf e s : s_thr (with_enf s e) = s_thr s. Proof. reflexivity. Qed.
Lemma thr_take_done t s : s_thr (take_done t s) = s_thr s. Proof. reflexivity. Qed.

Lemma enf_setx mb x s : s_enf (setx mb x s) = s_enf s. Proof. reflexivity. Qed.
Lemma enf_touch mb s : s_enf (touch mb s) = s_enf s.
Proof. unfold touch. now destruct (aget mb (s_boxes s)). Qed.
Lemma enf_setpc t p s : s_enf (setpc t p s) = s_enf s. Proof. reflexivity. Qed.
Lemma enf_addlog e s : s_enf (addlog e s) = s_enf s. Proof. reflexivity. Qed.
Lemma enf_with_enf e s : s_enf (with_enf s e) = e. Proof. reflexivity. Qed.

Lemma max_setx mb x s : s_max (setx mb x s) = s_max s. Proof. reflexivity. Qed.
Lemma max_touch mb s : s_max (touch mb s) = s_max s.
Proof. unfold touch. now destruct (aget mb (s_boxes s)). Qed.
Lemma max_setpc t p s : s_max (setpc t p s) = s_max s. Proof. reflexivity. Qed.
Lemma max_addlog e s : s_max (addlog e s) = s_max s. Proof. reflexivity. Qed.
Lemma max_with_enf e s : s_max (with_enf s e) = s_max s. Proof. reflexivity. Qed.
Lemma max_take_done t s : s_max (take_done t s) = s_max s. Proof. reflexivity. Qed.

Lemma cap_setx mb x s : s_cap (setx mb x s) = s_cap s. Proof. reflexivity. Qed.
Lemma cap_touch mb s : s_cap (touch mb s) = s_cap s.
Proof. unfold touch. now destruct (aget mb (s_boxes s)). Qed.

Lemma log_touch mb s : s_log (touch mb s) = s_log s.
Proof. unfold touch. now destruct (aget mb (s_boxes s)). Qed.

#[export] Hint Rewrite getx_setx_same getx_touch getx_setpc getx_addlog getx_with_enf getx_take_done
  thr_setx thr_touch thr_setpc thr_addlog thr_with_enf thr_take_done
  enf_setx enf_touch enf_setpc enf_addlog enf_with_enf
  max_setx max_touch max_setpc max_addlog max_with_enf max_take_done cap_setx cap_touch log_touch : sys.

(* ------------------------------------------------------------- reachability *)

Inductive reach (s0 : msys) : msys -> Prop :=
| reach_refl : reach s0 s0
| reach_step s s' w c : reach s0 s -> step s w c = SOk s' -> reach s0 s'.

Lemma run_from_reach s0 : forall sched n s,
  reach s0 s ->
  match run_from n s sched with
  | Fin s' => reach s0 s'
  | BlockedAt _ s' => reach s0 s'
  | CrashedAt _ s' => reach s0 s' /\ exists w c, step s' w c = SCrash
  end.
Proof.
  induction sched as [|[w c] rest IH]; intros n s R; cbn [run_from]; [exact R|].
  destruct (step s w c) as [s'| | |] eqn:E.
  - apply IH. eapply reach_step; eauto.
  - exact R.
  - apply IH; exact R.
  - split; [exact R|]. eauto.
Qed.

Lemma reach_ind_inv (P : msys -> Prop) s0 :
  P s0 -> (forall s s' w c, P s -> step s w c = SOk s' -> P s') -> forall s, reach s0 s -> P s.
Proof. intros H0 HS s R. induction R; eauto. Qed.

(* ------------------------------------------------- invariants for deadlock freedom *)

(** L: whoever holds a mailbox lock across scheduling points is parked at mem.add.visible. *)
Definition invL (s : msys) : Prop :=
  forall mb t, x_lock (getx mb s) = Some t -> exists nm, nth_error (s_thr s) t = Some (PAddVisible mb nm).

Definition waiting (p : pc) : bool :=
  match p with
  | PAddEvict _ _ _ _ true | PAddRegister _ _ true | PRemoveEnf _ _ true | PPurgeEnf _ _ _ true => true
  | _ => false
  end.
Definition waiter (e : epc) : option tid :=
  match e with
  | EIdle => None
  | EIncoming _ w | EEvict w | EEvLock _ w | ERemove _ w => Some w
  end.

(** D: a client that has sent its request either finds its done channel closed or is the one
    the enforcer is currently serving. *)
Definition invD (s : msys) : Prop :=
  forall t p, nth_error (s_thr s) t = Some p -> waiting p = true ->
    has_done t s = true \/ waiter (e_pc (s_enf s)) = Some t.

Lemma locked_false mb s : locked mb s = false -> x_lock (getx mb s) = None.
Proof. unfold locked. destruct (x_lock (getx mb s)); [discriminate | reflexivity]. Qed.

Lemma has_done_finish t w e s :
  has_done t (with_enf s (finish_enf w e)) = (Nat.eqb t w || existsb (Nat.eqb t) (e_done e))%bool.
Proof. reflexivity. Qed.

Lemma has_done_take t u s : t <> u -> has_done t (take_done u s) = has_done t s.
Proof.
  intros H. unfold has_done, take_done; cbn. induction (e_done (s_enf s)) as [|x l IH]; cbn; [reflexivity|].
  destruct (Nat.eqb u x) eqn:E; cbn.
  - apply Nat.eqb_eq in E; subst x. destruct (Nat.eqb t u) eqn:E2; [apply Nat.eqb_eq in E2; congruence|]. exact IH.
  - now rewrite IH.
Qed.

Ltac inv_ok H := injection H as H; subst.

Ltac case_mb mb0 mb :=
  destruct (N.eq_dec mb0 mb) as [->|?]; [rewrite ?getx_setx_same in * | rewrite ?getx_setx_other in * by assumption].

(** Case analysis of one client step [H : step_thr s t c = SOk s']. *)
Ltac split_step H :=
  repeat match type of H with
       | context [match ?o with OAdd _ _ _ => _ | _ => _ end] => destruct o
       | context [if locked ?mb ?ss then _ else _] => destruct (locked mb ss) eqn:Elk; [discriminate|]; apply locked_false in Elk
       | context [let '(_, _) := ?x in _] => destruct x eqn:?
       | context [match pick ?c ?l with _ => _ end] => destruct (pick c l) as [[? ?]|] eqn:?
       | context [match s_max ?ss with _ => _ end] => destruct (s_max ss) eqn:?
       | context [match box_remove ?a ?b with _ => _ end] => destruct (box_remove a b) as [? [?|]] eqn:?
       | context [match ?o with Some _ => _ | None => _ end] => is_var o; destruct o
       end;
  try (unfold enf_remove_step in H;
       try match goal with E : s_max _ = _ |- _ => rewrite ?E in H end;
       repeat match type of H with
       | context [if ?b then _ else _] => destruct b eqn:?; try discriminate
       end);
  try discriminate.

(** One client step preserves L. *)
Lemma invL_thr s t c s' : invL s -> step_thr s t c = SOk s' -> invL s'.
Proof.
  intros HL H. unfold step_thr in H.
  destruct (nth_error (s_thr s) t) as [p|] eqn:Ep; [|discriminate].
  pose proof (nth_error_lt _ _ _ Ep) as Hlt.
  (* generic closing tactic: the state is [.. setpc t p' ..] possibly with one setx *)
  assert (Hother : forall mb0 t0 nm, nth_error (s_thr s) t0 = Some (PAddVisible mb0 nm) ->
             (forall mb nm', p <> PAddVisible mb nm') -> t0 <> t).
  { intros mb0 t0 nm H0 Hp ->. rewrite Ep in H0. inversion H0. eapply Hp; eauto. }
  destruct p; try discriminate.
  all: split_step H.
  all: inv_ok H.
  all: intros mb0 t0 Hl; autorewrite with sys in *.
  all: try (match goal with
       | Hl : context [getx ?m0 (setx ?mb _ _)] |- _ => case_mb m0 mb
       end; autorewrite with sys in *; cbn [x_lock] in Hl; try discriminate).
  all: try (inv_ok Hl; rewrite nth_set_same by assumption; eexists; reflexivity).
  all: try (destruct (HL _ _ Hl) as [nm0 Hn];
            destruct (Nat.eq_dec t0 t) as [->|Hne];
            [ rewrite Ep in Hn; try discriminate | rewrite nth_set_other by congruence; eauto ]).
  all: try (inv_ok Hn; congruence).
Qed.

Lemma invL_enf s s' : invL s -> step_enf s = SOk s' -> invL s'.
Proof.
  intros HL H. unfold step_enf in H.
  destruct (s_max s) as [max|] eqn:Emax; [|discriminate].
  destruct (e_pc (s_enf s)) eqn:Epc; try discriminate.
  all: repeat match type of H with
       | context [if locked ?mb ?ss then _ else _] => destruct (locked mb ss) eqn:Elk; [discriminate|]; apply locked_false in Elk
       | context [if ?b then _ else _] => destruct b eqn:?
       | context [match e_all ?e with _ => _ end] => destruct (e_all e) eqn:?
       | context [match ent_take ?g ?l with _ => _ end] => destruct (ent_take g l) as [[? ?]|] eqn:?
       | context [match box_remove ?a ?b with _ => _ end] => destruct (box_remove a b) as [? [?|]] eqn:?
       end; try discriminate.
  all: inv_ok H.
  all: intros mb0 t0 Hl; autorewrite with sys in *.
  all: try (match goal with
       | Hl : context [getx ?m0 (setx ?mb _ _)] |- _ => case_mb m0 mb
       end; autorewrite with sys in *; cbn [x_lock] in Hl; try discriminate).
  all: eauto.
Qed.

Lemma invL_step s w c s' : invL s -> step s w c = SOk s' -> invL s'.
Proof. destruct w; cbn [step]; eauto using invL_thr, invL_enf. Qed.

(* ------------------------------------------------------------------ invariant D *)

Lemma is_idle_waiter s : is_idle s = true -> waiter (e_pc (s_enf s)) = None.
Proof. unfold is_idle. destruct (e_pc (s_enf s)); try discriminate; reflexivity. Qed.

Lemma has_done_with_epc t s p : has_done t (with_enf s (with_epc (s_enf s) p)) = has_done t s.
Proof. reflexivity. Qed.
Lemma has_done_setpc t u p s : has_done t (setpc u p s) = has_done t s. Proof. reflexivity. Qed.
Lemma has_done_setx t mb x s : has_done t (setx mb x s) = has_done t s. Proof. reflexivity. Qed.
Lemma has_done_addlog t e s : has_done t (addlog e s) = has_done t s. Proof. reflexivity. Qed.
Lemma has_done_touch t mb s : has_done t (touch mb s) = has_done t s.
Proof. unfold has_done. now rewrite enf_touch. Qed.
#[export] Hint Rewrite has_done_with_epc has_done_setpc has_done_setx has_done_addlog has_done_touch : sys.

Lemma invD_thr s t c s' : invD s -> step_thr s t c = SOk s' -> invD s'.
Proof.
  intros HD H. unfold step_thr in H.
  destruct (nth_error (s_thr s) t) as [p|] eqn:Ep; [|discriminate].
  pose proof (nth_error_lt _ _ _ Ep) as Hlt.
  destruct p; try discriminate.
  all: split_step H.
  all: inv_ok H.
  all: intros t0 p0 Hn Hw; autorewrite with sys in *.
  all: apply nth_set_cases in Hn; destruct Hn as [(-> & -> & _)|(Hne & Hn)].
  (* the moving thread itself *)
  all: try discriminate.
  all: try (destruct l; discriminate).
  all: try (right; reflexivity).
  all: try (unfold purge_next in Hw; match type of Hw with context [pick ?c ?l] => destruct (pick c l) as [[? ?]|] end; discriminate).
  all: try (unfold next_add in Hw; match type of Hw with context [match ?l with _ => _ end] => destruct l end; discriminate).
  (* another thread *)
  all: try (destruct (HD _ _ Hn Hw) as [Hd|Hd]; [left|right]; autorewrite with sys; try assumption;
            try (rewrite has_done_take by congruence; assumption)).
  all: try (match goal with Hi : is_idle _ = true |- _ => apply is_idle_waiter in Hi; congruence end).
Qed.

Lemma after_evict_cases max w e :
  (after_evict max w e = with_epc e (EEvict w)) \/ (after_evict max w e = finish_enf w e).
Proof. unfold after_evict. destruct (max <? e_cur e)%Z; auto. Qed.

Lemma has_done_finish_enf t w e s :
  has_done t (with_enf s (finish_enf w e)) = (Nat.eqb t w || existsb (Nat.eqb t) (e_done e))%bool.
Proof. reflexivity. Qed.

Lemma invD_enf s s' : invD s -> step_enf s = SOk s' -> invD s'.
Proof.
  intros HD H. unfold step_enf in H.
  destruct (s_max s) as [max|] eqn:Emax; [|discriminate].
  destruct (e_pc (s_enf s)) eqn:Epc; try discriminate.
  all: repeat match type of H with
       | context [if locked ?mb ?ss then _ else _] => destruct (locked mb ss) eqn:Elk; [discriminate|]
       | context [if ?b then _ else _] => destruct b eqn:?
       | context [match e_all ?e with _ => _ end] => destruct (e_all e) eqn:?
       | context [match ent_take ?g ?l with _ => _ end] => destruct (ent_take g l) as [[? ?]|] eqn:?
       | context [match box_remove ?a ?b with _ => _ end] => destruct (box_remove a b) as [? [?|]] eqn:?
       end; try discriminate.
  all: inv_ok H.
  all: intros t0 p0 Hn Hw; autorewrite with sys in *.
  all: destruct (HD _ _ Hn Hw) as [Hd|Hd]; try rewrite Epc in Hd; cbn [waiter] in Hd; try (inv_ok Hd).
  all: try match goal with |- context [after_evict ?m ?w ?e] =>
         destruct (after_evict_cases m w e) as [-> | ->] end.
  all: unfold has_done in *; cbn [s_enf with_enf finish_enf with_epc e_done e_pc waiter existsb] in *.
  all: rewrite ?Nat.eqb_refl; cbn [orb]; auto.
  all: try (left; rewrite Hd; apply orb_true_r).
Qed.

Lemma invD_step s w c s' : invD s -> step s w c = SOk s' -> invD s'.
Proof. destruct w; cbn [step]; eauto using invD_thr, invD_enf. Qed.

(* ------------------------------------------------------------ deadlock freedom *)

Definition can_move (s : msys) (w : who) : Prop :=
  match step s w 0 with SOk _ | SCrash => True | _ => False end.

Lemma holder_moves s mb t : invL s -> x_lock (getx mb s) = Some t -> can_move s (T t).
Proof.
  intros HL H. destruct (HL _ _ H) as [nm Hn]. unfold can_move; cbn [step]. unfold step_thr. rewrite Hn.
  destruct (box_cap (s_cap s) (x_box (getx mb s))). exact I.
Qed.

Lemma locked_holder s mb : locked mb s = true -> exists t, x_lock (getx mb s) = Some t.
Proof. unfold locked. destruct (x_lock (getx mb s)); [eauto | discriminate]. Qed.

Lemma thr_done_all s : forallb thr_done (s_thr s) = false ->
  exists t p, nth_error (s_thr s) t = Some p /\ thr_done p = false.
Proof.
  induction (s_thr s) as [|p l IH]; cbn; [discriminate|].
  destruct (thr_done p) eqn:E; cbn.
  - intros H. destruct (IH H) as (t & q & ? & ?). exists (S t), q; auto.
  - intros _. exists 0%nat, p; auto.
Qed.

(** N: without a size limit the enforcer fields are never touched. *)
Definition invN (s : msys) : Prop := s_max s = None -> is_idle s = true.

Lemma invN_step s w c s' : invN s -> step s w c = SOk s' -> invN s'.
Proof.
  intros HN H. destruct w as [t|]; cbn [step] in H.
  - unfold step_thr in H.
    destruct (nth_error (s_thr s) t) as [p|] eqn:Ep; [|discriminate].
    destruct p; try discriminate.
    all: split_step H.
    all: inv_ok H.
    all: intros Hm; autorewrite with sys in Hm; try congruence.
    all: unfold is_idle in *; autorewrite with sys; try (apply HN; assumption).
    all: cbn [s_enf take_done e_pc]; apply HN; assumption.
  - unfold step_enf in H. intros Hm. destruct (s_max s) eqn:E; [|discriminate].
    assert (s_max s' = s_max s) as Hs.
    { destruct (e_pc (s_enf s)); try discriminate;
      repeat match type of H with
       | context [if ?b then _ else _] => destruct b eqn:?
       | context [match e_all ?e with _ => _ end] => destruct (e_all e) eqn:?
       | context [match ent_take ?g ?l with _ => _ end] => destruct (ent_take g l) as [[? ?]|] eqn:?
       | context [match box_remove ?a ?b with _ => _ end] => destruct (box_remove a b) as [? [?|]] eqn:?
       end; try discriminate; inv_ok H; autorewrite with sys; reflexivity. }
    congruence.
Qed.

Ltac moves := unfold can_move; cbn [step]; unfold step_thr;
  match goal with Hn : nth_error _ _ = Some _ |- _ => rewrite Hn end.

Theorem deadlock_free_inv s : invL s -> invD s -> invN s ->
  all_done s = true \/ exists w, can_move s w.
Proof.
  intros HL HD HN.
  destruct (is_idle s) eqn:Eidle.
  2:{ right. destruct (s_max s) as [max|] eqn:Emax; [|rewrite (HN Emax) in Eidle; discriminate].
      unfold is_idle in Eidle.
      destruct (e_pc (s_enf s)) eqn:Epc; try discriminate.
      - exists E. unfold can_move; cbn [step]; unfold step_enf; rewrite Emax, Epc.
        destruct (tag_mem _ _); exact I.
      - exists E. unfold can_move; cbn [step]; unfold step_enf; rewrite Emax, Epc.
        destruct (e_all (s_enf s)); exact I.
      - destruct (locked (fst k) s) eqn:Elk.
        + destruct (locked_holder _ _ Elk) as [t Ht]. exists (T t). eapply holder_moves; eauto.
        + exists E. unfold can_move; cbn [step]; unfold step_enf; rewrite Emax, Epc, Elk.
          destruct (box_remove _ _) as [? [?|]]; exact I.
      - exists E. unfold can_move; cbn [step]; unfold step_enf; rewrite Emax, Epc.
        destruct (tag_mem _ _); [destruct (ent_take _ _) as [[? ?]|]|]; exact I. }
  destruct (forallb thr_done (s_thr s)) eqn:Ed.
  { left. unfold all_done. now rewrite Ed, Eidle. }
  right. destruct (thr_done_all _ Ed) as (t & p & Hn & Hp).
  assert (Hlk : forall mb, locked mb s = true -> exists w, can_move s w).
  { intros mb Elk. destruct (locked_holder _ _ Elk) as [u Hu]. exists (T u). eapply holder_moves; eauto. }
  assert (Hwait : waiting p = true -> s_max s <> None -> has_done t s = true).
  { intros Hw _. destruct (HD _ _ Hn Hw) as [?|Hx]; [assumption|].
    rewrite (is_idle_waiter _ Eidle) in Hx. discriminate. }
  destruct p; try discriminate.
  all: try (match goal with |- context [can_move] => idtac end;
       match type of Hn with context [?P ?mb] => idtac end).
  - exists (T t). moves. destruct o; try exact I. destruct (pick 0 _) as [[? ?]|]; exact I.
  - destruct (locked mb s) eqn:Elk; [eauto|]. exists (T t). moves. rewrite Elk.
    destruct (box_insert _ _ _). exact I.
  - exists (T t). moves. destruct (box_cap _ _). exact I.
  - exists (T t). moves. unfold enf_remove_step. destruct (s_max s) eqn:Em; [|exact I].
    destruct sent.
    + rewrite Hwait by (reflexivity || congruence). exact I.
    + rewrite Eidle. exact I.
  - exists (T t). moves. destruct (s_max s) eqn:Em; [|exact I].
    destruct sent.
    + rewrite Hwait by (reflexivity || congruence). exact I.
    + rewrite Eidle. exact I.
  - destruct (locked mb s) eqn:Elk; [eauto|]. exists (T t). moves. rewrite Elk. exact I.
  - destruct (locked mb s) eqn:Elk; [eauto|]. exists (T t). moves. rewrite Elk. exact I.
  - destruct (locked mb s) eqn:Elk; [eauto|]. exists (T t). moves. rewrite Elk. exact I.
  - destruct (locked mb s) eqn:Elk; [eauto|]. exists (T t). moves. rewrite Elk.
    destruct (box_seen _ _). exact I.
  - destruct (locked mb s) eqn:Elk; [eauto|]. exists (T t). moves. rewrite Elk.
    destruct (box_remove _ _) as [? [?|]]; exact I.
  - exists (T t). moves. unfold enf_remove_step. destruct (s_max s) eqn:Em; [|exact I].
    destruct sent.
    + rewrite Hwait by (reflexivity || congruence). exact I.
    + rewrite Eidle. exact I.
  - destruct (locked mb s) eqn:Elk; [eauto|]. exists (T t). moves. rewrite Elk.
    destruct (box_purge _). exact I.
  - exists (T t). moves. destruct (s_max s); exact I.
  - exists (T t). moves. unfold enf_remove_step. destruct (s_max s) eqn:Em; [|exact I].
    destruct sent.
    + rewrite Hwait by (reflexivity || congruence). exact I.
    + rewrite Eidle. exact I.
  - destruct (locked mb s) eqn:Elk; [eauto|]. exists (T t). moves. rewrite Elk.
    destruct (pick 0 rest) as [[? ?]|]; exact I.
Qed.

(* --------------------------------------------------- the invariants hold initially *)

Lemma init_thr_nth cap max ops t p :
  nth_error (s_thr (init_sys cap max [] enf0 ops)) t = Some p -> exists o, p = PStart o /\ nth_error ops t = Some o.
Proof.
  cbn [init_sys s_thr]. intros H. rewrite nth_error_map in H.
  destruct (nth_error ops t); [|discriminate]. inversion H; eauto.
Qed.

Lemma init_invL cap max ops : invL (init_sys cap max [] enf0 ops).
Proof. intros mb t H. cbn in H. discriminate. Qed.
Lemma init_invD cap max ops : invD (init_sys cap max [] enf0 ops).
Proof. intros t p H Hw. destruct (init_thr_nth _ _ _ _ _ H) as (o & -> & _). discriminate. Qed.
Lemma init_invN cap max ops : invN (init_sys cap max [] enf0 ops).
Proof. intros _. reflexivity. Qed.

Theorem mem_deadlock_free cap max ops s :
  reach (init_sys cap max [] enf0 ops) s -> all_done s = true \/ exists w, can_move s w.
Proof.
  intros R. apply deadlock_free_inv.
  - revert s R. apply reach_ind_inv; [apply init_invL | intros; eapply invL_step; eauto].
  - revert s R. apply reach_ind_inv; [apply init_invD | intros; eapply invD_step; eauto].
  - revert s R. apply reach_ind_inv; [apply init_invN | intros; eapply invN_step; eauto].
Qed.

Lemma can_move_enabled s w : can_move s w -> enabled s w = true.
Proof. unfold can_move, enabled. destruct (step s w 0); tauto. Qed.

Definition progress (s : msys) : Prop := all_done s = true \/ exists w, enabled s w = true.

Theorem mem_deadlock_free_run cap max ops sched :
  match run (init_sys cap max [] enf0 ops) sched with
  | Fin s | BlockedAt _ s | CrashedAt _ s => progress s
  end.
Proof.
  pose proof (run_from_reach (init_sys cap max [] enf0 ops) sched 0 _ (reach_refl _)) as H.
  unfold run. destruct (run_from 0 _ sched); [| |destruct H as [H _]];
  (destruct (mem_deadlock_free _ _ _ _ H) as [?|[w ?]]; [left; assumption | right; exists w; now apply can_move_enabled]).
Qed.

(** Non-vacuity: a schedule that really blocks (second delivery waits for the mailbox lock). *)
Example blocked_state_exists :
  exists n s, run (init_sys 0 None [] enf0 [OAdd 1 1 10; OAdd 1 2 10]) [(T 0%nat, 0%nat); (T 0%nat, 0%nat); (T 1%nat, 0%nat); (T 1%nat, 0%nat)] = BlockedAt n s.
Proof. eexists _, _. vm_compute. reflexivity. Qed.

(** The lock-order argument behind deadlock freedom, as a statement of its own: whoever holds a
    mailbox lock across a scheduling point is parked at mem.add.visible, inside AddMessage's
    critical section — never at a send to / wait for the size enforcer, and never the enforcer. *)
Definition at_rendezvous (p : pc) : bool :=
  match p with
  | PAddEvict _ _ _ _ _ | PAddRegister _ _ _ | PRemoveEnf _ _ _ | PPurgeSwapped _ _ | PPurgeEnf _ _ _ _ => true
  | _ => false
  end.

Theorem mem_no_lock_across_rendezvous : forall cap max ops sched,
  match run (init_sys cap max [] enf0 ops) sched with
  | Fin s | BlockedAt _ s | CrashedAt _ s =>
      (forall mb t, x_lock (getx mb s) = Some t -> exists nm, nth_error (s_thr s) t = Some (PAddVisible mb nm)) /\
      (forall t p mb, nth_error (s_thr s) t = Some p -> at_rendezvous p = true -> x_lock (getx mb s) <> Some t)
  end.
Proof.
  intros cap max ops sched.
  pose proof (run_from_reach (init_sys cap max [] enf0 ops) sched 0 _ (reach_refl _)) as H. unfold run.
  assert (G : forall s, reach (init_sys cap max [] enf0 ops) s ->
     (forall mb t, x_lock (getx mb s) = Some t -> exists nm, nth_error (s_thr s) t = Some (PAddVisible mb nm)) /\
     (forall t p mb, nth_error (s_thr s) t = Some p -> at_rendezvous p = true -> x_lock (getx mb s) <> Some t)).
  { intros s R. assert (HL : invL s).
    { revert s R. apply reach_ind_inv; [apply init_invL | intros; eapply invL_step; eauto]. }
    split; [exact HL|]. intros t p mb Hp Hr Hl. destruct (HL _ _ Hl) as [nm Hn].
    rewrite Hn in Hp. inversion Hp; subst. discriminate. }
  destruct (run_from 0 _ sched) as [s|n s|n s]; [apply G; exact H | apply G; exact H | apply G; apply H].
Qed.

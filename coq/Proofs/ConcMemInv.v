(** C09 — memory store: state-access lemmas, reachability, and the invariants behind
    deadlock freedom (lock holder is inside AddMessage's critical section; a waiting client has
    either been answered or is the one the enforcer is working for). *)
From IV Require Import Model.Conc Model.ConcMem Proofs.ConcBase.
From Coq Require Import Lia ZifyN ZifyNat ZifyBool.

(* ------------------------------------------------------------- access lemmas *)

Lemma getx_setx_same mb x s : getx mb (setx mb x s) = x.
Proof. unfold getx, setx; cbn. now rewrite aget_aset_same. Qed.
Lemma getx_setx_other mb mb' x s : mb' <> mb -> getx mb' (setx mb x s) = getx mb' s.
Proof. intros H. unfold getx, setx; cbn. now rewrite aget_aset_other. Qed.
Lemma getx_touch mb mb' s : getx mb' (touch mb s) = getx mb' s.
Proof.
  unfold touch. destruct (aget mb (s_boxes s)) eqn:E; [reflexivity|].
  destruct (N.eq_dec mb' mb) as [->|H].
  - rewrite getx_setx_same. unfold getx. now rewrite E.
  - now rewrite getx_setx_other.
Qed.
Lemma getx_setpc mb t p s : getx mb (setpc t p s) = getx mb s. Proof. reflexivity. Qed.
Lemma getx_addlog mb e s : getx mb (addlog e s) = getx mb s. Proof. reflexivity. Qed.
Lemma getx_with_enf mb e s : getx mb (with_enf s e) = getx mb s. Proof. reflexivity. Qed.
Lemma getx_take_done mb t s : getx mb (take_done t s) = getx mb s. Proof. reflexivity. Qed.

Lemma thr_setx mb x s : s_thr (setx mb x s) = s_thr s. Proof. reflexivity. Qed.
Lemma thr_touch mb s : s_thr (touch mb s) = s_thr s.
Proof. unfold touch. now destruct (aget mb (s_boxes s)). Qed.
Lemma thr_setpc t p s : s_thr (setpc t p s) = set_nth t p (s_thr s). Proof. reflexivity. Qed.
Lemma thr_addlog e s : s_thr (addlog e s) = s_thr s. Proof. reflexivity. Qed.
Lemma thr_with_enf e s : s_thr (with_enf s e) = s_thr s. Proof. reflexivity. Qed.
Lemma thr_take_done t s : s_thr (take_done t s) = s_thr s. Proof. reflexivity. Qed.

Lemma enf_setx mb x s : s_enf (setx mb x s) = s_enf s. Proof. reflexivity. Qed.
Lemma enf_touch mb s : s_enf (touch mb s) = s_enf s.
Proof. unfold touch. now destruct (aget mb (s_boxes s)). Qed.
Lemma enf_setpc t p s : s_enf (setpc t p s) = s_enf s. Proof. reflexivity. Qed.
Lemma enf_addlog e s : s_enf (addlog e s) = s_enf s. Proof. reflexivity. Qed.
Lemma enf_with_enf e s : s_enf (with_enf s e) = e. Proof. reflexivity. Qed.

Lemma max_setx mb x s : s_max (setx mb x s) = s_max s. Proof. reflexivity. Qed.
Lemma max_touch mb s : s_max (touch mb s) = s_max s.
Proof. unfold touch. now destruct (aget mb (s_boxes s)). Qed.
Lemma max_setpc t p s : s_max (setpc t p s) = s_max s. Proof. reflexivity. Qed.
Lemma max_addlog e s : s_max (addlog e s) = s_max s. Proof. reflexivity. Qed.
Lemma max_with_enf e s : s_max (with_enf s e) = s_max s. Proof. reflexivity. Qed.
Lemma max_take_done t s : s_max (take_done t s) = s_max s. Proof. reflexivity. Qed.

Lemma cap_setx mb x s : s_cap (setx mb x s) = s_cap s. Proof. reflexivity. Qed.
Lemma cap_touch mb s : s_cap (touch mb s) = s_cap s.
Proof. unfold touch. now destruct (aget mb (s_boxes s)). Qed.

Lemma log_touch mb s : s_log (touch mb s) = s_log s.
Proof. unfold touch. now destruct (aget mb (s_boxes s)). Qed.

#[export] Hint Rewrite getx_setx_same getx_touch getx_setpc getx_addlog getx_with_enf getx_take_done
  thr_setx thr_touch thr_setpc thr_addlog thr_with_enf thr_take_done
  enf_setx enf_touch enf_setpc enf_addlog enf_with_enf
  max_setx max_touch max_setpc max_addlog max_with_enf max_take_done cap_setx cap_touch log_touch : sys.

(* ------------------------------------------------------------- reachability *)

Inductive reach (s0 : msys) : msys -> Prop :=
| reach_refl : reach s0 s0
| reach_step s s' w c : reach s0 s -> step s w c = SOk s' -> reach s0 s'.

Lemma run_from_reach s0 : forall sched n s,
  reach s0 s ->
  match run_from n s sched with
  | Fin s' => reach s0 s'
  | BlockedAt _ s' => reach s0 s'
  | CrashedAt _ s' => reach s0 s' /\ exists w c, step s' w c = SCrash
  end.
Proof.
  induction sched as [|[w c] rest IH]; intros n s R; cbn [run_from]; [exact R|].
  destruct (step s w c) as [s'| | |] eqn:E.
  - apply IH. eapply reach_step; eauto.
  - exact R.
  - apply IH; exact R.
  - split; [exact R|]. eauto.
Qed.

Lemma reach_ind_inv (P : msys -> Prop) s0 :
  P s0 -> (forall s s' w c, P s -> step s w c = SOk s' -> P s') -> forall s, reach s0 s -> P s.
Proof. intros H0 HS s R. induction R; eauto. Qed.

(* ------------------------------------------------- invariants for deadlock freedom *)

(** L: whoever holds a mailbox lock across scheduling points is parked at mem.add.visible. *)
Definition invL (s : msys) : Prop :=
  forall mb t, x_lock (getx mb s) = Some t -> exists nm, nth_error (s_thr s) t = Some (PAddVisible mb nm).

Definition waiting (p : pc) : bool :=
  match p with
  | PAddEvict _ _ _ _ true | PAddRegister _ _ true | PRemoveEnf _ _ true | PPurgeEnf _ _ _ true => true
  | _ => false
  end.
Definition waiter (e : epc) : option tid :=
  match e with
  | EIdle => None
  | EIncoming _ w | EEvict w | EEvLock _ w | ERemove _ w => Some w
  end.

(** D: a client that has sent its request either finds its done channel closed or is the one
    the enforcer is currently serving. *)
Definition invD (s : msys) : Prop :=
  forall t p, nth_error (s_thr s) t = Some p -> waiting p = true ->
    has_done t s = true \/ waiter (e_pc (s_enf s)) = Some t.

Lemma locked_false mb s : locked mb s = false -> x_lock (getx mb s) = None.
Proof. unfold locked. destruct (x_lock (getx mb s)); [discriminate | reflexivity]. Qed.

Lemma has_done_finish t w e s :
  has_done t (with_enf s (finish_enf w e)) = (Nat.eqb t w || existsb (Nat.eqb t) (e_done e))%bool.
Proof. reflexivity. Qed.

Lemma has_done_take t u s : t <> u -> has_done t (take_done u s) = has_done t s.
Proof.
  intros H. unfold has_done, take_done; cbn. induction (e_done (s_enf s)) as [|x l IH]; cbn; [reflexivity|].
  destruct (Nat.eqb u x) eqn:E; cbn.
  - apply Nat.eqb_eq in E; subst x. destruct (Nat.eqb t u) eqn:E2; [apply Nat.eqb_eq in E2; congruence|]. exact IH.
  - now rewrite IH.
Qed.

Ltac inv_ok H := injection H as H; subst.

Ltac case_mb mb0 mb :=
  destruct (N.eq_dec mb0 mb) as [->|?]; [rewrite ?getx_setx_same in * | rewrite ?getx_setx_other in * by assumption].

(** Case analysis of one client step [H : step_thr s t c = SOk s']. *)
Ltac split_step H :=
  repeat match type of H with
       | context [match ?o with OAdd _ _ _ => _ | _ => _ end] => destruct o
       | context [if locked ?mb ?ss then _ else _] => destruct (locked mb ss) eqn:Elk; [discriminate|]; apply locked_false in Elk
       | context [let '(_, _) := ?x in _] => destruct x eqn:?
       | context [match pick ?c ?l with _ => _ end] => destruct (pick c l) as [[? ?]|] eqn:?
       | context [match s_max ?ss with _ => _ end] => destruct (s_max ss) eqn:?
       | context [match box_remove ?a ?b with _ => _ end] => destruct (box_remove a b) as [? [?|]] eqn:?
       | context [match ?o with Some _ => _ | None => _ end] => is_var o; destruct o
       end;
  try (unfold enf_remove_step in H;
       try match goal with E : s_max _ = _ |- _ => rewrite ?E in H end;
       repeat match type of H with
       | context [if ?b then _ else _] => destruct b eqn:?; try discriminate
       end);
  try discriminate.

(** One client step preserves L. *)
Lemma invL_thr s t c s' : invL s -> step_thr s t c = SOk s' -> invL s'.
Proof.
  intros HL H. unfold step_thr in H.
  destruct (nth_error (s_thr s) t) as [p|] eqn:Ep; [|discriminate].
  pose proof (nth_error_lt _ _ _ Ep) as Hlt.
  (* generic closing tactic: the state is [.. setpc t p' ..] possibly with one setx *)
  assert (Hother : forall mb0 t0 nm, nth_error (s_thr s) t0 = Some (PAddVisible mb0 nm) ->
             (forall mb nm', p <> PAddVisible mb nm') -> t0 <> t).
  { intros mb0 t0 nm H0 Hp ->. rewrite Ep in H0. inversion H0. eapply Hp; eauto. }
  destruct p; try discriminate.
  all: split_step H.
  all: inv_ok H.
  all: intros mb0 t0 Hl; autorewrite with sys in *.
  all: try (match goal with
       | Hl : context [getx ?m0 (setx ?mb _ _)] |- _ => case_mb m0 mb
       end; autorewrite with sys in *; cbn [x_lock] in Hl; try discriminate).
  all: try (inv_ok Hl; rewrite nth_set_same by assumption; eexists; reflexivity).
  all: try (destruct (HL _ _ Hl) as [nm0 Hn];
            destruct (Nat.eq_dec t0 t) as [->|Hne];
            [ rewrite Ep in Hn; try discriminate | rewrite nth_set_other by congruence; eauto ]).
  all: try (inv_ok Hn; congruence).
Qed.

Lemma invL_enf s s' : invL s -> step_enf s = SOk s' -> invL s'.
Proof.
  intros HL H. unfold step_enf in H.
  destruct (s_max s) as [max|] eqn:Emax; [|discriminate].
  destruct (e_pc (s_enf s)) eqn:Epc; try discriminate.
  all: repeat match type of H with
       | context [if locked ?mb ?ss then _ else _] => destruct (locked mb ss) eqn:Elk; [discriminate|]; apply locked_false in Elk
       | context [if ?b then _ else _] => destruct b eqn:?
       | context [match e_all ?e with _ => _ end] => destruct (e_all e) eqn:?
       | context [match box_remove ?a ?b with _ => _ end] => destruct (box_remove a b) as [? [?|]] eqn:?
       end; try discriminate.
  all: inv_ok H.
  all: intros mb0 t0 Hl; autorewrite with sys in *.
  all: try (match goal with
       | Hl : context [getx ?m0 (setx ?mb _ _)] |- _ => case_mb m0 mb
       end; autorewrite with sys in *; cbn [x_lock] in Hl; try discriminate).
  all: eauto.
Qed.

Lemma invL_step s w c s' : invL s -> step s w c = SOk s' -> invL s'.
Proof. destruct w; cbn [step]; eauto using invL_thr, invL_enf. Qed.

(** C10 + C11 end to end: histories in which completed operations, crashed operations and reopens are
    interleaved, explained by an ordered map of mailboxes that never crashes and never restarts. *)
From IV Require Import Base.Bytes Base.BytesFacts Model.FileDisk Model.FileDiskCodec Proofs.FileDiskMap Proofs.FileDiskInv Proofs.FileDiskSteps Proofs.FileDiskOps Proofs.FileDiskCrash Proofs.FileDiskCodec Proofs.FileDiskWitness.
From Coq Require Import List NArith Bool Lia.
Import ListNotations.

(** * The ordered-map side: a mailbox is a list of (name, index entry, content) in arrival order *)
Definition amsg := (str * meta * option str)%type.
Definition aview := list amsg.
Definition astate := str -> option aview.          (* by mailbox directory; None never occurs on reachable states *)
Definition aeq (A B : astate) : Prop := forall h, A h = B h.

Definition v_meta (e : amsg) : meta := snd (fst e).

Fixpoint v_mark (id : str) (v : aview) : aview :=
  match v with
  | [] => []
  | (nm, m, c) :: r =>
      if str_eqb (m_id m) id then (nm, mkmeta (m_id m) (m_info m) (m_size m) true, c) :: r
      else (nm, m, c) :: v_mark id r
  end.

Fixpoint v_remove (id : str) (v : aview) : aview :=
  match v with
  | [] => []
  | (nm, m, c) :: r => if str_eqb (m_id m) id then r else (nm, m, c) :: v_remove id r
  end.

(** what a completed operation does to its mailbox — a function of the listing alone *)
Definition aexec_view (cap : nat) (o : op) (v : aview) : aview :=
  match o with
  | FileDisk.Add mb info body cands =>
      let v1 := skipn (evict_count cap (length v)) v in
      match pick_id cands (map v_meta v1) with
      | Some id => v1 ++ [(match v with (nm, _, _) :: _ => nm | [] => mb end, new_meta id info body, Some body)]
      | None => v1
      end
  | Seen _ id =>
      match find_id id (map v_meta v) with
      | Some m => if m_seen m then v else v_mark id v
      | None => v
      end
  | Remove _ id => if has_id id (map v_meta v) then v_remove id v else v
  | Purge _ => []
  end.

Lemma mkview_meta d h nm ms : map v_meta (mkview d h nm ms) = ms.
Proof. unfold mkview. rewrite map_map. simpl. apply map_id. Qed.

Lemma mkview_length d h nm ms : length (mkview d h nm ms) = length ms.
Proof. unfold mkview. apply map_length. Qed.

Lemma mkview_skipn d h nm ms j : skipn j (mkview d h nm ms) = mkview d h nm (skipn j ms).
Proof. unfold mkview. rewrite map_skipn. auto. Qed.

Lemma mkview_mark d h nm ms id : mkview d h nm (mark_seen id ms) = v_mark id (mkview d h nm ms).
Proof.
  induction ms as [|m r IH]; simpl; auto. destruct (str_eqb (m_id m) id); simpl; auto. f_equal. apply IH.
Qed.

Lemma mkview_remove d h nm ms id : mkview d h nm (remove_first id ms) = v_remove id (mkview d h nm ms).
Proof.
  induction ms as [|m r IH]; simpl; auto. destruct (str_eqb (m_id m) id); simpl; auto. f_equal. apply IH.
Qed.

Section History.
  Variable enc : index -> str.
  Variable dec : str -> option index.
  Hypothesis dec_enc : forall i, dec (enc i) = Some i.
  Variable hash : str -> str.
  Variable cap : nat.

  Notation Inv := (Inv dec).
  Notation view := (view dec).
  Notation steps := (steps enc dec hash cap).
  Notation exec := (exec enc dec hash cap).
  Notation reach := (reach enc dec hash cap).
  Notation mailbox_of := (mailbox_of hash).
  Notation evictions := (evictions dec hash cap).

  Definition abs (d : disk) : astate := fun h => view d h.

  Definition aexec (o : op) (A : astate) : astate :=
    fun h => if str_eqb h (mailbox_of o) then option_map (aexec_view cap o) (A h) else A h.

  (** the known two-commit window of a capped delivery: the j oldest messages are gone, nothing else *)
  Definition adrop (h0 : str) (j : nat) (A : astate) : astate :=
    fun h => if str_eqb h h0 then option_map (skipn j) (A h) else A h.

  Definition aevictions (o : op) (A : astate) : nat :=
    match o with
    | FileDisk.Add mb _ _ _ => match A (hash mb) with Some v => evict_count cap (length v) | None => O end
    | _ => O
    end.

  Lemma read_index_nil d h caller nm : Inv d -> read_index dec d h caller = Some (nm, []) -> nm = caller.
  Proof.
    intros HI H. pose proof (proj2 HI h) as HM. unfold MInv in HM. unfold read_index in H.
    destruct (lookup d (idx h)) as [[|b]|]; [discriminate| |inversion H; auto].
    destruct HM as [nm' [ms' [Hd [Hne _]]]]. rewrite Hd in H. inversion H; subst. congruence.
  Qed.

  (** a completed operation = the ordered-map operation *)
  Theorem exec_aexec d o v :
    Inv d -> view d (mailbox_of o) = Some v ->
    view (exec o d) (mailbox_of o) = Some (aexec_view cap o v) /\
    forall h, h <> mailbox_of o -> view (exec o d) h = view d h.
  Proof.
    intros HI Hv.
    destruct (read_index_ok dec d (mailbox_of o) (op_mailbox o) HI) as [nm [ms Hri]].
    destruct (exec_views enc dec dec_enc hash cap d o nm ms HI Hri) as [_ [_ [A B]]]. split; auto.
    assert (HL : Loaded dec d (mailbox_of o) nm ms) by (eapply read_index_Loaded; eauto; apply HI).
    rewrite (view_Loaded dec d _ nm ms HL) in Hv. inversion Hv; subst v. clear Hv.
    rewrite A. f_equal. unfold post_view, aexec_view.
    destruct o as [mb info body cands | mb id | mb id | mb]; unfold FileDiskOps.post_ms.
    - cbv zeta. rewrite mkview_length, mkview_skipn, mkview_meta.
      destruct (pick_id cands (skipn (evict_count cap (length ms)) ms)) as [id|]; auto.
      f_equal. f_equal. f_equal. f_equal.
      destruct ms as [|m0 r]; simpl; auto. unfold FileDiskCrash.mailbox_of in Hri. cbn [op_mailbox] in Hri.
      eapply read_index_nil; eauto.
    - rewrite mkview_meta. destruct (find_id id ms) as [m|]; auto. destruct (m_seen m); auto. apply mkview_mark.
    - rewrite mkview_meta. destruct (has_id id ms); auto. apply mkview_remove.
    - reflexivity.
  Qed.

  Lemma exec_abs d o : Inv d -> aeq (abs (exec o d)) (aexec o (abs d)).
  Proof.
    intros HI h. unfold abs, aexec.
    destruct (view d (mailbox_of o)) as [v|] eqn:Hv; [|exfalso; eapply (Inv_view dec); eauto].
    destruct (exec_aexec d o v HI Hv) as [A B].
    destruct (str_eqb h (mailbox_of o)) eqn:E.
    - apply str_eqb_eq in E; subst. rewrite A, Hv. reflexivity.
    - apply B. intros ->. rewrite str_eqb_refl in E. discriminate.
  Qed.

  Lemma evictions_abs d o : Inv d -> evictions o d = aevictions o (abs d).
  Proof.
    intros HI. unfold FileDiskCrash.evictions, aevictions, abs.
    destruct (read_index_ok dec d (mailbox_of o) (op_mailbox o) HI) as [nm [ms Hri]]. rewrite Hri.
    assert (HL : Loaded dec d (mailbox_of o) nm ms) by (eapply read_index_Loaded; eauto; apply HI).
    destruct o as [mb info body cands | mb id | mb id | mb]; simpl; auto.
    unfold FileDiskCrash.mailbox_of in HL. cbn [op_mailbox] in HL.
    rewrite (view_Loaded dec d _ nm ms HL). rewrite mkview_length. auto.
  Qed.

  (** * Histories with crashes and reopens *)
  Inductive citem :=
  | COp (o : op)                      (* the operation ran to completion *)
  | CCrash (o : op) (left : disk)     (* the operation was started and the process died; [left] is what it left *)
  | CReopen.                          (* the store is reopened (after a crash the process restarts: reopen) *)

  Inductive crun : disk -> list citem -> disk -> Prop :=
  | crun_nil d : crun d [] d
  | crun_op d o r d' : crun (exec o d) r d' -> crun d (COp o :: r) d'
  | crun_crash d o x r d' : crash_reach (steps o d) d x -> crun x r d' -> crun d (CCrash o x :: r) d'
  | crun_reopen d r d' : crun d r d' -> crun d (CReopen :: r) d'.

  (** the ordered map replaying the same history: a completed operation is applied; a reopen does nothing;
      a crashed operation is applied completely or not at all — or, for a delivery that evicts for the cap
      (open finding K-C11-evict-then-append), it has dropped 1..evictions of the oldest messages *)
  Inductive arun : astate -> list citem -> astate -> Prop :=
  | arun_nil A A' : aeq A' A -> arun A [] A'
  | arun_op A o B r A' : aeq B (aexec o A) -> arun B r A' -> arun A (COp o :: r) A'
  | arun_reopen A r A' : arun A r A' -> arun A (CReopen :: r) A'
  | arun_crash_none A o x B r A' : aeq B A -> arun B r A' -> arun A (CCrash o x :: r) A'
  | arun_crash_done A o x B r A' : aeq B (aexec o A) -> arun B r A' -> arun A (CCrash o x :: r) A'
  | arun_crash_evicted A o x j B r A' :
      (1 <= j <= aevictions o A)%nat -> aeq B (adrop (mailbox_of o) j A) -> arun B r A' ->
      arun A (CCrash o x :: r) A'.

  Lemma crun_reach d its d' : reach d -> crun d its d' -> reach d'.
  Proof.
    intros Hr H. induction H; auto.
    - apply IHcrun. apply exec_reach; auto.
    - apply IHcrun. eapply reach_step; eauto.
  Qed.

  Theorem crash_reopen_history_sec d its d' :
    reach d -> crun d its d' -> reach d' /\ arun (abs d) its (abs d').
  Proof.
    intros Hr H. split; [eapply crun_reach; eauto|].
    induction H as [d | d o r d' H IH | d o x r d' Hc H IH | d r d' H IH].
    - constructor. intros h; reflexivity.
    - pose proof (reach_Inv enc dec dec_enc hash cap d Hr) as HI.
      eapply arun_op; [apply exec_abs; auto | apply IH; apply exec_reach; auto].
    - pose proof (reach_Inv enc dec dec_enc hash cap d Hr) as HI.
      assert (Hrx : reach x) by (eapply reach_step; eauto).
      destruct (crash_atomic_capped enc dec dec_enc hash cap d o x Hr Hc) as [[j [Hj [Hv Ho]]]|Hall].
      + destruct j as [|j].
        * eapply arun_crash_none; [|apply IH; auto]. intros h. unfold abs.
          destruct (str_eqb h (mailbox_of o)) eqn:E.
          -- apply str_eqb_eq in E; subst. rewrite Hv. destruct (view d (mailbox_of o)); auto.
          -- apply Ho. intros ->. rewrite str_eqb_refl in E. discriminate.
        * eapply (arun_crash_evicted _ o x (S j)); [| |apply IH; auto].
          -- rewrite <- evictions_abs; auto. lia.
          -- intros h. unfold abs, adrop. destruct (str_eqb h (mailbox_of o)) eqn:E.
             ++ apply str_eqb_eq in E; subst. exact Hv.
             ++ apply Ho. intros ->. rewrite str_eqb_refl in E. discriminate.
      + eapply arun_crash_done; [|apply IH; auto]. intros h. unfold abs. rewrite Hall. apply exec_abs; auto.
    - apply arun_reopen. apply IH; auto.
  Qed.
End History.

(** After ANY history in which completed operations, operations killed at any crash point (between two
    file-system steps or inside one) and reopens are interleaved, the store — every mailbox's listing with
    ids, metadata, flags and content — is the state of an ordered map of mailboxes on which the completed
    operations were applied in order and each killed operation was applied completely or not at all; the one
    exception is the open finding: a delivery that evicts for the mailbox cap may have removed 1..evictions
    of the oldest messages without having delivered. The disk stays reachable, so all C10/C11 theorems
    (readable, visit complete, accepts mail, operations continue) apply to the result. *)
Theorem crash_reopen_history : forall (enc : index -> str) (dec : str -> option index), (forall i, dec (enc i) = Some i) ->
  forall (hash : str -> str) (cap : nat) (d : disk) (its : list citem) (d' : disk),
    reach enc dec hash cap d -> crun enc dec hash cap d its d' ->
    reach enc dec hash cap d' /\ arun hash cap (abs dec d) its (abs dec d').
Proof. intros. apply crash_reopen_history_sec; auto. Qed.

(** non-vacuity: deliver; a second delivery dies before its index commit (4 steps done); reopen; mark the first
    message seen: the history runs, and the ordered map explains it by skipping the killed delivery. *)
Definition h_crashed : disk :=
  match crash_disk 4 None (steps enc_index dec_index w_hash 0 w_add2 w_d0) w_d0 with Some x => x | None => [] end.

Example crash_reopen_history_example :
  exists d',
    crun enc_index dec_index w_hash 0 [] [COp w_add1; CCrash w_add2 h_crashed; CReopen; COp (Seen w_mb [105; 49])] d' /\
    view dec_index d' w_mb = Some [(w_mb, mkmeta [105; 49] [49] 2 true, Some [104; 105])] /\
    arun w_hash 0 (abs dec_index []) [COp w_add1; CCrash w_add2 h_crashed; CReopen; COp (Seen w_mb [105; 49])] (abs dec_index d').
Proof.
  assert (Hc : crun enc_index dec_index w_hash 0 []
                 [COp w_add1; CCrash w_add2 h_crashed; CReopen; COp (Seen w_mb [105; 49])]
                 (exec enc_index dec_index w_hash 0 (Seen w_mb [105; 49]) h_crashed)).
  { apply crun_op. apply (crun_crash _ _ _ _ (exec enc_index dec_index w_hash 0 w_add1 []) w_add2 h_crashed).
    - apply (crash_disk_reach 4 None). vm_compute. reflexivity.
    - apply crun_reopen. apply crun_op. apply crun_nil. }
  eexists. split; [exact Hc|]. split.
  - vm_compute. reflexivity.
  - exact (proj2 (crash_reopen_history enc_index dec_index dec_enc_index w_hash 0 [] _ _ (reach_init _ _ _ _) Hc)).
Qed.

(** C10: on every reachable disk a completed operation changes its mailbox exactly as the ordered-map
    operation [aexec_view] — a function of the listing alone (delivery: drop the cap evictions from the
    front, append the new message with its content; seen: flag the first message with the id; remove: drop
    it; purge: empty) — and no other mailbox. *)
Theorem ops_refine_ordered_map : forall (enc : index -> str) (dec : str -> option index), (forall i, dec (enc i) = Some i) ->
  forall (hash : str -> str) (cap : nat) (d : disk) (o : op) (v : aview),
    reach enc dec hash cap d -> view dec d (mailbox_of hash o) = Some v ->
    view dec (exec enc dec hash cap o d) (mailbox_of hash o) = Some (aexec_view cap o v) /\
    forall h, h <> mailbox_of hash o -> view dec (exec enc dec hash cap o d) h = view dec d h.
Proof. intros. apply exec_aexec; auto. eapply reach_Inv; eauto. Qed.

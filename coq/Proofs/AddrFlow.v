(** C04: the agreement of the receive side with every read entry point, over the flows the
    translator reads from the source (Gen/AddrFlows.v), in one theorem with exactly the guard
    that is needed; the refuted unguarded clause next to it; the pinned call structure. *)
From IV Require Import Base.Bytes Base.BytesFacts Model.Addr Model.IpLit Model.AddrFlow
  Proofs.AddrFacts Proofs.AddrScan Proofs.AddrDomain Proofs.AddrNaming Proofs.AddrReadSide Proofs.IpLit Proofs.AddrGo.

(** * The model's flows are the source's flows *)

(** NewRecipient's Mailbox expression, guard included, evaluates to the model's new_recipient;
    the RCPT handler calls it and Deliver stores under that field. *)
Theorem rcpt_flow_is_model parse_ip mode a :
  stored_in parse_ip mode a = option_map r_mailbox (new_recipient parse_ip mode a).
Proof.
  unfold stored_in, rcpt_name, new_recipient. cbn [rcpt_handler_calls_new_recipient deliver_uses_recipient_mailbox andb rcpt_guard_is_parse_email_address].
  destruct (parse_email_validated parse_ip a) as [[l d]|]; [|reflexivity].
  change (eval parse_ip mode rcpt_mailbox_expr a) with (extract_mailbox parse_ip mode a).
  destruct (extract_mailbox parse_ip mode a); reflexivity.
Qed.

Theorem mailbox_for_address_is_extract_mailbox parse_ip mode a :
  eval parse_ip mode (NCall NMailboxForAddress NArg) a = extract_mailbox parse_ip mode a.
Proof. reflexivity. Qed.

(** the shapes of the generated read entries: an HTTP entry goes through MailboxForAddress, a POP3 entry uses the string as it is *)
Definition entry_shape_ok (e : nexpr) : bool :=
  match e with
  | NArg => true
  | NCall NMailboxForAddress NArg => true
  | _ => false
  end.
Definition is_via (e : nexpr) : bool := match e with NCall NMailboxForAddress NArg => true | _ => false end.
Definition is_arg (e : nexpr) : bool := match e with NArg => true | _ => false end.

Lemma read_entries_shapes :
  forallb (fun p => entry_shape_ok (snd p)) read_entries
  && forallb (fun p => is_via (snd p)) (firstn read_entries_http read_entries)
  && forallb (fun p => is_arg (snd p)) (skipn read_entries_http read_entries)
  && Nat.eqb (length read_entries) (read_entries_http + read_entries_pop3)
  && negb (Nat.eqb read_entries_http 0) && negb (Nat.eqb read_entries_pop3 0)
  && pop3_loads_user_verbatim = true.
Proof. vm_compute. reflexivity. Qed.

Lemma entry_cases site e : In (site, e) read_entries -> e = NArg \/ e = NCall NMailboxForAddress NArg.
Proof.
  intros I. pose proof read_entries_shapes as S. do 6 (apply andb_true_iff in S as [S _]).
  rewrite forallb_forall in S. specialize (S _ I). cbn [snd] in S.
  destruct e as [|f x]; [left; reflexivity|]. destruct f; try discriminate. destruct x; [right; reflexivity | discriminate].
Qed.

(** * Receive side = read side, all naming modes, all entry points, with the guard that is needed *)
Theorem receive_read_agreement mode a n :
  stored_in go_parse_ip mode a = Some n ->
  forall site e, In (site, e) read_entries ->
    (* asking by the mailbox name reaches the mailbox through every entry point *)
    eval go_parse_ip mode e n = Some n /\
    (* asking by the address reaches it exactly when the entry point goes through the policy, or the address is its own name *)
    (eval go_parse_ip mode e a = Some n <-> (uses_policy e = true \/ n = a)).
Proof.
  intros S site e I. rewrite rcpt_flow_is_model in S.
  destruct (new_recipient go_parse_ip mode a) as [r|] eqn:R; [|discriminate]. cbn [option_map] in S. inversion S; subst n. clear S.
  destruct (entry_cases site e I) as [->| ->].
  - split; [reflexivity|]. cbn [eval eval_with uses_policy]. split.
    + intros H. right. congruence.
    + intros [H|H]; [discriminate | congruence].
  - rewrite !mailbox_for_address_is_extract_mailbox. split.
    + eapply name_fixed_point_go. exact R.
    + split; [intros _; left; reflexivity | intros _; eapply name_of_address; exact R].
Qed.

(** the unguarded clause of the property ("every read interface computes the name from the
    address") is refuted by an entry point the translator lists: POP3 USER *)
Theorem receive_read_agreement_unguarded_refuted :
  exists site e mode a n, In (site, e) read_entries /\ stored_in no_ip mode a = Some n /\ eval no_ip mode e a <> Some n.
Proof.
  assert (E : existsb (fun p => is_arg (snd p)) read_entries = true) by (vm_compute; reflexivity).
  apply existsb_exists in E as [[site e] [I A]]. cbn [snd] in A. destruct e; [|discriminate].
  exists site, NArg, Local, pop3_witness. eexists. split; [exact I|]. split; [vm_compute; reflexivity|]. vm_compute. discriminate.
Qed.

(** in local and domain naming the verbatim entry points never reach the mailbox by the address *)
Theorem verbatim_entry_never_by_address mode a n site :
  mode <> Full -> stored_in go_parse_ip mode a = Some n -> In (site, NArg) read_entries -> eval go_parse_ip mode NArg a <> Some n.
Proof.
  intros M S _. rewrite rcpt_flow_is_model in S.
  destruct (new_recipient go_parse_ip mode a) as [r|] eqn:R; [|discriminate]. cbn [option_map] in S. inversion S; subst n.
  cbn [eval eval_with]. intros H. inversion H as [E].
  destruct mode; [| congruence |].
  - destruct (pop3_user_by_address_never_local go_parse_ip a r R) as [N _]. congruence.
  - destruct (pop3_user_by_address_never_domain go_parse_ip a r R) as [N _]. congruence.
Qed.

(** * The call structure of the source *)

Definition S (l : list N) := l.
(** Model/Addr.v, by definition:
    new_recipient          = parse_email_validated ; extract_mailbox
    extract_mailbox        = (Domain) extract_domain_mailbox | parse_email ; parse_mailbox_name ; validate_domain ; canonical_domain
    extract_domain_mailbox = parse_email ; parse_mailbox_name ; validate_domain ; canonical_domain
    parse_email_validated  = parse_email ; validate_domain
    parse_email            = (strip_route, scan: no naming function)
    parse_mailbox_name     = lower
    validate_domain        = parse_ip
    canonical_domain       = lower (tag kept) | lower *)
Definition model_calls : list (list N * list (list N)) :=
  [ ([65;100;100;114;101;115;115;105;110;103;46;78;101;119;82;101;99;105;112;105;101;110;116],
       [[80;97;114;115;101;69;109;97;105;108;65;100;100;114;101;115;115]; [69;120;116;114;97;99;116;77;97;105;108;98;111;120]]);
    ([65;100;100;114;101;115;115;105;110;103;46;69;120;116;114;97;99;116;77;97;105;108;98;111;120],
       [[101;120;116;114;97;99;116;68;111;109;97;105;110;77;97;105;108;98;111;120]; [112;97;114;115;101;69;109;97;105;108;65;100;100;114;101;115;115];
        [112;97;114;115;101;77;97;105;108;98;111;120;78;97;109;101]; [86;97;108;105;100;97;116;101;68;111;109;97;105;110;80;97;114;116]; [99;97;110;111;110;105;99;97;108;68;111;109;97;105;110]]);
    ([101;120;116;114;97;99;116;68;111;109;97;105;110;77;97;105;108;98;111;120],
       [[112;97;114;115;101;69;109;97;105;108;65;100;100;114;101;115;115]; [112;97;114;115;101;77;97;105;108;98;111;120;78;97;109;101];
        [86;97;108;105;100;97;116;101;68;111;109;97;105;110;80;97;114;116]; [99;97;110;111;110;105;99;97;108;68;111;109;97;105;110]]);
    ([80;97;114;115;101;69;109;97;105;108;65;100;100;114;101;115;115],
       [[112;97;114;115;101;69;109;97;105;108;65;100;100;114;101;115;115]; [86;97;108;105;100;97;116;101;68;111;109;97;105;110;80;97;114;116]]);
    ([112;97;114;115;101;69;109;97;105;108;65;100;100;114;101;115;115], []);
    ([112;97;114;115;101;77;97;105;108;98;111;120;78;97;109;101], [[115;116;114;105;110;103;115;46;84;111;76;111;119;101;114]]);
    ([86;97;108;105;100;97;116;101;68;111;109;97;105;110;80;97;114;116], [[110;101;116;46;80;97;114;115;101;73;80]]);
    ([99;97;110;111;110;105;99;97;108;68;111;109;97;105;110], [[115;116;114;105;110;103;115;46;84;111;76;111;119;101;114]; [115;116;114;105;110;103;115;46;84;111;76;111;119;101;114]]);
    ([65;100;100;114;101;115;115;105;110;103;46;80;97;114;115;101;79;114;105;103;105;110], [[80;97;114;115;101;69;109;97;105;108;65;100;100;114;101;115;115]]) ].

Theorem addr_calls_pinned :
  addr_calls = model_calls /\
  rcpt_handler_calls_new_recipient = true /\
  rcpt_handler_policy_calls = [[78;101;119;82;101;99;105;112;105;101;110;116]] /\   (* NewRecipient only *)
  rcpt_handler_trim_cutset = [60;62;32] /\
  deliver_uses_recipient_mailbox = true /\
  rcpt_mailbox_expr = NCall NExtractMailbox NArg /\ rcpt_guard_is_parse_email_address = true /\
  mailbox_for_address_expr = NCall NExtractMailbox NArg /\
  pop3_loads_user_verbatim = true.
Proof. repeat split; reflexivity. Qed.

(** C05, the sender side in both directions (audit: at session level only "250 => the sender's domain matches no
    reject-origin pattern" was stated).  For a MAIL command in the state that accepts it, with no extension denying:
    it is answered 250 exactly when it parses, its SIZE parameter (if any) is within the int32 range and the message
    limit, and the sender's domain is accepted by the origin policy — or an extension explicitly allowed it. *)
From IV Require Import Base.Bytes Base.BytesFacts Model.Policy Model.Smtp.
From Coq Require Import ZifyBool ZifyNat Lia ZArith.

Definition size_within (c : scfg) (sz : size_param) : Prop :=
  match sz with
  | SzNone => True
  | SzBad => False
  | SzVal n => (n <= int32_max /\ n <= max_bytes c)%Z
  end.

Theorem mail_250_iff : forall c s p h s' r d,
  st s = READY -> step c s (L (Mail p h)) = Ok s' r d -> (forall cd t, h <> Deny cd t) ->
  (first_code r = 250%Z <->
   exists sz og, p = MParsed sz (Some og) /\ size_within c sz /\
                 (h = Allow \/ should_accept_origin (pol c) (o_domain og) = true)).
Proof.
  intros c s p h s' r d Hs H Hd. unfold step, step_ready in H. rewrite Hs in H. unfold step_mail_from in H.
  (* the last stage, shared by "no SIZE" and "SIZE within the limits" *)
  assert (Last : forall sz og, size_within c sz ->
    match h with
    | Deny code _ => Ok s (one code) []
    | _ => if match h with Allow => false | _ => true end && negb (should_accept_origin (pol c) (o_domain og))
           then Ok {| st := st s; from := Some og; rcpts := rcpts s; helo := helo s; tls := tls s |} (one 501) []
           else Ok (set_st {| st := st s; from := Some og; rcpts := rcpts s; helo := helo s; tls := tls s |} MAIL) (one 250) []
    end = Ok s' r d ->
    (first_code r = 250%Z <->
     exists sz' og', MParsed sz (Some og) = MParsed sz' (Some og') /\ size_within c sz' /\
                     (h = Allow \/ should_accept_origin (pol c) (o_domain og') = true))).
  { intros sz og Hw H0.
    destruct h as [| | |cd t]; [| | |exfalso; exact (Hd cd t eq_refl)]; cbn [andb] in H0.
    - destruct (should_accept_origin (pol c) (o_domain og)) eqn:Ea; cbn [negb] in H0; inversion H0; subst.
      + split; [intros _; exists sz, og; repeat split; auto|reflexivity].
      + split; [discriminate|intros (sz' & og' & Hp & _ & [Ha|Ha]); [discriminate Ha|inversion Hp; subst; congruence]].
    - destruct (should_accept_origin (pol c) (o_domain og)) eqn:Ea; cbn [negb] in H0; inversion H0; subst.
      + split; [intros _; exists sz, og; repeat split; auto|reflexivity].
      + split; [discriminate|intros (sz' & og' & Hp & _ & [Ha|Ha]); [discriminate Ha|inversion Hp; subst; congruence]].
    - inversion H0; subst. split; [intros _; exists sz, og; repeat split; auto|reflexivity]. }
  destruct p as [| |sz o].
  - inversion H; subst. split; [discriminate|intros (sz & og & Hp & _); discriminate Hp].
  - inversion H; subst. split; [discriminate|intros (sz & og & Hp & _); discriminate Hp].
  - destruct sz as [| |n].
    + destruct o as [og|]; [exact (Last SzNone og I H)|].
      inversion H; subst. split; [discriminate|intros (sz & og & Hp & _); discriminate Hp].
    + inversion H; subst. split; [discriminate|intros (sz & og & Hp & Hw & _); inversion Hp; subst; destruct Hw].
    + destruct (int32_max <? n)%Z eqn:E1.
      { inversion H; subst. split; [discriminate|intros (sz & og & Hp & Hw & _); inversion Hp; subst; cbn in Hw; lia]. }
      destruct (max_bytes c <? n)%Z eqn:E2.
      { inversion H; subst. split; [discriminate|intros (sz & og & Hp & Hw & _); inversion Hp; subst; cbn in Hw; lia]. }
      assert (Hw : size_within c (SzVal n)) by (cbn; lia).
      destruct o as [og|]; [exact (Last (SzVal n) og Hw H)|].
      inversion H; subst. split; [discriminate|intros (sz & og & Hp & _); discriminate Hp].
Qed.

(** The statement is not vacuous: a greeted session, a sender of an accepted domain. *)
Example mail_250_instance :
  let c := {| pol := load_cfg true [] [] true [] [] []; max_rcpt := 10; max_bytes := 1000; tls_enabled := false |} in
  let s := {| st := READY; from := None; rcpts := []; helo := [104]; tls := false |} in
  let og := {| o_addr := [97; 64; 98]; o_domain := [98] |} in
  exists s', step c s (L (Mail (MParsed (SzVal 500) (Some og)) NoAns)) = Ok s' [(250%Z, false)] [].
Proof. eexists. reflexivity. Qed.

(** C03, the cut clause: whatever byte offset a client disconnects at, the messages delivered
    are a prefix of those the whole dialogue would deliver - never a partial or phantom one. *)
From IV Require Import Base.Bytes Base.BytesFacts Model.Policy Model.Smtp Model.Dot Model.SmtpWire Proofs.SmtpInv Proofs.SmtpThms Proofs.DotCodec.
From Coq Require Import ZifyBool ZifyNat ZifyN Lia.

(** ** Line splitting and prefixes *)
Lemma split_lf_some : forall w l r, split_lf w = Some (l, r) -> w = l ++ LFb :: r /\ ~ In LFb l.
Proof.
  induction w as [|c w IH]; intros l r H; cbn in H; [discriminate|].
  destruct (c =? LFb) eqn:E.
  - apply N.eqb_eq in E. inversion H; subst. split; [reflexivity|intros []].
  - destruct (split_lf w) as [[l' r']|] eqn:S; [|discriminate]. inversion H; subst.
    destruct (IH _ _ eq_refl) as [-> Hn]. split; [reflexivity|].
    intros [Hc|Hin]; [apply N.eqb_neq in E; congruence|auto].
Qed.

Lemma split_lf_none : forall w, split_lf w = None <-> ~ In LFb w.
Proof.
  induction w as [|c w IH]; cbn; [tauto|].
  destruct (c =? LFb) eqn:E.
  - apply N.eqb_eq in E. subst. split; [discriminate|intros H; exfalso; apply H; auto].
  - apply N.eqb_neq in E. destruct (split_lf w) as [[l r]|].
    + split; [discriminate|]. intros H. exfalso. destruct IH as [_ IH2].
      assert (~ In LFb w) by (intro; apply H; auto). specialize (IH2 H0). discriminate.
    + split; [|reflexivity]. intros _ [Hc|Hin]; [congruence|]. apply IH in Hin; auto.
Qed.

Lemma split_lf_app : forall l r, ~ In LFb l -> split_lf (l ++ LFb :: r) = Some (l, r).
Proof.
  induction l as [|c l IH]; intros r Hn; cbn.
  - reflexivity.
  - assert (c <> LFb) by (intro; apply Hn; left; auto).
    destruct (c =? LFb) eqn:E; [apply N.eqb_eq in E; congruence|].
    rewrite IH by (intro; apply Hn; right; auto). reflexivity.
Qed.

Lemma read_line_shorter w l r : read_line w = Some (l, r) -> (length r < length w)%nat.
Proof.
  unfold read_line. destruct w as [|c w]; [discriminate|].
  destruct (split_lf (c :: w)) as [[l' r']|] eqn:S; intros H; inversion H; subst.
  - apply split_lf_some in S as [S _]. rewrite S, app_length. cbn. lia.
  - cbn. lia.
Qed.

(** ** The decoder on a prefix *)
Lemma dec_firstn_none : forall w st k, dec st w = None -> dec st (firstn k w) = None.
Proof.
  induction w as [|c w IH]; intros st k H; [destruct k; reflexivity|].
  destruct k as [|k]; [reflexivity|]. cbn [firstn]. cbn [dec] in H |- *.
  destruct st;
    repeat match type of H with
           | context [if ?b then _ else _] => destruct b
           end;
    try discriminate;
    try (match type of H with
         | emit _ (dec ?s w) = None => destruct (dec s w) as [[d' r']|] eqn:E; [discriminate|];
             rewrite (IH _ k E); reflexivity
         | dec ?s w = None => apply IH; exact H
         end).
Qed.

Lemma dec_firstn_ge : forall w st d r k, dec st w = Some (d, r) -> (length w - length r <= k)%nat ->
  dec st (firstn k w) = Some (d, firstn (k - (length w - length r)) r).
Proof.
  induction w as [|c w IH]; intros st d r k H Hk; [discriminate|].
  pose proof (dec_rest_len _ _ _ _ H) as Hlen. cbn [length] in *.
  destruct k as [|k]; [lia|]. cbn [firstn]. cbn [dec] in H |- *.
  destruct st;
    repeat match type of H with
           | context [if ?b then _ else _] => destruct b
           end;
    try (inversion H; subst; replace (S k - (S (length r) - length r))%nat with k by lia; reflexivity);
    try (match type of H with
         | emit _ (dec ?s w) = _ => destruct (dec s w) as [[d' r']|] eqn:E; [|discriminate];
             cbn [emit] in H; inversion H; subst;
             pose proof (dec_rest_len _ _ _ _ E);
             rewrite (IH _ _ _ k E) by lia; cbn [emit];
             replace (S k - (S (length w) - length r))%nat with (k - (length w - length r))%nat by lia; reflexivity
         | dec ?s w = _ =>
             pose proof (dec_rest_len _ _ _ _ H);
             rewrite (IH _ _ _ k H) by lia;
             replace (S k - (S (length w) - length r))%nat with (k - (length w - length r))%nat by lia; reflexivity
         end).
Qed.

(** ** Deliveries of the byte-level loop *)
Definition tail_del (fuel : nat) (c : scfg) (o : oracles) (s : session) (w : str) : list delivery :=
  deliveries_of (snd (fst (run_stream fuel c o s w))).

Lemma line_no_delivery c s l s' r d : step c s (L l) = Ok s' r d -> d = [].
Proof.
  intros H. destruct d as [|x d]; [reflexivity|].
  destruct (step_delivers c s (L l) s' r (x :: d) H ltac:(discriminate)) as [(b & h & k & Hb) _]. discriminate.
Qed.

Lemma step_eof_quits c s s' r d : step c s Eof = Ok s' r d -> st s' = QUIT /\ d = [].
Proof.
  unfold step. destruct (st s); intros H; inversion H; subst; auto.
Qed.

Lemma step_peof_quits c s s' r d : step c s (B PEof) = Ok s' r d -> st s' = QUIT /\ d = [].
Proof.
  unfold step, step_data. destruct (st s); intros H; inversion H; subst; auto.
Qed.

(** On an empty input the loop ends without delivering anything. *)
Lemma tail_del_nil fuel c o s : tail_del fuel c o s [] = [].
Proof.
  unfold tail_del. destruct fuel as [|f]; [reflexivity|]. cbn [run_stream].
  destruct (st s) eqn:Es; try reflexivity;
    unfold next_item; rewrite Es; cbn [dec read_line];
    match goal with
    | |- context [step c s ?it] => destruct (step c s it) as [s' r d| |] eqn:E; try reflexivity
    end;
    (apply step_eof_quits in E || apply step_peof_quits in E); destruct E as [Eq ->];
    destruct f as [|f]; cbn [run_stream]; rewrite ?Eq; reflexivity.
Qed.

(** A final line without LF is processed, delivers nothing, and then the input is empty. *)
Lemma tail_del_partial_line fuel c o s w :
  st s <> DATA -> ~ In LFb w -> tail_del fuel c o s w = [].
Proof.
  intros Hd Hn. destruct w as [|b w]; [apply tail_del_nil|].
  unfold tail_del. destruct fuel as [|f]; [reflexivity|]. cbn [run_stream].
  destruct (st s) eqn:Es; try reflexivity; try congruence;
    unfold next_item; rewrite Es; unfold read_line;
    (destruct (split_lf (b :: w)) as [[l r]|] eqn:S;
      [apply split_lf_some in S as [S _]; exfalso; apply Hn; rewrite S; apply in_or_app; right; left; reflexivity|]);
    match goal with
    | |- context [step c s ?it] => destruct (step c s it) as [s' r d| |] eqn:E; try reflexivity
    end;
    apply line_no_delivery in E; subst d;
    pose proof (tail_del_nil f c o s') as T; unfold tail_del in T;
    destruct (run_stream f c o s' []) as [[its tr] sf]; cbn [fst snd] in *;
    unfold deliveries_of in *; cbn [map concat snd app]; exact T.
Qed.

Lemma tail_del_S f c o s w :
  tail_del (S f) c o s w =
  match st s with
  | QUIT => []
  | _ => match step c s (fst (next_item o s w)) with
         | Ok s' r d => d ++ tail_del f c o s' (snd (next_item o s w))
         | _ => []
         end
  end.
Proof.
  unfold tail_del. cbn [run_stream].
  destruct (st s); try reflexivity;
    (destruct (next_item o s w) as [it rest]; cbn [fst snd];
     destruct (step c s it) as [s' r d| |]; try reflexivity;
     destruct (run_stream f c o s' rest) as [[its tr] sf]; reflexivity).
Qed.

Lemma in_firstn {A} (x : A) k l : In x (firstn k l) -> In x l.
Proof. revert l; induction k as [|k IH]; intros [|y l] H; cbn in *; try tauto. destruct H; auto. Qed.

(** One iteration on a prefix of the input: either the same item is consumed (and the rest is a
    prefix of the rest), or the cut run delivers nothing any more. *)
Lemma next_item_prefix c o s w k : st s <> QUIT ->
  (exists k', next_item o s (firstn k w) = (fst (next_item o s w), firstn k' (snd (next_item o s w)))) \/
  (forall f, tail_del f c o s (firstn k w) = []).
Proof.
  intros Hq. destruct (sstate_eqb (st s) DATA) eqn:Ed.
  - (* block mode *)
    assert (Es : st s = DATA) by (destruct (st s); try discriminate; reflexivity).
    unfold next_item. rewrite Es.
    destruct (dec BeginLine w) as [[body rest]|] eqn:D.
    + destruct (Nat.le_gt_cases (length w - length rest) k) as [Hk|Hk].
      * left. rewrite (dec_firstn_ge _ _ _ _ _ D Hk). eexists. reflexivity.
      * right. intros f. pose proof (truncated_is_none _ _ _ _ k D Hk) as T.
        destruct f as [|f]; [reflexivity|]. rewrite tail_del_S, Es. unfold next_item. rewrite Es, T. cbn [fst snd].
        destruct (step c s (B PEof)) as [s' r d| |] eqn:E; try reflexivity.
        apply step_peof_quits in E as [_ ->]. apply tail_del_nil.
    + left. rewrite (dec_firstn_none _ _ k D). exists 0%nat. reflexivity.
  - (* line mode *)
    assert (Hd : st s <> DATA) by (intro E; rewrite E in Ed; discriminate).
    assert (Hni : forall v, next_item o s v =
              match read_line v with Some (line, rest) => (L (classify o line), rest) | None => (Eof, []) end)
      by (intros v; unfold next_item; destruct (st s); try reflexivity; congruence).
    rewrite !Hni.
    destruct w as [|b w]; [left; exists 0%nat; rewrite firstn_nil; reflexivity|].
    unfold read_line at 2 3.
    destruct (split_lf (b :: w)) as [[l r]|] eqn:HS.
    + apply split_lf_some in HS as [HS Hl].
      destruct (Nat.le_gt_cases (S (length l)) k) as [Hk|Hk].
      * left. exists (k - S (length l))%nat. rewrite HS.
        replace (firstn k (l ++ LFb :: r)) with (l ++ LFb :: firstn (k - S (length l)) r).
        2:{ rewrite firstn_app. replace (firstn k l) with l by (symmetry; apply firstn_all2; lia).
            replace (k - length l)%nat with (S (k - S (length l))) by lia. reflexivity. }
        unfold read_line. destruct (l ++ LFb :: firstn (k - S (length l)) r) eqn:E0;
          [destruct l; discriminate|]. rewrite <- E0. rewrite split_lf_app by exact Hl. reflexivity.
      * right. intros f. apply tail_del_partial_line; [exact Hd|].
        rewrite HS. rewrite firstn_app. replace (k - length l)%nat with 0%nat by lia.
        cbn [firstn]. rewrite app_nil_r. intro Hin. apply in_firstn in Hin. auto.
    + right. intros f. apply tail_del_partial_line; [exact Hd|].
      intro Hin. apply in_firstn in Hin. apply split_lf_none in HS. auto.
Qed.

Theorem cut_prefix_fuel : forall fuel c o s w k,
  exists rest, tail_del fuel c o s w = tail_del fuel c o s (firstn k w) ++ rest.
Proof.
  induction fuel as [|f IH]; intros c o s w k; [exists []; reflexivity|].
  destruct (sstate_eqb (st s) QUIT) eqn:Eq.
  - assert (st s = QUIT) as Es by (destruct (st s); try discriminate; reflexivity).
    rewrite !tail_del_S, Es. exists []. reflexivity.
  - assert (st s <> QUIT) as Hq by (intro E; rewrite E in Eq; discriminate).
    destruct (next_item_prefix c o s w k Hq) as [[k' Hn]|Hz].
    + rewrite !tail_del_S. rewrite Hn. cbn [fst snd].
      destruct (st s); try (exists []; reflexivity);
        (destruct (step c s (fst (next_item o s w))) as [s' r d| |]; try (exists []; reflexivity);
         destruct (IH c o s' (snd (next_item o s w)) k') as [rest Hr]; exists rest;
         rewrite Hr, app_assoc; reflexivity).
    + rewrite (Hz (S f)). eexists. reflexivity.
Qed.

(** ** Fuel: [length w + 2] iterations always suffice *)
Lemma next_item_shorter o s w : w <> [] -> (length (snd (next_item o s w)) < length w)%nat.
Proof.
  intros Hw. unfold next_item.
  destruct (st s);
    try (destruct (read_line w) as [[l r]|] eqn:R; cbn [snd];
         [apply read_line_shorter in R; exact R|destruct w; [congruence|cbn; lia]]).
  destruct (dec BeginLine w) as [[b r]|] eqn:D; cbn [snd];
    [apply dec_rest_len in D; exact D|destruct w; [congruence|cbn; lia]].
Qed.

Lemma run_stream_quit f c o s w : st s = QUIT -> run_stream f c o s w = ([], [], s).
Proof. intros H. destruct f; cbn [run_stream]; [reflexivity|]. rewrite H. reflexivity. Qed.

Lemma next_item_nil_quits c o s s' r d :
  step c s (fst (next_item o s [])) = Ok s' r d -> st s' = QUIT.
Proof.
  unfold next_item. destruct (st s) eqn:Es; cbn [dec read_line fst]; intros H;
    first [apply step_eof_quits in H as [H _]; exact H | apply step_peof_quits in H as [H _]; exact H].
Qed.

Lemma fuel_irrelevant : forall f1 f2 c o s w,
  (length w + 2 <= f1)%nat -> (length w + 2 <= f2)%nat -> run_stream f1 c o s w = run_stream f2 c o s w.
Proof.
  induction f1 as [|f1 IH]; intros f2 c o s w H1 H2; [lia|].
  destruct f2 as [|f2]; [lia|]. cbn [run_stream].
  destruct (st s) eqn:Es; try reflexivity;
    (destruct (next_item o s w) as [it rest] eqn:N;
     destruct (step c s it) as [s' r d| |] eqn:E; try reflexivity;
     destruct w as [|b w];
     [assert (st s' = QUIT) as Q by (eapply next_item_nil_quits; rewrite N; exact E);
      rewrite !(run_stream_quit _ _ _ _ _ Q); reflexivity
     |pose proof (next_item_shorter o s (b :: w) ltac:(discriminate)) as Hs; rewrite N in Hs; cbn [snd] in Hs;
      rewrite (IH f2 c o s' rest) by (cbn [length] in *; lia); reflexivity]).
Qed.

(** The cut theorem: the messages delivered when the client disconnects after [k] bytes are a
    prefix of those the whole stream delivers. *)
Theorem cut_prefix : forall c o w k,
  exists rest,
    deliveries_of (snd (fst (run_bytes c o w))) =
    deliveries_of (snd (fst (run_bytes c o (firstn k w)))) ++ rest.
Proof.
  intros c o w k. unfold run_bytes.
  rewrite (fuel_irrelevant (length (firstn k w) + 2) (length w + 2) c o init (firstn k w)).
  - exact (cut_prefix_fuel (length w + 2) c o init w k).
  - lia.
  - rewrite firstn_length. lia.
Qed.

(** With C01's theorem: what is in the store after a cut is what the cut dialogue itself
    entitles - every acknowledged message, at most additionally the one whose data was complete. *)
Theorem cut_store_is_entitled : forall c o w k, no_extension o ->
  let tr := snd (fst (run_bytes c o (firstn k w))) in
  deliveries_of tr = entitled c None [] [] (dialogue tr).
Proof. intros c o w k H. apply delivery_exact_bytes. exact H. Qed.

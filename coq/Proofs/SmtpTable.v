(** The command words the byte-level model recognises are exactly the keys of the `commands`
    table in pkg/server/smtp/handler.go (read from the source by pins on every run). *)
From IV Require Import Base.Bytes Base.Regex Gen.SmtpRegex Model.Policy Model.Smtp Model.SmtpWire.

(** Every word [classify] compares the upper-cased command with, sorted as pins sorts. *)
Definition model_command_words : list str :=
  [w_AUTH; w_DATA; w_EHLO; w_EXPN; w_HELO; w_HELP; w_MAIL; w_NOOP; w_QUIT; w_RCPT; w_RSET;
   w_SAML; w_SEND; w_SOML; w_STARTTLS; w_TURN; w_VRFY].

Theorem command_table_pinned : model_command_words = command_table.
Proof. reflexivity. Qed.

(** A word outside the table is answered 500 "unrecognized" in every state that parses commands,
    and a word of the table never is: [classify] yields [Unknown] exactly off the table. *)
Theorem unknown_iff_off_table : forall o cmd arg line,
  parse_cmd line = CCmd cmd arg ->
  (classify o line = Unknown <-> mem_str cmd command_table = false).
Proof.
  intros o cmd arg line Hp. rewrite <- command_table_pinned. unfold classify. rewrite Hp.
  unfold model_command_words, mem_str. cbn [existsb].
  destruct (str_eqb cmd w_HELO) eqn:E1; [rewrite ?orb_true_r; split; [discriminate|cbn; rewrite ?orb_true_r; discriminate]|].
  destruct (str_eqb cmd w_EHLO) eqn:E2; [split; [discriminate|cbn; rewrite ?orb_true_r; discriminate]|].
  destruct (str_eqb cmd w_MAIL) eqn:E3.
  { split; [destruct (assoc arg (t_mail o)); discriminate|cbn; rewrite ?orb_true_r; discriminate]. }
  destruct (str_eqb cmd w_RCPT) eqn:E4.
  { split; [|cbn; rewrite ?orb_true_r; discriminate].
    destruct ((length arg <? 4)%nat || negb (str_eqb (upper (firstn 3 arg)) w_TO)); [discriminate|].
    destruct (assoc (trim is_rcpt_trim (skipn 3 arg)) (t_rcpt o)) as [[r|]|]; discriminate. }
  destruct (str_eqb cmd w_DATA) eqn:E5; [split; [discriminate|cbn; rewrite ?orb_true_r; discriminate]|].
  destruct (str_eqb cmd w_RSET) eqn:E6; [split; [discriminate|cbn; rewrite ?orb_true_r; discriminate]|].
  destruct (str_eqb cmd w_NOOP) eqn:E7; [split; [discriminate|cbn; rewrite ?orb_true_r; discriminate]|].
  destruct (str_eqb cmd w_QUIT) eqn:E8; [split; [discriminate|cbn; rewrite ?orb_true_r; discriminate]|].
  destruct (str_eqb cmd w_VRFY) eqn:E9; [split; [discriminate|cbn; rewrite ?orb_true_r; discriminate]|].
  destruct (str_eqb cmd w_SEND) eqn:E10; [split; [discriminate|cbn; rewrite ?orb_true_r; discriminate]|].
  destruct (str_eqb cmd w_SOML) eqn:E11; [split; [discriminate|cbn; rewrite ?orb_true_r; discriminate]|].
  destruct (str_eqb cmd w_SAML) eqn:E12; [split; [discriminate|cbn; rewrite ?orb_true_r; discriminate]|].
  destruct (str_eqb cmd w_EXPN) eqn:E13; [split; [discriminate|cbn; rewrite ?orb_true_r; discriminate]|].
  destruct (str_eqb cmd w_HELP) eqn:E14; [split; [discriminate|cbn; rewrite ?orb_true_r; discriminate]|].
  destruct (str_eqb cmd w_TURN) eqn:E15; [split; [discriminate|cbn; rewrite ?orb_true_r; discriminate]|].
  cbn [orb].
  destruct (str_eqb cmd w_STARTTLS) eqn:E16; [split; [discriminate|cbn; rewrite ?orb_true_r; discriminate]|].
  destruct (str_eqb cmd w_AUTH) eqn:E17; [split; [discriminate|cbn; rewrite ?orb_true_r; discriminate]|].
  split; [intros _; reflexivity|reflexivity].
Qed.

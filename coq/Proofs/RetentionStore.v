(** C12 over C07's store: a retention scan is a run of StoreSpec operations — one [Lst] per
    mailbox of the walk (the snapshot VisitMailboxes hands to the callback) followed by one
    [Remove (Kth k)] per expired entry of that snapshot — so, by C07's refinement theorems, the
    scan's removals and the listing afterwards are the same over the memory-store model, the
    file-store model and StoreSpec. *)
From Coq Require Import List Arith Lia ZArith.
From IV Require Import Base.Bytes Base.BytesFacts Model.StoreSpec Model.StoreSpecImpl Model.MemStore Model.FileStore Model.Retention Model.RetentionLoop Proofs.StoreSpecFacts Proofs.StoreSpecLimits Proofs.MemStoreLimits Proofs.MemStoreRefine Proofs.FileStoreRefine Proofs.Retention.
Import ListNotations.

(** The removals the callback issues for one snapshot. *)
Definition snapshot_ops (cutoff : Z) (mb : str) (snap : list view) : list op :=
  map (fun v => Remove mb (Kth (fst v))) (filter (fun v => expired cutoff (snd v)) snap).

(** The operations of a whole scan, in order. *)
Fixpoint scan_ops (cfg : scfg) (cutoff : Z) (order : list str) (st : spec_store) : list op :=
  match order with
  | [] => []
  | mb :: r =>
      Lst mb :: snapshot_ops cutoff mb (snapshot st mb) ++
      scan_ops cfg cutoff r (scan_snapshot cfg cutoff mb (snapshot st mb) st)
  end.

Lemma final_spec_app cfg : forall a st b, final_spec cfg st (a ++ b) = final_spec cfg (final_spec cfg st a) b.
Proof.
  induction a as [|o a IH]; intros st b; [reflexivity|]. cbn [app final_spec].
  destruct (exec_spec cfg st o) as [[st' ob] ev]. apply IH.
Qed.

Lemma scan_snapshot_ops cfg cutoff mb snap : forall st,
  scan_snapshot cfg cutoff mb snap st = final_spec cfg st (snapshot_ops cutoff mb snap).
Proof.
  induction snap as [|v snap IH]; intros st; [reflexivity|].
  rewrite scan_snapshot_cons. unfold snapshot_ops. cbn [filter]. destruct (expired cutoff (snd v)).
  - cbn [map final_spec]. unfold do_remove. destruct (exec_spec cfg st (Remove mb (Kth (fst v)))) as [[st' ob] ev].
    cbn [fst]. apply IH.
  - apply IH.
Qed.

(** The listing the scanner is handed for a mailbox is StoreSpec's answer to [Lst]. *)
Lemma snapshot_is_lst cfg st mb : exec_spec cfg st (Lst mb) = (st, OList (snapshot st mb), []).
Proof. reflexivity. Qed.

(** scan_over_storespec: the scan is the run of its operation list. *)
Theorem scan_over_storespec cfg cutoff order : forall st,
  scan cfg cutoff order st = final_spec cfg st (scan_ops cfg cutoff order st).
Proof.
  induction order as [|mb r IH]; intros st; [reflexivity|].
  rewrite scan_cons. cbn [scan_ops final_spec]. rewrite snapshot_is_lst.
  rewrite final_spec_app, <- scan_snapshot_ops. apply IH.
Qed.

(** Every operation of a scan is a listing or the removal of one message by its handle. *)
Lemma scan_ops_shape cfg cutoff order : forall st o, In o (scan_ops cfg cutoff order st) ->
  (exists mb, o = Lst mb) \/ (exists mb k, o = Remove mb (Kth k)).
Proof.
  induction order as [|mb r IH]; intros st o H; [destruct H|]. cbn [scan_ops] in H.
  destruct H as [<-|H]; [left; eauto|]. apply in_app_or in H as [H|H]; [|eapply IH; eauto].
  unfold snapshot_ops in H. apply in_map_iff in H as [v [<- _]]. right; eauto.
Qed.

(** scan_over_store_models: for every operation history from the empty store, a scan of the
    resulting store and a listing afterwards: the scan leaves the store [scan_exact] describes,
    the listing answers exactly the messages not older than the cutoff, and on that very
    operation list (history, the scan's listings and removals, the final listing) the
    memory-store model and — under C07's environment hypothesis — the file-store model answer
    what StoreSpec answers. *)
Theorem scan_over_store_models cfg cutoff order ops mb :
  let st := final_spec cfg spec_init ops in
  let sops := scan_ops cfg cutoff order st in
  let all := ops ++ sops ++ [Lst mb] in
  scan cfg cutoff order st = final_spec cfg spec_init (ops ++ sops) /\
  (exists pre, run_spec cfg spec_init all = pre ++
     [(OList (map view_of (if mem_str mb order
                           then filter (fun e => negb (expired cutoff (e_msg e))) (box mb (live st))
                           else box mb (live st))), [])]) /\
  run_mem cfg all = run_spec cfg spec_init all /\
  (forall ticks, c_max cfg = 0%N -> file_fresh cfg (file_init ticks, []) all ->
     run_file cfg ticks all = run_spec cfg spec_init all).
Proof.
  cbv zeta. split; [rewrite final_spec_app; apply scan_over_storespec|]. split.
  - exists (run_spec cfg spec_init (ops ++ scan_ops cfg cutoff order (final_spec cfg spec_init ops))).
    rewrite app_assoc, run_spec_app. f_equal.
    rewrite final_spec_app, <- scan_over_storespec. cbn [run_spec exec_spec]. 
    rewrite scan_exact by (apply final_spec_SInv; apply SInv_init). reflexivity.
  - split; [apply mem_refines_spec|]. intros ticks Hm Hf. apply file_refines_spec; assumption.
Qed.

(** Non-vacuity. *)
Example scan_ops_ex :
  let cfg := {| c_cap := 0; c_max := 0%N |} in
  let ops := [Add [97%N] (-50)%Z 0%N 0%N; Add [97%N] (-5)%Z 1%N 0%N; Add [98%N] (-70)%Z 2%N 0%N] in
  scan_ops cfg (-10)%Z [[98%N]; [97%N]] (final_spec cfg spec_init ops) =
  [Lst [98%N]; Remove [98%N] (Kth 0); Lst [97%N]; Remove [97%N] (Kth 0)].
Proof. reflexivity. Qed.

(* ------------------------------------------------------------------ the run loop *)


(** The store operations of one scanner move: the listing when a callback starts, the removal
    of an expired snapshot entry. *)
Definition sc_ops (cutoff : Z) (s : sys) : list op :=
  match s_phase s with
  | PIdle => match s_todo s with mb :: _ => [Lst mb] | [] => [] end
  | PBox mb (v :: _) => if expired cutoff (snd v) then [Remove mb (Kth (fst v))] else []
  | _ => []
  end.

Lemma sc_step_ops cfg cutoff tf s : s_st (sc_step cfg cutoff tf s) = final_spec cfg (s_st s) (sc_ops cutoff s).
Proof.
  unfold sc_step, sc_ops. destruct (s_phase s) as [|mb [|v rest]|b]; try reflexivity.
  - destruct (s_todo s); reflexivity.
  - destruct (s_cancel s && negb tf); reflexivity.
  - destruct (expired cutoff (snd v)); [|reflexivity]. cbn [s_st final_spec]. unfold do_remove.
    destruct (exec_spec cfg (s_st s) (Remove mb (Kth (fst v)))) as [[st' ob] ev]. reflexivity.
Qed.

(** The store operations of one event of the run loop. *)
Definition lev_ops (y : lstate) (e : lev) : list op :=
  match e with
  | LOp o => [o]
  | LStep _ =>
      match l_mode y with
      | LScan c => match is_done (s_phase (l_sys y)) with Some _ => [] | None => sc_ops c (l_sys y) end
      | _ => []
      end
  | _ => []
  end.

Fixpoint loop_ops cfg period enum (y : lstate) (evs : list lev) : list op :=
  match evs with
  | [] => []
  | e :: r => lev_ops y e ++ loop_ops cfg period enum (lev_step cfg period enum y e) r
  end.

Lemma lev_step_ops cfg period enum y e :
  s_st (l_sys (lev_step cfg period enum y e)) = final_spec cfg (s_st (l_sys y)) (lev_ops y e).
Proof.
  destruct e as [d| |o|tf]; cbn [lev_step lev_ops]; try reflexivity.
  - cbn [with_sys l_sys ev_step s_st final_spec]. destruct (exec_spec cfg (s_st (l_sys y)) o) as [[st' ob] ev]. reflexivity.
  - unfold loop_step. destruct (l_mode y); try reflexivity.
    + destruct (s_cancel (l_sys y) && _); [reflexivity|]. destruct (_ <=? _)%Z; reflexivity.
    + destruct (is_done (s_phase (l_sys y))); [reflexivity|]. cbn [l_sys]. apply sc_step_ops.
    + destruct (s_cancel (l_sys y)); reflexivity.
Qed.

(** loop_over_storespec: whatever the schedule, the store of the run loop is the run of the
    operations the other clients and the scans issued, in the order of the schedule. *)
Theorem loop_over_storespec cfg period enum evs : forall y,
  s_st (l_sys (lrun cfg period enum y evs)) = final_spec cfg (s_st (l_sys y)) (loop_ops cfg period enum y evs).
Proof.
  induction evs as [|e r IH]; intros y; [reflexivity|].
  change (lrun cfg period enum y (e :: r)) with (lrun cfg period enum (lev_step cfg period enum y e) r).
  cbn [loop_ops]. rewrite final_spec_app, <- (lev_step_ops cfg period enum). apply IH.
Qed.

(** …and so over both store models: Start entered on the store an operation history built. *)
Theorem loop_over_store_models cfg period enum now ops evs :
  let y0 := linit period now (final_spec cfg spec_init ops) in
  let all := ops ++ loop_ops cfg period enum y0 evs in
  s_st (l_sys (lrun cfg period enum y0 evs)) = final_spec cfg spec_init all /\
  run_mem cfg all = run_spec cfg spec_init all /\
  (forall ticks, c_max cfg = 0%N -> file_fresh cfg (file_init ticks, []) all ->
     run_file cfg ticks all = run_spec cfg spec_init all).
Proof.
  cbv zeta. split.
  - rewrite loop_over_storespec, final_spec_app. reflexivity.
  - split; [apply mem_refines_spec|]. intros ticks Hm Hf. apply file_refines_spec; assumption.
Qed.

(* ------------------------------------------------------------------ the user-level statement *)

(** retention_user_level: what an operator relies on. Take ANY history of store operations from
    the empty store (deliveries with cap evictions and size-limit evictions, removals, purges,
    mark-seen, listings) under any configuration, let a retention scan walk the mailboxes the
    store itself enumerates, and list any mailbox afterwards:
      - the listing holds exactly the messages of that mailbox whose date is not before the
        cutoff, in arrival order, with their content, flags and sizes untouched;
      - the scan touched nothing but message presence (add counters, hence future ids, unchanged)
        and the per-mailbox cap still holds;
      - the memory-store model and — for c_max = 0 under C07's environment hypothesis — the
        file-store model answer every operation of history + scan + listing exactly as StoreSpec. *)
Theorem retention_user_level cfg cutoff ops mb :
  let st := final_spec cfg spec_init ops in
  let sops := scan_ops cfg cutoff (map fst (spec_visit st)) st in
  let st' := final_spec cfg spec_init (ops ++ sops) in
  let all := ops ++ sops ++ [Lst mb] in
  box mb (live st') = filter (fun e => negb (expired cutoff (e_msg e))) (box mb (live st)) /\
  counts st' = counts st /\
  (c_cap cfg <> 0%nat -> (length (box mb (live st')) <= c_cap cfg)%nat) /\
  (exists pre, run_spec cfg spec_init all = pre ++
     [(OList (map view_of (filter (fun e => negb (expired cutoff (e_msg e))) (box mb (live st)))), [])]) /\
  run_mem cfg all = run_spec cfg spec_init all /\
  (forall ticks, c_max cfg = 0%N -> file_fresh cfg (file_init ticks, []) all ->
     run_file cfg ticks all = run_spec cfg spec_init all).
Proof.
  cbv zeta.
  set (st := final_spec cfg spec_init ops).
  assert (S : SInv st) by (apply final_spec_SInv; apply SInv_init).
  assert (E : final_spec cfg spec_init (ops ++ scan_ops cfg cutoff (map fst (spec_visit st)) st)
              = scan cfg cutoff (map fst (spec_visit st)) st)
    by (rewrite final_spec_app; symmetry; apply scan_over_storespec).
  rewrite E. split; [apply scan_exact_all; exact S|]. split; [apply scan_counts|]. split.
  - intros Hc. rewrite scan_exact_all by exact S.
    pose proof (StoreSpecLimits.cap_bound cfg ops mb Hc) as B. fold st in B.
    eapply Nat.le_trans; [|exact B]. clear. induction (box mb (live st)) as [|e l IH]; [apply le_n|].
    cbn [filter]. destruct (young cutoff e); cbn [length]; lia.
  - split.
    + exists (run_spec cfg spec_init (ops ++ scan_ops cfg cutoff (map fst (spec_visit st)) st)).
      rewrite app_assoc, run_spec_app. f_equal. rewrite E. cbn [run_spec exec_spec].
      rewrite scan_exact_all by exact S. reflexivity.
    + split; [apply mem_refines_spec|]. intros ticks Hm Hf. apply file_refines_spec; assumption.
Qed.

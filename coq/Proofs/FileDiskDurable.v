(** C10: the file store across reopens and restarts. The store object of the real code keeps no
    mailbox state between calls (each call builds a fresh mbox and re-reads the index); in the model
    this is the fact that every operation is a function of the disk alone, so a reopen is the
    identity on the only state there is. *)
From IV Require Import Base.Bytes Base.BytesFacts Model.FileDisk Proofs.FileDiskMap Proofs.FileDiskInv Proofs.FileDiskSteps Proofs.FileDiskOps Proofs.FileDiskCrash.
From Coq Require Import List NArith Bool Lia.
Import ListNotations.

Section Durable.
  Variable enc : index -> str.
  Variable dec : str -> option index.
  Hypothesis dec_enc : forall i, dec (enc i) = Some i.
  Variable hash : str -> str.
  Variable cap : nat.

  Notation Inv := (Inv dec).
  Notation view := (view dec).
  Notation steps := (steps enc dec hash cap).
  Notation exec := (exec enc dec hash cap).
  Notation result_of := (result_of dec hash cap).
  Notation reach := (reach enc dec hash cap).
  Notation mailbox_of := (mailbox_of hash).
  Notation post_view := (post_view cap).
  Notation ids := (map m_id).

  (** a history: operations and reopen points (in-process reopen or process restart: both discard
      everything but the disk; the id candidates of later deliveries are inputs of those operations) *)
  Inductive item := IOp (o : op) | IReopen | IVisit.

  Definition run_item (d : disk) (it : item) : disk :=
    match it with IOp o => exec o d | IReopen => d | IVisit => d end.

  (** what a client observes: the result of an operation together with the whole disk after it (hence
      every listing and content), and what a VisitMailboxes walk — the retention scanner's view —
      returns: it is computed from the disk alone *)
  Inductive obs :=
  | ObsOp (r : result) (d : disk)
  | ObsVisit (v : option (list (list (str * meta * option str)))).

  Definition run_items (d : disk) (its : list item) : disk := fold_left run_item its d.

  (** everything a client can observe along the history: the result of each operation and, after each
      item, the whole disk (hence every listing, every content, the visit walk) *)
  Fixpoint observations (d : disk) (its : list item) : list obs :=
    match its with
    | [] => []
    | IOp o :: r => ObsOp (result_of o d) (exec o d) :: observations (exec o d) r
    | IReopen :: r => observations d r
    | IVisit :: r => ObsVisit (FileDisk.visit dec d) :: observations d r
    end.

  Definition strip (its : list item) : list item :=
    filter (fun it => match it with IReopen => false | _ => true end) its.

  Theorem reopen_transparent its : forall d,
    run_items d its = run_items d (strip its) /\ observations d its = observations d (strip its).
  Proof.
    induction its as [|[o| |] r IH]; intros d; simpl; auto.
    - destruct (IH (exec o d)) as [A B]. split; auto. f_equal; auto.
    - destruct (IH d) as [A B]. split; auto. f_equal; auto.
  Qed.

  Lemma run_items_reach its : forall d, reach d -> reach (run_items d its).
  Proof.
    induction its as [|[o| |] r IH]; intros d Hr; simpl; auto.
    apply IH. apply exec_reach; auto.
  Qed.

  (** ** ops_continue *)
  Lemma post_view_cap d mb info body cands h nm ms :
    cap <> O -> (length (post_view d (FileDisk.Add mb info body cands) h nm ms) <= cap)%nat.
  Proof.
    intros Hc. unfold FileDiskCrash.post_view.
    assert (L : (length (skipn (evict_count cap (length ms)) ms) < cap)%nat).
    { rewrite skipn_length. destruct cap as [|c]; [congruence|].
      change (evict_count (S c) (length ms)) with (if Nat.leb (S c) (length ms) then S (length ms - S c) else 0%nat).
      destruct (Nat.leb (S c) (length ms)) eqn:E; [apply Nat.leb_le in E | apply Nat.leb_gt in E]; lia. }
    destruct (pick_id cands (skipn (evict_count cap (length ms)) ms)).
    - rewrite app_length. unfold mkview. rewrite map_length. simpl. lia.
    - unfold mkview. rewrite map_length. lia.
  Qed.

  Theorem ops_continue d its o :
    reach d ->
    let d1 := run_items d its in
    exists nm ms,
      read_index dec d1 (mailbox_of o) (op_mailbox o) = Some (nm, ms) /\
      run (steps o d1) d1 = Some (exec o d1) /\ reach (exec o d1) /\
      view (exec o d1) (mailbox_of o) = Some (post_view d1 o (mailbox_of o) nm ms) /\
      (forall h, h <> mailbox_of o -> view (exec o d1) h = view d1 h) /\
      (cap <> O -> forall mb info body cands, o = FileDisk.Add mb info body cands ->
         (length (post_view d1 o (mailbox_of o) nm ms) <= cap)%nat).
  Proof.
    intros Hr d1. assert (Hr1 : reach d1) by (apply run_items_reach; auto).
    pose proof (reach_Inv enc dec dec_enc hash cap d1 Hr1) as HI.
    destruct (read_index_ok dec d1 (mailbox_of o) (op_mailbox o) HI) as [nm [ms Hri]].
    destruct (exec_views enc dec dec_enc hash cap d1 o nm ms HI Hri) as [R [_ [A B]]].
    exists nm, ms. repeat split; auto.
    - apply exec_reach; auto.
    - intros Hc mb info body cands ->. apply post_view_cap; auto.
  Qed.

  (** ** removed_stay_gone *)
  Definition view_ids (d : disk) (h : str) : list str :=
    match view d h with Some v => map (fun e => m_id (snd (fst e))) v | None => [] end.

  Lemma view_ids_mkview d h nm ms : map (fun e : str * meta * option str => m_id (snd (fst e))) (mkview d h nm ms) = ids ms.
  Proof. unfold mkview. rewrite map_map. simpl. auto. Qed.

  Lemma ids_grow_only_by_add d o h x :
    reach d -> In x (view_ids (exec o d) h) ->
    In x (view_ids d h) \/ (h = mailbox_of o /\ result_of o d = RId x).
  Proof.
    intros Hr Hin. pose proof (reach_Inv enc dec dec_enc hash cap d Hr) as HI.
    destruct (read_index_ok dec d (mailbox_of o) (op_mailbox o) HI) as [nm [ms Hri]].
    destruct (exec_views enc dec dec_enc hash cap d o nm ms HI Hri) as [_ [_ [A B]]].
    assert (HL : Loaded dec d (mailbox_of o) nm ms) by (eapply read_index_Loaded; eauto; apply HI).
    destruct (str_eqb h (mailbox_of o)) eqn:E.
    - apply str_eqb_eq in E; subst h.
      assert (Vd : view_ids d (mailbox_of o) = ids ms).
      { unfold view_ids. rewrite (view_Loaded dec d _ nm ms HL). apply view_ids_mkview. }
      unfold view_ids in Hin. rewrite A in Hin. rewrite Vd.
      unfold FileDisk.result_of. unfold FileDiskCrash.mailbox_of in *. rewrite Hri.
      unfold FileDiskCrash.post_view in Hin.
      destruct o as [mb info body cands | mb id | mb id | mb]; cbn [op_mailbox] in *.
      + destruct (pick_id cands (skipn (evict_count cap (length ms)) ms)) as [id|].
        * rewrite map_app, view_ids_mkview in Hin. apply in_app_or in Hin. destruct Hin as [Hin|[<-|[]]].
          -- left. rewrite map_skipn in Hin. eapply In_skipn; eauto.
          -- right. auto.
        * rewrite view_ids_mkview in Hin. left. rewrite map_skipn in Hin. eapply In_skipn; eauto.
      + rewrite view_ids_mkview in Hin. left. unfold FileDiskOps.post_ms in Hin.
        destruct (find_id id ms) as [m|]; auto. destruct (m_seen m); auto. rewrite mark_seen_ids in Hin; auto.
      + rewrite view_ids_mkview in Hin. left. unfold FileDiskOps.post_ms in Hin.
        destruct (has_id id ms); auto. apply in_map_iff in Hin. destruct Hin as [m [<- Hm]].
        apply in_map. eapply remove_first_In; eauto.
      + rewrite view_ids_mkview in Hin. destruct Hin.
    - left. unfold view_ids in *. rewrite B in Hin; auto. intros ->. rewrite str_eqb_refl in E. discriminate.
  Qed.

  Lemma remove_gone d mb id :
    reach d -> ~ In id (view_ids (exec (Remove mb id) d) (hash mb)).
  Proof.
    intros Hr. pose proof (reach_Inv enc dec dec_enc hash cap d Hr) as HI.
    set (o := Remove mb id).
    destruct (read_index_ok dec d (mailbox_of o) (op_mailbox o) HI) as [nm [ms Hri]].
    destruct (exec_views enc dec dec_enc hash cap d o nm ms HI Hri) as [_ [_ [A _]]].
    assert (HL : Loaded dec d (mailbox_of o) nm ms) by (eapply read_index_Loaded; eauto; apply HI).
    destruct (Loaded_facts dec d _ nm ms (proj2 HI _) HL) as [Hnd _].
    unfold view_ids. unfold FileDiskCrash.mailbox_of in A. cbn [op_mailbox o] in A. rewrite A.
    unfold FileDiskCrash.post_view, o, FileDiskOps.post_ms. rewrite view_ids_mkview.
    destruct (has_id id ms) eqn:E.
    - apply remove_first_NoDup; auto.
    - intros Hin. apply has_id_In in Hin. congruence.
  Qed.

  Lemma purge_gone d mb : reach d -> view_ids (exec (Purge mb) d) (hash mb) = [].
  Proof.
    intros Hr. pose proof (reach_Inv enc dec dec_enc hash cap d Hr) as HI.
    set (o := Purge mb).
    destruct (read_index_ok dec d (mailbox_of o) (op_mailbox o) HI) as [nm [ms Hri]].
    destruct (exec_views enc dec dec_enc hash cap d o nm ms HI Hri) as [_ [_ [A _]]].
    unfold view_ids. unfold FileDiskCrash.mailbox_of in A. cbn [op_mailbox o] in A. rewrite A. reflexivity.
  Qed.

  (** no later delivery to the mailbox is given the id again *)
  Fixpoint never_reissued (id h : str) (d : disk) (its : list item) : Prop :=
    match its with
    | [] => True
    | IReopen :: r | IVisit :: r => never_reissued id h d r
    | IOp o :: r => ~ (h = mailbox_of o /\ result_of o d = RId id) /\ never_reissued id h (exec o d) r
    end.

  Lemma gone_stays its : forall d id h,
    reach d -> ~ In id (view_ids d h) -> never_reissued id h d its -> ~ In id (view_ids (run_items d its) h).
  Proof.
    induction its as [|[o| |] r IH]; intros d id h Hr Hg Hn; simpl in *; auto.
    destruct Hn as [Hn1 Hn2]. apply IH; auto.
    - apply exec_reach; auto.
    - intros Hin. destruct (ids_grow_only_by_add d o h id Hr Hin); auto.
  Qed.

  Theorem removed_stay_gone d mb id its :
    reach d ->
    (never_reissued id (hash mb) (exec (Remove mb id) d) its ->
       ~ In id (view_ids (run_items (exec (Remove mb id) d) its) (hash mb))) /\
    (forall x, never_reissued x (hash mb) (exec (Purge mb) d) its ->
       ~ In x (view_ids (run_items (exec (Purge mb) d) its) (hash mb))).
  Proof.
    intros Hr. split.
    - intros Hn. apply gone_stays; auto; [apply exec_reach; auto | apply remove_gone; auto].
    - intros x Hn. apply gone_stays; auto; [apply exec_reach; auto|]. rewrite purge_gone; auto.
  Qed.

  (** ** within one process incarnation: the generator never produces the same id twice (fewer than
      10000 deliveries per second), so no later candidate list contains the removed id *)
  Definition never_generated (id : str) (its : list item) : Prop :=
    forall o, In (IOp o) its ->
      match o with FileDisk.Add _ _ _ cands => ~ In id cands | _ => True end.

  Lemma pick_id_In cands ms x : pick_id cands ms = Some x -> In x cands.
  Proof.
    induction cands as [|c r IH]; simpl; [discriminate|]. destruct (has_id c ms); auto.
    intros H; inversion H; auto.
  Qed.

  Lemma never_generated_reissued id its : never_generated id its -> forall h d, never_reissued id h d its.
  Proof.
    induction its as [|[o| |] r IH]; intros Hn h d; simpl; auto.
    - split.
      + intros [_ Hres]. specialize (Hn o (or_introl eq_refl)).
        unfold FileDisk.result_of in Hres.
        destruct (read_index dec d (hash (op_mailbox o)) (op_mailbox o)) as [[nm ms]|]; [|discriminate].
        destruct o as [mb info body cands | mb x | mb x | mb].
        * destruct (pick_id cands (skipn (evict_count cap (length ms)) ms)) eqn:E; [|discriminate].
          inversion Hres; subst. apply Hn. eapply pick_id_In; eauto.
        * destruct (find_id x ms); discriminate.
        * destruct (has_id x ms); discriminate.
        * discriminate.
      + apply IH. intros o' Ho'. apply Hn. right; auto.
    - apply IH. intros o' Ho'. apply Hn. right; auto.
    - apply IH. intros o' Ho'. apply Hn. right; auto.
  Qed.

  Theorem removed_stay_gone_one_incarnation d mb id its :
    reach d -> never_generated id its ->
    ~ In id (view_ids (run_items (exec (Remove mb id) d) its) (hash mb)).
  Proof.
    intros Hr Hn. apply (proj1 (removed_stay_gone d mb id its Hr)). apply never_generated_reissued; auto.
  Qed.
End Durable.

(** The walk is complete on every reachable disk: Proofs/FileDiskParents.v, theorem [visit_complete]
    (Props/C10/visit_complete). *)

(** * The cap may differ from one operation to the next (it is configuration, read at start-up)
    [reach] fixes one cap; [reachV] lets every operation — completed or killed — run under its own cap. *)
Inductive reachV (enc : index -> str) (dec : str -> option index) (hash : str -> str) : disk -> Prop :=
| reachV_init : reachV enc dec hash []
| reachV_step cap d o d' :
    reachV enc dec hash d -> crash_reach (steps enc dec hash cap o d) d d' -> reachV enc dec hash d'.

Lemma reachV_Inv : forall (enc : index -> str) (dec : str -> option index), (forall i, dec (enc i) = Some i) ->
  forall (hash : str -> str) (d : disk), reachV enc dec hash d -> Inv dec d.
Proof.
  intros enc dec Hde hash d H. induction H; [apply Inv_empty | eapply (crash_Inv enc dec Hde hash cap); eauto].
Qed.

Lemma reach_reachV enc dec hash cap d : reach enc dec hash cap d -> reachV enc dec hash d.
Proof. induction 1; [constructor | econstructor; eauto]. Qed.

(** THE durability theorem, for a cap that may change at every operation: on every disk the store can ever
    leave behind (any history of completed and killed operations under any caps — in particular after any
    number of stops and starts, which touch nothing but memory) every operation, under whatever cap is
    configured now, runs without a failing file-system step, leaves such a disk again, changes its mailbox
    exactly as the ordered-map operation [post_view] says — the old listing with the same order, ids,
    metadata, flags, sizes and content, minus the cap evictions from the front, plus the new message — and
    no other mailbox; a delivery leaves at most [cap] messages. *)
Theorem ops_continue_any_cap : forall (enc : index -> str) (dec : str -> option index), (forall i, dec (enc i) = Some i) ->
  forall (hash : str -> str) (d : disk) (cap : nat) (o : op),
  reachV enc dec hash d ->
  exists nm ms,
    read_index dec d (mailbox_of hash o) (op_mailbox o) = Some (nm, ms) /\
    view dec d (mailbox_of hash o) = Some (mkview d (mailbox_of hash o) nm ms) /\
    run (steps enc dec hash cap o d) d = Some (exec enc dec hash cap o d) /\
    reachV enc dec hash (exec enc dec hash cap o d) /\
    view dec (exec enc dec hash cap o d) (mailbox_of hash o) = Some (post_view cap d o (mailbox_of hash o) nm ms) /\
    (forall h, h <> mailbox_of hash o -> view dec (exec enc dec hash cap o d) h = view dec d h) /\
    (cap <> O -> forall mb info body cands, o = FileDisk.Add mb info body cands ->
       (length (post_view cap d o (mailbox_of hash o) nm ms) <= cap)%nat).
Proof.
  intros enc dec Hde hash d cap o Hr.
  pose proof (reachV_Inv enc dec Hde hash d Hr) as HI.
  destruct (read_index_ok dec d (mailbox_of hash o) (op_mailbox o) HI) as [nm [ms Hri]].
  destruct (exec_views enc dec Hde hash cap d o nm ms HI Hri) as [R [_ [A B]]].
  assert (HL : Loaded dec d (mailbox_of hash o) nm ms) by (eapply read_index_Loaded; eauto; apply HI).
  exists nm, ms. split; auto. split; [apply view_Loaded; auto|]. split; auto. split.
  - eapply reachV_step; eauto. apply crash_reach_run; eauto.
  - split; auto. split; auto. intros Hc mb info body cands ->. apply post_view_cap; auto.
Qed.

(** * What "the store keeps no state between calls" means for ANY implementation with memory
    An implementation may keep in-memory state of any kind ([M]: a cache, a memo, a remembered directory
    listing). If that memory is COHERENT with the disk — [coh] holds initially after every (re)start, is
    preserved by every item, and under it the implementation answers as the disk model — then reopening
    (memory re-initialised from the disk) at any positions changes no observation. The real file store is
    the instance M = unit; the seeded defects C10-g1 (directory listing remembered from a partial set) and
    C10-k1 (memoised mailbox objects loaded without the lock) are memories that are NOT coherent after a
    restart, which is what the correspondence run detects. *)
Section CachedStore.
  Variable enc : index -> str.
  Variable dec : str -> option index.
  Variable hash : str -> str.
  Variable cap : nat.
  Variable M : Type.
  Variable coh : M -> disk -> Prop.
  Variable m_start : disk -> M.                               (* memory of a freshly constructed store object *)
  Variable m_step : M -> disk -> item -> M.                   (* what an item does to the memory *)
  Variable m_obs : M -> disk -> item -> list obs.             (* what the implementation answers *)
  Hypothesis coh_start : forall d, coh (m_start d) d.
  Hypothesis coh_step : forall m d it, coh m d -> coh (m_step m d it) (run_item enc dec hash cap d it).
  Hypothesis obs_ok : forall m d it, coh m d -> m_obs m d it = observations enc dec hash cap d [it].

  Fixpoint m_run (m : M) (d : disk) (its : list item) : list obs :=
    match its with
    | [] => []
    | IReopen :: r => m_run (m_start d) d r
    | it :: r => m_obs m d it ++ m_run (m_step m d it) (run_item enc dec hash cap d it) r
    end.

  Lemma observations_cons d it r :
    observations enc dec hash cap d (it :: r) =
    observations enc dec hash cap d [it] ++ observations enc dec hash cap (run_item enc dec hash cap d it) r.
  Proof. destruct it; simpl; reflexivity. Qed.

  Theorem cached_store_transparent its : forall m d, coh m d ->
    m_run m d its = observations enc dec hash cap d (strip its).
  Proof.
    induction its as [|it r IH]; intros m d Hc; [reflexivity|].
    destruct it as [o| |].
    - cbn [m_run strip filter]. change (filter _ r) with (strip r). rewrite observations_cons.
      rewrite (obs_ok m d (IOp o) Hc). f_equal. apply IH. apply coh_step; auto.
    - cbn [m_run strip filter]. change (filter _ r) with (strip r). apply IH. apply coh_start.
    - cbn [m_run strip filter]. change (filter _ r) with (strip r). rewrite observations_cons.
      rewrite (obs_ok m d IVisit Hc). f_equal. apply IH. apply (coh_step m d IVisit); auto.
  Qed.
End CachedStore.

(** Reopen transparency with content: for EVERY implementation that keeps memory of any kind [M] between
    calls — as long as that memory is coherent with the disk after every (re)start and after every item, and
    coherent memory answers as the disk model — a history with reopens (memory re-initialised from the disk)
    at any positions yields exactly the observations of the disk model on the history without them: results,
    whole disks (listings, ids, metadata, flags, sizes, content) and visit walks. *)
Theorem reopen_transparent_cached :
  forall (enc : index -> str) (dec : str -> option index) (hash : str -> str) (cap : nat)
         (M : Type) (coh : M -> disk -> Prop) (m_start : disk -> M) (m_step : M -> disk -> item -> M)
         (m_obs : M -> disk -> item -> list obs),
    (forall d, coh (m_start d) d) ->
    (forall m d it, coh m d -> coh (m_step m d it) (run_item enc dec hash cap d it)) ->
    (forall m d it, coh m d -> m_obs m d it = observations enc dec hash cap d [it]) ->
  forall (its : list item) (m : M) (d : disk), coh m d ->
    m_run enc dec hash cap M m_start m_step m_obs m d its = observations enc dec hash cap d (strip its).
Proof. intros. eapply cached_store_transparent; eauto. Qed.

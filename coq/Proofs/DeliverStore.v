(** C01, "both storage back-ends": the deliveries a dialogue makes, performed as AddMessage calls
    on the abstract store of C07 (and hence, by the two refinement theorems, on the memory-store
    and the file-store model), leave in every mailbox exactly the messages the dialogue entitles
    it to, in order, after whatever it held before. The message content (sender, recipients,
    subject, body) travels as one unit, named by [tag_of]. *)
From IV Require Import Base.Bytes Base.BytesFacts Model.Policy Model.Smtp Model.StoreSpec Model.MemStore Model.FileStore.
From IV Require Import Proofs.StoreSpecFacts Proofs.SmtpInv Proofs.SmtpThms Proofs.MemStoreRefine Proofs.FileStoreRefine.

Section Link.
Variable tag_of : delivery -> N.
Variable date : Z.

Definition add_op (d : delivery) : op :=
  Add (d_mailbox d) date (tag_of d) (N.of_nat (length (d_body d))).
Definition cfg0 : scfg := {| c_cap := 0; c_max := 0 |}.
Definition tags (l : list entry) : list N := map (fun e => m_tag (e_msg e)) l.

Lemma final_spec_adds : forall ds st mb,
  tags (box mb (live (final_spec cfg0 st (map add_op ds)))) =
  tags (box mb (live st)) ++ map tag_of (filter (fun d => str_eqb mb (d_mailbox d)) ds).
Proof.
  induction ds as [|d ds IH]; intros st mb; cbn [map final_spec filter].
  - rewrite app_nil_r. reflexivity.
  - unfold add_op at 1. cbn [exec_spec]. unfold spec_add. cbn [c_cap c_max cfg0 Nat.eqb N.eqb].
    rewrite IH. cbn [live]. rewrite box_app. unfold tags at 1. rewrite map_app. fold (tags (box mb (live st))).
    rewrite <- app_assoc. f_equal. cbn [box filter]. unfold ent_in. cbn [e_mb].
    destruct (str_eqb mb (d_mailbox d)); reflexivity.
Qed.

(** The store after the deliveries of a dialogue, mailbox by mailbox. *)
Theorem deliveries_reach_the_store : forall ds mb,
  tags (box mb (live (final_spec cfg0 spec_init (map add_op ds)))) =
  map tag_of (store_get (store_after [] ds) mb).
Proof.
  intros ds mb. rewrite final_spec_adds, no_other_mailbox_changes. reflexivity.
Qed.

(** With C01's [delivery_exact]: the store holds what the dialogue entitles. *)
Theorem store_holds_what_dialogue_entitles : forall c items mb,
  forallb sane_item items = true ->
  let tr := fst (run c init items) in
  tags (box mb (live (final_spec cfg0 spec_init (map add_op (deliveries_of tr))))) =
  map tag_of (filter (fun d => str_eqb mb (d_mailbox d)) (entitled c None [] [] (dialogue tr))).
Proof.
  intros c items mb H tr. rewrite deliveries_reach_the_store, no_other_mailbox_changes.
  unfold tr. rewrite (delivery_exact c items H). reflexivity.
Qed.

(** Both back-end models return, operation by operation (every AddMessage result, and any
    listing appended to the history), what the abstract store returns. *)
Theorem both_backends_agree_on_deliveries : forall ds mb ticks,
  file_fresh cfg0 (file_init ticks, []) (map add_op ds ++ [Lst mb]) ->
  run_mem cfg0 (map add_op ds ++ [Lst mb]) = run_spec cfg0 spec_init (map add_op ds ++ [Lst mb]) /\
  run_file cfg0 ticks (map add_op ds ++ [Lst mb]) = run_spec cfg0 spec_init (map add_op ds ++ [Lst mb]).
Proof.
  intros ds mb ticks Hf. split; [apply mem_refines_spec|apply file_refines_spec; [reflexivity|exact Hf]].
Qed.
End Link.

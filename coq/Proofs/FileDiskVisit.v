(** C11/C09 support: the visit walk never fails while another operation runs (fix 0012). *)
From IV Require Import Base.Bytes Base.BytesFacts Model.FileDisk Model.FileDiskVisit Model.FileDiskCodec
  Proofs.FileDiskMap Proofs.FileDiskInv Proofs.FileDiskSteps Proofs.FileDiskOps Proofs.FileDiskCrash
  Proofs.FileDiskCodec Proofs.FileDiskWitness.
From Coq Require Import List NArith Bool Lia.
Import ListNotations.

Lemma firstn_add {A} n m (l : list A) : firstn (n + m) l = firstn n l ++ firstn m (skipn n l).
Proof. revert l; induction n; intros l; simpl; auto. destruct l; simpl; [destruct m; auto | f_equal; auto]. Qed.

Lemma run'_app s1 s2 d : run' (s1 ++ s2) d = run' s2 (run' s1 d).
Proof. unfold run'. apply fold_left_app. Qed.

Lemma run_prefix_reach ss : forall d d1 n, run ss d = Some d1 -> crash_reach ss d (run' (firstn n ss) d).
Proof.
  induction ss as [|s r IH]; intros d d1 n H.
  - destruct n; simpl; constructor.
  - destruct n; [simpl; constructor|]. simpl in H. destruct (apply_step s d) as [d'|] eqn:E; [|discriminate].
    simpl. unfold app1 at 1. change (fold_left (fun d0 s0 => app1 s0 d0) (firstn n r) (app1 s d)) with (run' (firstn n r) (app1 s d)).
    unfold app1. rewrite E. eapply cr_step; eauto.
Qed.

Section VisitProof.
  Variable enc : index -> str.
  Variable dec : str -> option index.
  Hypothesis dec_enc : forall i, dec (enc i) = Some i.
  Variable hash : str -> str.
  Variable cap : nat.

  Notation Inv := (Inv dec).

  (** every state the other operation can still pass through satisfies the disk invariant *)
  Definition Good (w : wstate) : Prop := forall n, Inv (run' (firstn n (fst (fst w))) (w_disk w)).

  Lemma Good_Inv w : Good w -> Inv (w_disk w).
  Proof. intros H. specialize (H 0%nat). simpl in H. exact H. Qed.

  Lemma Good_advance w : Good w -> Good (advance w).
  Proof.
    destruct w as [[ss d] sched]. destruct sched as [|n r]; simpl; auto.
    intros H m. unfold w_disk; simpl. rewrite <- run'_app, <- firstn_add. apply H.
  Qed.

  Lemma Good_start d o sched : reach enc dec hash cap d -> Good (steps enc dec hash cap o d, d, sched).
  Proof.
    intros Hr n. unfold w_disk; simpl. pose proof (reach_Inv enc dec dec_enc hash cap d Hr) as HI.
    destruct (read_index_ok dec d (mailbox_of hash o) (op_mailbox o) HI) as [nm [ms Hri]].
    destruct (exec_views enc dec dec_enc hash cap d o nm ms HI Hri) as [R _].
    eapply crash_Inv; eauto. eapply run_prefix_reach; eauto.
  Qed.

  Lemma cv_mboxes_ok names : forall w, Good w ->
    fst (cv_mboxes dec names w) <> None /\ Good (snd (cv_mboxes dec names w)).
  Proof.
    induction names as [|n r IH]; intros w HG; simpl; [split; [discriminate | auto]|].
    pose proof (Good_advance w HG) as HG1.
    destruct (view dec (w_disk (advance w)) n) eqn:E.
    - destruct (IH _ HG1) as [A B]. destruct (cv_mboxes dec r (advance w)) as [[vs|] w2]; simpl in *; [split; [discriminate|auto] | congruence].
    - exfalso. eapply (Inv_view dec); [apply Good_Inv; eauto | eauto].
  Qed.

  Lemma short_dir d p n : Inv d -> lookup d p = Some n -> (length p <= 3)%nat -> n = Dir.
  Proof. intros HI. apply Struct_dir. apply HI. Qed.

  Lemma cv_l2_ok n1 names : forall w, Good w ->
    fst (cv_l2 dec true n1 names w) <> None /\ Good (snd (cv_l2 dec true n1 names w)).
  Proof.
    induction names as [|n r IH]; intros w HG; cbn [cv_l2]; [split; [discriminate | auto]|].
    pose proof (Good_advance w HG) as HG1.
    destruct (lookup (w_disk (advance w)) [n1; n]) as [nd|] eqn:E; [|apply IH; auto].
    rewrite (short_dir _ _ nd (Good_Inv _ HG1) E) by (simpl; lia).
    destruct (cv_mboxes_ok (children [n1; n] (w_disk (advance w))) _ HG1) as [A B].
    destruct (cv_mboxes dec (children [n1; n] (w_disk (advance w))) (advance w)) as [[a|] w2]; simpl in *; [|congruence].
    destruct (IH w2 B) as [C D]. destruct (cv_l2 dec true n1 r w2) as [[b|] w3]; simpl in *; [split; [discriminate|auto] | congruence].
  Qed.

  Lemma cv_l1_ok names : forall w, Good w ->
    fst (cv_l1 dec true names w) <> None /\ Good (snd (cv_l1 dec true names w)).
  Proof.
    induction names as [|n r IH]; intros w HG; cbn [cv_l1]; [split; [discriminate | auto]|].
    pose proof (Good_advance w HG) as HG1.
    destruct (lookup (w_disk (advance w)) [n]) as [nd|] eqn:E; [|apply IH; auto].
    rewrite (short_dir _ _ nd (Good_Inv _ HG1) E) by (simpl; lia).
    destruct (cv_l2_ok n (children [n] (w_disk (advance w))) _ HG1) as [A B].
    destruct (cv_l2 dec true n (children [n] (w_disk (advance w))) (advance w)) as [[a|] w2]; simpl in *; [|congruence].
    destruct (IH w2 B) as [C D]. destruct (cv_l1 dec true r w2) as [[b|] w3]; simpl in *; [split; [discriminate|auto] | congruence].
  Qed.

  (** For every reachable disk, every operation of another goroutine and every schedule (how many of its
      file-system steps run before each directory read of the walk), VisitMailboxes returns no error. *)
  Theorem visit_tolerates_concurrent_removal d o sched :
    reach enc dec hash cap d -> fst (cvisit dec true (steps enc dec hash cap o d, d, sched)) <> None.
  Proof.
    intros Hr. unfold cvisit. apply cv_l1_ok. apply Good_advance. apply Good_start; auto.
  Qed.
End VisitProof.

(** Without the tolerance (the code before fix 0012) the walk fails: one message, the walk lists the
    level-1 directory, the removal of that message then runs to completion, the walk reads the directory. *)
Example visit_without_tolerance_fails :
  fst (cvisit dec_index false (steps enc_index dec_index w_hash 1 (Remove w_mb [105; 49]) w_d0, w_d0, [0; 99]%nat)) = None /\
  fst (cvisit dec_index true (steps enc_index dec_index w_hash 1 (Remove w_mb [105; 49]) w_d0, w_d0, [0; 99]%nat)) = Some [].
Proof. split; vm_compute; reflexivity. Qed.

(** Byte-level corollaries for the SMTP session (C03, C06): on every byte stream the loop never
    gets stuck - no misfit, no panic, fuel suffices - and ends with the session closed; the reply
    and size rules hold of the transcript of every byte stream. *)
From IV Require Import Base.Bytes Base.BytesFacts Model.Policy Model.Smtp Model.Dot Model.SmtpWire Proofs.SmtpInv Proofs.SmtpThms Proofs.DotCodec Proofs.SmtpCut.
From Coq Require Import ZifyBool ZifyNat ZifyN Lia.

Lemma next_item_fits c o s w : Inv c s -> st s <> QUIT ->
  exists s' r d, step c s (fst (next_item o s w)) = Ok s' r d.
Proof.
  intros HI Hq. unfold next_item.
  destruct (sstate_eqb (st s) DATA) eqn:Ed.
  - assert (Es : st s = DATA) by (destruct (st s); try discriminate; reflexivity). rewrite Es.
    destruct (dec BeginLine w) as [[b r]|]; cbn [fst]; apply progress_data; assumption.
  - assert (Hd : st s <> DATA) by (intro E; rewrite E in Ed; discriminate).
    assert (E : (match st s with
                 | DATA => match dec BeginLine w with Some (body, rest) => (block_item o body, rest) | None => (B PEof, []) end
                 | _ => match read_line w with Some (line, rest) => (L (classify o line), rest) | None => (Eof, []) end
                 end) = match read_line w with Some (line, rest) => (L (classify o line), rest) | None => (Eof, []) end)
      by (destruct (st s); try reflexivity; congruence).
    rewrite E. destruct (read_line w) as [[l r]|]; cbn [fst].
    + apply progress; assumption.
    + unfold step. destruct (st s); try congruence; eauto.
Qed.

(** The loop over any byte stream ends with the session closed: nothing wedges it. *)
Theorem bytes_never_stuck : forall f c o s w,
  Inv c s -> (length w + 2 <= f)%nat ->
  st (snd (run_stream f c o s w)) = QUIT.
Proof.
  induction f as [|f IH]; intros c o s w HI Hf; [lia|].
  cbn [run_stream].
  destruct (sstate_eqb (st s) QUIT) eqn:Eq.
  - assert (Es : st s = QUIT) by (destruct (st s); try discriminate; reflexivity). rewrite Es. exact Es.
  - assert (Hq : st s <> QUIT) by (intro E; rewrite E in Eq; discriminate).
    destruct (next_item_fits c o s w HI Hq) as (s' & r & d & E).
    assert (Goal : st (snd (let '(it, rest) := next_item o s w in
                             match step c s it with
                             | Ok s'0 r0 d0 => let '(its, tr, sf) := run_stream f c o s'0 rest in (it :: its, (it, r0, d0) :: tr, sf)
                             | _ => ([], [], s)
                             end)) = QUIT).
    { destruct (next_item o s w) as [it rest] eqn:N. cbn [fst] in E. rewrite E.
      assert (HI' : Inv c s') by (eapply step_inv; eauto).
      destruct w as [|b w].
      - assert (Q : st s' = QUIT) by (eapply next_item_nil_quits; rewrite N; exact E).
        rewrite (run_stream_quit f c o s' rest Q). exact Q.
      - pose proof (next_item_shorter o s (b :: w) ltac:(discriminate)) as Hs. rewrite N in Hs. cbn [snd] in Hs.
        specialize (IH c o s' rest HI' ltac:(cbn [length] in *; lia)).
        destruct (run_stream f c o s' rest) as [[its tr] sf]. exact IH. }
    destruct (st s); try congruence; exact Goal.
Qed.

Theorem bytes_session_always_ends : forall c o w,
  st (snd (run_bytes c o w)) = QUIT.
Proof. intros c o w. unfold run_bytes. apply bytes_never_stuck; [apply inv_init|lia]. Qed.

(** Reply and size rules on the transcript of every byte stream. *)
Theorem bytes_one_reply_per_line : forall c o w,
  forallb reply_ok (dialogue (snd (fst (run_bytes c o w)))) = true.
Proof.
  intros c o w. unfold run_bytes.
  pose proof (run_stream_run (length w + 2) c o init w) as Hr.
  destruct (run_stream (length w + 2) c o init w) as [[its tr] sf]. cbn [fst snd]. rewrite <- Hr.
  apply one_reply_per_line.
Qed.

Theorem bytes_size_rule : forall c o w,
  forallb (size_ok c) (snd (fst (run_bytes c o w))) = true.
Proof.
  intros c o w. unfold run_bytes.
  pose proof (run_stream_run (length w + 2) c o init w) as Hr.
  destruct (run_stream (length w + 2) c o init w) as [[its tr] sf]. cbn [fst snd]. rewrite <- Hr.
  apply size_rule.
Qed.

Theorem bytes_accept_rule : forall c o w,
  forallb (accept_ok c) (dialogue (snd (fst (run_bytes c o w)))) = true.
Proof.
  intros c o w. unfold run_bytes.
  pose proof (run_stream_run (length w + 2) c o init w) as Hr.
  destruct (run_stream (length w + 2) c o init w) as [[its tr] sf]. cbn [fst snd] in *.
  rewrite <- Hr. apply accept_rule.
Qed.

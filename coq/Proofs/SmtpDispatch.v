(** Which command is handled in which state, model against source: Gen/SmtpDispatch.v is regenerated on every run
    from the case labels of handler.go (the "any state" switch of startSession, the handler each state dispatches to,
    the `switch cmd` of each handler).  The model's tables are those tables; every line whose command word is on the
    command table but neither handled in every state nor named by the handler of the current state is answered
    "503 out of sequence" and changes nothing; and the command word of a parsed line is one of the words its class
    stands for.  A case added to, removed from or moved between the handlers breaks [dispatch_pinned]. *)
From IV Require Import Base.Bytes Base.BytesFacts Base.Regex Gen.SmtpRegex Gen.SmtpDispatch Model.Policy Model.Smtp Model.SmtpWire Proofs.SmtpInv Proofs.SmtpTable.
From Coq Require Import ZifyBool Lia.

Definition model_any : list str := [w_EXPN; w_HELP; w_NOOP; w_QUIT; w_RSET; w_SAML; w_SEND; w_SOML; w_TURN; w_VRFY].
Definition n_GREET : str := [71;82;69;69;84].
Definition n_READY : str := [82;69;65;68;89].
Definition n_MAIL : str := [77;65;73;76].
Definition model_state : list (str * list str) :=
  [(n_GREET, [w_EHLO; w_HELO]); (n_READY, [w_AUTH; w_EHLO; w_MAIL; w_STARTTLS]); (n_MAIL, [w_DATA; w_EHLO; w_RCPT])].

Theorem dispatch_pinned : model_any = dispatch_any /\ model_state = dispatch_state.
Proof. split; reflexivity. Qed.

(** the command words a class of parsed line stands for *)
Definition words_of (l : pline) : list str :=
  match l with
  | Helo _ => [w_HELO] | Ehlo _ => [w_EHLO] | Mail _ _ => [w_MAIL] | Rcpt _ _ => [w_RCPT] | DataC _ => [w_DATA]
  | Rset => [w_RSET] | Noop => [w_NOOP] | Quit => [w_QUIT] | Vrfy => [w_VRFY]
  | Unimpl => [w_SEND; w_SOML; w_SAML; w_EXPN; w_HELP; w_TURN]
  | Starttls => [w_STARTTLS] | Auth _ => [w_AUTH]
  | Unknown | Garbled | Empty => []
  end.

Definition handled_in (state : str) (w : str) : bool :=
  mem_str w model_any ||
  match assoc state model_state with Some ws => mem_str w ws | None => false end.

Definition state_name (x : sstate) : option str :=
  match x with GREET => Some n_GREET | READY => Some n_READY | MAIL => Some n_MAIL | _ => None end.

(** off the tables: out of sequence, nothing changes *)
Theorem off_dispatch_is_out_of_sequence : forall c s l name,
  state_name (st s) = Some name ->
  words_of l <> [] -> forallb (fun w => negb (handled_in name w)) (words_of l) = true ->
  step c s (L l) = Ok s (one 503) [].
Proof.
  intros c s l name Hn Hw Hoff.
  unfold step, step_greet, step_ready, step_mail.
  destruct (st s) eqn:Es; cbn in Hn; try discriminate; inversion Hn; subst name;
    destruct l; try (exfalso; apply Hw; reflexivity); try reflexivity;
    try (vm_compute in Hoff; discriminate Hoff).
Qed.

(** ... and on them the line is never answered by the dispatcher's 503: its handler is reached (what the handler then
    says is the subject of the other theorems; a DATA without recipients, e.g., is refused with a 503 of its own) *)
Theorem any_state_commands_ignore_the_state : forall c s1 s2 l,
  (forall w, In w (words_of l) -> mem_str w model_any = true) -> words_of l <> [] ->
  state_name (st s1) <> None -> state_name (st s2) <> None ->
  match step c s1 (L l), step c s2 (L l) with
  | Ok _ r1 _, Ok _ r2 _ => r1 = r2
  | _, _ => False
  end.
Proof.
  intros c s1 s2 l Hw Hne H1 H2.
  destruct l; try (exfalso; apply Hne; reflexivity);
    try (exfalso; specialize (Hw _ (or_introl eq_refl)); vm_compute in Hw; discriminate Hw);
    unfold step; destruct (st s1); cbn in H1; try congruence; destruct (st s2); cbn in H2; try congruence; reflexivity.
Qed.

(** the word of a parsed line is one of the words its class stands for *)
Theorem classify_word : forall o cmd arg line,
  parse_cmd line = CCmd cmd arg -> mem_str cmd command_table = true ->
  In cmd (words_of (classify o line)).
Proof.
  intros o cmd arg line Hp Hm.
  assert (Hk : classify o line <> Unknown).
  { intro X. apply (unknown_iff_off_table o cmd arg line Hp) in X. congruence. }
  unfold classify in *. rewrite Hp in *.
  repeat match goal with
  | |- context [if str_eqb cmd ?w then _ else _] =>
      let E := fresh "E" in destruct (str_eqb cmd w) eqn:E;
      [apply str_eqb_eq in E; subst cmd;
       repeat match goal with |- context [match ?x with _ => _ end] => destruct x end;
       cbn [words_of In]; tauto|]
  end.
  destruct (str_eqb cmd w_SEND || str_eqb cmd w_SOML || str_eqb cmd w_SAML
            || str_eqb cmd w_EXPN || str_eqb cmd w_HELP || str_eqb cmd w_TURN) eqn:Eu.
  - rewrite !orb_true_iff in Eu. cbn [words_of In].
    repeat match goal with H : _ \/ _ |- _ => destruct H end;
      match goal with H : str_eqb cmd _ = true |- _ => apply str_eqb_eq in H; subst cmd; tauto end.
  - repeat match goal with
    | |- context [if str_eqb cmd ?w then _ else _] =>
        let E := fresh "E" in destruct (str_eqb cmd w) eqn:E;
        [apply str_eqb_eq in E; subst cmd; cbn [words_of In]; tauto|]
    end.
    exfalso. apply Hk. reflexivity.
Qed.

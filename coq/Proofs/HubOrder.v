(** C15: the order in which one broadcast visits the listeners (Go's map iteration order, which
    the model fixes to registration order) cannot be observed: two consecutive listener calls
    that go to different listeners commute exactly. Hence any two visiting orders of a broadcast
    that runs to its end lead to the same hub state; the order only shows while the hub is
    blocked in the middle of a broadcast (which listeners have the event already). *)
From IV Require Import Base.Bytes Model.Hub Proofs.HubBasics.
Local Open Scope nat_scope.

Definition with_work (h : hub) (w : list delivery) : hub :=
  mkH (ring h) (regs h) (ls h) (opq h) w (synced h) (stopped h) (hlog h).

Lemma upd_l_comm a b x y xs : a <> b -> upd_l a x (upd_l b y xs) = upd_l b y (upd_l a x xs).
Proof.
  intros N. induction xs as [|[k z] t IH]; cbn [upd_l]; auto.
  destruct (Nat.eqb k b) eqn:Eb, (Nat.eqb k a) eqn:Ea; cbn [upd_l]; rewrite ?Ea, ?Eb; auto.
  - apply Nat.eqb_eq in Ea, Eb. congruence.
  - rewrite IH. reflexivity.
Qed.

Lemma rm_nat_comm a b xs : rm_nat a (rm_nat b xs) = rm_nat b (rm_nat a xs).
Proof.
  induction xs as [|k t IH]; cbn [rm_nat]; auto.
  destruct (Nat.eqb k b) eqn:Eb, (Nat.eqb k a) eqn:Ea; cbn [rm_nat]; rewrite ?Ea, ?Eb; auto.
  rewrite IH. reflexivity.
Qed.

Theorem broadcast_order_diamond :
  forall c ch1 ch2 h d1 d2 w h1 h2,
    d_to d1 <> d_to d2 -> work h = d1 :: d2 :: w ->
    hub_step c ch1 h = Some h1 -> hub_step c ch2 h1 = Some h2 ->
    exists h1', hub_step c ch2 (with_work h (d2 :: d1 :: w)) = Some h1' /\ hub_step c ch1 h1' = Some h2.
Proof.
  intros c ch1 ch2 h d1 d2 w h1 h2 N W E1 E2.
  assert (S : stopped h = false) by (unfold hub_step in E1; destruct (stopped h); [discriminate|reflexivity]).
  unfold hub_step in E1. rewrite S, W in E1.
  unfold hub_step at 1. cbn [with_work stopped work ls regs ring opq synced hlog]. rewrite S.
  destruct (find_l (d_to d1) (ls h)) as [s1|] eqn:F1.
  - destruct (deliver c ch1 s1 (d_ev d1)) as [[s1' e1]|] eqn:D1; [|discriminate].
    inversion E1; subst h1; clear E1.
    unfold hub_step in E2. cbn [stopped work ls regs ring opq synced hlog] in E2. rewrite ?S in E2.
    rewrite find_l_upd_other in E2 by auto.
    destruct (find_l (d_to d2) (ls h)) as [s2|] eqn:F2.
    + destruct (deliver c ch2 s2 (d_ev d2)) as [[s2' e2]|] eqn:D2; [|discriminate].
      inversion E2; subst h2; clear E2. eexists. split; [reflexivity|].
      unfold hub_step. cbn [stopped work ls regs ring opq synced hlog]. rewrite ?S.
      rewrite find_l_upd_other by auto. rewrite F1, D1. f_equal. f_equal.
      * destruct (e1 && d_drop d1), (e2 && d_drop d2); auto. apply rm_nat_comm.
      * apply upd_l_comm. auto.
    + inversion E2; subst h2; clear E2. eexists. split; [reflexivity|].
      unfold hub_step. cbn [stopped work ls regs ring opq synced hlog]. rewrite ?S.
      rewrite F1, D1. reflexivity.
  - inversion E1; subst h1; clear E1.
    unfold hub_step in E2. cbn [stopped work ls regs ring opq synced hlog] in E2. rewrite ?S in E2.
    destruct (find_l (d_to d2) (ls h)) as [s2|] eqn:F2.
    + destruct (deliver c ch2 s2 (d_ev d2)) as [[s2' e2]|] eqn:D2; [|discriminate].
      inversion E2; subst h2; clear E2. eexists. split; [reflexivity|].
      unfold hub_step. cbn [stopped work ls regs ring opq synced hlog]. rewrite ?S.
      rewrite find_l_upd_other by auto. rewrite F1. reflexivity.
    + inversion E2; subst h2; clear E2. eexists. split; [reflexivity|].
      unfold hub_step. cbn [stopped work ls regs ring opq synced hlog]. rewrite ?S.
      rewrite F1. reflexivity.
Qed.

(** Corollaries of [pop3_over_storespec]: the snapshot and commit-on-QUIT theorems of C13
    re-stated over StoreSpec states, and the composition with C07's refinement theorems. *)
From Coq Require Import ZifyN ZifyNat ZifyBool.
From IV Require Import Base.Bytes Base.BytesFacts Model.StoreSpec Model.StoreSpecImpl Model.MemStore Model.FileStore
  Model.Pop3Wire Model.Pop3 Model.Pop3Store
  Proofs.StoreSpecFacts Proofs.MemStoreRefine Proofs.FileStoreRefine Proofs.Pop3 Proofs.Pop3Store.
Open Scope N_scope.

(** The snapshot of a session is the listing StoreSpec answers to [Lst user] at login, for as
    long as the session lasts, whatever happens to the store meanwhile. *)
Theorem storespec_snapshot content cfg fl ss w e evs :
  SInv ss -> sized content ss -> w_store w = abs content ss ->
  s_state (w_sess w) = Auth ->
  s_state (w_sess (wstep fl w e)) = Trans ->
  let w2 := run fl (wstep fl w e) evs in
  s_state (w_sess w2) = Trans ->
  exists l, snd (fst (exec_spec cfg ss (Lst (s_user (w_sess w2))))) = OList l /\
            s_msgs (w_sess w2) = map (snap_of_view content) l.
Proof.
  cbn zeta. intros Hi Hs Hst Ha Ht Hf.
  rewrite (snapshot_is_login_store fl w e evs Ha Ht Hf), Hst.
  apply load_is_lst; assumption.
Qed.

(** QUIT in TRANSACTION state issues exactly the [Remove]s of the marked messages to the
    store; the session ends. *)
Theorem storespec_quit_commit content cfg fl ss w args :
  CInv ss -> w_store w = abs content ss -> winv w ->
  s_state (w_sess w) = Trans ->
  let w' := wstep fl w (ECmd (CCmd QUIT args)) in
  s_state (w_sess w') = Closed /\
  w_store w' = abs content (final_spec cfg ss
                 (quit_ops (s_user (w_sess w)) (s_msgs (w_sess w)) (s_retain (w_sess w)))).
Proof.
  cbn zeta. intros Hc Hst Hi Ht. split.
  - cbn [wstep]. unfold do_cmd, is_open, step. rewrite Ht. cbn [trans_handler]. rewrite Hst.
    rewrite (process_deletes_is_quit_ops content cfg _ _ _ _ Hc Hi).
    cbn [is_panic r_plus mk r_body]. destruct (w_wfail w); reflexivity.
  - pose proof (session_step_abs content cfg fl ss w (ECmd (CCmd QUIT args)) Hc Hst Hi eq_refl) as H.
    cbn zeta in H. unfold logs_in, commits_now, is_open in H. rewrite Ht in H. cbn [is_quit andb app] in H. exact H.
Qed.

(** Each [Remove] of the commit takes out the named message and nothing else (C07's
    [remove_only_named] is the per-operation statement); in terms of listings: *)
Theorem storespec_quit_listing content cfg ss w name :
  CInv ss -> w_store w = abs content ss -> winv w ->
  s_state (w_sess w) = Trans ->
  let ss' := final_spec cfg ss (quit_ops (s_user (w_sess w)) (s_msgs (w_sess w)) (s_retain (w_sess w))) in
  map (smsg_of content) (box name (live ss')) =
  if str_eqb (s_user (w_sess w)) name
  then filter (fun m => negb (marked_msg (w_sess w) m)) (map (smsg_of content) (box name (live ss)))
  else map (smsg_of content) (box name (live ss)).
Proof.
  cbn zeta. intros Hc Hst Hi Ht.
  pose proof (process_deletes_is_quit_ops content cfg (s_user (w_sess w)) (s_msgs (w_sess w)) (s_retain (w_sess w)) ss Hc Hi) as Hp.
  rewrite <- Hst in Hp.
  pose proof (process_deletes_box _ name _ _ _ _ Hp) as Hb.
  rewrite Hst in Hb. rewrite !mmsgs_abs in Hb.
  - exact Hb.
  - apply Hc.
  - apply (final_spec_CInv cfg _ ss Hc).
Qed.

(** A history in which no QUIT line is sent leaves the spec store exactly as the other
    clients' operations make it. *)
Theorem storespec_no_quit_no_remove content cfg fl sevs : forall ss ops w pevs,
  (forall e, In (SSess e) sevs -> is_quit_event e = false) ->
  let '(ss', _, _, _) := srun content cfg fl ss ops w pevs sevs in
  ss' = final_spec cfg ss (ext_ops sevs).
Proof.
  induction sevs as [|[e|o] sevs IH]; intros ss ops w pevs H; cbn [srun ext_ops final_spec].
  - reflexivity.
  - destruct (is_store_event e); [apply IH; intros e' H'; apply H; right; exact H'|].
    assert (Hq : commits_now w e && is_open w = false).
    { pose proof (H e (or_introl eq_refl)) as He. unfold is_quit_event in He. unfold commits_now.
      destruct (s_state (w_sess w)); try reflexivity. destruct e; cbn in *; rewrite ?He; reflexivity. }
    rewrite Hq, app_nil_r. rewrite final_spec_lst.
    + apply IH. intros e' H'. apply H. right. exact H'.
    + intros o Ho. destruct (logs_in fl w e); [destruct Ho as [<-|[]]; eauto|destruct Ho].
  - specialize (IH (fst (fst (exec_spec cfg ss o))) (ops ++ [o]) (run fl w (tr content cfg ss o))
                   (pevs ++ tr content cfg ss o) (fun e' H' => H e' (or_intror H'))).
    destruct (exec_spec cfg ss o) as [[st1 ob] evs]. exact IH.
Qed.

(** * Composition with C07 *)

(** A history from the empty store: the POP3 model's store is the abstraction of the spec
    store, the spec store is the result of the operations issued (the session's own
    included), and on that very operation list the memory-store model and - under C07's
    environment hypothesis - the file-store model answer exactly what StoreSpec answers.
    So every store answer the session consumed is the answer of either back-end model. *)
Theorem pop3_over_store_models content cfg fl sevs :
  forallb (op_sized content) (ext_ops sevs) = true ->
  let '(ss', ops', w', pevs') := srun content cfg fl StoreSpec.spec_init [] (init_world []) [] sevs in
  w' = run fl (init_world []) pevs' /\
  w_store w' = abs content ss' /\
  ss' = final_spec cfg StoreSpec.spec_init ops' /\
  run_mem cfg ops' = run_spec cfg StoreSpec.spec_init ops' /\
  (forall ticks, c_max cfg = 0 -> file_fresh cfg (file_init ticks, []) ops' ->
     run_file cfg ticks ops' = run_spec cfg StoreSpec.spec_init ops').
Proof.
  intros Ho.
  pose proof (pop3_over_storespec content cfg fl sevs StoreSpec.spec_init [] (init_world []) []
                CInv_init (fun e H => match H with end) Ho eq_refl (init_inv [])) as H.
  destruct (srun content cfg fl StoreSpec.spec_init [] (init_world []) [] sevs) as [[[ss' ops'] w'] pevs'].
  destruct H as (A & B & C & D & (more & E1 & E2) & (mn & F1 & F2)).
  cbn [app] in E1, F1. subst more mn.
  split; [exact E2|]. split; [exact A|]. split; [exact F2|]. split.
  - apply mem_refines_spec.
  - intros ticks Hm Hf. apply file_refines_spec; assumption.
Qed.

(** * Non-vacuity *)
Definition ex_content (tag : N) : str := [65; tag; 10].
Definition ex_cfg : scfg := {| c_cap := 2%nat; c_max := 0 |}.
Definition lnb (l : list N) : sevent := SSess (ELine (l ++ [13; 10])).
Definition ex_sevs : list sevent :=
  [SOp (Add [98] 1%Z 1 3); SOp (Add [98] 2%Z 2 3);
   lnb [65; 80; 79; 80; 32; 98; 32; 120];      (* APOP b x *)
   lnb [68; 69; 76; 69; 32; 50];               (* DELE 2 *)
   SOp (Add [98] 3%Z 3 3);                     (* a delivery: the cap evicts the oldest *)
   lnb [81; 85; 73; 84]].                      (* QUIT *)

Example ex_srun :
  let '(ss', ops', w', _) := srun ex_content ex_cfg Mem StoreSpec.spec_init [] (init_world []) [] ex_sevs in
  map (fun e => e_k e) (live ss') = [2%nat] /\
  ops' = [Add [98] 1%Z 1 3; Add [98] 2%Z 2 3; Lst [98]; Add [98] 3%Z 3 3; Remove [98] (Kth 1)] /\
  w_store w' = abs ex_content ss' /\ forallb (op_sized ex_content) (ext_ops ex_sevs) = true.
Proof. vm_compute. repeat split; reflexivity. Qed.

(** Specification of removeMessage, cap eviction and the four mutating operations of the file
    store in terms of crash states. *)
From IV Require Import Base.Bytes Base.BytesFacts Model.FileDisk Proofs.FileDiskMap Proofs.FileDiskInv Proofs.FileDiskSteps.
From Coq Require Import List NArith Bool Lia.
Import ListNotations.

(** * Index list facts *)
Lemma has_id_In id ms : has_id id ms = true <-> In id (map m_id ms).
Proof.
  unfold has_id. rewrite existsb_exists. split.
  - intros [m [Hm E]]. apply str_eqb_eq in E; subst. apply in_map; auto.
  - intros H. apply in_map_iff in H. destruct H as [m [<- Hm]]. exists m. split; auto. apply str_eqb_refl.
Qed.

Lemma remove_first_In id ms m : In m (remove_first id ms) -> In m ms.
Proof.
  induction ms as [|x r IH]; simpl; auto. destruct (str_eqb (m_id x) id); simpl; auto.
  intros [H|H]; auto.
Qed.

Lemma remove_first_keeps id ms m : In m ms -> m_id m <> id -> In m (remove_first id ms).
Proof.
  induction ms as [|x r IH]; simpl; auto. intros [->|H] Hne.
  - destruct (str_eqb (m_id m) id) eqn:E; [apply str_eqb_eq in E; contradiction | simpl; auto].
  - destruct (str_eqb (m_id x) id); simpl; auto.
Qed.

Lemma remove_first_NoDup id ms :
  NoDup (map m_id ms) -> NoDup (map m_id (remove_first id ms)) /\ ~ In id (map m_id (remove_first id ms)).
Proof.
  induction ms as [|x r IH]; simpl; intros H.
  - split; [constructor | auto].
  - inversion H as [|? ? Hx Hr]; subst. destruct (str_eqb (m_id x) id) eqn:E.
    + apply str_eqb_eq in E; subst. auto.
    + destruct (IH Hr) as [A B]. simpl. split.
      * constructor; auto. intros Hin. apply Hx. apply in_map_iff in Hin. destruct Hin as [m [Hm Hin]].
        rewrite <- Hm. apply in_map. eapply remove_first_In; eauto.
      * intros [F|F]; auto. subst. rewrite str_eqb_refl in E. discriminate.
Qed.

Lemma mark_seen_ids id ms : map m_id (mark_seen id ms) = map m_id ms.
Proof.
  induction ms as [|x r IH]; simpl; auto. destruct (str_eqb (m_id x) id); simpl; [auto | rewrite IH; auto].
Qed.

Lemma mark_seen_keeps id ms m : In m ms -> m_id m <> id -> In m (mark_seen id ms).
Proof.
  induction ms as [|x r IH]; simpl; auto. intros [->|H] Hne.
  - destruct (str_eqb (m_id m) id) eqn:E; [apply str_eqb_eq in E; contradiction | simpl; auto].
  - destruct (str_eqb (m_id x) id); simpl; auto.
Qed.

Lemma find_id_In id ms m : find_id id ms = Some m -> In id (map m_id ms).
Proof.
  induction ms as [|x r IH]; simpl; [discriminate|]. destruct (str_eqb (m_id x) id) eqn:E.
  - apply str_eqb_eq in E. auto.
  - auto.
Qed.

Lemma pick_id_fresh cands ms id : pick_id cands ms = Some id -> ~ In id (map m_id ms).
Proof.
  induction cands as [|c r IH]; simpl; [discriminate|]. destruct (has_id c ms) eqn:E; auto.
  intros H; inversion H; subst. intros Hin. apply has_id_In in Hin. congruence.
Qed.

Lemma evict_count_le cap n : (evict_count cap n <= n)%nat.
Proof.
  destruct cap as [|c]; [simpl; lia|].
  change (evict_count (S c) n) with (if Nat.leb (S c) n then S (n - S c) else 0%nat).
  destruct (Nat.leb (S c) n) eqn:E; [apply Nat.leb_le in E|]; lia.
Qed.

Lemma In_skipn {A} (x : A) j l : In x (skipn j l) -> In x l.
Proof. revert l; induction j; intros l; simpl; auto. destruct l; simpl; auto. Qed.

Lemma skipn_S_incl {A} (l : list A) j k : (j <= k)%nat -> incl (skipn k l) (skipn j l).
Proof.
  revert l k; induction j; intros l k H x Hx.
  - simpl. eapply In_skipn; eauto.
  - destruct k; [lia|]. destruct l; simpl in *; auto. apply (IHj l k); [lia | exact Hx].
Qed.

Lemma NoDup_skipn {A} j (l : list A) : NoDup l -> NoDup (skipn j l).
Proof.
  revert l; induction j; intros l H; simpl; auto. destruct l; auto. inversion H; auto.
Qed.

Section Ops.
  Variable enc : index -> str.
  Variable dec : str -> option index.
  Hypothesis dec_enc : forall i, dec (enc i) = Some i.
  Variable hash : str -> str.
  Variable cap : nat.

  Notation Inv := (Inv dec).
  Notation Q := (Q dec).
  Notation U := (U dec).
  Notation live := (live dec).
  Notation hidden := (hidden dec).
  Notation Loaded := (Loaded dec).
  Notation view := (view dec).
  Notation steps := (steps enc dec hash cap).
  Notation exec := (exec enc dec hash cap).
  Notation ids := (map m_id).

  Lemma U_Loaded d h nm ms ks d' : U d h nm ms ks d' -> Loaded d' h nm ms.
  Proof. intros H; apply H. Qed.
  Lemma U_Inv d h nm ms ks d' : U d h nm ms ks d' -> Inv d'.
  Proof. intros H; apply H. Qed.

  (** ** removeMessage *)
  Lemma remove_phase d h nm ms id :
    Inv d -> Loaded d h nm ms -> In id (ids ms) ->
    Spec d (p_remove enc h nm ms id d)
      (fun d' => Q d d' \/ U d h nm (remove_first id ms) (ids (remove_first id ms)) d')
      (U d h nm (remove_first id ms) (ids (remove_first id ms))).
  Proof.
    intros HI HL Hin. destruct (Loaded_facts dec d h nm ms (proj2 HI h) HL) as [Hnd [Hraw Hlive]].
    destruct (remove_first_NoDup id ms Hnd) as [Hnd' Hnotin].
    unfold p_remove. set (ms' := remove_first id ms) in *.
    destruct ms' as [|m0 r] eqn:E.
    - eapply Spec_pseq with (M2 := fun d' => U d h nm [] [] d').
      + apply (empty_phase enc dec d h nm HI).
      + intros d1 _ U1. apply Spec_nil; exact U1.
      + auto.
      + auto.
    - rewrite <- E in *.
      assert (Hne : ms' <> []) by (rewrite E; discriminate).
      assert (Hraw' : forall m, In m ms' -> exists c, lookup d (raw h (m_id m)) = Some (File c)).
      { intros m Hm. apply Hraw. eapply remove_first_In; eauto. }
      eapply Spec_pseq with (M2 := fun d' => U d h nm ms' (ids ms') d').
      + apply (index_phase enc dec dec_enc d h nm ms' HI Hne Hnd' Hraw').
      + intros d1 _ [U1 L1]. rewrite E. rewrite <- E.
        assert (I1 : Inv d1) by apply U1.
        assert (Hid : exists m, In m ms /\ m_id m = id).
        { apply in_map_iff in Hin. destruct Hin as [m [A B]]. eauto. }
        destruct Hid as [m [Hm Hmid]]. destruct (Hraw m Hm) as [c Hc]. rewrite Hmid in Hc.
        assert (Hc1 : lookup d1 (raw h id) = Some (File c)).
        { rewrite L1; auto; [apply raw_ne_idx | apply raw_ne_tmp]. }
        assert (HQ : Q d1 (del (raw h id) d1)).
        { eapply (touch_Q dec d1 _ (raw h id)); auto.
          - apply hidden_raw. intros Hl. apply Hnotin. eapply live_Loaded; eauto. apply U1.
          - intros q Hq. rewrite lookup_del, path_eqb_neq; auto.
          - right; left. rewrite lookup_del, path_eqb_refl. auto. }
        eapply Spec_step; [cbn [apply_step]; rewrite Hc1; reflexivity | exact U1 | eapply U_Q; eauto
                          | intros v d' Hmid'; destruct v; discriminate | eapply U_Q; eauto].
      + intros x [Hx|[Hx _]]; auto.
      + auto.
  Qed.

  (** ** cap eviction: the first n messages go, one index commit each *)
  Lemma evict_phase n : forall d h nm ms,
    Inv d -> Loaded d h nm ms -> (n <= length ms)%nat ->
    Spec d (p_evict enc n h nm ms d)
      (fun d' => exists j, (j <= n)%nat /\ U d h nm (skipn j ms) (ids (skipn j ms)) d')
      (U d h nm (skipn n ms) (ids (skipn n ms))).
  Proof.
    induction n as [|n IH]; intros d h nm ms HI HL Hn.
    - simpl. assert (U0 : U d h nm ms (ids ms) d) by (apply Q_U; auto; apply Q_refl; auto).
      destruct ms; apply Spec_nil; auto; exists 0%nat; auto.
    - destruct ms as [|m ms']; [simpl in Hn; lia|]. simpl p_evict.
      assert (Hrf : remove_first (m_id m) (m :: ms') = ms') by (simpl; rewrite str_eqb_refl; auto).
      eapply Spec_pseq with (M2 := fun d' => exists j, (j <= S n)%nat /\
                 U d h nm (skipn j (m :: ms')) (ids (skipn j (m :: ms'))) d').
      + apply (remove_phase d h nm (m :: ms') (m_id m) HI HL). simpl; auto.
      + intros d1 _ U1. rewrite Hrf in U1.
        eapply Spec_weaken.
        * apply (IH d1 h nm ms' (U_Inv _ _ _ _ _ _ U1) (U_Loaded _ _ _ _ _ _ U1)). simpl in Hn. lia.
        * intros x [j [Hj Hx]]. exists (S j). split; [lia|]. simpl.
          eapply U_U; [exact U1 | exact Hx |]. apply incl_map. apply (skipn_S_incl ms' 0 j). lia.
        * intros x Hx. simpl.
          eapply U_U; [exact U1 | exact Hx |]. apply incl_map. apply (skipn_S_incl ms' 0 n). lia.
      + intros x [Hx|Hx].
        * exists 0%nat. split; [lia|]. simpl. apply Q_U; auto.
        * exists 1%nat. split; [lia|]. simpl. rewrite Hrf in Hx. auto.
      + auto.
  Qed.

  (** ** the four operations *)
  Definition nev (o : op) (ms : list meta) : nat :=
    match o with FileDisk.Add _ _ _ _ => evict_count cap (length ms) | _ => O end.

  Definition post_ms (o : op) (ms : list meta) : list meta :=
    match o with
    | FileDisk.Add _ info body cands =>
        match pick_id cands (skipn (evict_count cap (length ms)) ms) with
        | Some id => skipn (evict_count cap (length ms)) ms ++ [new_meta id info body]
        | None => skipn (evict_count cap (length ms)) ms
        end
    | Seen _ id => match find_id id ms with
                   | Some m => if m_seen m then ms else mark_seen id ms
                   | None => ms
                   end
    | Remove _ id => if has_id id ms then remove_first id ms else ms
    | Purge _ => []
    end.

  (** ids of the messages the operation does not name: their content is untouched *)
  Definition kept (o : op) (ms : list meta) : list str :=
    match o with
    | FileDisk.Add _ _ _ _ => ids (skipn (evict_count cap (length ms)) ms)
    | Seen _ _ => ids ms
    | Remove _ id => if has_id id ms then ids (remove_first id ms) else ids ms
    | Purge _ => []
    end.

  Definition newraw (o : op) (ms : list meta) (h : str) (d' : disk) : Prop :=
    match o with
    | FileDisk.Add _ info body cands =>
        match pick_id cands (skipn (evict_count cap (length ms)) ms) with
        | Some id => lookup d' (raw h id) = Some (File body)
        | None => True
        end
    | _ => True
    end.

  Definition PostO (d : disk) (o : op) (h nm : str) (ms : list meta) (d' : disk) : Prop :=
    U d h nm (post_ms o ms) (kept o ms) d' /\ newraw o ms h d'.

  Definition MidO (d : disk) (o : op) (h nm : str) (ms : list meta) (d' : disk) : Prop :=
    (exists j, (j <= nev o ms)%nat /\ U d h nm (skipn j ms) (ids (skipn j ms)) d') \/ PostO d o h nm ms d'.

  Lemma NoDup_snoc {A} (l : list A) x : NoDup l -> ~ In x l -> NoDup (l ++ [x]).
  Proof.
    induction l as [|y l IH]; simpl; intros H Hx.
    - constructor; auto.
    - inversion H; subst. constructor.
      + rewrite in_app_iff. simpl. intros [F|[F|[]]]; auto.
      + apply IH; auto.
  Qed.

  Lemma add_spec d h nm ms info body id :
    Inv d -> Loaded d h nm ms ->
    let n := evict_count cap (length ms) in
    let ms1 := skipn n ms in
    ~ In id (ids ms1) ->
    Spec d (pseq (p_evict enc n h nm ms)
              (pseq (p_mkdir h)
                 (pseq (p_file Raw (raw h id) body)
                    (p_write_index enc h nm (ms1 ++ [new_meta id info body])))) d)
      (fun d' => (exists j, (j <= n)%nat /\ U d h nm (skipn j ms) (ids (skipn j ms)) d') \/
                 (U d h nm (ms1 ++ [new_meta id info body]) (ids ms1) d' /\ lookup d' (raw h id) = Some (File body)))
      (fun d' => U d h nm (ms1 ++ [new_meta id info body]) (ids ms1) d' /\ lookup d' (raw h id) = Some (File body)).
  Proof.
    intros HI HL n ms1 Hfresh.
    assert (Hn : (n <= length ms)%nat) by apply evict_count_le.
    set (post := ms1 ++ [new_meta id info body]).
    set (MM := fun d' => (exists j, (j <= n)%nat /\ U d h nm (skipn j ms) (ids (skipn j ms)) d') \/
                 (U d h nm post (ids ms1) d' /\ lookup d' (raw h id) = Some (File body))).
    assert (W : forall x, U d h nm ms1 (ids ms1) x -> MM x).
    { intros x Hx. left. exists n. split; auto. }
    eapply Spec_pseq with (M2 := MM).
    - apply (evict_phase n d h nm ms HI HL Hn).
    - intros d1 _ U1. fold ms1 in U1.
      eapply Spec_pseq with (M1 := U d h nm ms1 (ids ms1)) (M2 := MM).
      + eapply Spec_weaken; [apply (mkdir_phase dec d1 h (U_Inv _ _ _ _ _ _ U1)) | |].
        * intros x Hx. eapply U_Q; eauto.
        * intros x Hx. exact Hx.
      + intros d2 _ [Q12 [Hdir2 L2]].
        assert (U2 : U d h nm ms1 (ids ms1) d2) by (eapply U_Q; eauto).
        eapply Spec_pseq with (M1 := U d h nm ms1 (ids ms1)) (M2 := MM).
        * eapply Spec_weaken; [apply (file_phase dec d2 Raw (raw h id) body) | |].
          -- apply U2.
          -- apply len_raw.
          -- apply hidden_raw. intros Hl. apply Hfresh. eapply live_Loaded; [apply U2 | exact Hl].
          -- rewrite parent_raw. exact Hdir2.
          -- intros x Hx. eapply U_Q; eauto.
          -- intros x Hx. exact Hx.
        * intros d3 _ [Q23 [Lraw3 L3]].
          assert (U3 : U d h nm ms1 (ids ms1) d3) by (eapply U_Q; eauto).
          assert (I3 : Inv d3) by apply U3.
          destruct (Loaded_facts dec d3 h nm ms1 (proj2 I3 h) (U_Loaded _ _ _ _ _ _ U3)) as [Hnd [Hraw _]].
          assert (Hne : post <> []) by (unfold post; destruct ms1; discriminate).
          assert (Hnd' : NoDup (ids post)).
          { unfold post. rewrite map_app. simpl. apply NoDup_snoc; auto. }
          assert (Hraw' : forall m, In m post -> exists c, lookup d3 (raw h (m_id m)) = Some (File c)).
          { intros m Hm. unfold post in Hm. apply in_app_or in Hm. destruct Hm as [Hm|[<-|[]]]; auto.
            simpl. eauto. }
          assert (Fin : forall x, U d3 h nm post (ids post) x /\
                     (forall q, length q = 4%nat -> q <> idx h -> q <> tmp h -> lookup x q = lookup d3 q) ->
                     U d h nm post (ids ms1) x /\ lookup x (raw h id) = Some (File body)).
          { intros x [Hx Lx]. split.
            - eapply U_U; [exact U3 | | apply incl_refl].
              eapply U_weaken; [exact Hx|]. unfold post. rewrite map_app. apply incl_appl. apply incl_refl.
            - rewrite Lx; [exact Lraw3 | apply len_raw | apply raw_ne_idx | apply raw_ne_tmp]. }
          eapply Spec_weaken; [apply (index_phase enc dec dec_enc d3 h nm post I3 Hne Hnd' Hraw') | |].
          -- intros x [Hx|Hx].
             ++ apply W. eapply U_Q; eauto.
             ++ right. apply Fin; auto.
          -- intros x Hx. apply Fin; auto.
        * exact W.
        * auto.
      + exact W.
      + auto.
    - intros x [j [Hj Hx]]. left. exists j. auto.
    - auto.
  Qed.

  Theorem steps_spec d o nm ms :
    Inv d -> read_index dec d (hash (op_mailbox o)) (op_mailbox o) = Some (nm, ms) ->
    Spec d (steps o d) (MidO d o (hash (op_mailbox o)) nm ms) (PostO d o (hash (op_mailbox o)) nm ms).
  Proof.
    intros HI Hri.
    assert (HL : Loaded d (hash (op_mailbox o)) nm ms).
    { eapply read_index_Loaded; eauto. apply HI. }
    assert (U0 : U d (hash (op_mailbox o)) nm ms (ids ms) d) by (apply Q_U; auto; apply Q_refl; auto).
    assert (Mid0 : forall x, Q d x -> exists j, (j <= 0)%nat /\
                U d (hash (op_mailbox o)) nm (skipn j ms) (ids (skipn j ms)) x).
    { intros x Hx. exists 0%nat. split; [lia|]. simpl. apply Q_U; auto. }
    unfold steps. rewrite Hri.
    destruct o as [mb info body cands | mb id | mb id | mb]; cbn [op_mailbox] in *.
    - (* Add *)
      unfold MidO, PostO, post_ms, kept, newraw, nev.
      destruct (pick_id cands (skipn (evict_count cap (length ms)) ms)) as [id|] eqn:Hp.
      + apply add_spec; auto. eapply pick_id_fresh; eauto.
      + eapply Spec_weaken; [apply (evict_phase (evict_count cap (length ms)) d (hash mb) nm ms HI HL (evict_count_le _ _)) | |].
        * intros x Hx. left. exact Hx.
        * intros x Hx. split; auto.
    - (* Seen *)
      unfold MidO, PostO, post_ms, kept, newraw, nev.
      destruct (find_id id ms) as [m|] eqn:Hf.
      + destruct (m_seen m).
        * apply Spec_nil; [left; apply Mid0; apply Q_refl; auto | split; auto].
        * destruct (Loaded_facts dec d (hash mb) nm ms (proj2 HI _) HL) as [Hnd [Hraw _]].
          assert (Hne : mark_seen id ms <> []).
          { intros E. apply (f_equal ids) in E. rewrite mark_seen_ids in E.
            apply find_id_In in Hf. rewrite E in Hf. destruct Hf. }
          assert (Hraw' : forall m', In m' (mark_seen id ms) -> exists c, lookup d (raw (hash mb) (m_id m')) = Some (File c)).
          { intros m' Hm'. assert (Hi : In (m_id m') (ids ms)) by (rewrite <- (mark_seen_ids id); apply in_map; auto).
            apply in_map_iff in Hi. destruct Hi as [m0 [E0 H0]]. rewrite <- E0. auto. }
          eapply Spec_weaken; [apply (index_phase enc dec dec_enc d (hash mb) nm (mark_seen id ms) HI Hne) | |]; auto.
          -- rewrite mark_seen_ids; auto.
          -- intros x [Hx|[Hx _]]; [left; apply Mid0; auto|]. right. rewrite mark_seen_ids in Hx. split; auto.
          -- intros x [Hx _]. rewrite mark_seen_ids in Hx. split; auto.
      + apply Spec_nil; [left; apply Mid0; apply Q_refl; auto | split; auto].
    - (* Remove *)
      unfold MidO, PostO, post_ms, kept, newraw, nev.
      destruct (has_id id ms) eqn:Hh.
      + apply has_id_In in Hh.
        eapply Spec_weaken; [apply (remove_phase d (hash mb) nm ms id HI HL Hh) | |].
        * intros x [Hx|Hx]; [left; apply Mid0; auto|]. right. split; auto.
        * intros x Hx. split; auto.
      + apply Spec_nil; [left; apply Mid0; apply Q_refl; auto | split; auto].
    - (* Purge *)
      unfold MidO, PostO, post_ms, kept, newraw, nev.
      eapply Spec_weaken; [apply (empty_phase enc dec d (hash mb) nm HI) | |].
      + intros x [Hx|Hx]; [left; apply Mid0; auto|]. right. split; auto.
      + intros x Hx. split; auto.
  Qed.
End Ops.

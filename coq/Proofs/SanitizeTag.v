(** C18 — round trip through the tag-scanning model: a start tag that styleTagFilter wrote is
    scanned back into exactly the name and the (key, escaped value) pairs it wrote, whatever
    follows the tag; and the names / keys a scan hands out are of the shape the round trip needs.
    This replaces, for the attributes of rewritten tags, the assumption that "re-tokenising the
    rewriter's output gives the attributes back" by a theorem about the model of the tokenizer's
    tag scanner (itself compared with the real tokenizer on every start tag of every case). *)
From Coq Require Import Lia.
From IV Require Import Base.Bytes Gen.SanitizeConsts Model.Sanitize Model.SanitizeTag Proofs.SanitizeEscape.

Definition name_char (c : N) : bool := negb (is_ws c || (c =? 47) || (c =? 62)).
Definition wf_name_tail (n : str) : bool := forallb name_char n.
Definition wf_key (k : str) : bool :=
  match k with
  | [] => false
  | c :: r => name_char c && forallb (fun x => negb (key_stop x)) r
  end.

Definition render_kept (kv : str * str) : str := [32] ++ fst kv ++ [61; 34] ++ snd kv ++ [34].
Definition tag_tail (sc : bool) : str := (if sc then [47] else []) ++ [62].

(* ------------------------------------------------------------------ the single readers *)

Lemma name_char_not_ws : forall c, name_char c = true -> is_ws c = false /\ (c =? 47) = false /\ (c =? 62) = false.
Proof.
  intros c H. unfold name_char in H. apply negb_true_iff in H.
  apply orb_false_iff in H as [H H3]. apply orb_false_iff in H as [H1 H2]. auto.
Qed.

Lemma read_name_ws : forall n Y, wf_name_tail n = true -> read_name (n ++ 32 :: Y) = Some (n, Y).
Proof.
  induction n as [|c n IH]; intros Y H; cbn [app read_name].
  - reflexivity.
  - cbn [wf_name_tail forallb] in H. apply andb_prop in H as [Hc Hn].
    destruct (name_char_not_ws c Hc) as [A [B C]]. rewrite A, B, C. cbn [orb].
    rewrite (IH Y Hn). reflexivity.
Qed.

Lemma read_name_stop : forall n c Y, wf_name_tail n = true -> ((c =? 47) || (c =? 62)) = true -> is_ws c = false ->
  read_name (n ++ c :: Y) = Some (n, c :: Y).
Proof.
  induction n as [|x n IH]; intros c Y H Hc Hw; cbn [app read_name].
  - rewrite Hw, Hc. reflexivity.
  - cbn [wf_name_tail forallb] in H. apply andb_prop in H as [Hx Hn].
    destruct (name_char_not_ws x Hx) as [A [B C]]. rewrite A, B, C. cbn [orb].
    rewrite (IH c Y Hn Hc Hw). reflexivity.
Qed.

Lemma read_key_rest_app : forall r c Y, forallb (fun x => negb (key_stop x)) r = true -> key_stop c = true ->
  read_key_rest (r ++ c :: Y) = Some (r, c :: Y).
Proof.
  induction r as [|x r IH]; intros c Y H Hc; cbn [app read_key_rest].
  - rewrite Hc. reflexivity.
  - cbn [forallb] in H. apply andb_prop in H as [Hx Hr]. apply negb_true_iff in Hx. rewrite Hx.
    rewrite (IH c Y Hr Hc). reflexivity.
Qed.

Lemma read_key_wf : forall k Y, wf_key k = true -> read_key (k ++ 61 :: Y) = Some (k, 61 :: Y).
Proof.
  intros [|c r] Y H; [discriminate|]. cbn [wf_key] in H. apply andb_prop in H as [Hc Hr].
  cbn [app read_key]. destruct (c =? 61) eqn:E.
  - rewrite (read_key_rest_app r 61 Y Hr eq_refl). reflexivity.
  - change (c :: r ++ 61 :: Y) with ((c :: r) ++ 61 :: Y). apply read_key_rest_app; [|reflexivity].
    cbn [forallb]. rewrite Hr, andb_true_r. destruct (name_char_not_ws c Hc) as [A [B C]].
    unfold key_stop. rewrite E, A, B, C. reflexivity.
Qed.

Lemma read_quoted_app : forall q v Y, ~ In q v -> read_quoted q (v ++ q :: Y) = Some (v, Y).
Proof.
  induction v as [|c v IH]; intros Y H; cbn [app read_quoted].
  - rewrite N.eqb_refl. reflexivity.
  - destruct (c =? q) eqn:E; [apply N.eqb_eq in E; subst; exfalso; apply H; left; reflexivity|].
    rewrite IH by (intro; apply H; right; assumption). reflexivity.
Qed.

Lemma read_val_quoted : forall v Y, ~ In 34 v -> read_val (61 :: 34 :: v ++ 34 :: Y) = Some (v, Y).
Proof.
  intros v Y H. unfold read_val. cbn [skip_ws]. change (is_ws 61) with false. cbv iota.
  change (61 =? 47) with false. change (61 =? 61) with true. cbn [negb]. cbv iota.
  cbn [skip_ws]. change (is_ws 34) with false. cbv iota.
  change (34 =? 62) with false. change ((34 =? 39) || (34 =? 34)) with true. cbv iota.
  apply read_quoted_app. exact H.
Qed.

Lemma skip_ws_length : forall s, (length (skip_ws s) <= length s)%nat.
Proof. induction s as [|c s IH]; cbn [skip_ws length]; [lia|]. destruct (is_ws c); cbn [length]; lia. Qed.

Lemma skip_ws_head : forall c s, is_ws c = false -> skip_ws (c :: s) = c :: s.
Proof. intros c s H. cbn [skip_ws]. rewrite H. reflexivity. Qed.

(* ------------------------------------------------------------------------ the loop *)

(** what follows the name once white space is skipped *)
Definition after_name (K : list (str * str)) (sc : bool) (rest : str) : str :=
  skip_ws (flat_map render_kept K ++ tag_tail sc ++ rest).

Definition kept_ok (kv : str * str) : Prop := wf_key (fst kv) = true /\ ~ In 34 (snd kv).

Lemma wf_key_head : forall k, wf_key k = true -> exists c r, k = c :: r /\ is_ws c = false /\ (c =? 62) = false.
Proof.
  intros [|c r] H; [discriminate|]. cbn [wf_key] in H. apply andb_prop in H as [Hc _].
  destruct (name_char_not_ws c Hc) as [A [_ C]]. eauto.
Qed.

Lemma after_name_cons : forall k v K sc rest, wf_key k = true ->
  after_name ((k, v) :: K) sc rest = k ++ 61 :: 34 :: v ++ 34 :: (flat_map render_kept K ++ tag_tail sc ++ rest).
Proof.
  intros k v K sc rest H. unfold after_name. cbn [flat_map render_kept fst snd app].
  cbn [skip_ws]. change (is_ws 32) with true. cbv iota.
  destruct (wf_key_head k H) as [c [r [-> [A _]]]]. rewrite <- !app_assoc. cbn [app].
  rewrite skip_ws_head by exact A. rewrite <- !app_assoc. reflexivity.
Qed.

Lemma after_name_nil : forall sc rest, after_name [] sc rest = tag_tail sc ++ rest.
Proof. intros [|] rest; reflexivity. Qed.

Lemma after_name_nonempty : forall K sc rest, Forall kept_ok K -> after_name K sc rest <> [].
Proof.
  intros [|[k v] K] sc rest H.
  - rewrite after_name_nil. destruct sc; discriminate.
  - inversion H; subst. destruct H2 as [Hk _]. rewrite after_name_cons by exact Hk.
    destruct (wf_key_head k Hk) as [c [r [-> _]]]. discriminate.
Qed.

Lemma scan_attrs_step : forall f c r k s1 v s2,
  (c =? 62) = false -> read_key (c :: r) = Some (k, s1) -> read_val s1 = Some (v, s2) -> skip_ws s2 <> [] ->
  scan_attrs (S f) (c :: r) =
  match scan_attrs f (skip_ws s2) with
  | Some (attrs, rest) => Some (if is_nil k then attrs else (k, v) :: attrs, rest)
  | None => None
  end.
Proof.
  intros f c r k s1 v s2 C RK RV NE. cbn [scan_attrs]. rewrite C, RK, RV.
  destruct (skip_ws s2); [congruence|reflexivity].
Qed.

Lemma scan_attrs_kept : forall K sc rest fuel, Forall kept_ok K ->
  (length (after_name K sc rest) < fuel)%nat ->
  scan_attrs fuel (after_name K sc rest) = Some (K, rest).
Proof.
  induction K as [|[k v] K IH]; intros sc rest fuel H L.
  - rewrite after_name_nil in *. destruct fuel as [|f]; [lia|]. destruct sc.
    + change (tag_tail true ++ rest) with (47 :: 62 :: rest) in *. cbn [length] in L.
      destruct f as [|f]; [lia|]. reflexivity.
    + reflexivity.
  - inversion H as [|x l [Hk Hv] HK]; subst. cbn [fst snd] in Hk, Hv.
    rewrite after_name_cons in * by exact Hk.
    set (X := flat_map render_kept K ++ tag_tail sc ++ rest) in *.
    destruct fuel as [|f]; [lia|].
    pose proof (read_key_wf k (34 :: v ++ 34 :: X) Hk) as RK.
    pose proof (read_val_quoted v X Hv) as RV.
    pose proof (after_name_nonempty K sc rest HK) as NE. unfold after_name in NE. fold X in NE.
    destruct (wf_key_head k Hk) as [c [r [Ek [_ C62]]]].
    assert (E : k ++ 61 :: 34 :: v ++ 34 :: X = c :: (r ++ 61 :: 34 :: v ++ 34 :: X)) by (rewrite Ek; reflexivity).
    rewrite E in RK |- *.
    rewrite (scan_attrs_step f c _ k _ v X C62 RK RV NE).
    change (skip_ws X) with (after_name K sc rest).
    rewrite IH.
    + assert (is_nil k = false) as -> by (rewrite Ek; reflexivity). reflexivity.
    + exact HK.
    + pose proof (skip_ws_length X) as SL. change (skip_ws X) with (after_name K sc rest) in SL.
      rewrite E in L. cbn [length] in L. rewrite !app_length in L. cbn [length] in L. rewrite !app_length in L. cbn [length] in L. lia.
Qed.

(* ------------------------------------------------------------------------ the tag *)

Theorem scan_written_tag : forall c0 n K sc rest,
  wf_name_tail n = true -> Forall kept_ok K ->
  scan_tag c0 (n ++ flat_map render_kept K ++ tag_tail sc ++ rest) = Some (c0 :: n, K, rest).
Proof.
  intros c0 n K sc rest Hn HK. unfold scan_tag.
  assert (R : exists s1, read_name (n ++ flat_map render_kept K ++ tag_tail sc ++ rest) = Some (n, s1)
                         /\ skip_ws s1 = after_name K sc rest).
  { destruct K as [|[k v] K].
    - cbn [flat_map app]. destruct sc.
      + exists (47 :: 62 :: rest). split; [apply read_name_stop; auto|reflexivity].
      + exists (62 :: rest). split; [apply (read_name_stop n 62 rest); auto|reflexivity].
    - cbn [flat_map render_kept fst snd app].
      eexists. split; [apply read_name_ws; exact Hn|]. unfold after_name.
      cbn [flat_map render_kept fst snd app]. change (is_ws 32) with true. cbv iota. reflexivity. }
  destruct R as [s1 [R1 R2]]. rewrite R1, R2.
  pose proof (after_name_nonempty K sc rest HK) as NE.
  destruct (after_name K sc rest) as [|a s2] eqn:EA; [congruence|]. rewrite <- EA.
  rewrite scan_attrs_kept; [reflexivity|exact HK|rewrite EA; cbn [length]; lia].
Qed.

(* ------------------------------------------------ what styleTagFilter writes is of that shape *)

Definition kept_of (a : attr) : list (str * str) :=
  match a with
  | Attr key val toks =>
      let style := str_eqb (go_lower key) style_key in
      let v := if style then sanitize_style toks else val in
      if style && is_nil v then [] else [(key, escape esc_x v)]
  end.

Lemma filter_attr_kept : forall a, filter_attr a = flat_map render_kept (kept_of a).
Proof.
  intros [key val toks]. unfold filter_attr, kept_of. cbv zeta.
  match goal with |- context [if ?c then [] else _] => destruct c end.
  - reflexivity.
  - cbn [flat_map render_kept fst snd]. rewrite app_nil_r. reflexivity.
Qed.

Lemma flat_filter_kept : forall attrs, flat_map filter_attr attrs = flat_map render_kept (flat_map kept_of attrs).
Proof.
  induction attrs as [|a attrs IH]; [reflexivity|]. cbn [flat_map]. rewrite flat_map_app, IH, filter_attr_kept. reflexivity.
Qed.

Definition attr_key (a : attr) : str := match a with Attr k _ _ => k end.

Lemma kept_of_ok : forall attrs, Forall (fun a => wf_key (attr_key a) = true) attrs -> Forall kept_ok (flat_map kept_of attrs).
Proof.
  induction attrs as [|[key val toks] attrs IH]; intro H; [constructor|].
  inversion H; subst. cbn [flat_map]. apply Forall_app. split; [|auto].
  unfold kept_of. cbv zeta. match goal with |- context [if ?c then [] else _] => destruct c end; constructor; [|constructor].
  split; [assumption|]. cbn [snd]. intro I.
  destruct (proj1 (proj2 escape_no_active_chars) _ _ I) as [_ [_ [Q _]]]. congruence.
Qed.

(** ROUND TRIP: the start tag styleTagFilter writes for (name, attrs, selfclosing), followed by
    anything, is scanned back into the name and exactly the attributes it kept, each with the
    escaped value it wrote; the scan ends right after the tag. Hypotheses: the name and keys have
    the shape a scan produces (scan_gives_wf below) — no white space, solidus, greater-than in
    the name; keys non-empty without those and without an equals sign after the first byte. *)
Theorem rewritten_tag_scans_back : forall c0 n attrs sc rest,
  wf_name_tail n = true -> Forall (fun a => wf_key (attr_key a) = true) attrs ->
  scan_tag c0 (tl (tl (filter_item (Tag (c0 :: n) attrs sc))) ++ rest)
  = Some (c0 :: n, flat_map kept_of attrs, rest).
Proof.
  intros c0 n attrs sc rest Hn Ha. cbn [filter_item app tl].
  rewrite flat_filter_kept. rewrite <- !app_assoc.
  replace ((if sc then [47] else []) ++ [62] ++ rest) with (tag_tail sc ++ rest)
    by (unfold tag_tail; rewrite <- app_assoc; reflexivity).
  apply scan_written_tag; [exact Hn|apply kept_of_ok; exact Ha].
Qed.

(* ------------------------------------------------------ names and keys a scan hands out *)

Lemma read_name_wf : forall s n rest, read_name s = Some (n, rest) -> wf_name_tail n = true.
Proof.
  induction s as [|c s IH]; intros n rest H; cbn [read_name] in H; [discriminate|].
  destruct (is_ws c) eqn:W; [inversion H; reflexivity|].
  destruct ((c =? 47) || (c =? 62)) eqn:S; [inversion H; reflexivity|].
  destruct (read_name s) as [[n' r']|] eqn:R; [|discriminate]. inversion H; subst.
  pose proof (IH _ _ eq_refl) as T. unfold wf_name_tail in *. cbn [forallb]. rewrite T, andb_true_r.
  unfold name_char. rewrite W. apply orb_false_iff in S as [A B]. rewrite A, B. reflexivity.
Qed.

Lemma read_key_rest_wf : forall s k rest, read_key_rest s = Some (k, rest) -> forallb (fun x => negb (key_stop x)) k = true.
Proof.
  induction s as [|c s IH]; intros k rest H; cbn [read_key_rest] in H; [discriminate|].
  destruct (key_stop c) eqn:S; [inversion H; reflexivity|].
  destruct (read_key_rest s) as [[k' r']|] eqn:R; [|discriminate]. inversion H; subst.
  cbn [forallb]. rewrite S, (IH _ _ eq_refl). reflexivity.
Qed.

Lemma read_key_gives_wf : forall c s k rest, is_ws c = false -> (c =? 62) = false ->
  read_key (c :: s) = Some (k, rest) -> k <> [] -> wf_key k = true.
Proof.
  intros c s k rest W G H NE. cbn [read_key] in H. destruct (c =? 61) eqn:E.
  - destruct (read_key_rest s) as [[k' r']|] eqn:R; [|discriminate]. inversion H; subst.
    cbn [wf_key]. rewrite (read_key_rest_wf _ _ _ R), andb_true_r.
    apply N.eqb_eq in E. subst c. reflexivity.
  - cbn [read_key_rest] in H. destruct (key_stop c) eqn:S; [inversion H; subst; congruence|].
    destruct (read_key_rest s) as [[k' r']|] eqn:R; [|discriminate]. inversion H; subst.
    cbn [wf_key]. rewrite (read_key_rest_wf _ _ _ R), andb_true_r.
    unfold key_stop in S. apply orb_false_iff in S as [S S4]. apply orb_false_iff in S as [S S3].
    unfold name_char. rewrite W, S3, S4. reflexivity.
Qed.

Lemma skip_ws_head_not_ws : forall s c r, skip_ws s = c :: r -> is_ws c = false.
Proof.
  induction s as [|x s IH]; intros c r H; cbn [skip_ws] in H; [discriminate|].
  destruct (is_ws x) eqn:W; [eauto|]. inversion H; subst. exact W.
Qed.

Lemma scan_attrs_keys_wf : forall fuel s attrs rest,
  (forall c r, s = c :: r -> is_ws c = false) ->
  scan_attrs fuel s = Some (attrs, rest) -> Forall (fun kv => wf_key (fst kv) = true) attrs.
Proof.
  induction fuel as [|f IH]; intros s attrs rest Hh H; cbn [scan_attrs] in H; [discriminate|].
  destruct s as [|c r]; [discriminate|]. destruct (c =? 62) eqn:G; [inversion H; constructor|].
  destruct (read_key (c :: r)) as [[k s1]|] eqn:RK; [|discriminate].
  destruct (read_val s1) as [[v s2]|]; [|discriminate].
  destruct (skip_ws s2) as [|a s3] eqn:SK; [discriminate|].
  destruct (scan_attrs f (a :: s3)) as [[attrs' rest']|] eqn:SA; [|discriminate].
  inversion H; subst.
  assert (T : Forall (fun kv => wf_key (fst kv) = true) attrs').
  { eapply IH; [|exact SA]. intros c' r' E. inversion E; subst. eapply skip_ws_head_not_ws; eauto. }
  destruct (is_nil k) eqn:NK; [exact T|]. constructor; [|exact T]. cbn [fst].
  eapply read_key_gives_wf; eauto. intro; subst; discriminate.
Qed.

(** lower-casing (TagName / TagAttr) keeps the shape *)
Lemma lower_b_key_stop : forall c, key_stop (lower_b c) = key_stop c.
Proof.
  intro c. unfold lower_b. destruct (is_upper c) eqn:U; [|reflexivity].
  unfold is_upper in U. apply andb_prop in U as [A B]. apply N.leb_le in A, B.
  unfold key_stop, is_ws.
  repeat match goal with |- context [?x =? ?y] =>
    let E := fresh in destruct (x =? y) eqn:E; [apply N.eqb_eq in E; lia|] end.
  reflexivity.
Qed.

Lemma lower_b_name_char : forall c, name_char (lower_b c) = name_char c.
Proof.
  intro c. unfold lower_b. destruct (is_upper c) eqn:U; [|reflexivity].
  unfold is_upper in U. apply andb_prop in U as [A B]. apply N.leb_le in A, B.
  unfold name_char, is_ws.
  repeat match goal with |- context [?x =? ?y] =>
    let E := fresh in destruct (x =? y) eqn:E; [apply N.eqb_eq in E; lia|] end.
  reflexivity.
Qed.

Lemma lower_wf_key : forall k, wf_key k = true -> wf_key (lower k) = true.
Proof.
  intros [|c r] H; [discriminate|]. cbn [wf_key lower map] in *. apply andb_prop in H as [Hc Hr].
  rewrite lower_b_name_char, Hc. cbn [andb].
  rewrite forallb_forall in Hr. apply forallb_forall. intros x I. apply in_map_iff in I as [y [<- I]].
  rewrite lower_b_key_stop. auto.
Qed.

Lemma lower_wf_name : forall n, wf_name_tail n = true -> wf_name_tail (lower n) = true.
Proof.
  intros n H. unfold wf_name_tail in *. rewrite forallb_forall in H. apply forallb_forall.
  intros x I. apply in_map_iff in I as [y [<- I]]. rewrite lower_b_name_char. auto.
Qed.

(** the names and keys scan_start_tag hands out (lower-cased) have the shape the round trip needs *)
Theorem scan_gives_wf : forall c0 s n attrs sc rest,
  scan_start_tag c0 s = Some (n, attrs, sc, rest) ->
  (exists n', n = lower_b c0 :: n' /\ wf_name_tail n' = true)
  /\ Forall (fun kv => wf_key (fst kv) = true) attrs.
Proof.
  intros c0 s n attrs sc rest H. unfold scan_start_tag in H.
  destruct (scan_tag c0 s) as [[[n0 attrs0] rest0]|] eqn:ST; [|discriminate]. inversion H; subst; clear H.
  unfold scan_tag in ST. destruct (read_name s) as [[n1 s1]|] eqn:RN; [|discriminate].
  destruct (skip_ws s1) as [|a s2] eqn:SK; [discriminate|].
  destruct (scan_attrs (S (length (a :: s2))) (a :: s2)) as [[attrs1 rest1]|] eqn:SA; [|discriminate].
  inversion ST; subst; clear ST. split.
  - exists (lower n1). split; [reflexivity|]. apply lower_wf_name. eapply read_name_wf; eauto.
  - assert (T : Forall (fun kv => wf_key (fst kv) = true) attrs0).
    { eapply scan_attrs_keys_wf; [|exact SA]. intros c r E. inversion E; subst. eapply skip_ws_head_not_ws; eauto. }
    clear SA. induction T; cbn [map]; constructor; auto. cbn [fst]. apply lower_wf_key. assumption.
Qed.

(* ------------------------------------------------------------------------ non-vacuity *)
(* p id=x style=color:red (no space before style, as in seed q1), then a second tag *)
Example scan_example :
  scan_start_tag 112 [32;105;100;61;34;120;34;83;84;89;76;69;61;39;99;111;108;111;114;58;114;101;100;39;47;62;60;98;62]
  = Some ([112], [([105;100], [120]); ([115;116;121;108;101], [99;111;108;111;114;58;114;101;100])], true, [60;98;62]).
Proof. vm_compute. reflexivity. Qed.

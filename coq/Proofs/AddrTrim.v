(** C04: the RCPT handler's strings.Trim(arg[3:], "<> ") (cutset read from the source) never
    alters an address NewRecipient accepts: what is stored for `RCPT TO:<a>` is stored for a. *)
From IV Require Import Base.Bytes Base.BytesFacts Model.Addr Model.IpLit Model.AddrFlow
  Proofs.AddrFacts Proofs.AddrScan Proofs.AddrDomain Proofs.AddrNaming Proofs.AddrPlus Proofs.AddrPlusAny Proofs.IpLit.
From Coq Require Import ZifyN ZifyNat ZifyBool.

Lemma trim_left_id cut s : (match s with c :: _ => mem_b c cut = false | [] => True end) -> trim_left cut s = s.
Proof. destruct s as [|c t]; [reflexivity|]. intros H. cbn [trim_left]. rewrite H. reflexivity. Qed.

Lemma trim_id cut s : s <> [] -> mem_b (nth 0 s 0) cut = false -> mem_b (last s 0) cut = false -> trim cut s = s.
Proof.
  intros Hs H1 H2. unfold trim. destruct s as [|c t]; [congruence|]. simpl nth in H1.
  rewrite (trim_left_id cut (c :: t)) by exact H1.
  assert (R : exists z u, rev (c :: t) = z :: u /\ z = last (c :: t) 0).
  { destruct (exists_last (l := c :: t) ltac:(discriminate)) as [u [z E]]. rewrite E. rewrite rev_app_distr. cbn [rev app].
    exists z, (rev u). split; [reflexivity|]. rewrite last_last. reflexivity. }
  destruct R as [z [u [R ->]]]. rewrite R. rewrite trim_left_id by exact H2. rewrite <- R. apply rev_involutive.
Qed.

(** the cutset's bytes are refused at the start of an address and cannot end a validated domain *)
Lemma cutset_bytes : rcpt_handler_trim_cutset = [60; 62; 32]. Proof. reflexivity. Qed.

Lemma in_cutset c : mem_b c rcpt_handler_trim_cutset = true -> c = 60 \/ c = 62 \/ c = 32.
Proof. rewrite cutset_bytes. cbn [mem_b]. intros H. lia. Qed.

Lemma parse_email_first_not_cut a l d : parse_email a = Some (l, d) -> mem_b (nth 0 a 0) rcpt_handler_trim_cutset = false.
Proof.
  intros P. destruct (mem_b (nth 0 a 0) rcpt_handler_trim_cutset) eqn:M; [|reflexivity]. exfalso.
  apply in_cutset in M. destruct a as [|c t]; [discriminate P|]. simpl nth in M.
  unfold parse_email in P. destruct (max_address_len <? N.of_nat (length (c :: t))); [discriminate|].
  unfold strip_route in P. assert (E : (c =? 64) = false) by lia. rewrite E in P.
  assert (E2 : (c =? 46) = false) by lia. rewrite E2 in P. cbn [scan] in P.
  assert (K : classify c = COther) by (destruct M as [->|[->| ->]]; vm_compute; reflexivity).
  rewrite K in P. cbn [orb] in P. discriminate.
Qed.

Theorem trim_keeps_accepted mode a r :
  new_recipient go_parse_ip mode a = Some r -> trim rcpt_handler_trim_cutset a = a.
Proof.
  intros R. destruct (recipient_name go_parse_ip mode a r R) as [l [d [P [V _]]]].
  pose proof (parse_email_first_not_cut a l d P) as F.
  assert (Hd : d <> []) by (eapply validate_nonempty; exact V).
  (* a ends with its domain *)
  destruct (parse_email_inv a l d P) as [a' [S SC]].
  destruct (scan_structure _ _ _ _ _ _ _ SC Hd) as [L [-> _]].
  destruct (strip_route_spec _ _ S) as [u [-> _]].
  assert (LAST : last (u ++ L ++ 64 :: d) 0 = last d 0).
  { rewrite app_assoc. change (64 :: d) with ([64] ++ d). rewrite app_assoc. apply last_app_nonempty. exact Hd. }
  apply trim_id.
  - destruct u; [destruct L|]; discriminate.
  - exact F.
  - rewrite LAST. destruct (mem_b (last d 0) rcpt_handler_trim_cutset) eqn:M; [|reflexivity]. exfalso.
    apply in_cutset in M.
    assert (A : Forall (fun c => c <> 60 /\ c <> 62 /\ c <> 32) d).
    { apply (validate_forall go_parse_ip go_parse_ip_alphabet); [ | | | | | exact V].
      - intros c H. unfold ip_char, is_digit in H. lia.
      - intros c H. unfold is_dom_char, is_label_char, is_alpha, is_upper, is_lower, is_digit in H. lia.
      - lia.
      - lia.
      - apply Forall_forall. intros c H. vm_compute in H. intuition (subst; lia). }
    rewrite Forall_forall in A. destruct d as [|d0 dt]; [congruence|].
    assert (I : In (last (d0 :: dt) 0) (d0 :: dt)).
    { destruct (exists_last (l := d0 :: dt) ltac:(discriminate)) as [x [z E]]. rewrite E, last_last. apply in_or_app. right. left. reflexivity. }
    apply A in I. lia.
Qed.

(** hence `RCPT TO:<a>` for an accepted a hands exactly a to NewRecipient *)
Theorem rcpt_address_of_accepted mode a r : new_recipient go_parse_ip mode a = Some r -> rcpt_address a = a.
Proof.
  intros R. pose proof (trim_keeps_accepted mode a r R) as T. unfold rcpt_address.
  destruct (recipient_name go_parse_ip mode a r R) as [l [d [P _]]].
  destruct a as [|c t]; [discriminate P|].
  unfold trim in *. rewrite cutset_bytes in *.
  change (trim_left [60; 62; 32] (60 :: (c :: t) ++ [62])) with (trim_left [60; 62; 32] ((c :: t) ++ [62])).
  pose proof (parse_email_first_not_cut (c :: t) l d P) as F. rewrite cutset_bytes in F. simpl nth in F.
  assert (E1 : trim_left [60; 62; 32] ((c :: t) ++ [62]) = (c :: t) ++ [62]) by (cbn [app trim_left]; rewrite F; reflexivity).
  rewrite E1. rewrite rev_app_distr. cbn [rev app]. change (trim_left [60; 62; 32] (62 :: rev t ++ [c])) with (trim_left [60; 62; 32] (rev t ++ [c])).
  assert (E2 : trim_left [60; 62; 32] (c :: t) = c :: t) by (cbn [trim_left]; rewrite F; reflexivity).
  rewrite E2 in T. cbn [rev] in T. exact T.
Qed.

(** The size clause of the end-to-end statement.  [DeliverStore.add_op] records the BODY length as a message's size;
    the real stores record the length of the stored source (trace headers + body).  Here the deliveries are performed
    with the size the stores record — [sz tag], with [sz (tag_of d) = length of src d] asked of the dialogue's own
    deliveries — and it is shown that this changes nothing but the size field (the mailbox cap does not look at
    sizes; no byte limit here), so the end-to-end theorem holds of that store too, now with the clause the
    interfaces' users see: the size the REST listing and POP3 LIST / STAT show is the length of the bytes served. *)
From Coq Require Import List NArith ZArith Lia.
From IV Require Import Base.Bytes Base.BytesFacts Model.Policy Model.Smtp Model.Dot Model.SmtpWire Model.StoreSpec.
From IV Require Import Proofs.StoreSpecFacts Proofs.SmtpInv Proofs.SmtpThms Proofs.DotCodec Proofs.SmtpCut Proofs.SmtpCutTrace.
From IV Require Import Proofs.StoreCap Proofs.DeliverStore Proofs.DeliverStoreCap Proofs.InterfacesAgree Proofs.EndToEnd.
From IV Require Model.Rest Model.Pop3 Model.Pop3Store Model.Pop3Wire.
Import ListNotations.
Local Open Scope nat_scope.

Section Size.
Variable tag_of : delivery -> N.
Variable date : Z.
Variable cap : nat.
Variable sz : N -> N.

Definition rz (e : entry) : entry :=
  {| e_mb := e_mb e; e_k := e_k e;
     e_msg := {| m_date := m_date (e_msg e); m_tag := m_tag (e_msg e); m_size := sz (m_tag (e_msg e)); m_seen := m_seen (e_msg e) |} |}.

Definition add_sz (d : delivery) : op := Add (d_mailbox d) date (tag_of d) (sz (tag_of d)).
Definition store_sz (ds : list delivery) : spec_store := final_spec (cfgc cap) spec_init (map add_sz ds).

Lemma ent_in_rz mb e : ent_in mb (rz e) = ent_in mb e.
Proof. reflexivity. Qed.

Lemma box_rz mb l : box mb (map rz l) = map rz (box mb l).
Proof.
  unfold box. induction l as [|e l IH]; [reflexivity|]. cbn [map filter]. rewrite ent_in_rz.
  destruct (ent_in mb e); cbn [map]; rewrite IH; reflexivity.
Qed.

Lemma drop_oldest_rz mb : forall n l,
  drop_oldest mb n (map rz l) = (map rz (fst (drop_oldest mb n l)), map rz (snd (drop_oldest mb n l))).
Proof.
  intros n l. revert n. induction l as [|e l IH]; intros n.
  - destruct n; reflexivity.
  - destruct n as [|n']; [reflexivity|]. cbn [map drop_oldest]. rewrite ent_in_rz.
    destruct (ent_in mb e).
    + rewrite IH. destruct (drop_oldest mb n' l) as [d r]. reflexivity.
    + rewrite IH. destruct (drop_oldest mb (S n') l) as [d r]. reflexivity.
Qed.

(** one delivery: the two stores differ in the size field only *)
Lemma add_step_rz st d :
  let a := fst (fst (exec_spec (cfgc cap) st (add_opc tag_of date d))) in
  forall stb, live stb = map rz (live st) -> counts stb = counts st ->
  let b := fst (fst (exec_spec (cfgc cap) stb (add_sz d))) in
  live b = map rz (live a) /\ counts b = counts a.
Proof.
  intros a stb Hl Hc b. subst a b. unfold add_opc, add_op, add_sz. cbn [exec_spec]. unfold spec_add.
  cbn [c_cap c_max cfgc]. rewrite Hl, Hc. cbn [N.eqb].
  set (k := count_of (d_mailbox d) (counts st)).
  set (ea := {| e_mb := d_mailbox d; e_k := k; e_msg := {| m_date := date; m_tag := tag_of d; m_size := N.of_nat (length (d_body d)); m_seen := false |} |}).
  set (eb := {| e_mb := d_mailbox d; e_k := k; e_msg := {| m_date := date; m_tag := tag_of d; m_size := sz (tag_of d); m_seen := false |} |}).
  assert (Hab : map rz (live st) ++ [eb] = map rz (live st ++ [ea])) by (rewrite map_app; reflexivity).
  rewrite Hab.
  destruct (Nat.eqb cap 0) eqn:Ec.
  - cbn [fst live counts]. split; reflexivity.
  - rewrite box_rz, map_length, drop_oldest_rz.
    destruct (drop_oldest (d_mailbox d) (length (box (d_mailbox d) (live st ++ [ea])) - cap) (live st ++ [ea])) as [d1 l2].
    cbn [fst snd live counts]. split; reflexivity.
Qed.

Lemma final_rz : forall ds st stb, live stb = map rz (live st) -> counts stb = counts st ->
  live (final_spec (cfgc cap) stb (map add_sz ds)) = map rz (live (final_spec (cfgc cap) st (map (add_opc tag_of date) ds))) /\
  counts (final_spec (cfgc cap) stb (map add_sz ds)) = counts (final_spec (cfgc cap) st (map (add_opc tag_of date) ds)).
Proof.
  induction ds as [|d ds IH]; intros st stb Hl Hc; [split; assumption|].
  cbn [map final_spec].
  destruct (add_step_rz st d stb Hl Hc) as [H1 H2].
  destruct (exec_spec (cfgc cap) st (add_opc tag_of date d)) as [[sa oa] ea].
  destruct (exec_spec (cfgc cap) stb (add_sz d)) as [[sb ob] eb]. cbn [fst] in H1, H2.
  apply IH; assumption.
Qed.

Theorem sized_store_is_the_store_resized ds :
  live (store_sz ds) = map rz (live (store_of tag_of date cap ds)).
Proof. unfold store_sz, store_of. apply (final_rz ds spec_init spec_init); reflexivity. Qed.

Variable content : N -> str.
Variable src : delivery -> str.
Variable mfa : str -> option str.
Variable srcok : str -> nat -> bool.

(** The end-to-end statement on the store that records the sizes the real stores record. *)
Theorem smtp_bytes_to_read_interfaces_with_sizes : forall c o w name mb i e num body,
  let tr := snd (fst (run_bytes c o w)) in
  let st := store_sz (deliveries_of tr) in
  (forall d, In d (deliveries_of tr) -> content (tag_of d) = src d /\ sz (tag_of d) = Pop3.lenN (src d)) ->
  mfa name = Some mb -> nth_error (box mb (live st)) i = Some e -> srcok mb (e_k e) = true ->
  exists d,
    In d (deliveries_of tr) /\ d_mailbox d = mb /\ block_in w (d_body d) /\
    content (m_tag (e_msg e)) = src d /\
    Rest.run_handler mfa (cfgc cap) srcok st Rest.HSrc name (Rest.id_of_k (e_k e)) num body = (st, (Rest.S200, Rest.PSrc (e_k e, e_msg e))) /\
    nth_error (Pop3.mmsgs (Pop3.get_box (Pop3Store.abs content st) mb)) i =
      Some {| Pop3.sid := Pop3Store.id_of_k (e_k e); Pop3.ssrc := src d |} /\
    (* the size every listing shows is the length of the bytes every interface serves *)
    m_size (e_msg e) = Pop3.lenN (src d) /\
    Pop3.p_size (Pop3Store.snap_of_view content (view_of e)) = Pop3.lenN (src d).
Proof.
  intros c o w name mb i e num body tr st Hsrc Hn Hi Hok.
  unfold st in Hi. rewrite sized_store_is_the_store_resized, box_rz, nth_error_map in Hi.
  destruct (nth_error (box mb (live (store_of tag_of date cap (deliveries_of tr)))) i) as [e0|] eqn:He0; [|discriminate].
  assert (Ee : e = rz e0) by (cbn in Hi; congruence). clear Hi.
  destruct (live_entry_is_a_delivery tag_of date cap (deliveries_of tr) mb i e0 He0) as (d & Hin & Hmb & Htag).
  exists d. split; [exact Hin|]. split; [exact Hmb|].
  split; [apply (delivered_bodies_are_decoded_blocks c o w d Hin)|].
  destruct (Hsrc d Hin) as [Hc Hs].
  assert (Htag' : m_tag (e_msg e) = tag_of d) by (rewrite Ee; exact Htag).
  assert (Hcc : content (m_tag (e_msg e)) = src d) by (rewrite Htag'; exact Hc).
  split; [exact Hcc|].
  assert (HI : SInv st) by (apply final_spec_SInv, SInv_init).
  assert (Hi' : nth_error (box mb (live st)) i = Some e).
  { unfold st. rewrite sized_store_is_the_store_resized, box_rz, nth_error_map, He0, Ee. reflexivity. }
  destruct (read_interfaces_agree_on_source mfa (cfgc cap) srcok content st name mb e i num body HI Hn Hi' Hok)
    as (_ & H2 & _ & H4 & _ & H6).
  split; [exact H2|]. rewrite Hcc in H4. split; [exact H4|].
  assert (Hsz : m_size (e_msg e) = Pop3.lenN (src d)).
  { rewrite Ee. cbn [rz e_msg m_size m_tag]. rewrite Htag. exact Hs. }
  split; [exact Hsz|]. rewrite Hcc in H6. destruct (H6 Hsz) as [H7 _]. exact H7.
Qed.
End Size.

(** C04: mailbox naming is canonical. The theorems of Props/C04 are proved here. *)
From IV Require Import Base.Bytes Base.BytesFacts Model.Addr Proofs.AddrFacts Proofs.AddrScan Proofs.AddrDomain.
From Coq Require Import ZifyN ZifyNat ZifyBool.

(** bytes of an IP literal net.ParseIP can accept: hex digits, '.' and ':' *)
Definition ip_char (c : N) : bool :=
  is_digit c || ((97 <=? c) && (c <=? 102)) || ((65 <=? c) && (c <=? 70)) || (c =? 46) || (c =? 58).

(** a string that is its own mailbox name in local naming *)
Definition good_name (m : str) : Prop :=
  m <> [] /\ (nth 0 m 0 =? 46) = false /\ has_dotdot m = false /\
  Forall (fun c => mailbox_char_ok c = true) m /\ ~ In ext_separator m.

Lemma parse_email_bracket t : parse_email (91 :: t) = None.
Proof.
  unfold parse_email. destruct (max_address_len <? N.of_nat (length (91 :: t))); [reflexivity|].
  reflexivity.
Qed.

Lemma parse_email_noroute c n :
  (c =? 64) = false -> (c =? 46) = false -> N.of_nat (length (c :: n)) <= max_address_len ->
  parse_email (c :: n) = scan (c :: n) 0 46 false false.
Proof.
  intros H1 H2 H3. unfold parse_email, strip_route. rewrite H1, H2.
  destruct (max_address_len <? N.of_nat (length (c :: n))) eqn:E; [lia | reflexivity].
Qed.

Lemma parse_email_bounds a l d : parse_email a = Some (l, d) ->
  N.of_nat (length a) <= max_address_len /\ (length l + length d <= length a)%nat /\
  (d <> [] -> N.of_nat (length l) <= max_local_index /\ (length l + 1 + length d <= length a)%nat).
Proof.
  unfold parse_email. destruct a as [|c a]; [discriminate|].
  destruct (max_address_len <? N.of_nat (length (c :: a))) eqn:E; [discriminate|].
  intros H. split; [lia|].
  assert (exists a', strip_route (c :: a) = Some a' /\ (length a' <= length (c :: a))%nat /\
          match a' with [] => None | c' :: _ => if c' =? 46 then None else scan a' 0 46 false false end = Some (l, d)) as [a' [_ [L S]]].
  { unfold strip_route in *. destruct (c =? 64).
    - destruct (index_of 58 (c :: a)) as [k|]; [|discriminate].
      eexists. split; [reflexivity|]. split; [rewrite skipn_length; lia | exact H].
    - eexists. split; [reflexivity|]. split; [lia | exact H]. }
  destruct a' as [|c' a']; [discriminate|]. destruct (c' =? 46); [discriminate|].
  apply scan_bounds in S as [S1 S2]. split; [lia|]. intros Hd. specialize (S2 Hd). lia.
Qed.

Lemma good_first m : good_name m -> exists c m', m = c :: m' /\ (c =? 64) = false /\ (c =? 46) = false.
Proof.
  intros [H0 [H1 [_ [H3 _]]]]. destruct m as [|c m']; [congruence|]. exists c, m'. split; [reflexivity|].
  split; [|exact H1]. inversion H3; subst. destruct (c =? 64) eqn:E; [|reflexivity].
  apply N.eqb_eq in E. subst. destruct mailbox_char_not_special as [X _]. congruence.
Qed.

Lemma good_scan_facts m : good_name m -> plain m = true /\ nodd 46 m = true.
Proof.
  intros [H0 [H1 [H2 [H3 _]]]]. split; [apply plain_of_mailbox_chars; exact H3|].
  apply nodd_of_no_dotdot; [exact H2|]. rewrite H1. reflexivity.
Qed.

Lemma good_parse m : good_name m -> N.of_nat (length m) <= max_address_len ->
  parse_email m = Some (m, []) /\ parse_mailbox_name m = Some m.
Proof.
  intros G L. destruct (good_first m G) as [c [m' [-> [C1 C2]]]].
  destruct (good_scan_facts _ G) as [P D]. destruct G as [G0 [_ [_ [G3 G4]]]]. split.
  - rewrite parse_email_noroute by assumption. apply scan_plain; assumption.
  - apply parse_mailbox_name_fix; assumption.
Qed.

Lemma good_parse_at m t : good_name m -> N.of_nat (length (m ++ 64 :: t)) <= max_address_len ->
  N.of_nat (length m) <= max_local_index -> (last m 0 =? 46) = false ->
  parse_email (m ++ 64 :: t) = Some (m, t).
Proof.
  intros G L1 L2 L3. destruct (good_first m G) as [c [m' [-> [C1 C2]]]].
  destruct (good_scan_facts _ G) as [P D].
  change ((c :: m') ++ 64 :: t) with (c :: (m' ++ 64 :: t)) in *.
  rewrite parse_email_noroute by assumption.
  change (c :: (m' ++ 64 :: t)) with ((c :: m') ++ 64 :: t).
  rewrite scan_plain_at by assumption. rewrite N.add_0_l.
  destruct (max_local_index <? N.of_nat (length (c :: m'))) eqn:E; [lia|].
  rewrite (last_default_nonempty c m' 46 0), L3. reflexivity.
Qed.

Section Naming.
Variable parse_ip : str -> bool.
Hypothesis parse_ip_lower : forall s, parse_ip (lower s) = parse_ip s.

Notation validate := (validate_domain parse_ip).
Notation extract := (extract_mailbox parse_ip).
Notation newrcpt := (new_recipient parse_ip).

(** ** Inversion of ExtractMailbox in local and full naming *)
Lemma extract_lf_inv mode a n : mode <> Domain -> extract mode a = Some n ->
  exists l d m, parse_email a = Some (l, d) /\ parse_mailbox_name l = Some m /\
    m <> [] /\ (nth 0 m 0 =? 46) = false /\ has_dotdot m = false /\
    ((mode = Local \/ d = []) /\ n = m \/
     mode = Full /\ d <> [] /\ validate d = true /\ (last m 0 =? 46) = false /\ n = m ++ 64 :: canonical_domain d).
Proof.
  intros Hm H.
  assert (E : extract mode a =
    match parse_email a with
    | None => None
    | Some (l, d) =>
        match parse_mailbox_name l with
        | None => None | Some [] => None
        | Some ((c :: _) as n) =>
            if (c =? 46) || has_dotdot n then None
            else match mode with
                 | Local => Some n
                 | _ => match d with [] => Some n | _ :: _ =>
                          if negb (validate d) then None else if last n 0 =? 46 then None
                          else Some (n ++ 64 :: canonical_domain d) end
                 end
        end
    end) by (destruct mode; [reflexivity | reflexivity | congruence]).
  rewrite E in H. clear E.
  destruct (parse_email a) as [[l d]|] eqn:P; [|discriminate]. destruct (parse_mailbox_name l) as [[|c m']|] eqn:Q; try discriminate.
  destruct ((c =? 46) || has_dotdot (c :: m')) eqn:C; [discriminate|]. apply orb_false_iff in C as [C1 C2].
  exists l, d, (c :: m'). split; [reflexivity|]. split; [exact Q|]. split; [congruence|]. split; [exact C1|]. split; [exact C2|].
  destruct mode; [left; split; [tauto | congruence] | | congruence].
  destruct d as [|d0 d']; [left; split; [tauto | congruence]|].
  destruct (validate (d0 :: d')) eqn:V; [|discriminate]. cbn [negb] in H.
  destruct (last (c :: m') 0 =? 46) eqn:L; [discriminate|].
  right. repeat split; try congruence.
Qed.

(** ** ExtractMailbox on canonical names *)
Lemma extract_good_name mode m : mode <> Domain -> good_name m -> N.of_nat (length m) <= max_address_len ->
  extract mode m = Some m.
Proof.
  intros Hm G L. destruct (good_parse m G L) as [P1 P2]. destruct G as [G0 [G1 [G2 _]]].
  destruct m as [|c m']; [congruence|]. simpl nth in G1.
  destruct mode; [| |congruence]; unfold extract_mailbox; rewrite P1, P2, G1, G2; reflexivity.
Qed.

Lemma extract_full_name m d : good_name m -> d <> [] -> validate d = true -> (last m 0 =? 46) = false ->
  N.of_nat (length m) <= max_local_index -> N.of_nat (length (m ++ 64 :: d)) <= max_address_len ->
  extract Full (m ++ 64 :: d) = Some (m ++ 64 :: canonical_domain d).
Proof.
  intros G Hd V L3 L2 L1. pose proof (good_parse_at m d G L1 L2 L3) as P1.
  assert (Lm : N.of_nat (length m) <= max_address_len) by (rewrite app_length in L1; lia).
  destruct (good_parse m G Lm) as [_ P2]. destruct G as [G0 [G1 [G2 _]]].
  destruct m as [|c m']; [congruence|]. simpl nth in G1. destruct d as [|d0 d']; [congruence|].
  unfold extract_mailbox. rewrite P1, P2, G1, G2, V, L3. reflexivity.
Qed.

(** ** Domain naming *)
Lemma extract_domain_inv a n : extract_domain_mailbox parse_ip a = Some n ->
  exists d, validate d = true /\ n = canonical_domain d.
Proof.
  unfold extract_domain_mailbox. intros H. cbv zeta in H.
  match type of H with match ?X with _ => _ end = _ => destruct X as [[l d]|]; [|discriminate] end.
  match type of H with match ?X with _ => _ end = _ => destruct X as [l'|]; [|discriminate] end.
  match type of H with (if ?X then _ else _) = _ => destruct X eqn:V; [|discriminate] end.
  eexists. split; [exact V | congruence].
Qed.

Lemma bracketed_check (n : str) : n <> [] ->
  match n with [] => false | c :: _ => (c =? 91) && (last n 0 =? 93) end = is_bracketed n.
Proof. destruct n; [congruence | reflexivity]. Qed.

Lemma forallb_lower_dom d : forallb is_dom_char d = true ->
  Forall (fun c => mailbox_char_ok c = true) (lower d) /\ ~ In ext_separator (lower d).
Proof.
  induction d as [|c d IH]; intros H; [split; [constructor | simpl; tauto]|].
  cbn [forallb] in H. apply andb_true_iff in H as [Hc Hd]. destruct (IH Hd) as [I1 I2].
  apply dom_char_mailbox in Hc. apply andb_true_iff in Hc as [Hc _]. apply andb_true_iff in Hc as [Hc1 Hc2].
  change (lower (c :: d)) with (lower_b c :: lower d). split; [constructor; assumption|].
  intros [X|X]; [|tauto]. rewrite X, N.eqb_refl in Hc2. discriminate.
Qed.

Lemma extract_domain_canonical d : validate d = true ->
  extract_domain_mailbox parse_ip (canonical_domain d) = Some (canonical_domain d).
Proof.
  intros V. set (n := canonical_domain d).
  assert (Vn : validate n = true) by (unfold n; rewrite validate_canonical; assumption).
  assert (Hn : n <> []) by (eapply validate_nonempty; exact Vn).
  assert (In_ : canonical_domain n = n) by apply canonical_idem.
  unfold extract_domain_mailbox. rewrite (bracketed_check n Hn).
  destruct (bracket_type d) eqn:B.
  - (* an IP literal: the name is looked up as a domain *)
    assert (Bn : is_bracketed n = true).
    { unfold bracket_type in B. apply andb_true_iff in B as [_ B].
      rewrite (is_bracketed_case n d) by apply lower_canonical. exact B. }
    rewrite Bn. destruct n as [|n0 n']; [congruence|]. rewrite Vn, In_. reflexivity.
  - (* a label domain: the name parses as a local part *)
    destruct (validate_label_type parse_ip d V B) as [D0 [D1 [D2 D3]]].
    assert (En : n = lower d).
    { unfold n. destruct (canonical_cases d) as [[r [Ed _]]|[_ E]]; [|exact E].
      subst d. rewrite canon_tag_is in D2. discriminate. }
    destruct (forallb_lower_dom d D2) as [F1 F2].
    assert (G : good_name n).
    { rewrite En. split; [rewrite <- En; exact Hn|]. split; [|split; [|split; assumption]].
      - destruct d as [|c d']; [congruence|]. cbn [nodd] in D3. simpl. rewrite lower_b_eqb by reflexivity.
        rewrite N.eqb_refl in D3. simpl in D3. destruct (c =? 46); [discriminate | reflexivity].
      - assert (ND : nodd 46 (lower d) = true) by (change 46 with (lower_b 46) at 1; rewrite nodd_lower; exact D3).
        clear - ND. revert ND. generalize 46 at 1. induction (lower d) as [|c s IH]; intros p ND; [reflexivity|].
        cbn [nodd] in ND. apply andb_true_iff in ND as [_ ND]. cbn [has_dotdot]. rewrite (IH c ND), orb_false_r.
        destruct s as [|b s]; [reflexivity|]. cbn [nodd] in ND. apply andb_true_iff in ND as [ND _].
        apply negb_true_iff in ND. exact ND. }
    assert (L : N.of_nat (length n) <= max_address_len).
    { rewrite En, lower_length. pose proof domain_fits_address. lia. }
    assert (NB : is_bracketed n = false).
    { destruct n as [|n0 n']; [congruence|]. unfold is_bracketed. simpl nth.
      destruct G as [_ [_ [_ [G3 _]]]]. inversion G3; subst.
      destruct (n0 =? 91) eqn:E; [|reflexivity]. apply N.eqb_eq in E. subst.
      destruct mailbox_char_not_special as [_ [_ [_ [X _]]]]. congruence. }
    rewrite NB. destruct (good_parse n G L) as [P1 P2]. rewrite P1.
    destruct n as [|n0 n']; [congruence|]. rewrite P2, Vn, In_. reflexivity.
Qed.

(** ** The naming function is idempotent: asking for a mailbox by its own name reaches it. *)
Theorem extract_idempotent mode a n : extract mode a = Some n -> extract mode n = Some n.
Proof.
  intros H. destruct mode eqn:M.
  3:{ cbn [extract_mailbox] in *. apply extract_domain_inv in H as [d [V ->]]. apply extract_domain_canonical. exact V. }
  all: rewrite <- M in *;
    assert (Hm : mode <> Domain) by (rewrite M; discriminate);
    destruct (extract_lf_inv mode a n Hm H) as [l [d [m [P [Q [M0 [M1 [M2 R]]]]]]]];
    destruct (parse_mailbox_name_some l m Q) as [_ [F [S Lm]]];
    destruct (parse_email_bounds a l d P) as [B1 [B2 B3]];
    assert (G : good_name m) by (repeat split; assumption).
  all: destruct R as [[_ ->]|[MF [Dn [V [L ->]]]]].
  1,3: apply extract_good_name; [exact Hm | exact G | lia].
  all: rewrite MF in *; try discriminate.
  specialize (B3 Dn).
  assert (Vc : validate (canonical_domain d) = true) by (rewrite validate_canonical; assumption).
  rewrite extract_full_name; try assumption.
  - rewrite canonical_idem. reflexivity.
  - eapply validate_nonempty; exact Vc.
  - lia.
  - rewrite app_length. simpl length. rewrite canonical_length. lia.
Qed.

Theorem extract_nonempty mode a n : extract mode a = Some n -> n <> [].
Proof.
  intros H. destruct mode eqn:M.
  3:{ cbn [extract_mailbox] in H. apply extract_domain_inv in H as [d [V ->]].
      apply validate_nonempty in V. intros X. apply (f_equal (@length N)) in X. rewrite canonical_length in X.
      destruct d; [congruence | discriminate]. }
  all: rewrite <- M in *; assert (Hm : mode <> Domain) by (rewrite M; discriminate);
    destruct (extract_lf_inv mode a n Hm H) as [l [d [m [_ [_ [M0 [_ [_ R]]]]]]]];
    destruct R as [[_ ->]|[_ [_ [_ [_ ->]]]]]; [exact M0 | destruct m; [congruence | discriminate]].
Qed.

(** ** NewRecipient *)
Lemma new_recipient_inv mode a r : newrcpt mode a = Some r ->
  exists l d, parse_email a = Some (l, d) /\ validate d = true /\ extract mode a = Some (r_mailbox r) /\
              r_addr r = a /\ r_local r = l /\ r_domain r = d.
Proof.
  unfold new_recipient, parse_email_validated. destruct (parse_email a) as [[l d]|]; [|discriminate].
  destruct (validate d) eqn:V; [|discriminate]. destruct (extract mode a) as [m|]; [|discriminate].
  intros H. inversion H; subst. simpl. eauto 10.
Qed.

Theorem name_of_address mode a r : newrcpt mode a = Some r -> extract mode a = Some (r_mailbox r).
Proof. intros H. apply new_recipient_inv in H as [l [d [_ [_ [E _]]]]]. exact E. Qed.

Theorem name_nonempty mode a r : newrcpt mode a = Some r -> r_mailbox r <> [].
Proof. intros H. eapply extract_nonempty. eapply name_of_address. exact H. Qed.

Theorem name_fixed_point mode a r : newrcpt mode a = Some r -> extract mode (r_mailbox r) = Some (r_mailbox r).
Proof. intros H. eapply extract_idempotent. eapply name_of_address. exact H. Qed.

(** what the mailbox name of an accepted recipient is, per mode *)
Lemma recipient_name mode a r : newrcpt mode a = Some r ->
  exists l d, parse_email a = Some (l, d) /\ validate d = true /\
    match mode with
    | Local => parse_mailbox_name l = Some (r_mailbox r)
    | Full => exists m, parse_mailbox_name l = Some m /\ r_mailbox r = m ++ 64 :: canonical_domain d
    | Domain => r_mailbox r = canonical_domain d /\ (l = [] \/ exists m, parse_mailbox_name l = Some m)
    end.
Proof.
  intros H. apply new_recipient_inv in H as [l [d [P [V [E _]]]]]. exists l, d. split; [exact P|]. split; [exact V|].
  pose proof (validate_nonempty parse_ip d V) as Dn.
  destruct mode.
  - destruct (extract_lf_inv Local a _ ltac:(discriminate) E) as [l' [d' [m [P' [Q [_ [_ [_ R]]]]]]]].
    rewrite P in P'. inversion P'; subst. destruct R as [[_ ->]|[X _]]; [exact Q | discriminate].
  - destruct (extract_lf_inv Full a _ ltac:(discriminate) E) as [l' [d' [m [P' [Q [_ [_ [_ R]]]]]]]].
    rewrite P in P'. inversion P'; subst. destruct R as [[[X|X] _]|[_ [_ [_ [_ ->]]]]]; [discriminate | congruence | eauto].
  - cbn [extract_mailbox] in E. unfold extract_domain_mailbox in E.
    destruct a as [|a0 a']; [discriminate|].
    destruct ((a0 =? 91) && (last (a0 :: a') 0 =? 93)) eqn:B.
    + apply andb_true_iff in B as [B _]. apply N.eqb_eq in B. subst. rewrite parse_email_bracket in P. discriminate.
    + rewrite P in E. destruct l as [|l0 l1].
      * destruct d as [|d0 d']; [congruence|]. rewrite V in E. split; [congruence | left; reflexivity].
      * destruct (parse_mailbox_name (l0 :: l1)) as [l'|] eqn:Q; [|discriminate].
        destruct d as [|d0 d']; [congruence|]. rewrite V in E. split; [congruence | right; eauto].
Qed.

(** ** Every string the code lower-cases with strings.ToLower is ASCII (so Go's Unicode rules
    and the model's ASCII [lower] agree), except possibly a bracketed literal net.ParseIP accepted. *)
Theorem lowercased_strings_ascii a l d : parse_email a = Some (l, d) ->
  Forall (fun c => c < 128) l /\
  (validate d = true -> bracket_type d = false -> Forall (fun c => c < 128) d).
Proof.
  clear parse_ip_lower. intros P. split.
  - unfold parse_email in P. destruct a as [|c a]; [discriminate|].
    destruct (max_address_len <? N.of_nat (length (c :: a))); [discriminate|].
    destruct (strip_route (c :: a)) as [[|c' a']|]; try discriminate.
    destruct (c' =? 46); [discriminate|]. eapply scan_ascii; exact P.
  - intros V B. destruct (validate_label_type parse_ip d V B) as [_ [_ [D _]]].
    apply Forall_forall. rewrite forallb_forall in D. intros c Hc. apply D in Hc.
    unfold is_dom_char, is_label_char in Hc.
    assert (is_alpha c = true \/ is_digit c = true \/ c = 95 \/ c = 45 \/ c = 46) as [A|[A|A]] by lia.
    + apply is_alpha_lt; exact A.
    + apply is_digit_lt; exact A.
    + lia.
Qed.

(** ** Letter case *)
Hypothesis parse_ip_alphabet : forall s, parse_ip s = true -> forallb ip_char s = true.

Lemma lower_b_inv_nonletter c k : is_alpha k = false -> lower_b c = k -> c = k.
Proof. intros Hk H. apply N.eqb_eq. rewrite <- (lower_b_eqb c k Hk). apply N.eqb_eq. exact H. Qed.

(** a bracketed literal spelled with a differently-cased IPv6 tag is not accepted *)
Lemma untagged_variant_invalid d r :
  lower d = lower (canon_tag ++ r) -> has_prefix canon_tag d = false -> validate d = false.
Proof.
  intros H T.
  destruct d as [|c0 [|c1 [|c2 [|c3 [|c4 [|c5 t]]]]]]; try discriminate H.
  change (lower (canon_tag ++ r)) with (91 :: 105 :: 112 :: 118 :: 54 :: 58 :: lower r) in H.
  change (lower (c0 :: c1 :: c2 :: c3 :: c4 :: c5 :: t)) with
    (lower_b c0 :: lower_b c1 :: lower_b c2 :: lower_b c3 :: lower_b c4 :: lower_b c5 :: lower t) in H.
  injection H as H0 H1 H2 H3 H4 H5 Ht.
  apply lower_b_inv_nonletter in H0; [subst c0 | reflexivity].
  unfold validate_domain.
  destruct (N.of_nat (length (91 :: c1 :: c2 :: c3 :: c4 :: c5 :: t)) =? 0); [reflexivity|].
  destruct (max_domain_len <? N.of_nat (length (91 :: c1 :: c2 :: c3 :: c4 :: c5 :: t))); [reflexivity|].
  destruct ((min_bracket_len <=? N.of_nat (length (91 :: c1 :: c2 :: c3 :: c4 :: c5 :: t))) &&
            is_bracketed (91 :: c1 :: c2 :: c3 :: c4 :: c5 :: t)).
  - rewrite canon_tag_is in T. cbn [has_prefix] in T. rewrite N.eqb_refl in T. cbn [andb] in T.
    rewrite ip_inner_plain by exact T.
    destruct (parse_ip (firstn (length (91 :: c1 :: c2 :: c3 :: c4 :: c5 :: t) - 1 - 1) (skipn 1 (91 :: c1 :: c2 :: c3 :: c4 :: c5 :: t)))) eqn:PI;
      [|reflexivity].
    apply parse_ip_alphabet in PI. cbn [length skipn Nat.sub firstn forallb] in PI.
    apply andb_true_iff in PI as [_ PI]. apply andb_true_iff in PI as [PI _].
    exfalso. unfold ip_char, is_digit in PI. unfold lower_b, is_upper in H2.
    destruct ((65 <=? c2) && (c2 <=? 90)) eqn:U; lia.
  - destruct (last (91 :: c1 :: c2 :: c3 :: c4 :: c5 :: t) 0 =? 46); reflexivity.
Qed.

Lemma canonical_case d d' : lower d = lower d' -> validate d = true -> validate d' = true ->
  canonical_domain d = canonical_domain d'.
Proof.
  intros H V V'.
  destruct (canonical_cases d) as [[r [Ed E]]|[T E]], (canonical_cases d') as [[r' [Ed' E']]|[T' E']]; rewrite E, E'.
  - subst. rewrite !lower_app in H. apply app_inv_head in H. rewrite H. reflexivity.
  - subst d. rewrite (untagged_variant_invalid d' r) in V'; [discriminate | congruence | exact T'].
  - subst d'. rewrite (untagged_variant_invalid d r') in V; [discriminate | congruence | exact T].
  - exact H.
Qed.

Theorem case_insensitive mode a a' r r' :
  lower a = lower a' -> newrcpt mode a = Some r -> newrcpt mode a' = Some r' -> r_mailbox r = r_mailbox r'.
Proof.
  intros H R R'.
  destruct (recipient_name mode a r R) as [l [d [P [V N]]]].
  destruct (recipient_name mode a' r' R') as [l' [d' [P' [V' N']]]].
  assert (L : lower l = lower l' /\ lower d = lower d').
  { pose proof (parse_email_lower a) as X. pose proof (parse_email_lower a') as X'.
    rewrite H, X', P, P' in X. simpl in X. unfold low2 in X. simpl in X. inversion X. split; congruence. }
  destruct L as [Ll Ld].
  pose proof (parse_mailbox_name_case l l' Ll) as Q.
  pose proof (canonical_case d d' Ld V V') as C.
  destruct mode.
  - congruence.
  - destruct N as [m [N1 ->]], N' as [m' [N1' ->]]. rewrite C. congruence.
  - destruct N as [-> _], N' as [-> _]. exact C.
Qed.

End Naming.

(** ** '+extension' *)
Section Plus.
Variable parse_ip : str -> bool.
Notation newrcpt := (new_recipient parse_ip).

Lemma parse_email_plain_at l d x y : l <> [] -> plain l = true -> parse_email (l ++ 64 :: d) = Some (x, y) -> x = l /\ y = d.
Proof.
  intros Hl Pl H. destruct l as [|c l']; [congruence|].
  pose proof (parse_email_bounds _ _ _ H) as [B _].
  apply plain_cons in Pl as [Pc Pl].
  assert (C1 : (c =? 64) = false).
  { destruct (c =? 64) eqn:E; [|reflexivity]. apply N.eqb_eq in E. subst. destruct plain_char_not_at as [X _]. congruence. }
  assert (Hdot : (c =? 46) = false).
  { destruct (c =? 46) eqn:E; [|reflexivity]. exfalso. revert H. unfold parse_email, strip_route. cbn [app]. rewrite C1, E.
    destruct (max_address_len <? _); discriminate. }
  change ((c :: l') ++ 64 :: d) with (c :: (l' ++ 64 :: d)) in *.
  rewrite parse_email_noroute in H by assumption.
  change (c :: (l' ++ 64 :: d)) with ((c :: l') ++ 64 :: d) in H.
  assert (ND : nodd 46 (c :: l') = true \/ nodd 46 (c :: l') = false) by (destruct (nodd 46 (c :: l')); tauto).
  destruct ND as [ND|ND].
  - rewrite scan_plain_at in H; [| apply plain_cons; split; assumption | exact ND].
    destruct (max_local_index <? 0 + N.of_nat (length (c :: l'))); [discriminate|].
    destruct (last (c :: l') 46 =? 46); [discriminate|]. inversion H; subst. split; reflexivity.
  - (* a repeated period: the scan fails, so the address was not accepted *)
    exfalso. clear - Pc Pl ND H Hdot. revert H ND.
    change 46 with 46 at 1.
    assert (G : forall s i p t, plain s = true -> nodd p s = false -> scan (s ++ 64 :: t) i p false false = None).
    { induction s as [|b s IH]; intros i p t Ps Ns; [discriminate|].
      apply plain_cons in Ps as [Pb Ps]. cbn [nodd] in Ns. cbn [app scan].
      destruct (plain_char_cases b Pb) as [K|K]; rewrite K.
      - destruct (negb ((p =? 46) && (b =? 46))) eqn:X; cbn [andb] in Ns; [rewrite IH by assumption; reflexivity|].
        apply negb_false_iff in X. apply andb_true_iff in X as [_ X]. apply N.eqb_eq in X. subst b.
        exfalso. clear - K. vm_compute in K. discriminate.
      - apply classify_dot in K. subst b. rewrite N.eqb_refl, andb_true_r in Ns.
        destruct (p =? 46); [reflexivity|]. cbn [negb andb] in Ns. rewrite IH by assumption. reflexivity. }
    intros H ND. rewrite (G (c :: l') 0 46 d) in H; [discriminate | apply plain_cons; split; assumption | exact ND].
Qed.

Theorem plus_insensitive mode l e d r r' :
  l <> [] -> plain l = true -> plain e = true ->
  newrcpt mode (l ++ 64 :: d) = Some r -> newrcpt mode (l ++ 43 :: e ++ 64 :: d) = Some r' ->
  r_mailbox r = r_mailbox r'.
Proof.
  intros Hl Pl Pe R R'.
  destruct (recipient_name parse_ip mode _ r R) as [x [y [P [V N]]]].
  destruct (recipient_name parse_ip mode _ r' R') as [x' [y' [P' [V' N']]]].
  apply parse_email_plain_at in P as [-> ->]; [|assumption|assumption].
  replace (l ++ 43 :: e ++ 64 :: d) with ((l ++ 43 :: e) ++ 64 :: d) in P' by (rewrite <- app_assoc; reflexivity).
  apply parse_email_plain_at in P' as [-> ->].
  2:{ destruct l; [congruence | discriminate]. }
  2:{ apply plain_app. split; [exact Pl|]. apply plain_cons. split; [|exact Pe]. apply plain_char_not_at. }
  assert (Q : forall m m', parse_mailbox_name l = Some m -> parse_mailbox_name (l ++ 43 :: e) = Some m' -> m = m').
  { intros m m' A B. apply parse_mailbox_name_some in A as [-> _]. apply parse_mailbox_name_some in B as [-> _].
    rewrite lower_app. change (lower (43 :: e)) with (ext_separator :: lower e). rewrite take_until_app. reflexivity. }
  destruct mode.
  - apply Q; assumption.
  - destruct N as [m [N1 ->]], N' as [m' [N1' ->]]. rewrite (Q m m' N1 N1'). reflexivity.
  - destruct N as [-> _], N' as [-> _]. reflexivity.
Qed.

End Plus.

Definition no_ip (_ : str) : bool := false.

(** ** Non-vacuity: the hypotheses of the theorems are satisfiable, in every mode *)
(* "@r.example:\"Joe.Q\"+x@[IPv6:2001:DB8::A]" accepted in each mode when the literal parses *)
Definition yes_ip (_ : str) : bool := true.
Definition sample : str :=
  [64;114;46;101;120;58;34;74;111;101;46;81;34;43;120;64;91;73;80;118;54;58;50;48;48;49;58;68;66;56;58;58;65;93].
Example sample_local : option_map r_mailbox (new_recipient yes_ip Local sample) = Some [106;111;101;46;113].
Proof. vm_compute. reflexivity. Qed.
Example sample_full : option_map r_mailbox (new_recipient yes_ip Full sample) =
  Some [106;111;101;46;113;64;91;73;80;118;54;58;50;48;48;49;58;100;98;56;58;58;97;93].
Proof. vm_compute. reflexivity. Qed.
Example sample_domain : option_map r_mailbox (new_recipient yes_ip Domain sample) =
  Some [91;73;80;118;54;58;50;48;48;49;58;100;98;56;58;58;97;93].
Proof. vm_compute. reflexivity. Qed.
(* "A.b@Ex.com" / "a.B+x@Ex.com": a case pair and a plus pair, both accepted *)
Example sample_pairs :
  option_map r_mailbox (new_recipient no_ip Full [65;46;98;64;69;120;46;99;111;109]) = Some [97;46;98;64;101;120;46;99;111;109] /\
  option_map r_mailbox (new_recipient no_ip Full [97;46;66;43;120;64;69;120;46;99;111;109]) = Some [97;46;98;64;101;120;46;99;111;109].
Proof. vm_compute. split; reflexivity. Qed.

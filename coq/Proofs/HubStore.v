(** C15/C16 end to end: from a history of store operations to what the monitors hold.

    Composes, read-only, b-store's [events_match_history] (Proofs/EventsHistory.v: for every history of
    store operations, on both store models, what the stored / deleted brokers are handed), the
    broker-to-hub composition (Proofs/HubFed.v: [two_brokers_each_fifo]) and the hub theorems
    (Proofs/HubTheorems.v, HubHistory.v).

    NOT promised — the cross-broker finding (K-C16-cross-broker-order) as it shows at the monitors:
    the stored events and the deleted events reach the hub through two independent brokers, each
    with its own delivery goroutine. Per broker the order is the store's; BETWEEN the two nothing
    orders the goroutines. So (a) a monitor may be told "message-deleted" before "message-stored"
    of the same message, and in general the two streams are merged in a schedule-dependent way;
    (b) if the hub runs a message's Delete before its Dispatch, the Delete finds nothing to blank
    and the message stays in the history: a late joiner is then replayed a message that no longer
    exists ([late_joiner_cross_broker_witness]). Both are excluded exactly when the hub's op order
    agrees with the store's emit order ([late_joiner_in_emit_order]). *)
From Coq Require Import List Arith Lia.
From IV Require Import Base.Bytes Base.BytesFacts Model.StoreSpec Model.MemStore Model.FileStore Model.Events.
From IV Require Import Proofs.FileStoreClock Proofs.EventsCount Proofs.EventsHistory.
From IV Require Import Model.Hub Model.HubFed Proofs.HubBasics Proofs.HubInv Proofs.HubTheorems Proofs.HubHistory Proofs.HubFed.
Import ListNotations.
Local Open Scope nat_scope.

(** * The store's events as broker emits *)

(** The k-th message delivered to a mailbox, as the hub names it (mailbox, id). *)
Definition msg_of_key (k : mkey) : msg := (fst k, [N.of_nat (snd k)]).

Lemma msg_of_key_inj a b : msg_of_key a = msg_of_key b -> a = b.
Proof.
  destruct a as [m1 k1], b as [m2 k2]. unfold msg_of_key. cbn. intros E. inversion E; subst.
  apply Nnat.Nat2N.inj in H1. subst. reflexivity.
Qed.

(** The Emit calls of a schedule, in order: (is it the stored broker?, message). *)
Fixpoint emits (s : list fact2) : list (bool * msg) :=
  match s with
  | [] => []
  | F2 (FEmit m) :: t => (true, m) :: emits t
  | F2EmitDel m :: t => (false, m) :: emits t
  | _ :: t => emits t
  end.

(** The schedule's Emit calls are exactly the store's event trace, in order. *)
Definition carries (s : list fact2) (T : list event) : Prop :=
  emits s = map (fun e => (is_stored e, msg_of_key (ev_key e))) T.

Lemma emits_app a b : emits (a ++ b) = emits a ++ emits b.
Proof.
  induction a as [|x t IH]; [reflexivity|]. destruct x as [[]| |]; cbn [app emits]; rewrite ?IH; reflexivity.
Qed.

Lemma emitted_s_emits s : emitted_s s = map snd (filter fst (emits s)).
Proof. induction s as [|x t IH]; [reflexivity|]. destruct x as [[]| |]; cbn; rewrite ?IH; reflexivity. Qed.

Lemma emitted_d_emits s : emitted_d s = map snd (filter (fun p => negb (fst p)) (emits s)).
Proof. induction s as [|x t IH]; [reflexivity|]. destruct x as [[]| |]; cbn; rewrite ?IH; reflexivity. Qed.

Lemma carries_streams s T : carries s T ->
  emitted_s s = map msg_of_key (stored_keys T) /\ emitted_d s = map msg_of_key (deleted_keys T).
Proof.
  unfold carries. intros C. rewrite emitted_s_emits, emitted_d_emits, C. clear.
  unfold stored_keys, deleted_keys, is_deleted. split; induction T as [|e T IH]; cbn; auto;
    destruct (is_stored e); cbn; rewrite IH; reflexivity.
Qed.

(** * Hub side: what a monitor attached first is entitled to *)

Definition is_st (e : ev) : bool := match e with Stored _ => true | Deleted _ => false end.

Definition evop (o : Hub.op) : bool := match o with ODispatch _ | ODelete _ | Hub.OAdd _ => true | _ => false end.

Lemma submitted_hacts2_evop p d s : forallb evop (submitted (hacts2 p d s)) = true.
Proof.
  revert p d. induction s as [|a t IH]; intros p d; cbn [hacts2]; [reflexivity|].
  destruct a as [[]| |]; cbn [submitted forallb evop andb]; auto.
  - destruct p; cbn [submitted forallb evop andb]; auto.
  - destruct d; cbn [submitted forallb evop andb]; auto.
Qed.

Lemma view_after_join2 l b : forall v, v_joined v = true -> v_reg v = true -> forallb evop b = true ->
  v_es (fold_left (view_step l) b v) = v_es v ++ flat_map ev_of_op b.
Proof.
  induction b as [|o t IH]; intros v J R P; cbn [fold_left flat_map].
  - rewrite app_nil_r. reflexivity.
  - cbn [forallb] in P. apply Bool.andb_true_iff in P. destruct P as [Po Pt]. destruct o; cbn in Po; try discriminate.
    + rewrite IH; auto. cbn [view_step v_es ev_of_op]. rewrite R, <- app_assoc. reflexivity.
    + rewrite IH; auto. cbn [view_step v_es ev_of_op]. rewrite R, <- app_assoc. reflexivity.
    + assert (view_step l v (Hub.OAdd l0) = v) as ->. { cbn [view_step]. rewrite J, Bool.andb_false_r. reflexivity. }
      cbn [ev_of_op app]. apply IH; auto.
Qed.

Lemma ring_live_init n : ring_live (ring_init n) = [].
Proof. unfold ring_init. rewrite <- (app_nil_r (repeat None n)). apply ring_live_nones. Qed.

Lemma expected_joined_first n k f l b : forallb evop b = true ->
  expected n k f l (Hub.OAdd l :: b) = filter (wants k f) (flat_map ev_of_op b).
Proof.
  intros P. unfold expected, view_of. cbn [fold_left view_step v_joined negb andb v_ring].
  rewrite Nat.eqb_refl. cbn [andb]. rewrite view_after_join2 by auto. cbn [v_es]. rewrite ring_live_init. reflexivity.
Qed.

Lemma stored_part_ops b : filter is_st (flat_map ev_of_op b) = map Stored (msgs b).
Proof.
  induction b as [|o t IH]; [reflexivity|]. destruct o; cbn [flat_map ev_of_op app filter is_st]; auto.
  change (msgs (ODispatch m :: t)) with (m :: msgs t). cbn [map]. rewrite IH. reflexivity.
Qed.

Lemma deleted_part_ops b : filter (fun e => negb (is_st e)) (flat_map ev_of_op b) = map Deleted (dels b).
Proof.
  induction b as [|o t IH]; [reflexivity|]. destruct o; cbn [flat_map ev_of_op app filter is_st negb]; auto.
  change (dels (ODelete m :: t)) with (m :: dels t). cbn [map]. rewrite IH. reflexivity.
Qed.

Lemma filter_comm {A} (p q : A -> bool) xs : filter p (filter q xs) = filter q (filter p xs).
Proof. induction xs as [|x t IH]; [reflexivity|]. cbn. destruct (p x) eqn:P, (q x) eqn:Q; cbn; rewrite ?P, ?Q, IH; reflexivity. Qed.

(** * Monitor attached before the first store operation *)

Section Reaches.
Variables (cfg : scfg) (ops : list StoreSpec.op) (R : list (StoreSpec.obs * list event)).
Hypothesis HM : events_match cfg ops R.

Theorem attached_first_holds_store_history :
  forall n c l k f s2 st ls0,
    carries s2 (trace_of R) ->
    frun2 c (fed2_init n) (F2 (FJoin l k f None) :: s2) = Some st -> quiescent2 st = true ->
    find_l l (ls (fh (f2 st))) = Some ls0 -> lclosed ls0 = false -> lerred ls0 = false ->
    let S := lout ls0 ++ lq ls0 in
    (* its stored events: exactly the deliveries of the history, in delivery order, through its filter *)
    filter is_st S = filter (wants (lk ls0) (lf ls0)) (map Stored (map msg_of_key (stored_seq [] ops))) /\
    (* its deleted events: exactly what the deleted broker was handed, in that order, through its filter *)
    filter (fun e => negb (is_st e)) S
      = filter (wants (lk ls0) (lf ls0)) (map Deleted (map msg_of_key (deleted_keys (trace_of R)))).
Proof.
  intros n c l k f s2 st ls0 C RN Q F CL ER S.
  destruct (two_brokers_each_fifo n c _ st RN) as (A & B & E).
  specialize (E Q l ls0 F CL ER). fold S in E.
  destruct (frun2_project c _ _ _ RN) as [RH _]. cbn [fed2_init fed_init f2 fb_pend fd_pend fh] in RH.
  pose proof (fifo_order n c _ _ RH) as FO. cbn [hacts2 submitted] in FO.
  assert (QQ : fb_pend (f2 st) = [] /\ opq (fh (f2 st)) = [] /\ fd_pend st = []).
  { unfold quiescent2, quiescent in Q. apply Bool.andb_true_iff in Q. destruct Q as [Q1 Q2].
    destruct (fb_pend (f2 st)); [|discriminate]. destruct (work (fh (f2 st))); [|discriminate].
    destruct (opq (fh (f2 st))); [|discriminate]. destruct (fd_pend st); [|discriminate]. auto. }
  destruct QQ as (P1 & OQ & P2).
  rewrite OQ, app_nil_r in FO.
  assert (A' : msgs (submitted (hacts2 [] [] s2)) = emitted_s s2).
  { rewrite OQ, P1, !app_nil_r, FO in A. exact A. }
  assert (B' : dels (submitted (hacts2 [] [] s2)) = emitted_d s2).
  { rewrite OQ, P2, !app_nil_r, FO in B. exact B. }
  clear A B. rewrite FO in E.
  rewrite expected_joined_first in E by apply submitted_hacts2_evop.
  destruct (carries_streams _ _ C) as [CS CD].
  destruct HM as (_ & M2 & _).
  split.
  - rewrite E, filter_comm, stored_part_ops, A', CS, M2. reflexivity.
  - rewrite E, filter_comm, deleted_part_ops, B', CD. reflexivity.
Qed.

(** * Late joiner *)

(** The hub's op order is a merge of the two streams. What the late joiner is replayed is the
    history ring after that merge; with the ids unique (they are: one stored event per delivery)
    it is the declared history OF THE HUB'S ORDER. *)
Lemma msgs_keys a : map fst (dispatched a []) = msgs a.
Proof.
  assert (G : forall a acc, map fst (dispatched a acc) = map fst acc ++ msgs a).
  { induction a0 as [|o t IH]; intros acc; cbn [dispatched].
    - cbn. rewrite app_nil_r. reflexivity.
    - destruct o; rewrite ?IH; auto.
      + rewrite map_app. cbn. change (msgs (ODispatch m :: t)) with (m :: msgs t). rewrite <- app_assoc. reflexivity.
      + change (msgs (ODelete m :: t)) with (msgs t). f_equal.
        clear. induction acc as [|[x d] t IH]; cbn; auto. rewrite IH. reflexivity. }
  rewrite G. reflexivity.
Qed.

Lemma count_le1_nodup (ks : list mkey) :
  (forall k, length (filter (fun x => mkey_eqb k x) ks) <= 1) -> NoDup ks.
Proof.
  induction ks as [|x t IH]; intros H; [constructor|]. constructor.
  - intro I. specialize (H x). cbn in H.
    assert (mkey_eqb x x = true) as E by (unfold mkey_eqb; rewrite str_eqb_refl, Nat.eqb_refl; reflexivity).
    rewrite E in H. cbn in H.
    assert (1 <= length (filter (fun y => mkey_eqb x y) t)); [|lia].
    clear - I E. induction t as [|y t IH]; [destruct I|]. cbn. destruct I as [->|I].
    + rewrite E. cbn. lia.
    + destruct (mkey_eqb x y); cbn; [lia|auto].
  - apply IH. intros k. specialize (H k). cbn in H. destruct (mkey_eqb k x); cbn in H; lia.
Qed.

Lemma stored_keys_nodup : NoDup (stored_keys (trace_of R)).
Proof.
  apply count_le1_nodup. intros k. destruct HM as (_ & _ & _ & M4 & _). destruct k as [mb kk].
  specialize (M4 mb kk). unfold count_stored in M4. unfold stored_keys.
  assert (length (filter (fun x => mkey_eqb (mb, kk) x) (map ev_key (filter is_stored (trace_of R))))
          = length (filter (fun e => is_stored e && mkey_eqb (mb, kk) (ev_key e)) (trace_of R))) as ->.
  { generalize (trace_of R). induction l as [|e t IH]; [reflexivity|]. cbn. destruct (is_stored e); cbn; auto.
    destruct (mkey_eqb (mb, kk) (ev_key e)); cbn; rewrite IH; reflexivity. }
  rewrite M4. unfold lt01. destruct (kk <? n_adds mb ops); lia.
Qed.

Theorem late_joiner_holds_hub_history :
  forall n c s1 l k f s2 st ls0,
    carries s1 (trace_of R) -> emits s2 = [] ->
    pend2_after [] [] s1 = ([], []) ->
    frun2 c (fed2_init n) (s1 ++ F2 (FJoin l k f None) :: s2) = Some st -> quiescent2 st = true ->
    find_l l (ls (fh (f2 st))) = Some ls0 -> lclosed ls0 = false -> lerred ls0 = false ->
    let hubops := submitted (hacts2 [] [] s1) in
    (* the hub was given each stream in the store's order … *)
    msgs hubops = map msg_of_key (stored_seq [] ops) /\
    dels hubops = map msg_of_key (deleted_keys (trace_of R)) /\
    (* … and the late joiner holds the last N stored and not deleted since, IN THE HUB'S ORDER *)
    lout ls0 ++ lq ls0 = filter (wants (lk ls0) (lf ls0)) (map Stored (spec_history n hubops)).
Proof.
  intros n c s1 l k f s2 st ls0 C E2 P0 RN Q F CL ER hubops.
  destruct (two_brokers_each_fifo n c _ st RN) as (_ & _ & E).
  specialize (E Q l ls0 F CL ER).
  destruct (frun2_project c _ _ _ RN) as [RH _]. cbn [fed2_init fed_init f2 fb_pend fd_pend fh] in RH.
  pose proof (fifo_order n c _ _ RH) as FO.
  assert (OQ : opq (fh (f2 st)) = []).
  { unfold quiescent2, quiescent in Q. apply Bool.andb_true_iff in Q. destruct Q as [Q1 Q2].
    destruct (fb_pend (f2 st)); [|discriminate]. destruct (work (fh (f2 st))); [|discriminate].
    destruct (opq (fh (f2 st))); [|discriminate]. auto. }
  rewrite OQ, app_nil_r in FO. rewrite FO in E.
  (* split the submissions at the join *)
  assert (SP : submitted (hacts2 [] [] (s1 ++ F2 (FJoin l k f None) :: s2))
               = hubops ++ Hub.OAdd l :: submitted (hacts2 [] [] s2)).
  { assert (G : forall s p d, submitted (hacts2 p d (s ++ F2 (FJoin l k f None) :: s2))
                 = submitted (hacts2 p d s) ++ Hub.OAdd l :: submitted (hacts2 (fst (pend2_after p d s)) (snd (pend2_after p d s)) s2)).
    { induction s as [|a t IH]; intros p d; cbn [app hacts2 pend2_after]; [reflexivity|].
      destruct a as [[]| |]; cbn [submitted app]; rewrite ?IH; auto.
      - destruct p; cbn [submitted app]; rewrite ?IH; auto.
      - destruct d; cbn [submitted app]; rewrite ?IH; auto. }
    rewrite G, P0. reflexivity. }
  rewrite SP in E.
  destruct (hacts2_streams [] [] s1) as [A B]. rewrite P0 in A, B. cbn [fst snd app] in A, B. rewrite app_nil_r in A, B.
  destruct (carries_streams _ _ C) as [CS CD]. destruct HM as (_ & M2 & _).
  assert (MS : msgs hubops = map msg_of_key (stored_seq [] ops)) by (unfold hubops; rewrite A, CS, M2; reflexivity).
  split; [exact MS|]. split; [unfold hubops; rewrite B, CD; reflexivity|].
  (* nothing is submitted after the join *)
  assert (S2 : forallb (fun o => match o with Hub.OAdd _ => true | _ => false end) (submitted (hacts2 [] [] s2)) = true).
  { clear - E2. assert (G : forall s p d, emits s = [] -> p = [] -> d = [] ->
        forallb (fun o => match o with Hub.OAdd _ => true | _ => false end) (submitted (hacts2 p d s)) = true).
    { induction s as [|a t IH]; intros p d E -> ->; [reflexivity|]. destruct a as [[]| |]; cbn in E; try discriminate;
        cbn [hacts2 submitted forallb andb]; auto. }
    apply G; auto. }
  (* entitlement: replay of the ring after hubops, nothing later *)
  assert (NA : ~ In l (adds hubops)).
  { pose proof (reachable_inv n c _ _ RH) as I. destruct I as [_ _ ND _ _ _ _].
    rewrite OQ, app_nil_r, FO, SP in ND. rewrite adds_app in ND. cbn [adds flat_map app] in ND.
    intro X. apply NoDup_remove_2 in ND. apply ND. rewrite in_app_iff. auto. }
  rewrite E. unfold expected.
  destruct (view_at_join n l hubops (submitted (hacts2 [] [] s2)) NA) as [more EV].
  (* the part after the join holds no event *)
  assert (more = []) as ->.
  { clear - EV S2 NA. unfold view_of in EV. rewrite fold_left_app in EV. cbn [fold_left] in EV.
    destruct (view_not_added n l hubops NA) as (E1 & E2 & E3). unfold view_of in E1, E2, E3.
    set (v := fold_left (view_step l) hubops (mkV (ring_init n) [] false false)) in *.
    assert (VS : view_step l v (Hub.OAdd l) = mkV (v_ring v) (map Stored (ring_live (v_ring v))) true true).
    { cbn [view_step]. rewrite Nat.eqb_refl, E2. reflexivity. }
    rewrite VS in EV.
    assert (G : forall b w, v_joined w = true ->
               forallb (fun o => match o with Hub.OAdd _ => true | _ => false end) b = true ->
               fold_left (view_step l) b w = w).
    { induction b as [|o t IH]; intros w J P; [reflexivity|]. cbn [forallb] in P. apply Bool.andb_true_iff in P.
      destruct P as [Po Pt]. destruct o; try discriminate. cbn [fold_left].
      assert (view_step l w (Hub.OAdd l0) = w) as ->. { cbn [view_step]. rewrite J, Bool.andb_false_r. reflexivity. }
      apply IH; auto. }
    rewrite G in EV by auto. cbn [v_es] in EV. unfold v in EV. rewrite v_ring_fold in EV. cbn [v_ring] in EV.
    rewrite <- (app_nil_r (map Stored _)) in EV at 1. apply app_inv_head in EV. auto. }
  rewrite EV, app_nil_r. f_equal. f_equal.
  apply ring_is_spec_history. rewrite msgs_keys, MS.
  pose proof stored_keys_nodup as ND. destruct HM as (_ & M2' & _). rewrite M2' in ND.
  clear - ND. induction ND as [|x t Hn Hd IH]; cbn [map]; constructor; auto.
  intro I. apply in_map_iff in I. destruct I as (y & Ey & Iy). apply msg_of_key_inj in Ey. subst. tauto.
Qed.

End Reaches.

(** * The end-to-end statement, for both store models *)

Definition is_evop (o : Hub.op) : bool := match o with ODispatch _ | ODelete _ => true | _ => false end.
Definition op_of_event (e : event) : Hub.op :=
  if is_stored e then ODispatch (msg_of_key (ev_key e)) else ODelete (msg_of_key (ev_key e)).

Lemma dispatched_evops a : forall acc, dispatched a acc = dispatched (filter is_evop a) acc.
Proof. induction a as [|o t IH]; intros acc; [reflexivity|]. destruct o; cbn [filter is_evop dispatched]; auto. Qed.

(** The history depends only on the order of the dispatches and deletes the hub was given. *)
Lemma spec_history_evops n a b : filter is_evop a = filter is_evop b -> spec_history n a = spec_history n b.
Proof. intros E. unfold spec_history. rewrite (dispatched_evops a), (dispatched_evops b), E. reflexivity. Qed.

(** [store_history_reaches_monitors]: for EVERY history [ops] of store operations, every cap and
    size limit, on the memory-store model — and on the file-store model for every cap under the
    environment assumption of file_fresh_from_env —, for every schedule whose Emit calls are the
    store's events in the store's order and every interleaving of the two brokers' delivery
    goroutines, the hub goroutine, joins and socket writers, at quiescence:
    (1) a healthy monitor attached before the first operation holds, as its stored events, exactly
        the deliveries of the history in delivery order, and as its deleted events exactly the
        events of the messages that left their mailbox (removed, purged, evicted by cap or size
        limit — b-store's clause 3 says which these are) in the order the store emitted them, both
        through its mailbox filter;
    (2) a healthy monitor attached after everything settled holds the last N stored and not deleted
        since — in the order in which the HUB was given the two streams; that order restricted to
        either stream is the store's;
    (3) if that merge is the store's emit order, (2) is the last N stored and not deleted since in
        the store's own history.
    What is NOT promised: how the stored and the deleted stream are merged (see the head of this
    file, and [late_joiner_cross_broker_witness]). *)
Definition reaches (cfg : scfg) (ops : list StoreSpec.op) (R : list (StoreSpec.obs * list event)) : Prop :=
  (forall n c l k f s2 st ls0,
      carries s2 (trace_of R) ->
      frun2 c (fed2_init n) (F2 (FJoin l k f None) :: s2) = Some st -> quiescent2 st = true ->
      find_l l (ls (fh (f2 st))) = Some ls0 -> lclosed ls0 = false -> lerred ls0 = false ->
      filter is_st (lout ls0 ++ lq ls0)
        = filter (wants (lk ls0) (lf ls0)) (map Stored (map msg_of_key (stored_seq [] ops))) /\
      filter (fun e => negb (is_st e)) (lout ls0 ++ lq ls0)
        = filter (wants (lk ls0) (lf ls0)) (map Deleted (map msg_of_key (deleted_keys (trace_of R))))) /\
  (forall n c s1 l k f s2 st ls0,
      carries s1 (trace_of R) -> emits s2 = [] -> pend2_after [] [] s1 = ([], []) ->
      frun2 c (fed2_init n) (s1 ++ F2 (FJoin l k f None) :: s2) = Some st -> quiescent2 st = true ->
      find_l l (ls (fh (f2 st))) = Some ls0 -> lclosed ls0 = false -> lerred ls0 = false ->
      let hubops := submitted (hacts2 [] [] s1) in
      msgs hubops = map msg_of_key (stored_seq [] ops) /\
      dels hubops = map msg_of_key (deleted_keys (trace_of R)) /\
      lout ls0 ++ lq ls0 = filter (wants (lk ls0) (lf ls0)) (map Stored (spec_history n hubops)) /\
      (filter is_evop hubops = map op_of_event (trace_of R) ->
       lout ls0 ++ lq ls0
         = filter (wants (lk ls0) (lf ls0)) (map Stored (spec_history n (map op_of_event (trace_of R)))))).

Lemma filter_evop_trace T : filter is_evop (map op_of_event T) = map op_of_event T.
Proof.
  induction T as [|e t IH]; [reflexivity|]. cbn [map filter].
  assert (is_evop (op_of_event e) = true) as -> by (unfold op_of_event; destruct (is_stored e); reflexivity).
  rewrite IH. reflexivity.
Qed.

Lemma reaches_of_match cfg ops R : events_match cfg ops R -> reaches cfg ops R.
Proof.
  intros HM. split.
  - intros. eapply attached_first_holds_store_history; eauto.
  - intros n c s1 l k f s2 st ls0 C E2 P0 RN Q F CL ER hubops.
    destruct (late_joiner_holds_hub_history cfg ops R HM n c s1 l k f s2 st ls0 C E2 P0 RN Q F CL ER) as (A & B & H).
    repeat split; auto. intros EO. fold hubops in H. rewrite H. f_equal. f_equal.
    apply spec_history_evops. rewrite EO. symmetry. apply filter_evop_trace.
Qed.

Theorem store_history_reaches_monitors :
  forall cfg ops,
    reaches cfg ops (run_mem cfg ops) /\
    (forall ticks, c_max cfg = 0%N -> env_ok 0 ticks ops -> reaches cfg ops (run_file cfg ticks ops)).
Proof.
  intros cfg ops. destruct (events_match_history cfg ops) as [M Fi]. split.
  - apply reaches_of_match. exact M.
  - intros ticks Hm He. apply reaches_of_match. apply Fi; auto.
Qed.

(** * The cross-broker finding at the monitors: a witness *)

(** One message is stored and then removed; the deleted broker's goroutine happens to run first.
    The hub runs Delete (nothing to blank) and then Dispatch: the message stays in the history and
    a monitor that joins afterwards is replayed a message that no longer exists. *)
Definition xb_msg : msg := msg_of_key ([97%N], 0).

Definition xb_sched : list fact2 :=
  [F2 (FEmit xb_msg); F2EmitDel xb_msg;
   F2DeliverDel; F2 (FHub true); F2 FDeliver; F2 (FHub true); F2DeliverDel; F2 FDeliver;
   F2 (FJoin 2 Mock [] None); F2 (FHub true); F2 (FHub true)].

Lemma late_joiner_cross_broker_witness :
  exists st ls0,
    frun2 pinned_cfg (fed2_init 2) xb_sched = Some st /\ quiescent2 st = true /\
    find_l 2 (ls (fh (f2 st))) = Some ls0 /\ lclosed ls0 = false /\ lerred ls0 = false /\
    lout ls0 ++ lq ls0 = [Stored xb_msg] /\
    (* … whereas in the store's own order the message is gone *)
    spec_history 2 [ODispatch xb_msg; ODelete xb_msg] = [].
Proof. eexists. eexists. split; [vm_compute; reflexivity|]. repeat split; vm_compute; reflexivity. Qed.

(** Non-vacuity of the end-to-end statement: a memory-store history with a removal and a cap
    eviction, its events emitted in order, everything delivered in emit order. *)
Definition e2e_ops : list StoreSpec.op :=
  [Add [97%N] 0%Z 0%N 10%N; Add [97%N] 1%Z 1%N 10%N; Remove [97%N] (Kth 0); Add [97%N] 2%Z 2%N 10%N; Add [97%N] 3%Z 3%N 10%N].
Definition e2e_cfg : scfg := {| c_cap := 2; c_max := 0 |}.
Definition e2e_trace : list event := trace_of (run_mem e2e_cfg e2e_ops).

Definition e2e_sched : list fact2 :=
  flat_map (fun e => if is_stored e
                     then [F2 (FEmit (msg_of_key (ev_key e))); F2 FDeliver; F2 (FHub true); F2 (FHub true)]
                     else [F2EmitDel (msg_of_key (ev_key e)); F2DeliverDel; F2 (FHub true); F2 (FHub true)]) e2e_trace.

Example e2e_demo :
  exists st ls0,
    carries e2e_sched e2e_trace /\
    frun2 pinned_cfg (fed2_init 3) (F2 (FJoin 1 Mock [] None) :: F2 (FHub true) :: e2e_sched) = Some st /\
    find_l 1 (ls (fh (f2 st))) = Some ls0 /\
    lout ls0 ++ lq ls0 =
      [Stored (msg_of_key ([97%N], 0)); Stored (msg_of_key ([97%N], 1)); Deleted (msg_of_key ([97%N], 0));
       Stored (msg_of_key ([97%N], 2)); Deleted (msg_of_key ([97%N], 1)); Stored (msg_of_key ([97%N], 3))].
Proof. eexists. eexists. split; [vm_compute; reflexivity|]. split; [vm_compute; reflexivity|]. split; vm_compute; reflexivity. Qed.

(** The freshness hypothesis of [file_refines_spec] follows from the environment assumption
    "fewer than 10 000 deliveries fall into any one wall-clock second" (one process
    incarnation: the model starts with an empty store at counter 0; several incarnations are
    C10's restart model). Ids are (second, counter mod 10000); within one second the counters
    of fewer than 10 000 consecutive draws are pairwise different, and an id of an earlier
    second differs in its first component. *)
From Coq Require Import List Arith NArith Lia Sorted.
From IV Require Import Base.Bytes Base.BytesFacts Model.StoreSpec Model.StoreSpecImpl Model.FileStore
  Proofs.StoreSpecFacts Proofs.StoreSpecRefine Proofs.FileStoreRefine.
Import ListNotations.

Local Open Scope N_scope.

Lemma mod_window g G : g < G -> G - g < 10000 -> g mod 10000 = G mod 10000 -> False.
Proof.
  intros H1 H2 H3. pose proof (N.div_mod g 10000 ltac:(lia)). pose proof (N.div_mod G 10000 ltac:(lia)).
  set (a := g / 10000) in *. set (b := G / 10000) in *. set (r := g mod 10000) in *. rewrite <- H3 in *.
  assert (b = a \/ b < a \/ a < b) as [E|[E|E]] by lia; nia.
Qed.

Lemma succ_mod G : (G mod 10000 + 1) mod 10000 = (G + 1) mod 10000.
Proof. rewrite N.add_mod_idemp_l by lia. reflexivity. Qed.

(** The environment assumption, on the inputs of a run: [inrun] deliveries have already fallen
    into the current second; a delivery whose tick is 0 falls into the same second. *)
Fixpoint env_ok (inrun : N) (ticks : list N) (ops : list op) : Prop :=
  match ops with
  | [] => True
  | Add _ _ _ _ :: ops' =>
      let dt := match ticks with [] => 0 | d :: _ => d end in
      let inrun' := if dt =? 0 then inrun + 1 else 1 in
      inrun' < 10000 /\ env_ok inrun' (tl ticks) ops'
  | _ :: ops' => env_ok inrun ticks ops'
  end.

(** Clock invariant: [G] ids have been drawn; every issued id is (second, g mod 10000) of some
    draw g < G, no later than the current second, and strictly earlier unless it belongs to the
    last [inrun] draws. *)
Definition J (s : file_store) (iss : issued fid) (G inrun : N) : Prop :=
  fs_ctr s = G mod 10000 /\ inrun <= G /\
  forall mb i, In i (iss_of fid mb iss) ->
    exists g, g < G /\ snd i = g mod 10000 /\ fst i <= fs_sec s /\ (g + inrun < G -> fst i < fs_sec s).

Lemma gen_fuel_S : exists f, gen_fuel = S f.
Proof. exists (N.to_nat 9999). unfold gen_fuel. rewrite <- N2Nat.inj_succ. reflexivity. Qed.

Lemma gen_loop_first sec ctr l : has_id (sec, ctr) l = false ->
  gen_loop gen_fuel sec ctr l = ((sec, ctr), (ctr + 1) mod 10000).
Proof. intros H. destruct gen_fuel_S as [f ->]. cbn [gen_loop]. rewrite H. reflexivity. Qed.

Lemma has_id_false i (l : list (fid * msg)) : (forall p, In p l -> fst p <> i) -> has_id i l = false.
Proof.
  intros H. unfold has_id, fal_find. induction l as [|[j m] l IH]; [reflexivity|]. cbn [al_find].
  destruct (fid_eqb i j) eqn:Q.
  - apply fid_eqb_eq in Q. exfalso. apply (H (j, m) (or_introl eq_refl)). simpl. congruence.
  - apply IH. intros p Hp. apply H. right; exact Hp.
Qed.

Lemma file_add_state cfg s mb m :
  let dt := match fs_ticks s with [] => 0 | d :: _ => d end in
  let l1 := skipn (cap_d cfg (length (get_index mb s))) (get_index mb s) in
  let r := gen_loop gen_fuel (fs_sec s + dt) (fs_ctr s) l1 in
  fs_sec (fst (fst (file_add cfg s mb m))) = fst (fst r) /\
  fs_ctr (fst (fst (file_add cfg s mb m))) = snd r /\
  fs_ticks (fst (fst (file_add cfg s mb m))) = tl (fs_ticks s) /\
  snd (fst (file_add cfg s mb m)) = LAdd (fst r).
Proof.
  intros dt l1 r. unfold file_add.
  assert ((if Nat.eqb (c_cap cfg) 0 then (get_index mb s, [])
           else fcap_loop (S (length (get_index mb s))) (c_cap cfg) (get_index mb s) []) =
          (l1, map fst (firstn (cap_d cfg (length (get_index mb s))) (get_index mb s)))) as ->.
  { unfold l1, cap_d. destruct (Nat.eqb (c_cap cfg) 0) eqn:E; [reflexivity|].
    apply Nat.eqb_neq in E. rewrite fcap_loop_spec by lia. reflexivity. }
  unfold r, dt. destruct (fs_ticks s) as [|d t]; destruct (gen_loop gen_fuel _ (fs_ctr s) l1) as [i c]; simpl; auto.
Qed.

Section Env.
Variable cfg : scfg.
Hypothesis no_max : c_max cfg = 0.

Lemma add_fresh st s iss G inrun mb :
  RF st s iss -> SInv st -> J s iss G inrun ->
  let dt := match fs_ticks s with [] => 0 | d :: _ => d end in
  let inrun' := if dt =? 0 then inrun + 1 else 1 in
  inrun' < 10000 ->
  next_id cfg s mb = (fs_sec s + dt, G mod 10000) /\
  (forall mb' i, In i (iss_of fid mb' iss) -> i <> (fs_sec s + dt, G mod 10000)).
Proof.
  intros HR HI [J1 [J2 J3]] dt inrun' Hrun.
  assert (Hne : forall mb' i, In i (iss_of fid mb' iss) -> i <> (fs_sec s + dt, G mod 10000)).
  { intros mb' i Hi Heq. destruct (J3 mb' i Hi) as [g [Hg [Hs [Hle Hlt]]]]. subst i. cbn [fst snd] in *.
    assert (dt = 0) by lia. subst inrun'. rewrite H in *. rewrite N.eqb_refl in Hrun.
    assert (~ (g + inrun < G)) by (intros Hc; specialize (Hlt Hc); lia).
    apply (mod_window g G Hg); [lia | symmetry; exact Hs]. }
  split; [|exact Hne].
  assert (Hh : has_id (fs_sec s + dt, G mod 10000) (skipn (cap_d cfg (length (get_index mb s))) (get_index mb s)) = false).
  { apply has_id_false. intros p Hp Heq.
    assert (In p (get_index mb s)).
    { rewrite <- (firstn_skipn (cap_d cfg (length (get_index mb s))) (get_index mb s)). apply in_or_app. right; exact Hp. }
    rewrite (rf_box _ _ _ HR) in H. unfold frep, rep in H. apply in_map_iff in H as [e [<- He]]. cbn [fst] in Heq.
    apply (Hne mb (fidof iss mb (e_k e))); [|exact Heq]. unfold fidof. apply nth_In. apply (box_k_lt st s iss HR HI mb e He). }
  unfold next_id. fold dt. rewrite J1. rewrite (gen_loop_first _ _ _ Hh). reflexivity.
Qed.

Lemma env_fresh : forall ops st s iss G inrun,
  RF st s iss -> SInv st -> J s iss G inrun -> env_ok inrun (fs_ticks s) ops -> file_fresh cfg (s, iss) ops.
Proof.
  induction ops as [|o ops IH]; intros st s iss G inrun HR HI HJ He; [exact I|].
  assert (Hstep : forall Hf : match o with Add mb _ _ _ => ~ In (next_id cfg s mb) (iss_of fid mb iss) | _ => True end,
            step_ok cfg st s iss o) by (intros Hf; apply step_any; assumption).
  pose proof (exec_spec_SInv cfg st o HI) as HI'.
  destruct o as [mb date tag size|mb h|mb|mb h|mb h|mb|].
  - (* Add *)
    cbn [env_ok] in He. destruct He as [Hrun He].
    destruct (add_fresh st s iss G inrun mb HR HI HJ Hrun) as [Hid Hne].
    assert (Hf : ~ In (next_id cfg s mb) (iss_of fid mb iss)).
    { intros Hin. apply (Hne mb _ Hin). exact Hid. }
    cbn [file_fresh fst snd]. split; [exact Hf|].
    specialize (Hstep Hf). unfold step_ok in Hstep. unfold fstep.
    set (m := {| m_date := date; m_tag := tag; m_size := size; m_seen := false |}).
    pose proof (file_add_state cfg s mb m) as Hst. cbv zeta in Hst.
    assert (Hnext : fst (gen_loop gen_fuel (fs_sec s + match fs_ticks s with [] => 0 | d :: _ => d end) (fs_ctr s)
                           (skipn (cap_d cfg (length (get_index mb s))) (get_index mb s))) = next_id cfg s mb) by reflexivity.
    assert (Hctr : snd (gen_loop gen_fuel (fs_sec s + match fs_ticks s with [] => 0 | d :: _ => d end) (fs_ctr s)
                          (skipn (cap_d cfg (length (get_index mb s))) (get_index mb s))) = (G + 1) mod 10000).
    { destruct HJ as [J1 _]. rewrite J1.
      assert (Hh : has_id (fs_sec s + match fs_ticks s with [] => 0 | d :: _ => d end, G mod 10000)
                     (skipn (cap_d cfg (length (get_index mb s))) (get_index mb s)) = false).
      { apply has_id_false. intros p Hp Heq.
        assert (In p (get_index mb s)).
        { rewrite <- (firstn_skipn (cap_d cfg (length (get_index mb s))) (get_index mb s)). apply in_or_app. right; exact Hp. }
        rewrite (rf_box _ _ _ HR) in H. unfold frep, rep in H. apply in_map_iff in H as [e [<- Hin]]. cbn [fst] in Heq.
        apply (Hne mb (fidof iss mb (e_k e))); [|exact Heq]. unfold fidof. apply nth_In. apply (box_k_lt st s iss HR HI mb e Hin). }
      rewrite (gen_loop_first _ _ _ Hh). cbn [snd]. apply succ_mod. }
    rewrite Hnext, Hctr, Hid in Hst. destruct Hst as [Hs1 [Hs2 [Hs3 Hs4]]].
    cbn [step_impl] in *. cbn [exec_file] in *. fold m in Hstep |- *.
    destruct (file_add cfg s mb m) as [[s1 r1] evs1]. cbn [fst snd] in *. subst r1.
    cbn [exec_file] in *. destruct (exec_spec cfg st (Add mb date tag size)) as [[st' ob'] evs'].
    cbn [fst snd] in *. destruct Hstep as [_ [_ HR']].
    set (dt := match fs_ticks s with [] => 0 | d :: _ => d end) in *.
    set (inrun' := if dt =? 0 then inrun + 1 else 1) in *.
    apply (IH st' s1 _ (G + 1) inrun' HR' HI'); [|rewrite Hs3; exact He].
    destruct HJ as [J1 [J2 J3]]. split; [exact Hs2|]. split; [subst inrun'; destruct (dt =? 0); lia|].
    intros mb' i Hi. rewrite Hs1. cbn [fst].
    assert (Hcases : In i (iss_of fid mb' iss) \/ i = (fs_sec s + dt, G mod 10000)).
    { unfold iss_of in Hi |- *. destruct (list_eq_dec N.eq_dec mb' mb) as [->|Hneq].
      - rewrite bx_get_set_same in Hi. apply in_app_or in Hi as [Hi|[<-|[]]]; [left; exact Hi | right; reflexivity].
      - rewrite bx_get_set_other in Hi by congruence. left; exact Hi. }
    destruct Hcases as [Hold| ->].
    + destruct (J3 mb' i Hold) as [g [Hg [Hsn [Hle Hlt]]]]. exists g. repeat split; [lia | exact Hsn | lia |].
      intros Hc. subst inrun'. destruct (dt =? 0) eqn:Q.
      * apply N.eqb_eq in Q. assert (g + inrun < G) by lia. specialize (Hlt H). lia.
      * apply N.eqb_neq in Q. lia.
    + exists G. cbn [fst snd]. repeat split; [lia | lia |]. intros Hc. subst inrun'. destruct (dt =? 0); lia.
  - cbn [file_fresh env_ok] in *. split; [exact I|]. specialize (Hstep I). unfold step_ok, fstep in *.
    destruct (step_impl fid fid_eqb file_store (exec_file cfg) (s, iss) (Get mb h)) as [[[s' iss'] ob] evs] eqn:Es.
    assert (s' = s /\ iss' = iss) as [-> ->]. { cbn [step_impl exec_file] in Es. inversion Es; auto. }
    destruct (exec_spec cfg st (Get mb h)) as [[st' ob'] evs']. cbn [fst snd] in *. destruct Hstep as [_ [_ HR']].
    apply (IH st' s iss G inrun); assumption.
  - cbn [file_fresh env_ok] in *. split; [exact I|]. specialize (Hstep I). unfold step_ok, fstep in *.
    destruct (step_impl fid fid_eqb file_store (exec_file cfg) (s, iss) (Lst mb)) as [[[s' iss'] ob] evs] eqn:Es.
    assert (s' = s /\ iss' = iss) as [-> ->]. { cbn [step_impl exec_file] in Es. inversion Es; auto. }
    destruct (exec_spec cfg st (Lst mb)) as [[st' ob'] evs']. cbn [fst snd] in *. destruct Hstep as [_ [_ HR']].
    apply (IH st' s iss G inrun); assumption.
  - cbn [file_fresh env_ok] in *. split; [exact I|]. specialize (Hstep I). unfold step_ok, fstep in *.
    destruct (step_impl fid fid_eqb file_store (exec_file cfg) (s, iss) (Seen mb h)) as [[[s' iss'] ob] evs] eqn:Es.
    assert (Hk : fs_sec s' = fs_sec s /\ fs_ctr s' = fs_ctr s /\ fs_ticks s' = fs_ticks s /\ iss' = iss).
    { cbn [step_impl] in Es. destruct (resolve fid iss mb h) as [i| |]; cbn [exec_file] in Es;
        [destruct (fal_find i (get_index mb s))|..]; inversion Es; subst; auto. }
    destruct Hk as [K1 [K2 [K3 ->]]].
    destruct (exec_spec cfg st (Seen mb h)) as [[st' ob'] evs']. cbn [fst snd] in *. destruct Hstep as [_ [_ HR']].
    apply (IH st' s' iss G inrun); try assumption; [|rewrite K3; exact He].
    destruct HJ as [J1 [J2 J3]]. split; [congruence|]. split; [exact J2|]. rewrite K1. exact J3.
  - cbn [file_fresh env_ok] in *. split; [exact I|]. specialize (Hstep I). unfold step_ok, fstep in *.
    destruct (step_impl fid fid_eqb file_store (exec_file cfg) (s, iss) (Remove mb h)) as [[[s' iss'] ob] evs] eqn:Es.
    assert (Hk : fs_sec s' = fs_sec s /\ fs_ctr s' = fs_ctr s /\ fs_ticks s' = fs_ticks s /\ iss' = iss).
    { cbn [step_impl] in Es. destruct (resolve fid iss mb h) as [i| |]; cbn [exec_file] in Es;
        [destruct (fal_find i (get_index mb s))|..]; inversion Es; subst; auto. }
    destruct Hk as [K1 [K2 [K3 ->]]].
    destruct (exec_spec cfg st (Remove mb h)) as [[st' ob'] evs']. cbn [fst snd] in *. destruct Hstep as [_ [_ HR']].
    apply (IH st' s' iss G inrun); try assumption; [|rewrite K3; exact He].
    destruct HJ as [J1 [J2 J3]]. split; [congruence|]. split; [exact J2|]. rewrite K1. exact J3.
  - cbn [file_fresh env_ok] in *. split; [exact I|]. specialize (Hstep I). unfold step_ok, fstep in *.
    destruct (step_impl fid fid_eqb file_store (exec_file cfg) (s, iss) (Purge mb)) as [[[s' iss'] ob] evs] eqn:Es.
    assert (Hk : fs_sec s' = fs_sec s /\ fs_ctr s' = fs_ctr s /\ fs_ticks s' = fs_ticks s /\ iss' = iss).
    { cbn [step_impl exec_file] in Es. destruct (get_index mb s); inversion Es; subst; auto. }
    destruct Hk as [K1 [K2 [K3 ->]]].
    destruct (exec_spec cfg st (Purge mb)) as [[st' ob'] evs']. cbn [fst snd] in *. destruct Hstep as [_ [_ HR']].
    apply (IH st' s' iss G inrun); try assumption; [|rewrite K3; exact He].
    destruct HJ as [J1 [J2 J3]]. split; [congruence|]. split; [exact J2|]. rewrite K1. exact J3.
  - cbn [file_fresh env_ok] in *. split; [exact I|]. specialize (Hstep I). unfold step_ok, fstep in *.
    destruct (step_impl fid fid_eqb file_store (exec_file cfg) (s, iss) Visit) as [[[s' iss'] ob] evs] eqn:Es.
    assert (s' = s /\ iss' = iss) as [-> ->]. { cbn [step_impl exec_file] in Es. inversion Es; auto. }
    destruct (exec_spec cfg st Visit) as [[st' ob'] evs']. cbn [fst snd] in *. destruct Hstep as [_ [_ HR']].
    apply (IH st' s iss G inrun); assumption.
Qed.

(** [file_fresh_from_env]: the hypothesis of [file_refines_spec] is discharged by the
    environment assumption on the inputs. *)
Theorem file_fresh_from_env ticks ops : env_ok 0 ticks ops -> file_fresh cfg (file_init ticks, []) ops.
Proof.
  intros He. apply (env_fresh ops spec_init (file_init ticks) [] 0 0 (RF_init ticks) SInv_init); [|exact He].
  split; [reflexivity|]. split; [lia|]. intros mb i [].
Qed.

Theorem file_refines_spec_env ticks ops : env_ok 0 ticks ops -> run_file cfg ticks ops = run_spec cfg spec_init ops.
Proof. intros He. apply file_refines_spec; [exact no_max | apply file_fresh_from_env; exact He]. Qed.
End Env.

Example env_ok_example : env_ok 0 [5; 0; 0; 2] [Add [97] 0%Z 0 10; Lst [97]; Add [97] 0%Z 1 10; Add [98] 0%Z 2 10; Add [97] 0%Z 3 10].
Proof. simpl. repeat split; lia. Qed.

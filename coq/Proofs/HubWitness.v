(** C15: the slow-listener witness (open finding K-C15-slow-listener) and non-vacuity examples,
    over the capacities the source declares (Gen/HubPins.v). *)
From IV Require Import Base.Bytes Gen.HubPins Model.Hub Proofs.HubBasics Proofs.HubInv Proofs.HubTheorems.
Local Open Scope nat_scope.

Definition wmsg (i : nat) : msg := ([97%N], [N.of_nat i]).

(** Listener 0 (v2, all mailboxes) joins and is never drained; one message more than its
    queue holds is dispatched; the hub goroutine runs as far as it can. *)
Definition stall_acts : list action :=
  [ANew 0 V2 [] None; AHub true] ++
  flat_map (fun i => [AEnq (ODispatch (wmsg i)); AHub true; AHub true]) (seq 0 v2_queue_cap) ++
  [AEnq (ODispatch (wmsg v2_queue_cap)); AHub true].

Definition stall_state : hub :=
  match run pinned_cfg (hub_init 0) stall_acts with Some h => h | None => hub_init 0 end.

Lemma stall_reached : run pinned_cfg (hub_init 0) stall_acts = Some stall_state.
Proof. vm_compute. reflexivity. Qed.

Lemma stall_stuck : forall ch, hub_step pinned_cfg ch stall_state = None.
Proof. intros []; vm_compute; reflexivity. Qed.

Lemma stall_busy : stopped stall_state = false /\ busy stall_state.
Proof. split; [vm_compute; reflexivity|]. left. vm_compute. discriminate. Qed.

(** The listener the hub waits for is open and healthy: it is slow, not failed. *)
Lemma stall_listener_open :
  exists s, find_l 0 (ls stall_state) = Some s /\ lclosed s = false /\ lerred s = false /\
            length (lq s) = v2_queue_cap.
Proof. eexists. split; [vm_compute; reflexivity|]. repeat split; vm_compute; reflexivity. Qed.

Theorem slow_listener_stall_refuted : ~ hub_never_blocks_stmt.
Proof.
  intros H. destruct stall_busy as [S B].
  destruct (H 0 pinned_cfg stall_acts stall_state stall_reached S B) as (ch & h' & E).
  rewrite stall_stuck in E. discriminate.
Qed.

(** Non-vacuity: a run in which a healthy listener joined after two dispatches and one delete,
    received the replay and a later event, while another listener was closed with an event
    still buffered. *)
Definition demo_acts : list action :=
  [AEnq (ODispatch (wmsg 1)); AEnq (ODispatch (wmsg 2)); AEnq (ODelete (wmsg 1));
   ANew 7 V1 [] None; ANew 8 V2 [97%N] None;
   AHub true; AHub true; AHub true; AHub true; AHub true; AHub true; AHub true;
   AEnq (ODispatch (wmsg 3)); AHub true; AHub true; AClose 7; ARm 7; AHub true; AHub true].

Example demo_run :
  exists h s, run pinned_cfg (hub_init 2) demo_acts = Some h /\ find_l 8 (ls h) = Some s /\
              lclosed s = false /\ lerred s = false /\ work h = [] /\ opq h = [] /\
              lout s ++ lq s = [Stored (wmsg 2); Stored (wmsg 3)] /\
              hlog h = [ODispatch (wmsg 1); ODispatch (wmsg 2); ODelete (wmsg 1); OAdd 7; OAdd 8;
                        ODispatch (wmsg 3); ORemove 7].
Proof. eexists. eexists. split; [vm_compute; reflexivity|]. repeat split; vm_compute; reflexivity. Qed.

(** C04: the model agrees with the independent reading of doc/config.md (Model/AddrSpec.v) on
    every ordinary address, in every naming mode: it is accepted and its mailbox name is the
    documented one. *)
From IV Require Import Base.Bytes Base.BytesFacts Model.Addr Model.AddrSpec
  Proofs.AddrFacts Proofs.AddrScan Proofs.AddrDomain Proofs.AddrNaming Proofs.AddrCase.
From Coq Require Import ZifyN ZifyNat ZifyBool.

Lemma local_char_lt c : local_char c = true -> c < 256.
Proof. unfold local_char, word_char, alnum, is_alpha, is_upper, is_lower, is_digit. lia. Qed.

Lemma local_char_facts c : local_char c = true -> plain_char c && mailbox_char_ok (lower_b c) = true.
Proof. revert c. apply sweep_impl; [apply local_char_lt | vm_compute; reflexivity]. Qed.

Lemma word_char_facts c : word_char c = true ->
  (c =? 64) = false /\ (c =? 46) = false /\ (c =? 43) = false /\ (c =? 91) = false /\ (lower_b c =? 46) = false.
Proof. intros H. rewrite (lower_b_eqb c 46) by reflexivity. unfold word_char, alnum, is_alpha, is_upper, is_lower, is_digit in H. repeat split; lia. Qed.

Lemma alnum_label c : alnum c = true -> is_label_char c = true.
Proof. unfold alnum, is_label_char. intros H. rewrite H. reflexivity. Qed.

Lemma alnum_not_punct c : alnum c = true -> punct c = false.
Proof. unfold alnum, punct, is_alpha, is_upper, is_lower, is_digit. lia. Qed.

(** * the domain *)
Lemma labels_ordinary s : forall p n h,
  forallb dom_char s = true -> no_pair (fun a b => punct a && punct b) (p :: s) = true ->
  (alnum p = true -> h = true) -> alnum p || punct p = true ->
  n + N.of_nat (length s) <= 63 -> alnum (last s p) = true ->
  labels_ok (s ++ [46]) p n h = true.
Proof.
  induction s as [|c t IH]; intros p n h F NP INV CL LEN LAST.
  - cbn [app labels_ok last] in *. change (is_label_char 46) with false. cbv iota. change (46 =? 45) with false. change (46 =? 46) with true. cbv iota.
    pose proof (alnum_not_punct p LAST) as PP. unfold punct in PP. rewrite PP.
    assert (E : (max_label_len <? n) = false) by (clear - LEN; unfold max_label_len; simpl length in LEN; lia). rewrite E.
    rewrite (INV LAST). reflexivity.
  - cbn [forallb] in F. apply andb_true_iff in F as [Fc Ft].
    cbn [no_pair] in NP. apply andb_true_iff in NP as [NP1 NP2]. apply negb_true_iff in NP1.
    change ((c :: t) ++ [46]) with (c :: (t ++ [46])). cbn [labels_ok].
    assert (LAST' : alnum (last t c) = true) by (rewrite <- (last_cons c t p); exact LAST).
    assert (LEN' : n + 1 + N.of_nat (length t) <= 63) by (clear - LEN; simpl length in LEN; lia).
    assert (LEN0 : n + N.of_nat (length t) <= 63) by (clear - LEN'; lia).
    assert (LEN1 : 0 + N.of_nat (length t) <= 63) by (clear - LEN'; lia).
    unfold dom_char in Fc.
    destruct (alnum c) eqn:A.
    + rewrite (alnum_label c A). apply IH; [exact Ft | exact NP2 | intros _; reflexivity | rewrite A; reflexivity | exact LEN' | exact LAST'].
    + destruct (c =? 45) eqn:E45.
      * apply N.eqb_eq in E45. subst c. change (is_label_char 45) with false. cbv iota.
        assert (PP : punct p = false) by (change (punct 45) with true in NP1; rewrite andb_true_r in NP1; exact NP1).
        unfold punct in PP. rewrite PP. apply IH; [exact Ft | exact NP2 | intros X; discriminate X | reflexivity | exact LEN0 | exact LAST'].
      * destruct (c =? 46) eqn:E46; [|simpl in Fc; discriminate Fc].
        apply N.eqb_eq in E46. subst c. change (is_label_char 46) with false. cbv iota.
        assert (PP : punct p = false) by (change (punct 46) with true in NP1; rewrite andb_true_r in NP1; exact NP1).
        pose proof PP as PP'. unfold punct in PP'. rewrite PP'.
        assert (AP : alnum p = true) by (rewrite PP, orb_false_r in CL; exact CL).
        assert (E : (max_label_len <? n) = false) by (clear - LEN'; unfold max_label_len; lia). rewrite E. rewrite (INV AP). cbn [negb].
        apply IH; [exact Ft | exact NP2 | intros X; discriminate X | reflexivity | exact LEN1 | exact LAST'].
Qed.

Lemma ordinary_domain_valid parse_ip d : ordinary_domain d = true ->
  validate_domain parse_ip d = true /\ bracket_type d = false /\ d <> [] /\ (length d <= 63)%nat.
Proof.
  unfold ordinary_domain. intros H.
  apply andb_true_iff in H as [H LD]. apply andb_true_iff in H as [H NP]. apply andb_true_iff in H as [H H2].
  apply andb_true_iff in H as [H FD]. apply Nat.leb_le in LD.
  destruct d as [|c0 d']; [discriminate|].
  assert (NB : is_bracketed (c0 :: d') = false).
  { unfold is_bracketed. simpl nth. clear - H. unfold alnum, is_alpha, is_upper, is_lower, is_digit in H. destruct (c0 =? 91) eqn:E; [lia | reflexivity]. }
  assert (L : (length (c0 :: d') <= 63)%nat) by exact LD.
  split; [|split; [unfold bracket_type; rewrite NB; apply andb_false_r | split; [discriminate | exact L]]].
  unfold validate_domain. rewrite NB, andb_false_r.
  destruct (N.of_nat (length (c0 :: d')) =? 0) eqn:E0; [clear - E0; simpl length in E0; lia|].
  destruct (max_domain_len <? N.of_nat (length (c0 :: d'))) eqn:E1; [clear - E1 L; unfold max_domain_len in E1; lia|].
  pose proof (alnum_not_punct _ H2) as LP. unfold punct in LP. apply orb_false_iff in LP as [LP _]. rewrite LP.
  apply labels_ordinary.
  - exact FD.
  - change (no_pair (fun a b => punct a && punct b) (46 :: c0 :: d')) with (negb (punct 46 && punct c0) && no_pair (fun a b => punct a && punct b) (c0 :: d')).
    rewrite (alnum_not_punct c0 H), andb_false_r. exact NP.
  - intros X. discriminate X.
  - reflexivity.
  - clear - L. lia.
  - rewrite <- (last_default_nonempty c0 d' 0 46). exact H2.
Qed.

(** * the local part *)
Lemma before_take_until sep s : before sep s = take_until sep s.
Proof. induction s as [|c t IH]; [reflexivity|]. simpl. rewrite IH. reflexivity. Qed.

Lemma take_until_lower sep s : is_alpha sep = false -> take_until sep (lower s) = lower (take_until sep s).
Proof.
  intros Hs. induction s as [|c t IH]; [reflexivity|]. change (lower (c :: t)) with (lower_b c :: lower t).
  cbn [take_until]. rewrite (lower_b_eqb c sep Hs). destruct (c =? sep); [reflexivity|].
  change (lower (c :: take_until sep t)) with (lower_b c :: lower (take_until sep t)). rewrite IH. reflexivity.
Qed.

Lemma has_dotdot_lower s : has_dotdot (lower s) = has_dotdot s.
Proof.
  induction s as [|a t IH]; [reflexivity|]. change (lower (a :: t)) with (lower_b a :: lower t). cbn [has_dotdot].
  rewrite IH. destruct t as [|b t']; [reflexivity|]. change (lower (b :: t')) with (lower_b b :: lower t').
  rewrite (lower_b_eqb a 46), (lower_b_eqb b 46) by reflexivity. reflexivity.
Qed.

Lemma no_pair_dotdot s : no_pair (fun a b => (a =? 46) && ((b =? 46) || (b =? 43))) s = true -> has_dotdot s = false.
Proof.
  induction s as [|a t IH]; [reflexivity|]. cbn [no_pair has_dotdot]. intros H. apply andb_true_iff in H as [H1 H2].
  rewrite (IH H2), orb_false_r. destruct t as [|b t']; [reflexivity|]. apply negb_true_iff in H1.
  destruct (a =? 46); [|reflexivity]. cbn [andb] in *. apply orb_false_iff in H1 as [H1 _]. exact H1.
Qed.

Lemma has_dotdot_take_until sep s : has_dotdot s = false -> has_dotdot (take_until sep s) = false.
Proof.
  induction s as [|a t IH]; [reflexivity|]. cbn [has_dotdot take_until]. intros H. apply orb_false_iff in H as [H1 H2].
  destruct (a =? sep); [reflexivity|]. cbn [has_dotdot]. rewrite (IH H2), orb_false_r.
  destruct t as [|b t']; [reflexivity|]. cbn [take_until]. destruct (b =? sep); [reflexivity | exact H1].
Qed.

(** the base name does not end in a period: the local part does not, and no period stands in front of a '+' *)
Lemma last_take_until s : forall p,
  no_pair (fun a b => (a =? 46) && ((b =? 46) || (b =? 43))) (p :: s) = true -> (p =? 43) = false ->
  (last s p =? 46) = false -> (last (take_until 43 s) p =? 46) = false.
Proof.
  induction s as [|c t IH]; intros p NP P43 L; [exact L|].
  cbn [no_pair] in NP. apply andb_true_iff in NP as [NP1 NP2]. apply negb_true_iff in NP1.
  cbn [take_until]. destruct (c =? 43) eqn:E.
  - cbn [last]. rewrite orb_true_r, andb_true_r in NP1. exact NP1.
  - rewrite last_cons. apply IH; [exact NP2 | exact E | rewrite <- (last_cons c t p); exact L].
Qed.

Section Spec.
Variable parse_ip : str -> bool.

Theorem ordinary_address_name mode l d :
  ordinary_local l = true -> ordinary_domain d = true ->
  new_recipient parse_ip mode (l ++ 64 :: d) = Some (mkRecipient (l ++ 64 :: d) l d (doc_name mode l d)).
Proof.
  intros OL OD. destruct (ordinary_domain_valid parse_ip d OD) as [V [B [Dn DL]]].
  unfold ordinary_local in OL. repeat (apply andb_true_iff in OL as [OL ?]).
  rename H into LL, H0 into NP, H1 into LAST, H2 into F. apply Nat.leb_le in LL. apply negb_true_iff in LAST.
  destruct l as [|c0 l']; [discriminate|]. destruct (word_char_facts c0 OL) as [C64 [C46 [C43 [C91 CL46]]]].
  (* the parse *)
  assert (PL : plain (c0 :: l') = true).
  { apply forallb_forall. rewrite forallb_forall in F. intros c I. apply F in I. apply local_char_facts in I. apply andb_true_iff in I as [I _]. exact I. }
  assert (HD : has_dotdot (c0 :: l') = false) by (apply no_pair_dotdot; exact NP).
  assert (ND0 : (46 =? 46) && (nth 0 (c0 :: l') 0 =? 46) = false) by (cbn [nth]; rewrite C46; reflexivity).
  pose proof (nodd_of_no_dotdot 46 (c0 :: l') HD ND0) as ND.
  assert (P : parse_email ((c0 :: l') ++ 64 :: d) = Some (c0 :: l', d)).
  { change ((c0 :: l') ++ 64 :: d) with (c0 :: (l' ++ 64 :: d)).
    rewrite parse_email_noroute; [| exact C64 | exact C46 |].
    2:{ change (c0 :: (l' ++ 64 :: d)) with ((c0 :: l') ++ 64 :: d). rewrite app_length. simpl length in *. unfold max_address_len. lia. }
    change (c0 :: (l' ++ 64 :: d)) with ((c0 :: l') ++ 64 :: d). rewrite scan_plain_at by assumption.
    destruct (max_local_index <? 0 + N.of_nat (length (c0 :: l'))) eqn:E; [unfold max_local_index in E; simpl length in *; lia|].
    rewrite (last_default_nonempty c0 l' 46 0), LAST. reflexivity. }
  (* the mailbox name of the local part *)
  assert (Q : parse_mailbox_name (c0 :: l') = Some (lower (before 43 (c0 :: l')))).
  { unfold parse_mailbox_name.
    assert (FM : forallb mailbox_char_ok (lower (c0 :: l')) = true).
    { apply forallb_forall. intros c I. unfold lower in I. apply in_map_iff in I as [x [<- I]].
      rewrite forallb_forall in F. apply F in I. apply local_char_facts in I. apply andb_true_iff in I as [_ I]. exact I. }
    rewrite FM. change ext_separator with 43. rewrite take_until_lower by reflexivity. reflexivity. }
  set (n := lower (before 43 (c0 :: l'))) in *.
  assert (Nn : n = lower_b c0 :: lower (before 43 l')).
  { unfold n. cbn [before]. rewrite C43. reflexivity. }
  assert (HDn : has_dotdot n = false).
  { unfold n. rewrite has_dotdot_lower. change (before 43 (c0 :: l')) with (take_until 43 (c0 :: l')). apply has_dotdot_take_until. exact HD. }
  assert (LASTn : (last n 0 =? 46) = false).
  { unfold n. rewrite last_lower_eqb by reflexivity. change (before 43 (c0 :: l')) with (take_until 43 (c0 :: l')).
    cbn [take_until]. rewrite C43. rewrite last_cons.
    apply last_take_until; [exact NP | exact C43 | rewrite <- (last_cons c0 l' 0); exact LAST]. }
  assert (CD : canonical_domain d = lower d) by (eapply canonical_label; eassumption).
  assert (PV : parse_email_validated parse_ip ((c0 :: l') ++ 64 :: d) = Some (c0 :: l', d)) by (unfold parse_email_validated; rewrite P, V; reflexivity).
  assert (X : extract_mailbox parse_ip mode ((c0 :: l') ++ 64 :: d) = Some (doc_name mode (c0 :: l') d)).
  { destruct mode.
    - unfold extract_mailbox. rewrite P, Q, Nn, CL46. rewrite <- Nn, HDn. reflexivity.
    - unfold extract_mailbox. rewrite P, Q, Nn, CL46. rewrite <- Nn, HDn.
      destruct d as [|d0 d']; [congruence|]. rewrite V, LASTn, CD. reflexivity.
    - cbn [extract_mailbox]. unfold extract_domain_mailbox. cbn [app]. rewrite C91. cbn [andb].
      change (c0 :: l' ++ 64 :: d) with ((c0 :: l') ++ 64 :: d). rewrite P, Q.
      destruct d as [|d0 d']; [congruence|]. rewrite V, CD. reflexivity. }
  unfold new_recipient. rewrite PV, X. reflexivity.
Qed.

End Spec.

Lemma split_single_at_app a l d : split_single_at a = Some (l, d) -> a = l ++ 64 :: d.
Proof.
  revert l. induction a as [|c t IH]; intros l H; [discriminate|]. cbn [split_single_at] in H.
  destruct (c =? 64) eqn:E.
  - apply N.eqb_eq in E. subst. destruct (mem_b 64 t); [discriminate|]. inversion H; subst. reflexivity.
  - destruct (split_single_at t) as [[l' d']|]; [|discriminate]. inversion H; subst. rewrite (IH l' eq_refl). reflexivity.
Qed.

(** in the form the oracle uses: an address with a documented name is accepted under exactly that name *)
Theorem ordinary_name_is_model parse_ip mode a n :
  ordinary_name mode a = Some n -> option_map r_mailbox (new_recipient parse_ip mode a) = Some n.
Proof.
  unfold ordinary_name. destruct (split_single_at a) as [[l d]|] eqn:S; [|discriminate].
  destruct (ordinary_local l && ordinary_domain d) eqn:O; [|discriminate]. intros H. inversion H; subst n.
  apply andb_true_iff in O as [OL OD]. rewrite (split_single_at_app a l d S).
  rewrite (ordinary_address_name parse_ip mode l d OL OD). reflexivity.
Qed.

(** the examples of doc/config.md, and an ordinary address is not a vacuous notion *)
Example doc_examples :
  (* james+spam@inbucket.org *)
  let a := [106;97;109;101;115;43;115;112;97;109;64;105;110;98;117;99;107;101;116;46;111;114;103] in
  map (fun m => ordinary_name m a) [Local; Full; Domain] =
  [Some [106;97;109;101;115]; Some [106;97;109;101;115;64;105;110;98;117;99;107;101;116;46;111;114;103]; Some [105;110;98;117;99;107;101;116;46;111;114;103]].
Proof. vm_compute. reflexivity. Qed.

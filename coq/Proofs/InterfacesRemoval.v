(** C02 / C14 / C07 — the other direction of [read_interfaces_agree_on_source]: what every read
    interface says about a message that was REMOVED, composed over the same abstract store.

    [InterfacesAgree.v] says that a live message is served, byte for byte, by the store, REST, the web UI
    and POP3.  Here: after REST  DELETE /api/v1/mailbox/<name>/<id>  (or Store.RemoveMessage) of a live
    message e of mailbox mb
      - the handler answers 200 "OK" and the store is the old one without exactly that entry;
      - Store.GetMessage, REST /source, web-UI /source and a second DELETE all answer "not there" (404);
      - the POP3 view of the mailbox is the old view without exactly that message, in the old order;
      - every other entry of every mailbox is still live (so [read_interfaces_agree_on_source] applies to
        it on the new store: the invariant is kept), every other mailbox is untouched.
    And after REST  DELETE /api/v1/mailbox/<name>  (purge): the mailbox is empty in the store, in the
    REST listing and in the POP3 view; every other mailbox is untouched. *)
From Coq Require Import List NArith ZArith Lia Sorted Bool.
From IV Require Import Base.Bytes Base.BytesFacts Model.StoreSpec Proofs.StoreSpecFacts Proofs.StoreSpecRefine.
From IV Require Model.Rest Proofs.RestConv Model.Pop3 Model.Pop3Store Proofs.Pop3Store Proofs.InterfacesAgree.
Import ListNotations.
Local Open Scope nat_scope.

Lemma find_removed mb k l : find (is_ent mb k) (remove_ent mb k l) = None.
Proof.
  unfold remove_ent. induction l as [|x l IH]; [reflexivity|]. cbn [filter].
  destruct (is_ent mb k x) eqn:E; cbn [negb]; [exact IH|]. cbn [find]. rewrite E. exact IH.
Qed.

Lemma in_remove_ent mb k l x : In x (remove_ent mb k l) <-> In x l /\ is_ent mb k x = false.
Proof. unfold remove_ent. rewrite filter_In, negb_true_iff. reflexivity. Qed.

Lemma removed_SInv cfg st mb e : SInv st -> In e (box mb (live st)) ->
  exec_spec cfg st (Remove mb (Kth (e_k e))) =
    ({| live := remove_ent mb (e_k e) (live st); counts := counts st |}, OUnit (Ok tt), [ev_deleted e]) /\
  SInv {| live := remove_ent mb (e_k e) (live st); counts := counts st |}.
Proof.
  intros HI He.
  assert (E : exec_spec cfg st (Remove mb (Kth (e_k e))) =
    ({| live := remove_ent mb (e_k e) (live st); counts := counts st |}, OUnit (Ok tt), [ev_deleted e])).
  { cbn [exec_spec find_h]. rewrite (InterfacesAgree.find_live_entry st mb e HI He). reflexivity. }
  split; [exact E|]. pose proof (exec_spec_SInv cfg st (Remove mb (Kth (e_k e))) HI) as H. rewrite E in H. exact H.
Qed.

Section Removal.
Variable mfa : str -> option str.
Variable cfg : scfg.
Variable srcok : str -> nat -> bool.
Variable content : N -> str.

Theorem removed_message_is_gone_from_every_interface st name mb e num body :
  SInv st -> mfa name = Some mb -> In e (box mb (live st)) ->
  let st' := {| live := remove_ent mb (e_k e) (live st); counts := counts st |} in
  (* the REST delete answers 200 and removes exactly this entry; one [deleted] event in the store *)
  Rest.run_handler mfa cfg srcok st Rest.HDel name (Rest.id_of_k (e_k e)) num body = (st', (Rest.S200, Rest.POk)) /\
  exec_spec cfg st (Remove mb (Kth (e_k e))) = (st', OUnit (Ok tt), [ev_deleted e]) /\
  SInv st' /\
  (* gone: the store, REST /source, web-UI /source, a second delete *)
  exec_spec cfg st' (Get mb (Kth (e_k e))) = (st', OGet NotExist, []) /\
  Rest.run_handler mfa cfg srcok st' Rest.HSrc name (Rest.id_of_k (e_k e)) num body = (st', (Rest.S404, Rest.PNone)) /\
  Rest.run_handler mfa cfg srcok st' Rest.USrc name (Rest.id_of_k (e_k e)) num body = (st', (Rest.S404, Rest.PNone)) /\
  Rest.run_handler mfa cfg srcok st' Rest.HDel name (Rest.id_of_k (e_k e)) num body = (st', (Rest.S404, Rest.PNone)) /\
  (* gone from the listing and from the POP3 view of the mailbox, everything else in the old order *)
  box mb (live st') = filter (fun x => negb (Nat.eqb (e_k x) (e_k e))) (box mb (live st)) /\
  Pop3.mmsgs (Pop3.get_box (Pop3Store.abs content st') mb) =
    map (Pop3Store.smsg_of content) (filter (fun x => negb (Nat.eqb (e_k x) (e_k e))) (box mb (live st))) /\
  ~ In e (live st') /\
  (* nothing else is touched *)
  (forall x, In x (live st) -> x <> e -> In x (live st')) /\
  (forall x, In x (live st') -> In x (live st)) /\
  (forall mb', mb' <> mb -> box mb' (live st') = box mb' (live st)) /\
  (forall mb', mb' <> mb ->
     Pop3.mmsgs (Pop3.get_box (Pop3Store.abs content st') mb') = Pop3.mmsgs (Pop3.get_box (Pop3Store.abs content st) mb')).
Proof.
  intros HI Hn He st'.
  destruct (removed_SInv cfg st mb e HI He) as [Hx HI']. fold st' in Hx, HI'.
  assert (Hgone : find (is_ent mb (e_k e)) (live st') = None) by apply find_removed.
  assert (Hget : exec_spec cfg st' (Get mb (Kth (e_k e))) = (st', OGet NotExist, [])).
  { cbn [exec_spec find_h]. rewrite Hgone. reflexivity. }
  assert (Hbox : box mb (live st') = filter (fun x => negb (Nat.eqb (e_k x) (e_k e))) (box mb (live st)))
    by apply box_remove_same.
  assert (Hent : is_ent mb (e_k e) e = true).
  { apply box_in in He as [_ Hm]. unfold is_ent. rewrite Nat.eqb_refl, andb_true_r. apply ent_in_eq. exact Hm. }
  split.
  { unfold Rest.run_handler. rewrite Hn, RestConv.lit_handle_k, Hx. reflexivity. }
  split; [exact Hx|]. split; [exact HI'|]. split; [exact Hget|].
  split.
  { unfold Rest.run_handler. rewrite Hn. unfold Rest.st_get. rewrite RestConv.handle_of_id_k, Hget. reflexivity. }
  split.
  { unfold Rest.run_handler. rewrite Hn. unfold Rest.st_get. rewrite RestConv.handle_of_id_k, Hget. reflexivity. }
  split.
  { unfold Rest.run_handler. rewrite Hn, RestConv.lit_handle_k. cbn [exec_spec find_h]. rewrite Hgone. reflexivity. }
  split; [exact Hbox|].
  split; [rewrite (Pop3Store.mmsgs_abs content st' mb HI'), Hbox; reflexivity|].
  split.
  { intros Hin. apply in_remove_ent in Hin as [_ Hf]. rewrite Hent in Hf. discriminate. }
  split.
  { intros x Hx0 Hne. apply in_remove_ent. split; [exact Hx0|].
    destruct (is_ent mb (e_k e) x) eqn:Ex; [|reflexivity]. exfalso. apply Hne.
    unfold is_ent in Ex. apply andb_true_iff in Ex as [E1 E2]. apply ent_in_eq in E1. apply Nat.eqb_eq in E2.
    assert (Hxb : In x (box mb (live st))) by (apply box_in; split; assumption).
    pose proof (InterfacesAgree.find_live_entry st mb x HI Hxb) as F1.
    pose proof (InterfacesAgree.find_live_entry st mb e HI He) as F2.
    rewrite E2 in F1. rewrite F1 in F2. congruence. }
  split; [intros x Hin; apply in_remove_ent in Hin as [Hin _]; exact Hin|].
  split; [intros mb' Hne; apply box_remove_other; exact Hne|].
  intros mb' Hne. rewrite (Pop3Store.mmsgs_abs content st' mb' HI'), (Pop3Store.mmsgs_abs content st mb' HI).
  cbn [live st']. rewrite (box_remove_other mb mb' (e_k e) (live st) Hne). reflexivity.
Qed.

(** Purge: DELETE /api/v1/mailbox/<name>. *)
Theorem purged_mailbox_is_empty_in_every_interface st name mb :
  SInv st -> mfa name = Some mb ->
  let st' := {| live := filter (fun e => negb (ent_in mb e)) (live st); counts := counts st |} in
  Rest.run_handler mfa cfg srcok st Rest.HPurge name [] [] Rest.BTrue = (st', (Rest.S200, Rest.POk)) /\
  exec_spec cfg st (Purge mb) = (st', OUnit (Ok tt), map ev_deleted (box mb (live st))) /\
  SInv st' /\
  exec_spec cfg st' (Lst mb) = (st', OList [], []) /\
  Rest.run_handler mfa cfg srcok st' Rest.HList name [] [] Rest.BTrue = (st', (Rest.S200, Rest.PList mb [])) /\
  Pop3.mmsgs (Pop3.get_box (Pop3Store.abs content st') mb) = [] /\
  (forall e, In e (box mb (live st)) ->
     exec_spec cfg st' (Get mb (Kth (e_k e))) = (st', OGet NotExist, []) /\
     Rest.run_handler mfa cfg srcok st' Rest.HSrc name (Rest.id_of_k (e_k e)) [] Rest.BTrue = (st', (Rest.S404, Rest.PNone))) /\
  (forall mb', mb' <> mb -> box mb' (live st') = box mb' (live st)) /\
  (forall mb', mb' <> mb ->
     Pop3.mmsgs (Pop3.get_box (Pop3Store.abs content st') mb') = Pop3.mmsgs (Pop3.get_box (Pop3Store.abs content st) mb')).
Proof.
  intros HI Hn st'.
  assert (Hx : exec_spec cfg st (Purge mb) = (st', OUnit (Ok tt), map ev_deleted (box mb (live st)))) by reflexivity.
  assert (HI' : SInv st').
  { pose proof (exec_spec_SInv cfg st (Purge mb) HI) as H. rewrite Hx in H. exact H. }
  assert (Hbox : box mb (live st') = []) by apply box_purge_same.
  assert (Hnone : forall k, find (is_ent mb k) (live st') = None).
  { intros k. rewrite find_box, Hbox. reflexivity. }
  split; [unfold Rest.run_handler; rewrite Hn, Hx; reflexivity|].
  split; [exact Hx|]. split; [exact HI'|].
  split; [cbn [exec_spec]; rewrite Hbox; reflexivity|].
  split; [unfold Rest.run_handler; rewrite Hn; cbn [exec_spec]; rewrite Hbox; reflexivity|].
  split; [rewrite (Pop3Store.mmsgs_abs content st' mb HI'), Hbox; reflexivity|].
  split.
  { intros e _.
    assert (Hget : exec_spec cfg st' (Get mb (Kth (e_k e))) = (st', OGet NotExist, [])).
    { cbn [exec_spec find_h]. rewrite Hnone. reflexivity. }
    split; [exact Hget|].
    unfold Rest.run_handler. rewrite Hn. unfold Rest.st_get. rewrite RestConv.handle_of_id_k, Hget. reflexivity. }
  split; [intros mb' Hne; apply box_purge_other; exact Hne|].
  intros mb' Hne. rewrite (Pop3Store.mmsgs_abs content st' mb' HI'), (Pop3Store.mmsgs_abs content st mb' HI).
  cbn [live st']. rewrite (box_purge_other mb mb' (live st) Hne). reflexivity.
Qed.

End Removal.

(** The premises are met by a reachable store: two deliveries to one mailbox, one to another. *)
Definition rm_cfg : scfg := {| c_cap := 0; c_max := 0%N |}.
Definition rm_store : spec_store :=
  final_spec rm_cfg spec_init [Add [97%N] 1%Z 5%N 10%N; Add [97%N] 2%Z 6%N 20%N; Add [98%N] 3%Z 7%N 30%N].

Example removal_premises_hold :
  SInv rm_store /\ length (box [97%N] (live rm_store)) = 2 /\ length (box [98%N] (live rm_store)) = 1 /\
  exists e, nth_error (box [97%N] (live rm_store)) 0 = Some e /\
            length (box [97%N] (remove_ent [97%N] (e_k e) (live rm_store))) = 1 /\
            length (box [98%N] (remove_ent [97%N] (e_k e) (live rm_store))) = 1.
Proof.
  split; [apply final_spec_SInv, SInv_init|]. split; [vm_compute; reflexivity|]. split; [vm_compute; reflexivity|].
  eexists. split; [vm_compute; reflexivity|]. split; vm_compute; reflexivity.
Qed.

(** C11 untouched_intact: in every crash state every message the interrupted operation does not name
    is still listed, with the same index entry and the same content. *)
From IV Require Import Base.Bytes Base.BytesFacts Model.FileDisk
  Proofs.FileDiskMap Proofs.FileDiskInv Proofs.FileDiskSteps Proofs.FileDiskOps Proofs.FileDiskCrash.
From Coq Require Import List NArith Bool Lia.
Import ListNotations.

Lemma NoDup_map_inj {A B} (f : A -> B) l a b : NoDup (map f l) -> In a l -> In b l -> f a = f b -> a = b.
Proof.
  induction l as [|x l IH]; simpl; intros H Ha Hb E; [tauto|].
  inversion H as [|? ? Hx Hr]; subst. destruct Ha as [->|Ha], Hb as [->|Hb]; auto.
  - exfalso. apply Hx. rewrite E. apply in_map; auto.
  - exfalso. apply Hx. rewrite <- E. apply in_map; auto.
Qed.

Section Untouched.
  Variable enc : index -> str.
  Variable dec : str -> option index.
  Hypothesis dec_enc : forall i, dec (enc i) = Some i.
  Variable hash : str -> str.
  Variable cap : nat.

  Notation view := (view dec).
  Notation steps := (steps enc dec hash cap).
  Notation reach := (reach enc dec hash cap).
  Notation mailbox_of := (mailbox_of hash).
  Notation ids := (map m_id).

  (** ids of the messages the operation does not name: a delivery names the messages its cap eviction
      removes, seen / remove name their target, purge names everything *)
  Definition unnamed (o : op) (ms : list meta) : list str :=
    match o with
    | FileDisk.Add _ _ _ _ => ids (skipn (evict_count cap (length ms)) ms)
    | Seen _ id | Remove _ id => filter (fun x => negb (str_eqb x id)) (ids ms)
    | Purge _ => []
    end.

  Definition unnamed_ids (o : op) (d : disk) : list str :=
    match read_index dec d (mailbox_of o) (op_mailbox o) with
    | Some (_, ms) => unnamed o ms
    | None => []
    end.

  Lemma in_mkview d h nm ms e : In e (mkview d h nm ms) <-> exists m, In m ms /\ e = (nm, m, content d h (m_id m)).
  Proof. unfold mkview. rewrite in_map_iff. split; intros [m [A B]]; exists m; auto. Qed.

  Theorem untouched_intact d o d' v :
    reach d -> crash_reach (steps o d) d d' ->
    (forall h, h <> mailbox_of o -> view d' h = view d h) /\
    (view d (mailbox_of o) = Some v ->
     exists v', view d' (mailbox_of o) = Some v' /\
       forall e, In e v -> In (m_id (snd (fst e))) (unnamed_ids o d) -> In e v').
  Proof.
    intros Hr Hc. pose proof (reach_Inv enc dec dec_enc hash cap d Hr) as HI.
    destruct (read_index_ok dec d (mailbox_of o) (op_mailbox o) HI) as [nm [ms Hri]].
    destruct (crash_views enc dec dec_enc hash cap d o nm ms d' HI Hri Hc) as [_ [Hoth Hv]].
    split; auto. intros Hview.
    assert (HL : Loaded dec d (mailbox_of o) nm ms) by (eapply read_index_Loaded; eauto; apply HI).
    destruct (Loaded_facts dec d _ nm ms (proj2 HI _) HL) as [Hnd _].
    rewrite (view_Loaded dec d _ nm ms HL) in Hview. inversion Hview; subst v. clear Hview.
    unfold unnamed_ids. rewrite Hri.
    assert (Key : forall l e, incl l ms -> In e (mkview d (mailbox_of o) nm ms) ->
              In (m_id (snd (fst e))) (ids l) -> In e (mkview d (mailbox_of o) nm l)).
    { intros l e Hincl He Hid. apply in_mkview in He. destruct He as [m [Hm ->]]. simpl in Hid.
      apply in_map_iff in Hid. destruct Hid as [m' [E Hm']].
      assert (m' = m) by (eapply (NoDup_map_inj m_id ms); eauto). subst. apply in_mkview. eauto. }
    destruct Hv as [[j [Hj Hv]]|Hv].
    - rewrite (view_Loaded dec d _ nm ms HL) in Hv. simpl in Hv. exists (skipn j (mkview d (mailbox_of o) nm ms)).
      split; auto. intros e He Hid. unfold mkview. rewrite <- map_skipn. fold (mkview d (mailbox_of o) nm (skipn j ms)).
      destruct o as [mb info body cands | mb id | mb id | mb]; unfold FileDiskOps.nev in Hj; simpl unnamed in Hid.
      + apply Key; auto.
        * intros x Hx. eapply In_skipn; eauto.
        * eapply incl_map; [|exact Hid]. apply skipn_S_incl. exact Hj.
      + assert (j = 0%nat) by lia. subst. exact He.
      + assert (j = 0%nat) by lia. subst. exact He.
      + destruct Hid.
    - exists (post_view cap d o (mailbox_of o) nm ms). split; auto. intros e He Hid.
      unfold post_view. destruct o as [mb info body cands | mb id | mb id | mb]; simpl unnamed in Hid.
      + assert (In e (mkview d (mailbox_of (FileDisk.Add mb info body cands)) nm (skipn (evict_count cap (length ms)) ms))).
        { apply Key; auto. intros x Hx. eapply In_skipn; eauto. }
        destruct (pick_id cands (skipn (evict_count cap (length ms)) ms)); auto. apply in_or_app; auto.
      + apply filter_In in Hid. destruct Hid as [_ Hne].
        apply in_mkview in He. destruct He as [m [Hm ->]]. simpl in Hne.
        assert (m_id m <> id) by (intros E; rewrite E, str_eqb_refl in Hne; discriminate).
        apply in_mkview. exists m. split; auto. unfold FileDiskOps.post_ms.
        destruct (find_id id ms) as [m0|]; auto. destruct (m_seen m0); auto. apply mark_seen_keeps; auto.
      + apply filter_In in Hid. destruct Hid as [_ Hne].
        apply in_mkview in He. destruct He as [m [Hm ->]]. simpl in Hne.
        assert (m_id m <> id) by (intros E; rewrite E, str_eqb_refl in Hne; discriminate).
        apply in_mkview. exists m. split; auto. unfold FileDiskOps.post_ms.
        destruct (has_id id ms); auto. apply remove_first_keeps; auto.
      + destruct Hid.
  Qed.
End Untouched.

(** C09 — memory store with the size limit: the quiescence statement (audit aud-store item 4), in full.
    When every operation has finished and the enforcer is idle — every cap, every limit >= 0, every schedule,
    deliveries carrying pairwise distinct tags — the tags in the enforcer's book are exactly the tags in the
    mailboxes, the book has no duplicates, curSize is exactly the book's total, and that is within the limit.
    Assembles the ownership invariant for tags (ConcMemOwn, ConcMemOwnEnf, ConcMemOwn2, ConcMemOwn2Enf), the
    registry read off the commit log (ConcMemReg), distinct ids (ConcMemIds) and curSize <= max (ConcMemQuiesce). *)
From IV Require Import Model.Conc Model.ConcMem Proofs.ConcBase Proofs.ConcMemInv Proofs.ConcMemCrash Proofs.ConcMemLin Proofs.ConcMemLinEnf Proofs.ConcMemIds Proofs.ConcMemLogOps Proofs.ConcStmts Proofs.ConcMemTerm Proofs.ConcMemTags Proofs.ConcMemOwn Proofs.ConcMemOwnEnf Proofs.ConcMemOwn2 Proofs.ConcMemOwn2Enf Proofs.ConcMemReg Proofs.ConcMemQuiesce.
From Coq Require Import Lia ZifyN ZifyNat ZifyBool.
Local Open Scope nat_scope.

Record allI (s : msys) : Prop := {
  a_own : forall g, og g s;
  a_own2 : forall g, og2 g s;
  a_reg : regI s;
  a_lg : forall g, LGc g s;
  a_ids : invI s
}.

Lemma init_allI cap max ops : NoDup (add_tags_of ops) -> allI (init_sys cap max [] enf0 ops).
Proof.
  intros Hnd. constructor.
  - apply init_own; exact Hnd.
  - intros g. destruct (init_sums g ops) as (I1 & I2 & I3).
    constructor; unfold UB, PR, NT, NTt, LV, LVb, IN, POP, BK, ER, init_sys;
      cbn [s_thr s_enf s_boxes enf0 e_pc e_all e_els e_rem cnt tag_mem existsb map];
      change (sumf (fun kb : mbname * mbx => cnt g (tags (b_msgs (x_box (snd kb))))) []) with 0;
      rewrite ?I1, ?I2, ?I3; intros; try discriminate; try lia.
  - constructor; [constructor | intros mb x m [] | intros k [[]|(w & [H|H])]; discriminate].
  - intros g. destruct (init_sums g ops) as (I1 & _). pose proof (NoDup_cnt _ Hnd g).
    unfold LGc, UB, LG, init_sys. cbn [s_log s_thr]. rewrite I1. cbn. lia.
  - apply init_invI.
Qed.

Lemma allI_step ops max s w c s' : s_max s = Some max -> invR ops s -> allI s -> step s w c = SOk s' -> allI s'.
Proof.
  intros Hmax HR [Ho Ho2 Hr Hl Hi] Hs.
  destruct (reg_facts s Hr Hi Hl) as [R1 R2].
  constructor.
  - exact (own_step _ _ _ _ Ho Hs).
  - intros g. destruct w; cbn [step] in Hs; [eapply og2_thr | eapply og2_enf]; eauto.
  - destruct w; cbn [step] in Hs; [eapply regI_thr | eapply regI_enf]; eauto.
  - intros g. destruct w; cbn [step] in Hs; [eapply LGc_thr | eapply LGc_enf]; eauto.
  - eapply invI_step; eauto.
Qed.

Lemma reach_allI cap max ops s : NoDup (add_tags_of ops) ->
  reach (init_sys cap (Some max) [] enf0 ops) s -> allI s /\ s_max s = Some max.
Proof.
  intros Hnd R. induction R as [|s1 s2 w c R IH Hs].
  - split; [apply init_allI; exact Hnd | reflexivity].
  - destruct IH as [IH Hm]. split.
    + eapply allI_step; eauto. exact (proj1 (reach_RK _ _ _ _ R)).
    + rewrite (max_step _ _ _ _ Hs). exact Hm.
Qed.

(* ------------------------------------------------------------------ at quiescence *)

Lemma done_sums g thr : forallb thr_done thr = true -> sumf (pr g) thr = 0 /\ sumf (nt g) thr = 0.
Proof.
  unfold sumf, list_sum. induction thr as [|p l IH]; cbn [forallb map fold_right]; [auto|].
  intros H. apply andb_true_iff in H. destruct H as [Hp Hl]. destruct (IH Hl) as [I1 I2].
  destruct p; try discriminate. cbn [pr nt]. lia.
Qed.

Lemma In_cnt g l : In g l <-> 1 <= cnt g l.
Proof.
  induction l as [|x l IH]; cbn [In cnt]; [lia|].
  destruct (N.eqb_spec g x) as [->|Hne]; cbn [b2n].
  - split; [lia | auto].
  - rewrite <- IH. split; [intros [H|H]; [congruence | exact H] | auto].
Qed.

Lemma cnt_live g s : cnt g (live_tags s) = LV g s.
Proof.
  unfold live_tags, LV, LVb, sumf, list_sum. induction (s_boxes s) as [|[mb x] l IH]; cbn [flat_map map fold_right snd]; [reflexivity|].
  rewrite cnt_app, IH. reflexivity.
Qed.

Theorem mem_quiescent_accounting_holds : mem_quiescent_accounting_stmt.
Proof.
  intros cap max ops sched s Hmax Hnd Hr Hd.
  destruct (mem_quiescent_book_exact cap max ops sched s Hmax Hnd Hr Hd) as (C2 & C3 & C4).
  split; [|auto].
  pose proof (run_from_reach (init_sys cap (Some max) [] enf0 ops) sched 0 _ (reach_refl _)) as R.
  unfold run in Hr. rewrite Hr in R.
  destruct (reach_allI _ _ _ _ Hnd R) as [[Ho Ho2 _ _ _] _].
  unfold all_done in Hd. apply andb_true_iff in Hd. destruct Hd as [Hthr Hidle].
  intros g. destruct (Ho g) as [H1 H2 _ _ _]. destruct (Ho2 g) as [_ P7 P8 _ _].
  destruct (done_sums g _ Hthr) as [Dp Dn]. destruct (idle_enf g _ Hidle) as (Di & Dq & De).
  rewrite !In_cnt, cnt_live. change (cnt g (book_tags s)) with (BK g (s_enf s)).
  unfold PR, NT, NTt in *. rewrite Dp, Dn, Di, Dq, De in *. split; intros H.
  - assert (Hb : BK g (s_enf s) = 1) by lia. specialize (P7 Hb). lia.
  - specialize (P8 H). lia.
Qed.

Theorem mem_quiescent_accounting : forall cap max ops sched s,
  (0 <= max)%Z -> NoDup (add_tags_of ops) ->
  run (init_sys cap (Some max) [] enf0 ops) sched = Fin s -> all_done s = true ->
  (forall g, In g (book_tags s) <-> In g (live_tags s)) /\ NoDup (book_tags s) /\
  e_cur (s_enf s) = book_total (e_all (s_enf s)) /\ (e_cur (s_enf s) <= max)%Z.
Proof. exact mem_quiescent_accounting_holds. Qed.

(** C01 with a mailbox cap, tied to the abstract store of C07/C08 (audit item: [capped_store_*] were about
    [Smtp.store_after_cap], a list function linked to nothing).  The deliveries of a dialogue, performed as AddMessage
    calls on [StoreSpec] with [c_cap = cap] (no byte limit), leave in every mailbox exactly what the session model's
    capped store holds there: the [cap] most recent of the messages the dialogue entitles the mailbox to.  With
    [MemStoreRefine] / [FileStoreRefine] (every configuration) this carries to both back-end models. *)
From IV Require Import Base.Bytes Base.BytesFacts Model.Policy Model.Smtp Model.StoreSpec Model.MemStore Model.FileStore.
From IV Require Import Proofs.StoreSpecFacts Proofs.SmtpInv Proofs.SmtpThms Proofs.StoreCap Proofs.MemStoreRefine Proofs.FileStoreRefine Proofs.DeliverStore.
From Coq Require Import Lia.

(** the cap on any list *)
Definition capl {A} (cap : nat) (l : list A) : list A :=
  match cap with O => l | _ => skipn (length l - cap) l end.

Lemma capl_map {A B} (f : A -> B) cap l : map f (capl cap l) = capl cap (map f l).
Proof.
  destruct cap as [|c]; [reflexivity|]. cbn [capl]. rewrite map_length.
  generalize (length l - S c)%nat as k. intros k. revert l.
  induction k as [|k IH]; intros l; [reflexivity|]. destruct l as [|x l]; [reflexivity|]. cbn [skipn map]. apply IH.
Qed.

Lemma cap_box_capl cap ms : cap_box cap ms = capl cap ms.
Proof. reflexivity. Qed.

Section LinkCap.
Variable tag_of : delivery -> N.
Variable date : Z.
Variable cap : nat.

Definition cfgc : scfg := {| c_cap := cap; c_max := 0 |}.

Lemma box_one mb e : box mb [e] = if str_eqb mb (e_mb e) then [e] else [].
Proof. reflexivity. Qed.

Lemma spec_add_box st mbx m mb :
  box mb (live (fst (fst (spec_add cfgc st mbx m)))) =
  if str_eqb mb mbx
  then capl cap (box mb (live st) ++ [{| e_mb := mbx; e_k := count_of mbx (counts st); e_msg := m |}])
  else box mb (live st).
Proof.
  unfold spec_add. cbn [c_cap c_max cfgc N.eqb].
  remember {| e_mb := mbx; e_k := count_of mbx (counts st); e_msg := m |} as e eqn:He.
  assert (Hmb : e_mb e = mbx) by (subst e; reflexivity).
  destruct (Nat.eqb cap 0) eqn:Ec.
  - apply Nat.eqb_eq in Ec. cbn [fst live]. rewrite box_app, box_one, Hmb.
    destruct (str_eqb mb mbx); [rewrite Ec; reflexivity | apply app_nil_r].
  - apply Nat.eqb_neq in Ec.
    pose proof (drop_oldest_spec mbx (length (box mbx (live st ++ [e])) - cap) (live st ++ [e])) as H.
    destruct (drop_oldest mbx (length (box mbx (live st ++ [e])) - cap) (live st ++ [e])) as [d r].
    destruct H as [_ [H2 [H3 _]]]. cbn [fst live].
    destruct (str_eqb mb mbx) eqn:E.
    + apply str_eqb_eq in E. subst mb. rewrite H2. rewrite box_app, box_one, Hmb.
      rewrite str_eqb_refl. destruct cap as [|c]; [congruence|]. reflexivity.
    + apply str_eqb_neq in E. rewrite (H3 mb E). rewrite box_app, box_one, Hmb.
      assert (Hf : str_eqb mb mbx = false) by (apply str_eqb_neq; exact E). rewrite Hf. apply app_nil_r.
Qed.

Definition add_opc (d : delivery) : op := add_op tag_of date d.

(** mailbox by mailbox, both sides are the same fold: append, then cut to the cap *)
Fixpoint capfold {A} (t : list A) (xs : list A) : list A :=
  match xs with [] => t | x :: xs' => capfold (capl cap (t ++ [x])) xs' end.

Lemma spec_capfold : forall ds st mb,
  tags (box mb (live (final_spec cfgc st (map add_opc ds)))) =
  capfold (tags (box mb (live st))) (map tag_of (filter (fun d => str_eqb mb (d_mailbox d)) ds)).
Proof.
  induction ds as [|d ds IH]; intros st mb; cbn [map final_spec filter capfold]; [reflexivity|].
  unfold add_opc at 1, add_op at 1. cbn [exec_spec].
  pose proof (spec_add_box st (d_mailbox d)
    {| m_date := date; m_tag := tag_of d; m_size := N.of_nat (length (d_body d)); m_seen := false |} mb) as Hb.
  destruct (spec_add cfgc st (d_mailbox d) _) as [[st' k] evs]. cbn [fst] in Hb.
  rewrite IH, Hb. destruct (str_eqb mb (d_mailbox d)); [|reflexivity].
  cbn [map capfold]. f_equal. unfold tags. rewrite capl_map, map_app. reflexivity.
Qed.

Lemma store_get_add_cap σ d n :
  store_get (store_add_cap cap σ d) n =
  if str_eqb n (d_mailbox d) then cap_box cap (store_get σ n ++ [d]) else store_get σ n.
Proof.
  induction σ as [|[m ms] σ IH]; cbn [store_add_cap store_get].
  - destruct (str_eqb (d_mailbox d) n) eqn:E.
    + apply str_eqb_eq in E. subst n. rewrite str_eqb_refl. reflexivity.
    + assert (Hf : str_eqb n (d_mailbox d) = false).
      { apply str_eqb_neq. intro X. subst n. rewrite str_eqb_refl in E. discriminate. }
      rewrite Hf. reflexivity.
  - destruct (str_eqb m (d_mailbox d)) eqn:Em; cbn [store_get].
    + apply str_eqb_eq in Em. subst m. destruct (str_eqb (d_mailbox d) n) eqn:E.
      * apply str_eqb_eq in E. subst n. rewrite str_eqb_refl. reflexivity.
      * assert (Hf : str_eqb n (d_mailbox d) = false).
        { apply str_eqb_neq. intro X. subst n. rewrite str_eqb_refl in E. discriminate. }
        rewrite Hf. reflexivity.
    + destruct (str_eqb m n) eqn:E; [|exact IH].
      apply str_eqb_eq in E. subst n. rewrite Em. reflexivity.
Qed.

Lemma model_capfold : forall ds σ mb,
  map tag_of (store_get (store_after_cap cap σ ds) mb) =
  capfold (map tag_of (store_get σ mb)) (map tag_of (filter (fun d => str_eqb mb (d_mailbox d)) ds)).
Proof.
  induction ds as [|d ds IH]; intros σ mb; cbn [store_after_cap fold_left filter map capfold]; [reflexivity|].
  change (fold_left (store_add_cap cap) ds (store_add_cap cap σ d)) with (store_after_cap cap (store_add_cap cap σ d) ds).
  rewrite IH, store_get_add_cap. destruct (str_eqb mb (d_mailbox d)); [|reflexivity].
  cbn [map capfold]. f_equal. rewrite cap_box_capl, capl_map, map_app. reflexivity.
Qed.

(** The abstract store with a cap holds, mailbox by mailbox, what the session model's capped store holds. *)
Theorem deliveries_reach_the_capped_store : forall ds mb,
  tags (box mb (live (final_spec cfgc spec_init (map add_opc ds)))) =
  map tag_of (store_get (store_after_cap cap [] ds) mb).
Proof. intros ds mb. rewrite spec_capfold, model_capfold. reflexivity. Qed.

(** With [delivery_exact] and [capped_store_is_most_recent]: after any dialogue, a capped store holds in every mailbox
    the [cap] most recent of the messages the dialogue entitles it to. *)
Theorem capped_store_holds_most_recent_entitled : forall c items mb,
  forallb sane_item items = true ->
  let tr := fst (run c init items) in
  tags (box mb (live (final_spec cfgc spec_init (map add_opc (deliveries_of tr))))) =
  map tag_of (cap_box cap (filter (fun d => str_eqb mb (d_mailbox d)) (entitled c None [] [] (dialogue tr)))).
Proof.
  intros c items mb H tr. rewrite deliveries_reach_the_capped_store.
  rewrite capped_store_from_empty, store_get_trim, no_other_mailbox_changes.
  unfold tr. rewrite (delivery_exact c items H). reflexivity.
Qed.

(** Both back-end models, with the cap, return operation by operation what the abstract store returns. *)
Theorem both_backends_agree_on_capped_deliveries : forall ds mb ticks,
  file_fresh cfgc (file_init ticks, []) (map add_opc ds ++ [Lst mb]) ->
  run_mem cfgc (map add_opc ds ++ [Lst mb]) = run_spec cfgc spec_init (map add_opc ds ++ [Lst mb]) /\
  run_file cfgc ticks (map add_opc ds ++ [Lst mb]) = run_spec cfgc spec_init (map add_opc ds ++ [Lst mb]).
Proof.
  intros ds mb ticks Hf. split; [apply mem_refines_spec|apply file_refines_spec; [reflexivity|exact Hf]].
Qed.
End LinkCap.

(** A concrete capped history: cap 2, three deliveries to one mailbox and one to another. *)
Example capped_instance :
  let d mb b := {| d_mailbox := mb; d_from := []; d_to := []; d_subject := []; d_size := 0; d_retpath := []; d_helo := []; d_body := b |} in
  let ds := [d [97] [1]; d [97] [2]; d [98] [3]; d [97] [4]] in
  map (fun x => d_body x) (store_get (store_after_cap 2 [] ds) [97]) = [[2]; [4]].
Proof. reflexivity. Qed.

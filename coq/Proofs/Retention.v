(** Proofs about the retention scanner model (C12). *)
From Coq Require Import List Arith Lia Sorted ZArith.
From IV Require Import Base.Bytes Base.BytesFacts Model.StoreSpec Model.Retention Proofs.StoreSpecFacts.
Import ListNotations.
Local Open Scope nat_scope.

(* ------------------------------------------------------------------ list helpers *)

Lemma filter_filter {A} (f g : A -> bool) l : filter f (filter g l) = filter (fun x => g x && f x) l.
Proof.
  induction l as [|x l IH]; [reflexivity|]. cbn [filter]. destruct (g x); cbn [filter andb]; [|exact IH].
  destruct (f x); [f_equal|]; exact IH.
Qed.

Lemma filter_ext_in' {A} (f g : A -> bool) l : (forall x, In x l -> f x = g x) -> filter f l = filter g l.
Proof.
  induction l as [|x l IH]; intros H; [reflexivity|]. cbn [filter]. rewrite (H x (or_introl eq_refl)).
  rewrite IH by (intros y Hy; apply H; right; exact Hy). reflexivity.
Qed.

(** Within a strongly sorted (by handle number) list, the handle number determines the entry. *)
Lemma SS_klt_inj l a b : StronglySorted klt l -> In a l -> In b l -> e_k a = e_k b -> a = b.
Proof.
  induction 1 as [|x l SS IH F]; intros Ha Hb E; [destruct Ha|].
  rewrite Forall_forall in F. destruct Ha as [<-|Ha], Hb as [<-|Hb]; auto.
  - specialize (F b Hb). unfold klt in F. lia.
  - specialize (F a Ha). unfold klt in F. lia.
Qed.

Lemma is_ent_iff mb k e : is_ent mb k e = true <-> e_mb e = mb /\ e_k e = k.
Proof.
  unfold is_ent. rewrite andb_true_iff, ent_in_eq, Nat.eqb_eq. tauto.
Qed.

Section Ret.
Variable cfg : scfg.
Variable cutoff : Z.

Definition young (e : entry) : bool := negb (expired cutoff (e_msg e)).

(* ------------------------------------------------------------------ one RemoveMessage *)

Lemma do_remove_live st mb k :
  live (do_remove cfg st mb k) = remove_ent mb k (live st) /\ counts (do_remove cfg st mb k) = counts st.
Proof.
  unfold do_remove. cbn [exec_spec find_h]. destruct (find (is_ent mb k) (live st)) as [e|] eqn:F; cbn [fst live counts].
  - apply find_some in F as [_ F]. apply is_ent_iff in F as [_ ->]. split; reflexivity.
  - split; [|reflexivity]. unfold remove_ent. symmetry. apply filter_all_true.
    intros x Hx. rewrite (find_none _ _ F x Hx). reflexivity.
Qed.

Lemma do_remove_SInv st mb k : SInv st -> SInv (do_remove cfg st mb k).
Proof. intros H. unfold do_remove. apply exec_spec_SInv. exact H. Qed.

(* ------------------------------------------------------------------ the callback *)

(** Entries of [mb] whose handle number is among [ks] are taken out, nothing else. *)
Definition kill (mb : str) (ks : list nat) (l : list entry) : list entry :=
  filter (fun e => negb (ent_in mb e && existsb (Nat.eqb (e_k e)) ks)) l.

Definition exp_ks (snap : list view) : list nat := map fst (filter (fun v => expired cutoff (snd v)) snap).

Lemma scan_snapshot_cons mb v snap st :
  scan_snapshot cfg cutoff mb (v :: snap) st =
  scan_snapshot cfg cutoff mb snap (if expired cutoff (snd v) then do_remove cfg st mb (fst v) else st).
Proof. reflexivity. Qed.

Lemma scan_cons m r st :
  scan cfg cutoff (m :: r) st = scan cfg cutoff r (scan_snapshot cfg cutoff m (snapshot st m) st).
Proof. reflexivity. Qed.

Lemma scan_snapshot_live mb snap : forall st,
  live (scan_snapshot cfg cutoff mb snap st) = kill mb (exp_ks snap) (live st) /\
  counts (scan_snapshot cfg cutoff mb snap st) = counts st.
Proof.
  induction snap as [|v snap IH]; intros st.
  - cbn [scan_snapshot fold_left exp_ks filter map]. split; [|reflexivity]. unfold kill. symmetry. apply filter_all_true.
    intros x _. cbn [existsb]. rewrite andb_false_r. reflexivity.
  - rewrite scan_snapshot_cons.
    unfold exp_ks. cbn [filter]. destruct (expired cutoff (snd v)) eqn:E.
    + destruct (IH (do_remove cfg st mb (fst v))) as [-> ->]. destruct (do_remove_live st mb (fst v)) as [-> ->].
      split; [|reflexivity]. fold (exp_ks snap). unfold kill, remove_ent. rewrite filter_filter. apply filter_ext.
      intros e. cbn [map existsb]. unfold is_ent.
      destruct (ent_in mb e); cbn [andb negb]; [|reflexivity].
      rewrite (Nat.eqb_sym (e_k e) (fst v)). destruct (Nat.eqb (fst v) (e_k e)); reflexivity.
    + apply IH.
Qed.

Lemma scan_snapshot_SInv mb snap : forall st, SInv st -> SInv (scan_snapshot cfg cutoff mb snap st).
Proof.
  induction snap as [|v snap IH]; intros st H; [exact H|].
  rewrite scan_snapshot_cons.
  destruct (expired cutoff (snd v)); apply IH; [apply do_remove_SInv|]; exact H.
Qed.

Lemma box_kill_other mb mb' ks l : mb' <> mb -> box mb' (kill mb ks l) = box mb' l.
Proof.
  intros N. unfold kill. rewrite box_filter. apply filter_all_true.
  intros x Hx. apply box_in in Hx as [_ Hx].
  assert (ent_in mb x = false) as -> by (apply ent_in_neq; congruence). reflexivity.
Qed.

(** On the snapshot of a well-formed store the callback removes exactly the expired entries. *)
Lemma box_kill_snapshot st mb :
  SInv st -> box mb (kill mb (exp_ks (snapshot st mb)) (live st)) = filter young (box mb (live st)).
Proof.
  intros [SS _]. unfold kill. rewrite box_filter. apply filter_ext_in'. intros e He.
  pose proof He as He'. apply box_in in He' as [_ Hm].
  assert (ent_in mb e = true) as -> by (apply ent_in_eq; exact Hm). cbn [andb]. unfold young. f_equal.
  unfold exp_ks, snapshot.
  destruct (expired cutoff (e_msg e)) eqn:E.
  - apply existsb_exists. exists (e_k e). split; [|apply Nat.eqb_refl].
    apply in_map_iff. exists (view_of e). split; [reflexivity|]. apply filter_In. split; [|exact E].
    apply in_map. exact He.
  - destruct (existsb _ _) eqn:X; [|reflexivity]. apply existsb_exists in X as [k [Hk Ek]]. apply Nat.eqb_eq in Ek.
    apply in_map_iff in Hk as [v [Hv Hin]]. apply filter_In in Hin as [Hin Ev].
    apply in_map_iff in Hin as [e' [<- He2]]. cbn [view_of fst snd] in *.
    assert (e' = e) by (eapply SS_klt_inj; [apply (SS mb)|exact He2|exact He|congruence]).
    subst. congruence.
Qed.

Lemma filter_young_idem l : filter young (filter young l) = filter young l.
Proof. rewrite filter_filter. apply filter_ext. intros e. destruct (young e); reflexivity. Qed.

(* ------------------------------------------------------------------ scan_exact *)

Lemma scan_SInv order : forall st, SInv st -> SInv (scan cfg cutoff order st).
Proof.
  induction order as [|m r IH]; intros st H; [exact H|]. rewrite scan_cons.
  apply IH. apply scan_snapshot_SInv. exact H.
Qed.

Lemma scan_exact order : forall st mb, SInv st ->
  box mb (live (scan cfg cutoff order st)) =
  if mem_str mb order then filter young (box mb (live st)) else box mb (live st).
Proof.
  induction order as [|m r IH]; intros st mb H; [reflexivity|].
  rewrite scan_cons.
  set (st1 := scan_snapshot cfg cutoff m (snapshot st m) st).
  assert (H1 : SInv st1) by (apply scan_snapshot_SInv; exact H).
  rewrite (IH st1 mb H1). unfold st1. destruct (scan_snapshot_live m (snapshot st m) st) as [-> _].
  unfold mem_str. cbn [existsb]. fold (mem_str mb r).
  str_case mb m.
  - subst m. cbn [orb]. rewrite box_kill_snapshot by exact H. destruct (mem_str mb r); [apply filter_young_idem|reflexivity].
  - cbn [orb]. rewrite box_kill_other by exact H0. reflexivity.
Qed.

(** The store's own enumeration — the mailboxes [VisitMailboxes] hands out, i.e. those that
    hold mail ([spec_visit]) — covers every mailbox that holds mail. *)
Lemma visit_covers st e : SInv st -> In e (live st) -> In (e_mb e) (map fst (spec_visit st)).
Proof.
  intros [_ LT] He. specialize (LT e He).
  assert (Hn : In (e_mb e) (map fst (counts st))).
  { destruct (in_dec (list_eq_dec N.eq_dec) (e_mb e) (map fst (counts st))) as [H|H]; [exact H|].
    rewrite (count_zero_notin _ _ H) in LT. lia. }
  apply in_map_iff in Hn as [p [Hp Hin]].
  unfold spec_visit. apply in_map_iff.
  exists (fst p, map view_of (box (fst p) (live st))). split; [exact Hp|].
  apply filter_In. split.
  - apply in_map_iff. exists p. split; [reflexivity|exact Hin].
  - cbn [snd]. rewrite Hp. destruct (box (e_mb e) (live st)) eqn:B; [|reflexivity].
    assert (In e (box (e_mb e) (live st))) by (apply box_in; auto). rewrite B in H. destruct H.
Qed.

(** scan_exact_all: a scan over the mailboxes the store itself enumerates leaves, in EVERY
    mailbox, exactly the messages not older than the cutoff. *)
Lemma scan_exact_all st mb : SInv st ->
  box mb (live (scan cfg cutoff (map fst (spec_visit st)) st)) = filter young (box mb (live st)).
Proof.
  intros S. rewrite (scan_exact _ st mb S).
  destruct (box mb (live st)) as [|e l] eqn:B; [destruct (mem_str mb _); reflexivity|].
  assert (He : In e (box mb (live st))) by (rewrite B; left; reflexivity).
  apply box_in in He as [He Hm].
  pose proof (visit_covers st e S He) as V. rewrite Hm in V. apply mem_str_In in V. rewrite V. reflexivity.
Qed.

(** Nothing but message removal: the add counters (hence the handles issued later) are untouched. *)
Lemma scan_counts order : forall st, counts (scan cfg cutoff order st) = counts st.
Proof.
  induction order as [|m r IH]; intros st; [reflexivity|]. rewrite scan_cons.
  rewrite IH. apply scan_snapshot_live.
Qed.

(* ------------------------------------------------------------------ interleaving: invariant *)

Definition box_inv (st : spec_store) (mb : str) (rest : list view) : Prop :=
  forall v, In v rest ->
    fst v < count_of mb (counts st) /\
    forall e, In e (live st) -> is_ent mb (fst v) e = true -> m_date (e_msg e) = m_date (snd v).

Definition Inv (y : sys) : Prop :=
  SInv (s_st y) /\
  Forall (fun e => expired cutoff (e_msg e) = true) (s_removed y) /\
  match s_phase y with PBox mb rest => box_inv (s_st y) mb rest | _ => True end.

Lemma expired_date m m' : m_date m = m_date m' -> expired cutoff m = expired cutoff m'.
Proof. unfold expired. intros ->. reflexivity. Qed.

Lemma snapshot_box_inv st mb : SInv st -> box_inv st mb (snapshot st mb).
Proof.
  intros [SS LT] v Hv. unfold snapshot in Hv. apply in_map_iff in Hv as [e0 [<- H0]].
  pose proof H0 as H0'. apply box_in in H0' as [L0 M0]. cbn [view_of fst snd]. split.
  - specialize (LT e0 L0). rewrite M0 in LT. exact LT.
  - intros e He Ee. apply is_ent_iff in Ee as [Em Ek].
    assert (e = e0); [|subst; reflexivity].
    eapply SS_klt_inj; [apply (SS mb)| apply box_in; auto | exact H0 | exact Ek].
Qed.

(** Where the live entries of the store after an operation come from. *)
Lemma exec_spec_origin st o e' :
  In e' (live (fst (fst (exec_spec cfg st o)))) ->
  (exists e, In e (live st) /\ e_mb e = e_mb e' /\ e_k e = e_k e' /\ m_date (e_msg e) = m_date (e_msg e'))
  \/ e_k e' = count_of (e_mb e') (counts st).
Proof.
  assert (Same : In e' (live st) -> exists e, In e (live st) /\ e_mb e = e_mb e' /\ e_k e = e_k e' /\ m_date (e_msg e) = m_date (e_msg e'))
    by (intros; exists e'; auto).
  destruct o as [mb date tag size|mb h|mb|mb h|mb h|mb|]; cbn [exec_spec].
  - set (m := {| m_date := date; m_tag := tag; m_size := size; m_seen := false |}).
    rewrite spec_add_unfold. cbv zeta.
    pose proof (drop_oldest_spec mb (length (box mb (add_l1 st mb m)) - c_cap cfg) (add_l1 st mb m)) as DS.
    unfold add_cap. destruct (Nat.eqb (c_cap cfg) 0).
    + pose proof (add_fit_split cfg (add_l1 st mb m)) as FS. destruct (add_fit cfg (add_l1 st mb m)) as [d2 l3].
      cbn [fst live]. intros H. assert (In e' (add_l1 st mb m)) as K by (rewrite FS; apply in_or_app; right; exact H).
      unfold add_l1 in K. apply in_app_or in K as [K|[<-|[]]]; [left; auto|right; reflexivity].
    + destruct (drop_oldest mb _ (add_l1 st mb m)) as [d1 l2]. destruct DS as [_ [_ [_ Sub]]].
      pose proof (add_fit_split cfg l2) as FS. destruct (add_fit cfg l2) as [d2 l3].
      cbn [fst live]. intros H. assert (In e' l2) as K by (rewrite FS; apply in_or_app; right; exact H).
      apply Sub in K. unfold add_l1 in K. apply in_app_or in K as [K|[<-|[]]]; [left; auto|right; reflexivity].
  - destruct h; cbn [fst]; intros H; left; auto.
  - cbn [fst]. intros H; left; auto.
  - destruct (find_h mb h (live st)) as [e0|]; cbn [fst live]; [|intros H; left; auto].
    unfold set_seen. intros H. apply in_map_iff in H as [e [<- He]]. left. exists e. split; [exact He|].
    destruct (is_ent mb (e_k e0) e); cbn [e_mb e_k e_msg msg_set_seen m_date]; auto.
  - destruct (find_h mb h (live st)) as [e0|]; cbn [fst live]; [|intros H; left; auto].
    unfold remove_ent. intros H. apply filter_In in H as [H _]. left; auto.
  - cbn [fst live]. intros H. apply filter_In in H as [H _]. left; auto.
  - cbn [fst]. intros H; left; auto.
Qed.

Lemma exec_spec_count_mono st o mb :
  count_of mb (counts st) <= count_of mb (counts (fst (fst (exec_spec cfg st o)))).
Proof.
  destruct o as [mb0 date tag size|mb0 h|mb0|mb0 h|mb0 h|mb0|]; cbn [exec_spec].
  - rewrite spec_add_unfold. cbv zeta. destruct (add_cap cfg mb0 _) as [d1 l2]. destruct (add_fit cfg l2) as [d2 l3].
    cbn [fst counts]. destruct (list_eq_dec N.eq_dec mb0 mb) as [->|Hne].
    + rewrite count_bump_same. lia.
    + rewrite count_bump_other by exact Hne. lia.
  - destruct h; cbn [fst]; lia.
  - cbn [fst]; lia.
  - destruct (find_h mb0 h (live st)); cbn [fst counts]; lia.
  - destruct (find_h mb0 h (live st)); cbn [fst counts]; lia.
  - cbn [fst counts]; lia.
  - cbn [fst]; lia.
Qed.

Lemma box_inv_op st o mb rest : box_inv st mb rest -> box_inv (fst (fst (exec_spec cfg st o))) mb rest.
Proof.
  intros B v Hv. destruct (B v Hv) as [Lt Dt]. split.
  - pose proof (exec_spec_count_mono st o mb). lia.
  - intros e' He' Ee'. apply is_ent_iff in Ee' as [Em Ek].
    destruct (exec_spec_origin st o e' He') as [[e [He [M [K D]]]]|New].
    + rewrite <- D. apply Dt; [exact He|]. apply is_ent_iff. split; congruence.
    + rewrite Em, Ek in New. lia.
Qed.

Lemma box_inv_sub st st' mb rest :
  (forall e, In e (live st') -> In e (live st)) -> counts st' = counts st -> box_inv st mb rest -> box_inv st' mb rest.
Proof.
  intros Sub C B v Hv. destruct (B v Hv) as [Lt Dt]. rewrite C. split; [exact Lt|]. intros e He. apply Dt. apply Sub. exact He.
Qed.

Lemma Inv_init order st : SInv st -> Inv (sys_init order st).
Proof. intros H. split; [exact H|]. split; [constructor|exact I]. Qed.

Lemma Inv_step y e : Inv y -> Inv (ev_step cfg cutoff y e).
Proof.
  intros [S [R P]]. destruct e as [tf|o|]; cbn [ev_step].
  - (* the scanner moves *)
    unfold sc_step. destruct (s_phase y) as [|mb rest|b] eqn:Ph.
    + destruct (s_todo y) as [|mb r].
      * unfold set_phase. split; [exact S|split; [exact R|exact I]].
      * split; [exact S|split; [exact R|]]. cbn [s_st s_phase]. apply snapshot_box_inv. exact S.
    + destruct rest as [|v rest].
      * destruct (s_cancel y && negb tf); unfold set_phase; (split; [exact S|split; [exact R|exact I]]).
      * destruct (expired cutoff (snd v)) eqn:E.
        -- destruct (do_remove_live (s_st y) mb (fst v)) as [L C].
           split; [|split]; cbn [s_st s_removed s_phase].
           ++ apply do_remove_SInv. exact S.
           ++ apply Forall_app. split; [exact R|]. apply Forall_forall. intros e He.
              apply filter_In in He as [He Ee]. destruct (P v (or_introl eq_refl)) as [_ Dt].
              rewrite (expired_date _ (snd v) (Dt e He Ee)). exact E.
           ++ apply (box_inv_sub (s_st y)); [rewrite L; unfold remove_ent; intros e He; apply filter_In in He; tauto|exact C|].
              intros w Hw. apply P. right. exact Hw.
        -- unfold set_phase. split; [exact S|split; [exact R|]]. cbn [s_st s_phase].
           intros w Hw. apply P. right. exact Hw.
    + split; [exact S|split; [exact R|]]. rewrite Ph. exact I.
  - (* another client *)
    split; [|split]; cbn [s_st s_removed s_phase].
    + apply exec_spec_SInv. exact S.
    + exact R.
    + destruct (s_phase y) as [|mb rest|b]; try exact I. apply box_inv_op. exact P.
  - split; [exact S|split; [exact R|exact P]].
Qed.

Lemma Inv_run evs : forall y, Inv y -> Inv (run cfg cutoff y evs).
Proof. induction evs as [|e evs IH]; intros y H; [exact H|]. unfold run. cbn [fold_left]. apply IH. apply Inv_step. exact H. Qed.

(** never_deletes_young: whatever other clients do, whenever, every message the scanner's
    RemoveMessage calls take out of the store is older than the cutoff. *)
Lemma never_deletes_young order st evs :
  SInv st -> Forall (fun e => expired cutoff (e_msg e) = true) (s_removed (run cfg cutoff (sys_init order st) evs)).
Proof. intros H. apply (Inv_run evs (sys_init order st) (Inv_init order st H)). Qed.

(** What the log [s_removed] is: a scanner step takes out of the store exactly what it appends
    to the log (RemoveMessage removes the entries with that mailbox and handle, nothing else),
    and any other entry stays. *)
Lemma scanner_step_partition y tf :
  exists delta, s_removed (sc_step cfg cutoff tf y) = s_removed y ++ delta /\
    (forall e, In e delta -> In e (live (s_st y)) /\ ~ In e (live (s_st (sc_step cfg cutoff tf y)))) /\
    (forall e, In e (live (s_st y)) -> In e (live (s_st (sc_step cfg cutoff tf y))) \/ In e delta).
Proof.
  unfold sc_step. destruct (s_phase y) as [|mb [|v rest]|b].
  - destruct (s_todo y); exists []; cbn; rewrite app_nil_r; (split; [reflexivity|split; [intros e []|auto]]).
  - destruct (s_cancel y && negb tf); exists []; cbn; rewrite app_nil_r; (split; [reflexivity|split; [intros e []|auto]]).
  - destruct (expired cutoff (snd v)).
    + exists (filter (is_ent mb (fst v)) (live (s_st y))). cbn [s_removed s_st].
      destruct (do_remove_live (s_st y) mb (fst v)) as [L _]. rewrite L. unfold remove_ent.
      split; [reflexivity|split].
      * intros e He. apply filter_In in He as [He Ee]. split; [exact He|]. intros K. apply filter_In in K as [_ K].
        rewrite Ee in K. discriminate.
      * intros e He. destruct (is_ent mb (fst v) e) eqn:Ee; [right|left]; apply filter_In; rewrite ?Ee; auto.
    + exists []. cbn. rewrite app_nil_r. split; [reflexivity|split; [intros e []|auto]].
  - exists []. rewrite app_nil_r. split; [reflexivity|split; [intros e []|auto]].
Qed.

(* ------------------------------------------------------------------ cancellation *)

Fixpoint steps_in (evs : list ev) : nat :=
  match evs with [] => 0 | EStep _ :: r => S (steps_in r) | _ :: r => steps_in r end.

(** In every scanner step of the schedule the ctx case wins the select at a callback end: true
    of the code when RetentionSleep is long enough for its timer not to have expired yet. *)
Definition ctx_first (evs : list ev) : Prop := forall tf, In (EStep tf) evs -> tf = false.

Lemma done_stays evs : forall y b, s_phase y = PDone b -> s_phase (run cfg cutoff y evs) = PDone b /\ s_removed (run cfg cutoff y evs) = s_removed y.
Proof.
  induction evs as [|e evs IH]; intros y b H; [auto|]. unfold run. cbn [fold_left].
  destruct e as [tf|o|]; cbn [ev_step].
  - unfold sc_step. rewrite H. apply IH. exact H.
  - destruct (IH {| s_st := fst (fst (exec_spec cfg (s_st y) o)); s_todo := s_todo y; s_phase := s_phase y; s_cancel := s_cancel y;
                    s_removed := s_removed y; s_visited := s_visited y; s_attempts := s_attempts y |} b H) as [A B]. auto.
  - destruct (IH {| s_st := s_st y; s_todo := s_todo y; s_phase := s_phase y; s_cancel := true;
                    s_removed := s_removed y; s_visited := s_visited y; s_attempts := s_attempts y |} b H) as [A B]. auto.
Qed.

(** The select at the end of a callback, shutdown requested: the ctx case ends the scan at
    once; the timer case — ready only if the sleep timer has already expired — lets it go on
    with the next mailbox. *)
Lemma callback_end_choice y mb :
  s_cancel y = true -> s_phase y = PBox mb [] ->
  s_phase (sc_step cfg cutoff false y) = PDone true /\ s_phase (sc_step cfg cutoff true y) = PIdle /\
  s_st (sc_step cfg cutoff false y) = s_st y /\ s_st (sc_step cfg cutoff true y) = s_st y.
Proof. intros C P. unfold sc_step. rewrite P, C. cbn. auto. Qed.

(** cancel_bounded: once shutdown is requested, a scanner whose sleep timer has not expired
    when its callback ends ([ctx_first]) stops within (entries left in the current snapshot
    + 1) of its own steps — whatever the other clients do meanwhile. (Each entry left may cost
    one RemoveMessage call: a mailbox with n expired messages delays the stop by n removals.) *)
Lemma cancel_bounded evs : forall y mb rest,
  ctx_first evs ->
  s_cancel y = true -> s_phase y = PBox mb rest -> S (length rest) <= steps_in evs ->
  s_phase (run cfg cutoff y evs) = PDone true.
Proof.
  induction evs as [|e evs IH]; intros y mb rest F C P L; [cbn in L; lia|].
  assert (F' : ctx_first evs) by (intros tf H; apply F; right; exact H).
  unfold run. cbn [fold_left]. fold (run cfg cutoff). destruct e as [tf|o|]; cbn [steps_in] in L; cbn [ev_step].
  - assert (tf = false) by (apply F; left; reflexivity). subst tf.
    unfold sc_step. rewrite P. destruct rest as [|v rest].
    + rewrite C. apply done_stays. reflexivity.
    + cbn [length] in L. destruct (expired cutoff (snd v)); eapply (IH _ mb rest); cbn [s_cancel s_phase set_phase]; auto; lia.
  - eapply (IH _ mb rest); cbn [s_cancel s_phase]; eauto.
  - eapply (IH _ mb rest); cbn [s_cancel s_phase]; eauto.
Qed.

(** Between two mailboxes a cancelled scanner takes at most one more snapshot. *)
Lemma cancel_idle y tf :
  s_phase y = PIdle ->
  (exists mb, s_phase (sc_step cfg cutoff tf y) = PBox mb (snapshot (s_st y) mb)) \/ s_phase (sc_step cfg cutoff tf y) = PDone false.
Proof. intros P. unfold sc_step. rewrite P. destruct (s_todo y) as [|mb r]; [right; reflexivity|left; exists mb; reflexivity]. Qed.

End Ret.

(* ------------------------------------------------------------------ the run loop *)

Lemma zero_period_inert period evs : (period <= 0)%Z -> start period evs = (0, true).
Proof. intros H. unfold start. apply Z.leb_le in H. rewrite H. reflexivity. Qed.

Lemma loop_exits evs : forall n, In LCancel evs -> snd (loop evs n) = true.
Proof.
  induction evs as [|e evs IH]; intros n H; [destruct H|]. destruct e; cbn [loop]; [|reflexivity].
  apply IH. destruct H as [H|H]; [discriminate|exact H].
Qed.

Lemma start_exits period evs : In LCancel evs -> snd (start period evs) = true.
Proof. intros H. unfold start. destruct (period <=? 0)%Z; [reflexivity|apply loop_exits; exact H]. Qed.

(** The guard lives in Start, not in DoScan: called directly with period 0, DoScan removes
    whatever is older than "now". *)
Example do_scan_period_zero_deletes :
  let cfg := {| c_cap := 0; c_max := 0%N |} in
  let st := fst (fst (exec_spec cfg spec_init (Add [97%N] (-5)%Z 0%N 0%N))) in
  live st <> [] /\ live (do_scan cfg 0%Z 0%Z [[97%N]] st) = [].
Proof. split; [discriminate|reflexivity]. Qed.

(** Non-vacuity of [cancel_bounded]'s hypotheses and of a non-trivial scan. *)
Example scan_ex :
  let cfg := {| c_cap := 0; c_max := 0%N |} in
  let st := fst (fst (exec_spec cfg (fst (fst (exec_spec cfg spec_init (Add [97%N] (-50)%Z 0%N 0%N)))) (Add [97%N] (-5)%Z 1%N 0%N))) in
  map e_k (live (do_scan cfg 0%Z 10%Z [[97%N]] st)) = [1].
Proof. reflexivity. Qed.

(* ------------------------------------------------------------------ expired messages are gone *)

Section Gone.
Variable cfg : scfg.
Variable cutoff : Z.
Variable mb0 : str.
Variable k0 : nat.
Variable d0 : Z.           (* the date of the message (mb0, k0) *)
Hypothesis d0_expired : (d0 <? cutoff)%Z = true.

Definition present (st : spec_store) : Prop := exists e, In e (live st) /\ is_ent mb0 k0 e = true.

Definition GInv (y : sys) : Prop :=
  (k0 < count_of mb0 (counts (s_st y))) /\
  (forall e, In e (live (s_st y)) -> is_ent mb0 k0 e = true -> m_date (e_msg e) = d0) /\
  match s_phase y with
  | PIdle => present (s_st y) -> In mb0 (s_todo y)
  | PBox mb rest => present (s_st y) ->
      In mb0 (s_todo y) \/ (mb = mb0 /\ exists v, In v rest /\ fst v = k0 /\ expired cutoff (snd v) = true)
  | PDone false => ~ present (s_st y)
  | PDone true => True
  end.

Lemma present_op st o : present (fst (fst (exec_spec cfg st o))) -> k0 < count_of mb0 (counts st) -> present st.
Proof.
  intros [e' [He' Ee']] Lt. apply is_ent_iff in Ee' as [Em Ek].
  destruct (exec_spec_origin cfg st o e' He') as [[e [He [M [K D]]]]|New].
  - exists e. split; [exact He|]. apply is_ent_iff. split; congruence.
  - rewrite Em, Ek in New. lia.
Qed.

Lemma GInv_step y e : GInv y -> GInv (ev_step cfg cutoff y e).
Proof.
  intros [Lt [Dt P]]. destruct e as [tf|o|]; cbn [ev_step].
  - unfold sc_step. destruct (s_phase y) as [|mb rest|b] eqn:Ph.
    + destruct (s_todo y) as [|mb r] eqn:T.
      * unfold set_phase. split; [exact Lt|split; [exact Dt|]]. cbn [s_phase s_st]. intros Pr. exact (P Pr).
      * split; [exact Lt|split; [exact Dt|]]. cbn [s_phase s_st s_todo]. intros Pr.
        destruct (P Pr) as [E1|Hin]; [subst mb|left; exact Hin]. right. split; [reflexivity|].
        destruct Pr as [e [He Ee]]. exists (view_of e). split.
        -- unfold snapshot. apply in_map. apply box_in. split; [exact He|]. apply is_ent_iff in Ee. tauto.
        -- cbn [view_of fst snd]. split; [apply is_ent_iff in Ee; tauto|]. unfold expired. rewrite (Dt e He Ee). exact d0_expired.
    + destruct rest as [|v rest].
      * destruct (s_cancel y && negb tf); unfold set_phase; (split; [exact Lt|split; [exact Dt|]]); cbn [s_phase s_st s_todo]; [exact I|].
        intros Pr. destruct (P Pr) as [H|[_ [w [[] _]]]]. exact H.
      * destruct (expired cutoff (snd v)) eqn:E.
        -- destruct (do_remove_live cfg (s_st y) mb (fst v)) as [L C].
           split; [|split]; cbn [s_st s_phase s_todo].
           ++ rewrite C. exact Lt.
           ++ rewrite L. unfold remove_ent. intros e He. apply filter_In in He as [He _]. apply Dt. exact He.
           ++ intros [e [He Ee]]. rewrite L in He. unfold remove_ent in He. apply filter_In in He as [He Ne].
              destruct (P (ex_intro _ e (conj He Ee))) as [H|[-> [w [[<-|Hw] [Kw Xw]]]]]; [left; exact H| |].
              ** rewrite Kw in Ne. rewrite Ee in Ne. discriminate.
              ** right. split; [reflexivity|]. exists w. auto.
        -- unfold set_phase. split; [exact Lt|split; [exact Dt|]]. cbn [s_st s_phase s_todo].
           intros Pr. destruct (P Pr) as [H|[-> [w [[<-|Hw] [Kw Xw]]]]]; [left; exact H|congruence|].
           right. split; [reflexivity|]. exists w. auto.
    + split; [exact Lt|split; [exact Dt|]]. rewrite Ph. exact P.
  - pose proof (exec_spec_count_mono cfg (s_st y) o mb0) as Mono.
    split; [|split]; cbn [s_st s_phase s_todo].
    + lia.
    + intros e' He' Ee'. pose proof Ee' as Ee2. apply is_ent_iff in Ee2 as [Em Ek].
      destruct (exec_spec_origin cfg (s_st y) o e' He') as [[e [He [M [K D]]]]|New].
      * rewrite <- D. apply Dt; [exact He|]. apply is_ent_iff. split; congruence.
      * rewrite Em, Ek in New. lia.
    + destruct (s_phase y) as [|mb rest|[|]]; try exact I.
      * intros Pr. apply P. apply (present_op _ o Pr Lt).
      * intros Pr. apply P. apply (present_op _ o Pr Lt).
      * intros Pr. apply P. apply (present_op _ o Pr Lt).
  - split; [exact Lt|split; [exact Dt|exact P]].
Qed.

Lemma GInv_run evs : forall y, GInv y -> GInv (run cfg cutoff y evs).
Proof. induction evs as [|e evs IH]; intros y H; [exact H|]. unfold run. cbn [fold_left]. apply IH. apply GInv_step. exact H. Qed.

End Gone.

(** expired_gone_unless_aborted: whatever other clients do meanwhile, a scan that runs to
    completion leaves no message that was expired when it started, in any mailbox of the walk
    (handles are never reused, so a later delivery cannot be mistaken for it). *)
Lemma expired_gone_unless_aborted cfg cutoff order st evs :
  SInv st ->
  s_phase (run cfg cutoff (sys_init order st) evs) = PDone false ->
  forall e, In e (live st) -> expired cutoff (e_msg e) = true -> In (e_mb e) order ->
  forall e', In e' (live (s_st (run cfg cutoff (sys_init order st) evs))) -> ~ (e_mb e' = e_mb e /\ e_k e' = e_k e).
Proof.
  intros S Ph e He Ex Ho e' He' [Em Ek].
  assert (G0 : GInv cutoff (e_mb e) (e_k e) (m_date (e_msg e)) (sys_init order st)).
  { destruct S as [SS LT]. split; [apply LT; exact He|]. split.
    - intros x Hx Ex'. apply is_ent_iff in Ex' as [Xm Xk].
      assert (x = e); [|subst; reflexivity].
      eapply SS_klt_inj; [apply (SS (e_mb e))|apply box_in; auto|apply box_in; auto|exact Xk].
    - cbn [s_phase sys_init s_todo]. intros _. exact Ho. }
  pose proof (GInv_run cfg cutoff (e_mb e) (e_k e) (m_date (e_msg e)) Ex evs _ G0) as [_ [_ P]].
  rewrite Ph in P. apply P. exists e'. split; [exact He'|]. apply is_ent_iff. auto.
Qed.

(** Non-vacuity: a schedule with a delivery in the middle of the walk runs to completion, the
    expired message is gone, the young one and the new one stay, the log holds the expired one. *)
Example run_ex :
  let cfg := {| c_cap := 0; c_max := 0%N |} in
  let st := fst (fst (exec_spec cfg (fst (fst (exec_spec cfg spec_init (Add [97%N] (-50)%Z 0%N 0%N)))) (Add [97%N] (-5)%Z 1%N 0%N))) in
  let y := run cfg (-10)%Z (sys_init [[97%N]] st) [EStep false; EOp (Add [97%N] 0%Z 2%N 0%N); EStep true; EStep false; EStep true; EStep false] in
  s_phase y = PDone false /\ map e_k (live (s_st y)) = [1; 2] /\ map e_k (s_removed y) = [0].
Proof. repeat split. Qed.

(** C08 — a delivered message that fits is retrievable at once, on the abstract store and (by
    refinement) on the memory-store and file-store models, after any history. *)
From Coq Require Import List Arith Lia Sorted.
From IV Require Import Base.Bytes Base.BytesFacts Model.StoreSpec Model.StoreSpecImpl Model.MemStore Model.FileStore
  Proofs.StoreSpecFacts Proofs.StoreSpecRefine Proofs.StoreSpecLimits Proofs.MemStoreLoops Proofs.MemStoreRefine
  Proofs.FileStoreRefine.
Import ListNotations.
Local Open Scope nat_scope.

Lemma evict_fit_keeps_last max e : (m_size (e_msg e) <= max)%N -> forall l,
  exists r', snd (evict_fit max (l ++ [e])) = r' ++ [e].
Proof.
  intros Hs. induction l as [|x l IH].
  - exists []. cbn [app evict_fit total]. assert (m_size (e_msg e) + 0 <=? max = true)%N as -> by (apply N.leb_le; lia). reflexivity.
  - cbn [app evict_fit]. destruct (total (x :: l ++ [e]) <=? max)%N.
    + exists (x :: l). reflexivity.
    + destruct IH as [r' Hr]. exists r'. destruct (evict_fit max (l ++ [e])). exact Hr.
Qed.

Lemma find_app_skip {A} (f : A -> bool) a b : (forall x, In x a -> f x = false) -> find f (a ++ b) = find f b.
Proof.
  induction a as [|x a IH]; intros H; [reflexivity|]. simpl. rewrite (H x (or_introl eq_refl)).
  apply IH. intros y Hy. apply H. right; exact Hy.
Qed.

(** On the abstract store. *)
Theorem fits_then_retrievable_spec cfg st mb date tag size :
  SInv st -> (c_max cfg = 0 \/ size <= c_max cfg)%N ->
  let m := {| m_date := date; m_tag := tag; m_size := size; m_seen := false |} in
  let k := count_of mb (counts st) in
  snd (fst (exec_spec cfg st (Add mb date tag size))) = OAdd k (Ok (k, m)).
Proof.
  intros HI Hfit m k. cbn [exec_spec]. fold m. rewrite spec_add_unfold. cbv zeta.
  rewrite (add_cap_eq cfg st mb m). fold k.
  set (nw := {| e_mb := mb; e_k := k; e_msg := m |}).
  set (lc := snd (drop_oldest mb (FileStoreRefine.cap_d cfg (length (box mb (live st)))) (live st))).
  assert (Hlc : forall e, In e lc -> In e (live st)).
  { pose proof (drop_oldest_spec mb (FileStoreRefine.cap_d cfg (length (box mb (live st)))) (live st)) as H.
    unfold lc. destruct (drop_oldest mb _ (live st)) as [dd rr]. simpl. tauto. }
  assert (Hex : exists d2 r', add_fit cfg (lc ++ [nw]) = (d2, r' ++ [nw]) /\ forall e, In e r' -> In e lc).
  { unfold add_fit. destruct (c_max cfg =? 0)%N eqn:Q.
    - exists [], lc. auto.
    - apply N.eqb_neq in Q. destruct Hfit as [Hfit|Hfit]; [contradiction|].
      destruct (evict_fit_keeps_last (c_max cfg) nw Hfit lc) as [r' Hr].
      pose proof (evict_fit_spec (c_max cfg) (lc ++ [nw])) as Hs.
      destruct (evict_fit (c_max cfg) (lc ++ [nw])) as [d2 l3]. simpl in Hr. subst l3. destruct Hs as [Hs _].
      exists d2, r'. split; [reflexivity|]. rewrite app_assoc in Hs. apply app_inj_tail in Hs as [Hs _].
      intros e He. rewrite Hs. apply in_or_app. right; exact He. }
  destruct Hex as [d2 [r' [Hfitq Hr']]]. rewrite Hfitq. cbn [fst snd live find_h].
  rewrite find_app_skip.
  - cbn [find]. assert (is_ent mb k nw = true) as ->.
    { unfold is_ent. rewrite (proj2 (ent_in_eq mb nw) eq_refl). simpl. apply Nat.eqb_refl. }
    reflexivity.
  - intros x Hx. apply Hr', Hlc in Hx. destruct HI as [_ HI2]. specialize (HI2 x Hx).
    unfold is_ent. destruct (ent_in mb x) eqn:Ex; [|reflexivity]. apply ent_in_eq in Ex. rewrite Ex in HI2. fold k in HI2.
    simpl. apply Nat.eqb_neq. lia.
Qed.

Lemma run_spec_app cfg : forall a st b,
  run_spec cfg st (a ++ b) = run_spec cfg st a ++ run_spec cfg (final_spec cfg st a) b.
Proof.
  induction a as [|o a IH]; intros st b; [reflexivity|]. cbn [app run_spec final_spec].
  destruct (exec_spec cfg st o) as [[st' ob] evs]. cbn [app]. f_equal. apply IH.
Qed.

Lemma run_spec_length cfg : forall a st, length (run_spec cfg st a) = length a.
Proof.
  induction a as [|o a IH]; intros st; [reflexivity|]. cbn [run_spec]. destruct (exec_spec cfg st o) as [[st' ob] evs].
  simpl. f_equal. apply IH.
Qed.

Lemma spec_nth_add cfg ops1 ops2 mb date tag size :
  (c_max cfg = 0 \/ size <= c_max cfg)%N ->
  let m := {| m_date := date; m_tag := tag; m_size := size; m_seen := false |} in
  let k := count_of mb (counts (final_spec cfg spec_init ops1)) in
  nth_error (map fst (run_spec cfg spec_init (ops1 ++ Add mb date tag size :: ops2))) (length ops1) = Some (OAdd k (Ok (k, m))).
Proof.
  intros Hfit m k. rewrite run_spec_app, map_app.
  rewrite nth_error_app2 by (rewrite map_length, run_spec_length; lia).
  rewrite map_length, run_spec_length, Nat.sub_diag.
  pose proof (fits_then_retrievable_spec cfg (final_spec cfg spec_init ops1) mb date tag size
                (final_spec_SInv cfg ops1 spec_init SInv_init) Hfit) as H. cbv zeta in H. fold m k in H.
  cbn [run_spec]. destruct (exec_spec cfg (final_spec cfg spec_init ops1) (Add mb date tag size)) as [[st' ob] evs].
  simpl in *. rewrite H. reflexivity.
Qed.

(** [fits_then_retrievable]: on the memory-store model, at any point of any history and under
    any cap and size limit, a delivered message that is not larger than the size limit is
    answered by the GetMessage of the id just returned, with exactly what was written — no
    matter how many evictions, removals or purges preceded it. *)
Theorem fits_then_retrievable cfg ops1 ops2 mb date tag size :
  (c_max cfg = 0 \/ size <= c_max cfg)%N ->
  let m := {| m_date := date; m_tag := tag; m_size := size; m_seen := false |} in
  let k := count_of mb (counts (final_spec cfg spec_init ops1)) in
  nth_error (map fst (run_mem cfg (ops1 ++ Add mb date tag size :: ops2))) (length ops1) = Some (OAdd k (Ok (k, m))).
Proof. intros Hfit. rewrite mem_refines_spec. apply spec_nth_add. exact Hfit. Qed.

(** The same on the file-store model (no size limit there). *)
Theorem fits_then_retrievable_file cfg ticks ops1 ops2 mb date tag size :
  c_max cfg = 0%N -> file_fresh cfg (file_init ticks, []) (ops1 ++ Add mb date tag size :: ops2) ->
  let m := {| m_date := date; m_tag := tag; m_size := size; m_seen := false |} in
  let k := count_of mb (counts (final_spec cfg spec_init ops1)) in
  nth_error (map fst (run_file cfg ticks (ops1 ++ Add mb date tag size :: ops2))) (length ops1) = Some (OAdd k (Ok (k, m))).
Proof. intros Hm Hf. rewrite file_refines_spec by assumption. apply spec_nth_add. left; exact Hm. Qed.

Example fits_example :
  nth_error (map fst (run_mem {| c_cap := 1; c_max := 1024 |} [Add [97%N] 0%Z 0%N 600%N; Add [97%N] 1%Z 1%N 600%N])) 1
  = Some (OAdd 1 (Ok (1, {| m_date := 1%Z; m_tag := 1%N; m_size := 600%N; m_seen := false |}))).
Proof. vm_compute. reflexivity. Qed.

(** C18 — styleTagFilter's per-attribute rewrite: the value is written between double quotes
    and cannot close them; a style value is the output of sanitizeStyle. *)
From IV Require Import Base.Bytes Gen.SanitizeConsts Model.Sanitize Proofs.SanitizeEscape Proofs.SanitizeStyle.

Definition is_style (key : str) : bool := str_eqb (go_lower key) style_key.

Theorem filter_attr_quoted : forall key val toks,
  (filter_attr (Attr key val toks) = [] /\ is_style key = true /\ sanitize_style toks = [])
  \/ exists v',
       filter_attr (Attr key val toks) = [32] ++ key ++ [61; 34] ++ v' ++ [34]
       /\ (forall c, In c v' -> c <> 34 /\ c <> 60 /\ c <> 62 /\ c <> 39 /\ c <> 13)
       /\ unescape esc_x v' = (if is_style key then sanitize_style toks else val)
       /\ (is_style key = true ->
           exists ps, unescape esc_x v' = render ps /\ groups_ok false ps = true).
Proof.
  intros key val toks. unfold filter_attr. fold (is_style key).
  destruct (is_style key) eqn:S.
  - destruct (sanitize_style toks) as [|c v] eqn:V; cbn [is_nil andb].
    + left. auto.
    + right. exists (escape esc_x (c :: v)). split; [reflexivity|]. split.
      * intros x I. destruct (proj1 (proj2 escape_no_active_chars) _ _ I) as [? [? [? [? ?]]]]. tauto.
      * split; [apply unescape_escape_x|]. intros _. rewrite unescape_escape_x, <- V.
        destruct (style_only_allowed toks) as [ps [E [G _]]]. exists ps. auto.
  - cbn [andb]. right. exists (escape esc_x val). split; [reflexivity|]. split.
    + intros x I. destruct (proj1 (proj2 escape_no_active_chars) _ _ I) as [? [? [? [? ?]]]]. tauto.
    + split; [apply unescape_escape_x|]. intro; discriminate.
Qed.

(** a start tag is rewritten as: less-than, name, the rewritten attributes, optional slash, greater-than *)
Lemma filter_item_tag : forall name attrs sc,
  filter_item (Tag name attrs sc) = [60] ++ name ++ flat_map filter_attr attrs ++ (if sc then [47] else []) ++ [62].
Proof. reflexivity. Qed.

Lemma style_tag_filter_app : forall a b, style_tag_filter (a ++ b) = style_tag_filter a ++ style_tag_filter b.
Proof. intros. unfold style_tag_filter. apply flat_map_app. Qed.

(* non-vacuity: style="p:red;x--verif-never:0" (p = first allow-listed property) -> only p survives;
   a title holding a double quote is escaped *)
Example filter_example :
  match allowed_properties with
  | p :: _ =>
    filter_item (Tag [112] [Attr [115;116;121;108;101] [] [(tok_ident, p); (tok_char, [58]); (tok_ident, [114;101;100]); (tok_char, [59]);
                                                           (tok_ident, never_allowed); (tok_char, [58]); (6, [48]); (tok_eof, [])];
                           Attr [116;105;116;108;101] [97;34;98] []] false)
    = [60;112; 32;115;116;121;108;101;61;34] ++ p ++ [58;114;101;100;59; 34; 32;116;105;116;108;101;61;34; 97;38;35;51;52;59;98; 34; 62]
  | [] => True
  end.
Proof. vm_compute. reflexivity. Qed.

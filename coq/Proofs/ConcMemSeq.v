(** C09 — runs of the memory-store model in which operations do not overlap: the schedule is cut into
    blocks, block i moves only thread i (and the enforcer) and runs thread i to completion before block i+1
    starts. Without size limit such a run commits the operations in program order, each exactly once, with the
    results the threads return — so its answers are those of the sequential specification on the program. *)
From IV Require Import Model.Conc Model.ConcMem Proofs.ConcBase Proofs.ConcMemInv Proofs.ConcMemCrash Proofs.ConcStmts Proofs.ConcMemLin Proofs.ConcMemLinEnf Proofs.ConcMemLogOps.
From Coq Require Import Lia ZifyN ZifyNat ZifyBool.

Definition block_of (i : tid) (b : list (who * nat)) : Prop := Forall (fun wc => fst wc = T i \/ fst wc = E) b.

Definition thread_done (s : msys) (i : tid) : bool :=
  match nth_error (s_thr s) i with Some (PDone _) => is_idle s | _ => false end.

(** Block i runs thread i to completion (and leaves the enforcer idle), then block i+1, ... *)
Fixpoint run_blocks (s : msys) (i : tid) (blocks : list (list (who * nat))) : option msys :=
  match blocks with
  | [] => Some s
  | b :: bs => match run s b with
               | Fin s' => if thread_done s' i then run_blocks s' (S i) bs else None
               | _ => None
               end
  end.

Fixpoint blocks_ok (i : tid) (blocks : list (list (who * nat))) : Prop :=
  match blocks with [] => True | b :: bs => block_of i b /\ blocks_ok (S i) bs end.

Lemma step_other_pc s w c s' j : step s w c = SOk s' -> w <> T j -> nth_error (s_thr s') j = nth_error (s_thr s) j.
Proof.
  intros H Hw. destruct w as [t|]; cbn [step] in H.
  - assert (Hne : t <> j) by congruence.
    unfold step_thr in H.
    destruct (nth_error (s_thr s) t) as [p|] eqn:Ep; [|discriminate].
    destruct p; try discriminate.
    all: split_step H.
    all: inv_ok H; autorewrite with sys; rewrite ?nth_set_other by exact Hne; reflexivity.
  - unfold step_enf in H. destruct (s_max s) eqn:E; [|discriminate].
    destruct (e_pc (s_enf s)); try discriminate.
    all: split_enf H.
    all: inv_ok H; autorewrite with sys; reflexivity.
Qed.

(** Effect of one block on the log and on the other threads (no size limit: the enforcer never moves). *)
Lemma block_effect i : forall b n s s', block_of i b -> s_max s = None -> run_from n s b = Fin s' ->
  (exists L, s_log s' = s_log s ++ L /\ Forall (fun e => fst (fst e) = T i) L) /\
  (forall j, j <> i -> nth_error (s_thr s') j = nth_error (s_thr s) j) /\
  (forall s0, reach s0 s -> reach s0 s').
Proof.
  induction b as [|[w c] b IH]; intros n s s' Hb Hm Hr; cbn [run_from] in Hr.
  - inversion Hr; subst. split; [exists (@nil logent); rewrite app_nil_r; split; [reflexivity | constructor]|]. split; auto.
  - inversion Hb as [|? ? Hw Hrest]; subst. cbn [fst] in Hw.
    destruct (step s w c) as [s1| | |] eqn:Es; try discriminate.
    + assert (Hwi : w = T i).
      { destruct Hw as [-> | ->]; [reflexivity|]. cbn [step] in Es. rewrite step_enf_nolimit in Es by exact Hm. discriminate. }
      subst w. assert (Hm1 : s_max s1 = None) by (rewrite (max_step _ _ _ _ Es); exact Hm).
      destruct (IH _ _ _ Hrest Hm1 Hr) as ((L & HL & HF) & Hoth & Hreach).
      split; [|split].
      * destruct (commit_is_own_step _ _ _ _ Es) as [Hl|(o & r & Hl)]; rewrite Hl in HL.
        -- exists L. split; assumption.
        -- exists ((T i, o, r) :: L). split; [rewrite HL, <- app_assoc; reflexivity | constructor; [reflexivity | exact HF]].
      * intros j Hj. rewrite (Hoth j Hj). apply (step_other_pc _ _ _ _ j Es). congruence.
      * intros s0 R0. apply Hreach. eapply reach_step; eauto.
    + eapply IH; eauto.
Qed.

Lemma nth_error_ext_local {A} (l1 l2 : list A) : (forall j, nth_error l1 j = nth_error l2 j) -> l1 = l2.
Proof.
  revert l2; induction l1 as [|a l1 IH]; intros [|b l2] H; [reflexivity | specialize (H 0%nat); discriminate | specialize (H 0%nat); discriminate|].
  pose proof (H 0%nat) as H0. cbn in H0. inversion H0; subst. f_equal. apply IH. intros j. exact (H (S j)).
Qed.

Lemma filter_none {A} (f : A -> bool) l : (forall e, In e l -> f e = false) -> filter f l = [].
Proof.
  induction l as [|a l IH]; intros H; [reflexivity|]. cbn [filter]. rewrite (H a (or_introl eq_refl)).
  apply IH. intros e He. apply H. now right.
Qed.

Section Seq.
  Variable cap : N.
  Variable ops : list op.
  Hypothesis Hnv : Forall (fun o => o <> OVisit) ops.
  Let s0 := init_sys cap None [] enf0 ops.

  (** After k blocks: the log is the first k operations in program order with their results. *)
  Definition P (k : nat) (x : msys) : Prop :=
    length (s_log x) = k /\
    forall j e, nth_error (s_log x) j = Some e ->
      fst (fst e) = T j /\ nth_error ops j = Some (lop e) /\ nth_error (s_thr x) j = Some (PDone (lres e)).

  Lemma reach_facts x : reach s0 x -> s_max x = None /\ invR ops x /\ invK ops x.
  Proof.
    revert x. apply reach_ind_inv.
    - split; [reflexivity|]. split; [apply init_invR|].
      intros t o p Ho Hv Hp. destruct (init_thr_nth _ _ _ _ _ Hp) as (o' & -> & _). reflexivity.
    - intros x y w c (Hm & HR & HK) Hs. split; [rewrite (max_step _ _ _ _ Hs); exact Hm|].
      destruct w as [t|]; cbn [step] in Hs.
      + split; [eapply invR_thr_any; eauto | eapply invK_thr; eauto].
      + rewrite step_enf_nolimit in Hs by exact Hm. discriminate.
  Qed.

  Lemma count_old k x : P k x -> count_tag k (s_log x) = 0%nat.
  Proof.
    intros [Hl Hn]. unfold count_tag.
    assert (G : forall e, In e (s_log x) -> tag_is k e = false).
    { intros e He. apply In_nth_error in He. destruct He as [j Hj]. destruct (Hn _ _ Hj) as (Ht & _ & _).
      assert (j < k)%nat by (rewrite <- Hl; apply nth_error_Some; congruence).
      unfold tag_is. rewrite Ht. apply Nat.eqb_neq. lia. }
    rewrite (filter_none _ _ G). reflexivity.
  Qed.

  Lemma count_all k L : Forall (fun e : logent => fst (fst e) = T k) L -> count_tag k L = length L.
  Proof.
    induction 1 as [|e l He Hl IH]; [reflexivity|]. unfold count_tag in *. cbn [filter].
    unfold tag_is at 1. rewrite He, Nat.eqb_refl. cbn [length]. now rewrite IH.
  Qed.

  Lemma block_step k x y b : reach s0 x -> P k x -> block_of k b -> run x b = Fin y -> thread_done y k = true ->
    reach s0 y /\ P (S k) y.
  Proof.
    intros Rx HP Hb Hr Hd. destruct (reach_facts _ Rx) as (Hm & _ & _).
    destruct (block_effect k b 0 x y Hb Hm Hr) as ((L & HL & HF) & Hoth & Hreach).
    pose proof (Hreach _ Rx) as Ry. split; [exact Ry|].
    destruct (reach_facts _ Ry) as (_ & HRy & HKy).
    unfold thread_done in Hd. destruct (nth_error (s_thr y) k) as [[]|] eqn:Ek; try discriminate. rename r into rk.
    destruct (HRy _ _ Ek) as (ok & Hok & Hin).
    assert (Hvk : ok <> OVisit). { rewrite Forall_forall in Hnv. apply Hnv. eapply nth_error_In; eauto. }
    destruct Hin as [Hin|Hin]; [contradiction|].
    pose proof (HKy _ _ _ Hok Hvk Ek) as Hc. cbn [post] in Hc.
    rewrite HL in Hc. unfold count_tag in Hc. rewrite filter_app, app_length in Hc.
    fold (count_tag k (s_log x)) in Hc. fold (count_tag k L) in Hc.
    rewrite (count_old _ _ HP), (count_all _ _ HF) in Hc.
    destruct L as [|e [|e' L']]; cbn [length] in Hc; try lia.
    (* the one new entry is this thread's commit *)
    assert (He : e = (T k, ok, rk)).
    { rewrite HL in Hin. apply in_app_or in Hin. destruct Hin as [Hin|[Hin|[]]]; [|congruence].
      exfalso. pose proof (count_old _ _ HP) as H0. unfold count_tag in H0.
      assert (In (T k, ok, rk) (filter (tag_is k) (s_log x))) as Hf by (apply filter_In; split; [exact Hin | apply tag_is_self]).
      destruct (filter (tag_is k) (s_log x)); [destruct Hf | discriminate]. }
    subst e. destruct HP as [Hlen Hn]. split; [rewrite HL, app_length; cbn; lia|].
    intros j e Hj. rewrite HL in Hj.
    destruct (Nat.lt_ge_cases j k) as [Hlt|Hge].
    - rewrite nth_error_app1 in Hj by lia. destruct (Hn _ _ Hj) as (H1 & H2 & H3).
      split; [exact H1|]. split; [exact H2|]. rewrite Hoth by lia. exact H3.
    - rewrite nth_error_app2 in Hj by lia. rewrite Hlen in Hj.
      destruct (j - k)%nat as [|d] eqn:Ed; cbn in Hj; [|destruct d; discriminate].
      inversion Hj; subst e. assert (j = k) by lia. subst j. cbn [fst snd lop lres]. auto.
  Qed.

  Lemma blocks_run : forall blocks k x s, reach s0 x -> P k x -> blocks_ok k blocks ->
    run_blocks x k blocks = Some s -> reach s0 s /\ P (k + length blocks) s.
  Proof.
    induction blocks as [|b bs IH]; intros k x s Rx HP Hok Hr; cbn [run_blocks blocks_ok length] in *.
    - inversion Hr; subst. rewrite Nat.add_0_r. auto.
    - destruct Hok as [Hb Hrest]. destruct (run x b) as [y| |] eqn:Ey; try discriminate.
      destruct (thread_done y k) eqn:Ed; [|discriminate].
      destruct (block_step k x y b Rx HP Hb Ey Ed) as [Ry HPy].
      destruct (IH _ _ _ Ry HPy Hrest Hr) as [Rs HPs]. split; [exact Rs|].
      replace (k + S (length bs))%nat with (S k + length bs)%nat by lia. exact HPs.
  Qed.

  (** A run of non-overlapping operations answers exactly as the sequential specification run on the program. *)
  Theorem nonoverlapping_run_is_seq_run : forall blocks s,
    length blocks = length ops -> blocks_ok 0%nat blocks -> run_blocks s0 0%nat blocks = Some s ->
    map lop (s_log s) = ops /\
    (forall t r, nth_error (s_thr s) t = Some (PDone r) -> nth_error (snd (seq_run true cap [] ops)) t = Some r) /\
    (forall mb, x_lock (getx mb s) = None -> sget mb (fst (seq_run true cap [] ops)) = x_box (getx mb s)).
  Proof.
    intros blocks s Hlen Hok Hr.
    assert (HP0 : P 0%nat s0) by (split; [reflexivity | intros j e Hj; destruct j; discriminate]).
    destruct (blocks_run blocks 0%nat s0 s (reach_refl _) HP0 Hok Hr) as [Rs [Hl Hn]]. cbn [Nat.add] in Hl.
    assert (Hops : map lop (s_log s) = ops).
    { apply nth_error_ext_local. intros j. rewrite nth_error_map.
      destruct (nth_error (s_log s) j) as [e|] eqn:Ej; cbn [option_map].
      - destruct (Hn _ _ Ej) as (_ & H2 & _). now rewrite H2.
      - symmetry. apply nth_error_None. apply nth_error_None in Ej. lia. }
    destruct (nolimit_reach _ _ _ Rs) as (_ & Hc & _ & [S1 S2]). rewrite Hc in *.
    rewrite Hops in S1, S2. split; [exact Hops|]. split.
    - intros t r Ht. rewrite S1, nth_error_map.
      destruct (nth_error (s_log s) t) as [e|] eqn:Et.
      + destruct (Hn _ _ Et) as (_ & _ & H3). rewrite H3 in Ht. inversion Ht; subst. reflexivity.
      + exfalso. apply nth_error_None in Et. assert (t < length (s_thr s))%nat by (apply nth_error_Some; congruence).
        assert (length (s_thr s) = length ops).
        { clear -Rs. induction Rs; [cbn; apply map_length|]. rewrite <- IHRs.
          destruct w as [u|]; cbn [step] in H.
          - unfold step_thr in H. destruct (nth_error (s_thr s) u) as [p|] eqn:Ep; [|discriminate].
            destruct p; try discriminate. all: split_step H. all: inv_ok H; autorewrite with sys; rewrite ?length_set_nth; reflexivity.
          - unfold step_enf in H. destruct (s_max s) eqn:E; [|discriminate]. destruct (e_pc (s_enf s)); try discriminate.
            all: split_enf H. all: inv_ok H; autorewrite with sys; reflexivity. }
        lia.
    - intros mb Hlk. rewrite S2. now apply abs_unlocked.
  Qed.
End Seq.

(** The loops of the memory store: the cap loop of AddMessage and the enforcer's bookkeeping
    and eviction loop, characterised against the abstract list operations. *)
From Coq Require Import List Arith Lia Sorted.
From IV Require Import Base.Bytes Base.BytesFacts Model.StoreSpec Model.StoreSpecImpl Model.MemStore
  Proofs.StoreSpecFacts Proofs.StoreSpecRefine Proofs.StoreSpecLimits.
Import ListNotations.
Local Open Scope nat_scope.

(** A message as the memory store keeps it: id = index = handle number + 1. *)
Definition mf (e : entry) : mid * msg := (S (e_k e), e_msg e).
Definition en_rep (l : list entry) : list (str * mid * N) := map (fun e => (e_mb e, S (e_k e), m_size (e_msg e))) l.
Definition E (l : list entry) : enforcer := {| en_all := en_rep l; en_cur := total l |}.
Definition evd (e : entry) : lev mid := (EDeleted, e_mb e, S (e_k e)).
Definition klt2 (a b : mid * msg) : Prop := fst a < fst b.

Lemma ent3_is_ent mb k e : ent3_is mb (S k) (e_mb e, S (e_k e), m_size (e_msg e)) = is_ent mb k e.
Proof. unfold ent3_is, is_ent, ent_in. simpl. rewrite (Nat.eqb_sym k (e_k e)). reflexivity. Qed.

Lemma box_cons_in mb e l : ent_in mb e = true -> box mb (e :: l) = e :: box mb l.
Proof. intros H. unfold box. simpl. rewrite H. reflexivity. Qed.
Lemma box_cons_out mb e l : ent_in mb e = false -> box mb (e :: l) = box mb l.
Proof. intros H. unfold box. simpl. rewrite H. reflexivity. Qed.

(** Below the head of a sorted mailbox nothing else carries the head's handle number. *)
Lemma remove_head mb e l : ent_in mb e = true -> StronglySorted klt (box mb (e :: l)) ->
  remove_ent mb (e_k e) (e :: l) = l.
Proof.
  intros He Hs. rewrite box_cons_in in Hs by exact He. apply StronglySorted_inv in Hs as [_ Hs].
  unfold remove_ent. simpl. unfold is_ent at 1. rewrite He, Nat.eqb_refl. simpl.
  apply filter_all_true. intros x Hx. unfold is_ent. destruct (ent_in mb x) eqn:Ex; [|reflexivity]. simpl.
  rewrite Forall_forall in Hs. assert (In x (box mb l)) as Hb by (apply filter_In; auto).
  specialize (Hs x Hb). unfold klt in Hs. apply Bool.negb_true_iff. apply Nat.eqb_neq. lia.
Qed.

Lemma SS_box_tail mb e l : StronglySorted klt (box mb (e :: l)) -> StronglySorted klt (box mb l).
Proof.
  destruct (ent_in mb e) eqn:He.
  - rewrite box_cons_in by exact He. intros H. apply StronglySorted_inv in H. tauto.
  - rewrite box_cons_out by exact He. auto.
Qed.

Lemma enf_remove_ok max mb k l e : max <> 0%N -> StronglySorted klt (box mb l) ->
  find (is_ent mb k) l = Some e ->
  enf_remove max mb (S k) (m_size (e_msg e)) (E l) = E (remove_ent mb k l).
Proof.
  intros Hm. unfold enf_remove. apply N.eqb_neq in Hm. rewrite Hm. clear Hm.
  induction l as [|x l IH]; intros Hs Hf; [discriminate|].
  cbn [E en_rep map en_all all_remove]. rewrite ent3_is_ent. cbn [find] in Hf.
  destruct (is_ent mb k x) eqn:Ex.
  - inversion Hf; subst x. unfold is_ent in Ex. apply andb_true_iff in Ex as [Em Ek]. apply Nat.eqb_eq in Ek. subst k.
    rewrite remove_head by assumption. unfold E. f_equal. cbn [en_cur total]. lia.
  - specialize (IH (SS_box_tail _ _ _ Hs) Hf). cbn [E en_all en_cur] in IH. fold (en_rep l).
    destruct (all_remove mb (S k) (en_rep l)) as [r|] eqn:Er.
    + unfold E in IH. inversion IH as [[H1 H2]].
      assert (Hsz : (m_size (e_msg e) <= total l)%N).
      { clear -Hf. induction l as [|y l IHl]; [discriminate|]. simpl in *. destruct (is_ent mb k y).
        - inversion Hf; subst. lia.
        - specialize (IHl Hf). lia. }
      unfold remove_ent. cbn [filter]. rewrite Ex. cbn [negb]. fold (remove_ent mb k l).
      unfold E. cbn [en_rep map total]. f_equal. cbn [en_cur]. rewrite <- H2. lia.
    + exfalso. clear -Hf Er. induction l as [|y l IHl]; [discriminate|]. simpl in *. rewrite ent3_is_ent in Er.
      destruct (is_ent mb k y); [discriminate|]. destruct (all_remove mb (S k) (en_rep l)); [discriminate|]. auto.
Qed.

(* ---- removing several messages of one mailbox *)
Definition remove_many (mb : str) (ks : list nat) (l : list entry) : list entry :=
  fold_left (fun l k => remove_ent mb k l) ks l.

Definition enf_step (max : N) (mb : str) (en : enforcer) (p : mid * msg) : enforcer :=
  enf_remove max mb (fst p) (m_size (snd p)) en.

Lemma box_remove_head mb e sb l : box mb l = e :: sb -> StronglySorted klt (box mb l) ->
  box mb (remove_ent mb (e_k e) l) = sb /\ find (is_ent mb (e_k e)) l = Some e.
Proof.
  intros Hb Hs. split.
  - rewrite box_remove_same, Hb. simpl. rewrite Nat.eqb_refl. simpl. rewrite Hb in Hs.
    apply StronglySorted_inv in Hs as [_ Hs]. apply filter_all_true. intros x Hx. rewrite Forall_forall in Hs.
    specialize (Hs x Hx). unfold klt in Hs. apply Bool.negb_true_iff. apply Nat.eqb_neq. lia.
  - rewrite find_box, Hb. simpl. rewrite Nat.eqb_refl. reflexivity.
Qed.

Lemma enf_fold max mb : max <> 0%N -> forall d l, (forall mb', StronglySorted klt (box mb' l)) ->
  fold_left (enf_step max mb) (map mf (firstn d (box mb l))) (E l) =
  E (remove_many mb (map e_k (firstn d (box mb l))) l).
Proof.
  intros Hm. induction d as [|d IH]; intros l Hs; [reflexivity|].
  destruct (box mb l) as [|e sb] eqn:Hb; [reflexivity|].
  cbn [firstn map fold_left remove_many]. unfold enf_step at 2. cbn [mf fst snd].
  destruct (box_remove_head mb e sb l Hb (Hs mb)) as [H1 H2].
  rewrite (enf_remove_ok max mb (e_k e) l e Hm (Hs mb) H2).
  specialize (IH (remove_ent mb (e_k e) l)). rewrite H1 in IH. apply IH.
  intros mb'. unfold remove_ent. rewrite box_filter. apply SS_filter. apply Hs.
Qed.

Lemma remove_many_cons_out mb ks e l : ent_in mb e = false -> remove_many mb ks (e :: l) = e :: remove_many mb ks l.
Proof.
  intros He. revert l. induction ks as [|k ks IH]; intros l; [reflexivity|].
  cbn [remove_many fold_left]. unfold remove_ent at 2 4. simpl. unfold is_ent at 1. rewrite He. simpl. apply IH.
Qed.

Lemma remove_many_drop mb : forall l d, StronglySorted klt (box mb l) ->
  remove_many mb (map e_k (firstn d (box mb l))) l = snd (drop_oldest mb d l).
Proof.
  induction l as [|e l IH]; intros d Hs.
  - destruct d; reflexivity.
  - destruct d as [|d]; [reflexivity|]. cbn [drop_oldest]. destruct (ent_in mb e) eqn:He.
    + rewrite box_cons_in by exact He. cbn [firstn map remove_many fold_left].
      rewrite remove_head by assumption. specialize (IH d (SS_box_tail _ _ _ Hs)). unfold remove_many in IH. rewrite IH.
      destruct (drop_oldest mb d l); reflexivity.
    + rewrite box_cons_out by exact He. rewrite remove_many_cons_out by exact He.
      rewrite (IH (S d) (SS_box_tail _ _ _ Hs)). destruct (drop_oldest mb (S d) l); reflexivity.
Qed.

Lemma remove_many_all mb : forall l, StronglySorted klt (box mb l) ->
  remove_many mb (map e_k (box mb l)) l = filter (fun e => negb (ent_in mb e)) l.
Proof.
  induction l as [|e l IH]; intros Hs; [reflexivity|]. destruct (ent_in mb e) eqn:He.
  - rewrite box_cons_in by exact He. cbn [map remove_many fold_left]. rewrite remove_head by assumption.
    simpl. rewrite He. simpl. apply IH. apply (SS_box_tail _ _ _ Hs).
  - rewrite box_cons_out by exact He. rewrite remove_many_cons_out by exact He. simpl. rewrite He. simpl.
    f_equal. apply IH. apply (SS_box_tail _ _ _ Hs).
Qed.

Lemma drop_oldest_snoc mb e : forall l d, d <= length (box mb l) ->
  drop_oldest mb d (l ++ [e]) = (fst (drop_oldest mb d l), snd (drop_oldest mb d l) ++ [e]).
Proof.
  induction l as [|x l IH]; intros d Hd.
  - simpl in Hd. assert (d = 0) by lia. subst. reflexivity.
  - destruct d as [|d]; [reflexivity|]. cbn [app drop_oldest]. destruct (ent_in mb x) eqn:Hx.
    + rewrite box_cons_in in Hd by exact Hx. simpl in Hd. rewrite IH by lia. destruct (drop_oldest mb d l); reflexivity.
    + rewrite box_cons_out in Hd by exact Hx. rewrite IH by lia. destruct (drop_oldest mb (S d) l); reflexivity.
Qed.

(* ---- the cap loop *)
Lemma mal_find_none first (msgs : list (mid * msg)) : (forall p, In p msgs -> first < fst p) -> mal_find first msgs = None.
Proof.
  induction msgs as [|[i m] l IH]; intros H; [reflexivity|]. unfold mal_find in *. cbn [al_find].
  pose proof (H (i, m) (or_introl eq_refl)) as Hi. simpl in Hi.
  assert (Nat.eqb first i = false) as -> by (apply Nat.eqb_neq; lia). apply IH. intros p Hp. apply H. right; exact Hp.
Qed.

Lemma cap_loop_spec cap last : 0 < cap -> forall fuel first msgs ev,
  StronglySorted klt2 msgs -> (forall p, In p msgs -> first <= fst p <= last) -> last + 1 - first < fuel ->
  exists first', cap_loop fuel cap first msgs ev =
                 (first', skipn (length msgs - cap) msgs, ev ++ firstn (length msgs - cap) msgs) /\
                 (forall p, In p (skipn (length msgs - cap) msgs) -> first' <= fst p).
Proof.
  intros Hc. induction fuel as [|f IH]; intros first msgs ev Hs Hb Hf; [lia|].
  cbn [cap_loop]. destruct (Nat.ltb cap (length msgs)) eqn:E.
  - apply Nat.ltb_lt in E. destruct msgs as [|[h m] t]; [simpl in E; lia|].
    pose proof (Hb (h, m) (or_introl eq_refl)) as Hh. simpl in Hh.
    apply StronglySorted_inv in Hs as [Hs1 Hs2]. rewrite Forall_forall in Hs2.
    simpl length. replace (S (length t) - cap) with (S (length t - cap)) by (simpl in E; lia).
    destruct (Nat.eq_dec first h) as [->|Hne].
    + unfold mal_find, mal_remove. cbn [al_find al_remove]. rewrite Nat.eqb_refl.
      destruct (IH (S h) t (ev ++ [(h, m)]) Hs1) as [f' [H1 H2]].
      * intros p Hp. specialize (Hs2 p Hp). unfold klt2 in Hs2. simpl in Hs2.
        pose proof (Hb p (or_intror Hp)). lia.
      * lia.
      * exists f'. split; [|exact H2]. etransitivity; [exact H1|]. cbn [skipn firstn]. rewrite <- app_assoc. reflexivity.
    + rewrite mal_find_none.
      2:{ intros p [<-|Hp]; simpl; [lia|]. specialize (Hs2 p Hp). unfold klt2 in Hs2. simpl in Hs2. lia. }
      destruct (IH (S first) ((h, m) :: t) ev) as [f' [H1 H2]].
      * constructor; [exact Hs1 | apply Forall_forall; exact Hs2].
      * intros p Hp. pose proof (Hb p Hp). destruct Hp as [<-|Hp]; simpl in *; [lia|].
        specialize (Hs2 p Hp). unfold klt2 in Hs2. simpl in Hs2. lia.
      * lia.
      * exists f'. simpl length in H1, H2. replace (S (length t) - cap) with (S (length t - cap)) in H1, H2 by (simpl in E; lia).
        split; [exact H1 | exact H2].
  - apply Nat.ltb_ge in E. replace (length msgs - cap) with 0 by lia. exists first. simpl. rewrite app_nil_r.
    split; [reflexivity|]. intros p Hp. apply Hb. exact Hp.
Qed.

(* ---- the eviction loop *)
Lemma bx_get_notin {B} (d : B) mb l : ~ In mb (map fst l) -> bx_get d mb l = d.
Proof.
  induction l as [|[n b] l IH]; simpl; intros H; [reflexivity|].
  destruct (str_eqb mb n) eqn:Q; [apply str_eqb_eq in Q; subst; exfalso; apply H; left; reflexivity|].
  apply IH. intros Hin. apply H. right; exact Hin.
Qed.

Definition gbox (mb : str) (boxes : list (str * mbox)) : mbox := bx_get mbox_empty mb boxes.

Lemma evict_loop_S f max boxes all cur evs :
  evict_loop (S f) max boxes all cur evs =
  if (max <? cur)%N then
    match all with
    | [] => None
    | (mb, i, sz) :: all' =>
        match box_remove mb i boxes with
        | Some boxes' => evict_loop f max boxes' all' (cur - sz)%N (evs ++ [(EDeleted, mb, i)])
        | None => evict_loop f max boxes all' (cur - sz)%N evs
        end
    end
  else Some (boxes, all, cur, evs).
Proof. reflexivity. Qed.

Lemma evict_loop_spec max : forall l boxes evs,
  (forall mb, mb_msgs (gbox mb boxes) = map mf (box mb l)) ->
  (forall mb, StronglySorted klt (box mb l)) ->
  exists boxes',
    evict_loop (S (length l)) max boxes (en_rep l) (total l) evs =
      Some (boxes', en_rep (snd (evict_fit max l)), total (snd (evict_fit max l)), evs ++ map evd (fst (evict_fit max l))) /\
    (forall mb, mb_msgs (gbox mb boxes') = map mf (box mb (snd (evict_fit max l))) /\
                mb_first (gbox mb boxes') = mb_first (gbox mb boxes) /\
                mb_last (gbox mb boxes') = mb_last (gbox mb boxes)) /\
    map fst boxes' = map fst boxes.
Proof.
  induction l as [|e l IH]; intros boxes evs HB Hs.
  - exists boxes. cbn [length evict_loop evict_fit en_rep map total fst snd].
    assert (max <? 0 = false)%N as -> by (apply N.ltb_ge; lia). rewrite app_nil_r. repeat split; auto.
  - cbn [length evict_fit]. rewrite evict_loop_S. rewrite N.ltb_antisym.
    destruct (total (e :: l) <=? max)%N eqn:Q; cbn [negb].
    + exists boxes. cbn [fst snd map]. rewrite app_nil_r. repeat split; auto.
    + cbn [en_rep map]. unfold box_remove. fold (gbox (e_mb e) boxes).
      assert (He : ent_in (e_mb e) e = true) by (apply ent_in_eq; reflexivity).
      pose proof (HB (e_mb e)) as Hm. rewrite box_cons_in in Hm by exact He. cbn [map] in Hm. change (mf e) with (S (e_k e), e_msg e) in Hm.
      rewrite Hm. unfold mal_find, mal_remove. cbn [al_find al_remove]. rewrite Nat.eqb_refl.
      set (boxes1 := bx_set (e_mb e) _ boxes).
      assert (Hin : In (e_mb e) (map fst boxes)).
      { destruct (in_dec (list_eq_dec N.eq_dec) (e_mb e) (map fst boxes)) as [H|H]; [exact H|].
        unfold gbox in Hm. rewrite bx_get_notin in Hm by exact H. discriminate. }
      assert (Hg : forall mb, gbox mb boxes1 =
                 if list_eq_dec N.eq_dec mb (e_mb e)
                 then {| mb_first := mb_first (gbox (e_mb e) boxes); mb_last := mb_last (gbox (e_mb e) boxes);
                         mb_msgs := map mf (box (e_mb e) l) |}
                 else gbox mb boxes).
      { intros mb. unfold gbox, boxes1. destruct (list_eq_dec N.eq_dec mb (e_mb e)) as [->|Hne].
        - apply bx_get_set_same.
        - apply bx_get_set_other. congruence. }
      destruct (IH boxes1 (evs ++ [(EDeleted, e_mb e, S (e_k e))])) as [boxes' [H1 [H2 H3]]].
      * intros mb. rewrite Hg. destruct (list_eq_dec N.eq_dec mb (e_mb e)) as [->|Hne]; [reflexivity|].
        rewrite HB. rewrite box_cons_out; [reflexivity|]. apply ent_in_neq. congruence.
      * intros mb. apply (SS_box_tail _ _ _ (Hs mb)).
      * exists boxes'. replace (total (e :: l) - m_size (e_msg e))%N with (total l) by (cbn [total]; lia).
        destruct (evict_fit max l) as [d r] eqn:Ef. cbn [fst snd] in *. split; [|split].
        -- etransitivity; [exact H1|]. cbn [map]. rewrite <- app_assoc. reflexivity.
        -- intros mb. destruct (H2 mb) as [Ha [Hb Hc]]. rewrite Hg in Hb, Hc.
           split; [exact Ha|]. destruct (list_eq_dec N.eq_dec mb (e_mb e)) as [->|Hne]; simpl in *; auto.
        -- rewrite H3. unfold boxes1. apply bx_set_names_in. exact Hin.
Qed.

(** C14: the JSON answers, field by field, are the store's data. *)
From IV Require Import Base.Bytes Base.BytesFacts Model.StoreSpec Model.Rest.
Open Scope N_scope.

Lemma header_fields mb v :
  let h := jheader_of mb v in let m := snd v in
  jh_mailbox h = mb /\ jh_id h = fst v /\ jh_from h = m_tag m /\ jh_to h = m_tag m /\ jh_subject h = m_tag m /\
  jh_date h = m_date m /\ jh_millis h = m_date m /\ jh_size h = m_size m /\ jh_seen h = m_seen m.
Proof. cbv zeta. repeat split. Qed.

Lemma message_fields mb rid v :
  let j := jmessage_of mb rid v in let tag := m_tag (snd v) in
  jm_h j = jheader_of mb v /\ jm_text j = tag /\ jm_html j = (if has_html tag then Some tag else None) /\
  jm_hdr_from j = tag /\ jm_hdr_to j = tag /\ jm_hdr_subject j = tag /\
  length (jm_atts j) = N.to_nat (att_count tag) /\
  Forall (fun a => ja_md5 a = tag /\ ja_link_mb a = mb /\ ja_link_id a = rid) (jm_atts j).
Proof.
  cbv zeta. repeat split. 
  - unfold jmessage_of, jatts_of, att_count. cbn [jm_atts]. destruct (m_tag (snd v) mod 4 =? 3); reflexivity.
  - unfold jmessage_of, jatts_of. cbn [jm_atts]. destruct (att_count (m_tag (snd v)) =? 0); repeat constructor.
Qed.

Lemma uimessage_fields mb v :
  let j := juimessage_of mb v in let tag := m_tag (snd v) in
  ju_h j = jheader_of mb v /\ ju_text j = tag /\ ju_html j = (if has_html tag then Some tag else None) /\
  ju_hdr_from j = tag /\ ju_hdr_to j = tag /\ ju_hdr_subject j = tag /\
  length (ju_atts j) = N.to_nat (att_count tag) /\ ju_errors j = 0.
Proof.
  cbv zeta. repeat split.
  unfold juimessage_of, att_count. cbn [ju_atts]. destruct (m_tag (snd v) mod 4 =? 3); reflexivity.
Qed.

(** A listing is rendered header by header, in the store's order, all under the resolved name. *)
Lemma list_rendered st mb :
  render (PList mb (map view_of (box mb (live st)))) =
  JHeaders (map (fun e => jheader_of mb (view_of e)) (box mb (live st))).
Proof. cbn [render]. rewrite map_map. reflexivity. Qed.

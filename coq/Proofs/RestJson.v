(** C14: the JSON answers, field by field, are the store's data. *)
From IV Require Import Base.Bytes Base.BytesFacts Model.StoreSpec Model.Rest Proofs.Rest.
Open Scope N_scope.

Lemma header_fields mb v :
  let h := jheader_of mb v in let m := snd v in
  jh_mailbox h = mb /\ jh_id h = fst v /\ jh_from h = m_tag m /\ jh_to h = m_tag m /\ jh_subject h = m_tag m /\
  jh_date h = m_date m /\ jh_millis h = m_date m /\ jh_size h = m_size m /\ jh_seen h = m_seen m.
Proof. cbv zeta. repeat split. Qed.

Lemma message_fields mb rid v :
  let j := jmessage_of mb rid v in let tag := m_tag (snd v) in
  jm_h j = jheader_of mb v /\ jm_text j = tag /\ jm_html j = (if has_html tag then Some tag else None) /\
  jm_hdr_from j = tag /\ jm_hdr_to j = tag /\ jm_hdr_subject j = tag /\
  length (jm_atts j) = N.to_nat (att_count tag) /\
  Forall (fun a => ja_md5 a = tag /\ ja_link_mb a = mb /\ ja_link_id a = rid) (jm_atts j).
Proof.
  cbv zeta. repeat split. 
  - unfold jmessage_of, jatts_of, att_count. cbn [jm_atts]. destruct (m_tag (snd v) mod 4 =? 3); reflexivity.
  - unfold jmessage_of, jatts_of. cbn [jm_atts]. destruct (att_count (m_tag (snd v)) =? 0); repeat constructor.
Qed.

Lemma uimessage_fields mb v :
  let j := juimessage_of mb v in let tag := m_tag (snd v) in
  ju_h j = jheader_of mb v /\ ju_text j = tag /\ ju_html j = (if has_html tag then Some tag else None) /\
  ju_hdr_from j = tag /\ ju_hdr_to j = tag /\ ju_hdr_subject j = tag /\
  length (ju_atts j) = N.to_nat (att_count tag) /\ ju_errors j = 0.
Proof.
  cbv zeta. repeat split.
  unfold juimessage_of, att_count. cbn [ju_atts]. destruct (m_tag (snd v) mod 4 =? 3); reflexivity.
Qed.

(** A listing is rendered header by header, in the store's order, all under the resolved name. *)
Lemma list_rendered st mb :
  render (PList mb (map view_of (box mb (live st)))) =
  JHeaders (map (fun e => jheader_of mb (view_of e)) (box mb (live st))).
Proof. cbn [render]. rewrite map_map. reflexivity. Qed.

(** The answers themselves: what a handler writes is the rendering of the very entry StoreSpec's
    operation returns — the listing of [Lst mb] header by header, the message of
    [Get mb (Kth | Latest)] (the id of the request goes into the attachment links only). *)
Theorem json_answers_are_store_entries mfa cfg srcok st name id num body mb :
  mfa name = Some mb ->
  (run_handler mfa cfg srcok st HList name id num body =
     (st, (S200, PList mb (map view_of (box mb (live st))))) /\
   render (PList mb (map view_of (box mb (live st)))) = JHeaders (map (fun e => jheader_of mb (view_of e)) (box mb (live st)))) /\
  (forall v, spec_get cfg st mb id = Ok v -> srcok mb (fst v) = true ->
     run_handler mfa cfg srcok st HShow name id num body = (st, (S200, PMsg mb id v)) /\
     render (PMsg mb id v) = JMessage (jmessage_of mb id v) /\
     run_handler mfa cfg srcok st UMsg name id num body = (st, (S200, PUi mb v)) /\
     render (PUi mb v) = JUiMessage (juimessage_of mb v)).
Proof.
  intros M. split.
  - split; [unfold run_handler; rewrite M; reflexivity|apply list_rendered].
  - intros v G K. unfold run_handler. rewrite M, !st_get_spec, G.
    cbn [with_src ans_of_res mgr_get ga_err ga_msg ga_src]. rewrite K. repeat split.
Qed.

(** strconv.ParseUint semantics of the attachment number: leading zeros of any length, value bound only. *)
Example parse_uint32_ex :
  parse_uint32 (repeat 48 24 ++ [49]) = Some 1 /\ parse_uint32 (repeat 48 30) = Some 0 /\
  parse_uint32 [52;50;57;52;57;54;55;50;57;54] = None /\ parse_uint32 [52;50;57;52;57;54;55;50;57;53] = Some 4294967295 /\
  parse_uint32 [] = None /\ parse_uint32 [43;49] = None.
Proof. repeat split. Qed.

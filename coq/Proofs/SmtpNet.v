(** The SMTP session over a connection that pauses, times out or breaks (C03: "no input crashes or
    wedges the server", "a client that disconnects at any byte ..."): the client's bytes arrive in
    chunks separated by pauses longer than the idle timeout, and the connection ends by EOF, by
    silence, or by an error. For EVERY such connection the session ends, every item gets its one
    well-formed reply, and the store receives exactly what the dialogue entitles it to; how the
    connection ends changes nothing in the store. *)
From IV Require Import Base.Bytes Base.BytesFacts Model.Policy Model.Smtp Model.Dot Model.SmtpWire Proofs.SmtpInv Proofs.SmtpThms Proofs.DotCodec Proofs.SmtpCut Proofs.SmtpBytes.
From Coq Require Import ZifyBool ZifyNat ZifyN Lia.

(** ** The reader loop is the item-level run on the items it consumed *)
Lemma run_reader_run : forall fuel c o s r,
  let '(its, tr, sf) := run_reader fuel c o s r in fst (run c s its) = tr.
Proof.
  induction fuel as [|f IH]; intros c o s r; cbn [run_reader]; [reflexivity|].
  destruct (st s) eqn:Es; try reflexivity;
    (destruct (next_item_net o s r) as [it r'];
     destruct (step c s it) as [s' rp d| |] eqn:E; try reflexivity;
     specialize (IH c o s' r'); destruct (run_reader f c o s' r') as [[its tr] sf];
     cbn [run]; rewrite E; destruct (run c s' its) as [tr' e]; cbn [fst] in *; subst; reflexivity).
Qed.

Lemma next_item_net_quiet o s r : no_extension o -> quiet_item (fst (next_item_net o s r)) = true.
Proof.
  intros H. unfold next_item_net.
  destruct (st s);
    try (destruct (cur r) as [|b w];
         [destruct (later r); [destruct (fin r)|]; reflexivity
         |destruct (split_lf (b :: w)) as [[l rest]|]; cbn [fst]; apply classify_quiet; exact H]).
  destruct (dec BeginLine (cur r)) as [[b rest]|].
  - unfold block_item. destruct H as (_ & _ & H3). rewrite H3. cbn [fst].
    destruct (match assoc b (t_hdr o) with Some h => h | None => None end); reflexivity.
  - destruct (later r); [destruct (fin r)|]; reflexivity.
Qed.

Lemma run_reader_quiet : forall fuel c o s r, no_extension o ->
  forallb quiet_item (fst (fst (run_reader fuel c o s r))) = true.
Proof.
  induction fuel as [|f IH]; intros c o s r H; cbn [run_reader]; [reflexivity|].
  destruct (st s) eqn:Es; try reflexivity;
    (pose proof (next_item_net_quiet o s r H) as Hq;
     destruct (next_item_net o s r) as [it r'];
     destruct (step c s it) as [s' rp d| |]; try reflexivity;
     specialize (IH c o s' r' H); destruct (run_reader f c o s' r') as [[its tr] sf];
     cbn [fst forallb] in *; rewrite Hq, IH; reflexivity).
Qed.

(** ** C01 / C03 / C06 on every connection *)
Ltac net_unfold c o chunks f :=
  unfold run_net;
  match goal with
  | |- context [match chunks with [] => ?a | w :: ws => @?b w ws end] => idtac
  | _ => idtac
  end.

Theorem delivery_exact_net : forall c o chunks f, no_extension o ->
  let tr := snd (fst (run_net c o chunks f)) in
  deliveries_of tr = entitled c None [] [] (dialogue tr).
Proof.
  intros c o chunks f H. unfold run_net.
  destruct chunks as [|w ws];
    match goal with
    | |- context [run_reader ?n c o init ?r] =>
        pose proof (run_reader_run n c o init r) as Hr;
        pose proof (run_reader_quiet n c o init r H) as Hq;
        destruct (run_reader n c o init r) as [[its tr] sf]
    end; cbn [fst snd] in *; rewrite <- Hr; apply delivery_exact; apply quiet_all_sane; exact Hq.
Qed.

Theorem sequencing_net : forall c o chunks f, no_extension o ->
  seq_ok false false 0 (dialogue (snd (fst (run_net c o chunks f)))) = true.
Proof.
  intros c o chunks f H. unfold run_net.
  destruct chunks as [|w ws];
    match goal with
    | |- context [run_reader ?n c o init ?r] =>
        pose proof (run_reader_run n c o init r) as Hr;
        pose proof (run_reader_quiet n c o init r H) as Hq;
        destruct (run_reader n c o init r) as [[its tr] sf]
    end; cbn [fst snd] in *; rewrite <- Hr; apply sequencing; apply quiet_all_sane; exact Hq.
Qed.

Theorem net_one_reply_per_item : forall c o chunks f,
  forallb reply_ok (dialogue (snd (fst (run_net c o chunks f)))) = true.
Proof.
  intros c o chunks f. unfold run_net.
  destruct chunks as [|w ws];
    match goal with
    | |- context [run_reader ?n c o init ?r] =>
        pose proof (run_reader_run n c o init r) as Hr;
        destruct (run_reader n c o init r) as [[its tr] sf]
    end; cbn [fst snd] in *; rewrite <- Hr; apply one_reply_per_line.
Qed.

Theorem net_size_rule : forall c o chunks f,
  forallb (size_ok c) (snd (fst (run_net c o chunks f))) = true.
Proof.
  intros c o chunks f. unfold run_net.
  destruct chunks as [|w ws];
    match goal with
    | |- context [run_reader ?n c o init ?r] =>
        pose proof (run_reader_run n c o init r) as Hr;
        destruct (run_reader n c o init r) as [[its tr] sf]
    end; cbn [fst snd] in *; rewrite <- Hr; apply size_rule.
Qed.

Theorem net_accept_rule : forall c o chunks f,
  forallb (accept_ok c) (dialogue (snd (fst (run_net c o chunks f)))) = true.
Proof.
  intros c o chunks f. unfold run_net.
  destruct chunks as [|w ws];
    match goal with
    | |- context [run_reader ?n c o init ?r] =>
        pose proof (run_reader_run n c o init r) as Hr;
        destruct (run_reader n c o init r) as [[its tr] sf]
    end; cbn [fst snd] in *; rewrite <- Hr; apply accept_rule.
Qed.

(** ** Nothing wedges the session: it ends on every connection *)
Definition weight (r : reader) : nat := (length (cur r) + total_len (later r) + length (later r))%nat.

Lemma step_end_quits c s it s' rp d :
  it = Eof \/ it = Idle \/ it = ConnErr \/ it = B PEof \/ it = B PIdle ->
  step c s it = Ok s' rp d -> st s' = QUIT /\ d = [].
Proof.
  intros Hit H. unfold step, step_data in H.
  destruct Hit as [-> | [-> | [-> | [-> | ->]]]]; destruct (st s); inversion H; subst; auto.
Qed.

Lemma end_item_cases f : end_item f = Eof \/ end_item f = Idle \/ end_item f = ConnErr \/
                         end_item f = B PEof \/ end_item f = B PIdle.
Proof. destruct f; cbn; auto. Qed.
Lemma end_payload_cases (f : fin_kind) (it : item) : it = B (end_payload f) ->
  it = Eof \/ it = Idle \/ it = ConnErr \/ it = B PEof \/ it = B PIdle.
Proof. intros ->. destruct f; cbn; auto. Qed.

(** One iteration either closes the session or consumes input. *)
Lemma next_item_net_progress c o s r s' rp d :
  st s <> QUIT -> step c s (fst (next_item_net o s r)) = Ok s' rp d ->
  st s' = QUIT \/ (weight (snd (next_item_net o s r)) < weight r)%nat.
Proof.
  intros Hq H. unfold next_item_net in *.
  destruct (sstate_eqb (st s) DATA) eqn:Ed.
  - assert (Es : st s = DATA) by (destruct (st s); try discriminate; reflexivity). rewrite Es in *.
    destruct (dec BeginLine (cur r)) as [[b rest]|] eqn:D.
    + right. cbn [snd]. unfold weight. cbn [cur later]. apply dec_rest_len in D. lia.
    + left. destruct (later r); cbn [fst] in H;
        [eapply step_end_quits; [apply (end_payload_cases (fin r)); reflexivity|exact H]
        |eapply step_end_quits; [|exact H]; auto].
  - assert (E : forall (X : Type) (a b : X), (match st s with DATA => a | _ => b end) = b)
      by (intros; destruct (st s); try reflexivity; discriminate).
    rewrite E in *. clear E.
    destruct (cur r) as [|b w] eqn:C.
    + left. destruct (later r); cbn [fst] in H;
        [eapply step_end_quits; [apply end_item_cases|exact H]
        |eapply step_end_quits; [|exact H]; auto].
    + right. destruct (split_lf (b :: w)) as [[l rest]|] eqn:S; cbn [snd].
      * unfold weight. cbn [cur later]. rewrite C. apply split_lf_some in S as [S _].
        rewrite S, app_length. cbn [length]. lia.
      * unfold weight, spent. rewrite C.
        destruct (later r) as [|w' ws]; cbn [cur later total_len fold_right length]; lia.
Qed.

Lemma next_item_net_fits c o s r : Inv c s -> st s <> QUIT ->
  exists s' rp d, step c s (fst (next_item_net o s r)) = Ok s' rp d.
Proof.
  intros HI Hq. unfold next_item_net.
  destruct (sstate_eqb (st s) DATA) eqn:Ed.
  - assert (Es : st s = DATA) by (destruct (st s); try discriminate; reflexivity). rewrite Es.
    destruct (dec BeginLine (cur r)) as [[b rest]|]; [|destruct (later r)]; cbn [fst];
      apply progress_data; assumption.
  - assert (Hd : st s <> DATA) by (intro E; rewrite E in Ed; discriminate).
    assert (E : forall (X : Type) (a b : X), (match st s with DATA => a | _ => b end) = b)
      by (intros; destruct (st s); try reflexivity; congruence).
    rewrite E. clear E.
    destruct (cur r) as [|b w].
    + destruct (later r); [destruct (fin r)|]; cbn [fst end_item]; unfold step;
        destruct (st s); try congruence; eauto.
    + destruct (split_lf (b :: w)) as [[l rest]|]; cbn [fst]; apply progress; assumption.
Qed.

Lemma run_reader_quit f c o s r : st s = QUIT -> run_reader f c o s r = ([], [], s).
Proof. intros H. destruct f; cbn [run_reader]; [reflexivity|]. rewrite H. reflexivity. Qed.

Theorem net_never_stuck : forall f c o s r,
  Inv c s -> (weight r + 2 <= f)%nat ->
  st (snd (run_reader f c o s r)) = QUIT.
Proof.
  induction f as [|f IH]; intros c o s r HI Hf; [lia|].
  cbn [run_reader].
  destruct (sstate_eqb (st s) QUIT) eqn:Eq.
  - assert (Es : st s = QUIT) by (destruct (st s); try discriminate; reflexivity). rewrite Es. exact Es.
  - assert (Hq : st s <> QUIT) by (intro E; rewrite E in Eq; discriminate).
    destruct (next_item_net_fits c o s r HI Hq) as (s' & rp & d & E).
    assert (Goal : st (snd (let '(it, r') := next_item_net o s r in
                             match step c s it with
                             | Ok s'0 r0 d0 => let '(its, tr, sf) := run_reader f c o s'0 r' in (it :: its, (it, r0, d0) :: tr, sf)
                             | _ => ([], [], s)
                             end)) = QUIT).
    { pose proof (next_item_net_progress c o s r s' rp d Hq E) as Hp.
      destruct (next_item_net o s r) as [it r'] eqn:N. cbn [fst snd] in *. rewrite E.
      assert (HI' : Inv c s') by (eapply step_inv; eauto).
      destruct Hp as [Q|Hw].
      - rewrite (run_reader_quit f c o s' r' Q). exact Q.
      - specialize (IH c o s' r' HI' ltac:(lia)).
        destruct (run_reader f c o s' r') as [[its tr] sf]. exact IH. }
    destruct (st s); try congruence; exact Goal.
Qed.

Theorem net_session_always_ends : forall c o chunks f,
  st (snd (run_net c o chunks f)) = QUIT.
Proof.
  intros c o chunks f. unfold run_net.
  destruct chunks as [|w ws]; apply net_never_stuck; try apply inv_init;
    unfold weight; cbn [cur later total_len fold_right length]; lia.
Qed.

(** ** How the connection ends changes nothing in the store *)
Definition with_fin (r : reader) (f : fin_kind) : reader := {| cur := cur r; later := later r; fin := f |}.

Lemma next_item_net_fin o s r :
  (exists it r', forall f, next_item_net o s (with_fin r f) = (it, with_fin r' f)) \/
  (forall f, exists it, fst (next_item_net o s (with_fin r f)) = it /\
             (it = Eof \/ it = Idle \/ it = ConnErr \/ it = B PEof \/ it = B PIdle)).
Proof.
  unfold next_item_net, with_fin, spent. cbn [cur later fin].
  destruct (sstate_eqb (st s) DATA) eqn:Ed.
  - assert (Es : st s = DATA) by (destruct (st s); try discriminate; reflexivity). rewrite Es.
    destruct (dec BeginLine (cur r)) as [[b rest]|].
    + left. exists (block_item o b), {| cur := rest; later := later r; fin := fin r |}. reflexivity.
    + right. intros f. destruct (later r); eexists; (split; [reflexivity|]); cbn [fst];
        [apply (end_payload_cases f); reflexivity|auto].
  - destruct (st s) eqn:Es; try discriminate Ed;
      (destruct (cur r) as [|b w];
       [right; intros f; destruct (later r); eexists; (split; [reflexivity|]); cbn [fst];
          [apply end_item_cases|auto]
       |left; destruct (split_lf (b :: w)) as [[l rest]|];
          [exists (L (classify o (drop_last_cr l))), {| cur := rest; later := later r; fin := fin r |}; reflexivity
          |destruct (later r) as [|w' ws];
             [exists (L (classify o (b :: w))), {| cur := []; later := []; fin := fin r |}; reflexivity
             |exists (L (classify o (b :: w))), {| cur := w'; later := ws; fin := fin r |}; reflexivity]]]).
Qed.

Lemma run_reader_end_nothing f c o s r it :
  fst (next_item_net o s r) = it ->
  (it = Eof \/ it = Idle \/ it = ConnErr \/ it = B PEof \/ it = B PIdle) ->
  deliveries_of (snd (fst (run_reader (S f) c o s r))) = [].
Proof.
  intros Hn Hit. cbn [run_reader].
  assert (G : deliveries_of (snd (fst (let '(it, r') := next_item_net o s r in
                match step c s it with
                | Ok s' rp d => let '(its, tr, sf) := run_reader f c o s' r' in (it :: its, (it, rp, d) :: tr, sf)
                | _ => ([], [], s)
                end))) = []).
  { destruct (next_item_net o s r) as [it0 r'] eqn:N. cbn [fst] in Hn. subst it0.
    destruct (step c s it) as [s' rp d| |] eqn:E; try reflexivity.
    destruct (step_end_quits c s it s' rp d Hit E) as [Q ->].
    rewrite (run_reader_quit f c o s' r' Q). reflexivity. }
  destruct (st s); try reflexivity; exact G.
Qed.

Lemma run_reader_fin : forall fuel c o s r f1 f2,
  deliveries_of (snd (fst (run_reader fuel c o s (with_fin r f1)))) =
  deliveries_of (snd (fst (run_reader fuel c o s (with_fin r f2)))).
Proof.
  induction fuel as [|f IH]; intros c o s r f1 f2; [reflexivity|].
  destruct (next_item_net_fin o s r) as [(it & r' & Hs)|He].
  - cbn [run_reader]. rewrite (Hs f1), (Hs f2).
    destruct (st s); try reflexivity;
      (destruct (step c s it) as [s' rp d| |]; try reflexivity;
       specialize (IH c o s' r' f1 f2);
       destruct (run_reader f c o s' (with_fin r' f1)) as [[its1 tr1] sf1];
       destruct (run_reader f c o s' (with_fin r' f2)) as [[its2 tr2] sf2];
       cbn [fst snd] in *; unfold deliveries_of in *; cbn [map concat]; rewrite IH; reflexivity).
  - destruct (He f1) as (it1 & H1 & C1). destruct (He f2) as (it2 & H2 & C2).
    rewrite (run_reader_end_nothing f c o s _ it1 H1 C1), (run_reader_end_nothing f c o s _ it2 H2 C2).
    reflexivity.
Qed.

Theorem how_it_ends_is_irrelevant : forall c o chunks f1 f2,
  deliveries_of (snd (fst (run_net c o chunks f1))) = deliveries_of (snd (fst (run_net c o chunks f2))).
Proof.
  intros c o chunks f1 f2. unfold run_net. destruct chunks as [|w ws].
  - apply (run_reader_fin 2 c o init {| cur := []; later := []; fin := FEof |} f1 f2).
  - apply (run_reader_fin _ c o init {| cur := w; later := ws; fin := FEof |} f1 f2).
Qed.

(** ** An uninterrupted connection closed by the client is the byte stream of Model/SmtpWire *)
Lemma run_reader_stream : forall fuel c o s w,
  run_reader fuel c o s {| cur := w; later := []; fin := FEof |} = run_stream fuel c o s w.
Proof.
  induction fuel as [|f IH]; intros c o s w; [reflexivity|]. cbn [run_reader run_stream].
  assert (N : next_item_net o s {| cur := w; later := []; fin := FEof |} =
              (fst (next_item o s w), {| cur := snd (next_item o s w); later := []; fin := FEof |})).
  { unfold next_item_net, next_item, read_line, spent. cbn [cur later fin end_item end_payload].
    destruct (st s);
      try (destruct w as [|b w]; [reflexivity|];
           destruct (split_lf (b :: w)) as [[l rest]|]; reflexivity).
    destruct (dec BeginLine w) as [[b rest]|]; reflexivity. }
  rewrite N. destruct (next_item o s w) as [it rest]. cbn [fst snd].
  destruct (st s); try reflexivity;
    (destruct (step c s it) as [s' rp d| |]; try reflexivity; rewrite IH; reflexivity).
Qed.

Theorem net_single_is_bytes : forall c o w, run_net c o [w] FEof = run_bytes c o w.
Proof.
  intros c o w. unfold run_net, run_bytes. rewrite run_reader_stream.
  apply fuel_irrelevant; cbn [total_len fold_right length]; lia.
Qed.

(** A client that sends any prefix of a stream and then goes silent (or whose connection breaks)
    leaves behind a prefix of what the whole stream would have stored: silence is a disconnect. *)
Theorem silent_client_is_cut : forall c o w k f,
  exists rest,
    deliveries_of (snd (fst (run_bytes c o w))) =
    deliveries_of (snd (fst (run_net c o [firstn k w] f))) ++ rest.
Proof.
  intros c o w k f. rewrite (how_it_ends_is_irrelevant c o [firstn k w] f FEof), net_single_is_bytes.
  apply cut_prefix.
Qed.

Example pause_at_line_boundary_ends_session :
  let o := {| t_mail := []; t_rcpt := []; t_mail_hook := []; t_rcpt_hook := []; t_hdr := []; t_msg_hook := [] |} in
  let c := {| pol := {| def_accept := true; accept_l := []; reject_l := [];
                        def_store := true; store_l := []; discard_l := [];
                        reject_origin_l := [] |}; max_rcpt := 10; max_bytes := 1000; tls_enabled := false |} in
  (* NOOP, a pause at the line boundary: 250, then 221 and the rest is never read *)
  map (fun e => snd (fst e)) (snd (fst (run_net c o [[78;79;79;80;13;10]; [78;79;79;80;13;10]] FEof)))
  = [[(250%Z, false)]; [(221%Z, false)]].
Proof. vm_compute. reflexivity. Qed.

(** ** Writes that fail: the session stops after the iteration in which a reply could not be
    written; what it did until then is a session on a prefix of the items. *)
Lemma run_firstn c : forall items s n,
  fst (run c s (firstn n items)) = firstn n (fst (run c s items)).
Proof.
  induction items as [|it items IH]; intros s n; [destruct n; reflexivity|].
  destruct n as [|n]; [reflexivity|]. cbn [firstn run].
  destruct (step c s it) as [s' r d| |]; try reflexivity.
  specialize (IH s' n).
  destruct (run c s' (firstn n items)) as [tr1 e1]. destruct (run c s' items) as [tr2 e2].
  cbn [fst firstn] in *. rewrite IH. reflexivity.
Qed.

Lemma forallb_firstn {A} (p : A -> bool) n l : forallb p l = true -> forallb p (firstn n l) = true.
Proof.
  revert l; induction n as [|n IH]; intros [|x l] H; cbn in *; try reflexivity.
  apply andb_true_iff in H as [H1 H2]. rewrite H1, (IH _ H2). reflexivity.
Qed.

(** The transcript of the iterations that ran is the item-level run on the items they consumed. *)
Lemma run_net_w_run c o chunks f wl :
  let '(its, tr, _) := run_net_w c o chunks f wl in fst (run c init its) = tr.
Proof.
  unfold run_net_w.
  assert (H : let '(its, tr, _) := run_net c o chunks f in fst (run c init its) = tr).
  { unfold run_net. destruct chunks as [|w ws]; apply run_reader_run. }
  destruct (run_net c o chunks f) as [[its tr] sf].
  destruct wl as [[|b]|]; cbn; [reflexivity| |exact H].
  rewrite run_firstn, H. reflexivity.
Qed.

Lemma run_net_quiet c o chunks f : no_extension o ->
  forallb quiet_item (fst (fst (run_net c o chunks f))) = true.
Proof. intros H. unfold run_net. destruct chunks as [|w ws]; apply run_reader_quiet; exact H. Qed.

(** C01/C03 when writes fail: the store still holds exactly what the dialogue - as far as the
    session got - entitles it to. *)
Theorem write_failure_store_is_entitled : forall c o chunks f wl, no_extension o ->
  let tr := snd (fst (run_net_w c o chunks f wl)) in
  deliveries_of tr = entitled c None [] [] (dialogue tr).
Proof.
  intros c o chunks f wl H.
  pose proof (run_net_w_run c o chunks f wl) as Hr.
  pose proof (run_net_quiet c o chunks f H) as Hq.
  unfold run_net_w in *.
  destruct (run_net c o chunks f) as [[its tr] sf]. cbn [fst] in Hq.
  destruct wl as [[|b]|]; cbn [fst snd] in *.
  - reflexivity.
  - rewrite <- Hr. apply delivery_exact, quiet_all_sane, forallb_firstn, Hq.
  - rewrite <- Hr. apply delivery_exact, quiet_all_sane, Hq.
Qed.

Lemma deliveries_of_app (a b : list entry) : deliveries_of (a ++ b) = deliveries_of a ++ deliveries_of b.
Proof. unfold deliveries_of. rewrite map_app, concat_app. reflexivity. Qed.
Lemma replies_of_app (a b : list entry) : replies_of (a ++ b) = replies_of a ++ replies_of b.
Proof. unfold replies_of. rewrite map_app, concat_app. reflexivity. Qed.

(** Failing writes only cut the session short: deliveries and the replies the client receives
    are prefixes of those of the same connection with working writes. *)
Theorem write_failure_is_cut : forall c o chunks f wl,
  exists rest,
    deliveries_of (snd (fst (run_net c o chunks f))) =
    deliveries_of (snd (fst (run_net_w c o chunks f wl))) ++ rest.
Proof.
  intros c o chunks f wl. unfold run_net_w.
  destruct (run_net c o chunks f) as [[its tr] sf]. cbn [fst snd].
  destruct wl as [[|b]|]; cbn [fst snd].
  - exists (deliveries_of tr). reflexivity.
  - exists (deliveries_of (skipn (iterations_run b tr) tr)).
    rewrite <- deliveries_of_app, firstn_skipn. reflexivity.
  - exists []. rewrite app_nil_r. reflexivity.
Qed.

Theorem write_failure_replies_prefix : forall c o chunks f wl,
  exists rest,
    replies_of (snd (fst (run_net c o chunks f))) = snd (run_net_w c o chunks f wl) ++ rest.
Proof.
  intros c o chunks f wl. unfold run_net_w.
  destruct (run_net c o chunks f) as [[its tr] sf]. cbn [fst snd].
  destruct wl as [[|b]|]; cbn [fst snd].
  - exists (replies_of tr). reflexivity.
  - set (n := iterations_run b tr).
    exists (skipn b (replies_of (firstn n tr)) ++ replies_of (skipn n tr)).
    rewrite app_assoc, firstn_skipn, <- replies_of_app, firstn_skipn. reflexivity.
  - exists []. rewrite app_nil_r. reflexivity.
Qed.

(** A 354 that cannot be written does not keep the block from being read and delivered. *)
Example failing_354_still_delivers :
  iterations_run 3
    [(L (Helo [104]), [(250%Z, false)], []); (L (Mail MBadSyntax NoAns), [(250%Z, false)], []);
     (L (Rcpt RBadSyntax NoAns), [(250%Z, false)], []); (L (DataC true), [(354%Z, false)], []);
     (B (PBlock [] None None), [(250%Z, false)], []); (L Quit, [(221%Z, false)], [])] = 5%nat.
Proof. reflexivity. Qed.

(** C02 — "every read interface returns the same bytes", composed over ONE abstract store:
    what the REST model (C14, Model/Rest.v), the web-UI handlers of the same model and the POP3
    model over the same store (C13, Model/Pop3Store.v) say about the content of a live message.

    StoreSpec keeps a message's content behind a tag; [content tag] are the bytes Source() yields.
    For a live message e of mailbox mb:
      - Store.GetMessage(mb, id) answers (e_k e, e_msg e)                       [store_source]
      - REST  GET /api/v1/mailbox/<name>/<id>/source answers 200 with PSrc (e_k e, e_msg e)
      - web-UI GET /serve/mailbox/<name>/<id>/source answers the same, neither changes the store
      - the POP3 view of the same store holds, at the same position of the same mailbox, the
        message whose source is content (m_tag (e_msg e)); a session logged in on that mailbox
        RETRs exactly pop3_send of these bytes, which the client decodes to their CRLF
        normalisation (C02's POP3 clause), and announces their length.
    What remains outside: the HTTP / POP3 transport glue (net/http writing PSrc's bytes, the
    line reader), which the differential run of C02 covers. *)
From Coq Require Import List NArith ZArith Lia Sorted.
From IV Require Import Base.Bytes Base.BytesFacts Model.StoreSpec Proofs.StoreSpecFacts Proofs.StoreSpecRefine.
From IV Require Model.Rest Proofs.RestConv Model.Pop3Wire Model.Pop3 Model.Pop3Store Proofs.Pop3Wire Proofs.Pop3More Proofs.Pop3Store.
Import ListNotations.
Local Open Scope nat_scope.

(** A live entry is what its own handle finds. *)
Lemma find_live_entry st mb e : SInv st -> In e (box mb (live st)) ->
  find (is_ent mb (e_k e)) (live st) = Some e.
Proof.
  intros [Hs _] He. rewrite find_box. specialize (Hs mb). revert He Hs.
  induction (box mb (live st)) as [|x sb IH]; intros He Hs; [destruct He|].
  apply StronglySorted_inv in Hs as [Hs1 Hs2]. simpl. destruct He as [->|He].
  - rewrite Nat.eqb_refl. reflexivity.
  - rewrite Forall_forall in Hs2. specialize (Hs2 e He). unfold klt in Hs2.
    assert (Nat.eqb (e_k x) (e_k e) = false) as -> by (apply Nat.eqb_neq; lia). apply IH; assumption.
Qed.

(** Store.GetMessage of a live message. *)
Lemma store_source cfg st mb e : SInv st -> In e (box mb (live st)) ->
  exec_spec cfg st (Get mb (Kth (e_k e))) = (st, OGet (Ok (e_k e, e_msg e)), []).
Proof. intros HI He. cbn [exec_spec find_h]. rewrite (find_live_entry st mb e HI He). reflexivity. Qed.

Section Agree.
Variable mfa : str -> option str.
Variable cfg : scfg.
Variable srcok : str -> nat -> bool.
Variable content : N -> str.

(** REST and web UI. *)
Theorem http_source_handlers st name mb e num body :
  SInv st -> mfa name = Some mb -> In e (box mb (live st)) -> srcok mb (e_k e) = true ->
  Rest.run_handler mfa cfg srcok st Rest.HSrc name (Rest.id_of_k (e_k e)) num body = (st, (Rest.S200, Rest.PSrc (e_k e, e_msg e))) /\
  Rest.run_handler mfa cfg srcok st Rest.USrc name (Rest.id_of_k (e_k e)) num body = (st, (Rest.S200, Rest.PSrc (e_k e, e_msg e))).
Proof.
  intros HI Hn He Hok. unfold Rest.run_handler. rewrite Hn. unfold Rest.st_get.
  rewrite RestConv.handle_of_id_k, (store_source cfg st mb e HI He).
  unfold Rest.with_src, Rest.mgr_get. cbn [Rest.get_res Rest.ans_of_res Rest.ga_msg Rest.ga_err Rest.ga_src fst]. rewrite Hok.
  split; reflexivity.
Qed.

(** The POP3 view of the same store holds the message at the same position of the same mailbox. *)
Theorem pop3_view_holds st mb e i :
  SInv st -> nth_error (box mb (live st)) i = Some e ->
  nth_error (Pop3.mmsgs (Pop3.get_box (Pop3Store.abs content st) mb)) i =
    Some {| Pop3.sid := Pop3Store.id_of_k (e_k e); Pop3.ssrc := content (m_tag (e_msg e)) |}.
Proof.
  intros HI Hn. rewrite (Pop3Store.mmsgs_abs content st mb HI). rewrite nth_error_map, Hn. reflexivity.
Qed.

(** [read_interfaces_agree_on_source]. *)
Theorem read_interfaces_agree_on_source st name mb e i num body :
  SInv st -> mfa name = Some mb -> nth_error (box mb (live st)) i = Some e -> srcok mb (e_k e) = true ->
  let bytes := content (m_tag (e_msg e)) in
  (* the store *)
  exec_spec cfg st (Get mb (Kth (e_k e))) = (st, OGet (Ok (e_k e, e_msg e)), []) /\
  (* REST and web UI: 200, the source of exactly this message, store unchanged *)
  Rest.run_handler mfa cfg srcok st Rest.HSrc name (Rest.id_of_k (e_k e)) num body = (st, (Rest.S200, Rest.PSrc (e_k e, e_msg e))) /\
  Rest.run_handler mfa cfg srcok st Rest.USrc name (Rest.id_of_k (e_k e)) num body = (st, (Rest.S200, Rest.PSrc (e_k e, e_msg e))) /\
  (* POP3: the same store read as the POP3 model's store holds these bytes at the same position … *)
  nth_error (Pop3.mmsgs (Pop3.get_box (Pop3Store.abs content st) mb)) i =
    Some {| Pop3.sid := Pop3Store.id_of_k (e_k e); Pop3.ssrc := bytes |} /\
  (* … and any session that logged in on this mailbox while the store was in this state RETRs
     exactly pop3_send of them (for the file flavour: while the message is still there), announces
     their length, and the client decodes them to their CRLF normalisation *)
  (forall fl w ev evs a,
     Pop3.w_store w = Pop3Store.abs content st ->
     Pop3.s_state (Pop3.w_sess w) = Pop3.Auth ->
     Pop3.s_state (Pop3.w_sess (Pop3.wstep fl w ev)) = Pop3.Trans ->
     let w2 := Pop3.run fl (Pop3.wstep fl w ev) evs in
     Pop3.s_state (Pop3.w_sess w2) = Pop3.Trans ->
     Pop3.s_user (Pop3.w_sess w2) = mb ->
     Pop3.msg_index (Pop3.w_sess w2) a = Some i ->
     fl = Pop3.Mem \/ Pop3.has_msg (Pop3.w_store w2) mb (Pop3Store.id_of_k (e_k e)) = true ->
     exists r, Pop3.step fl (Pop3.w_store w2) (Pop3.w_sess w2) (Pop3.CCmd Pop3.RETR [a]) = (Pop3.w_sess w2, r, Pop3.w_store w2) /\
               Pop3.r_ok r = true /\ Pop3.r_nums r = [Z.of_N (Pop3.lenN bytes)] /\
               Pop3.r_body r = Pop3.BWire (Pop3Wire.pop3_send bytes) /\
               Pop3Wire.pop3_client_decode (Pop3Wire.pop3_send bytes) = Some (Pop3Wire.pop3_norm bytes)) /\
  (* sizes: if the delivery recorded the length of its bytes (as every store does), the size the
     REST listing and POP3 LIST/STAT show is the length of the bytes all interfaces deliver *)
  (m_size (e_msg e) = Pop3.lenN bytes ->
     Pop3.p_size (Pop3Store.snap_of_view content (view_of e)) = Pop3.lenN bytes /\ m_size (snd (view_of e)) = Pop3.lenN bytes).
Proof.
  intros HI Hn Hi Hok bytes.
  assert (He : In e (box mb (live st))) by (eapply nth_error_In; exact Hi).
  split; [apply store_source; assumption|].
  destruct (http_source_handlers st name mb e num body HI Hn He Hok) as [H1 H2].
  split; [exact H1|]. split; [exact H2|]. split; [apply pop3_view_holds; assumption|]. split.
  - intros fl w ev evs a Hst Ha Ht w2 Hf Hu Hidx Hfl.
    pose proof (pop3_view_holds st mb e i HI Hi) as Hv. rewrite <- Hst, <- Hu in Hv.
    assert (Hfl' : fl = Pop3.Mem \/ Pop3.has_msg (Pop3.w_store w2) (Pop3.s_user (Pop3.w_sess w2))
                                     (Pop3.sid {| Pop3.sid := Pop3Store.id_of_k (e_k e); Pop3.ssrc := bytes |}) = true).
    { rewrite Hu. exact Hfl. }
    destruct (Pop3More.retr_is_login_source fl w ev evs a i _ Ha Ht Hf Hidx Hv Hfl') as [r [R1 [R2 [R3 [R4 R5]]]]].
    exists r. cbn [Pop3.ssrc] in *. repeat split; assumption.
  - intros Hsz. unfold Pop3Store.snap_of_view, view_of. cbn. split; exact Hsz.
Qed.
End Agree.

(** An instance on a concrete store: two mailboxes, three deliveries, one removal. *)
Definition ia_content (tag : N) : str := [65%N; (48 + tag)%N; 10%N; 66%N].     (* "A<tag>\nB": a bare LF, no final newline *)
Definition ia_cfg : scfg := {| c_cap := 0; c_max := 0%N |}.
Definition ia_ops : list op :=
  [Add [97%N] 1%Z 1%N 4%N; Add [98%N] 2%Z 2%N 4%N; Add [97%N] 3%Z 3%N 4%N; Remove [97%N] (Kth 0)].
Definition ia_st : spec_store := final_spec ia_cfg spec_init ia_ops.
Definition ia_e : entry := {| e_mb := [97%N]; e_k := 1; e_msg := {| m_date := 3%Z; m_tag := 3%N; m_size := 4%N; m_seen := false |} |}.

Example interfaces_agree_instance :
  nth_error (box [97%N] (live ia_st)) 0 = Some ia_e /\
  Rest.run_handler (fun n => Some n) ia_cfg (fun _ _ => true) ia_st Rest.HSrc [97%N] (Rest.id_of_k 1) [] Rest.BTrue
    = (ia_st, (Rest.S200, Rest.PSrc (1, e_msg ia_e))) /\
  Rest.run_handler (fun n => Some n) ia_cfg (fun _ _ => true) ia_st Rest.USrc [97%N] (Rest.id_of_k 1) [] Rest.BTrue
    = (ia_st, (Rest.S200, Rest.PSrc (1, e_msg ia_e))) /\
  map Pop3.ssrc (Pop3.mmsgs (Pop3.get_box (Pop3Store.abs ia_content ia_st) [97%N])) = [ia_content 3%N] /\
  Pop3Wire.pop3_client_decode (Pop3Wire.pop3_send (ia_content 3%N)) = Some [65%N; 51%N; 13%N; 10%N; 66%N; 13%N; 10%N] /\
  m_size (e_msg ia_e) = Pop3.lenN (ia_content 3%N).
Proof. vm_compute. repeat split; reflexivity. Qed.

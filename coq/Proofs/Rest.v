(** Proofs about the handler layer of [Model/Rest.v] (C14): no handler panics on an answer a
    store can give, a missing message is answered 404, and every handler returns exactly what
    the specification ([spec_handler]) says. *)
From Coq Require Import ZifyN ZifyNat ZifyBool.
From IV Require Import Base.Bytes Base.BytesFacts Model.StoreSpec Model.Rest.
Open Scope N_scope.

(* ------------------------------------------------------------------ store answers *)

Lemma ans_of_res_wf r : ans_wf (ans_of_res r) = true.
Proof. destruct r; reflexivity. Qed.

(** StoreManager never turns a well-formed store answer into (nil, nil). *)
Lemma mgr_get_wf a : ans_wf a = true -> mgr_get a <> (None, ENil).
Proof.
  destruct a as [m e s]. unfold ans_wf, mgr_get. cbn [ga_msg ga_err ga_src].
  destruct m, e, s; intros H; try discriminate; intros E; discriminate.
Qed.

Lemma mgr_get_res r :
  mgr_get (ans_of_res r) = match r with Ok v => (Some v, ENil) | NotExist => (None, ENotExist) | Err => (None, EOther) end.
Proof. destruct r; reflexivity. Qed.

(** The six handlers that look a message up, as functions of the store's answer. *)
Definition lookup_resps (mb rid : str) (num : N) (a : get_ans) : list resp :=
  let r := mgr_get a in
  [h_show mb rid r; h_uimsg mb r; h_src r; h_uihtml r; h_uisrc r; h_uiatt num r].

Lemma lookup_no_panic mb rid num a r :
  ans_wf a = true -> In r (lookup_resps mb rid num a) -> fst r <> SPanic.
Proof.
  intros W. pose proof (mgr_get_wf a W) as NN.
  unfold lookup_resps. destruct (mgr_get a) as [[v|] e] eqn:E.
  - destruct e; cbn [In h_show h_uimsg h_src h_uihtml h_uisrc h_uiatt];
      intros [<-|[<-|[<-|[<-|[<-|[<-|[]]]]]]]; cbn [fst]; try discriminate.
    destruct (num <? att_count (m_tag (snd v))); discriminate.
  - destruct e; [congruence| |];
      cbn [In h_show h_uimsg h_src h_uihtml h_uisrc h_uiatt];
      intros [<-|[<-|[<-|[<-|[<-|[<-|[]]]]]]]; cbn [fst]; discriminate.
Qed.

(** The guard is needed: on the (nil, nil) answer the memory store gave before fix 0003 the
    three web-UI handlers that use the message dereference nil. *)
Example nilnil_panics :
  let a := {| ga_msg := None; ga_err := ENil; ga_src := true |} in
  ans_wf a = false /\ fst (h_uihtml (mgr_get a)) = SPanic /\ fst (h_uisrc (mgr_get a)) = SPanic
  /\ fst (h_uiatt 0 (mgr_get a)) = SPanic /\ fst (h_show [] [] (mgr_get a)) = S404.
Proof. repeat split. Qed.

Lemma h_unit_no_panic e : fst (h_unit e) <> SPanic.
Proof. destruct e; discriminate. Qed.
Lemma h_purge_no_panic e : fst (h_purge e) <> SPanic.
Proof. destruct e; discriminate. Qed.

Section Srv.
Variable mfa : str -> option str.
Variable cfg : scfg.
Variable srcok : str -> nat -> bool.
Variable base : list str.

Lemma st_get_wf st mb id : ans_wf (st_get cfg srcok st mb id) = true.
Proof. unfold st_get. destruct (exec_spec cfg st (Get mb (handle_of_id id))) as [[s o] e]. apply ans_of_res_wf. Qed.

Lemma run_handler_no_panic st h name id num body :
  fst (snd (run_handler mfa cfg srcok st h name id num body)) <> SPanic.
Proof.
  unfold run_handler. destruct (mfa name) as [mb|]; [|discriminate].
  assert (L : forall n r, In r (lookup_resps mb id n (st_get cfg srcok st mb id)) -> fst r <> SPanic)
    by (intros n r; apply lookup_no_panic, st_get_wf).
  destruct h.
  - destruct (exec_spec cfg st (Lst mb)) as [[s o] e]. discriminate.
  - destruct (exec_spec cfg st (Purge mb)) as [[s o] e]. apply h_purge_no_panic.
  - apply (L 0). unfold lookup_resps; cbn [In]; auto.
  - destruct body; try discriminate.
    destruct (exec_spec cfg st (Seen mb (lit_handle id))) as [[s o] e]. apply h_unit_no_panic.
  - destruct (exec_spec cfg st (Remove mb (lit_handle id))) as [[s o] e]. apply h_unit_no_panic.
  - apply (L 0). unfold lookup_resps; cbn [In]; auto.
  - apply (L 0). unfold lookup_resps; cbn [In]; auto.
  - apply (L 0). unfold lookup_resps; cbn [In]; auto 6.
  - apply (L 0). unfold lookup_resps; cbn [In]; auto 7.
  - destruct (parse_uint32 num) as [n|]; [|discriminate].
    apply (L n). unfold lookup_resps; cbn [In]; auto 8.
Qed.

Lemma dispatch_no_panic st m body r : fst (snd (dispatch mfa cfg srcok st m body r)) <> SPanic.
Proof. destruct r; cbn [dispatch]; try discriminate. apply run_handler_no_panic. Qed.

Lemma serve_no_panic st rq : fst (snd (serve mfa cfg srcok base st rq)) <> SPanic.
Proof.
  unfold serve. destruct (unescape (rq_path rq)) as [p|]; [|discriminate].
  destruct (negb (str_eqb (clean_path p) p)); [discriminate|].
  destruct (split_on slash p) as [|[|c s] segs]; try discriminate.
  apply dispatch_no_panic.
Qed.

Lemma client_send_no_panic cbase st m uri body :
  fst (snd (client_send mfa cfg srcok base cbase st m uri body)) <> SPanic.
Proof.
  unfold client_send.
  destruct (serve mfa cfg srcok base st _) as [st1 [s p]] eqn:E.
  assert (s <> SPanic) by (pose proof (serve_no_panic st {| rq_meth := m; rq_path := client_wire cbase uri; rq_body := body |}) as H; rewrite E in H; exact H).
  destruct s; try (cbn [snd fst]; assumption); try discriminate.
  destruct p; try discriminate. apply serve_no_panic.
Qed.

(** Histories: no step of any history of deliveries, raw requests and client calls yields a
    panic outcome. *)
Fixpoint hrun (cbase : str) (st : spec_store) (ops : list hop) : list hout :=
  match ops with
  | [] => []
  | o :: r => let '(st', out) := hstep mfa cfg srcok base cbase st o in out :: hrun cbase st' r
  end.

Lemma hrun_no_panic cbase ops : forall st p, ~ In (OResp (SPanic, p)) (hrun cbase st ops).
Proof.
  induction ops as [|o r IH]; intros st p; cbn [hrun In]; [tauto|].
  destruct (hstep mfa cfg srcok base cbase st o) as [st' out] eqn:E. cbn [In]. intros [H|H]; [|eapply IH; eauto].
  subst out. destruct o; cbn [hstep] in E.
  - destruct (exec_spec cfg st (Add mb date tag size)) as [[s ob] ev]. discriminate.
  - pose proof (serve_no_panic st rq) as N. destruct (serve mfa cfg srcok base st rq) as [s r0]. inversion E; subst. apply N. reflexivity.
  - destruct (client_do mfa cfg srcok base cbase st op). discriminate.
  - pose proof (serve_no_panic st rq) as N. destruct (serve mfa cfg srcok base st rq) as [s r0]. inversion E; subst. apply N. reflexivity.
Qed.

(* ------------------------------------------------------------------ missing ⇒ 404 *)

(** The requests that name ONE message (a PATCH must ask for seen=true, an attachment request
    must carry a number). *)
Definition addresses_message (h : hid) (body : bodyk) (num : str) : bool :=
  match h with
  | HList | HPurge => false
  | HSeen => match body with BTrue => true | _ => false end
  | UAtt => match parse_uint32 num with Some _ => true | None => false end
  | _ => true
  end.

Lemma spec_get_exec st mb id :
  exec_spec cfg st (Get mb (handle_of_id id)) =
  (st, OGet (spec_get cfg st mb id), []).
Proof.
  unfold spec_get. destruct (handle_of_id id); reflexivity.
Qed.

Lemma st_get_spec st mb id : st_get cfg srcok st mb id = with_src srcok mb (ans_of_res (spec_get cfg st mb id)).
Proof. unfold st_get. rewrite spec_get_exec. reflexivity. Qed.

Lemma res_of_find_notexist o : res_of_find o = NotExist -> o = None.
Proof. destruct o; [discriminate|reflexivity]. Qed.

Lemma missing_lit st mb id :
  spec_get cfg st mb id = NotExist -> find_h mb (lit_handle id) (live st) = None.
Proof.
  unfold spec_get, lit_handle. destruct (handle_of_id id) eqn:H; cbn [exec_spec get_res find_h]; intros E; try reflexivity.
  apply res_of_find_notexist in E. exact E.
Qed.

Lemma missing_is_404_handler st h name id num body mb :
  mfa name = Some mb -> spec_get cfg st mb id = NotExist -> addresses_message h body num = true ->
  run_handler mfa cfg srcok st h name id num body = (st, (S404, PNone)).
Proof.
  intros M G A. unfold run_handler. rewrite M.
  pose proof (missing_lit st mb id G) as F.
  destruct h; cbn [addresses_message] in A; try discriminate;
    rewrite ?st_get_spec, ?G; cbn [with_src ans_of_res mgr_get ga_err ga_msg ga_src h_show h_src h_uimsg h_uihtml h_uisrc]; try reflexivity.
  - destruct body; try discriminate. cbn [exec_spec]. rewrite F. reflexivity.
  - cbn [exec_spec]. rewrite F. reflexivity.
  - destruct (parse_uint32 num); [|discriminate]. reflexivity.
Qed.

(* ------------------------------------------------------------------ handlers = specification *)

Lemma seen_cases st mb h :
  (exists e, find_h mb h (live st) = Some e /\
     exec_spec cfg st (Seen mb h) = ({| live := set_seen mb (e_k e) (live st); counts := counts st |}, OUnit (Ok tt), []))
  \/ (find_h mb h (live st) = None /\ exec_spec cfg st (Seen mb h) = (st, OUnit NotExist, [])).
Proof. cbn [exec_spec]. destruct (find_h mb h (live st)) as [e|]; [left; exists e; auto | right; auto]. Qed.

Lemma handler_meets_spec st h name id num body out :
  spec_handler mfa cfg srcok st h name id num body = Some out ->
  run_handler mfa cfg srcok st h name id num body = out.
Proof.
  unfold spec_handler, run_handler. destruct (mfa name) as [mb|]; [|discriminate].
  rewrite ?st_get_spec.
  destruct h.
  - destruct (exec_spec cfg st (Lst mb)) as [[s o] e]. intros H; inversion H; reflexivity.
  - cbn [exec_spec unit_res err_of_res h_purge]. intros H; inversion H; reflexivity.
  - destruct (spec_get cfg st mb id) as [v| |]; cbn [with_src ans_of_res mgr_get ga_err ga_msg ga_src h_show]; try destruct (srcok mb (fst v)); intros H; inversion H; reflexivity.
  - destruct body; try discriminate. cbn [exec_spec].
    destruct (find_h mb (lit_handle id) (live st)); cbn [unit_res err_of_res h_unit]; intros H; inversion H; reflexivity.
  - cbn [exec_spec].
    destruct (find_h mb (lit_handle id) (live st)); cbn [unit_res err_of_res h_unit]; intros H; inversion H; reflexivity.
  - destruct (spec_get cfg st mb id) as [v| |]; cbn [with_src ans_of_res mgr_get ga_err ga_msg ga_src h_src]; try destruct (srcok mb (fst v)); intros H; inversion H; reflexivity.
  - destruct (spec_get cfg st mb id) as [v| |]; cbn [with_src ans_of_res mgr_get ga_err ga_msg ga_src h_uimsg]; try destruct (srcok mb (fst v)); intros H; inversion H; reflexivity.
  - destruct (spec_get cfg st mb id) as [v| |]; cbn [with_src ans_of_res mgr_get ga_err ga_msg ga_src h_uihtml]; try destruct (srcok mb (fst v)); intros H; inversion H; reflexivity.
  - destruct (spec_get cfg st mb id) as [v| |]; cbn [with_src ans_of_res mgr_get ga_err ga_msg ga_src h_uisrc]; try destruct (srcok mb (fst v)); intros H; inversion H; reflexivity.
  - destruct (parse_uint32 num) as [n|]; [|discriminate].
    destruct (spec_get cfg st mb id) as [v| |]; cbn [with_src ans_of_res mgr_get ga_err ga_msg ga_src h_uiatt]; try destruct (srcok mb (fst v)); intros H; inversion H; reflexivity.
Qed.

(** A message that is in the index but whose content can no longer be opened (removed or lost
    between look-up and open): every handler that needs the content answers 500 — a well-formed
    answer, not a panic — and leaves the store alone; listing, mark-seen, delete and purge do not
    need the content. *)
Definition needs_content (h : hid) (num : str) : bool :=
  match h with
  | HShow | HSrc | UMsg | UHtml | USrc => true
  | UAtt => match parse_uint32 num with Some _ => true | None => false end
  | _ => false
  end.

Lemma content_gone_is_500 st h name id num body mb v :
  mfa name = Some mb -> spec_get cfg st mb id = Ok v -> srcok mb (fst v) = false -> needs_content h num = true ->
  run_handler mfa cfg srcok st h name id num body = (st, (S500, PNone)).
Proof.
  intros M G K A. unfold run_handler. rewrite M.
  destruct h; cbn [needs_content] in A; try discriminate;
    rewrite ?st_get_spec, ?G; cbn [with_src ans_of_res mgr_get ga_err ga_msg ga_src]; rewrite ?K; try reflexivity.
  destruct (parse_uint32 num); [|discriminate]. reflexivity.
Qed.

(** What the specification of the six operations amounts to on the abstract store (so that
    [handler_meets_spec] reads: list/get/source/seen/delete/purge through HTTP = the store's
    own answer). *)
Lemma spec_list_is_box st name mb :
  mfa name = Some mb ->
  spec_handler mfa cfg srcok st HList name [] [] BBad = Some (st, (S200, PList mb (map view_of (box mb (live st))))).
Proof. intros M. unfold spec_handler. rewrite M. reflexivity. Qed.

Lemma spec_purge_empties st name mb :
  mfa name = Some mb ->
  exists st', spec_handler mfa cfg srcok st HPurge name [] [] BBad = Some (st', (S200, POk)) /\
              box mb (live st') = [] /\ forall mb', str_eqb mb mb' = false -> box mb' (live st') = box mb' (live st).
Proof.
  intros M. unfold spec_handler. rewrite M. cbn [exec_spec]. eexists. split; [reflexivity|]. cbn [live]. split.
  - unfold box. induction (live st) as [|e l IH]; [reflexivity|]. cbn [filter].
    destruct (ent_in mb e) eqn:E; cbn [negb filter]; [exact IH|]. rewrite E. exact IH.
  - intros mb' D. unfold box. induction (live st) as [|e l IH]; [reflexivity|]. cbn [filter].
    destruct (ent_in mb e) eqn:E; cbn [negb filter].
    + assert (ent_in mb' e = false) as ->; [|exact IH].
      unfold ent_in in *. apply str_eqb_eq in E. subst.
      destruct (str_eqb mb' (e_mb e)) eqn:E2; [|reflexivity]. apply str_eqb_eq in E2. subst.
      rewrite str_eqb_refl in D. discriminate.
    + destruct (ent_in mb' e); [f_equal|]; exact IH.
Qed.

End Srv.

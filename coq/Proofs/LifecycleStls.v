(** C19: STLS, model side. *)
From IV Require Import Base.Bytes Model.Lifecycle Model.LifecycleStls Proofs.Lifecycle.
Local Open Scope nat_scope.

(** The answer to STLS, and what it does, are the same whether or not shutdown has been requested
    and whether or not the listener is still open: a session that is open can upgrade. *)
Theorem stls_ignores_shutdown :
  forall y i c l,
    step3 (with_flags y c l) (Stls i)
    = match step3 y (Stls i) with Some (y', r) => Some (with_flags y' c l, r) | None => None end.
Proof.
  intros y i c l. cbn [step3 with_flags b3 sv ss tls_configured tls_state upgraded].
  destruct (find_s i (ss (sv (b3 y)))) as [s|]; [|reflexivity].
  destruct (running (ph s)); cbn [negb]; [|reflexivity].
  destruct (in_authorization (ph s)); cbn [negb]; [|reflexivity].
  destruct (tls_configured y); cbn [negb]; [|reflexivity].
  destruct (tls_state y); reflexivity.
Qed.

(** A successful (or refused) STLS leaves every session where it was: whatever the dialogue could
    do next it still can, with the same effect. *)
Theorem stls_keeps_the_dialogue :
  forall y i y' r, step3 y (Stls i) = Some (y', r) -> b3 y' = b3 y.
Proof.
  intros y i y' r E. cbn [step3] in E. destruct (find_s i (ss (sv (b3 y)))) as [s|]; [|discriminate].
  destruct (negb (running (ph s))); [discriminate|]. destruct (negb (in_authorization (ph s))); [inversion E; reflexivity|].
  destruct (negb (tls_configured y)); [inversion E; reflexivity|]. destruct (tls_state y); inversion E; reflexivity.
Qed.

(** STLS is answered +OK only in AUTHORIZATION state, with TLS configured, and only while the
    server's TLS state is still unset. *)
Theorem stls_ok_iff :
  forall y i y' , step3 y (Stls i) = Some (y', Some SOk) <->
    (exists s, find_s i (ss (sv (b3 y))) = Some s /\ in_authorization (ph s) = true /\
               tls_configured y = true /\ tls_state y = false /\
               y' = mkSys3 (b3 y) true true (i :: upgraded y)).
Proof.
  intros y i y'. cbn [step3]. split.
  - destruct (find_s i (ss (sv (b3 y)))) as [s|]; [|discriminate].
    destruct (running (ph s)) eqn:R; cbn [negb]; [|discriminate].
    destruct (in_authorization (ph s)) eqn:A; cbn [negb]; [|discriminate].
    destruct (tls_configured y) eqn:C; cbn [negb]; [|discriminate].
    destruct (tls_state y) eqn:T; [discriminate|]. intros E. inversion E; subst. exists s. auto 10.
  - intros (s & F & A & C & T & ->). rewrite F.
    assert (running (ph s) = true) as -> by (destruct (ph s); cbn in A; try discriminate; reflexivity).
    rewrite A, C, T. reflexivity.
Qed.

(** OBSERVATION about the code (outside the letter of C13/C19, DESIGN 10.3): the TLS state belongs to
    the server. Once one session has upgraded, the flag stays set under every continuation, and every
    later STLS — of whichever session — is refused with "already agreed". *)
Lemma tls_state_stays acts : forall y y' rs, run3 y acts = Some (y', rs) -> tls_state y = true -> tls_state y' = true.
Proof.
  induction acts as [|a t IH]; intros y y' rs R T; cbn [run3] in R.
  - inversion R; subst; auto.
  - destruct (step3 y a) as [[y1 r]|] eqn:E; [|discriminate].
    destruct (run3 y1 t) as [[y2 rs2]|] eqn:R2; [|discriminate]. inversion R; subst y'.
    apply (IH y1 y2 rs2 R2). destruct a as [i|a']; cbn [step3] in E.
    + destruct (find_s i (ss (sv (b3 y)))) as [s|]; [|discriminate].
      destruct (negb (running (ph s))); [discriminate|]. destruct (negb (in_authorization (ph s))); [inversion E; subst; auto|].
      destruct (negb (tls_configured y)); [inversion E; subst; auto|]. rewrite T in E. inversion E; subst; auto.
    + destruct (step (b3 y) a'); [|discriminate]. inversion E; subst. exact T.
Qed.

Theorem stls_once_per_server :
  forall y i y1 acts y2 rs j y3 r,
    step3 y (Stls i) = Some (y1, Some SOk) -> run3 y1 acts = Some (y2, rs) ->
    step3 y2 (Stls j) = Some (y3, Some r) -> r <> SOk.
Proof.
  intros y i y1 acts y2 rs j y3 r E1 R E3.
  assert (T1 : tls_state y1 = true). { apply stls_ok_iff in E1. destruct E1 as (s & _ & _ & _ & _ & ->). reflexivity. }
  pose proof (tls_state_stays acts y1 y2 rs R T1) as T2.
  intro X. subst r. apply stls_ok_iff in E3. destruct E3 as (s & _ & _ & _ & T & _). congruence.
Qed.

(** Non-vacuity: two sessions, shutdown requested, the first upgrades (+OK) and goes on to DELE and
    QUIT with its deletion applied; the second is then refused and goes on in plain text. *)
Example stls_demo :
  exists y rs,
    run3 (sys3_init true)
      [O3 (Accept 1); O3 (Begin 1); O3 (Accept 2); O3 (Begin 2); O3 Cancel; O3 LClose;
       Stls 1; O3 (Client 1 PDele); Stls 2; O3 (Quit 1); O3 (Purge 1); O3 (Exit 1); O3 (Client 2 PPass)] = Some (y, rs) /\
    rs = [SOk; SErrAlready] /\ find_s 1 (ss (sv (b3 y))) = Some (mkS Ended 0 0 true true) /\ upgraded y = [1].
Proof. eexists. eexists. split; [vm_compute; reflexivity|]. repeat split. Qed.

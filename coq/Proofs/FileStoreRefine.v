(** The file-store model refines the abstract store (C07 [file_refines_spec]). *)
From Coq Require Import List Arith Lia Sorted.
From IV Require Import Base.Bytes Base.BytesFacts Model.StoreSpec Model.StoreSpecImpl Model.FileStore
  Proofs.StoreSpecFacts Proofs.StoreSpecRefine.
Import ListNotations.
Local Open Scope nat_scope.

Lemma fid_eqb_eq a b : fid_eqb a b = true <-> a = b.
Proof.
  destruct a as [a1 a2], b as [b1 b2]. unfold fid_eqb. simpl.
  rewrite andb_true_iff, !N.eqb_eq. split; [intros [-> ->]; reflexivity | intros H; inversion H; auto].
Qed.

Definition fdflt : fid := (0, 0)%N.
Definition fidof (iss : issued fid) (mb : str) (k : nat) : fid := nth k (iss_of fid mb iss) fdflt.
Definition frep (iss : issued fid) (mb : str) (sb : list entry) : list (fid * msg) := rep fid (fidof iss mb) sb.

Record RF (st : spec_store) (s : file_store) (iss : issued fid) : Prop := {
  rf_box : forall mb, get_index mb s = frep iss mb (box mb (live st));
  rf_len : forall mb, length (iss_of fid mb iss) = count_of mb (counts st);
  rf_nd : forall mb, NoDup (iss_of fid mb iss);
  rf_names : map fst (fs_boxes s) = map fst (counts st);
  rf_names_nd : NoDup (map fst (counts st)) }.

Lemma fidof_inj iss mb : NoDup (iss_of fid mb iss) ->
  forall a b, a < length (iss_of fid mb iss) -> b < length (iss_of fid mb iss) -> fidof iss mb a = fidof iss mb b -> a = b.
Proof. intros Hnd a b Ha Hb H. eapply NoDup_nth; eauto. Qed.

Lemma handle_of_fidof iss mb k : NoDup (iss_of fid mb iss) -> k < length (iss_of fid mb iss) ->
  handle_of fid fid_eqb iss mb (fidof iss mb k) = k.
Proof.
  intros Hnd Hk. unfold handle_of, fidof. rewrite (index_of_nth fid fid_eqb fid_eqb_eq) by assumption. reflexivity.
Qed.

Section Step.
Variable cfg : scfg.
Hypothesis no_max : c_max cfg = 0%N.

Variables (st : spec_store) (s : file_store) (iss : issued fid).
Hypothesis HR : RF st s iss.
Hypothesis HI : SInv st.

Lemma box_k_lt mb e : In e (box mb (live st)) -> e_k e < length (iss_of fid mb iss).
Proof.
  intros He. apply box_in in He as [He Hm]. rewrite (rf_len _ _ _ HR). destruct HI as [_ H]. specialize (H e He).
  rewrite Hm in H. exact H.
Qed.

Lemma views_ok mb sb : (forall e, In e sb -> In e (box mb (live st))) ->
  map (tr_view fid fid_eqb iss mb) (frep iss mb sb) = map view_of sb.
Proof.
  intros Hsb. unfold frep, rep. rewrite map_map. apply map_ext_in. intros e He.
  unfold tr_view, view_of. simpl. f_equal. apply handle_of_fidof; [apply (rf_nd _ _ _ HR) | apply box_k_lt; auto].
Qed.

Lemma find_h_kth_none mb k : length (iss_of fid mb iss) <= k -> find (is_ent mb k) (live st) = None.
Proof.
  intros Hk. destruct (find (is_ent mb k) (live st)) as [e|] eqn:E; [|reflexivity]. exfalso.
  apply find_some in E as [He Hp]. unfold is_ent in Hp. apply andb_true_iff in Hp as [Hm Hk'].
  apply ent_in_eq in Hm. apply Nat.eqb_eq in Hk'.
  assert (In e (box mb (live st))) as Hb by (apply box_in; auto). apply box_k_lt in Hb. lia.
Qed.

(** GetMessage of an issued id answers what the abstract store answers for the handle. *)
Lemma get_id_ok mb k : k < length (iss_of fid mb iss) ->
  tr_msg fid fid_eqb iss mb (LMsg (file_get s mb (QId (fidof iss mb k)))) = res_of_find (find (is_ent mb k) (live st)).
Proof.
  intros Hk. unfold file_get. rewrite (rf_box _ _ _ HR). unfold fal_find, frep.
  rewrite (rep_find fid fid_eqb fid_eqb_eq (fidof iss mb) (length (iss_of fid mb iss)));
    [| apply fidof_inj; apply (rf_nd _ _ _ HR) | exact Hk | intros e He; apply box_k_lt; exact He].
  rewrite find_box. destruct (find (fun e => Nat.eqb (e_k e) k) (box mb (live st))) as [e|] eqn:E; simpl; [|reflexivity].
  apply find_some in E as [He Hke]. apply Nat.eqb_eq in Hke. unfold tr_view, view_of. simpl.
  rewrite handle_of_fidof; [rewrite Hke; reflexivity | apply (rf_nd _ _ _ HR) | exact Hk].
Qed.

Lemma resolve_kth mb k :
  resolve fid iss mb (Kth k) = if Nat.ltb k (length (iss_of fid mb iss)) then QId (fidof iss mb k) else QBogus.
Proof.
  unfold resolve. destruct (Nat.ltb k (length (iss_of fid mb iss))) eqn:E.
  - apply Nat.ltb_lt in E. rewrite (nth_error_nth' _ fdflt E). reflexivity.
  - apply Nat.ltb_ge in E. rewrite (proj2 (nth_error_None _ _) E). reflexivity.
Qed.

Lemma mb_in_names mb e : In e (box mb (live st)) -> In mb (map fst (fs_boxes s)).
Proof.
  intros He. rewrite (rf_names _ _ _ HR). destruct (in_dec (list_eq_dec N.eq_dec) mb (map fst (counts st))) as [H|H]; [exact H|].
  apply count_zero_notin in H. apply box_k_lt in He. rewrite (rf_len _ _ _ HR) in He. lia.
Qed.

(** A state change that touches only mailbox [mb] and keeps names, counts and the id table. *)
Lemma RF_update mb (L : list (fid * msg)) (l' : list entry) :
  In mb (map fst (fs_boxes s)) ->
  L = frep iss mb (box mb l') ->
  (forall mb', mb' <> mb -> box mb' l' = box mb' (live st)) ->
  RF {| live := l'; counts := counts st |} (set_index mb L s) iss.
Proof.
  intros Hin HL Hother. constructor; simpl.
  - intros mb'. unfold get_index, set_index. simpl. destruct (list_eq_dec N.eq_dec mb' mb) as [->|Hne].
    + rewrite bx_get_set_same. exact HL.
    + rewrite bx_get_set_other by congruence. rewrite Hother by exact Hne. apply (rf_box _ _ _ HR).
  - apply (rf_len _ _ _ HR).
  - apply (rf_nd _ _ _ HR).
  - rewrite bx_set_names_in by exact Hin. apply (rf_names _ _ _ HR).
  - apply (rf_names_nd _ _ _ HR).
Qed.

Definition step_ok (o : op) : Prop :=
  let '(si', ob, evs) := step_impl fid fid_eqb file_store (exec_file cfg) (s, iss) o in
  let '(st', ob', evs') := exec_spec cfg st o in
  ob = ob' /\ evs = evs' /\ RF st' (fst si') (snd si').

Lemma step_get mb h : step_ok (Get mb h).
Proof.
  unfold step_ok. destruct h as [k| |].
  - cbn [step_impl exec_spec find_h]. rewrite resolve_kth.
    destruct (Nat.ltb k (length (iss_of fid mb iss))) eqn:E; cbn [exec_file].
    + apply Nat.ltb_lt in E. cbn [map fst snd]. rewrite get_id_ok by exact E. auto.
    + apply Nat.ltb_ge in E. rewrite find_h_kth_none by exact E. cbn. auto.
  - cbn [step_impl exec_spec resolve exec_file map fst snd]. split; [|auto]. f_equal.
    unfold file_get. rewrite (rf_box _ _ _ HR). unfold frep, rep. rewrite last_opt_map.
    destruct (last_opt (box mb (live st))) as [e|] eqn:E; simpl; [|reflexivity].
    unfold tr_view, view_of. simpl. f_equal. f_equal. apply handle_of_fidof; [apply (rf_nd _ _ _ HR)|].
    apply box_k_lt. clear -E. induction (box mb (live st)) as [|a l IH]; [discriminate|].
    destruct l as [|b l]; [inversion E; left; reflexivity | right; apply IH; exact E].
  - cbn. auto.
Qed.

Lemma step_list mb : step_ok (Lst mb).
Proof.
  unfold step_ok. cbn [step_impl exec_spec exec_file map fst snd]. split; [|auto]. f_equal.
  rewrite (rf_box _ _ _ HR). apply views_ok. auto.
Qed.

Lemma find_id_some mb k e : k < length (iss_of fid mb iss) -> find (is_ent mb k) (live st) = Some e ->
  fal_find (fidof iss mb k) (get_index mb s) = Some (e_msg e) /\ e_k e = k /\ e_mb e = mb /\ In e (box mb (live st)).
Proof.
  intros Hk E. rewrite (rf_box _ _ _ HR). unfold fal_find, frep.
  rewrite (rep_find fid fid_eqb fid_eqb_eq (fidof iss mb) (length (iss_of fid mb iss)));
    [| apply fidof_inj; apply (rf_nd _ _ _ HR) | exact Hk | intros x Hx; apply box_k_lt; exact Hx].
  rewrite <- find_box, E. apply find_some in E as [He Hp]. unfold is_ent in Hp.
  apply andb_true_iff in Hp as [Hm Hk']. apply ent_in_eq in Hm. apply Nat.eqb_eq in Hk'.
  repeat split; auto. apply box_in. auto.
Qed.

Lemma find_id_none mb k : k < length (iss_of fid mb iss) -> find (is_ent mb k) (live st) = None ->
  fal_find (fidof iss mb k) (get_index mb s) = None.
Proof.
  intros Hk E. rewrite (rf_box _ _ _ HR). unfold fal_find, frep.
  rewrite (rep_find fid fid_eqb fid_eqb_eq (fidof iss mb) (length (iss_of fid mb iss)));
    [| apply fidof_inj; apply (rf_nd _ _ _ HR) | exact Hk | intros x Hx; apply box_k_lt; exact Hx].
  rewrite <- find_box, E. reflexivity.
Qed.

Lemma step_seen mb h : step_ok (Seen mb h).
Proof.
  unfold step_ok. destruct h as [k| |]; [|cbn; auto|cbn; auto].
  cbn [step_impl exec_spec find_h]. rewrite resolve_kth.
  destruct (Nat.ltb k (length (iss_of fid mb iss))) eqn:E.
  - apply Nat.ltb_lt in E. cbn [exec_file]. destruct (find (is_ent mb k) (live st)) as [e|] eqn:F.
    + destruct (find_id_some mb k e E F) as [H1 [H2 [H3 H4]]]. rewrite H1. cbn [map fst snd tr_unit].
      split; [reflexivity|]. split; [reflexivity|]. rewrite H2. apply RF_update.
      * eapply mb_in_names; eauto.
      * rewrite box_seen_same. rewrite (rf_box _ _ _ HR). unfold fal_seen, frep.
        apply (rep_seen fid fid_eqb fid_eqb_eq (fidof iss mb) (length (iss_of fid mb iss)));
          [apply fidof_inj; apply (rf_nd _ _ _ HR) | exact E | intros x Hx; apply box_k_lt; exact Hx | apply HI].
      * intros mb' Hne. apply box_seen_other. exact Hne.
    + rewrite (find_id_none mb k E F). cbn. auto.
  - apply Nat.ltb_ge in E. rewrite find_h_kth_none by exact E. cbn. auto.
Qed.

Lemma step_remove mb h : step_ok (Remove mb h).
Proof.
  unfold step_ok. destruct h as [k| |]; [|cbn; auto|cbn; auto].
  cbn [step_impl exec_spec find_h]. rewrite resolve_kth.
  destruct (Nat.ltb k (length (iss_of fid mb iss))) eqn:E.
  - apply Nat.ltb_lt in E. cbn [exec_file]. destruct (find (is_ent mb k) (live st)) as [e|] eqn:F.
    + destruct (find_id_some mb k e E F) as [H1 [H2 [H3 H4]]]. rewrite H1. cbn [map fst snd tr_unit tr_ev].
      split; [reflexivity|]. split.
      { unfold ev_deleted. rewrite H2, H3. rewrite handle_of_fidof; [reflexivity | apply (rf_nd _ _ _ HR) | exact E]. }
      rewrite H2. apply RF_update.
      * eapply mb_in_names; eauto.
      * rewrite box_remove_same. rewrite (rf_box _ _ _ HR). unfold fal_remove, frep.
        apply (rep_remove fid fid_eqb fid_eqb_eq (fidof iss mb) (length (iss_of fid mb iss)));
          [apply fidof_inj; apply (rf_nd _ _ _ HR) | exact E | intros x Hx; apply box_k_lt; exact Hx | apply HI].
      * intros mb' Hne. apply box_remove_other. exact Hne.
    + rewrite (find_id_none mb k E F). cbn. auto.
  - apply Nat.ltb_ge in E. rewrite find_h_kth_none by exact E. cbn. auto.
Qed.

Lemma del_events_ok mb sb : (forall e, In e sb -> In e (box mb (live st))) ->
  map (tr_ev fid fid_eqb iss) (map (fun p : fid * msg => (EDeleted, mb, fst p)) (frep iss mb sb)) = map ev_deleted sb.
Proof.
  intros Hsb. unfold frep, rep. rewrite !map_map. apply map_ext_in. intros e He. simpl.
  specialize (Hsb e He). unfold ev_deleted. pose proof (box_k_lt mb e Hsb) as Hk.
  apply box_in in Hsb as [_ Hm]. rewrite Hm. rewrite handle_of_fidof; [reflexivity | apply (rf_nd _ _ _ HR) | exact Hk].
Qed.

Lemma step_purge mb : step_ok (Purge mb).
Proof.
  unfold step_ok. cbn [step_impl exec_spec exec_file]. cbn [tr_unit]. split; [reflexivity|]. split.
  - rewrite (rf_box _ _ _ HR). apply del_events_ok. auto.
  - cbn [fst snd]. destruct (get_index mb s) as [|p L] eqn:EL.
    + constructor; simpl.
      * intros mb'. destruct (list_eq_dec N.eq_dec mb' mb) as [->|Hne].
        -- rewrite EL, box_purge_same. reflexivity.
        -- rewrite box_purge_other by exact Hne. apply (rf_box _ _ _ HR).
      * apply (rf_len _ _ _ HR).
      * apply (rf_nd _ _ _ HR).
      * apply (rf_names _ _ _ HR).
      * apply (rf_names_nd _ _ _ HR).
    + apply RF_update.
      * rewrite (rf_box _ _ _ HR) in EL. destruct (box mb (live st)) as [|e sb] eqn:EB; [discriminate|].
        apply (mb_in_names mb e). rewrite EB. left; reflexivity.
      * rewrite box_purge_same. reflexivity.
      * intros mb' Hne. apply box_purge_other. exact Hne.
Qed.

Lemma step_visit : step_ok Visit.
Proof.
  unfold step_ok. cbn [step_impl exec_spec exec_file map fst snd]. split; [|auto]. f_equal.
  unfold spec_visit. f_equal.
  transitivity (map (fun n => (n, map view_of (box n (live st)))) (map fst (fs_boxes s))).
  - rewrite map_map. apply map_ext_in. intros [n L] Hin. simpl. f_equal.
    assert (L = get_index n s) as ->.
    { unfold get_index. symmetry. apply bx_get_in; [rewrite (rf_names _ _ _ HR); apply (rf_names_nd _ _ _ HR) | exact Hin]. }
    rewrite (rf_box _ _ _ HR). apply views_ok. auto.
  - rewrite (rf_names _ _ _ HR). rewrite map_map. reflexivity.
Qed.

End Step.

(* ------------------------------------------------------------------ AddMessage *)
Lemma fid_eqb_refl a : fid_eqb a a = true.
Proof. apply fid_eqb_eq. reflexivity. Qed.

Lemma fcap_loop_spec cap : 0 < cap -> forall fuel l ev, length l < fuel ->
  fcap_loop fuel cap l ev = (skipn (length l + 1 - cap) l, ev ++ map fst (firstn (length l + 1 - cap) l)).
Proof.
  intros Hc. induction fuel as [|f IH]; intros l ev Hf; [lia|].
  cbn [fcap_loop]. destruct (Nat.leb cap (length l)) eqn:E.
  - apply Nat.leb_le in E. destruct l as [|[i m] l']; [simpl in E; lia|].
    cbn [fal_remove al_remove]. unfold fal_remove. cbn [al_remove]. rewrite fid_eqb_refl.
    rewrite IH by (simpl in Hf; lia). simpl length.
    replace (S (length l') + 1 - cap) with (S (length l' + 1 - cap)) by (simpl in E; lia).
    cbn [skipn firstn map fst]. rewrite <- app_assoc. reflexivity.
  - apply Nat.leb_gt in E. replace (length l + 1 - cap) with 0 by lia. simpl. rewrite app_nil_r. reflexivity.
Qed.

(** Number of messages the cap evicts when a message is delivered to a mailbox of [len] messages. *)
Definition cap_d (cfg : scfg) (len : nat) : nat := if Nat.eqb (c_cap cfg) 0 then 0 else len + 1 - c_cap cfg.

Definition next_id (cfg : scfg) (s : file_store) (mb : str) : fid :=
  let l0 := get_index mb s in
  let dt := match fs_ticks s with [] => 0%N | d :: _ => d end in
  fst (gen_loop gen_fuel (fs_sec s + dt)%N (fs_ctr s) (skipn (cap_d cfg (length l0)) l0)).

Lemma file_add_char cfg s mb m :
  let l0 := get_index mb s in
  let d := cap_d cfg (length l0) in
  exists s1, file_add cfg s mb m = (s1, LAdd (next_id cfg s mb), map (fun j => (EDeleted, mb, j)) (map fst (firstn d l0))) /\
             fs_boxes s1 = bx_set mb (skipn d l0 ++ [(next_id cfg s mb, m)]) (fs_boxes s).
Proof.
  intros l0 d. unfold file_add, next_id. fold l0. unfold cap_d in *. fold d.
  assert ((if Nat.eqb (c_cap cfg) 0 then (l0, [])
           else fcap_loop (S (length l0)) (c_cap cfg) l0 []) = (skipn d l0, map fst (firstn d l0))) as ->.
  { subst d. destruct (Nat.eqb (c_cap cfg) 0) eqn:E; [reflexivity|].
    apply Nat.eqb_neq in E. rewrite fcap_loop_spec by lia. reflexivity. }
  destruct (fs_ticks s) as [|dt t]; destruct (gen_loop gen_fuel _ (fs_ctr s) (skipn d l0)) as [i c]; eexists; split; reflexivity.
Qed.

Lemma NoDup_snoc {A} (l : list A) a : NoDup l -> ~ In a l -> NoDup (l ++ [a]).
Proof.
  intros H Ha. induction l as [|x l IH]; simpl; [repeat constructor; auto|].
  inversion H as [|? ? Hx Hl]; subst. constructor.
  - intros Hin. apply in_app_or in Hin as [Hin|[<-|[]]]; [auto | apply Ha; left; reflexivity].
  - apply IH; [exact Hl | intros Hin; apply Ha; right; exact Hin].
Qed.

Section StepAdd.
Variable cfg : scfg.
Hypothesis no_max : c_max cfg = 0%N.
Variables (st : spec_store) (s : file_store) (iss : issued fid).
Hypothesis HR : RF st s iss.
Hypothesis HI : SInv st.

Lemma spec_cap_char mb m :
  let sb0 := box mb (live st) in
  let d := cap_d cfg (length sb0) in
  let nw := {| e_mb := mb; e_k := count_of mb (counts st); e_msg := m |} in
  let '(d1, l2) := add_cap cfg mb (add_l1 st mb m) in
  d1 = firstn d sb0 /\ box mb l2 = skipn d sb0 ++ [nw] /\ (forall mb', mb' <> mb -> box mb' l2 = box mb' (live st)).
Proof.
  intros sb0 d nw. unfold add_cap, add_l1. fold nw.
  assert (Hb : box mb (live st ++ [nw]) = sb0 ++ [nw]).
  { rewrite box_app. simpl. assert (ent_in mb nw = true) as -> by (apply ent_in_eq; reflexivity). reflexivity. }
  assert (Ho : forall mb', mb' <> mb -> box mb' (live st ++ [nw]) = box mb' (live st)).
  { intros mb' Hne. rewrite box_app. simpl. assert (ent_in mb' nw = false) as -> by (apply ent_in_neq; simpl; congruence).
    apply app_nil_r. }
  subst d. unfold cap_d. destruct (Nat.eqb (c_cap cfg) 0) eqn:E.
  - simpl. repeat split; auto.
  - apply Nat.eqb_neq in E. pose proof (drop_oldest_spec mb (length (box mb (live st ++ [nw])) - c_cap cfg) (live st ++ [nw])) as H.
    destruct (drop_oldest mb _ (live st ++ [nw])) as [d1 l2]. destruct H as [H1 [H2 [H3 _]]].
    rewrite Hb in *. rewrite app_length in *. simpl length in *. fold sb0.
    assert (Hd : length sb0 + 1 - c_cap cfg <= length sb0) by lia.
    repeat split.
    + rewrite H1. rewrite firstn_app. replace (length sb0 + 1 - c_cap cfg - length sb0) with 0 by lia. simpl. apply app_nil_r.
    + rewrite H2. rewrite skipn_app. replace (length sb0 + 1 - c_cap cfg - length sb0) with 0 by lia. reflexivity.
    + intros mb' Hne. rewrite H3 by exact Hne. apply Ho. exact Hne.
Qed.

Lemma step_add mb date tag size :
  ~ In (next_id cfg s mb) (iss_of fid mb iss) -> step_ok cfg st s iss (Add mb date tag size).
Proof.
  intros Hfresh. unfold step_ok. cbn [step_impl exec_spec].
  set (m := {| m_date := date; m_tag := tag; m_size := size; m_seen := false |}).
  set (i := next_id cfg s mb) in *.
  set (L := iss_of fid mb iss) in *.
  set (sb0 := box mb (live st)).
  assert (Hlen0 : length (get_index mb s) = length sb0).
  { rewrite (rf_box _ _ _ HR). apply rep_length. }
  destruct (file_add_char cfg s mb m) as [s1 [Hadd Hboxes]]. cbn zeta in Hadd, Hboxes. fold i in Hadd, Hboxes.
  rewrite Hlen0 in Hadd, Hboxes. set (d := cap_d cfg (length sb0)) in *.
  cbn [exec_file]. rewrite Hadd.
  (* abstract side *)
  pose proof (spec_add_LInv cfg st mb m HI) as HI'.
  rewrite spec_add_unfold in *. cbv zeta in *.
  pose proof (spec_cap_char mb m) as Hcap. cbv zeta in Hcap. fold sb0 d in Hcap.
  destruct (add_cap cfg mb (add_l1 st mb m)) as [d1 l2]. destruct Hcap as [Hd1 [Hb2 Ho2]].
  unfold add_fit in *. rewrite no_max in *. simpl N.eqb in *. cbv iota in *.
  set (k := count_of mb (counts st)) in *.
  set (nw := {| e_mb := mb; e_k := k; e_msg := m |}) in *.
  set (st' := {| live := l2; counts := bump mb (counts st) |}) in *.
  set (iss' := bx_set mb (L ++ [i]) iss).
  assert (HL' : iss_of fid mb iss' = L ++ [i]) by (unfold iss', iss_of; apply bx_get_set_same).
  assert (HLo : forall mb', mb' <> mb -> iss_of fid mb' iss' = iss_of fid mb' iss).
  { intros mb' Hne. unfold iss', iss_of. apply bx_get_set_other. congruence. }
  assert (HkL : length L = k) by (apply (rf_len _ _ _ HR)).
  assert (Hnd' : NoDup (L ++ [i])) by (apply NoDup_snoc; [apply (rf_nd _ _ _ HR) | exact Hfresh]).
  assert (HA : forall k0, k0 < length L -> fidof iss' mb k0 = fidof iss mb k0).
  { intros k0 Hk0. unfold fidof. rewrite HL'. apply app_nth1. exact Hk0. }
  assert (HB : fidof iss' mb k = i).
  { unfold fidof. rewrite HL'. rewrite <- HkL. apply nth_middle. }
  assert (Hrep : forall sb, (forall e, In e sb -> In e sb0) -> frep iss' mb sb = frep iss mb sb).
  { intros sb Hsb. unfold frep, rep. apply map_ext_in. intros e He. f_equal. apply HA.
    apply (box_k_lt st s iss HR HI mb). apply Hsb. exact He. }
  assert (Hsk : forall e, In e (skipn d sb0) -> In e sb0).
  { intros e He. rewrite <- (firstn_skipn d sb0). apply in_or_app. right; exact He. }
  assert (Hfi : forall e, In e (firstn d sb0) -> In e sb0).
  { intros e He. rewrite <- (firstn_skipn d sb0). apply in_or_app. left; exact He. }
  (* the new state is related *)
  assert (HR' : RF st' s1 iss').
  { constructor.
    - intros mb'. unfold get_index. rewrite Hboxes. destruct (list_eq_dec N.eq_dec mb' mb) as [->|Hne].
      + rewrite bx_get_set_same. simpl live. rewrite Hb2. unfold frep at 1, rep. rewrite map_app. simpl map.
        cbn [e_k e_msg nw]. rewrite HB. f_equal.
        change (map (fun e => (fidof iss' mb (e_k e), e_msg e)) (skipn d sb0)) with (frep iss' mb (skipn d sb0)).
        rewrite Hrep by exact Hsk. unfold frep, rep. rewrite <- skipn_map.
        change (map (fun e => (fidof iss mb (e_k e), e_msg e)) sb0) with (frep iss mb sb0).
        unfold sb0. rewrite <- (rf_box _ _ _ HR). reflexivity.
      + rewrite bx_get_set_other by congruence. simpl live. rewrite Ho2 by exact Hne.
        unfold frep, rep, fidof. rewrite HLo by exact Hne. apply (rf_box _ _ _ HR).
    - intros mb'. simpl counts. destruct (list_eq_dec N.eq_dec mb' mb) as [->|Hne].
      + rewrite HL', app_length, count_bump_same. simpl. fold k. lia.
      + rewrite HLo by exact Hne. rewrite count_bump_other by congruence. apply (rf_len _ _ _ HR).
    - intros mb'. destruct (list_eq_dec N.eq_dec mb' mb) as [->|Hne].
      + rewrite HL'. exact Hnd'.
      + rewrite HLo by exact Hne. apply (rf_nd _ _ _ HR).
    - rewrite Hboxes. simpl counts.
      destruct (in_dec (list_eq_dec N.eq_dec) mb (map fst (counts st))) as [Hin|Hin].
      + rewrite bump_names_in by exact Hin. rewrite bx_set_names_in; [apply (rf_names _ _ _ HR)|].
        rewrite (rf_names _ _ _ HR). exact Hin.
      + rewrite bump_names_notin by exact Hin. rewrite bx_set_names_notin; [rewrite (rf_names _ _ _ HR); reflexivity|].
        rewrite (rf_names _ _ _ HR). exact Hin.
    - simpl counts. destruct (in_dec (list_eq_dec N.eq_dec) mb (map fst (counts st))) as [Hin|Hin].
      + rewrite bump_names_in by exact Hin. apply (rf_names_nd _ _ _ HR).
      + rewrite bump_names_notin by exact Hin. apply NoDup_snoc; [apply (rf_names_nd _ _ _ HR) | exact Hin]. }
  assert (Hk' : k < length (iss_of fid mb iss')) by (rewrite HL', app_length; simpl; lia).
  fold L. cbn [fst snd map app].
  split; [|split; [|exact HR']].
  - rewrite HkL. f_equal. rewrite <- HB. cbn [find_h].
    apply (get_id_ok st' s1 iss' HR' HI' mb k Hk').
  - rewrite HkL. f_equal. rewrite Hd1.
    rewrite (rf_box _ _ _ HR). fold sb0. unfold frep, rep. rewrite firstn_map, !map_map.
    apply map_ext_in. intros e He. cbn [tr_ev fst]. unfold ev_deleted.
    pose proof (box_k_lt st s iss HR HI mb e (Hfi e He)) as Hke. fold L in Hke.
    rewrite <- HA by exact Hke. rewrite handle_of_fidof; [| rewrite HL'; exact Hnd' | rewrite HL', app_length; simpl; lia].
    specialize (Hfi e He). apply box_in in Hfi as [_ Hm]. rewrite Hm. reflexivity.
Qed.
End StepAdd.

(* ------------------------------------------------------------------ histories *)
Definition fstep (cfg : scfg) := step_impl fid fid_eqb file_store (exec_file cfg).

(** Environment hypothesis of the file store: no add returns an id that an earlier add to the
    same mailbox returned (true when fewer than 10 000 ids are generated per wall-clock second
    and no two process incarnations generate ids in the same second). The [hasID] loop only
    guarantees freshness with respect to the messages still in the mailbox. *)
Fixpoint file_fresh (cfg : scfg) (si : file_store * issued fid) (ops : list op) : Prop :=
  match ops with
  | [] => True
  | o :: ops' =>
      match o with
      | Add mb _ _ _ => ~ In (next_id cfg (fst si) mb) (iss_of fid mb (snd si))
      | _ => True
      end /\ file_fresh cfg (fst (fst (fstep cfg si o))) ops'
  end.

Lemma step_any cfg st s iss o : c_max cfg = 0%N -> RF st s iss -> SInv st ->
  match o with Add mb _ _ _ => ~ In (next_id cfg s mb) (iss_of fid mb iss) | _ => True end ->
  step_ok cfg st s iss o.
Proof.
  intros Hm HR HI Hf. destruct o.
  - apply step_add; assumption.
  - apply step_get; assumption.
  - apply step_list; assumption.
  - apply step_seen; assumption.
  - apply step_remove; assumption.
  - apply step_purge; assumption.
  - apply step_visit; assumption.
Qed.

Lemma RF_init ticks : RF spec_init (file_init ticks) [].
Proof. constructor; simpl; intros; try reflexivity; constructor. Qed.

Lemma file_run_sim cfg : c_max cfg = 0%N -> forall ops st s iss, RF st s iss -> SInv st -> file_fresh cfg (s, iss) ops ->
  run_impl fid fid_eqb file_store (exec_file cfg) (s, iss) ops = run_spec cfg st ops /\
  (let '(s', iss') := final_impl fid fid_eqb file_store (exec_file cfg) (s, iss) ops in RF (final_spec cfg st ops) s' iss').
Proof.
  intros Hm. induction ops as [|o ops IH]; intros st s iss HR HI Hf; [split; [reflexivity | exact HR]|].
  destruct Hf as [Hf1 Hf2]. pose proof (step_any cfg st s iss o Hm HR HI Hf1) as Hs.
  pose proof (exec_spec_SInv cfg st o HI) as HI'.
  unfold step_ok in Hs. unfold fstep in Hf2. cbn [run_impl run_spec final_impl final_spec].
  destruct (step_impl fid fid_eqb file_store (exec_file cfg) (s, iss) o) as [[[s' iss'] ob] evs].
  destruct (exec_spec cfg st o) as [[st' ob'] evs']. destruct Hs as [-> [-> HR']]. simpl in HR', Hf2, HI'.
  destruct (IH st' s' iss' HR' HI' Hf2) as [H1 H2]. split; [f_equal; exact H1 | exact H2].
Qed.

Theorem file_refines_spec cfg ticks ops :
  c_max cfg = 0%N -> file_fresh cfg (file_init ticks, []) ops ->
  run_file cfg ticks ops = run_spec cfg spec_init ops.
Proof.
  intros Hm Hf. unfold run_file. apply file_run_sim; auto using RF_init, SInv_init.
Qed.

(** Non-vacuity: a two-message history satisfies the hypothesis. *)
Example file_fresh_example :
  file_fresh {| c_cap := 1; c_max := 0 |} (file_init [], []) [Add [97%N] 0%Z 0%N 10%N; Add [97%N] 1%Z 1%N 20%N; Lst [97%N]].
Proof. simpl. repeat split; intros H; simpl in H; try tauto; vm_compute in H; intuition discriminate. Qed.

(* ------------------------------------------------------------------ re-opening with another cap *)
(** Freshness of the ids over a segmented history (the environment hypothesis, per segment). *)
Fixpoint file_fresh_segs (st : file_store * issued fid) (segs : list (scfg * list op)) : Prop :=
  match segs with
  | [] => True
  | (cfg, ops) :: r => c_max cfg = 0%N /\ file_fresh cfg st ops /\ file_fresh_segs (final_file_from cfg st ops) r
  end.

Lemma file_segs_sim : forall segs st s iss, RF st s iss -> SInv st -> file_fresh_segs (s, iss) segs ->
  run_file_segs (s, iss) segs = run_spec_segs st segs.
Proof.
  induction segs as [|[cfg ops] r IH]; intros st s iss HR HI Hf; [reflexivity|].
  destruct Hf as [Hm [Hf1 Hf2]]. cbn [run_file_segs run_spec_segs].
  destruct (file_run_sim cfg Hm ops st s iss HR HI Hf1) as [H1 H2].
  unfold run_file_from. rewrite H1. f_equal.
  unfold final_file_from in *. revert H2 Hf2.
  destruct (final_impl fid fid_eqb file_store (exec_file cfg) (s, iss) ops) as [s' iss']. intros H2 Hf2.
  apply IH; [exact H2 | apply final_spec_SInv; exact HI | exact Hf2].
Qed.

(** [file_refines_spec_reopened]: a history in segments, the file store re-opened on the same
    path with another cap between them (n -> smaller n, 0 -> n, n -> 0 -> n, …): segment by
    segment and operation by operation the file-store model answers as the abstract store run
    with the same caps. In particular (cap_keeps_newest holds for ANY state) a mailbox that holds
    more than the new cap keeps them until its next delivery, which leaves exactly the newest cap. *)
Theorem file_refines_spec_reopened ticks segs :
  file_fresh_segs (file_init ticks, []) segs ->
  run_file_segs (file_init ticks, []) segs = run_spec_segs spec_init segs.
Proof. intros H. apply file_segs_sim; auto using RF_init, SInv_init. Qed.

Example reopened_example :
  let a := [97%N] in
  run_file_segs (file_init [], [])
    [ ({| c_cap := 0; c_max := 0 |}, [Add a 1%Z 0%N 10%N; Add a 2%Z 1%N 10%N; Add a 3%Z 2%N 10%N; Add a 4%Z 3%N 10%N; Add a 5%Z 4%N 10%N]);
      ({| c_cap := 3; c_max := 0 |}, [Lst a; Add a 6%Z 5%N 10%N; Lst a]) ] =
  run_spec_segs spec_init
    [ ({| c_cap := 0; c_max := 0 |}, [Add a 1%Z 0%N 10%N; Add a 2%Z 1%N 10%N; Add a 3%Z 2%N 10%N; Add a 4%Z 3%N 10%N; Add a 5%Z 4%N 10%N]);
      ({| c_cap := 3; c_max := 0 |}, [Lst a; Add a 6%Z 5%N 10%N; Lst a]) ] /\
  map (fun p => match fst p with OList l => map fst l | _ => [] end)
      (nth 1 (run_spec_segs spec_init
        [ ({| c_cap := 0; c_max := 0 |}, [Add a 1%Z 0%N 10%N; Add a 2%Z 1%N 10%N; Add a 3%Z 2%N 10%N; Add a 4%Z 3%N 10%N; Add a 5%Z 4%N 10%N]);
          ({| c_cap := 3; c_max := 0 |}, [Lst a; Add a 6%Z 5%N 10%N; Lst a]) ]) [])
  = [[0; 1; 2; 3; 4]; []; [3; 4; 5]].     (* five kept until the next delivery, then exactly the newest three: D E F *)
Proof. vm_compute. split; reflexivity. Qed.

(** C09 — statements of the property, kept at full strength. Those still listed in NOT_PROVED of
    lib/props/c09.py are unproved (see the end of this file); the others are proved in
    Proofs/ConcMemLin.v, ConcMemLinEnf.v, ConcMemIds.v, ConcMemStays.v. They were first kept
    here at full strength; the forced-schedule correspondence check and the runner's
    linearizability oracle (the same [seq_exec]) test them on every run. Each has a sanity
    [Example] showing that it holds on one concrete interleaving. *)
From IV Require Import Model.Conc Model.ConcMem Model.ConcFile Model.ConcEnfSpec.

Definition lop (e : logent) : op := snd (fst e).
Definition lres (e : logent) : res := snd e.

(** Linearizability of the memory store without size limit: the commit steps, in the order they
    happen, are a sequential run of the specification with the very results the threads got, and
    the final mailboxes are the specification's.  (Real-time order holds by construction: a
    commit is a step of its own thread, between that thread's first and last step.) *)
Definition mem_linearizable_stmt : Prop :=
  forall cap ops sched s,
    run (init_sys cap None [] enf0 ops) sched = Fin s ->
    let sp := seq_run true cap [] (map lop (s_log s)) in
    snd sp = map lres (s_log s) /\
    (forall mb, x_lock (getx mb s) = None -> sget mb (fst sp) = x_box (getx mb s)) /\
    (forall t o r, nth_error ops t = Some o -> o <> OVisit -> nth_error (s_thr s) t = Some (PDone r) ->
       In (T t, o, r) (s_log s)).

(** The same with the size limit: evictions appear as removals committed by the enforcer. *)
Definition mem_linearizable_with_enforcer_stmt : Prop :=
  forall cap max ops sched s,
    run (init_sys cap (Some max) [] enf0 ops) sched = Fin s ->
    snd (seq_run true cap [] (map lop (s_log s))) = map lres (s_log s).

(** No two deliveries to one mailbox receive the same id. *)
Definition mem_ids_distinct_stmt : Prop :=
  forall cap max ops sched s t1 t2 mb g1 g2 z1 z2 id,
    run (init_sys cap max [] enf0 ops) sched = Fin s ->
    In (T t1, OAdd mb g1 z1, RId id) (s_log s) -> In (T t2, OAdd mb g2 z2, RId id) (s_log s) -> t1 = t2.

(** A delivery that returned an id is present afterwards unless a removal, purge or eviction of
    that mailbox committed after it. *)
Definition mem_delivered_stays_unless_removed_stmt : Prop :=
  forall ops sched s pre post t mb g z id,
    run (init_sys 0 None [] enf0 ops) sched = Fin s ->
    s_log s = pre ++ (T t, OAdd mb g z, RId id) :: post ->
    (forall e, In e post -> match lop e with ORemove mb' id' => mb' <> mb \/ id' <> id | OPurge mb' => mb' <> mb | _ => True end) ->
    x_lock (getx mb s) = None ->
    find_msg id (b_msgs (x_box (getx mb s))) <> None.

(** Sanity: the linearizability statement's conclusion holds on a concrete interleaving
    (two deliveries, a purge and a listing of the same mailbox overlapping, cap 1). *)
Definition demo_sched : list (who * nat) :=
  [(T 2,0); (T 2,0); (T 3,0); (T 2,0); (T 2,0); (T 3,0); (T 1,0); (T 0,0); (T 0,0); (T 0,0); (T 1,0); (T 0,0); (T 0,0); (T 1,0)]%nat.
Definition demo_check : bool :=
  match run (init_sys 1 None [] enf0 [OAdd 1 1 10; OPurge 1; OAdd 1 3 10; OList 1]) demo_sched with
  | Fin s => all_done s &&
      match s_log s with _ :: _ :: _ :: _ :: _ => true | _ => false end
  | _ => false
  end.
Example mem_linearizable_instance_runs : demo_check = true.
Proof. vm_compute. reflexivity. Qed.
Example mem_linearizable_instance :
  match run (init_sys 1 None [] enf0 [OAdd 1 1 10; OPurge 1; OAdd 1 3 10; OList 1]) demo_sched with
  | Fin s => snd (seq_run true 1 [] (map lop (s_log s))) = map lres (s_log s)
  | _ => False
  end.
Proof. vm_compute. reflexivity. Qed.

(* ------------------------------------------- statements proved elsewhere or NOT proved (see each comment) *)

(** Quiescent accounting (audit aud-store item 4): when everything has finished, the enforcer's book is exactly the
    live messages, curSize is their total and the total is within the limit — for every cap, limit and schedule,
    deliveries carrying pairwise distinct tags (a tag stands for the identity of the Message object).
    PROVED: Proofs/ConcMemQuiesceAll.v (mem_quiescent_accounting_holds), from a linear-ownership invariant for tags
    (ConcMemOwn*.v), the commit log read as a registry tag <-> (mailbox, id) (ConcMemReg.v), distinct ids
    (ConcMemIds.v) and curSize <= max outside the eviction loop (ConcMemQuiesce.v).  The runner still evaluates
    the statement on the model's final state of every forced schedule with a size limit. *)
Definition add_tags_of (ops : list op) : list N := flat_map (fun o => match o with OAdd _ g _ => [g] | _ => [] end) ops.
Definition live_tags (s : msys) : list N := flat_map (fun kb => map m_tag (b_msgs (x_box (snd kb)))) (s_boxes s).
Definition book_tags (s : msys) : list N := map (fun k => m_tag (snd k)) (e_all (s_enf s)).
Fixpoint book_total (l : list ent) : Z := match l with [] => 0%Z | k :: l' => (esize k + book_total l')%Z end.
Definition mem_quiescent_accounting_stmt : Prop :=
  forall cap max ops sched s,
    (0 <= max)%Z -> NoDup (add_tags_of ops) ->
    run (init_sys cap (Some max) [] enf0 ops) sched = Fin s -> all_done s = true ->
    (forall g, In g (book_tags s) <-> In g (live_tags s)) /\ NoDup (book_tags s) /\
    e_cur (s_enf s) = book_total (e_all (s_enf s)) /\ (e_cur (s_enf s) <= max)%Z.

(** The memory-store model refines the sub-action specification [qstep] the runner's oracle uses with a size
    limit (Model/ConcEnfSpec.v). NOT PROVED: [qstep] is validated only by the oracle accepting every forced
    schedule of the real store (24 000 in the thorough tier) and by own breaking edits. *)
Inductive qreach (cap : N) (max : option Z) : qstate * list qpc -> qstate * list qpc -> Prop :=
| qreach_refl c : qreach cap max c c
| qreach_step q pcs t p ch q' p' c0 :
    qreach cap max c0 (q, pcs) -> nth_error pcs t = Some p -> qstep cap max q p ch = Some (q', p') ->
    qreach cap max c0 (q', set_nth t p' pcs).
Definition concmem_refines_qstep_stmt : Prop :=
  forall cap max ops sched s,
    NoDup (add_tags_of ops) ->
    run (init_sys cap max [] enf0 ops) sched = Fin s -> all_done s = true ->
    exists q pcs, qreach cap max (q0, map QStart ops) (q, pcs) /\
      (forall t r, nth_error (s_thr s) t = Some (PDone r) -> exists r', nth_error pcs t = Some (QDone r') /\
                   (forall l, r <> RVisit l -> r' = r)) /\
      (forall mb, sget mb (q_store q) = x_box (getx mb s)).

(** "Every operation completes" (audit item 5): the number of productive steps of any schedule is bounded.
    PROVED for both models: every step strictly decreases a measure — Proofs/ConcMemTerm.v (mem_terminates_holds,
    explicit bound mem_step_bound) and Proofs/ConcFileTerm.v (file_terminates_holds, file_step_bound). *)
Fixpoint productive (s : msys) (sched : list (who * nat)) : nat :=
  match sched with
  | [] => 0
  | (w, c) :: r => match step s w c with
                   | SOk s' => S (productive s' r)
                   | SNoop => productive s r
                   | _ => 0
                   end
  end.
Definition mem_terminates_stmt : Prop :=
  forall cap max ops, (match max with Some z => 0 <= z | None => True end)%Z ->
    exists bound, forall sched, (productive (init_sys cap max [] enf0 ops) sched <= bound)%nat.
Fixpoint fproductive (s : fsys) (sched : list (tid * nat)) : nat :=
  match sched with
  | [] => 0
  | (t, c) :: r => match fstep s t c with
                   | SOk s' => S (fproductive s' r)
                   | SNoop => fproductive s r
                   | _ => 0
                   end
  end.
Definition file_terminates_stmt : Prop :=
  forall g ops, exists bound, forall sched, (fproductive (finit g ops) sched <= bound)%nat.

(** C09 — statements of the property, kept at full strength. Those still listed in NOT_PROVED of
    lib/props/c09.py are unproved (none at present); the others are proved in
    Proofs/ConcMemLin.v, ConcMemLinEnf.v, ConcMemIds.v, ConcMemStays.v. They were first kept
    here at full strength; the forced-schedule correspondence check and the runner's
    linearizability oracle (the same [seq_exec]) test them on every run. Each has a sanity
    [Example] showing that it holds on one concrete interleaving. *)
From IV Require Import Model.Conc Model.ConcMem Model.ConcFile.

Definition lop (e : logent) : op := snd (fst e).
Definition lres (e : logent) : res := snd e.

(** Linearizability of the memory store without size limit: the commit steps, in the order they
    happen, are a sequential run of the specification with the very results the threads got, and
    the final mailboxes are the specification's.  (Real-time order holds by construction: a
    commit is a step of its own thread, between that thread's first and last step.) *)
Definition mem_linearizable_stmt : Prop :=
  forall cap ops sched s,
    run (init_sys cap None [] enf0 ops) sched = Fin s ->
    let sp := seq_run true cap [] (map lop (s_log s)) in
    snd sp = map lres (s_log s) /\
    (forall mb, x_lock (getx mb s) = None -> sget mb (fst sp) = x_box (getx mb s)) /\
    (forall t o r, nth_error ops t = Some o -> o <> OVisit -> nth_error (s_thr s) t = Some (PDone r) ->
       In (T t, o, r) (s_log s)).

(** The same with the size limit: evictions appear as removals committed by the enforcer. *)
Definition mem_linearizable_with_enforcer_stmt : Prop :=
  forall cap max ops sched s,
    run (init_sys cap (Some max) [] enf0 ops) sched = Fin s ->
    snd (seq_run true cap [] (map lop (s_log s))) = map lres (s_log s).

(** No two deliveries to one mailbox receive the same id. *)
Definition mem_ids_distinct_stmt : Prop :=
  forall cap max ops sched s t1 t2 mb g1 g2 z1 z2 id,
    run (init_sys cap max [] enf0 ops) sched = Fin s ->
    In (T t1, OAdd mb g1 z1, RId id) (s_log s) -> In (T t2, OAdd mb g2 z2, RId id) (s_log s) -> t1 = t2.

(** A delivery that returned an id is present afterwards unless a removal, purge or eviction of
    that mailbox committed after it. *)
Definition mem_delivered_stays_unless_removed_stmt : Prop :=
  forall ops sched s pre post t mb g z id,
    run (init_sys 0 None [] enf0 ops) sched = Fin s ->
    s_log s = pre ++ (T t, OAdd mb g z, RId id) :: post ->
    (forall e, In e post -> match lop e with ORemove mb' id' => mb' <> mb \/ id' <> id | OPurge mb' => mb' <> mb | _ => True end) ->
    x_lock (getx mb s) = None ->
    find_msg id (b_msgs (x_box (getx mb s))) <> None.

(** Sanity: the linearizability statement's conclusion holds on a concrete interleaving
    (two deliveries, a purge and a listing of the same mailbox overlapping, cap 1). *)
Definition demo_sched : list (who * nat) :=
  [(T 2,0); (T 2,0); (T 3,0); (T 2,0); (T 2,0); (T 3,0); (T 1,0); (T 0,0); (T 0,0); (T 0,0); (T 1,0); (T 0,0); (T 0,0); (T 1,0)]%nat.
Definition demo_check : bool :=
  match run (init_sys 1 None [] enf0 [OAdd 1 1 10; OPurge 1; OAdd 1 3 10; OList 1]) demo_sched with
  | Fin s => all_done s &&
      match s_log s with _ :: _ :: _ :: _ :: _ => true | _ => false end
  | _ => false
  end.
Example mem_linearizable_instance_runs : demo_check = true.
Proof. vm_compute. reflexivity. Qed.
Example mem_linearizable_instance :
  match run (init_sys 1 None [] enf0 [OAdd 1 1 10; OPurge 1; OAdd 1 3 10; OList 1]) demo_sched with
  | Fin s => snd (seq_run true 1 [] (map lop (s_log s))) = map lres (s_log s)
  | _ => False
  end.
Proof. vm_compute. reflexivity. Qed.

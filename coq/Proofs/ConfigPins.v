(** The policy model's configuration record against the source (Gen/ConfigPins.v, regenerated on every run):
    config.Process lower-cases exactly the five lists [lower_cfg] lower-cases and nothing else of the record; each
    policy predicate of the model depends on exactly the fields its Go counterpart reads; the defaults an operator
    gets without setting anything are "accept everything, store everything", the recipient and size limits of the
    documentation, and the HELO domain the trace headers carry. *)
From IV Require Import Base.Bytes Base.BytesFacts Model.Policy Gen.ConfigPins Proofs.PolicyGlob Proofs.PolicyRules.

Fixpoint assoc {A} (k : str) (t : list (str * A)) : option A :=
  match t with [] => None | (k', v) :: t' => if str_eqb k k' then Some v else assoc k t' end.

(** the model's record, field by field: Go name of the configuration field, projection *)
Definition model_lists : list (str * (pcfg -> list str)) :=
  [([65;99;99;101;112;116;68;111;109;97;105;110;115], accept_l); ([82;101;106;101;99;116;68;111;109;97;105;110;115], reject_l); ([83;116;111;114;101;68;111;109;97;105;110;115], store_l); ([68;105;115;99;97;114;100;68;111;109;97;105;110;115], discard_l); ([82;101;106;101;99;116;79;114;105;103;105;110;68;111;109;97;105;110;115], reject_origin_l)].
Definition model_switches : list (str * (pcfg -> bool)) :=
  [([68;101;102;97;117;108;116;65;99;99;101;112;116], def_accept); ([68;101;102;97;117;108;116;83;116;111;114;101], def_store)].

Definition c_smtp (n : str) : str := [99;46;83;77;84;80;46] ++ n.       (* "c.SMTP." ++ name *)

Theorem lowercased_lists_pinned :
  lowercased_config_lists = map (fun p => c_smtp (fst p)) model_lists /\
  (forall r, Forall (fun p => snd p (lower_cfg r) = map lower (snd p r)) model_lists) /\
  (forall r, Forall (fun p => snd p (lower_cfg r) = snd p r) model_switches).
Proof. split; [reflexivity|]. split; intros r; repeat constructor. Qed.

(** which fields a predicate may depend on: changing any OTHER field of the record does not change its answer *)
Definition set_list (n : str) (v : list str) (r : pcfg) : pcfg :=
  {| def_accept := def_accept r;
     accept_l := if str_eqb n [65;99;99;101;112;116;68;111;109;97;105;110;115] then v else accept_l r;
     reject_l := if str_eqb n [82;101;106;101;99;116;68;111;109;97;105;110;115] then v else reject_l r;
     def_store := def_store r;
     store_l := if str_eqb n [83;116;111;114;101;68;111;109;97;105;110;115] then v else store_l r;
     discard_l := if str_eqb n [68;105;115;99;97;114;100;68;111;109;97;105;110;115] then v else discard_l r;
     reject_origin_l := if str_eqb n [82;101;106;101;99;116;79;114;105;103;105;110;68;111;109;97;105;110;115] then v else reject_origin_l r |}.
Definition set_switch (n : str) (v : bool) (r : pcfg) : pcfg :=
  {| def_accept := if str_eqb n [68;101;102;97;117;108;116;65;99;99;101;112;116] then v else def_accept r; accept_l := accept_l r; reject_l := reject_l r;
     def_store := if str_eqb n [68;101;102;97;117;108;116;83;116;111;114;101] then v else def_store r; store_l := store_l r; discard_l := discard_l r;
     reject_origin_l := reject_origin_l r |}.

Definition reads_of (fn : str) : list str :=
  match assoc fn policy_reads with Some l => l | None => [] end.
Definition n_accept : str := [83;104;111;117;108;100;65;99;99;101;112;116;68;111;109;97;105;110].
Definition n_store : str := [83;104;111;117;108;100;83;116;111;114;101;68;111;109;97;105;110].
Definition n_origin : str := [83;104;111;117;108;100;65;99;99;101;112;116;79;114;105;103;105;110;68;111;109;97;105;110].

Theorem policy_reads_pinned :
  map fst policy_reads = [n_accept; n_store; n_origin] /\
  (forall n, In n (map fst model_lists ++ map fst model_switches) ->
     (mem_str n (reads_of n_accept) = false -> forall r d v b,
        should_accept (set_list n v r) d = should_accept r d /\ should_accept (set_switch n b r) d = should_accept r d) /\
     (mem_str n (reads_of n_store) = false -> forall r d v b,
        should_store (set_list n v r) d = should_store r d /\ should_store (set_switch n b r) d = should_store r d) /\
     (mem_str n (reads_of n_origin) = false -> forall r d v b,
        should_accept_origin (set_list n v r) d = should_accept_origin r d /\
        should_accept_origin (set_switch n b r) d = should_accept_origin r d)).
Proof.
  split; [reflexivity|]. intros n Hin. cbn in Hin.
  repeat (destruct Hin as [<-|Hin];
          [split; [|split]; intros Hm; try (vm_compute in Hm; discriminate Hm); intros r d v b; split; reflexivity|]).
  destruct Hin.
Qed.

(** ... and every field a predicate is said to read does matter to it *)
Example reads_are_not_slack :
  let r0 := {| def_accept := true; accept_l := []; reject_l := []; def_store := true; store_l := []; discard_l := []; reject_origin_l := [] |} in
  should_accept (set_list [82;101;106;101;99;116;68;111;109;97;105;110;115] [[97]] r0) [97] = false /\ should_accept (set_switch [68;101;102;97;117;108;116;65;99;99;101;112;116] false r0) [97] = false /\
  should_accept (set_list [65;99;99;101;112;116;68;111;109;97;105;110;115] [[97]] (set_switch [68;101;102;97;117;108;116;65;99;99;101;112;116] false r0)) [97] = true /\
  should_store (set_list [68;105;115;99;97;114;100;68;111;109;97;105;110;115] [[97]] r0) [97] = false /\ should_store (set_switch [68;101;102;97;117;108;116;83;116;111;114;101] false r0) [97] = false /\
  should_store (set_list [83;116;111;114;101;68;111;109;97;105;110;115] [[97]] (set_switch [68;101;102;97;117;108;116;83;116;111;114;101] false r0)) [97] = true /\
  should_accept_origin (set_list [82;101;106;101;99;116;79;114;105;103;105;110;68;111;109;97;105;110;115] [[97]] r0) [97] = false.
Proof. repeat split; reflexivity. Qed.

(** the defaults of the source *)
Definition default_of (n : str) : option str := assoc n smtp_defaults.
Theorem smtp_defaults_pinned :
  default_of [68;101;102;97;117;108;116;65;99;99;101;112;116] = Some [116;114;117;101] /\ default_of [68;101;102;97;117;108;116;83;116;111;114;101] = Some [116;114;117;101] /\
  default_of [77;97;120;82;101;99;105;112;105;101;110;116;115] = Some [50;48;48] /\ default_of [77;97;120;77;101;115;115;97;103;101;66;121;116;101;115] = Some [49;48;50;52;48;48;48;48] /\
  default_of [68;111;109;97;105;110] = Some [105;110;98;117;99;107;101;116] /\ smtp_domain_default = [105;110;98;117;99;107;101;116] /\
  Forall (fun p => default_of (fst p) = Some []) model_lists.
Proof. repeat split; repeat constructor. Qed.
